(** BSC (Parlia) light client of tibc-go: executable model of
      modules/tibc/light-clients/08-bsc/types/{header,update,snapshot,store,bsc}.go
    as the code is (quirks included):

    - Header.ValidateBasic, verifyHeader, verifyCascadingFields, verifySeal, update,
      ClientState.CheckHeaderAndUpdateState ([direct]) and, one level up,
      02-client keeper.UpdateClient ([update_client]: Status, direct call, SetClientState,
      SetClientConsensusState) with the transaction rule "keep the writes iff no error" ([step]).
    - uint64 arithmetic that can wrap is written out ([sub64]): [height-1], [number-limit]
      in verifySeal, [number-newLimit-i] in update, the int64 gas-limit difference.
    - common.BytesToHash / BytesToAddress (keep the LAST n bytes, left-pad) are modelled
      ([to_hash], [to_addr]); header fields are the raw protobuf byte strings.
    - the recent-signer store is keyed by the full height (revision number, revision height) as in
      the code (key "recentSingers/<rev>-<height>"); snapshot() re-keys it by revision height only,
      later store keys (byte order) overwriting earlier ones ([snap_recents]).
    - verifySeal writes the signer entry BEFORE the difficulty check: a header refused for its
      difficulty leaves that write behind at the level of a direct call ([SealRejectWritten]);
      the transaction rule discards it.

    Abstracted (inputs of the model, computed by the harness independently of the code under test):
      [h_hash]   = Header.Hash() (keccak of the RLP of the normalised header), None when it panics
                   (bloom longer than 256 bytes / nonce longer than 8 bytes);
      [h_signer] = result of ecrecover over the seal hash (None on failure). *)
From Tibc Require Import Base.Bytes.
From Coq Require Import PeanoNat.
Open Scope N_scope.

(* ---------------------------------------------------------------- bytes helpers *)

(** common.BytesToHash (n=32) / common.BytesToAddress (n=20): crop from the left, left-pad *)
Definition left_pad (n : nat) (b : bytes) : bytes :=
  repeat 0 (n - length b)%nat ++ skipn (length b - n)%nat b.
Definition to_hash : bytes -> bytes := left_pad 32.
Definition to_addr : bytes -> bytes := left_pad 20.

Definition zero32 : bytes := repeat 0 32%nat.
(** types.CalcUncleHash(nil) = keccak256(rlp([])) *)
Definition uncle_hash : bytes := hx "1dcc4de8dec75d7aab85b567b6ccd41ad312451b948a7413f0a142fd40d49347".

(** bytes.Compare(a,b) < 0 *)
Fixpoint blt (a b : bytes) : bool :=
  match a, b with
  | _, [] => false
  | [], _ :: _ => true
  | x :: a', y :: b' => (x <? y) || ((x =? y) && blt a' b')
  end.

Definition mem (x : bytes) (l : list bytes) : bool := existsb (beq x) l.

(** snapshot.validators(): the keys of the validator map (a set), sorted ascending.
    Insertion into a strictly ascending list; an element already present is dropped. *)
Fixpoint insert_sorted (x : bytes) (l : list bytes) : list bytes :=
  match l with
  | [] => [x]
  | y :: l' => if blt x y then x :: l else if beq x y then l else y :: insert_sorted x l'
  end.
Definition sorted_vals (vs : list bytes) : list bytes :=
  fold_right insert_sorted [] (map to_addr vs).

(* ---------------------------------------------------------------- uint64 *)

Definition two63 : N := 9223372036854775808.
(** a - b on uint64 *)
Definition sub64 (a b : N) : N := (a mod two64 + two64 - b mod two64) mod two64.
Definition add64 (a b : N) : N := (a + b) mod two64.

(** |int64(p) - int64(g)| as computed by verifyCascadingFields:
      diff := int64(p) - int64(g); if diff < 0 { diff *= -1 }; uint64(diff) *)
Definition gas_absdiff (p g : N) : N :=
  let d := sub64 p g in
  if d <? two63 then d else sub64 0 d.

(* ---------------------------------------------------------------- maps keyed by a height *)

Definition hkey := (N * N)%type.     (* (revision number, revision height) *)
Definition hkey_eqb (a b : hkey) : bool := (fst a =? fst b) && (snd a =? snd b).

Section PMap.
  Context {V : Type}.
  Definition pmap := list (hkey * V).
  Fixpoint plookup (k : hkey) (m : pmap) : option V :=
    match m with
    | [] => None
    | (k', v) :: m' => if hkey_eqb k k' then Some v else plookup k m'
    end.
  Fixpoint pdel (k : hkey) (m : pmap) : pmap :=
    match m with
    | [] => []
    | (k', v) :: m' => if hkey_eqb k k' then pdel k m' else (k', v) :: pdel k m'
    end.
  Definition pset (k : hkey) (v : V) (m : pmap) : pmap := (k, v) :: pdel k m.
End PMap.
Arguments pmap V : clear implicits.

(* ---------------------------------------------------------------- headers and state *)

Record header := Header {
  h_rev : N;              (* Height.RevisionNumber  (not covered by hash or seal) *)
  h_num : N;              (* Height.RevisionHeight = block number *)
  h_parent : bytes;       (* ParentHash, raw *)
  h_uncle : bytes;
  h_coinbase : bytes;
  h_root : bytes;
  h_diff : N;
  h_gaslimit : N;
  h_gasused : N;
  h_time : N;
  h_extra : bytes;        (* vanity(32) ++ validators ++ seal(65) *)
  h_mix : bytes;
  h_hash : option bytes;  (* abstract: Header.Hash(), None = panics *)
  h_signer : option bytes (* abstract: ecrecover(header, chainId) *)
}.

Record cons_state := Cons { c_time : N; c_height : hkey; c_root : bytes }.

Record state := State {
  s_header : header;              (* ClientState.Header: the latest header *)
  s_epoch : N;
  s_trusting : N;
  s_validators : list bytes;      (* ClientState.Validators *)
  s_recents : pmap bytes;         (* client store: recentSingers/<rev>-<height> -> validator bytes *)
  s_pending : list bytes;         (* client store: pendingValidators ([] when the key is absent) *)
  s_cons : pmap cons_state        (* client store: consensusStates/<rev>-<height> *)
}.

Definition hheight (h : header) : hkey := (h_rev h, h_num h).

Definition set_recents (st : state) (r : pmap bytes) : state :=
  State (s_header st) (s_epoch st) (s_trusting st) (s_validators st) r (s_pending st) (s_cons st).
Definition set_cons (st : state) (c : pmap cons_state) : state :=
  State (s_header st) (s_epoch st) (s_trusting st) (s_validators st) (s_recents st) (s_pending st) c.

(* ---------------------------------------------------------------- constants of bsc.go *)

Definition extra_vanity : nat := 32.
Definition extra_seal : nat := 65.
Definition address_length : nat := 20.
Definition gas_limit_bound_divisor : N := 256.
Definition min_gas_limit : N := 5000.          (* go-ethereum params.MinGasLimit *)
Definition gas_cap : N := 9223372036854775807. (* 0x7fffffffffffffff *)
Definition diff_in_turn : N := 2.
Definition diff_no_turn : N := 1.

(* ---------------------------------------------------------------- Header.ValidateBasic *)

Definition validate_basic (h : header) : bool :=
  Nat.leb (extra_vanity + extra_seal) (length (h_extra h))
  && beq (to_hash (h_mix h)) zero32
  && beq (to_hash (h_uncle h)) uncle_hash
  && (if 0 <? h_num h then negb (h_diff h =? 0) else true).

(** number of bytes between vanity and seal *)
Definition signers_bytes (h : header) : nat := (length (h_extra h) - extra_vanity - extra_seal)%nat.

(** the extra-data rules of verifyHeader (epoch = 0 is a division by zero: panic) *)
Definition extra_ok (epoch : N) (h : header) : bool :=
  negb (epoch =? 0)
  && (if h_num h mod epoch =? 0 then Nat.eqb (Nat.modulo (signers_bytes h) address_length) 0
      else Nat.eqb (signers_bytes h) 0).

(* ---------------------------------------------------------------- verifyCascadingFields *)

Definition parent_ok (parent h : header) : bool :=
  (h_num parent =? sub64 (h_num h) 1)
  && match h_hash parent with
     | Some ph => beq ph (to_hash (h_parent h))
     | None => false                       (* parent.Hash() panics *)
     end.

Definition gas_ok (parent h : header) : bool :=
  (h_gaslimit h <=? gas_cap)
  && (h_gasused h <=? h_gaslimit h)
  && (gas_absdiff (h_gaslimit parent) (h_gaslimit h) <? h_gaslimit parent / gas_limit_bound_divisor)
  && (min_gas_limit <=? h_gaslimit h).

(* ---------------------------------------------------------------- snapshot *)

(** fmt.Sprintf("%d-%d", rev, height): the part of the store key after "recentSingers/" *)
Definition rkey_bytes (k : hkey) : bytes := dec (fst k) ++ [45] ++ dec (snd k).

(** snap.Recents: map revision height -> address, filled in ascending store-key order, so of two
    entries with the same revision height the one with the greater key survives *)
Definition shadowed (m : pmap bytes) (e : hkey * bytes) : bool :=
  existsb (fun e' => (snd (fst e') =? snd (fst e)) && blt (rkey_bytes (fst e)) (rkey_bytes (fst e'))) m.
Definition snap_recents (m : pmap bytes) : list (N * bytes) :=
  map (fun e => (snd (fst e), to_addr (snd e))) (filter (fun e => negb (shadowed m e)) m).

(** len(snap.Validators)/2 + 1 *)
Definition seal_limit (st : state) : N := N.of_nat (length (sorted_vals (s_validators st)) / 2 + 1).

(** the recently-signed loop of verifySeal (order of the map iteration is irrelevant: existsb) *)
Definition recently_signed (st : state) (num : N) (signer : bytes) : bool :=
  existsb (fun e => beq (snd e) signer && (sub64 num (seal_limit st) <? fst e))
          (snap_recents (s_recents st)).

(** snapshot.inturn: validators()[(snap.Number+1) % len] == signer, snap.Number = latest header's *)
Definition inturn (st : state) (signer : bytes) : bool :=
  let vs := sorted_vals (s_validators st) in
  let off := add64 (h_num (s_header st)) 1 mod N.of_nat (length vs) in
  beq (nth (N.to_nat off) vs []) signer.

Definition recovered (h : header) : option bytes := option_map to_addr (h_signer h).

(* ---------------------------------------------------------------- verifySeal *)

Inductive seal_result :=
| SealReject                         (* error before any store write *)
| SealRejectWritten (r : pmap bytes) (* error after SetSigner *)
| SealOk (r : pmap bytes).

Definition verify_seal (st : state) (h : header) : seal_result :=
  match recovered h with
  | None => SealReject
  | Some signer =>
      if negb (beq signer (to_addr (h_coinbase h))) then SealReject
      else if negb (mem signer (sorted_vals (s_validators st))) then SealReject
      else if recently_signed st (h_num h) signer then SealReject
      else
        let r := pset (hheight h) signer (s_recents st) in
        let want := if inturn st signer then diff_in_turn else diff_no_turn in
        if h_diff h =? want then SealOk r else SealRejectWritten r
  end.

(** checkValidity = ValidateBasic; verifyHeader; verifyCascadingFields; verifySeal *)
Definition check_validity (st : state) (h : header) : seal_result :=
  if validate_basic h && extra_ok (s_epoch st) h
     && parent_ok (s_header st) h && gas_ok (s_header st) h
  then verify_seal st h else SealReject.

(* ---------------------------------------------------------------- update *)

Fixpoint chunks (k : nat) (b : bytes) : list bytes :=
  match k with
  | O => []
  | S k' => firstn address_length b :: chunks k' (skipn address_length b)
  end.
(** ParseValidators(extra) (the length check was done by verifyHeader) *)
Definition parse_validators (extra : bytes) : list bytes :=
  let vb := firstn (length extra - extra_vanity - extra_seal) (skipn extra_vanity extra) in
  chunks (length vb / address_length) vb.

(** for i := 0; i < cnt; i++ { DeleteSigner(rev, number - newLimit - i) } *)
Fixpoint prune_shrink (rev num newL : N) (i : N) (cnt : nat) (r : pmap bytes) : pmap bytes :=
  match cnt with
  | O => r
  | S c => prune_shrink rev num newL (i + 1) c (pdel (rev, sub64 (sub64 num newL) i) r)
  end.

Definition new_pending (st : state) (h : header) : list bytes :=
  if h_num h mod s_epoch st =? 0 then parse_validators (h_extra h) else s_pending st.

Definition switches (st : state) (h : header) : bool :=
  h_num h mod s_epoch st =? N.of_nat (length (s_validators st) / 2).

Definition new_validators (st : state) (h : header) : list bytes :=
  if switches st h then new_pending st h else s_validators st.

Definition new_recents (st : state) (r : pmap bytes) (h : header) : pmap bytes :=
  let num := h_num h in
  let r1 :=
    if switches st h then
      let oldL := (length (s_validators st) / 2 + 1)%nat in
      let newL := (length (sorted_vals (new_pending st h)) / 2 + 1)%nat in
      prune_shrink (h_rev h) num (N.of_nat newL) 0 (oldL - newL) r
    else r in
  let limit := N.of_nat (length (new_validators st h) / 2 + 1) in
  if limit <=? num then pdel (h_rev h, num - limit) r1 else r1.

Definition new_cons (h : header) : cons_state := Cons (h_time h) (hheight h) (h_root h).

(** update(): returns the new client state (with the store writes) and the consensus state *)
Definition update (st : state) (r : pmap bytes) (h : header) : state * cons_state :=
  (State h (s_epoch st) (s_trusting st) (new_validators st h) (new_recents st r h)
         (new_pending st h) (s_cons st),
   new_cons h).

(* ---------------------------------------------------------------- CheckHeaderAndUpdateState *)

(** direct call on a client store: the store writes persist whatever the result *)
Definition direct (st : state) (h : header) : state * option cons_state :=
  match plookup (hheight (s_header st)) (s_cons st) with
  | None => (st, None)                         (* GetConsensusState(latest) fails *)
  | Some _ =>
      match check_validity st h with
      | SealReject => (st, None)
      | SealRejectWritten r => (set_recents st r, None)
      | SealOk r => let '(st', cs) := update st r h in (st', Some cs)
      end
  end.

(* ---------------------------------------------------------------- 02-client keeper.UpdateClient *)

(** ClientState.Status == Active *)
Definition status_active (st : state) (now : N) : bool :=
  match plookup (hheight (s_header st)) (s_cons st) with
  | None => false
  | Some c => negb (add64 (c_time c) (s_trusting st) <? now)
  end.

Definition update_client (st : state) (now : N) (h : header) : option state :=
  if status_active st now then
    match direct st h with
    | (st', Some cs) => Some (set_cons st' (pset (hheight h) cs (s_cons st')))
    | (_, None) => None
    end
  else None.

(** a MsgUpdateClient transaction: writes are kept iff the handler returned no error *)
Definition step (st : state) (i : N * header) : state :=
  match update_client st (fst i) (snd i) with
  | Some st' => st'
  | None => st
  end.

Definition run (st : state) (is : list (N * header)) : state := fold_left step is st.
