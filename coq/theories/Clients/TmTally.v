(** The two commit tallies of the Tendermint light client (Clients/Tm.v: scan_own = VerifyCommitLight,
    scan_tr = VerifyCommitLightTrusting): exact characterisation as "some prefix of the commit, all
    of whose counted entries are validly signed, crosses the threshold", soundness, completeness,
    and the integer-division thresholds as fractions. *)
From Tibc Require Import Base.Bytes Clients.Tm.
From Coq Require Import ZArith ZifyN ZifyNat ZifyBool Lia.
Ltac Zify.zify_post_hook ::= Z.div_mod_to_equations.
Open Scope Z_scope.

(** * Thresholds *)
Lemma two_thirds_boundary (tally total : Z) :
  total * 2 / 3 < tally <-> 2 * total < 3 * tally.
Proof. lia. Qed.

Lemma fraction_boundary (tally total num den : Z) : 0 < den ->
  total * num / den < tally <-> total * num < tally * den.
Proof. intros Hd. nia. Qed.

Lemma quot_div_nonneg a b : 0 <= a -> 0 < b -> Z.quot a b = a / b.
Proof. intros. apply Z.quot_div_nonneg; lia. Qed.

(** trust levels whose numerator and denominator are int64 naturals *)
Definition tl_wf (num den : N) : Prop :=
  (0 < den)%N /\ (den < 9223372036854775808)%N /\ (num < 9223372036854775808)%N.

Lemma to_int64_small n : (n < 9223372036854775808)%N -> to_int64 n = Z.of_N n.
Proof. intros H. unfold to_int64. destruct (Z.ltb_spec (Z.of_N n) 9223372036854775808); lia. Qed.

(** voting power needed from the trusted set, for a well-formed trust level: the product must
    not overflow int64 (cometbft refuses otherwise), the threshold is the floor of the fraction *)
Lemma trust_needed_wf total num den : tl_wf num den -> 0 <= total ->
  forall q, trust_needed total num den = Some q <->
            total * Z.of_N num <= max_int64 /\ q = total * Z.of_N num / Z.of_N den.
Proof.
  intros (Hd & Hd2 & Hn) Ht q. unfold trust_needed.
  destruct (N.eqb_spec den 0) as [->|_]; [lia|].
  rewrite (to_int64_small num), (to_int64_small den) by assumption.
  unfold safe_mul, abs64, max_int64.
  destruct (Z.eqb_spec total 0) as [->|Ht0]; cbn [orb].
  - rewrite Z.quot_0_l by lia. split; [intros [= <-] | intros [_ ->]].
    + split; [lia|]. rewrite Z.mul_0_l, Z.div_0_l; lia.
    + rewrite Z.mul_0_l, Z.div_0_l; [reflexivity | lia].
  - destruct (Z.eqb_spec (Z.of_N num) 0) as [E|Hn0]; cbn [orb].
    + rewrite E, Z.mul_0_r. rewrite Z.quot_0_l by lia. rewrite Z.div_0_l by lia.
      split; [intros [= <-]; split; lia | intros [_ ->]; reflexivity].
    + destruct (Z.ltb_spec (Z.of_N num) 0); [lia|].
      destruct (Z.ltb_spec total 0); [lia|].
      rewrite quot_div_nonneg by lia.
      destruct (Z.ltb_spec (9223372036854775807 / Z.of_N num) total) as [Ho|Ho].
      * split; [discriminate|]. intros [Hle _]. exfalso. nia.
      * rewrite quot_div_nonneg by nia.
        split; [intros [= <-]; split; [nia | reflexivity] | intros [_ ->]; reflexivity].
Qed.

(** * The own-set scan (by index) *)

(** the same scan on the zipped list *)
Fixpoint scan_ownz (needed : Z) (l : list (validator * csig)) (tally : Z) : bool :=
  match l with
  | [] => needed <? tally
  | (v, s) :: l' =>
      if cs_commit s then
        if cs_ok_own s then
          let t := tally + v_power v in
          if needed <? t then true else scan_ownz needed l' t
        else false
      else scan_ownz needed l' tally
  end.

Lemma scan_own_zip needed : forall vals sigs tally, length vals = length sigs ->
  scan_own needed vals sigs tally = scan_ownz needed (combine vals sigs) tally.
Proof.
  induction vals as [|v vals IH]; intros [|s sigs] tally Hl; try discriminate; [reflexivity|].
  cbn [scan_own combine scan_ownz]. injection Hl as Hl.
  destruct (cs_commit s); [destruct (cs_ok_own s); [|reflexivity]|]; [|apply IH; exact Hl].
  destruct (needed <? tally + v_power v); [reflexivity | apply IH; exact Hl].
Qed.

(** power of the Commit entries / of the validly signed Commit entries of a zipped list *)
Definition commit_power (l : list (validator * csig)) : Z :=
  fold_right (fun e a => (if cs_commit (snd e) then v_power (fst e) else 0) + a) 0 l.
Definition signed_power (l : list (validator * csig)) : Z :=
  fold_right (fun e a => (if cs_commit (snd e) && cs_ok_own (snd e) then v_power (fst e) else 0) + a) 0 l.
(** every Commit entry carries a valid signature *)
Definition all_valid (l : list (validator * csig)) : Prop :=
  Forall (fun e => cs_commit (snd e) = true -> cs_ok_own (snd e) = true) l.

Lemma commit_power_cons e l :
  commit_power (e :: l) = (if cs_commit (snd e) then v_power (fst e) else 0) + commit_power l.
Proof. reflexivity. Qed.
Lemma signed_power_cons e l :
  signed_power (e :: l) = (if cs_commit (snd e) && cs_ok_own (snd e) then v_power (fst e) else 0) + signed_power l.
Proof. reflexivity. Qed.

Lemma commit_power_app a b : commit_power (a ++ b) = commit_power a + commit_power b.
Proof.
  induction a as [|e a IH]; [reflexivity|].
  rewrite <- app_comm_cons, !commit_power_cons, IH. lia.
Qed.
Lemma signed_power_app a b : signed_power (a ++ b) = signed_power a + signed_power b.
Proof.
  induction a as [|e a IH]; [reflexivity|].
  rewrite <- app_comm_cons, !signed_power_cons, IH. lia.
Qed.

Lemma all_valid_signed l : all_valid l -> signed_power l = commit_power l.
Proof.
  induction 1 as [|e l He _ IH]; [reflexivity|].
  rewrite signed_power_cons, commit_power_cons, IH.
  destruct (cs_commit (snd e)); [rewrite He by reflexivity|]; reflexivity.
Qed.

Lemma signed_power_nonneg l : Forall (fun e => 0 <= v_power (fst e)) l -> 0 <= signed_power l.
Proof.
  induction 1 as [|e l He _ IH]; [cbn; lia|].
  rewrite signed_power_cons.
  destruct (cs_commit (snd e) && cs_ok_own (snd e)); lia.
Qed.

(** exact characterisation: some prefix, all of whose Commit entries are validly signed, crosses *)
Definition own_crossing (needed : Z) (l : list (validator * csig)) (tally : Z) : Prop :=
  exists p q, l = p ++ q /\ all_valid p /\ needed < tally + commit_power p.

Lemma scan_ownz_iff needed : forall l tally, tally <= needed ->
  scan_ownz needed l tally = true <-> own_crossing needed l tally.
Proof.
  induction l as [|[v s] l IH]; intros tally Ht.
  - cbn [scan_ownz]. split.
    + intros H. lia.
    + intros (p & q & E & _ & Hc). symmetry in E. apply app_eq_nil in E. destruct E as [-> _]. cbn in Hc. lia.
  - cbn [scan_ownz].
    assert (Hcons : forall p q, (v, s) :: l = p ++ q -> needed < tally + commit_power p ->
              exists p', p = (v, s) :: p' /\ l = p' ++ q).
    { intros [|e p'] q E Hc; [cbn in Hc; lia|]. cbn in E. injection E as -> E. eauto. }
    destruct (cs_commit s) eqn:Ec.
    + destruct (cs_ok_own s) eqn:Eo.
      * cbn zeta. destruct (Z.ltb_spec needed (tally + v_power v)) as [Hx|Hx].
        -- split; [intros _|reflexivity].
           exists [(v, s)], l. split; [reflexivity|]. split.
           ++ constructor; [intros _; exact Eo | constructor].
           ++ cbn. rewrite Ec. lia.
        -- rewrite IH by lia. split.
           ++ intros (p & q & -> & Hv & Hc). exists ((v, s) :: p), q. split; [reflexivity|]. split.
              ** constructor; [intros _; exact Eo | exact Hv].
              ** cbn [commit_power fold_right snd fst]. rewrite Ec. unfold commit_power in Hc. lia.
           ++ intros (p & q & E & Hv & Hc). destruct (Hcons p q E Hc) as (p' & -> & ->).
              exists p', q. split; [reflexivity|]. inversion Hv; subst. split; [assumption|].
              cbn [commit_power fold_right snd fst] in Hc. rewrite Ec in Hc. unfold commit_power. lia.
      * split; [discriminate|].
        intros (p & q & E & Hv & Hc). destruct (Hcons p q E Hc) as (p' & -> & _).
        inversion Hv as [|? ? Hh _]; subst. cbn in Hh. rewrite Hh in Eo by exact Ec. discriminate.
    + rewrite IH by lia. split.
      * intros (p & q & -> & Hv & Hc). exists ((v, s) :: p), q. split; [reflexivity|]. split.
        -- constructor; [cbn; rewrite Ec; discriminate | exact Hv].
        -- cbn [commit_power fold_right snd fst]. rewrite Ec. unfold commit_power in Hc. lia.
      * intros (p & q & E & Hv & Hc). destruct (Hcons p q E Hc) as (p' & -> & ->).
        exists p', q. split; [reflexivity|]. inversion Hv; subst. split; [assumption|].
        cbn [commit_power fold_right snd fst] in Hc. rewrite Ec in Hc. unfold commit_power. lia.
Qed.

(** soundness: acceptance implies that the validly signed Commit power of the whole commit
    exceeds the threshold (powers are not negative) *)
Lemma own_crossing_sound needed l :
  Forall (fun e => 0 <= v_power (fst e)) l ->
  own_crossing needed l 0 -> needed < signed_power l.
Proof.
  intros Hp (p & q & -> & Hv & Hc).
  rewrite signed_power_app, (all_valid_signed p Hv).
  apply Forall_app in Hp. destruct Hp as [_ Hq]. pose proof (signed_power_nonneg q Hq). lia.
Qed.

(** completeness: if every Commit entry is validly signed and their power exceeds the threshold,
    the scan accepts *)
Lemma own_crossing_complete needed l :
  all_valid l -> needed < commit_power l -> own_crossing needed l 0.
Proof. intros Hv Hc. exists l, []. rewrite app_nil_r. repeat split; [exact Hv | lia]. Qed.

(** * The trusted-set scan (by address) *)

(** what the scan sees of one commit entry: index and power of the trusted validator that the
    entry's address denotes, and whether the signature verifies under that validator's key *)
Definition tr_view (tvals : list validator) (s : csig) : option (nat * Z * bool) :=
  if cs_commit s then
    match find_val (cs_addr s) tvals O with
    | Some (i, v) => Some (i, v_power v, cs_ok_tr s)
    | None => None
    end
  else None.

Fixpoint filter_map {A B} (f : A -> option B) (l : list A) : list B :=
  match l with
  | [] => []
  | x :: l' => match f x with Some y => y :: filter_map f l' | None => filter_map f l' end
  end.

Fixpoint scan_idx (needed : Z) (l : list (nat * Z * bool)) (seen : list nat) (tally : Z) : bool :=
  match l with
  | [] => needed <? tally
  | (i, p, ok) :: l' =>
      if mem_nat i seen then false
      else if ok then
        let t := tally + p in
        if needed <? t then true else scan_idx needed l' (i :: seen) t
      else false
  end.

Lemma scan_tr_view needed tvals : forall sigs seen tally,
  scan_tr needed tvals sigs seen tally = scan_idx needed (filter_map (tr_view tvals) sigs) seen tally.
Proof.
  induction sigs as [|s sigs IH]; intros seen tally; [reflexivity|].
  cbn [scan_tr filter_map]. unfold tr_view at 1.
  destruct (cs_commit s); [|apply IH].
  destruct (find_val (cs_addr s) tvals 0) as [[i v]|]; [|apply IH].
  cbn [scan_idx]. destruct (mem_nat i seen); [reflexivity|].
  destruct (cs_ok_tr s); [|reflexivity]. cbn zeta.
  destruct (needed <? tally + v_power v); [reflexivity | apply IH].
Qed.

Definition idx_of (e : nat * Z * bool) : nat := fst (fst e).
Definition pow_of (e : nat * Z * bool) : Z := snd (fst e).
Definition ok_of (e : nat * Z * bool) : bool := snd e.
Definition view_power (l : list (nat * Z * bool)) : Z := fold_right (fun e a => pow_of e + a) 0 l.

Lemma view_power_app a b : view_power (a ++ b) = view_power a + view_power b.
Proof.
  induction a as [|e a IH]; [reflexivity|].
  rewrite <- app_comm_cons. change (pow_of e + view_power (a ++ b) = pow_of e + view_power a + view_power b). rewrite IH. lia.
Qed.

(** a prefix of entries by distinct, not yet seen trusted validators, all validly signed, crosses *)
Definition tr_crossing (needed : Z) (l : list (nat * Z * bool)) (seen : list nat) (tally : Z) : Prop :=
  exists p q, l = p ++ q /\
    Forall (fun e => ok_of e = true) p /\
    NoDup (map idx_of p) /\ (forall i, In i (map idx_of p) -> ~ In i seen) /\
    needed < tally + view_power p.

Lemma mem_nat_spec i l : mem_nat i l = true <-> In i l.
Proof.
  unfold mem_nat. rewrite existsb_exists. split.
  - intros (x & Hx & E). apply Nat.eqb_eq in E. subst. exact Hx.
  - intros H. exists i. split; [exact H | apply Nat.eqb_refl].
Qed.

Lemma scan_idx_iff needed : forall l seen tally, tally <= needed ->
  scan_idx needed l seen tally = true <-> tr_crossing needed l seen tally.
Proof.
  induction l as [|[[i p] ok] l IH]; intros seen tally Ht.
  - cbn [scan_idx]. split.
    + intros H. lia.
    + intros (p & q & E & _ & _ & _ & Hc). symmetry in E. apply app_eq_nil in E. destruct E as [-> _]. cbn in Hc. lia.
  - cbn [scan_idx].
    assert (Hcons : forall p0 q, (i, p, ok) :: l = p0 ++ q -> needed < tally + view_power p0 ->
              exists p', p0 = (i, p, ok) :: p' /\ l = p' ++ q).
    { intros [|e p'] q E Hc; [cbn in Hc; lia|]. cbn in E. injection E as -> E. eauto. }
    destruct (mem_nat i seen) eqn:Em.
    + split; [discriminate|].
      intros (p0 & q & E & _ & _ & Hs & Hc). destruct (Hcons p0 q E Hc) as (p' & -> & _).
      exfalso. apply (Hs i); [left; reflexivity | apply mem_nat_spec; exact Em].
    + assert (Hni : ~ In i seen) by (intros X; apply mem_nat_spec in X; congruence).
      destruct ok.
      * cbn zeta. destruct (Z.ltb_spec needed (tally + p)) as [Hx|Hx].
        -- split; [intros _|reflexivity].
           exists [(i, p, true)], l. split; [reflexivity|]. repeat split.
           ++ constructor; [reflexivity | constructor].
           ++ cbn. constructor; [intros [] | constructor].
           ++ intros j [<-|[]]. exact Hni.
           ++ cbn. unfold pow_of. cbn. lia.
        -- rewrite IH by lia. split.
           ++ intros (p0 & q & -> & Hok & Hnd & Hs & Hc). exists ((i, p, true) :: p0), q.
              split; [reflexivity|]. repeat split.
              ** constructor; [reflexivity | exact Hok].
              ** cbn [map]. constructor; [|exact Hnd]. intros X. apply (Hs _ X). left. reflexivity.
              ** intros j [<-|Hj]; [exact Hni|]. intros X. apply (Hs _ Hj). right. exact X.
              ** cbn [view_power fold_right]. unfold view_power in Hc. unfold pow_of at 1. cbn [fst snd]. lia.
           ++ intros (p0 & q & E & Hok & Hnd & Hs & Hc). destruct (Hcons p0 q E Hc) as (p' & -> & ->).
              exists p', q. split; [reflexivity|]. inversion Hok; subst. cbn [map] in Hnd. inversion Hnd; subst.
              repeat split; [assumption | assumption | |].
              ** intros j Hj [<-|X].
                 --- contradiction.
                 --- apply (Hs j); [right; exact Hj | exact X].
              ** cbn [view_power fold_right] in Hc. unfold pow_of at 1 in Hc. cbn [fst snd] in Hc. unfold view_power. lia.
      * split; [discriminate|].
        intros (p0 & q & E & Hok & _ & _ & Hc). destruct (Hcons p0 q E Hc) as (p' & -> & _).
        inversion Hok as [|? ? Hh _]; subst. discriminate Hh.
Qed.

(** completeness for the trusted set: all entries by trusted validators validly signed, no
    validator twice, power above the threshold => accepted *)
Lemma tr_crossing_complete needed l :
  Forall (fun e => ok_of e = true) l -> NoDup (map idx_of l) -> needed < view_power l ->
  tr_crossing needed l [] 0.
Proof.
  intros Hok Hnd Hc. exists l, []. rewrite app_nil_r.
  split; [reflexivity|]. split; [exact Hok|]. split; [exact Hnd|]. split; [intros i _ []|lia].
Qed.

(** what an entry of the view means *)
Lemma find_val_spec addr : forall tvals k i v,
  find_val addr tvals k = Some (i, v) ->
  (k <= i)%nat /\ nth_error tvals (i - k) = Some v /\ v_addr v = addr /\
  (forall j w, (j < i - k)%nat -> nth_error tvals j = Some w -> v_addr w <> addr).
Proof.
  induction tvals as [|w tvals IH]; intros k i v H; [discriminate|].
  cbn [find_val] in H. destruct (beq (v_addr w) addr) eqn:E.
  - injection H as <- <-. apply beq_spec in E. replace (k - k)%nat with O by lia.
    repeat split; [lia | assumption | intros j w' Hj; lia].
  - apply IH in H. destruct H as (Hk & Hn & Ha & Hf). apply beq_false in E.
    replace (i - k)%nat with (S (i - S k)) by lia. repeat split; [lia | exact Hn | exact Ha |].
    intros j w' Hj Hw. destruct j as [|j]; cbn in Hw.
    + injection Hw as <-. exact E.
    + apply (Hf j w'); [lia | exact Hw].
Qed.

Lemma filter_map_in {A B} (f : A -> option B) l y :
  In y (filter_map f l) <-> exists x, In x l /\ f x = Some y.
Proof.
  induction l as [|x l IH]; cbn [filter_map].
  - split; [intros [] | intros (x & [] & _)].
  - destruct (f x) eqn:E.
    + cbn [In]. rewrite IH. split.
      * intros [<-|(x' & Hx & Hf)]; [exists x; split; [left; reflexivity | exact E] | exists x'; split; [right; exact Hx | exact Hf]].
      * intros (x' & [<-|Hx] & Hf); [left; congruence | right; exists x'; split; assumption].
    + rewrite IH. split.
      * intros (x' & Hx & Hf). exists x'. split; [right; exact Hx | exact Hf].
      * intros (x' & [<-|Hx] & Hf); [congruence | exists x'; split; assumption].
Qed.
