(** Status() of the three light-client types (07-tendermint, 08-bsc, 09-eth
    client_state.go), as functions of the consensus state stored at the
    client's latest height, the trusting period and the block time.

    Block time is (seconds, nanoseconds) with nanoseconds < 10^9, as
    ctx.BlockTime() is.  Tendermint works in nanoseconds (time.Time /
    time.Duration); BSC and ETH keep header timestamps and the trusting period
    in seconds in uint64 and compare with uint64(ctx.BlockTime().Unix()); the
    uint64 addition is written out with its wrap. *)
From Coq Require Import NArith List.
From Tibc Require Import Base.Bytes.
Import ListNotations.
Open Scope N_scope.

Inductive status := Active | Expired | Unknown.

Definition status_code (s : status) : N :=
  match s with Active => 0 | Expired => 1 | Unknown => 2 end.

Definition giga : N := 1000000000.

(** ctx.BlockTime() in nanoseconds since the epoch *)
Definition now_ns (s ns : N) : N := s * giga + ns.

(** 07-tendermint: [ts] is the consensus state's timestamp in ns (None: no
    consensus state at the latest height).  IsExpired: expiration :=
    ts + period; expired iff not (expiration after now), i.e. ts + period <= now *)
Definition tm_status (ts : option N) (period s ns : N) : status :=
  match ts with
  | None => Unknown
  | Some t => if t + period <=? now_ns s ns then Expired else Active
  end.

(** 08-bsc and 09-eth (same code): seconds; expired iff
    (ts + period) mod 2^64 < unix seconds of the block time *)
Definition sec_status (ts : option N) (period s ns : N) : status :=
  match ts with
  | None => Unknown
  | Some t => if (t + period) mod two64 <? s then Expired else Active
  end.

Definition bsc_status := sec_status.
Definition eth_status := sec_status.

(** client type codes used by the correspondence harness *)
Definition status_of (ty : N) (ts : option N) (period s ns : N) : status :=
  match ty with
  | 7 => tm_status ts period s ns
  | 8 => bsc_status ts period s ns
  | _ => eth_status ts period s ns
  end.
