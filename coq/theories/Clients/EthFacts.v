(** Facts about the ETH client model (Clients/Eth.v): acceptance characterisation,
    exact effect, the single-chain invariant over all histories. *)
From Coq Require Import List NArith ZArith Bool Lia ZifyN ZifyNat ZifyBool.
From Tibc Require Import Clients.Eth.
Import ListNotations.
Open Scope N_scope.

(** * association lists *)
Lemma keqb_eq a b : keqb a b = true <-> a = b.
Proof.
  destruct a as [a1 a2], b as [b1 b2]. unfold keqb. cbn [fst snd].
  rewrite andb_true_iff, !N.eqb_eq. split; [intros [-> ->]; reflexivity | intros H; inversion H; auto].
Qed.
Lemma keqb_refl a : keqb a a = true.
Proof. apply keqb_eq. reflexivity. Qed.
Lemma keqb_neq a b : keqb a b = false <-> a <> b.
Proof.
  split.
  - intros H E. apply keqb_eq in E. congruence.
  - intros H. destruct (keqb a b) eqn:E; [apply keqb_eq in E; contradiction | reflexivity].
Qed.

Section PMapFacts.
Context {V : Type}.
Implicit Types m : pmap V.

Lemma pget_pdel k k' m : pget k (pdel k' m) = if keqb k k' then None else pget k m.
Proof.
  induction m as [|[k2 v] m IH]; cbn [pdel pget].
  - destruct (keqb k k'); reflexivity.
  - destruct (keqb k' k2) eqn:E2.
    + rewrite IH. destruct (keqb k k') eqn:E1; [reflexivity|].
      destruct (keqb k k2) eqn:E3; [|reflexivity].
      apply keqb_eq in E2, E3. subst. rewrite keqb_refl in E1. discriminate.
    + cbn [pget]. rewrite IH. destruct (keqb k k2) eqn:E3; [|reflexivity].
      destruct (keqb k k') eqn:E1; [|reflexivity].
      apply keqb_eq in E1, E3. subst. rewrite keqb_refl in E2. discriminate.
Qed.

Lemma pget_pset k k' v m : pget k (pset k' v m) = if keqb k k' then Some v else pget k m.
Proof.
  unfold pset. cbn [pget]. destruct (keqb k k') eqn:E; [reflexivity|].
  rewrite pget_pdel, E. reflexivity.
Qed.

Lemma pget_pset_same k v m : pget k (pset k v m) = Some v.
Proof. rewrite pget_pset, keqb_refl. reflexivity. Qed.

Lemma pdel_absent k m : pget k m = None -> pdel k m = m.
Proof.
  induction m as [|[k2 v] m IH]; cbn [pdel pget]; [reflexivity|].
  destruct (keqb k k2); [discriminate|]. intros H. rewrite IH by exact H. reflexivity.
Qed.

Lemma length_pset_fresh k v m : pget k m = None -> length (pset k v m) = S (length m).
Proof. intros H. unfold pset. rewrite pdel_absent by exact H. reflexivity. Qed.

Lemma pget_pdel_some k k' m x : pget k (pdel k' m) = Some x -> pget k m = Some x.
Proof. rewrite pget_pdel. destruct (keqb k k'); [discriminate | auto]. Qed.
End PMapFacts.

(** * unfolding an accepted update *)
Definition store_step (now : N) (h : header) (s : cstate) : option cstate :=
  match prune now s with
  | None => None
  | Some s1 =>
      let s2 := index_header h s1 in
      match (if h_hash (s_tip s) =? h_parent h then Some (s_main s2) else restrict_chain s2 h) with
      | None => None
      | Some m => Some (St (s_idx s2) (s_rootmain s2) (pset (h_rev h, h_num h) (cons_of h) m) h (s_trust s))
      end
  end.

Lemma eth_update_unfold now seal h s :
  eth_update now seal h s =
  if active now s && validate_basic h && (h_rev h =? h_rev (s_tip s)) && verify_header now seal h s
  then store_step now h s else None.
Proof.
  unfold eth_update, store_step.
  destruct (active now s); cbn [negb andb]; [|reflexivity].
  destruct (validate_basic h); cbn [negb andb]; [|reflexivity].
  destruct (h_rev h =? h_rev (s_tip s)); cbn [negb andb]; [|reflexivity].
  destruct (verify_header now seal h s); cbn [negb]; reflexivity.
Qed.

Lemma verify_header_true now seal h s :
  verify_header now seal h s = true <->
  pget (key_of h) (s_idx s) = None /\
  exists p, pget (h_parent h, pred64 (h_num h)) (s_idx s) = Some p /\
    h_wf p = true /\ h_hash p = h_parent h /\
    h_time h <= now + 15 /\ h_time p < h_time h /\
    gas_limit_ok (h_gaslimit p) (h_gaslimit h) = true /\
    calc_base_fee p = Some (h_basefee h) /\
    calc_difficulty (h_time h) p = h_diff h /\
    seal = true.
Proof.
  unfold verify_header.
  destruct (pget (key_of h) (s_idx s)) as [x|].
  - split; [discriminate | intros [H _]; discriminate].
  - destruct (pget (h_parent h, pred64 (h_num h)) (s_idx s)) as [p|].
    + rewrite !andb_true_iff, N.eqb_eq, N.leb_le, N.ltb_lt, Z.eqb_eq. split.
      * intros [[[[[[[H1 H2] H3] H4] H5] H6] H7] H8]. split; [reflexivity|]. exists p.
        repeat split; auto.
        destruct (calc_base_fee p) as [b|]; [|discriminate]. apply Z.eqb_eq in H6. subst. reflexivity.
      * intros [_ [p' [E [H1 [H2 [H3 [H4 [H5 [H6 [H7 H8]]]]]]]]]]. inversion E; subst p'.
        repeat split; auto. rewrite H6. apply Z.eqb_eq. reflexivity.
    + split; [discriminate | intros [_ [p [E _]]]; discriminate].
Qed.

Lemma active_true now s :
  active now s = true <->
  exists c, pget (h_rev (s_tip s), h_num (s_tip s)) (s_main s) = Some c /\
            now <= (c_time c + s_trust s) mod two64.
Proof.
  unfold active, expired.
  destruct (pget (h_rev (s_tip s), h_num (s_tip s)) (s_main s)) as [c|].
  - rewrite negb_true_iff, N.ltb_ge. split; [intros H; exists c; auto | intros [c' [E H]]; inversion E; subst; exact H].
  - split; [discriminate | intros [c [E _]]; discriminate].
Qed.

(** the iff-characterisation of acceptance (any state) *)
Lemma eth_accept_iff now seal h s :
  (exists s', eth_update now seal h s = Some s') <->
  active now s = true /\ validate_basic h = true /\ h_rev h = h_rev (s_tip s) /\
  verify_header now seal h s = true /\ exists s', store_step now h s = Some s'.
Proof.
  rewrite eth_update_unfold. split.
  - intros [s' H].
    destruct (active now s); [|discriminate]. destruct (validate_basic h); [|discriminate].
    destruct (h_rev h =? h_rev (s_tip s)) eqn:E; [|discriminate].
    destruct (verify_header now seal h s); [|discriminate].
    apply N.eqb_eq in E. repeat split; auto. exists s'. exact H.
  - intros [H1 [H2 [H3 [H4 [s' H5]]]]]. exists s'.
    rewrite H1, H2, H4. apply N.eqb_eq in H3. rewrite H3. exact H5.
Qed.

Lemma eth_update_some now seal h s s' :
  eth_update now seal h s = Some s' ->
  active now s = true /\ validate_basic h = true /\ h_rev h = h_rev (s_tip s) /\
  verify_header now seal h s = true /\ store_step now h s = Some s'.
Proof.
  intros H. assert (G : exists s', eth_update now seal h s = Some s') by (exists s'; exact H).
  apply eth_accept_iff in G. destruct G as [H1 [H2 [H3 [H4 _]]]].
  repeat split; auto. rewrite eth_update_unfold, H1, H2, H4 in H.
  apply N.eqb_eq in H3. rewrite H3 in H. exact H.
Qed.

(** a header that is already stored is refused *)
Lemma eth_duplicate_refused now seal h s x :
  pget (key_of h) (s_idx s) = Some x -> eth_update now seal h s = None.
Proof.
  intros H. rewrite eth_update_unfold.
  assert (verify_header now seal h s = false) as ->.
  { unfold verify_header. rewrite H. reflexivity. }
  rewrite andb_false_r. reflexivity.
Qed.

(** rejection changes nothing *)
Lemma eth_reject_unchanged s o :
  eth_update (o_now o) (o_seal o) (o_hdr o) s = None -> eth_step s o = s.
Proof. intros H. unfold eth_step. rewrite H. reflexivity. Qed.

(** exact effect of an accepted update on the indexes, the latest header and the
    consensus state at the header's height *)
Lemma prune_frame now s s1 :
  prune now s = Some s1 -> s_tip s1 = s_tip s /\ s_trust s1 = s_trust s.
Proof.
  unfold prune. destruct (earliest (s_main s) None) as [k|]; [|intros E; inversion E; auto].
  destruct (pget k (s_main s)) as [c|]; [|intros E; inversion E; auto].
  destruct (expired c (s_trust s) now); [|intros E; inversion E; auto].
  unfold delete_cons. destruct (pget (c_root c, snd k) (s_rootmain s)); [|discriminate].
  intros E; inversion E; auto.
Qed.

Lemma eth_accept_effect now seal h s s' :
  eth_update now seal h s = Some s' ->
  s_tip s' = h /\ s_trust s' = s_trust s /\
  pget (key_of h) (s_idx s') = Some h /\
  pget (h_root h, h_num h) (s_rootmain s') = Some (key_of h) /\
  pget (h_rev h, h_num h) (s_main s') = Some (cons_of h).
Proof.
  intros H. apply eth_update_some in H. destruct H as [_ [_ [_ [_ H]]]].
  unfold store_step in H. destruct (prune now s) as [s1|]; [|discriminate].
  destruct (if h_hash (s_tip s) =? h_parent h then Some (s_main (index_header h s1)) else restrict_chain (index_header h s1) h) as [m|];
    [|discriminate].
  inversion H; subst s'; clear H. cbn [s_tip s_trust s_idx s_rootmain s_main index_header].
  rewrite !pget_pset_same. auto.
Qed.

(** * the chain of accepted headers *)
Inductive linked (acc : list header) : header -> header -> Prop :=
| l_refl x : linked acc x x
| l_step x p y : In p acc -> h_hash p = h_parent x -> h_num p + 1 = h_num x ->
                 linked acc p y -> linked acc x y.

(** premises on the accepted headers *)
Record Good (acc : list header) : Prop := {
  g_hash : forall x y, In x acc -> In y acc -> h_hash x = h_hash y -> x = y;
  g_root : forall x y, In x acc -> In y acc -> h_num x = h_num y -> h_root x = h_root y -> x = y;
  g_num  : forall x, In x acc -> h_num x < two64 - 1 }.

Lemma Good_tail h acc : Good (h :: acc) -> Good acc.
Proof.
  intros [G1 G2 G3]. split; intros.
  - apply G1; auto; right; auto.
  - apply G2; auto; right; auto.
  - apply G3; right; auto.
Qed.

Lemma linked_mono acc h a b : linked acc a b -> linked (h :: acc) a b.
Proof. induction 1; [apply l_refl | eapply l_step; eauto; right; auto]. Qed.

Lemma linked_trans acc a b c : linked acc a b -> linked acc b c -> linked acc a c.
Proof. induction 1; intros; [auto | eapply l_step; eauto]. Qed.

Lemma linked_num_le acc a b : linked acc a b -> h_num b <= h_num a.
Proof. induction 1; lia. Qed.

Lemma linked_in acc a b : linked acc a b -> In a acc -> In b acc.
Proof. induction 1; auto. Qed.

Lemma linked_same_num acc a b : linked acc a b -> h_num b = h_num a -> b = a.
Proof.
  destruct 1 as [|x p y Hp Hh Hn Hl]; [reflexivity|].
  intros E. apply linked_num_le in Hl. lia.
Qed.

(** the path from [t] to a lower header passes through every header linked from [t] above it *)
Definition NoColl (acc : list header) : Prop :=
  forall x y, In x acc -> In y acc -> h_hash x = h_hash y -> x = y.

Lemma linked_through_nc acc t cc x :
  NoColl acc -> linked acc t cc -> linked acc t x -> h_num x < h_num cc -> linked acc cc x.
Proof.
  intros G H. revert x. induction H as [t | t p cc Hp Hh Hn Hl IH]; intros x Hx Hlt; [exact Hx|].
  apply IH; [|exact Hlt].
  destruct Hx as [t | t p' y Hp' Hh' Hn' Hl'].
  - apply linked_num_le in Hl. lia.
  - assert (p' = p) as -> by (apply G; auto; congruence). exact Hl'.
Qed.

Lemma linked_unique_nc acc t x y :
  NoColl acc -> linked acc t x -> linked acc t y -> h_num x = h_num y -> x = y.
Proof.
  intros G Hx. revert y. induction Hx as [t | t p x Hp Hh Hn Hl IH]; intros y Hy E.
  - symmetry. eapply linked_same_num; eauto.
  - destruct Hy as [t | t p' y Hp' Hh' Hn' Hl'].
    + apply linked_num_le in Hl. lia.
    + assert (p' = p) as -> by (apply G; auto; congruence). apply IH; auto.
Qed.

Lemma linked_through acc t cc x :
  Good acc -> linked acc t cc -> linked acc t x -> h_num x < h_num cc -> linked acc cc x.
Proof. intros G. apply linked_through_nc. exact (g_hash _ G). Qed.

Lemma linked_unique acc t x y :
  Good acc -> linked acc t x -> linked acc t y -> h_num x = h_num y -> x = y.
Proof. intros G. apply linked_unique_nc. exact (g_hash _ G). Qed.

(** two headers at one height with the same parent hash have the same ancestors *)
Lemma linked_fork acc cc v x :
  linked acc cc x -> h_num x < h_num cc -> h_parent cc = h_parent v -> h_num cc = h_num v ->
  linked acc v x.
Proof.
  intros H Hlt Hp Hn. destruct H as [cc | cc p y Hin Hh Hnn Hl]; [lia|].
  eapply l_step; eauto; congruence.
Qed.

(** * the invariant *)
Record Inv (s : cstate) (acc : list header) : Prop := {
  i_idx : forall k x, pget k (s_idx s) = Some x -> In x acc /\ k = key_of x;
  i_rm_fwd : forall k x, pget k (s_idx s) = Some x -> pget (h_root x, h_num x) (s_rootmain s) = Some k;
  i_rm_bwd : forall kk k, pget kk (s_rootmain s) = Some k ->
             exists x, In x acc /\ k = key_of x /\ kk = (h_root x, h_num x);
  i_tip : In (s_tip s) acc;
  i_rev : forall x, In x acc -> h_rev x = h_rev (s_tip s);
  i_main_rev : forall r n c, pget (r, n) (s_main s) = Some c -> r = h_rev (s_tip s);
  i_main : forall r n c, n <= h_num (s_tip s) -> pget (r, n) (s_main s) = Some c ->
           exists x, linked acc (s_tip s) x /\ h_num x = n /\ c = cons_of x }.

Lemma key_of_inj_hash x y : key_of x = key_of y -> h_hash x = h_hash y /\ h_num x = h_num y.
Proof. unfold key_of. intros H. inversion H. auto. Qed.

Lemma inv_init h0 trust : Inv (eth_init h0 trust) [h0].
Proof.
  unfold eth_init. split; cbn [s_idx s_rootmain s_main s_tip s_trust pget].
  - intros k x. destruct (keqb k (key_of h0)) eqn:E; [|discriminate].
    intros H; inversion H; subst x. apply keqb_eq in E. split; [left; reflexivity | exact E].
  - intros k x. destruct (keqb k (key_of h0)) eqn:E; [|discriminate].
    intros H; inversion H; subst x. apply keqb_eq in E. subst k. rewrite keqb_refl. reflexivity.
  - intros kk k. destruct (keqb kk (h_root h0, h_num h0)) eqn:E; [|discriminate].
    intros H; inversion H; subst k. apply keqb_eq in E. exists h0. repeat split; auto. left; reflexivity.
  - left; reflexivity.
  - intros x [<-|[]]. reflexivity.
  - intros r n c. destruct (keqb (r, n) (h_rev h0, h_num h0)) eqn:E; [|discriminate].
    intros _. apply keqb_eq in E. inversion E. reflexivity.
  - intros r n c _. destruct (keqb (r, n) (h_rev h0, h_num h0)) eqn:E; [|discriminate].
    intros H; inversion H; subst c. apply keqb_eq in E. inversion E; subst.
    exists h0. repeat split; auto. apply l_refl.
Qed.

(** pruning keeps the invariant (whatever is deleted) *)
Lemma inv_prune now s s1 acc : Inv s acc -> prune now s = Some s1 ->
  Inv s1 acc /\ s_tip s1 = s_tip s /\
  (forall k x, pget k (s_idx s1) = Some x -> pget k (s_idx s) = Some x).
Proof.
  intros I H. unfold prune in H.
  assert (Same : Inv s acc /\ s_tip s = s_tip s /\ (forall k x, pget k (s_idx s) = Some x -> pget k (s_idx s) = Some x))
    by (split; [exact I | split; [reflexivity | auto]]).
  destruct (earliest (s_main s) None) as [k0|]; [|inversion H; subst; exact Same].
  destruct (pget k0 (s_main s)) as [c|]; [|inversion H; subst; exact Same].
  destruct (expired c (s_trust s) now); [|inversion H; subst; exact Same].
  clear Same. unfold delete_cons in H.
  destruct (pget (c_root c, snd k0) (s_rootmain s)) as [ik|] eqn:Erm; [|discriminate].
  inversion H; subst s1; clear H. cbn [s_tip s_idx]. split; [|split; [reflexivity | intros k x; apply pget_pdel_some]].
  destruct I as [I1 I2 I3 I4 I5 I6 I7].
  split; cbn [s_idx s_rootmain s_main s_tip].
  - intros k x Hx. apply pget_pdel_some in Hx. auto.
  - intros k x Hx. rewrite pget_pdel in Hx. destruct (keqb k ik) eqn:E; [discriminate|].
    rewrite pget_pdel. destruct (keqb (h_root x, h_num x) (c_root c, snd k0)) eqn:E2.
    + apply keqb_eq in E2. specialize (I2 _ _ Hx). rewrite E2, Erm in I2. inversion I2; subst ik.
      rewrite keqb_refl in E. discriminate.
    + auto.
  - intros kk k Hk. apply pget_pdel_some in Hk. auto.
  - exact I4.
  - exact I5.
  - intros r n c' Hc. apply pget_pdel_some in Hc. eauto.
  - intros r n c' Hn Hc. apply pget_pdel_some in Hc. eauto.
Qed.

(** indexing a new header keeps the invariant *)
Lemma inv_index h s acc :
  Good (h :: acc) -> Inv s acc -> pget (key_of h) (s_idx s) = None -> h_rev h = h_rev (s_tip s) ->
  Inv (index_header h s) (h :: acc).
Proof.
  intros G [I1 I2 I3 I4 I5 I6 I7] Hnew Hrev. unfold index_header.
  split; cbn [s_idx s_rootmain s_main s_tip].
  - intros k x Hx. rewrite pget_pset in Hx. destruct (keqb k (key_of h)) eqn:E.
    + inversion Hx; subst x. apply keqb_eq in E. split; [left; reflexivity | exact E].
    + destruct (I1 _ _ Hx). split; [right; assumption | assumption].
  - intros k x Hx. rewrite pget_pset in Hx. rewrite pget_pset. destruct (keqb k (key_of h)) eqn:E.
    + inversion Hx; subst x. rewrite keqb_refl. apply keqb_eq in E. subst. reflexivity.
    + destruct (keqb (h_root x, h_num x) (h_root h, h_num h)) eqn:E2; [|auto].
      exfalso. apply keqb_eq in E2. inversion E2. destruct (I1 _ _ Hx) as [Hin Hk].
      assert (x = h) by (apply (g_root _ G); [right; assumption | left; reflexivity | assumption | assumption]).
      subst x. subst k. rewrite keqb_refl in E. discriminate.
  - intros kk k Hk. rewrite pget_pset in Hk. destruct (keqb kk (h_root h, h_num h)) eqn:E.
    + inversion Hk; subst k. apply keqb_eq in E. exists h. repeat split; auto. left; reflexivity.
    + destruct (I3 _ _ Hk) as [x [Hin [Hk1 Hk2]]]. exists x. repeat split; auto. right; assumption.
  - right. exact I4.
  - intros x [<-|Hin]; [exact Hrev | auto].
  - exact I6.
  - intros r n c Hn Hc. destruct (I7 _ _ _ Hn Hc) as [x [Hl [Hx Hcx]]].
    exists x. repeat split; auto. apply linked_mono. exact Hl.
Qed.

(** * RestrictChain *)
Fixpoint heights (l : list header) (a : N) : Prop :=
  match l with
  | [] => True
  | x :: l' => h_num x = a /\ heights l' (a + 1)
  end.

Lemma heights_in l : forall a n, heights l a -> a <= n -> n < a + N.of_nat (length l) ->
  exists x, In x l /\ h_num x = n.
Proof.
  induction l as [|x l IH]; intros a n H H1 H2; cbn [length heights] in *; [lia|].
  destruct H as [Hx Hl]. destruct (N.eq_dec n a) as [->|Hne].
  - exists x. split; [left; reflexivity | exact Hx].
  - destruct (IH (a + 1) n Hl) as [y [Hy Hn]]; [lia | lia |]. exists y. split; [right; exact Hy | exact Hn].
Qed.

Lemma heights_range l : forall a x, heights l a -> In x l -> a <= h_num x /\ h_num x < a + N.of_nat (length l).
Proof.
  induction l as [|y l IH]; intros a x H Hin; cbn [length heights] in *; [contradiction|].
  destruct H as [Hy Hl]. destruct Hin as [<-|Hin]; [lia|].
  destruct (IH _ _ Hl Hin). lia.
Qed.

Lemma rewrite_main_spec idx rv : forall nodes a m m',
  heights nodes a -> a + N.of_nat (length nodes) <= two64 - 1 ->
  Forall (fun x => pget (key_of x) idx = Some x) nodes ->
  rewrite_main idx rv (map h_hash nodes) a m = Some m' ->
  (forall r n, ~ (r = rv /\ a <= n /\ n < a + N.of_nat (length nodes)) -> pget (r, n) m' = pget (r, n) m) /\
  (forall x, In x nodes -> pget (rv, h_num x) m' = Some (cons_of x)).
Proof.
  induction nodes as [|x l IH]; intros a m m' Hh Hb Hf H; cbn [map rewrite_main length heights] in *.
  - inversion H; subst. split; [reflexivity | contradiction].
  - destruct Hh as [Hx Hl]. pose proof (Forall_inv Hf) as Fx; pose proof (Forall_inv_tail Hf) as Fl; cbv beta in Fx.
    unfold key_of in Fx. rewrite Hx in Fx. rewrite Fx in H.
    assert (Es : succ64 a = a + 1) by (unfold succ64; apply N.mod_small; unfold two64 in *; lia).
    rewrite Es in H. destruct (IH _ _ _ Hl ltac:(lia) Fl H) as [A B]. split.
    + intros r n Hn. rewrite A by lia. rewrite pget_pset.
      destruct (keqb (r, n) (rv, a)) eqn:E; [|reflexivity].
      apply keqb_eq in E. inversion E; subst. exfalso. apply Hn. lia.
    + intros y [<-|Hy]; [|apply B; exact Hy].
      rewrite Hx. rewrite A by lia. apply pget_pset_same.
Qed.

Lemma rewrite_main_ok idx rv : forall nodes a m,
  heights nodes a -> a + N.of_nat (length nodes) <= two64 - 1 ->
  Forall (fun x => pget (key_of x) idx = Some x) nodes ->
  exists m', rewrite_main idx rv (map h_hash nodes) a m = Some m'.
Proof.
  induction nodes as [|x l IH]; intros a m Hh Hb Hf; cbn [map rewrite_main length heights] in *.
  - eexists; reflexivity.
  - destruct Hh as [Hx Hl]. pose proof (Forall_inv Hf) as Fx; pose proof (Forall_inv_tail Hf) as Fl; cbv beta in Fx.
    unfold key_of in Fx. rewrite Hx in Fx. rewrite Fx.
    assert (Es : succ64 a = a + 1) by (unfold succ64; apply N.mod_small; unfold two64 in *; lia).
    rewrite Es. apply IH; auto. lia.
Qed.

Section Walk.
Context (acc : list header) (idx : pmap header) (w : header).
Context (Hidx : forall k x, pget k idx = Some x -> In x acc /\ k = key_of x).
Context (Gnum : forall x, In x acc -> h_num x < two64 - 1).

Definition node_ok (x : header) : Prop := linked acc w x /\ pget (key_of x) idx = Some x.

Definition WS (nw : header) (ti : N) (nodes : list header) : Prop :=
  node_ok nw /\ h_num nw = ti /\ heights nodes (ti + 1) /\
  ti + 1 + N.of_nat (length nodes) = h_num w + 1 /\ Forall node_ok nodes.

Lemma parent_step x p : pget (h_parent x, pred64 (h_num x)) idx = Some p ->
  In p acc /\ h_hash p = h_parent x /\ h_num p + 1 = h_num x /\ pget (key_of p) idx = Some p.
Proof.
  intros H. destruct (Hidx _ _ H) as [Hin Hk].
  assert (Hkp : pget (key_of p) idx = Some p) by (rewrite <- Hk; exact H).
  unfold key_of in Hk. injection Hk as E1 E2. specialize (Gnum _ Hin).
  unfold pred64 in E2. repeat split; auto.
  destruct (h_num x =? 0) eqn:E0; unfold two64 in *; lia.
Qed.

Lemma WS_step nw ti nodes p : WS nw ti nodes -> pget (h_parent nw, pred64 (h_num nw)) idx = Some p ->
  0 < ti /\ WS p (pred64 ti) (nw :: nodes).
Proof.
  intros [[Wl Wi] [Wn [Wh [Wlen Wf]]]] Ep.
  destruct (parent_step _ _ Ep) as [Pin [Ph [Pn Pk]]].
  assert (Hpos : 0 < ti) by lia. split; [exact Hpos|].
  assert (Ept : pred64 ti = ti - 1).
  { unfold pred64. destruct (ti =? 0) eqn:E; [lia | reflexivity]. }
  rewrite Ept. unfold WS. split; [split|split; [|split; [|split]]].
  - eapply linked_trans; [exact Wl|]. eapply l_step; eauto. apply l_refl.
  - exact Pk.
  - lia.
  - cbn [heights]. replace (ti - 1 + 1) with ti by lia. split; [exact Wn | exact Wh].
  - cbn [length]. lia.
  - constructor; [split; assumption | exact Wf].
Qed.

Lemma walk_down_spec fuel : forall nw ti si accs nodes nw' ti' accs',
  walk_down fuel idx nw ti si accs = Some (nw', ti', accs') ->
  WS nw ti nodes -> accs = map h_hash nodes -> si <= ti ->
  exists nodes', WS nw' ti' nodes' /\ accs' = map h_hash nodes' /\ ti' = si.
Proof.
  induction fuel as [|f IH]; intros nw ti si accs nodes nw' ti' accs' H W Ea Hle; cbn [walk_down] in H.
  - destruct (si <? ti) eqn:E; [discriminate|]. inversion H; subst. exists nodes. split; [exact W | split; [reflexivity | lia]].
  - destruct (si <? ti) eqn:E.
    + destruct (pget (h_parent nw, pred64 (h_num nw)) idx) as [p|] eqn:Ep; [|discriminate].
      destruct (WS_step _ _ _ _ W Ep) as [Hpos W'].
      apply (IH _ _ _ _ (nw :: nodes)) in H; auto.
      * subst accs. reflexivity.
      * unfold pred64. destruct (ti =? 0) eqn:E0; lia.
    + inversion H; subst. exists nodes. split; [exact W | split; [reflexivity | lia]].
Qed.

Lemma walk_both_spec tip fuel : forall cur nw ti accs nodes nw' ti' accs',
  walk_both fuel idx cur nw ti accs = Some (nw', ti', accs') ->
  WS nw ti nodes -> accs = map h_hash nodes -> linked acc tip cur -> h_num cur = ti ->
  exists nodes' cur', WS nw' ti' nodes' /\ accs' = map h_hash nodes' /\
    linked acc tip cur' /\ h_num cur' = ti' /\ h_parent cur' = h_parent nw'.
Proof.
  induction fuel as [|f IH]; intros cur nw ti accs nodes nw' ti' accs' H W Ea Hl Hn; cbn [walk_both] in H.
  - destruct (h_parent cur =? h_parent nw) eqn:E; [|discriminate]. inversion H; subst.
    exists nodes, cur. apply N.eqb_eq in E. split; [exact W | repeat split; auto].
  - destruct (h_parent cur =? h_parent nw) eqn:E.
    + inversion H; subst. exists nodes, cur. apply N.eqb_eq in E. split; [exact W | repeat split; auto].
    + destruct (pget (h_parent nw, pred64 (h_num nw)) idx) as [pn|] eqn:Epn; [|discriminate].
      destruct (pget (h_parent cur, pred64 (h_num cur)) idx) as [pc|] eqn:Epc; [|discriminate].
      destruct (WS_step _ _ _ _ W Epn) as [Hpos W'].
      destruct (parent_step _ _ Epc) as [Pin [Ph [Pn Pk]]].
      apply (IH _ _ _ _ (nw :: nodes)) in H; auto.
      * subst accs. reflexivity.
      * eapply linked_trans; [exact Hl|]. eapply l_step; eauto. apply l_refl.
      * unfold pred64. destruct (ti =? 0) eqn:E0; lia.
Qed.
End Walk.

Lemma restrict_spec s acc w m :
  Good acc -> Inv s acc -> pget (key_of w) (s_idx s) = Some w ->
  restrict_chain s w = Some m ->
  exists v cc nodes,
    linked acc (s_tip s) cc /\ h_num cc = h_num v /\ h_parent cc = h_parent v /\
    h_num v <= h_num w /\ Forall (fun x => linked acc w x) (v :: nodes) /\
    (forall n, h_num v <= n -> n <= h_num w -> exists x, In x (v :: nodes) /\ h_num x = n) /\
    (forall r n, ~ (r = h_rev w /\ h_num v <= n /\ n <= h_num w) -> pget (r, n) m = pget (r, n) (s_main s)) /\
    (forall x, In x (v :: nodes) -> pget (h_rev w, h_num x) m = Some (cons_of x)).
Proof.
  intros G I Hw H. pose proof (i_idx _ _ I) as Hidx. pose proof (g_num _ G) as Gnum.
  (* the starting point on the old chain *)
  assert (Hstart : forall cur si,
    (if h_num w <? h_num (s_tip s)
     then match pget (h_rev w, h_num w) (s_main s) with
          | Some c => match pget (c_root c, h_num w) (s_rootmain s) with
                      | Some ik => match pget ik (s_idx s) with Some cur => Some (cur, h_num w) | None => None end
                      | None => None end
          | None => None end
     else Some (s_tip s, h_num (s_tip s))) = Some (cur, si) ->
    linked acc (s_tip s) cur /\ h_num cur = si /\ si <= h_num w).
  { intros cur si Hs. destruct (h_num w <? h_num (s_tip s)) eqn:E.
    - destruct (pget (h_rev w, h_num w) (s_main s)) as [c|] eqn:Ec; [|discriminate].
      destruct (pget (c_root c, h_num w) (s_rootmain s)) as [ik|] eqn:Er; [|discriminate].
      destruct (pget ik (s_idx s)) as [cur'|] eqn:Ei; [|discriminate].
      inversion Hs; subst cur' si; clear Hs.
      destruct (i_main _ _ I (h_rev w) (h_num w) c ltac:(lia) Ec) as [x [Hl [Hx Hc]]].
      destruct (i_rm_bwd _ _ I _ _ Er) as [y [Hy [Hk Hkk]]].
      destruct (Hidx _ _ Ei) as [Hcin Hck].
      assert (Hxin : In x acc) by (eapply linked_in; [exact Hl | apply (i_tip _ _ I)]).
      subst c. cbn [cons_of c_root] in Hkk. injection Hkk as R1 R2.
      assert (x = y) by (apply (g_root _ G); auto; congruence). subst y.
      assert (cur = x).
      { apply (g_hash _ G); auto. rewrite Hk in Hck. apply key_of_inj_hash in Hck. symmetry. apply Hck. }
      subst cur. repeat split; auto. lia.
    - inversion Hs; subst. repeat split; [apply l_refl | lia]. }
  unfold restrict_chain in H.
  set (fuel := S (length (s_idx s))) in H.
  match type of H with match ?st with _ => _ end = _ => destruct st as [[cur si]|] eqn:Est; [|discriminate] end.
  destruct (Hstart _ _ eq_refl) as [Hcl [Hcn Hsi]]. clear Hstart Est.
  destruct (walk_down fuel (s_idx s) w (h_num w) si []) as [[[nw1 ti1] acc1]|] eqn:Ew1; [|discriminate].
  destruct (walk_both fuel (s_idx s) cur nw1 ti1 acc1) as [[[nw2 ti2] acc2]|] eqn:Ew2; [|discriminate].
  assert (W0 : WS acc (s_idx s) w w (h_num w) []).
  { unfold WS, node_ok. repeat split; auto. - apply l_refl. - cbn [length]. lia. }
  destruct (walk_down_spec acc (s_idx s) w Hidx Gnum fuel _ _ _ _ [] _ _ _ Ew1 W0 eq_refl Hsi)
    as [nodes1 [W1 [Ea1 Et1]]].
  subst ti1.
  destruct (walk_both_spec acc (s_idx s) w Hidx Gnum (s_tip s) fuel _ _ _ _ nodes1 _ _ _ Ew2 W1 Ea1 Hcl Hcn)
    as [nodes2 [cc [W2 [Ea2 [Hccl [Hccn Hccp]]]]]].
  subst acc2. destruct W2 as [[Wl Wi] [Wn [Wh [Wlen Wf]]]].
  change (h_hash nw2 :: map h_hash nodes2) with (map h_hash (nw2 :: nodes2)) in H.
  assert (Hh : heights (nw2 :: nodes2) ti2) by (cbn [heights]; auto).
  assert (Hlen : ti2 + N.of_nat (length (nw2 :: nodes2)) = h_num w + 1) by (cbn [length]; lia).
  assert (Hwin : In w acc) by (apply (Hidx _ _ Hw)).
  pose proof (Gnum _ Hwin) as Hwn.
  assert (Hf : Forall (fun x => pget (key_of x) (s_idx s) = Some x) (nw2 :: nodes2)).
  { constructor; [exact Wi|]. eapply Forall_impl; [|exact Wf]. intros a [_ Ha]. exact Ha. }
  destruct (rewrite_main_spec _ _ _ _ _ _ Hh ltac:(lia) Hf H) as [A B].
  exists nw2, cc, nodes2. repeat split; auto.
  - congruence.
  - lia.
  - constructor; [exact Wl|]. eapply Forall_impl; [|exact Wf]. intros a [Ha _]. exact Ha.
  - intros n H1 H2. apply (heights_in _ ti2); [exact Hh | lia | lia].
  - intros r n Hn. apply A. intros [E1 [E2 E3]]. apply Hn. lia.
Qed.

(** * an accepted update keeps the invariant *)
Lemma inv_update now seal h s s' acc :
  Good (h :: acc) -> Inv s acc -> eth_update now seal h s = Some s' -> Inv s' (h :: acc).
Proof.
  intros G I H. apply eth_update_some in H. destruct H as [_ [_ [Hrev [Hv Hs]]]].
  apply verify_header_true in Hv. destruct Hv as [Hnew [p [Hp [_ [Hph _]]]]].
  unfold store_step in Hs. destruct (prune now s) as [s1|] eqn:Epr; [|discriminate].
  destruct (inv_prune _ _ _ _ I Epr) as [I1 [Ht1 Hsub]].
  assert (Hnew1 : pget (key_of h) (s_idx s1) = None).
  { destruct (pget (key_of h) (s_idx s1)) eqn:E; [apply Hsub in E; congruence | reflexivity]. }
  assert (I2 : Inv (index_header h s1) (h :: acc)) by (apply inv_index; auto; rewrite Ht1; exact Hrev).
  assert (Hw2 : pget (key_of h) (s_idx (index_header h s1)) = Some h)
    by (unfold index_header; cbn [s_idx]; apply pget_pset_same).
  assert (Htip2 : s_tip (index_header h s1) = s_tip s) by (unfold index_header; cbn [s_tip]; exact Ht1).
  set (s2 := index_header h s1) in *.
  destruct (i_idx _ _ I _ _ Hp) as [Hpin Hpk].
  pose proof (i_main_rev _ _ I2) as Hmr. rewrite Htip2, <- Hrev in Hmr.
  assert (Hrevs : forall x, In x (h :: acc) -> h_rev x = h_rev h).
  { intros x Hx. rewrite (i_rev _ _ I2 x Hx), Htip2. symmetry. exact Hrev. }
  destruct (h_hash (s_tip s) =? h_parent h) eqn:Efork.
  - (* the header extends the latest one *)
    inversion Hs; subst s'; clear Hs. apply N.eqb_eq in Efork.
    assert (p = s_tip s).
    { apply (g_hash _ (Good_tail _ _ G)); auto; [apply (i_tip _ _ I) | congruence]. }
    subst p.
    assert (Hnum : h_num (s_tip s) + 1 = h_num h).
    { unfold key_of in Hpk. injection Hpk as _ E2.
      pose proof (g_num _ (Good_tail _ _ G) _ Hpin) as Hb. unfold pred64 in E2.
      destruct (h_num h =? 0) eqn:E0; unfold two64 in *; lia. }
    split; cbn [s_idx s_rootmain s_main s_tip].
    + apply (i_idx _ _ I2).
    + apply (i_rm_fwd _ _ I2).
    + apply (i_rm_bwd _ _ I2).
    + left; reflexivity.
    + exact Hrevs.
    + intros r n c Hc. rewrite pget_pset in Hc. destruct (keqb (r, n) (h_rev h, h_num h)) eqn:E.
      * apply keqb_eq in E. inversion E. reflexivity.
      * eapply Hmr. exact Hc.
    + intros r n c Hn Hc. rewrite pget_pset in Hc. destruct (keqb (r, n) (h_rev h, h_num h)) eqn:E.
      * inversion Hc; subst c. apply keqb_eq in E. inversion E; subst.
        exists h. repeat split. apply l_refl.
      * assert (r = h_rev h) by (eapply Hmr; exact Hc). subst r.
        assert (n <> h_num h) by (intros ->; rewrite keqb_refl in E; discriminate).
        destruct (i_main _ _ I2 (h_rev h) n c ltac:(rewrite Htip2; lia) Hc) as [x [Hl [Hx Hcx]]].
        rewrite Htip2 in Hl. exists x. repeat split; auto.
        eapply l_step; [right; exact Hpin | exact Efork | exact Hnum | exact Hl].
  - (* fork *)
    destruct (restrict_chain s2 h) as [m|] eqn:Er; [|discriminate]. inversion Hs; subst s'; clear Hs.
    destruct (restrict_spec _ _ _ _ G I2 Hw2 Er) as [v [cc [nodes [Hccl [Hccn [Hccp [Hvle [Hfl [Hcover [A B]]]]]]]]]].
    rewrite Htip2 in Hccl. rewrite Forall_forall in Hfl.
    assert (Hmr2 : forall r n c, pget (r, n) m = Some c -> r = h_rev h).
    { intros r n c Hc. destruct (N.eq_dec r (h_rev h)) as [|Hne]; [assumption|].
      rewrite A in Hc by (intros [? _]; contradiction). eapply Hmr. exact Hc. }
    split; cbn [s_idx s_rootmain s_main s_tip].
    + apply (i_idx _ _ I2).
    + apply (i_rm_fwd _ _ I2).
    + apply (i_rm_bwd _ _ I2).
    + left; reflexivity.
    + exact Hrevs.
    + intros r n c Hc. rewrite pget_pset in Hc. destruct (keqb (r, n) (h_rev h, h_num h)) eqn:E.
      * apply keqb_eq in E. inversion E. reflexivity.
      * eapply Hmr2. exact Hc.
    + intros r n c Hn Hc. rewrite pget_pset in Hc. destruct (keqb (r, n) (h_rev h, h_num h)) eqn:E.
      * inversion Hc; subst c. apply keqb_eq in E. inversion E; subst.
        exists h. repeat split. apply l_refl.
      * assert (r = h_rev h) by (eapply Hmr2; exact Hc). subst r.
        destruct (N.le_gt_cases (h_num v) n) as [Hge|Hlt].
        -- destruct (Hcover n Hge Hn) as [x [Hxin Hxn]].
           rewrite <- Hxn in Hc. rewrite (B x Hxin) in Hc. inversion Hc; subst c.
           exists x. repeat split; auto.
        -- rewrite A in Hc by lia.
           pose proof (linked_num_le _ _ _ Hccl) as Hle.
           destruct (i_main _ _ I2 (h_rev h) n c ltac:(rewrite Htip2; lia) Hc) as [x [Hl [Hx Hcx]]].
           rewrite Htip2 in Hl. exists x. repeat split; auto.
           eapply linked_trans; [apply (Hfl v); left; reflexivity|].
           eapply linked_fork; [eapply (linked_through _ _ cc x G Hccl Hl); lia | lia | exact Hccp | exact Hccn].
Qed.

(** * all histories *)
Lemma run_acc_fst h0 trust ops : fst (eth_run_acc h0 trust ops) = eth_run h0 trust ops.
Proof.
  unfold eth_run_acc, eth_run.
  assert (G : forall sa, fst (fold_left accepted_step ops sa) = fold_left eth_step ops (fst sa)).
  { induction ops as [|o ops IH]; intros sa; cbn [fold_left]; [reflexivity|].
    rewrite IH. f_equal. unfold accepted_step, eth_step.
    destruct (eth_update (o_now o) (o_seal o) (o_hdr o) (fst sa)); reflexivity. }
  apply G.
Qed.

Lemma run_acc_snoc h0 trust ops o :
  eth_run_acc h0 trust (ops ++ [o]) = accepted_step (eth_run_acc h0 trust ops) o.
Proof. unfold eth_run_acc. rewrite fold_left_app. reflexivity. Qed.

Theorem eth_inv_all h0 trust ops :
  Good (eth_accepted h0 trust ops) -> Inv (eth_run h0 trust ops) (eth_accepted h0 trust ops).
Proof.
  unfold eth_accepted. rewrite <- run_acc_fst.
  induction ops as [|o ops IH] using rev_ind; intros G.
  - apply inv_init.
  - rewrite run_acc_snoc in *. unfold accepted_step in *.
    destruct (eth_update (o_now o) (o_seal o) (o_hdr o) (fst (eth_run_acc h0 trust ops))) as [s'|] eqn:E.
    + cbn [fst snd] in *. eapply inv_update; [exact G | apply IH; eapply Good_tail; exact G | exact E].
    + apply IH. exact G.
Qed.

(** the single-chain statement *)
Theorem eth_single_chain h0 trust ops :
  let s := eth_run h0 trust ops in
  let acc := eth_accepted h0 trust ops in
  Good acc ->
  forall r n c, n <= h_num (s_tip s) -> pget (r, n) (s_main s) = Some c ->
    exists x, linked acc (s_tip s) x /\ h_num x = n /\ c = cons_of x /\ In x acc /\
              (forall y, linked acc (s_tip s) y -> h_num y = n -> y = x).
Proof.
  intros s acc G r n c Hn Hc. pose proof (eth_inv_all h0 trust ops G) as I.
  destruct (i_main _ _ I r n c Hn Hc) as [x [Hl [Hx Hcx]]].
  exists x. repeat split; auto.
  - eapply linked_in; [exact Hl | apply (i_tip _ _ I)].
  - intros y Hy Hyn. eapply linked_unique; eauto. congruence.
Qed.

(** * fork switches of any depth succeed while nothing has been pruned *)
Record Full (s : cstate) (acc : list header) (h0 : header) : Prop := {
  f_idx : forall x, In x acc -> pget (key_of x) (s_idx s) = Some x;
  f_root : forall x, In x acc -> linked acc x h0;
  f_main : forall n, h_num h0 <= n -> n <= h_num (s_tip s) ->
           exists c, pget (h_rev (s_tip s), n) (s_main s) = Some c;
  f_len : forall x, In x acc -> (N.to_nat (h_num x - h_num h0) < length (s_idx s))%nat }.

Section WalkOk.
Context (acc : list header) (idx : pmap header) (h0 : header).
Context (Hfull : forall x, In x acc -> pget (key_of x) idx = Some x).
Context (Hroot : forall x, In x acc -> linked acc x h0).
Context (Gnum : forall x, In x acc -> h_num x < two64 - 1).

Lemma parent_found x : In x acc -> h_num h0 < h_num x ->
  exists p, In p acc /\ h_num p + 1 = h_num x /\ pget (h_parent x, pred64 (h_num x)) idx = Some p.
Proof.
  intros Hx Hlt. destruct (Hroot _ Hx) as [x | x p y Hp Hh Hn Hl]; [lia|].
  exists p. repeat split; auto.
  assert (E : (h_parent x, pred64 (h_num x)) = key_of p).
  { unfold key_of, pred64. destruct (h_num x =? 0) eqn:E0; [lia|]. f_equal; [congruence | lia]. }
  rewrite E. apply Hfull. exact Hp.
Qed.

Lemma walk_down_ok fuel : forall nw ti si accs,
  In nw acc -> h_num nw = ti -> h_num h0 <= si -> si <= ti -> (N.to_nat (ti - si) <= fuel)%nat ->
  exists res, walk_down fuel idx nw ti si accs = Some res.
Proof.
  induction fuel as [|f IH]; intros nw ti si accs Hin Hn H0 Hle Hf; cbn [walk_down].
  - destruct (si <? ti) eqn:E; [lia | eexists; reflexivity].
  - destruct (si <? ti) eqn:E; [|eexists; reflexivity].
    destruct (parent_found nw Hin ltac:(lia)) as [p [Hp [Hpn Hpg]]]. rewrite Hpg.
    assert (Ept : pred64 ti = ti - 1) by (unfold pred64; destruct (ti =? 0) eqn:E0; [lia | reflexivity]).
    rewrite Ept. apply IH; auto; lia.
Qed.

Lemma walk_both_ok fuel : forall cur nw ti accs,
  In cur acc -> In nw acc -> h_num cur = ti -> h_num nw = ti -> (N.to_nat (ti - h_num h0) <= fuel)%nat ->
  exists res, walk_both fuel idx cur nw ti accs = Some res.
Proof.
  induction fuel as [|f IH]; intros cur nw ti accs Hc Hn Hcn Hnn Hf; cbn [walk_both].
  - destruct (h_parent cur =? h_parent nw) eqn:E; [eexists; reflexivity|].
    exfalso. pose proof (linked_num_le _ _ _ (Hroot _ Hc)). pose proof (linked_num_le _ _ _ (Hroot _ Hn)).
    assert (h0 = cur) by (eapply linked_same_num; [apply Hroot; exact Hc | lia]).
    assert (h0 = nw) by (eapply linked_same_num; [apply Hroot; exact Hn | lia]).
    subst cur. subst nw. rewrite N.eqb_refl in E. discriminate.
  - destruct (h_parent cur =? h_parent nw) eqn:E; [eexists; reflexivity|].
    pose proof (linked_num_le _ _ _ (Hroot _ Hc)). pose proof (linked_num_le _ _ _ (Hroot _ Hn)).
    assert (Hlt : h_num h0 < ti).
    { destruct (N.eq_dec (h_num h0) ti) as [Heq|]; [|lia]. exfalso.
      assert (h0 = cur) by (eapply linked_same_num; [apply Hroot; exact Hc | lia]).
      assert (h0 = nw) by (eapply linked_same_num; [apply Hroot; exact Hn | lia]).
      subst cur. subst nw. rewrite N.eqb_refl in E. discriminate. }
    destruct (parent_found nw Hn ltac:(lia)) as [pn [Hpn [Hpnn Hpng]]]. rewrite Hpng.
    destruct (parent_found cur Hc ltac:(lia)) as [pc [Hpc [Hpcn Hpcg]]]. rewrite Hpcg.
    assert (Ept : pred64 ti = ti - 1) by (unfold pred64; destruct (ti =? 0) eqn:E0; [lia | reflexivity]).
    rewrite Ept. apply IH; auto; lia.
Qed.
End WalkOk.

Lemma restrict_ok s acc h0 w :
  Good acc -> Inv s acc -> Full s acc h0 -> In w acc ->
  exists m, restrict_chain s w = Some m.
Proof.
  intros G I F Hw. pose proof (i_idx _ _ I) as Hidx. pose proof (g_num _ G) as Gnum.
  pose proof (f_idx _ _ _ F) as Hfull. pose proof (f_root _ _ _ F) as Hroot.
  pose proof (linked_num_le _ _ _ (Hroot _ Hw)) as Hw0.
  pose proof (linked_num_le _ _ _ (Hroot _ (i_tip _ _ I))) as Ht0.
  assert (Hstart : exists cur si,
    (if h_num w <? h_num (s_tip s)
     then match pget (h_rev w, h_num w) (s_main s) with
          | Some c => match pget (c_root c, h_num w) (s_rootmain s) with
                      | Some ik => match pget ik (s_idx s) with Some cur => Some (cur, h_num w) | None => None end
                      | None => None end
          | None => None end
     else Some (s_tip s, h_num (s_tip s))) = Some (cur, si) /\
    In cur acc /\ linked acc (s_tip s) cur /\ h_num cur = si /\ si <= h_num w /\ h_num h0 <= si).
  { destruct (h_num w <? h_num (s_tip s)) eqn:E.
    - destruct (f_main _ _ _ F (h_num w) Hw0 ltac:(lia)) as [c Hc].
      rewrite <- (i_rev _ _ I w Hw) in Hc. rewrite Hc.
      destruct (i_main _ _ I (h_rev w) (h_num w) c ltac:(lia) Hc) as [x [Hl [Hx Hcx]]].
      assert (Hxin : In x acc) by (eapply linked_in; [exact Hl | apply (i_tip _ _ I)]).
      subst c. cbn [cons_of c_root]. rewrite <- Hx.
      rewrite (i_rm_fwd _ _ I _ _ (Hfull _ Hxin)), (Hfull _ Hxin).
      exists x, (h_num x). repeat split; auto; lia.
    - exists (s_tip s), (h_num (s_tip s)). repeat split; auto; [apply (i_tip _ _ I) | apply l_refl | lia]. }
  destruct Hstart as [cur [si [Est [Hcin [Hcl [Hcn [Hsi Hs0]]]]]]].
  unfold restrict_chain. rewrite Est. set (fuel := S (length (s_idx s))).
  pose proof (f_len _ _ _ F w Hw) as Hlen.
  destruct (walk_down_ok acc (s_idx s) h0 Hfull Hroot Gnum fuel w (h_num w) si [] Hw eq_refl Hs0 Hsi
              ltac:(unfold fuel; lia)) as [[[nw1 ti1] acc1] Ew1].
  rewrite Ew1.
  assert (W0 : WS acc (s_idx s) w w (h_num w) []).
  { unfold WS, node_ok. repeat split; auto. - apply l_refl. - cbn [length]. lia. }
  destruct (walk_down_spec acc (s_idx s) w Hidx Gnum fuel _ _ _ _ [] _ _ _ Ew1 W0 eq_refl Hsi)
    as [nodes1 [W1 [Ea1 Et1]]].
  subst ti1.
  assert (Hn1 : In nw1 acc).
  { destruct W1 as [[Wl _] _]. eapply linked_in; [exact Wl | exact Hw]. }
  assert (Hn1n : h_num nw1 = si) by (destruct W1 as [_ [Wn _]]; exact Wn).
  destruct (walk_both_ok acc (s_idx s) h0 Hfull Hroot Gnum fuel cur nw1 si acc1 Hcin Hn1 Hcn Hn1n
              ltac:(unfold fuel; lia)) as [[[nw2 ti2] acc2] Ew2].
  rewrite Ew2.
  destruct (walk_both_spec acc (s_idx s) w Hidx Gnum (s_tip s) fuel _ _ _ _ nodes1 _ _ _ Ew2 W1 Ea1 Hcl Hcn)
    as [nodes2 [cc [W2 [Ea2 _]]]].
  subst acc2. destruct W2 as [[Wl Wi] [Wn [Wh [Wlen Wf]]]].
  change (h_hash nw2 :: map h_hash nodes2) with (map h_hash (nw2 :: nodes2)).
  pose proof (Gnum _ Hw) as Hwn.
  apply rewrite_main_ok.
  - cbn [heights]. auto.
  - cbn [length]. lia.
  - constructor; [exact Wi|]. eapply Forall_impl; [|exact Wf]. intros a [_ Ha]. exact Ha.
Qed.

Lemma full_init h0 trust : Full (eth_init h0 trust) [h0] h0.
Proof.
  unfold eth_init. split; cbn [s_idx s_main s_tip pget length].
  - intros x [<-|[]]. rewrite keqb_refl. reflexivity.
  - intros x [<-|[]]. apply l_refl.
  - intros n H1 H2. assert (n = h_num h0) as -> by lia. rewrite keqb_refl. eexists; reflexivity.
  - intros x [<-|[]]. lia.
Qed.

Lemma full_index h p s acc h0 :
  Good (h :: acc) -> Full s acc h0 -> pget (key_of h) (s_idx s) = None ->
  In p acc -> h_hash p = h_parent h -> h_num p + 1 = h_num h ->
  Full (index_header h s) (h :: acc) h0.
Proof.
  intros G [F1 F2 F3 F4] Hnew Hp Hh Hn. split; unfold index_header; cbn [s_idx s_main s_tip].
  - intros x Hx. rewrite pget_pset. destruct (keqb (key_of x) (key_of h)) eqn:E.
    + apply keqb_eq in E. apply key_of_inj_hash in E. f_equal. symmetry.
      apply (g_hash _ G); [exact Hx | left; reflexivity | apply E].
    + destruct Hx as [<-|Hx]; [rewrite keqb_refl in E; discriminate | auto].
  - intros x [<-|Hx].
    + eapply l_step; [right; exact Hp | exact Hh | exact Hn | apply linked_mono; auto].
    + apply linked_mono; auto.
  - exact F3.
  - intros x Hx. rewrite length_pset_fresh by exact Hnew. destruct Hx as [<-|Hx].
    + specialize (F4 p Hp). pose proof (linked_num_le _ _ _ (F2 p Hp)). lia.
    + specialize (F4 x Hx). lia.
Qed.

Lemma full_update now seal h s s' acc h0 :
  Good (h :: acc) -> Inv s acc -> Full s acc h0 -> prune now s = Some s ->
  eth_update now seal h s = Some s' -> Full s' (h :: acc) h0.
Proof.
  intros G I F Epr H. apply eth_update_some in H. destruct H as [_ [_ [Hrev [Hv Hs]]]].
  apply verify_header_true in Hv. destruct Hv as [Hnew [p [Hp _]]].
  destruct (parent_step acc (s_idx s) (i_idx _ _ I) (g_num _ (Good_tail _ _ G)) h p Hp) as [Hpin [Hph [Hpn _]]].
  unfold store_step in Hs. rewrite Epr in Hs.
  assert (I2 : Inv (index_header h s) (h :: acc)) by (apply inv_index; auto).
  assert (F2 : Full (index_header h s) (h :: acc) h0) by (eapply full_index; eauto).
  assert (Hw2 : pget (key_of h) (s_idx (index_header h s)) = Some h)
    by (unfold index_header; cbn [s_idx]; apply pget_pset_same).
  assert (Htip2 : s_tip (index_header h s) = s_tip s) by reflexivity.
  set (s2 := index_header h s) in *.
  pose proof (f_main _ _ _ F2) as Fm. rewrite Htip2, <- Hrev in Fm.
  destruct (h_hash (s_tip s) =? h_parent h) eqn:Efork.
  - inversion Hs; subst s'; clear Hs. apply N.eqb_eq in Efork.
    assert (p = s_tip s).
    { apply (g_hash _ (Good_tail _ _ G)); auto; [apply (i_tip _ _ I) | congruence]. }
    subst p.
    split; cbn [s_idx s_main s_tip].
    + apply (f_idx _ _ _ F2).
    + apply (f_root _ _ _ F2).
    + intros n H1 H2. rewrite pget_pset. destruct (keqb (h_rev h, n) (h_rev h, h_num h)) eqn:E; [eexists; reflexivity|].
      apply Fm; [exact H1|]. assert (n <> h_num h) by (intros ->; rewrite keqb_refl in E; discriminate). lia.
    + apply (f_len _ _ _ F2).
  - destruct (restrict_chain s2 h) as [m|] eqn:Er; [|discriminate]. inversion Hs; subst s'; clear Hs.
    destruct (restrict_spec _ _ _ _ G I2 Hw2 Er) as [v [cc [nodes [Hccl [Hccn [Hccp [Hvle [Hfl [Hcover [A B]]]]]]]]]].
    rewrite Htip2 in Hccl. pose proof (linked_num_le _ _ _ Hccl) as Hle.
    split; cbn [s_idx s_main s_tip].
    + apply (f_idx _ _ _ F2).
    + apply (f_root _ _ _ F2).
    + intros n H1 H2. rewrite pget_pset. destruct (keqb (h_rev h, n) (h_rev h, h_num h)) eqn:E; [eexists; reflexivity|].
      destruct (N.le_gt_cases (h_num v) n) as [Hge|Hlt].
      * destruct (Hcover n Hge H2) as [x [Hxin Hxn]]. rewrite <- Hxn, (B x Hxin). eexists; reflexivity.
      * rewrite A by lia. apply Fm; [exact H1 | lia].
    + apply (f_len _ _ _ F2).
Qed.

(** acceptance = the stated checks, in every state in which nothing has been pruned *)
Theorem eth_accept_iff_full now seal h s acc h0 :
  Good (h :: acc) -> Inv s acc -> Full s acc h0 -> prune now s = Some s ->
  ((exists s', eth_update now seal h s = Some s') <->
   active now s = true /\ validate_basic h = true /\ h_rev h = h_rev (s_tip s) /\
   verify_header now seal h s = true).
Proof.
  intros G I F Epr. rewrite eth_accept_iff. split.
  - intros [H1 [H2 [H3 [H4 _]]]]. auto.
  - intros [H1 [H2 [H3 H4]]]. repeat split; auto.
    pose proof H4 as Hv. apply verify_header_true in Hv. destruct Hv as [Hnew [p [Hp _]]].
    destruct (parent_step acc (s_idx s) (i_idx _ _ I) (g_num _ (Good_tail _ _ G)) h p Hp) as [Hpin [Hph [Hpn _]]].
    unfold store_step. rewrite Epr.
    destruct (h_hash (s_tip s) =? h_parent h); [eexists; reflexivity|].
    assert (I2 : Inv (index_header h s) (h :: acc)) by (apply inv_index; auto).
    assert (F2 : Full (index_header h s) (h :: acc) h0) by (eapply full_index; eauto).
    destruct (restrict_ok _ _ _ h G I2 F2 ltac:(left; reflexivity)) as [m Hm]. rewrite Hm. eexists; reflexivity.
Qed.

(** histories in which no consensus state is expired at any submission *)
Fixpoint quiet (s : cstate) (ops : list op) : Prop :=
  match ops with
  | [] => True
  | o :: r => prune (o_now o) s = Some s /\ quiet (eth_step s o) r
  end.

Lemma quiet_snoc ops : forall s o,
  quiet s (ops ++ [o]) <->
  quiet s ops /\ prune (o_now o) (fold_left eth_step ops s) = Some (fold_left eth_step ops s).
Proof.
  induction ops as [|a ops IH]; intros s o; cbn [app quiet fold_left].
  - tauto.
  - rewrite IH. tauto.
Qed.

Theorem eth_full_all h0 trust ops :
  Good (eth_accepted h0 trust ops) -> quiet (eth_init h0 trust) ops ->
  Full (eth_run h0 trust ops) (eth_accepted h0 trust ops) h0.
Proof.
  induction ops as [|o ops IH] using rev_ind; intros G Q.
  - apply full_init.
  - apply quiet_snoc in Q. destruct Q as [Q Hp].
    pose proof (eth_inv_all h0 trust ops) as HI.
    change (fold_left eth_step ops (eth_init h0 trust)) with (eth_run h0 trust ops) in Hp.
    unfold eth_accepted in *. rewrite <- run_acc_fst in *. rewrite run_acc_snoc in *.
    unfold accepted_step in *.
    destruct (eth_update (o_now o) (o_seal o) (o_hdr o) (fst (eth_run_acc h0 trust ops))) as [s'|] eqn:E.
    + cbn [fst snd] in *. eapply full_update; [exact G | apply HI; eapply Good_tail; exact G | apply IH; [eapply Good_tail; exact G | exact Q] | exact Hp | exact E].
    + apply IH; assumption.
Qed.

Theorem eth_accept_iff_reachable h0 trust ops now seal h :
  let s := eth_run h0 trust ops in
  Good (h :: eth_accepted h0 trust ops) -> quiet (eth_init h0 trust) ops -> prune now s = Some s ->
  ((exists s', eth_update now seal h s = Some s') <->
   active now s = true /\ validate_basic h = true /\ h_rev h = h_rev (s_tip s) /\
   pget (key_of h) (s_idx s) = None /\
   exists p, pget (h_parent h, pred64 (h_num h)) (s_idx s) = Some p /\
     h_wf p = true /\ h_hash p = h_parent h /\
     h_time h <= now + 15 /\ h_time p < h_time h /\
     gas_limit_ok (h_gaslimit p) (h_gaslimit h) = true /\
     calc_base_fee p = Some (h_basefee h) /\
     calc_difficulty (h_time h) p = h_diff h /\
     seal = true).
Proof.
  intros s G Q Hp. pose proof (Good_tail _ _ G) as G'.
  rewrite (eth_accept_iff_full now seal h s _ h0 G (eth_inv_all _ _ _ G') (eth_full_all _ _ _ G' Q) Hp).
  rewrite verify_header_true. tauto.
Qed.

(** a valid child of ANY accepted header (a fork of any depth) is accepted while
    nothing has been pruned *)
Theorem eth_fork_accepted h0 trust ops now seal h p :
  let s := eth_run h0 trust ops in
  let acc := eth_accepted h0 trust ops in
  Good (h :: acc) -> quiet (eth_init h0 trust) ops -> prune now s = Some s ->
  In p acc -> h_parent h = h_hash p -> h_num h = h_num p + 1 ->
  (forall x, In x acc -> h_hash x <> h_hash h) ->
  active now s = true -> validate_basic h = true -> h_rev h = h_rev (s_tip s) ->
  h_wf p = true -> h_time h <= now + 15 -> h_time p < h_time h ->
  gas_limit_ok (h_gaslimit p) (h_gaslimit h) = true ->
  calc_base_fee p = Some (h_basefee h) -> calc_difficulty (h_time h) p = h_diff h -> seal = true ->
  exists s', eth_update now seal h s = Some s'.
Proof.
  intros s acc G Q Hpr Hp Hph Hpn Hfresh Ha Hb Hr Hwf Ht1 Ht2 Hg Hbf Hd Hs.
  pose proof (Good_tail _ _ G) as G'.
  pose proof (eth_inv_all _ _ _ G') as I. pose proof (eth_full_all _ _ _ G' Q) as F.
  apply (eth_accept_iff_reachable h0 trust ops now seal h G Q Hpr).
  repeat split; auto.
  - destruct (pget (key_of h) (s_idx (eth_run h0 trust ops))) as [x|] eqn:E; [|reflexivity].
    destruct (i_idx _ _ I _ _ E) as [Hx Hk]. apply key_of_inj_hash in Hk. exfalso. apply (Hfresh x Hx). symmetry. apply Hk.
  - exists p. repeat split; auto.
    assert (E : (h_parent h, pred64 (h_num h)) = key_of p).
    { unfold key_of, pred64. destruct (h_num h =? 0) eqn:E0; [lia|]. f_equal; [congruence | lia]. }
    rewrite E. apply (f_idx _ _ _ F). exact Hp.
Qed.

(** * arithmetic of the gas-limit rule, lower bounds of the calculators *)
Lemma gas_limit_ok_spec pgl hgl :
  pgl < 9223372036854775808 -> hgl < 9223372036854775808 ->
  (gas_limit_ok pgl hgl = true <->
   (Z.abs (Z.of_N pgl - Z.of_N hgl) < Z.of_N (pgl / 1024))%Z /\ 5000 <= hgl).
Proof.
  intros Hp Hh. unfold gas_limit_ok, to_i64, wrap_i64, two64.
  rewrite !N.mod_small by lia.
  assert (E1 : (Z.of_N pgl <? 9223372036854775808)%Z = true) by lia.
  assert (E2 : (Z.of_N hgl <? 9223372036854775808)%Z = true) by lia.
  rewrite E1, E2.
  set (d := (Z.of_N pgl - Z.of_N hgl)%Z).
  assert (Ew : ((d + 9223372036854775808) mod 18446744073709551616 - 9223372036854775808 = d)%Z).
  { rewrite Z.mod_small by lia. lia. }
  rewrite Ew.
  assert (Ew2 : ((- d + 9223372036854775808) mod 18446744073709551616 - 9223372036854775808 = - d)%Z).
  { rewrite Z.mod_small by lia. lia. }
  rewrite Ew2.
  rewrite andb_true_iff, negb_true_iff, N.leb_gt, N.leb_le.
  destruct (d <? 0)%Z eqn:Ed.
  - rewrite Z.mod_small by lia. lia.
  - rewrite Z.mod_small by lia. lia.
Qed.

Lemma calc_difficulty_min t p : (131072 <= calc_difficulty t p)%Z.
Proof.
  unfold calc_difficulty.
  match goal with |- context [if (1 <? ?pc)%Z then _ else _] => set (k := pc) end.
  destruct (1 <? k)%Z eqn:E.
  - assert (0 <= 2 ^ (k - 2))%Z by (apply Z.pow_nonneg; lia). lia.
  - lia.
Qed.

Lemma calc_base_fee_nonneg p b : (0 <= h_basefee p)%Z -> calc_base_fee p = Some b -> (0 <= b)%Z.
Proof.
  unfold calc_base_fee. intros H0.
  destruct (h_gasused p =? h_gaslimit p / 2); [intros E; inversion E; subst; exact H0|].
  destruct (h_gaslimit p / 2 =? 0); [discriminate|].
  destruct (h_gaslimit p / 2 <? h_gasused p); intros E; inversion E; lia.
Qed.

(** * every accepted header is a valid child of an accepted header *)
Definition valid_child (p x : header) : Prop :=
  h_hash p = h_parent x /\ h_num p + 1 = h_num x /\ h_rev p = h_rev x /\ h_time p < h_time x /\
  gas_limit_ok (h_gaslimit p) (h_gaslimit x) = true /\ calc_base_fee p = Some (h_basefee x) /\
  calc_difficulty (h_time x) p = h_diff x /\ validate_basic x = true.

Theorem eth_accepted_valid_children h0 trust ops :
  Good (eth_accepted h0 trust ops) ->
  forall x, In x (eth_accepted h0 trust ops) ->
    x = h0 \/ exists p, In p (eth_accepted h0 trust ops) /\ valid_child p x.
Proof.
  induction ops as [|o ops IH] using rev_ind; intros G x Hx.
  - destruct Hx as [<-|[]]. left; reflexivity.
  - pose proof (eth_inv_all h0 trust ops) as HI.
    unfold eth_accepted in *. rewrite <- run_acc_fst in HI. rewrite run_acc_snoc in *.
    unfold accepted_step in *.
    destruct (eth_update (o_now o) (o_seal o) (o_hdr o) (fst (eth_run_acc h0 trust ops))) as [s'|] eqn:E.
    + cbn [fst snd] in *. pose proof (Good_tail _ _ G) as G'. specialize (HI G').
      destruct Hx as [<-|Hx].
      * right. apply eth_update_some in E. destruct E as [_ [Hb [Hrev [Hv _]]]].
        apply verify_header_true in Hv. destruct Hv as [_ [p [Hp [_ [_ [_ [Ht [Hg [Hbf [Hd _]]]]]]]]]].
        destruct (parent_step _ _ (i_idx _ _ HI) (g_num _ G') _ _ Hp) as [Hpin [Hph [Hpn _]]].
        exists p. split; [right; exact Hpin|]. unfold valid_child. repeat split; auto.
        rewrite Hrev. apply (i_rev _ _ HI). exact Hpin.
      * destruct (IH G' x Hx) as [->|[p [Hp Hv]]]; [left; reflexivity | right; exists p; split; [right; exact Hp | exact Hv]].
    + apply IH; assumption.
Qed.

(** EIP-1559: the base fee moves by at most an eighth of the parent's (at least by 1 upwards) *)
Lemma calc_base_fee_bounded p b :
  (0 <= h_basefee p)%Z -> h_gasused p <= 2 * (h_gaslimit p / 2) -> calc_base_fee p = Some b ->
  (Z.abs (b - h_basefee p) <= Z.max (h_basefee p / 8) 1)%Z /\
  (h_gasused p = h_gaslimit p / 2 -> b = h_basefee p) /\
  (h_gaslimit p / 2 < h_gasused p -> (h_basefee p < b)%Z) /\
  (h_gasused p < h_gaslimit p / 2 -> (b <= h_basefee p)%Z).
Proof.
  unfold calc_base_fee. intros H0 Hu.
  set (t := h_gaslimit p / 2) in *. set (bf := h_basefee p) in *. set (u := h_gasused p) in *.
  destruct (u =? t) eqn:E1.
  - intros E; inversion E; subst b. lia.
  - destruct (t =? 0) eqn:E2; [discriminate|].
    assert (Hdiv : forall d, (0 <= d <= Z.of_N t)%Z -> (0 <= bf * d / Z.of_N t / 8 <= bf / 8)%Z).
    { intros d Hd. assert (0 <= bf * d / Z.of_N t <= bf)%Z.
      { split; [apply Z.div_pos; nia|]. apply Z.div_le_upper_bound; nia. }
      split; [apply Z.div_pos; lia | apply Z.div_le_mono; lia]. }
    destruct (t <? u) eqn:E3; intros E; inversion E; subst b; clear E.
    + specialize (Hdiv (Z.of_N (u - t)) ltac:(lia)). lia.
    + specialize (Hdiv (Z.of_N (t - u)) ltac:(lia)). lia.
Qed.
