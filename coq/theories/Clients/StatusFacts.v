From Coq Require Import NArith List Lia ZArith.
From Coq Require Import ZifyN ZifyBool.
From Tibc Require Import Base.Bytes Clients.Status.
Open Scope N_scope.
Ltac Zify.zify_post_hook ::= Z.div_mod_to_equations.

Lemma tm_status_iff ts period s ns :
  (tm_status ts period s ns = Unknown <-> ts = None) /\
  (tm_status ts period s ns = Expired <-> exists t, ts = Some t /\ t + period <= now_ns s ns) /\
  (tm_status ts period s ns = Active <-> exists t, ts = Some t /\ now_ns s ns < t + period).
Proof.
  unfold tm_status. destruct ts as [t|].
  - destruct (N.leb_spec (t + period) (now_ns s ns)).
    + split; [split; discriminate|]. split.
      * split; [intros _; exists t; split; [reflexivity|lia]|reflexivity].
      * split; [discriminate|]. intros [t' [E L]]. inversion E; subst. lia.
    + split; [split; discriminate|]. split.
      * split; [discriminate|]. intros [t' [E L]]. inversion E; subst. lia.
      * split; [intros _; exists t; split; [reflexivity|lia]|reflexivity].
  - split; [split; reflexivity|]. split; (split; [discriminate|intros [t [E _]]; discriminate]).
Qed.

Lemma sec_status_iff ts period s ns :
  (forall t, ts = Some t -> t + period < two64) ->
  (sec_status ts period s ns = Unknown <-> ts = None) /\
  (sec_status ts period s ns = Expired <-> exists t, ts = Some t /\ t + period < s) /\
  (sec_status ts period s ns = Active <-> exists t, ts = Some t /\ s <= t + period).
Proof.
  intros NW. unfold sec_status. destruct ts as [t|].
  - specialize (NW t eq_refl). rewrite N.mod_small by exact NW.
    destruct (N.ltb_spec (t + period) s).
    + split; [split; discriminate|]. split.
      * split; [intros _; exists t; split; [reflexivity|lia]|reflexivity].
      * split; [discriminate|]. intros [t' [E L]]. inversion E; subst. lia.
    + split; [split; discriminate|]. split.
      * split; [discriminate|]. intros [t' [E L]]. inversion E; subst. lia.
      * split; [intros _; exists t; split; [reflexivity|lia]|reflexivity].
  - split; [split; reflexivity|]. split; (split; [discriminate|intros [t [E _]]; discriminate]).
Qed.

(** the sub-second part of the block time is irrelevant for BSC / ETH *)
Lemma sec_status_ignores_subsecond ts period s ns ns' :
  sec_status ts period s ns = sec_status ts period s ns'.
Proof. reflexivity. Qed.

(** ... and for Tendermint it matters exactly through the nanosecond clock *)
Lemma tm_status_clock ts period s ns s' ns' :
  now_ns s ns = now_ns s' ns' -> tm_status ts period s ns = tm_status ts period s' ns'.
Proof. unfold tm_status. intros ->. reflexivity. Qed.

(** the property, uniformly, in the client's own unit:
    age := now - ts (clock of the client's unit).
    age > period -> Expired ;  age < period -> Active.  (At age = period
    Tendermint says Expired, BSC/ETH say Active.) *)
Lemma tm_frozen t period s ns :
  t + period < now_ns s ns -> tm_status (Some t) period s ns = Expired.
Proof. intros L. unfold tm_status. destruct (N.leb_spec (t + period) (now_ns s ns)); [reflexivity|lia]. Qed.
Lemma tm_live t period s ns :
  now_ns s ns < t + period -> tm_status (Some t) period s ns = Active.
Proof. intros L. unfold tm_status. destruct (N.leb_spec (t + period) (now_ns s ns)); [lia|reflexivity]. Qed.
Lemma tm_boundary t period s ns :
  now_ns s ns = t + period -> tm_status (Some t) period s ns = Expired.
Proof. intros L. unfold tm_status. destruct (N.leb_spec (t + period) (now_ns s ns)); [reflexivity|lia]. Qed.

Lemma sec_frozen t period s ns :
  t + period < two64 -> t + period < s -> sec_status (Some t) period s ns = Expired.
Proof. intros NW L. unfold sec_status. rewrite N.mod_small by exact NW.
  destruct (N.ltb_spec (t + period) s); [reflexivity|lia]. Qed.
Lemma sec_live t period s ns :
  t + period < two64 -> s <= t + period -> sec_status (Some t) period s ns = Active.
Proof. intros NW L. unfold sec_status. rewrite N.mod_small by exact NW.
  destruct (N.ltb_spec (t + period) s); [lia|reflexivity]. Qed.

(** the uint64 sum wraps: with a trusting period close to 2^64 a client inside
    its trusting period reports Expired *)
Lemma sec_status_wrap_witness :
  let t := 1700000000 in let period := two64 - 10 in let s := 1700000001 in
  s <= t + period /\ sec_status (Some t) period s 0 = Expired.
Proof. vm_compute. split; [discriminate|reflexivity]. Qed.
