(** Facts about the BSC client model (Clients/Bsc.v): acceptance characterisation, exact effect,
    rejection, maps and ordering lemmas.  History invariants are in BscHistory.v. *)
From Tibc Require Import Base.Bytes Clients.Bsc.
From Coq Require Import PeanoNat ZArith ZifyN ZifyNat ZifyBool Permutation Sorted.
Ltac Zify.zify_post_hook ::= Z.div_mod_to_equations.
Open Scope N_scope.

(* ---------------------------------------------------------------- small helpers *)

Lemma mem_spec x l : mem x l = true <-> In x l.
Proof.
  unfold mem. rewrite existsb_exists. split.
  - intros [y [Hy E]]. apply beq_spec in E. subst. exact Hy.
  - intros H. exists x. split; [exact H | apply beq_refl].
Qed.

Lemma hkey_eqb_spec a b : hkey_eqb a b = true <-> a = b.
Proof.
  destruct a as [a1 a2], b as [b1 b2]. unfold hkey_eqb. cbn [fst snd].
  rewrite andb_true_iff, !N.eqb_eq. split; [intros [-> ->]; reflexivity | intros E; inversion E; auto].
Qed.

Lemma hkey_eqb_refl a : hkey_eqb a a = true.
Proof. apply hkey_eqb_spec. reflexivity. Qed.

Lemma hkey_eqb_neq a b : a <> b -> hkey_eqb a b = false.
Proof.
  intros H. destruct (hkey_eqb a b) eqn:E; [apply hkey_eqb_spec in E; contradiction | reflexivity].
Qed.

Lemma hkey_eqb_false a b : hkey_eqb a b = false -> a <> b.
Proof. intros E H. subst. rewrite hkey_eqb_refl in E. discriminate. Qed.

(* ---------------------------------------------------------------- maps keyed by a height *)

Section PMapFacts.
  Context {V : Type}.
  Implicit Types (m : pmap V) (k : hkey).

  Lemma plookup_pdel_eq k m : plookup k (pdel k m) = None.
  Proof.
    induction m as [|[k' v] m IH]; [reflexivity|]. cbn [pdel].
    destruct (hkey_eqb k k') eqn:E; [exact IH|]. cbn [plookup]. rewrite E. exact IH.
  Qed.

  Lemma plookup_pdel_neq k k' m : k <> k' -> plookup k (pdel k' m) = plookup k m.
  Proof.
    intros H. induction m as [|[k2 v] m IH]; [reflexivity|]. cbn [pdel plookup].
    destruct (hkey_eqb k' k2) eqn:E.
    - apply hkey_eqb_spec in E. subst k2. rewrite (hkey_eqb_neq k k') by exact H. exact IH.
    - cbn [plookup]. destruct (hkey_eqb k k2); [reflexivity | exact IH].
  Qed.

  Lemma plookup_pset_eq k v m : plookup k (pset k v m) = Some v.
  Proof. unfold pset. cbn [plookup]. rewrite hkey_eqb_refl. reflexivity. Qed.

  Lemma plookup_pset_neq k k' v m : k <> k' -> plookup k (pset k' v m) = plookup k m.
  Proof.
    intros H. unfold pset. cbn [plookup]. rewrite (hkey_eqb_neq k k') by exact H.
    apply plookup_pdel_neq. exact H.
  Qed.

  Lemma plookup_pdel_some k k' m v : plookup k (pdel k' m) = Some v -> plookup k m = Some v /\ k <> k'.
  Proof.
    intros H. destruct (hkey_eqb k k') eqn:E.
    - apply hkey_eqb_spec in E. subst. rewrite plookup_pdel_eq in H. discriminate.
    - apply hkey_eqb_false in E. rewrite plookup_pdel_neq in H by exact E. auto.
  Qed.

  Lemma in_pdel e k m : In e (pdel k m) -> In e m /\ fst e <> k.
  Proof.
    induction m as [|[k' v] m IH]; [intros []|]. cbn [pdel].
    destruct (hkey_eqb k k') eqn:E.
    - intros H. destruct (IH H). split; [right; assumption | assumption].
    - intros [H|H].
      + subst e. split; [left; reflexivity|]. cbn [fst]. apply hkey_eqb_false in E. congruence.
      + destruct (IH H). split; [right; assumption | assumption].
  Qed.

  Lemma in_pdel_intro e k m : In e m -> fst e <> k -> In e (pdel k m).
  Proof.
    induction m as [|[k' v] m IH]; [intros []|]. intros [H|H] Hk; cbn [pdel].
    - subst e. cbn [fst] in Hk. rewrite hkey_eqb_neq by congruence. left. reflexivity.
    - destruct (hkey_eqb k k'); [apply IH; assumption | right; apply IH; assumption].
  Qed.

  Definition nodupk m : Prop := NoDup (map fst m).

  Lemma nodupk_pdel k m : nodupk m -> nodupk (pdel k m).
  Proof.
    unfold nodupk. induction m as [|[k' v] m IH]; [auto|]. cbn [pdel map fst]. intros H.
    inversion H as [|? ? Hn Hd]; subst. destruct (hkey_eqb k k'); [apply IH; exact Hd|].
    cbn [map fst]. constructor; [|apply IH; exact Hd].
    intros Hin. apply Hn. apply in_map_iff in Hin. destruct Hin as [e [E He]].
    apply in_pdel in He. apply in_map_iff. exists e. tauto.
  Qed.

  Lemma nodupk_pset k v m : nodupk m -> nodupk (pset k v m).
  Proof.
    intros H. unfold pset, nodupk. cbn [map fst]. constructor; [|apply nodupk_pdel; exact H].
    intros Hin. apply in_map_iff in Hin. destruct Hin as [e [E He]]. apply in_pdel in He. tauto.
  Qed.

  Lemma plookup_in k v m : plookup k m = Some v -> In (k, v) m.
  Proof.
    induction m as [|[k' v'] m IH]; [discriminate|]. cbn [plookup].
    destruct (hkey_eqb k k') eqn:E.
    - apply hkey_eqb_spec in E. intros H. inversion H. subst. left. reflexivity.
    - intros H. right. apply IH. exact H.
  Qed.

  Lemma in_plookup k v m : nodupk m -> In (k, v) m -> plookup k m = Some v.
  Proof.
    unfold nodupk. induction m as [|[k' v'] m IH]; [intros _ []|]. cbn [map fst]. intros Hd [H|H].
    - inversion H. subst. cbn [plookup]. rewrite hkey_eqb_refl. reflexivity.
    - inversion Hd as [|? ? Hn Hd']; subst. cbn [plookup]. destruct (hkey_eqb k k') eqn:E.
      + apply hkey_eqb_spec in E. subst. exfalso. apply Hn. apply in_map_iff. exists (k', v). auto.
      + apply IH; assumption.
  Qed.
End PMapFacts.

(* ---------------------------------------------------------------- byte-order on addresses *)

Lemma blt_irrefl a : blt a a = false.
Proof.
  induction a as [|x a IH]; [reflexivity|]. cbn [blt]. rewrite N.ltb_irrefl, N.eqb_refl, IH. reflexivity.
Qed.

Lemma blt_trans a : forall b c, blt a b = true -> blt b c = true -> blt a c = true.
Proof.
  induction a as [|x a IH]; intros [|y b] [|z c]; cbn [blt]; try discriminate; try reflexivity.
  rewrite !orb_true_iff, !andb_true_iff, !N.ltb_lt, !N.eqb_eq.
  intros [H1|[H1 H1']] [H2|[H2 H2']].
  - left. lia.
  - left. lia.
  - left. lia.
  - right. split; [lia | eapply IH; eassumption].
Qed.

Lemma blt_total a : forall b, blt a b = true \/ a = b \/ blt b a = true.
Proof.
  induction a as [|x a IH]; intros [|y b]; cbn [blt]; auto.
  destruct (N.lt_trichotomy x y) as [H|[H|H]].
  - left. apply orb_true_iff. left. apply N.ltb_lt. exact H.
  - subst y. destruct (IH b) as [H|[H|H]].
    + left. rewrite N.eqb_refl, H. apply orb_true_r.
    + right. left. subst. reflexivity.
    + right. right. rewrite N.eqb_refl, H. apply orb_true_r.
  - right. right. apply orb_true_iff. left. apply N.ltb_lt. exact H.
Qed.

Lemma blt_asym a b : blt a b = true -> blt b a = false.
Proof.
  intros H. destruct (blt b a) eqn:E; [|reflexivity].
  pose proof (blt_trans _ _ _ H E) as T. rewrite blt_irrefl in T. discriminate.
Qed.

Definition bltP (a b : bytes) : Prop := blt a b = true.

(* ---------------------------------------------------------------- sorted validator set *)

Lemma insert_sorted_in x y l : In y (insert_sorted x l) <-> y = x \/ In y l.
Proof.
  induction l as [|z l IH]; cbn [insert_sorted].
  - cbn. intuition.
  - destruct (blt x z); [cbn; intuition|]. destruct (beq x z) eqn:E.
    + apply beq_spec in E. subst. cbn. intuition.
    + cbn [In]. rewrite IH. intuition.
Qed.

Lemma insert_sorted_sorted x l : StronglySorted bltP l -> StronglySorted bltP (insert_sorted x l).
Proof.
  induction l as [|z l IH]; intros H; cbn [insert_sorted].
  - repeat constructor.
  - inversion H as [|? ? Hs Hf]; subst. destruct (blt x z) eqn:E1.
    + constructor; [exact H|]. constructor; [exact E1|].
      rewrite Forall_forall in *. intros y Hy. eapply blt_trans; [exact E1 | apply Hf; exact Hy].
    + destruct (beq x z) eqn:E2; [exact H|]. constructor; [apply IH; exact Hs|].
      rewrite Forall_forall in *. intros y Hy. apply insert_sorted_in in Hy. destruct Hy as [->|Hy].
      * destruct (blt_total z x) as [T|[T|T]]; [exact T | | congruence].
        subst. rewrite beq_refl in E2. discriminate.
      * apply Hf. exact Hy.
Qed.

Lemma sorted_vals_in x vs : In x (sorted_vals vs) <-> In x (map to_addr vs).
Proof.
  unfold sorted_vals. induction (map to_addr vs) as [|a l IH]; cbn [fold_right]; [tauto|].
  rewrite insert_sorted_in, IH. cbn. intuition.
Qed.

Lemma sorted_vals_sorted vs : StronglySorted bltP (sorted_vals vs).
Proof.
  unfold sorted_vals. induction (map to_addr vs) as [|a l IH]; cbn [fold_right]; [constructor|].
  apply insert_sorted_sorted. exact IH.
Qed.

(** a strictly ascending list is determined by its set of elements: whatever order the Go map
    iteration delivers the validators in, validators() returns this list *)
Lemma strictly_sorted_unique l1 : forall l2,
  StronglySorted bltP l1 -> StronglySorted bltP l2 -> (forall x, In x l1 <-> In x l2) -> l1 = l2.
Proof.
  induction l1 as [|a l1 IH]; intros [|b l2] H1 H2 Hin.
  - reflexivity.
  - exfalso. apply (Hin b). left. reflexivity.
  - exfalso. apply (Hin a). left. reflexivity.
  - inversion H1 as [|? ? Hs1 Hf1]; inversion H2 as [|? ? Hs2 Hf2]; subst.
    rewrite Forall_forall in Hf1, Hf2.
    assert (a = b) as ->.
    { destruct (proj1 (Hin a) (or_introl eq_refl)) as [E|Ha]; [congruence|].
      destruct (proj2 (Hin b) (or_introl eq_refl)) as [E|Hb]; [congruence|].
      pose proof (Hf2 _ Ha) as P. pose proof (Hf1 _ Hb) as Q. unfold bltP in *.
      rewrite (blt_asym _ _ P) in Q. discriminate. }
    f_equal. apply IH; [assumption|assumption|]. intros x. split; intros Hx.
    + destruct (proj1 (Hin x) (or_intror Hx)) as [E|H]; [|exact H]. subst x.
      pose proof (Hf1 _ Hx) as P. unfold bltP in P. rewrite blt_irrefl in P. discriminate.
    + destruct (proj2 (Hin x) (or_intror Hx)) as [E|H]; [|exact H]. subst x.
      pose proof (Hf2 _ Hx) as P. unfold bltP in P. rewrite blt_irrefl in P. discriminate.
Qed.

Lemma sorted_vals_order_independent vs vs' :
  (forall x, In x (map to_addr vs) <-> In x (map to_addr vs')) -> sorted_vals vs = sorted_vals vs'.
Proof.
  intros H. apply strictly_sorted_unique; try apply sorted_vals_sorted.
  intros x. rewrite !sorted_vals_in. apply H.
Qed.

Lemma sorted_vals_perm vs vs' : Permutation vs vs' -> sorted_vals vs = sorted_vals vs'.
Proof.
  intros P. apply sorted_vals_order_independent. intros x.
  split; apply Permutation_in; [apply Permutation_map; exact P | apply Permutation_map, Permutation_sym; exact P].
Qed.

Lemma existsb_perm {A} (f : A -> bool) l l' : Permutation l l' -> existsb f l = existsb f l'.
Proof.
  intros P. destruct (existsb f l) eqn:E; symmetry.
  - apply existsb_exists in E. destruct E as [x [Hx Fx]]. apply existsb_exists. exists x.
    split; [eapply Permutation_in; eassumption | exact Fx].
  - destruct (existsb f l') eqn:E'; [|reflexivity]. apply existsb_exists in E'. destruct E' as [x [Hx Fx]].
    assert (existsb f l = true) as T; [|congruence]. apply existsb_exists. exists x.
    split; [eapply Permutation_in; [apply Permutation_sym|]; eassumption | exact Fx].
Qed.

(* ---------------------------------------------------------------- to_addr / to_hash *)

Lemma left_pad_length n b : length (left_pad n b) = n.
Proof.
  unfold left_pad. rewrite app_length, repeat_length, skipn_length. lia.
Qed.

Lemma left_pad_id n b : length b = n -> left_pad n b = b.
Proof.
  intros H. unfold left_pad. rewrite H, Nat.sub_diag. reflexivity.
Qed.

Lemma to_addr_length b : length (to_addr b) = 20%nat.
Proof. apply left_pad_length. Qed.

Lemma to_addr_idem b : to_addr (to_addr b) = to_addr b.
Proof. apply left_pad_id. apply to_addr_length. Qed.

Lemma recovered_length h s : recovered h = Some s -> length s = 20%nat.
Proof.
  unfold recovered. destruct (h_signer h); [|discriminate]. cbn. intros E. inversion E. apply to_addr_length.
Qed.

(* ---------------------------------------------------------------- uint64 arithmetic *)

Lemma sub64_small a b : b <= a -> a < two64 -> sub64 a b = a - b.
Proof. unfold sub64, two64. intros. lia. Qed.

Lemma sub64_lt a b : sub64 a b < two64.
Proof. unfold sub64, two64. lia. Qed.

(** with both gas limits below 2^63 the int64 computation is the absolute difference *)
Lemma gas_absdiff_small p g : p < two63 -> g < two63 ->
  gas_absdiff p g = if g <=? p then p - g else g - p.
Proof.
  unfold gas_absdiff, sub64, two63, two64. intros Hp Hg.
  destruct (N.leb_spec g p).
  - replace ((p mod 18446744073709551616 + 18446744073709551616 - g mod 18446744073709551616) mod 18446744073709551616) with (p - g) by lia.
    destruct (N.ltb_spec (p - g) 9223372036854775808); lia.
  - replace ((p mod 18446744073709551616 + 18446744073709551616 - g mod 18446744073709551616) mod 18446744073709551616) with (18446744073709551616 - (g - p)) by lia.
    destruct (N.ltb_spec (18446744073709551616 - (g - p)) 9223372036854775808); lia.
Qed.

(* ---------------------------------------------------------------- the acceptance conditions *)

(** standalone sanity rules of ValidateBasic *)
Definition basic_rule (h : header) : Prop :=
  (97 <= length (h_extra h))%nat /\ to_hash (h_mix h) = zero32 /\ to_hash (h_uncle h) = uncle_hash.

(** validators are listed only on epoch blocks (there, any whole number of addresses) *)
Definition extra_rule (epoch : N) (h : header) : Prop :=
  epoch <> 0 /\
  (if h_num h mod epoch =? 0 then (signers_bytes h mod 20 = 0)%nat else signers_bytes h = 0%nat).

(** direct child of the latest header *)
Definition child_rule (parent h : header) : Prop :=
  h_num parent = sub64 (h_num h) 1 /\ h_hash parent = Some (to_hash (h_parent h)).

Definition gas_rule (parent h : header) : Prop :=
  h_gaslimit h <= gas_cap /\ h_gasused h <= h_gaslimit h /\
  gas_absdiff (h_gaslimit parent) (h_gaslimit h) < h_gaslimit parent / 256 /\
  5000 <= h_gaslimit h.

(** the recent-signer rule as the code evaluates it on the stored entries *)
Definition not_recent (st : state) (num : N) (s : bytes) : Prop :=
  forall hh v, In (hh, v) (snap_recents (s_recents st)) -> v = s -> hh <= sub64 num (seal_limit st).

Definition seal_rule (st : state) (h : header) (s : bytes) : Prop :=
  recovered h = Some s /\ s = to_addr (h_coinbase h) /\ In s (sorted_vals (s_validators st)) /\
  not_recent st (h_num h) s /\
  h_diff h = (if inturn st s then 2 else 1).

Definition accept_rule (st : state) (h : header) (s : bytes) : Prop :=
  basic_rule h /\ extra_rule (s_epoch st) h /\ child_rule (s_header st) h /\ gas_rule (s_header st) h /\
  seal_rule st h s.

Lemma recently_signed_false st num s : recently_signed st num s = false <-> not_recent st num s.
Proof.
  unfold recently_signed, not_recent. split.
  - intros H hh v Hin E. subst v.
    destruct (N.leb_spec hh (sub64 num (seal_limit st))) as [L|L]; [exact L|]. exfalso.
    assert (existsb (fun e => beq (snd e) s && (sub64 num (seal_limit st) <? fst e)) (snap_recents (s_recents st)) = true) as T; [|congruence].
    apply existsb_exists. exists (hh, s). split; [exact Hin|]. cbn [fst snd]. rewrite beq_refl. cbn.
    apply N.ltb_lt. exact L.
  - intros H. destruct (existsb _ _) eqn:E; [|reflexivity]. apply existsb_exists in E.
    destruct E as [[hh v] [Hin F]]. cbn [fst snd] in F. apply andb_true_iff in F. destruct F as [F1 F2].
    apply beq_spec in F1. apply N.ltb_lt in F2. specialize (H hh v Hin F1). lia.
Qed.

Lemma validate_basic_iff h : validate_basic h = true <->
  basic_rule h /\ (0 < h_num h -> h_diff h <> 0).
Proof.
  unfold validate_basic, basic_rule, extra_vanity, extra_seal.
  rewrite !andb_true_iff, Nat.leb_le, !beq_spec. cbn [Nat.add].
  destruct (N.ltb_spec 0 (h_num h)) as [L|L].
  - rewrite negb_true_iff, N.eqb_neq. intuition.
  - intuition; lia.
Qed.

Lemma extra_ok_iff epoch h : extra_ok epoch h = true <-> extra_rule epoch h.
Proof.
  unfold extra_ok, extra_rule, address_length. rewrite andb_true_iff, negb_true_iff, N.eqb_neq.
  destruct (h_num h mod epoch =? 0); rewrite Nat.eqb_eq; tauto.
Qed.

Lemma parent_ok_iff p h : parent_ok p h = true <-> child_rule p h.
Proof.
  unfold parent_ok, child_rule. rewrite andb_true_iff, N.eqb_eq. destruct (h_hash p) as [ph|].
  - rewrite beq_spec. split; [intros [A B]; subst; auto | intros [A B]; inversion B; auto].
  - split; [intros [_ F]; discriminate | intros [_ F]; discriminate].
Qed.

Lemma gas_ok_iff p h : gas_ok p h = true <-> gas_rule p h.
Proof.
  unfold gas_ok, gas_rule, gas_limit_bound_divisor, min_gas_limit.
  rewrite !andb_true_iff, !N.leb_le, N.ltb_lt. tauto.
Qed.

Definition sealed_recents (st : state) (h : header) (s : bytes) : pmap bytes :=
  pset (hheight h) s (s_recents st).

Lemma verify_seal_ok st h r : verify_seal st h = SealOk r <->
  exists s, seal_rule st h s /\ r = sealed_recents st h s.
Proof.
  unfold verify_seal, seal_rule, sealed_recents, diff_in_turn, diff_no_turn.
  destruct (recovered h) as [s|]; [|split; [discriminate | intros [s [[F _] _]]; discriminate]].
  destruct (beq s (to_addr (h_coinbase h))) eqn:E1; cbn [negb].
  2:{ split; [discriminate|]. intros [s' [[F [C _]] _]]. inversion F. subst s'. apply beq_false in E1. contradiction. }
  apply beq_spec in E1.
  destruct (mem s (sorted_vals (s_validators st))) eqn:E2; cbn [negb].
  2:{ split; [discriminate|]. intros [s' [[F [_ [M _]]] _]]. inversion F. subst s'. apply mem_spec in M. congruence. }
  apply mem_spec in E2.
  destruct (recently_signed st (h_num h) s) eqn:E3.
  { split; [discriminate|]. intros [s' [[F [_ [_ [R _]]]] _]]. inversion F. subst s'.
    apply recently_signed_false in R. congruence. }
  apply recently_signed_false in E3.
  destruct (h_diff h =? (if inturn st s then 2 else 1)) eqn:E4.
  - apply N.eqb_eq in E4. split.
    + intros H. inversion H. exists s. repeat split; auto.
    + intros [s' [[F _] ->]]. inversion F. reflexivity.
  - apply N.eqb_neq in E4. split; [discriminate|]. intros [s' [[F [_ [_ [_ D]]]] _]]. inversion F. subst s'. contradiction.
Qed.

Lemma seal_rule_diff st h s : seal_rule st h s -> h_diff h <> 0.
Proof. intros [_ [_ [_ [_ D]]]]. rewrite D. destruct (inturn st s); discriminate. Qed.

Lemma check_validity_ok st h r : check_validity st h = SealOk r <->
  exists s, accept_rule st h s /\ r = sealed_recents st h s.
Proof.
  unfold check_validity, accept_rule.
  destruct (validate_basic h) eqn:E1; cbn [andb].
  2:{ split; [discriminate|]. intros [s [[B [_ [_ [_ S]]]] _]].
      assert (validate_basic h = true) as T; [|congruence]. apply validate_basic_iff. split; [exact B|].
      intros _. eapply seal_rule_diff; exact S. }
  apply validate_basic_iff in E1. destruct E1 as [B _].
  destruct (extra_ok (s_epoch st) h) eqn:E2; cbn [andb].
  2:{ split; [discriminate|]. intros [s [[_ [X _]] _]]. apply extra_ok_iff in X. congruence. }
  apply extra_ok_iff in E2.
  destruct (parent_ok (s_header st) h) eqn:E3; cbn [andb].
  2:{ split; [discriminate|]. intros [s [[_ [_ [X _]]] _]]. apply parent_ok_iff in X. congruence. }
  apply parent_ok_iff in E3.
  destruct (gas_ok (s_header st) h) eqn:E4.
  2:{ split; [discriminate|]. intros [s [[_ [_ [_ [X _]]]] _]]. apply gas_ok_iff in X. congruence. }
  apply gas_ok_iff in E4. rewrite verify_seal_ok. split.
  - intros [s [S R]]. exists s. tauto.
  - intros [s [[_ [_ [_ [_ S]]]] R]]. exists s. tauto.
Qed.

(** the state after an accepted header *)
Definition accepted_state (st : state) (h : header) (s : bytes) : state :=
  State h (s_epoch st) (s_trusting st) (new_validators st h)
        (new_recents st (sealed_recents st h s) h) (new_pending st h) (s_cons st).

Definition has_latest_cons (st : state) : Prop :=
  plookup (hheight (s_header st)) (s_cons st) <> None.

(** CheckHeaderAndUpdateState accepts iff ...; and then returns exactly ... *)
Lemma direct_accept_iff st h st' cs : direct st h = (st', Some cs) <->
  has_latest_cons st /\ exists s, accept_rule st h s /\ st' = accepted_state st h s /\ cs = new_cons h.
Proof.
  unfold direct, has_latest_cons. destruct (plookup (hheight (s_header st)) (s_cons st)) as [c|].
  2:{ split; [discriminate | intros [F _]; congruence]. }
  destruct (check_validity st h) as [| r | r] eqn:E.
  - split; [discriminate|]. intros [_ [s [A _]]].
    assert (check_validity st h = SealOk (sealed_recents st h s)) as T by (apply check_validity_ok; eauto). congruence.
  - split; [discriminate|]. intros [_ [s [A _]]].
    assert (check_validity st h = SealOk (sealed_recents st h s)) as T by (apply check_validity_ok; eauto). congruence.
  - apply check_validity_ok in E. destruct E as [s [A ->]]. unfold update, accepted_state. split.
    + intros H. inversion H. split; [discriminate|]. exists s. auto.
    + intros [_ [s' [A' [-> ->]]]].
      assert (s' = s) as ->.
      { destruct A as [_ [_ [_ [_ [R _]]]]]. destruct A' as [_ [_ [_ [_ [R' _]]]]]. congruence. }
      reflexivity.
Qed.

Lemma accept_rule_signer_unique st h s s' : accept_rule st h s -> accept_rule st h s' -> s = s'.
Proof.
  intros [_ [_ [_ [_ [R _]]]]] [_ [_ [_ [_ [R' _]]]]]. congruence.
Qed.

(** a refused header: the direct call leaves the state alone, or (refused for its difficulty only)
    leaves behind the signer entry of the refused header *)
Lemma direct_reject st h st' : direct st h = (st', None) ->
  st' = st \/ exists s, recovered h = Some s /\ st' = set_recents st (sealed_recents st h s).
Proof.
  unfold direct. destruct (plookup _ _); [|intros H; inversion H; auto].
  destruct (check_validity st h) as [| r | r] eqn:E; intros H; inversion H; auto. right.
  unfold check_validity in E. destruct (_ && _); [|discriminate].
  unfold verify_seal in E. destruct (recovered h) as [s|]; [|discriminate].
  destruct (negb _); [discriminate|]. destruct (negb _); [discriminate|].
  destruct (recently_signed _ _ _); [discriminate|]. destruct (_ =? _); [discriminate|].
  inversion E. exists s. auto.
Qed.

(* ---------------------------------------------------------------- keeper level *)

Lemma update_client_iff st now h st' : update_client st now h = Some st' <->
  status_active st now = true /\
  exists s, accept_rule st h s /\
            st' = set_cons (accepted_state st h s) (pset (hheight h) (new_cons h) (s_cons st)).
Proof.
  unfold update_client. destruct (status_active st now) eqn:A.
  2:{ split; [discriminate | intros [F _]; discriminate]. }
  destruct (direct st h) as [st1 [cs|]] eqn:D.
  - apply direct_accept_iff in D. destruct D as [_ [s [R [-> ->]]]]. split.
    + intros H. inversion H. split; [reflexivity|]. exists s. auto.
    + intros [_ [s' [R' ->]]]. rewrite (accept_rule_signer_unique _ _ _ _ R R'). reflexivity.
  - split; [discriminate|]. intros [_ [s [R _]]].
    assert (direct st h = (accepted_state st h s, Some (new_cons h))) as T; [|congruence].
    apply direct_accept_iff. split; [|eauto].
    unfold has_latest_cons. unfold status_active in A. destruct (plookup _ _); [discriminate | discriminate].
Qed.

Lemma status_active_has_cons st now : status_active st now = true -> has_latest_cons st.
Proof. unfold status_active, has_latest_cons. destruct (plookup _ _); [discriminate | discriminate]. Qed.

(** a refused update transaction changes nothing *)
Lemma step_reject st now h : update_client st now h = None -> step st (now, h) = st.
Proof. unfold step. cbn [fst snd]. intros ->. reflexivity. Qed.

Lemma step_accept st now h st' : update_client st now h = Some st' -> step st (now, h) = st'.
Proof. unfold step. cbn [fst snd]. intros ->. reflexivity. Qed.

(** after an accepted update the latest header and the consensus state at its height are the header's;
    other consensus states are untouched *)
Lemma update_client_effect st now h st' : update_client st now h = Some st' ->
  s_header st' = h /\
  plookup (hheight h) (s_cons st') = Some (Cons (h_time h) (hheight h) (h_root h)) /\
  (forall k, k <> hheight h -> plookup k (s_cons st') = plookup k (s_cons st)) /\
  s_epoch st' = s_epoch st /\ s_trusting st' = s_trusting st.
Proof.
  intros H. apply update_client_iff in H. destruct H as [_ [s [_ ->]]]. cbn.
  rewrite hkey_eqb_refl. repeat split; auto.
  intros k Hk. rewrite (hkey_eqb_neq k (hheight h)) by exact Hk. apply plookup_pdel_neq. exact Hk.
Qed.
