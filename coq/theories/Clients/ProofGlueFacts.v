(** Facts about the proof-verification glue (C08).  The library verifiers stay Section variables; the
    soundness / completeness premises about them are Section hypotheses, so every exported lemma carries
    them as explicit premises. *)
From Tibc Require Import Base.Bytes Base.BytesFacts Host.Keys Host.KeysFacts Clients.ProofGlue.
From Coq Require Import ZArith ZifyN ZifyNat ZifyBool.
Ltac Zify.zify_post_hook ::= Z.div_mod_to_equations.

(** * small facts *)

Lemma is_empty_false b : is_empty b = false <-> b <> [].
Proof. destruct b; simpl; split; congruence. Qed.

Lemma height_eqb_eq a b : height_eqb a b = true <-> a = b.
Proof.
  destruct a as [a1 a2], b as [b1 b2]. unfold height_eqb. simpl.
  rewrite andb_true_iff, !N.eqb_eq. split; [intros [-> ->]; reflexivity | intros H; inversion H; auto].
Qed.

(** "h is not above latest", as the code tests it *)
Definition height_le (h latest : height) : Prop :=
  fst h < fst latest \/ (fst h = fst latest /\ snd h <= snd latest).

Lemma height_lt_false latest h : height_lt latest h = false <-> height_le h latest.
Proof.
  unfold height_lt, height_le. destruct (N.eqb_spec (fst latest) (fst h)) as [E|E].
  - rewrite N.ltb_ge. lia.
  - rewrite N.ltb_ge. lia.
Qed.

(** ** PathUnescape *)
Lemma unescape_nopercent s : ~ In percent s -> unescape s = Some s.
Proof.
  induction s as [|c r IH]; intros H; [reflexivity|].
  cbn [unescape]. destruct (N.eqb_spec c percent) as [E|E].
  - exfalso. apply H. left. exact E.
  - rewrite IH; [reflexivity|]. intros X. apply H. right. exact X.
Qed.

Lemma in_join x sep l : In x (join sep l) -> In x sep \/ exists e, In e l /\ In x e.
Proof.
  induction l as [|a l IH]; [intros []|].
  destruct l as [|b l].
  - simpl. intros H. right. exists a. split; [left; reflexivity | exact H].
  - rewrite join_cons. rewrite !in_app_iff. intros [H|[H|H]].
    + right. exists a. split; [left; reflexivity | exact H].
    + left. exact H.
    + destruct (IH H) as [S|[e [He Hx]]]; [left; exact S | right; exists e; split; [right; exact He | exact Hx]].
Qed.

Definition nopercent (x : bytes) : Prop := ~ In percent x.

Lemma nopercent_consts : nopercent K_commit /\ nopercent K_ack /\ nopercent K_clean /\ nopercent K_sequences.
Proof. unfold nopercent. repeat split; rewrite <- contains_false; vm_compute; reflexivity. Qed.

Lemma nopercent_dec n : nopercent (dec n).
Proof.
  intros H. pose proof (dec_digits n) as D. rewrite Forall_forall in D.
  apply D in H. unfold is_digit, percent in H. lia.
Qed.

Lemma nopercent_path l : Forall nopercent l -> nopercent (path l).
Proof.
  intros F H. unfold path in H. apply in_join in H. destruct H as [H|[e [He Hx]]].
  - simpl in H. destruct H as [H|[]]. unfold slash, percent in H. discriminate.
  - rewrite Forall_forall in F. exact (F e He Hx).
Qed.

Lemma nopercent_proto_path f s d n : nopercent s -> nopercent d -> nopercent (proto_path f s d n).
Proof.
  intros Hs Hd. destruct nopercent_consts as [C1 [C2 [C3 C4]]].
  destruct f; cbn [proto_path]; unfold commit_key, ack_key, seq_key, clean_key; apply nopercent_path;
    repeat (apply Forall_cons || apply Forall_nil); try assumption; apply nopercent_dec.
Qed.

(** a percent escape makes the verified key the protocol key of another chain name *)
Lemma unescape_cons c r t : c <> percent -> unescape r = Some t -> unescape (c :: r) = Some (c :: t).
Proof.
  intros H E. cbn [unescape]. destruct (N.eqb_spec c percent); [contradiction|]. rewrite E. reflexivity.
Qed.

(** * Tendermint *)
Section TendermintFacts.
  Variable P : Type.
  Variable SP : Type.
  Variable pkind_of : P -> pkind.
  Variable calc : P -> option bytes.
  Variable vmem : SP -> bytes -> P -> bytes -> bytes -> bool.
  Variable decode : bytes -> option (list P).

  Notation verify_membership := (verify_membership P SP pkind_of calc vmem).
  Notation tm_verify := (tm_verify P SP pkind_of calc vmem decode).

  (** the proof is the two-step chain the library accepts: value under [k2] in the store tree whose root
      [r0] is under [k1] in the multistore tree with root [root] *)
  Definition tm_proof_ok (s0 s1 : SP) (root k1 k2 value : bytes) (ps : list P) : Prop :=
    exists p0 p1 r0, ps = [p0; p1] /\
      pkind_of p0 = PExist /\ calc p0 = Some r0 /\ vmem s0 r0 p0 k2 value = true /\
      pkind_of p1 = PExist /\ calc p1 = Some root /\ vmem s1 root p1 k1 r0 = true.

  Lemma verify_membership_iff specs root kp path ps value :
    verify_membership specs root [kp; path] ps value = true <->
    exists s0 s1 k1 k2, specs = [Some s0; Some s1] /\ root <> [] /\ value <> [] /\
      unescape kp = Some k1 /\ unescape path = Some k2 /\ tm_proof_ok s0 s1 root k1 k2 value ps.
  Proof.
    unfold verify_membership, tm_proof_ok. split.
    - destruct ps as [|p0 ps]; [discriminate|].
      destruct (is_empty root) eqn:Er; [discriminate|]. apply is_empty_false in Er.
      destruct (Nat.eqb (length specs) (length (p0 :: ps))) eqn:L1; cbn [negb]; [|discriminate].
      destruct (existsb _ specs) eqn:Ex; [discriminate|].
      destruct (Nat.eqb (length [kp; path]) (length specs)) eqn:L2; cbn [negb]; [|discriminate].
      apply Nat.eqb_eq in L1. apply Nat.eqb_eq in L2.
      destruct specs as [|o0 [|o1 [|o2 specs]]]; try (simpl in L2; discriminate L2).
      destruct ps as [|p1 [|p2 ps]]; try (simpl in L1; discriminate L1).
      destruct o0 as [s0|]; [|simpl in Ex; discriminate Ex].
      destruct o1 as [s1|]; [|simpl in Ex; discriminate Ex].
      clear L1 L2 Ex.
      destruct (is_empty value) eqn:Ev; [discriminate|]. apply is_empty_false in Ev.
      cbn [tm_chain length Nat.ltb Nat.leb Nat.sub nth_error].
      destruct (pkind_of p0) eqn:K0; try discriminate.
      destruct (calc p0) as [r0|] eqn:C0; [|discriminate].
      destruct (unescape path) as [k2|] eqn:U2; [|discriminate].
      destruct (vmem s0 r0 p0 k2 value) eqn:V0; [|discriminate].
      destruct (pkind_of p1) eqn:K1; try discriminate.
      destruct (calc p1) as [r1|] eqn:C1; [|discriminate].
      destruct (unescape kp) as [k1|] eqn:U1; [|discriminate].
      destruct (vmem s1 r1 p1 k1 r0) eqn:V1; [|discriminate].
      intros B. apply beq_spec in B. subst r1.
      exists s0, s1, k1, k2. repeat split; try assumption.
      exists p0, p1, r0. repeat split; assumption.
    - intros [s0 [s1 [k1 [k2 [-> [Hr [Hv [U1 [U2 [p0 [p1 [r0 [-> [K0 [C0 [V0 [K1 [C1 V1]]]]]]]]]]]]]]]]]].
      apply is_empty_false in Hr. apply is_empty_false in Hv. rewrite Hr.
      cbn [length Nat.eqb negb existsb orb]. rewrite Hv.
      cbn [tm_chain length Nat.ltb Nat.leb Nat.sub nth_error].
      rewrite K0, C0, U2, V0, K1, C1, U1, V1. apply beq_refl.
  Qed.

  (** ** exact characterisation of acceptance (no premise about the library) *)
  Lemma tm_verify_iff cl cons ptimes now h proof f s d n v :
    tm_verify cl cons ptimes now h proof f s d n v = true <->
    height_le h (t_latest cl) /\
    exists bz ps root pt s0 s1 k1 k2,
      proof = Some bz /\ decode bz = Some ps /\
      hlookup cons h = Some (CGood root) /\ hlookup ptimes h = Some pt /\
      (pt + t_delay cl) mod two64 <= now /\
      t_specs cl = [Some s0; Some s1] /\ t_prefix cl <> [] /\ root <> [] /\ claimed f n v <> [] /\
      unescape (t_prefix cl) = Some k1 /\ unescape (proto_path f s d n) = Some k2 /\
      tm_proof_ok s0 s1 root k1 k2 (claimed f n v) ps.
  Proof.
    unfold ProofGlue.tm_verify, tm_delay_ok. rewrite <- height_lt_false. split.
    - destruct (height_lt (t_latest cl) h); [discriminate|].
      destruct proof as [bz|]; [|discriminate].
      destruct (decode bz) as [ps|] eqn:D; [|discriminate].
      destruct (hlookup cons h) as [[root|]|] eqn:C; try discriminate.
      destruct (hlookup ptimes h) as [pt|] eqn:T; [|discriminate].
      destruct (now <? (pt + t_delay cl) mod two64) eqn:L; [discriminate|]. cbn [negb].
      destruct (is_empty (t_prefix cl)) eqn:E; [discriminate|]. apply is_empty_false in E.
      intros V. apply verify_membership_iff in V.
      destruct V as [s0 [s1 [k1 [k2 [Hs [Hr [Hv [U1 [U2 Hp]]]]]]]]].
      split; [reflexivity|].
      exists bz, ps, root, pt, s0, s1, k1, k2. apply N.ltb_ge in L. repeat split; assumption.
    - intros [Hl [bz [ps [root [pt [s0 [s1 [k1 [k2 [-> [D [C [T [L [Hs [E [Hr [Hv [U1 [U2 Hp]]]]]]]]]]]]]]]]]]]].
      rewrite Hl, D, C, T. apply N.ltb_ge in L. rewrite L. cbn [negb].
      apply is_empty_false in E. rewrite E.
      apply verify_membership_iff. exists s0, s1, k1, k2. repeat split; assumption.
  Qed.

  (** ** soundness and completeness w.r.t. an abstract committed key-value map *)
  Variable tlookup : SP -> bytes -> bytes -> option bytes.   (* the tree with this root maps key to value *)

  (** the counterparty state committed by app hash [root]: store [k1], then key [k2] *)
  Definition tm_committed (s0 s1 : SP) (root k1 k2 : bytes) : option bytes :=
    match tlookup s1 root k1 with
    | Some sub => tlookup s0 sub k2
    | None => None
    end.

  Hypothesis vmem_sound : forall s root p k v, vmem s root p k v = true -> tlookup s root k = Some v.
  Hypothesis vmem_complete : forall s root k v, tlookup s root k = Some v ->
    exists p, pkind_of p = PExist /\ calc p = Some root /\ vmem s root p k v = true.
  Hypothesis decode_onto : forall ps, exists bz, decode bz = Some ps.

  Lemma tm_proof_ok_sound s0 s1 root k1 k2 value ps :
    tm_proof_ok s0 s1 root k1 k2 value ps -> tm_committed s0 s1 root k1 k2 = Some value.
  Proof.
    intros [p0 [p1 [r0 [_ [_ [_ [V0 [_ [_ V1]]]]]]]]]. unfold tm_committed.
    rewrite (vmem_sound _ _ _ _ _ V1). exact (vmem_sound _ _ _ _ _ V0).
  Qed.

  Lemma tm_proof_ok_complete s0 s1 root k1 k2 value :
    tm_committed s0 s1 root k1 k2 = Some value -> exists ps, tm_proof_ok s0 s1 root k1 k2 value ps.
  Proof.
    unfold tm_committed. destruct (tlookup s1 root k1) as [sub|] eqn:L1; [|discriminate]. intros L0.
    destruct (vmem_complete _ _ _ _ L1) as [p1 [K1 [C1 V1]]].
    destruct (vmem_complete _ _ _ _ L0) as [p0 [K0 [C0 V0]]].
    exists [p0; p1], p0, p1, sub. repeat split; assumption.
  Qed.

  (** the conditions of the property, with the quirks of the code written out: the key path elements are
      URL-unescaped, the delay sum is taken in uint64 *)
  Definition tm_holds (cl : tm_client SP) cons ptimes now h f s d n v : Prop :=
    height_le h (t_latest cl) /\
    exists root pt s0 s1 k1 k2,
      hlookup cons h = Some (CGood root) /\ hlookup ptimes h = Some pt /\
      (pt + t_delay cl) mod two64 <= now /\
      t_specs cl = [Some s0; Some s1] /\ t_prefix cl <> [] /\ root <> [] /\ claimed f n v <> [] /\
      unescape (t_prefix cl) = Some k1 /\ unescape (proto_path f s d n) = Some k2 /\
      tm_committed s0 s1 root k1 k2 = Some (claimed f n v).

  Lemma tm_verify_sound cl cons ptimes now h proof f s d n v :
    tm_verify cl cons ptimes now h proof f s d n v = true -> tm_holds cl cons ptimes now h f s d n v.
  Proof.
    intros H. apply tm_verify_iff in H.
    destruct H as [Hl [bz [ps [root [pt [s0 [s1 [k1 [k2 [_ [_ [C [T [L [Hs [E [Hr [Hv [U1 [U2 Hp]]]]]]]]]]]]]]]]]]]].
    split; [exact Hl|]. exists root, pt, s0, s1, k1, k2.
    repeat split; try assumption. apply tm_proof_ok_sound with ps. exact Hp.
  Qed.

  Lemma tm_verify_complete cl cons ptimes now h f s d n v :
    tm_holds cl cons ptimes now h f s d n v ->
    exists bz, tm_verify cl cons ptimes now h (Some bz) f s d n v = true.
  Proof.
    intros [Hl [root [pt [s0 [s1 [k1 [k2 [C [T [L [Hs [E [Hr [Hv [U1 [U2 Hc]]]]]]]]]]]]]]]].
    destruct (tm_proof_ok_complete _ _ _ _ _ _ Hc) as [ps Hp].
    destruct (decode_onto ps) as [bz D]. exists bz.
    apply tm_verify_iff. split; [exact Hl|].
    exists bz, ps, root, pt, s0, s1, k1, k2. repeat split; assumption.
  Qed.

  (** some proof verifies exactly when the conditions hold *)
  Lemma tm_verifiable_iff cl cons ptimes now h f s d n v :
    (exists bz, tm_verify cl cons ptimes now h (Some bz) f s d n v = true) <->
    tm_holds cl cons ptimes now h f s d n v.
  Proof.
    split; [intros [bz H]; eapply tm_verify_sound; exact H | apply tm_verify_complete].
  Qed.

  (** ** the property as stated, under the guards that exclude the two quirks:
      names and prefix without '%', processed time + delay below 2^64 *)
  Definition tm_property (cl : tm_client SP) cons ptimes now h f s d n v : Prop :=
    height_le h (t_latest cl) /\
    exists root pt s0 s1,
      hlookup cons h = Some (CGood root) /\ hlookup ptimes h = Some pt /\
      pt + t_delay cl <= now /\
      t_specs cl = [Some s0; Some s1] /\ t_prefix cl <> [] /\ root <> [] /\ claimed f n v <> [] /\
      tm_committed s0 s1 root (t_prefix cl) (proto_path f s d n) = Some (claimed f n v).

  Lemma tm_holds_guarded cl cons ptimes now h f s d n v :
    nopercent (t_prefix cl) -> nopercent s -> nopercent d ->
    (forall pt, hlookup ptimes h = Some pt -> pt + t_delay cl < two64) ->
    (tm_holds cl cons ptimes now h f s d n v <-> tm_property cl cons ptimes now h f s d n v).
  Proof.
    intros Np Ns Nd G.
    pose proof (unescape_nopercent _ Np) as U1.
    pose proof (unescape_nopercent _ (nopercent_proto_path f s d n Ns Nd)) as U2.
    unfold tm_holds, tm_property. split.
    - intros [Hl [root [pt [s0 [s1 [k1 [k2 [C [T [L [Hs [E [Hr [Hv [U1' [U2' Hc]]]]]]]]]]]]]]]].
      split; [exact Hl|]. exists root, pt, s0, s1.
      rewrite U1 in U1'. rewrite U2 in U2'. inversion U1'; inversion U2'; subst k1 k2.
      pose proof (G pt T) as B. rewrite N.mod_small in L by exact B.
      repeat split; assumption.
    - intros [Hl [root [pt [s0 [s1 [C [T [L [Hs [E [Hr [Hv Hc]]]]]]]]]]]].
      split; [exact Hl|]. exists root, pt, s0, s1, (t_prefix cl), (proto_path f s d n).
      pose proof (G pt T) as B. rewrite N.mod_small by exact B.
      repeat split; assumption.
  Qed.

  Lemma tm_verifiable_iff_property cl cons ptimes now h f s d n v :
    nopercent (t_prefix cl) -> nopercent s -> nopercent d ->
    (forall pt, hlookup ptimes h = Some pt -> pt + t_delay cl < two64) ->
    ((exists bz, tm_verify cl cons ptimes now h (Some bz) f s d n v = true) <->
     tm_property cl cons ptimes now h f s d n v).
  Proof.
    intros Np Ns Nd G. rewrite tm_verifiable_iff. apply tm_holds_guarded; assumption.
  Qed.

  (** a nil proof never verifies *)
  Lemma tm_nil_proof_rejected cl cons ptimes now h f s d n v :
    tm_verify cl cons ptimes now h None f s d n v = false.
  Proof. unfold ProofGlue.tm_verify. destruct (height_lt (t_latest cl) h); reflexivity. Qed.
End TendermintFacts.

(** the premises about ics23 + protobuf, bundled *)
Definition tm_lib_ok (P SP : Type) (pkind_of : P -> pkind) (calc : P -> option bytes)
           (vmem : SP -> bytes -> P -> bytes -> bytes -> bool) (decode : bytes -> option (list P))
           (tlookup : SP -> bytes -> bytes -> option bytes) : Prop :=
  (forall s root p k v, vmem s root p k v = true -> tlookup s root k = Some v) /\
  (forall s root k v, tlookup s root k = Some v ->
     exists p, pkind_of p = PExist /\ calc p = Some root /\ vmem s root p k v = true) /\
  (forall ps, exists bz, decode bz = Some ps).

(** * ETH / BSC *)

Lemma zeros_length n : length (zeros n) = n.
Proof. induction n; simpl; congruence. Qed.

Lemma lpad32_id b : length b = 32%nat -> lpad32 b = b.
Proof. intros H. unfold lpad32. rewrite H. reflexivity. Qed.

Lemma to_hash32_id b : length b = 32%nat -> to_hash32 b = b.
Proof. intros H. unfold to_hash32. rewrite H. cbn [Nat.sub skipn]. apply lpad32_id. exact H. Qed.

Lemma to_hash32_length b : length (to_hash32 b) = 32%nat.
Proof. unfold to_hash32, lpad32. rewrite app_length, zeros_length, skipn_length. lia. Qed.

Lemma lpad32_length b : (length b <= 32)%nat -> length (lpad32 b) = 32%nat.
Proof. intros H. unfold lpad32. rewrite app_length, zeros_length. lia. Qed.

Lemma mres_not_err_cases r : r <> MErr -> r = MAbsent \/ exists v, r = MVal v.
Proof. destruct r; [congruence | left; reflexivity | right; eexists; reflexivity]. Qed.

Section EvmFacts.
  Variable NS : Type.
  Variable mpt_verify : bytes -> bytes -> NS -> mres.
  Variable keccak : bytes -> bytes.
  Variable rlp_account : N -> N -> bytes -> bytes -> bytes.
  Variable rlp_dec : bytes -> option bytes.
  Variable decode : bytes -> option (eproof NS).

  Notation verify_merkle := (verify_merkle NS mpt_verify keccak rlp_account rlp_dec).
  Notation evm_verify := (evm_verify NS mpt_verify keccak rlp_account rlp_dec decode).
  Notation slot_of := (slot_of keccak).

  (** the proof object is what the libraries accept for (root, contract, slot, value) *)
  Definition evm_proof_ok (pf : eproof NS) (root contract value slot : bytes) : Prop :=
    ep_addr pf = contract /\
    exists r sp r2 t,
      mpt_verify (to_hash32 root) (keccak contract) (ep_acct pf) = r /\ r <> MErr /\
      rlp_account (be_to_N (to_hash32 (ep_nonce pf))) (be_to_N (to_hash32 (ep_balance pf)))
                  (to_hash32 (ep_storagehash pf)) (to_hash32 (ep_codehash pf)) = mres_bytes r /\
      ep_storage pf = [Some sp] /\ to_hash32 (sp_key sp) = slot /\
      mpt_verify (to_hash32 (ep_storagehash pf)) (keccak slot) (sp_nodes sp) = r2 /\ r2 <> MErr /\
      rlp_dec (mres_bytes r2) = Some t /\ lpad32 t = value.

  Lemma verify_merkle_iff pf root contract value slot :
    verify_merkle pf root contract value slot = true <-> evm_proof_ok pf root contract value slot.
  Proof.
    unfold ProofGlue.verify_merkle, evm_proof_ok, check_result. split.
    - destruct (beq (ep_addr pf) contract) eqn:A; [|discriminate]. cbn [negb]. apply beq_spec in A. rewrite A.
      remember (mpt_verify (to_hash32 root) (keccak contract) (ep_acct pf)) as r eqn:M1.
      intros H. assert (R : r <> MErr) by (intros ->; discriminate H).
      assert (H' : (if negb (beq (rlp_account (be_to_N (to_hash32 (ep_nonce pf))) (be_to_N (to_hash32 (ep_balance pf)))
                      (to_hash32 (ep_storagehash pf)) (to_hash32 (ep_codehash pf))) (mres_bytes r)) then false
                   else match ep_storage pf with
                        | [Some sp] =>
                            if negb (beq (to_hash32 (sp_key sp)) slot) then false
                            else match mpt_verify (to_hash32 (ep_storagehash pf)) (keccak (to_hash32 (sp_key sp))) (sp_nodes sp) with
                                 | MErr => false
                                 | r2 => match rlp_dec (mres_bytes r2) with Some t => beq (lpad32 t) value | None => false end
                                 end
                        | _ => false
                        end) = true) by (destruct r; [congruence | exact H | exact H]).
      clear H. destruct (beq _ (mres_bytes r)) eqn:B; [|discriminate]. cbn [negb] in H'. apply beq_spec in B.
      destruct (ep_storage pf) as [|[sp|] [|x l]] eqn:S; try discriminate.
      destruct (beq (to_hash32 (sp_key sp)) slot) eqn:K; [|discriminate]. cbn [negb] in H'. apply beq_spec in K.
      rewrite K in H'.
      remember (mpt_verify (to_hash32 (ep_storagehash pf)) (keccak slot) (sp_nodes sp)) as r2 eqn:M2.
      assert (R2 : r2 <> MErr) by (intros ->; discriminate H').
      assert (H2 : match rlp_dec (mres_bytes r2) with Some t => beq (lpad32 t) value | None => false end = true)
        by (destruct r2; [congruence | exact H' | exact H']).
      destruct (rlp_dec (mres_bytes r2)) as [t|] eqn:D; [|discriminate]. apply beq_spec in H2.
      split; [reflexivity|]. exists r, sp, r2, t. repeat split; try assumption; symmetry; assumption.
    - intros [A [r [sp [r2 [t [M1 [R [B [S [K [M2 [R2 [D V]]]]]]]]]]]]].
      rewrite A, beq_refl. cbn [negb]. rewrite M1.
      assert (G : (if negb (beq (rlp_account (be_to_N (to_hash32 (ep_nonce pf))) (be_to_N (to_hash32 (ep_balance pf)))
                      (to_hash32 (ep_storagehash pf)) (to_hash32 (ep_codehash pf))) (mres_bytes r)) then false
                   else match ep_storage pf with
                        | [Some sp] =>
                            if negb (beq (to_hash32 (sp_key sp)) slot) then false
                            else match mpt_verify (to_hash32 (ep_storagehash pf)) (keccak (to_hash32 (sp_key sp))) (sp_nodes sp) with
                                 | MErr => false
                                 | r2 => match rlp_dec (mres_bytes r2) with Some t => beq (lpad32 t) value | None => false end
                                 end
                        | _ => false
                        end) = true).
      { rewrite B, beq_refl. cbn [negb]. rewrite S, K, beq_refl. cbn [negb]. rewrite M2.
        assert (G2 : match rlp_dec (mres_bytes r2) with Some t => beq (lpad32 t) value | None => false end = true)
          by (rewrite D, V; apply beq_refl).
        destruct r2; [congruence | exact G2 | exact G2]. }
      destruct r; [congruence | exact G | exact G].
  Qed.

  (** ** exact characterisation of acceptance (no premise about the libraries) *)
  Lemma evm_verify_iff cl cons h proof f s d n v :
    evm_verify cl cons h proof f s d n v = true <->
    height_le h (e_latest cl) /\
    exists bz pf root,
      proof = Some bz /\ decode bz = Some pf /\ hlookup cons h = Some (CGood root) /\
      evm_delay_ok (e_latest cl) h (e_delay cl) = true /\
      evm_proof_ok pf root (e_contract cl) (evm_claimed f n v) (slot_of f s d n).
  Proof.
    unfold ProofGlue.evm_verify. rewrite <- height_lt_false. split.
    - destruct (height_lt (e_latest cl) h); [discriminate|].
      destruct proof as [bz|]; [|discriminate].
      destruct (decode bz) as [pf|] eqn:D; [|discriminate].
      destruct (hlookup cons h) as [[root|]|] eqn:C; try discriminate.
      destruct (evm_delay_ok (e_latest cl) h (e_delay cl)) eqn:L; [|discriminate]. cbn [negb].
      intros V. apply verify_merkle_iff in V. split; [reflexivity|].
      exists bz, pf, root. split; [reflexivity|]. split; [exact D|]. split; [reflexivity|]. split; [reflexivity|]. exact V.
    - intros [Hl [bz [pf [root [-> [D [C [L V]]]]]]]].
      rewrite Hl, D, C, L. cbn [negb]. apply verify_merkle_iff. exact V.
  Qed.

  (** ** soundness and completeness w.r.t. an abstract committed map *)
  Variable mlookup : bytes -> bytes -> option bytes.   (* the trie with this root hash maps key to value *)

  (** the Ethereum-style state with state root [root] holds [value] (a 32-byte word) in storage slot
      [slot] of account [contract]: account at keccak(address) in the world trie, rlp-encoded value at
      keccak(slot) in the account's storage trie *)
  Definition evm_state_holds (root contract slot value : bytes) : Prop :=
    exists nb bb ch sroot raw t,
      length nb = 32%nat /\ length bb = 32%nat /\ length ch = 32%nat /\ length sroot = 32%nat /\
      mlookup (to_hash32 root) (keccak contract) = Some (rlp_account (be_to_N nb) (be_to_N bb) sroot ch) /\
      mlookup sroot (keccak slot) = Some raw /\ rlp_dec raw = Some t /\ lpad32 t = value.

  Hypothesis mpt_sound : forall root key ns v, mpt_verify root key ns = MVal v -> mlookup root key = Some v.
  Hypothesis mpt_complete : forall root key v, mlookup root key = Some v -> exists ns, mpt_verify root key ns = MVal v.
  Hypothesis rlp_account_nonempty : forall n b s c, rlp_account n b s c <> [].
  Hypothesis rlp_dec_empty : rlp_dec [] = None.
  Hypothesis keccak_len : forall x, length (keccak x) = 32%nat.
  Hypothesis decode_onto_wf : forall a b c n sh ns k kns,
    exists bz, decode bz = Some (EProof a b c n sh ns [Some (SProof k kns)]).

  Lemma evm_proof_ok_sound pf root contract value slot :
    evm_proof_ok pf root contract value slot -> evm_state_holds root contract slot value.
  Proof.
    intros [A [r [sp [r2 [t [M1 [R [B [S [K [M2 [R2 [D V]]]]]]]]]]]]].
    destruct (mres_not_err_cases r R) as [->|[acc ->]].
    { exfalso. cbn [mres_bytes] in B. exact (rlp_account_nonempty _ _ _ _ B). }
    destruct (mres_not_err_cases r2 R2) as [->|[raw ->]].
    { exfalso. cbn [mres_bytes] in D. rewrite rlp_dec_empty in D. discriminate. }
    cbn [mres_bytes] in B, D.
    exists (to_hash32 (ep_nonce pf)), (to_hash32 (ep_balance pf)), (to_hash32 (ep_codehash pf)),
           (to_hash32 (ep_storagehash pf)), raw, t.
    rewrite !to_hash32_length. repeat split; try assumption.
    - rewrite B. exact (mpt_sound _ _ _ _ M1).
    - exact (mpt_sound _ _ _ _ M2).
  Qed.

  Lemma evm_proof_ok_complete root contract slot value :
    length slot = 32%nat -> evm_state_holds root contract slot value ->
    exists a b c n sh ns k kns, evm_proof_ok (EProof a b c n sh ns [Some (SProof k kns)]) root contract value slot.
  Proof.
    intros Ls [nb [bb [ch [sroot [raw [t [Ln [Lb [Lc [Lr [M1 [M2 [D V]]]]]]]]]]]]].
    destruct (mpt_complete _ _ _ M1) as [ns1 V1]. destruct (mpt_complete _ _ _ M2) as [ns2 V2].
    exists contract, bb, ch, nb, sroot, ns1, slot, ns2.
    split; [reflexivity|]. cbn [ep_addr ep_acct ep_nonce ep_balance ep_storagehash ep_codehash ep_storage].
    exists (MVal (rlp_account (be_to_N nb) (be_to_N bb) sroot ch)), (SProof slot ns2), (MVal raw), t.
    simpl. rewrite (to_hash32_id nb), (to_hash32_id bb), (to_hash32_id sroot), (to_hash32_id ch), (to_hash32_id slot) by assumption.
    repeat split; try assumption; try reflexivity; discriminate.
  Qed.

  (** the conditions of the property, the block-delay test written as the code computes it *)
  Definition evm_holds (cl : evm_client) cons h f s d n v : Prop :=
    height_le h (e_latest cl) /\
    exists root, hlookup cons h = Some (CGood root) /\
      evm_delay_ok (e_latest cl) h (e_delay cl) = true /\
      evm_state_holds root (e_contract cl) (slot_of f s d n) (evm_claimed f n v).

  Lemma evm_verify_sound cl cons h proof f s d n v :
    evm_verify cl cons h proof f s d n v = true -> evm_holds cl cons h f s d n v.
  Proof.
    intros H. apply evm_verify_iff in H. destruct H as [Hl [bz [pf [root [_ [_ [C [L V]]]]]]]].
    split; [exact Hl|]. exists root. repeat split; try assumption. eapply evm_proof_ok_sound. exact V.
  Qed.

  Lemma evm_verify_complete cl cons h f s d n v :
    evm_holds cl cons h f s d n v -> exists bz, evm_verify cl cons h (Some bz) f s d n v = true.
  Proof.
    intros [Hl [root [C [L Hs]]]].
    destruct (evm_proof_ok_complete _ _ _ _ (keccak_len _) Hs) as [a [b [c [nn [sh [ns [k [kns Hp]]]]]]]].
    destruct (decode_onto_wf a b c nn sh ns k kns) as [bz D]. exists bz.
    apply evm_verify_iff. split; [exact Hl|].
    exists bz, (EProof a b c nn sh ns [Some (SProof k kns)]), root.
    split; [reflexivity|]. split; [exact D|]. split; [exact C|]. split; [exact L|]. exact Hp.
  Qed.

  Lemma evm_verifiable_iff cl cons h f s d n v :
    (exists bz, evm_verify cl cons h (Some bz) f s d n v = true) <-> evm_holds cl cons h f s d n v.
  Proof.
    split; [intros [bz H]; eapply evm_verify_sound; exact H | apply evm_verify_complete].
  Qed.

  (** ** the property as stated, under the guard that excludes the cross-revision wrap *)
  Definition evm_property (cl : evm_client) cons h f s d n v : Prop :=
    height_le h (e_latest cl) /\
    exists root, hlookup cons h = Some (CGood root) /\
      snd h + e_delay cl <= snd (e_latest cl) /\
      evm_state_holds root (e_contract cl) (slot_of f s d n) (evm_claimed f n v).

  Lemma evm_delay_same_revision latest h delay :
    fst h = fst latest -> snd latest < two64 -> height_le h latest ->
    (evm_delay_ok latest h delay = true <-> snd h + delay <= snd latest).
  Proof.
    unfold evm_delay_ok, height_le, two64. intros E B Hl.
    rewrite negb_true_iff, N.ltb_ge.
    destruct latest as [lr lh], h as [hr hh]. cbn [fst snd] in *.
    assert (Hs : hh <= lh) by lia.
    assert (M : (lh + 18446744073709551616 - hh) mod 18446744073709551616 = lh - hh) by lia.
    rewrite M. lia.
  Qed.

  Lemma evm_holds_guarded cl cons h f s d n v :
    fst h = fst (e_latest cl) -> snd (e_latest cl) < two64 ->
    (evm_holds cl cons h f s d n v <-> evm_property cl cons h f s d n v).
  Proof.
    intros E B. unfold evm_holds, evm_property. split; intros [Hl [root [C [L Hs]]]]; (split; [exact Hl|]); exists root;
      (repeat split; try assumption); apply (evm_delay_same_revision _ _ _ E B Hl); exact L.
  Qed.

  Lemma evm_verifiable_iff_property cl cons h f s d n v :
    fst h = fst (e_latest cl) -> snd (e_latest cl) < two64 ->
    ((exists bz, evm_verify cl cons h (Some bz) f s d n v = true) <-> evm_property cl cons h f s d n v).
  Proof. intros E B. rewrite evm_verifiable_iff. apply evm_holds_guarded; assumption. Qed.

  Lemma evm_nil_proof_rejected cl cons h f s d n v : evm_verify cl cons h None f s d n v = false.
  Proof. unfold ProofGlue.evm_verify. destruct (height_lt (e_latest cl) h); reflexivity. Qed.
End EvmFacts.

(** the premises about go-ethereum (trie, keccak, rlp) and encoding/json, bundled *)
Definition evm_lib_ok (NS : Type) (mpt_verify : bytes -> bytes -> NS -> mres) (keccak : bytes -> bytes)
           (rlp_account : N -> N -> bytes -> bytes -> bytes) (rlp_dec : bytes -> option bytes)
           (decode : bytes -> option (eproof NS)) (mlookup : bytes -> bytes -> option bytes) : Prop :=
  (forall root key ns v, mpt_verify root key ns = MVal v -> mlookup root key = Some v) /\
  (forall root key v, mlookup root key = Some v -> exists ns, mpt_verify root key ns = MVal v) /\
  (forall n b s c, rlp_account n b s c <> []) /\
  rlp_dec [] = None /\
  (forall x, length (keccak x) = 32%nat) /\
  (forall a b c n sh ns k kns, exists bz, decode bz = Some (EProof a b c n sh ns [Some (SProof k kns)])).

(** * Executable toy libraries: the premises are satisfiable, and the witnesses of the refuted readings *)

(** ** Tendermint: proofs are indices into a table of committed facts (spec, root, key, value) *)
Definition toy_key : bytes := commit_key (of_string "aA") (of_string "b") 1.
Definition toy_tab : list (N * bytes * bytes * bytes) :=
  [ (0, [1], toy_key, [7; 7]);                 (* store tree with root [1]: protocol key of (aA, b, 1) -> 0x0707 *)
    (1, [2], of_string "tibc", [1]) ].          (* multistore tree with app hash [2]: store "tibc" -> root [1] *)

Definition toy_entry (p : N) := nth_error toy_tab (N.to_nat p).
Definition toy_pkind (p : N) : pkind := match toy_entry p with Some _ => PExist | None => POther end.
Definition toy_calc (p : N) : option bytes := match toy_entry p with Some (_, r, _, _) => Some r | None => None end.
Definition toy_vmem (s : N) (root : bytes) (p : N) (k v : bytes) : bool :=
  match toy_entry p with
  | Some (s', r', k', v') => N.eqb s s' && beq root r' && beq k k' && beq v v'
  | None => false
  end.
Definition toy_decode (bz : bytes) : option (list N) := Some bz.
Fixpoint toy_find (t : list (N * bytes * bytes * bytes)) (s : N) (root k : bytes) : option bytes :=
  match t with
  | [] => None
  | (s', r', k', v') :: t' => if N.eqb s s' && beq root r' && beq k k' then Some v' else toy_find t' s root k
  end.
Definition toy_tlookup := toy_find toy_tab.

Lemma toy_tm_lib_ok : tm_lib_ok N N toy_pkind toy_calc toy_vmem toy_decode toy_tlookup.
Proof.
  split; [|split].
  - intros s root p k v H. unfold toy_vmem, toy_entry in H.
    destruct (N.to_nat p) as [|[|m]]; cbn [nth_error toy_tab] in H.
    + rewrite !andb_true_iff, N.eqb_eq, !beq_spec in H. destruct H as [[[-> ->] ->] ->]. vm_compute. reflexivity.
    + rewrite !andb_true_iff, N.eqb_eq, !beq_spec in H. destruct H as [[[-> ->] ->] ->]. vm_compute. reflexivity.
    + destruct m; discriminate H.
  - intros s root k v H. unfold toy_tlookup, toy_tab in H. cbn [toy_find] in H.
    destruct (N.eqb s 0 && beq root [1] && beq k toy_key) eqn:E0.
    + rewrite !andb_true_iff, N.eqb_eq, !beq_spec in E0. destruct E0 as [[-> ->] ->]. inversion H; subst v.
      exists 0. repeat split; vm_compute; reflexivity.
    + destruct (N.eqb s 1 && beq root [2] && beq k (of_string "tibc")) eqn:E1; [|discriminate H].
      rewrite !andb_true_iff, N.eqb_eq, !beq_spec in E1. destruct E1 as [[-> ->] ->]. inversion H; subst v.
      exists 1. repeat split; vm_compute; reflexivity.
  - intros ps. exists ps. reflexivity.
Qed.

Definition toy_tm_client (delay : N) : tm_client N := TmClient (0, 20) delay (of_string "tibc") [Some 0; Some 1].
Definition toy_cons : list (height * centry) := [((0, 15), CGood [2])].
Definition toy_pts : list (height * N) := [((0, 15), 5)].

Definition toy_tm_run (delay now : N) (s : bytes) (v : bytes) : bool :=
  tm_verify N N toy_pkind toy_calc toy_vmem toy_decode (toy_tm_client delay) toy_cons toy_pts now (0, 15)
            (Some [0; 1]) FCommit s (of_string "b") 1 v.

(** ** ETH/BSC: the node set is trivial, the verifier answers from a table of committed facts *)
Definition w32 (x : N) : bytes := lpad32 [x].
Definition toy_keccak (x : bytes) : bytes := lpad32 (firstn 32 x).
Definition toy_rlp_account (n b : N) (s c : bytes) : bytes := 1 :: (n mod 256) :: (b mod 256) :: s ++ c.
Definition toy_rlp_dec (x : bytes) : option bytes := match x with [] => None | _ :: t => Some t end.
Definition toy_contract : bytes := zeros 19 ++ [12].
Definition toy_slot : bytes := toy_keccak (proto_path FAck (of_string "aA") (of_string "b") 1 ++ slot_index).
Definition toy_mtab : list (bytes * bytes * bytes) :=
  [ (w32 9, toy_keccak toy_contract, toy_rlp_account 1 0 (w32 3) (w32 4));   (* world trie, state root 0..09 *)
    (w32 3, toy_keccak toy_slot, [0; 200]) ].                               (* storage trie, root 0..03 *)
Fixpoint toy_mfind (t : list (bytes * bytes * bytes)) (root key : bytes) : option bytes :=
  match t with
  | [] => None
  | (r, k, v) :: t' => if beq root r && beq key k then Some v else toy_mfind t' root key
  end.
Definition toy_mlookup := toy_mfind toy_mtab.
Definition toy_mpt (root key : bytes) (_ : unit) : mres :=
  match toy_mlookup root key with Some v => MVal v | None => MAbsent end.

(** length-prefixed fields *)
Definition enc1 (b : bytes) : bytes := N.of_nat (length b) :: b.
Definition dec1 (l : bytes) : option (bytes * bytes) :=
  match l with [] => None | n :: r => Some (firstn (N.to_nat n) r, skipn (N.to_nat n) r) end.

Lemma dec1_enc1 b rest : dec1 (enc1 b ++ rest) = Some (b, rest).
Proof.
  unfold dec1, enc1. cbn [app]. rewrite Nnat.Nat2N.id.
  rewrite firstn_app, firstn_all, Nat.sub_diag, skipn_app, skipn_all, Nat.sub_diag. cbn [firstn skipn app].
  rewrite app_nil_r. reflexivity.
Qed.

Definition toy_edecode (bz : bytes) : option (eproof unit) :=
  match dec1 bz with Some (a, r1) =>
  match dec1 r1 with Some (b, r2) =>
  match dec1 r2 with Some (c, r3) =>
  match dec1 r3 with Some (n, r4) =>
  match dec1 r4 with Some (sh, r5) =>
  match dec1 r5 with Some (k, _) => Some (EProof a b c n sh tt [Some (SProof k tt)])
  | None => None end | None => None end | None => None end | None => None end | None => None end | None => None end.

Lemma toy_evm_lib_ok : evm_lib_ok unit toy_mpt toy_keccak toy_rlp_account toy_rlp_dec toy_edecode toy_mlookup.
Proof.
  repeat split.
  - intros root key ns v H. unfold toy_mpt in H. destruct (toy_mlookup root key); inversion H; reflexivity.
  - intros root key v H. exists tt. unfold toy_mpt. rewrite H. reflexivity.
  - intros n b s c. discriminate.
  - intros x. unfold toy_keccak. apply lpad32_length. rewrite firstn_length. lia.
  - intros a b c n sh [] k []. exists (enc1 a ++ enc1 b ++ enc1 c ++ enc1 n ++ enc1 sh ++ enc1 k ++ []).
    unfold toy_edecode. rewrite !dec1_enc1. reflexivity.
Qed.

Definition toy_eproof_bytes : bytes :=
  enc1 toy_contract ++ enc1 [0] ++ enc1 (w32 4) ++ enc1 [1] ++ enc1 (w32 3) ++ enc1 toy_slot ++ [].
Definition toy_econs : list (height * centry) := [((0, 105), CGood (w32 9))].

Definition toy_evm_run (latest : height) (delay : N) (v : bytes) : bool :=
  evm_verify unit toy_mpt toy_keccak toy_rlp_account toy_rlp_dec toy_edecode
             (EvmClient latest delay toy_contract) toy_econs (0, 105) (Some toy_eproof_bytes)
             FAck (of_string "aA") (of_string "b") 1 v.

(** ** the premises are satisfiable and acceptance is neither always true nor always false *)
Lemma nonvacuous :
  tm_lib_ok N N toy_pkind toy_calc toy_vmem toy_decode toy_tlookup /\
  toy_tm_run 10 15 (of_string "aA") [7; 7] = true /\
  toy_tm_run 10 14 (of_string "aA") [7; 7] = false /\
  toy_tm_run 10 15 (of_string "aA") [7; 8] = false /\
  toy_tm_run 10 15 (of_string "aB") [7; 7] = false /\
  evm_lib_ok unit toy_mpt toy_keccak toy_rlp_account toy_rlp_dec toy_edecode toy_mlookup /\
  toy_evm_run (0, 108) 3 (w32 200) = true /\
  toy_evm_run (0, 107) 3 (w32 200) = false /\
  toy_evm_run (0, 108) 3 (w32 201) = false /\
  toy_evm_run (0, 104) 0 (w32 200) = false.
Proof.
  split; [exact toy_tm_lib_ok|]. split; [vm_compute; reflexivity|]. split; [vm_compute; reflexivity|].
  split; [vm_compute; reflexivity|]. split; [vm_compute; reflexivity|]. split; [exact toy_evm_lib_ok|].
  repeat split; vm_compute; reflexivity.
Qed.

(** ** refuted readings of the property *)

(** without the guard on processed time + delay: accepted one nanosecond BEFORE the header was processed *)
Lemma tm_delay_overflow_refuted :
  exists (P SP : Type) pkind_of calc vmem decode tlookup,
    tm_lib_ok P SP pkind_of calc vmem decode tlookup /\
    exists cl cons ptimes now h bz f s d n v,
      nopercent (t_prefix cl) /\ nopercent s /\ nopercent d /\ t_delay cl < two64 /\
      tm_verify P SP pkind_of calc vmem decode cl cons ptimes now h (Some bz) f s d n v = true /\
      ~ tm_property SP tlookup cl cons ptimes now h f s d n v.
Proof.
  exists N, N, toy_pkind, toy_calc, toy_vmem, toy_decode, toy_tlookup. split; [exact toy_tm_lib_ok|].
  exists (toy_tm_client 18446744073709551615), toy_cons, toy_pts, 4, (0, 15), [0; 1], FCommit,
         (of_string "aA"), (of_string "b"), 1, [7; 7].
  repeat split.
  - unfold nopercent. rewrite <- contains_false. vm_compute. reflexivity.
  - unfold nopercent. rewrite <- contains_false. vm_compute. reflexivity.
  - unfold nopercent. rewrite <- contains_false. vm_compute. reflexivity.
  - intros [_ [root [pt [s0 [s1 [_ [T [L _]]]]]]]]. vm_compute in T. inversion T; subst pt.
    cbn [t_delay toy_tm_client] in L. lia.
Qed.

(** without the guard on '%': source chain "%61A" verifies the value committed under the key of chain "aA";
    nothing is committed under the protocol key of "%61A" *)
Lemma tm_percent_refuted :
  exists (P SP : Type) pkind_of calc vmem decode tlookup,
    tm_lib_ok P SP pkind_of calc vmem decode tlookup /\
    exists cl cons ptimes now h bz f s d n v,
      (forall pt, hlookup ptimes h = Some pt -> pt + t_delay cl < two64) /\
      tm_verify P SP pkind_of calc vmem decode cl cons ptimes now h (Some bz) f s d n v = true /\
      ~ tm_property SP tlookup cl cons ptimes now h f s d n v.
Proof.
  exists N, N, toy_pkind, toy_calc, toy_vmem, toy_decode, toy_tlookup. split; [exact toy_tm_lib_ok|].
  exists (toy_tm_client 10), toy_cons, toy_pts, 15, (0, 15), [0; 1], FCommit,
         (of_string "%61A"), (of_string "b"), 1, [7; 7].
  repeat split.
  - intros pt T. vm_compute in T. inversion T; subst pt. vm_compute. reflexivity.
  - intros [_ [root [pt [s0 [s1 [C [_ [_ [S [_ [_ [_ H]]]]]]]]]]]].
    vm_compute in C. inversion C; subst root. cbn [t_specs toy_tm_client] in S. inversion S; subst s0 s1.
    vm_compute in H. discriminate H.
Qed.

(** without the guard on equal revision numbers: latest (rev 1, 100), proof height (rev 0, 105), delay 3 *)
Lemma evm_cross_revision_refuted :
  exists (NS : Type) mpt_verify keccak rlp_account rlp_dec decode mlookup,
    evm_lib_ok NS mpt_verify keccak rlp_account rlp_dec decode mlookup /\
    exists cl cons h bz f s d n v,
      snd (e_latest cl) < two64 /\
      evm_verify NS mpt_verify keccak rlp_account rlp_dec decode cl cons h (Some bz) f s d n v = true /\
      ~ evm_property keccak rlp_account rlp_dec mlookup cl cons h f s d n v.
Proof.
  exists unit, toy_mpt, toy_keccak, toy_rlp_account, toy_rlp_dec, toy_edecode, toy_mlookup.
  split; [exact toy_evm_lib_ok|].
  exists (EvmClient (1, 100) 3 toy_contract), toy_econs, (0, 105), toy_eproof_bytes, FAck,
         (of_string "aA"), (of_string "b"), 1, (w32 200).
  repeat split.
  - intros [_ [root [_ [L _]]]]. cbn [snd e_delay e_latest] in L. lia.
Qed.

(** * the lemmas with the library premises bundled (what Properties/C08.v states) *)

Lemma tm_sound_lib P SP pkind_of calc vmem decode tlookup :
  tm_lib_ok P SP pkind_of calc vmem decode tlookup ->
  forall cl cons ptimes now h proof f s d n v,
    tm_verify P SP pkind_of calc vmem decode cl cons ptimes now h proof f s d n v = true ->
    tm_holds SP tlookup cl cons ptimes now h f s d n v.
Proof. intros [A [B C]]. intros. eapply tm_verify_sound; eauto. Qed.

Lemma tm_complete_lib P SP pkind_of calc vmem decode tlookup :
  tm_lib_ok P SP pkind_of calc vmem decode tlookup ->
  forall cl cons ptimes now h f s d n v,
    tm_holds SP tlookup cl cons ptimes now h f s d n v ->
    exists bz, tm_verify P SP pkind_of calc vmem decode cl cons ptimes now h (Some bz) f s d n v = true.
Proof. intros [A [B C]]. intros. eapply tm_verify_complete; eauto. Qed.

Lemma tm_property_lib P SP pkind_of calc vmem decode tlookup :
  tm_lib_ok P SP pkind_of calc vmem decode tlookup ->
  forall cl cons ptimes now h f s d n v,
    nopercent (t_prefix cl) -> nopercent s -> nopercent d ->
    (forall pt, hlookup ptimes h = Some pt -> pt + t_delay cl < two64) ->
    ((exists bz, tm_verify P SP pkind_of calc vmem decode cl cons ptimes now h (Some bz) f s d n v = true) <->
     tm_property SP tlookup cl cons ptimes now h f s d n v).
Proof. intros [A [B C]]. intros. eapply tm_verifiable_iff_property; eauto. Qed.

Lemma evm_sound_lib NS mpt_verify keccak rlp_account rlp_dec decode mlookup :
  evm_lib_ok NS mpt_verify keccak rlp_account rlp_dec decode mlookup ->
  forall cl cons h proof f s d n v,
    evm_verify NS mpt_verify keccak rlp_account rlp_dec decode cl cons h proof f s d n v = true ->
    evm_holds keccak rlp_account rlp_dec mlookup cl cons h f s d n v.
Proof. intros [A [B [C [D [E F]]]]]. intros. eapply evm_verify_sound; eauto. Qed.

Lemma evm_complete_lib NS mpt_verify keccak rlp_account rlp_dec decode mlookup :
  evm_lib_ok NS mpt_verify keccak rlp_account rlp_dec decode mlookup ->
  forall cl cons h f s d n v,
    evm_holds keccak rlp_account rlp_dec mlookup cl cons h f s d n v ->
    exists bz, evm_verify NS mpt_verify keccak rlp_account rlp_dec decode cl cons h (Some bz) f s d n v = true.
Proof. intros [A [B [C [D [E F]]]]]. intros. eapply evm_verify_complete; eauto. Qed.

Lemma evm_property_lib NS mpt_verify keccak rlp_account rlp_dec decode mlookup :
  evm_lib_ok NS mpt_verify keccak rlp_account rlp_dec decode mlookup ->
  forall cl cons h f s d n v,
    fst h = fst (e_latest cl) -> snd (e_latest cl) < two64 ->
    ((exists bz, evm_verify NS mpt_verify keccak rlp_account rlp_dec decode cl cons h (Some bz) f s d n v = true) <->
     evm_property keccak rlp_account rlp_dec mlookup cl cons h f s d n v).
Proof. intros [A [B [C [D [E F]]]]]. intros. eapply evm_verifiable_iff_property; eauto. Qed.

(** the clean point is compared as the 32-byte storage word of the sequence (repair 8edde70) *)
Lemma be_aux_length w : forall n acc, length (be_aux w n acc) = (w + length acc)%nat.
Proof. induction w as [|w IH]; intros n acc; cbn [be_aux]; [reflexivity|]. rewrite IH. simpl. lia. Qed.

Lemma evm_claimed_clean n v :
  evm_claimed FClean n v = zeros 24 ++ be64 n /\ length (evm_claimed FClean n v) = 32%nat.
Proof.
  assert (L : length (be64 n) = 8%nat) by (unfold be64; rewrite be_aux_length; reflexivity).
  unfold evm_claimed, lpad32. rewrite L. split; [reflexivity|]. rewrite app_length, zeros_length, L. reflexivity.
Qed.
