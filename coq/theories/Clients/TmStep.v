(** The update step of the Tendermint light client: acceptance as the light-client rule,
    exact effect, rejection, the keeper gate, and invariants over all update histories. *)
From Tibc Require Import Base.Bytes Clients.Tm Clients.TmTally.
From Coq Require Import ZArith ZifyN ZifyNat ZifyBool Lia Sorting.Sorted.
Ltac Zify.zify_post_hook ::= Z.div_mod_to_equations.
Open Scope Z_scope.

(** * Heights *)
Lemma height_eqb_eq a b : height_eqb a b = true <-> a = b.
Proof.
  destruct a as [r1 n1], b as [r2 n2]. unfold height_eqb. cbn [h_rev h_num].
  rewrite andb_true_iff, !N.eqb_eq. split; [intros [-> ->]; reflexivity | intros [= -> ->]; auto].
Qed.
Lemma height_eqb_refl a : height_eqb a a = true.
Proof. apply height_eqb_eq. reflexivity. Qed.
Lemma height_eqb_neq a b : height_eqb a b = false <-> a <> b.
Proof.
  split; [intros H E; apply height_eqb_eq in E; congruence|].
  intros H. destruct (height_eqb a b) eqn:E; [apply height_eqb_eq in E; contradiction | reflexivity].
Qed.

(** Height.Compare as a relation: revision first *)
Definition height_lt (a b : height) : Prop :=
  (h_rev a < h_rev b)%N \/ (h_rev a = h_rev b /\ (h_num a < h_num b)%N).
Definition height_le (a b : height) : Prop := height_lt a b \/ a = b.

Lemma height_ltb_lt a b : height_ltb a b = true <-> height_lt a b.
Proof.
  unfold height_ltb, height_lt. destruct (N.eqb_spec (h_rev a) (h_rev b)) as [E|E].
  - rewrite N.ltb_lt. split; [intros H; right; auto | intros [H|[_ H]]; [lia | exact H]].
  - rewrite N.ltb_lt. split; [intros H; left; exact H | intros [H|[H _]]; [exact H | contradiction]].
Qed.
Lemma height_ltb_ge a b : height_ltb a b = false <-> height_le b a.
Proof.
  destruct a as [r1 n1], b as [r2 n2]. unfold height_ltb, height_le, height_lt. cbn [h_rev h_num].
  destruct (N.eqb_spec r1 r2) as [E|E].
  - rewrite N.ltb_ge. split.
    + intros H. destruct (N.eq_dec n1 n2) as [->|Hn]; [right; subst; reflexivity | left; right; split; [auto | lia]].
    + intros [[H|[_ H]]|[= _ ->]]; lia.
  - rewrite N.ltb_ge. split.
    + intros H. left. left. lia.
    + intros [[H|[H _]]|[= -> _]]; [lia | congruence | congruence].
Qed.
Lemma height_leb_le a b : height_leb a b = true <-> height_le a b.
Proof. unfold height_leb. rewrite negb_true_iff. apply height_ltb_ge. Qed.

Lemma height_lt_irrefl a : ~ height_lt a a.
Proof. unfold height_lt. lia. Qed.
Lemma height_lt_trans a b c : height_lt a b -> height_lt b c -> height_lt a c.
Proof. unfold height_lt. intros [H|[E H]] [H'|[E' H']]; [left; lia | left; lia | left; lia | right; split; lia]. Qed.
Lemma height_le_refl a : height_le a a.
Proof. right. reflexivity. Qed.
Lemma height_le_trans a b c : height_le a b -> height_le b c -> height_le a c.
Proof.
  intros [H | ->] [H' | ->]; [left; eapply height_lt_trans; eauto | left; exact H | left; exact H' | right; reflexivity].
Qed.
Lemma height_lt_total a b : height_lt a b \/ a = b \/ height_lt b a.
Proof.
  destruct a as [r1 n1], b as [r2 n2]. unfold height_lt. cbn [h_rev h_num].
  destruct (N.lt_total r1 r2) as [H|[->|H]]; [left; left; exact H | | right; right; left; exact H].
  destruct (N.lt_total n1 n2) as [H|[->|H]]; [left; right; auto | right; left; reflexivity | right; right; right; auto].
Qed.

(** * The height-indexed maps *)
Section HMapFacts.
  Context {V : Type}.
  Implicit Types m : list (height * V).

  Lemma hlookup_hset_eq k v m : hlookup k (hset k v m) = Some v.
  Proof.
    induction m as [|[k' v'] m IH]; cbn [hset hlookup]; [rewrite height_eqb_refl; reflexivity|].
    destruct (height_ltb k k'); [cbn [hlookup]; rewrite height_eqb_refl; reflexivity|].
    destruct (height_eqb k k') eqn:E; cbn [hlookup]; [rewrite height_eqb_refl; reflexivity|].
    rewrite E. exact IH.
  Qed.

  Lemma hlookup_hset_neq k k' v m : k <> k' -> hlookup k (hset k' v m) = hlookup k m.
  Proof.
    intros Hn. apply height_eqb_neq in Hn.
    induction m as [|[k2 v2] m IH]; cbn [hset hlookup]; [rewrite Hn; reflexivity|].
    destruct (height_ltb k' k2); [cbn [hlookup]; rewrite Hn; reflexivity|].
    destruct (height_eqb k' k2) eqn:E; cbn [hlookup].
    - apply height_eqb_eq in E. subst k2. rewrite Hn. reflexivity.
    - destruct (height_eqb k k2); [reflexivity | exact IH].
  Qed.

  Lemma hlookup_hremove_eq k m : hlookup k (hremove k m) = None.
  Proof.
    induction m as [|[k' v'] m IH]; [reflexivity|]. unfold hremove in *. cbn [filter fst].
    destruct (height_eqb k k') eqn:E; cbn [negb]; [exact IH|]. cbn [hlookup]. rewrite E. exact IH.
  Qed.

  Lemma hlookup_hremove_neq k k' m : k <> k' -> hlookup k (hremove k' m) = hlookup k m.
  Proof.
    intros Hn. induction m as [|[k2 v2] m IH]; [reflexivity|]. unfold hremove in *. cbn [filter fst].
    destruct (height_eqb k' k2) eqn:E; cbn [negb hlookup].
    - apply height_eqb_eq in E. subst k2. apply height_eqb_neq in Hn. rewrite Hn. exact IH.
    - rewrite IH. reflexivity.
  Qed.

  Lemma map_fst_hset k v m : map fst (hset k v m) = iter_add k (map fst m).
  Proof.
    induction m as [|[k' v'] m IH]; [reflexivity|]. cbn [hset map fst iter_add].
    destruct (height_ltb k k'); [reflexivity|]. destruct (height_eqb k k') eqn:E.
    - apply height_eqb_eq in E. subst. reflexivity.
    - cbn [map fst]. rewrite IH. reflexivity.
  Qed.

  Lemma map_fst_hremove k m : map fst (hremove k m) = iter_remove k (map fst m).
  Proof.
    induction m as [|[k' v'] m IH]; [reflexivity|]. unfold hremove, iter_remove in *. cbn [filter map fst].
    destruct (height_eqb k k'); cbn [negb map fst]; rewrite IH; reflexivity.
  Qed.

  Lemma hlookup_in_dom k m v : hlookup k m = Some v -> In k (map fst m).
  Proof.
    induction m as [|[k' v'] m IH]; [discriminate|]. cbn [hlookup map fst].
    destruct (height_eqb k k') eqn:E; [apply height_eqb_eq in E; left; auto | right; auto].
  Qed.

  Lemma in_dom_hlookup k m : In k (map fst m) -> exists v, hlookup k m = Some v.
  Proof.
    induction m as [|[k' v'] m IH]; [intros []|]. cbn [hlookup map fst].
    destruct (height_eqb k k') eqn:E; [eauto|]. intros [->|H]; [rewrite height_eqb_refl in E; discriminate | auto].
  Qed.
End HMapFacts.

(** ascending iteration order *)
Definition ascending (l : list height) : Prop := StronglySorted height_lt l.

Lemma iter_add_in k x l : In x (iter_add k l) <-> x = k \/ In x l.
Proof.
  induction l as [|k' l IH]; cbn [iter_add]; [cbn; intuition|].
  destruct (height_ltb k k'); [cbn [In]; intuition|].
  destruct (height_eqb k k') eqn:E.
  - apply height_eqb_eq in E. subst. cbn [In]. intuition.
  - cbn [In]. rewrite IH. intuition.
Qed.

Lemma iter_add_ascending k l : ascending l -> ascending (iter_add k l).
Proof.
  unfold ascending. induction 1 as [|k' l Hs IH Hall]; cbn [iter_add]; [repeat constructor|].
  destruct (height_ltb k k') eqn:E1.
  - apply height_ltb_lt in E1. constructor; [constructor; assumption|].
    constructor; [exact E1|]. eapply Forall_impl; [|exact Hall]. intros x Hx. eapply height_lt_trans; eauto.
  - destruct (height_eqb k k') eqn:E2; [constructor; assumption|].
    constructor; [exact IH|]. apply Forall_forall. intros x Hx. apply iter_add_in in Hx. destruct Hx as [->|Hx].
    + apply height_ltb_ge in E1. apply height_eqb_neq in E2. destruct E1 as [H|H]; [exact H | congruence].
    + rewrite Forall_forall in Hall. auto.
Qed.

Lemma iter_remove_ascending k l : ascending l -> ascending (iter_remove k l).
Proof.
  unfold ascending, iter_remove. induction 1 as [|k' l Hs IH Hall]; cbn [filter]; [constructor|].
  destruct (negb (height_eqb k k')); [|exact IH].
  constructor; [exact IH|]. apply Forall_forall. intros x Hx. apply filter_In in Hx. rewrite Forall_forall in Hall. apply Hall, Hx.
Qed.

(** * Acceptance = the light-client rule *)

Lemma total_power_nonneg vs : forallb (fun v => 0 <=? v_power v) vs = true -> 0 <= total_power vs.
Proof.
  induction vs as [|v vs IH]; cbn [forallb total_power fold_right]; [lia|].
  rewrite andb_true_iff. intros [H1 H2]. unfold total_power in IH. specialize (IH H2). lia.
Qed.

Lemma valset_ok_nonneg s : valset_ok s = true ->
  Forall (fun v => 0 <= v_power v) (vs_vals s) /\ 0 <= total_power (vs_vals s) <= max_total_voting_power /\ vs_vals s <> [].
Proof.
  unfold valset_ok. rewrite !andb_true_iff. intros [[[_ Hne] Hf] Ht]. repeat split.
  - rewrite forallb_forall in Hf. apply Forall_forall. intros v Hv. specialize (Hf v Hv). lia.
  - apply total_power_nonneg. exact Hf.
  - lia.
  - destruct (vs_vals s); [discriminate | discriminate].
Qed.

(** more than 2/3 of the header's own validators: a prefix of the commit (validators by index),
    all of whose Commit entries are validly signed, holds more than two thirds of the total *)
Definition own_quorum (vals : list validator) (sigs : list csig) : Prop :=
  length vals = length sigs /\
  exists p q, combine vals sigs = p ++ q /\ all_valid p /\ 2 * total_power vals < 3 * commit_power p.

(** more than the trust level of the trusted validators: a prefix of the commit's entries by
    trusted validators (looked up by address), all validly signed, no validator twice, holds more
    than num/den of the trusted total; and cometbft's int64 guard on total * num *)
Definition trusted_quorum (tvals : list validator) (sigs : list csig) (num den : N) : Prop :=
  total_power tvals * Z.of_N num <= max_int64 /\
  exists p q, filter_map (tr_view tvals) sigs = p ++ q /\
    Forall (fun e => ok_of e = true) p /\ NoDup (map idx_of p) /\
    total_power tvals * Z.of_N num < view_power p * Z.of_N den.

Lemma verify_commit_light_iff vals sigs : 0 <= total_power vals ->
  verify_commit_light vals sigs = true <-> own_quorum vals sigs.
Proof.
  intros Ht. unfold verify_commit_light, own_quorum. rewrite andb_true_iff, Nat.eqb_eq.
  split; intros [Hl H]; (split; [exact Hl|]).
  - rewrite scan_own_zip in H by exact Hl. apply scan_ownz_iff in H; [|lia].
    destruct H as (p & q & E & Hv & Hc). exists p, q. repeat split; try assumption. lia.
  - rewrite scan_own_zip by exact Hl. apply scan_ownz_iff; [lia|].
    destruct H as (p & q & E & Hv & Hc). exists p, q. repeat split; try assumption. lia.
Qed.

Lemma verify_commit_light_trusting_iff tvals sigs num den : tl_wf num den -> 0 <= total_power tvals ->
  verify_commit_light_trusting tvals sigs num den = true <-> trusted_quorum tvals sigs num den.
Proof.
  intros Hwf Ht. unfold verify_commit_light_trusting, trusted_quorum.
  assert (Hd : 0 < Z.of_N den) by (destruct Hwf; lia).
  assert (Hq : 0 <= total_power tvals * Z.of_N num / Z.of_N den) by (apply Z.div_pos; nia).
  destruct (trust_needed (total_power tvals) num den) as [needed|] eqn:E.
  - apply (trust_needed_wf _ _ _ Hwf Ht) in E. destruct E as [Hov ->]. rewrite scan_tr_view, scan_idx_iff by lia.
    split.
    + intros (p & q & Ep & Hok & Hnd & _ & Hc). split; [exact Hov|]. exists p, q. repeat split; try assumption.
      apply fraction_boundary in Hc; [lia | exact Hd].
    + intros (_ & p & q & Ep & Hok & Hnd & Hc). exists p, q. repeat split; try assumption.
      * intros i _ [].
      * apply fraction_boundary; [exact Hd | lia].
  - split; [discriminate|]. intros (Hov & _). exfalso.
    pose proof (trust_needed_wf _ _ _ Hwf Ht (total_power tvals * Z.of_N num / Z.of_N den)) as [_ Hn].
    rewrite Hn in E; [discriminate | split; [exact Hov | reflexivity]].
Qed.

(** the rule of the property, for the header [hd] against the stored state [co] at the trusted
    height, at block time [now]; [h] is the header's height (revision of its chain id, number) *)
Record light_client_rule (now : Z) (cl : client) (st : store) (hd : header) (co : cons) (h : height) : Prop := {
  r_trusted_stored : hlookup (hd_trusted_height hd) (st_cons st) = Some co;
  r_trusted_vals : valset_ok (hd_trusted_vals hd) = true /\ co_nvh co = vs_hash (hd_trusted_vals hd);
  r_height : header_height hd = Some h;
  r_same_revision : h_rev h = h_rev (hd_trusted_height hd);
  r_newer : (h_num (hd_trusted_height hd) < hd_height hd)%N;
  r_chain : hd_chain_id hd = expected_chain_id (cl_chain_id cl) (h_rev h);
  r_wellformed : hd_struct hd = true /\ hd_commit_height hd = hd_height hd /\ hd_commit_for_header hd = true;
  r_own_vals : valset_ok (hd_vals hd) = true /\ hd_vals_hash hd = vs_hash (hd_vals hd);
  r_within_trusting_period : now < co_time co + cl_period cl;
  r_time_after_trusted : co_time co < hd_time hd;
  r_time_within_drift : hd_time hd < now + cl_drift cl;
  r_link : if adjacent hd then hd_vals_hash hd = co_nvh co
           else trusted_quorum (vs_vals (hd_trusted_vals hd)) (hd_commit hd) (cl_tl_num cl) (cl_tl_den cl);
  r_own_quorum : own_quorum (vs_vals (hd_vals hd)) (hd_commit hd);
  r_prunable : match st_iter st with
               | [] => True
               | k :: _ => exists c, hlookup k (st_cons st) = Some c
               end }.

Lemma expired_false period t now : expired period t now = false <-> now < t + period.
Proof. unfold expired. rewrite negb_false_iff, Z.ltb_lt. reflexivity. Qed.
Lemma expired_true period t now : expired period t now = true <-> t + period <= now.
Proof. unfold expired. rewrite negb_true_iff, Z.ltb_ge. reflexivity. Qed.

Lemma prune_some_iff cl st now :
  (exists st1, prune cl st now = Some st1) <->
  match st_iter st with [] => True | k :: _ => exists c, hlookup k (st_cons st) = Some c end.
Proof.
  unfold prune. destruct (st_iter st) as [|k l]; [split; eauto|].
  destruct (hlookup k (st_cons st)) as [c|].
  - split; [eauto|]. intros _. destruct (expired (cl_period cl) (co_time c) now); eauto.
  - split; [intros [? [=]] | intros [? [=]]].
Qed.

Lemma check_validity_iff cl co hd now : tl_wf (cl_tl_num cl) (cl_tl_den cl) ->
  check_validity cl co hd now = true <->
  exists h,
    (valset_ok (hd_trusted_vals hd) = true /\ co_nvh co = vs_hash (hd_trusted_vals hd)) /\
    header_height hd = Some h /\
    h_rev h = h_rev (hd_trusted_height hd) /\
    (h_num (hd_trusted_height hd) < hd_height hd)%N /\
    hd_chain_id hd = expected_chain_id (cl_chain_id cl) (h_rev h) /\
    (hd_struct hd = true /\ hd_commit_height hd = hd_height hd /\ hd_commit_for_header hd = true) /\
    (valset_ok (hd_vals hd) = true /\ hd_vals_hash hd = vs_hash (hd_vals hd)) /\
    now < co_time co + cl_period cl /\
    co_time co < hd_time hd /\
    hd_time hd < now + cl_drift cl /\
    (if adjacent hd then hd_vals_hash hd = co_nvh co
     else trusted_quorum (vs_vals (hd_trusted_vals hd)) (hd_commit hd) (cl_tl_num cl) (cl_tl_den cl)) /\
    own_quorum (vs_vals (hd_vals hd)) (hd_commit hd).
Proof.
  intros Hwf. unfold check_validity, check_trusted_header.
  destruct (header_height hd) as [h|] eqn:Eh.
  2:{ rewrite andb_false_r. split; [discriminate|]. intros (h & _ & [=] & _). }
  split.
  - rewrite !andb_true_iff. intros [[Htv Hth] [[[Hrev Hvs] Hlt] Hlv]].
    exists h. apply beq_spec in Hth. apply N.eqb_eq in Hrev.
    unfold light_verify, verify_new_header_and_vals in Hlv. rewrite !andb_true_iff in Hlv.
    destruct Hlv as [[[Hexp [[[[[[[Hst Hci] Hch] Hcf] Hnew] Hta] Htd] Hvh]] Hlink] Hown].
    apply beq_spec in Hci, Hvh. apply N.eqb_eq in Hch. apply N.ltb_lt in Hnew. apply Z.ltb_lt in Hta, Htd.
    apply negb_true_iff, expired_false in Hexp.
    pose proof (valset_ok_nonneg _ Hvs) as (_ & [Hv0 _] & _).
    pose proof (valset_ok_nonneg _ Htv) as (_ & [Ht0 _] & _).
    apply verify_commit_light_iff in Hown; [|exact Hv0].
    split; [split; assumption|]. split; [reflexivity|]. split; [exact Hrev|]. split; [exact Hnew|].
    split; [exact Hci|]. split; [repeat split; assumption|]. split; [split; assumption|].
    split; [exact Hexp|]. split; [exact Hta|]. split; [exact Htd|]. split; [|exact Hown].
    destruct (adjacent hd).
    + apply beq_spec in Hlink. exact Hlink.
    + apply verify_commit_light_trusting_iff in Hlink; assumption.
  - intros (h' & [Htv Hth] & [= <-] & Hrev & Hnew & Hci & (Hst & Hch & Hcf) & (Hvs & Hvh) & Hexp & Hta & Htd & Hlink & Hown).
    pose proof (valset_ok_nonneg _ Hvs) as (_ & [Hv0 _] & _).
    pose proof (valset_ok_nonneg _ Htv) as (_ & [Ht0 _] & _).
    rewrite Htv, Hvs. rewrite Hth, beq_refl. cbn [andb].
    rewrite (proj2 (N.eqb_eq _ _) Hrev). cbn [andb].
    assert (Hlt : negb (height_leb h (hd_trusted_height hd)) = true).
    { unfold height_leb. rewrite negb_involutive. apply height_ltb_lt. right. split; [symmetry; exact Hrev|].
      unfold header_height in Eh. destruct (parse_chain_id (hd_chain_id hd)); [|discriminate]. injection Eh as <-. exact Hnew. }
    rewrite Hlt. cbn [andb].
    unfold light_verify, verify_new_header_and_vals.
    rewrite Hst, <- Hci, beq_refl, Hch, N.eqb_refl, Hcf, Hvh, beq_refl. cbn [andb].
    apply N.ltb_lt in Hnew. rewrite Hnew. apply Z.ltb_lt in Hta, Htd. rewrite Hta, Htd. cbn [andb].
    apply expired_false in Hexp. rewrite Hexp. cbn [negb andb].
    apply verify_commit_light_iff in Hown; [|exact Hv0]. rewrite Hown, andb_true_r.
    destruct (adjacent hd).
    + rewrite <- Hvh, Hlink. apply beq_refl.
    + apply verify_commit_light_trusting_iff; assumption.
Qed.

(** accepted exactly when the rule holds *)
Theorem tm_accept_iff now cl st hd : tl_wf (cl_tl_num cl) (cl_tl_den cl) ->
  (exists r, check_header_and_update now cl st hd = Some r) <->
  (exists co h, light_client_rule now cl st hd co h).
Proof.
  intros Hwf. unfold check_header_and_update.
  destruct (hlookup (hd_trusted_height hd) (st_cons st)) as [co|] eqn:Eco.
  2:{ split; [intros [? [=]] | intros (co & h & [H])]. congruence. }
  destruct (check_validity cl co hd now) eqn:Ecv.
  - apply (check_validity_iff _ _ _ _ Hwf) in Ecv.
    destruct Ecv as (h & Htv & Eh & Hrev & Hnew & Hci & Hwfh & Hvs & Hexp & Hta & Htd & Hlink & Hown).
    rewrite Eh. split.
    + intros [r Hr]. exists co, h. constructor; try assumption.
      apply (prune_some_iff cl st now). destruct (prune cl st now); [eauto | discriminate].
    + intros (co' & h' & R). destruct (proj2 (prune_some_iff cl st now) (r_prunable _ _ _ _ _ _ R)) as [st1 ->]. eauto.
  - split; [intros [? [=]]|]. intros (co' & h & R). exfalso.
    pose proof (r_trusted_stored _ _ _ _ _ _ R) as E. rewrite Eco in E. injection E as <-.
    assert (check_validity cl co hd now = true); [|congruence].
    apply (check_validity_iff _ _ _ _ Hwf). exists h. destruct R as [R1 R2 R3 R4 R5 R6 R7 R8 R9 R10 R11 R12 R13 R14].
    split; [exact R2|]. split; [exact R3|]. split; [exact R4|]. split; [exact R5|]. split; [exact R6|].
    split; [exact R7|]. split; [exact R8|]. split; [exact R9|]. split; [exact R10|]. split; [exact R11|].
    split; [exact R12 | exact R13].
Qed.

(** * Exact effect of an accepted update *)

(** state after the pruning step: either nothing, or the earliest stored height (which is
    expired) lost its consensus state and both metadata entries *)
Definition pruned (cl : client) (st st1 : store) (now : Z) : Prop :=
  st1 = st \/
  exists k rest c, st_iter st = k :: rest /\ hlookup k (st_cons st) = Some c /\
    co_time c + cl_period cl <= now /\
    st1 = Store (hremove k (st_cons st)) (hremove k (st_ptime st)) (iter_remove k (st_iter st)).

Lemma prune_spec cl st now st1 : prune cl st now = Some st1 ->
  pruned cl st st1 now /\
  (st1 = st <-> match st_iter st with
                | [] => True
                | k :: _ => forall c, hlookup k (st_cons st) = Some c -> now < co_time c + cl_period cl
                end \/ st1 = st).
Proof.
  unfold prune, pruned. destruct (st_iter st) as [|k rest] eqn:Ei.
  - intros [= <-]. split; [left; reflexivity | tauto].
  - destruct (hlookup k (st_cons st)) as [c|] eqn:Ec; [|discriminate].
    destruct (expired (cl_period cl) (co_time c) now) eqn:Ee.
    + intros [= <-]. apply expired_true in Ee. split.
      * right. exists k, rest, c. repeat split; assumption.
      * split; [intros H; right; exact H|]. intros [H|H]; [|exact H]. specialize (H c eq_refl). lia.
    + intros [= <-]. split; [left; reflexivity | tauto].
Qed.

Definition with_latest (cl : client) (h : height) : client :=
  Client (cl_chain_id cl) (cl_tl_num cl) (cl_tl_den cl) (cl_period cl) (cl_drift cl) h.

Definition max_height (a b : height) : height := if height_ltb a b then b else a.

Theorem tm_accept_effect now cl st hd cl' co' st' :
  check_header_and_update now cl st hd = Some (cl', co', st') ->
  exists h st1,
    header_height hd = Some h /\
    pruned cl st st1 now /\
    cl' = with_latest cl (max_height (cl_latest cl) h) /\
    co' = Cons (hd_time hd) (hd_app_hash hd) (hd_next_vals_hash hd) /\
    st' = Store (st_cons st1) (hset h (ptime_of now) (st_ptime st1)) (iter_add h (st_iter st1)).
Proof.
  unfold check_header_and_update.
  destruct (hlookup (hd_trusted_height hd) (st_cons st)) as [co|]; [|discriminate].
  destruct (check_validity cl co hd now); [|discriminate].
  destruct (header_height hd) as [h|]; [|discriminate].
  destruct (prune cl st now) as [st1|] eqn:Ep; [|discriminate].
  unfold update. intros [= <- <- <-]. exists h, st1. split; [reflexivity|].
  split; [apply (prune_spec _ _ _ _ Ep)|]. split; [|split; reflexivity].
  unfold with_latest, max_height. destruct (height_ltb (cl_latest cl) h); [reflexivity|]. destruct cl; reflexivity.
Qed.

(** * The keeper: Status == Active gate, writes *)
Theorem keeper_accept_iff now k hd :
  (forall cl st, k = Some (cl, st) -> tl_wf (cl_tl_num cl) (cl_tl_den cl)) ->
  (exists r, keeper_update now k hd = Some r) <->
  exists cl st, k = Some (cl, st) /\
    (exists lc, hlookup (cl_latest cl) (st_cons st) = Some lc /\ now < co_time lc + cl_period cl) /\
    exists co h, light_client_rule now cl st hd co h.
Proof.
  intros Hwf. unfold keeper_update. destruct k as [[cl st]|].
  2:{ split; [intros [? [=]] | intros (? & ? & [=] & _)]. }
  specialize (Hwf cl st eq_refl). unfold client_status.
  destruct (hlookup (cl_latest cl) (st_cons st)) as [lc|] eqn:El.
  2:{ split; [intros [? [=]] | intros (? & ? & [= <- <-] & (? & E & _) & _)]. congruence. }
  destruct (expired (cl_period cl) (co_time lc) now) eqn:Ee.
  { apply expired_true in Ee. split; [intros [? [=]] | intros (? & ? & [= <- <-] & (lc' & E & H) & _)].
    rewrite El in E. injection E as <-. lia. }
  apply expired_false in Ee.
  pose proof (tm_accept_iff now cl st hd Hwf) as Hiff.
  split.
  - intros [r Hr]. exists cl, st. split; [reflexivity|]. split; [eauto|].
    apply Hiff. destruct (check_header_and_update now cl st hd) as [r'|]; [eauto | discriminate].
  - intros (cl0 & st0 & [= <- <-] & _ & HR). apply Hiff in HR. destruct HR as [[[cl' co'] st'] Hr]. rewrite Hr.
    apply tm_accept_effect in Hr. destruct Hr as (h & st1 & -> & _). eauto.
Qed.

Theorem keeper_accept_effect now cl st hd cl' st' :
  keeper_update now (Some (cl, st)) hd = Some (cl', st') ->
  exists h st1,
    header_height hd = Some h /\ pruned cl st st1 now /\
    cl' = with_latest cl (max_height (cl_latest cl) h) /\
    st' = Store (hset h (header_cons hd) (st_cons st1)) (hset h (ptime_of now) (st_ptime st1)) (iter_add h (st_iter st1)).
Proof.
  unfold keeper_update. destruct (client_status now cl st); try discriminate.
  destruct (check_header_and_update now cl st hd) as [[[c1 co1] s1]|] eqn:E; [|discriminate].
  apply tm_accept_effect in E. destruct E as (h & st1 & Eh & Hp & -> & -> & ->). rewrite Eh.
  intros [= <- <-]. exists h, st1. repeat split; try assumption.
Qed.

(** the consensus state stored for the header height is exactly (time, app hash, next validators
    hash) of the header; every other height keeps what the pruning step left *)
Corollary keeper_accept_stored now cl st hd cl' st' :
  keeper_update now (Some (cl, st)) hd = Some (cl', st') ->
  exists h st1, header_height hd = Some h /\ pruned cl st st1 now /\
    hlookup h (st_cons st') = Some (Cons (hd_time hd) (hd_app_hash hd) (hd_next_vals_hash hd)) /\
    hlookup h (st_ptime st') = Some (ptime_of now) /\
    (forall k, k <> h -> hlookup k (st_cons st') = hlookup k (st_cons st1)) /\
    cl_latest cl' = max_height (cl_latest cl) h /\
    height_le (cl_latest cl) (cl_latest cl').
Proof.
  intros H. apply keeper_accept_effect in H. destruct H as (h & st1 & Eh & Hp & -> & ->).
  exists h, st1. cbn [st_cons st_ptime with_latest cl_latest]. repeat split; try assumption.
  - apply hlookup_hset_eq.
  - apply hlookup_hset_eq.
  - intros k Hk. apply hlookup_hset_neq. exact Hk.
  - unfold max_height. destruct (height_ltb (cl_latest cl) h) eqn:E.
    + left. apply height_ltb_lt. exact E.
    + apply height_le_refl.
Qed.

(** rejection changes nothing (the step keeps the old state) *)
Theorem keeper_reject_unchanged k now hd :
  keeper_update now k hd = None -> keeper_step k (now, hd) = k.
Proof. unfold keeper_step. cbn [fst snd]. intros ->. reflexivity. Qed.

(** * Histories *)
Definition run (ops : list (Z * header)) (k : kstate) : kstate := fold_left keeper_step ops k.

Lemma keeper_step_some cl st op : exists cl' st', keeper_step (Some (cl, st)) op = Some (cl', st').
Proof.
  unfold keeper_step. destruct (keeper_update (fst op) (Some (cl, st)) (snd op)) as [[c s]|]; eauto.
Qed.

Lemma keeper_step_params cl st op cl' st' : keeper_step (Some (cl, st)) op = Some (cl', st') ->
  cl_chain_id cl' = cl_chain_id cl /\ cl_tl_num cl' = cl_tl_num cl /\ cl_tl_den cl' = cl_tl_den cl /\
  cl_period cl' = cl_period cl /\ cl_drift cl' = cl_drift cl /\ height_le (cl_latest cl) (cl_latest cl').
Proof.
  unfold keeper_step. destruct (keeper_update (fst op) (Some (cl, st)) (snd op)) as [[c s]|] eqn:E.
  - intros [= <- <-]. pose proof (keeper_accept_stored _ _ _ _ _ _ E) as (h & st1 & _ & _ & _ & _ & _ & _ & Hle).
    apply keeper_accept_effect in E. destruct E as (h' & st1' & _ & _ & -> & _). cbn. repeat split; try reflexivity. exact Hle.
  - intros [= <- <-]. repeat split; try reflexivity. apply height_le_refl.
Qed.

(** latest height never decreases, client parameters never change, over every history *)
Theorem tm_latest_monotone ops : forall cl st,
  exists cl' st', run ops (Some (cl, st)) = Some (cl', st') /\
    height_le (cl_latest cl) (cl_latest cl') /\
    cl_chain_id cl' = cl_chain_id cl /\ cl_tl_num cl' = cl_tl_num cl /\ cl_tl_den cl' = cl_tl_den cl /\
    cl_period cl' = cl_period cl /\ cl_drift cl' = cl_drift cl.
Proof.
  induction ops as [|op ops IH]; intros cl st.
  - exists cl, st. cbn. repeat split; try reflexivity. apply height_le_refl.
  - cbn [run fold_left]. destruct (keeper_step_some cl st op) as (c1 & s1 & E). rewrite E.
    destruct (keeper_step_params _ _ _ _ _ E) as (H1 & H2 & H3 & H4 & H5 & H6).
    destruct (IH c1 s1) as (c2 & s2 & Er & Hle & G1 & G2 & G3 & G4 & G5). exists c2, s2.
    split; [exact Er|]. split; [eapply height_le_trans; eauto|]. repeat split; congruence.
Qed.

(** store invariant: the three key families cover the same heights, in ascending order *)
Definition store_wf (st : store) : Prop :=
  map fst (st_cons st) = st_iter st /\ map fst (st_ptime st) = st_iter st /\ ascending (st_iter st).

Lemma pruned_wf cl st st1 now : pruned cl st st1 now -> store_wf st -> store_wf st1.
Proof.
  intros [-> | (k & rest & c & Ei & Ec & _ & ->)] (H1 & H2 & H3); [repeat split; assumption|].
  unfold store_wf. cbn [st_cons st_ptime st_iter]. rewrite !map_fst_hremove, H1, H2.
  repeat split. apply iter_remove_ascending. exact H3.
Qed.

Lemma keeper_step_wf cl st op cl' st' : keeper_step (Some (cl, st)) op = Some (cl', st') ->
  store_wf st -> store_wf st'.
Proof.
  unfold keeper_step. destruct (keeper_update (fst op) (Some (cl, st)) (snd op)) as [[c s]|] eqn:E.
  - intros [= <- <-] Hwf. apply keeper_accept_effect in E. destruct E as (h & st1 & _ & Hp & _ & ->).
    pose proof (pruned_wf _ _ _ _ Hp Hwf) as (H1 & H2 & H3).
    unfold store_wf. cbn [st_cons st_ptime st_iter]. rewrite !map_fst_hset, H1, H2.
    repeat split. apply iter_add_ascending. exact H3.
  - intros [= <- <-] Hwf. exact Hwf.
Qed.

Lemma create_wf now cl co : exists st, keeper_create now cl co = Some (cl, st) /\ store_wf st.
Proof.
  eexists. split; [reflexivity|]. unfold store_wf. cbn. repeat split. repeat constructor.
Qed.

Theorem tm_store_wf_reachable ops : forall cl st, store_wf st ->
  forall cl' st', run ops (Some (cl, st)) = Some (cl', st') -> store_wf st'.
Proof.
  induction ops as [|op ops IH]; intros cl st Hwf cl' st'.
  - cbn. intros [= <- <-]. exact Hwf.
  - cbn [run fold_left]. destruct (keeper_step_some cl st op) as (c1 & s1 & E). rewrite E.
    apply IH. eapply keeper_step_wf; eauto.
Qed.

(** in a well-formed store the pruning step never fails, so the last clause of the rule is void *)
Lemma store_wf_prunable st : store_wf st ->
  match st_iter st with [] => True | k :: _ => exists c, hlookup k (st_cons st) = Some c end.
Proof.
  intros (H1 & _ & _). destruct (st_iter st) as [|k l] eqn:E; [exact I|].
  apply in_dom_hlookup. rewrite H1. left. reflexivity.
Qed.

(** in a well-formed store the height examined by the pruning step is the lowest stored one *)
Lemma store_wf_earliest st k rest : store_wf st -> st_iter st = k :: rest ->
  forall k' c, hlookup k' (st_cons st) = Some c -> height_le k k'.
Proof.
  intros (H1 & _ & H3) E k' c Hc. apply hlookup_in_dom in Hc. rewrite H1, E in Hc.
  destruct Hc as [<-|Hc]; [apply height_le_refl|].
  rewrite E in H3. inversion H3 as [|? ? _ Hall]; subst. rewrite Forall_forall in Hall. left. auto.
Qed.

(** every stored consensus state is the initial one or was written by an accepted header of that
    height (and is that header's time / app hash / next validators hash) *)
Definition explained (init : height * cons) (ops : list (Z * header)) (k0 : kstate) (k : height) (c : cons) : Prop :=
  (k = fst init /\ c = snd init) \/
  exists pre now hd post, ops = pre ++ (now, hd) :: post /\
    keeper_update now (run pre k0) hd <> None /\
    header_height hd = Some k /\ c = header_cons hd.

Lemma pruned_lookup cl st st1 now k c : pruned cl st st1 now ->
  hlookup k (st_cons st1) = Some c -> hlookup k (st_cons st) = Some c.
Proof.
  intros [-> | (k0 & rest & c0 & _ & _ & _ & ->)]; [auto|]. cbn [st_cons].
  destruct (height_eqb k k0) eqn:E.
  - apply height_eqb_eq in E. subst. rewrite hlookup_hremove_eq. discriminate.
  - apply height_eqb_neq in E. rewrite hlookup_hremove_neq by exact E. auto.
Qed.

Theorem tm_stored_explained now0 cl0 co0 ops cl st :
  run ops (keeper_create now0 cl0 co0) = Some (cl, st) ->
  forall k c, hlookup k (st_cons st) = Some c ->
  explained (cl_latest cl0, co0) ops (keeper_create now0 cl0 co0) k c.
Proof.
  revert cl st. induction ops as [|op ops IH] using rev_ind; intros cl st Hr k c Hl.
  - cbn in Hr. injection Hr as <- <-. cbn [st_cons hlookup] in Hl.
    destruct (height_eqb k (cl_latest cl0)) eqn:E; [|discriminate]. apply height_eqb_eq in E. injection Hl as <-.
    left. split; [exact E | reflexivity].
  - unfold run in Hr. rewrite fold_left_app in Hr. cbn [fold_left] in Hr.
    fold (run ops (keeper_create now0 cl0 co0)) in Hr.
    destruct (run ops (keeper_create now0 cl0 co0)) as [[c1 s1]|] eqn:E1.
    2:{ unfold keeper_step, keeper_update in Hr. discriminate. }
    assert (Hweak : forall k c, explained (cl_latest cl0, co0) ops (keeper_create now0 cl0 co0) k c ->
                      explained (cl_latest cl0, co0) (ops ++ [op]) (keeper_create now0 cl0 co0) k c).
    { intros k' c' [H|(pre & n & hd & post & -> & Ha & Hh & Hc)]; [left; exact H|].
      right. exists pre, n, hd, (post ++ [op]). rewrite <- app_assoc. cbn [app]. repeat split; assumption. }
    unfold keeper_step in Hr.
    destruct (keeper_update (fst op) (Some (c1, s1)) (snd op)) as [[c2 s2]|] eqn:E2.
    + injection Hr as <- <-. pose proof (keeper_accept_stored _ _ _ _ _ _ E2) as (h & st1 & Eh & Hp & Hs & _ & Ho & _).
      destruct (height_eqb k h) eqn:Ek.
      * apply height_eqb_eq in Ek. subst k. rewrite Hs in Hl. injection Hl as <-.
        right. exists ops, (fst op), (snd op), []. destruct op as [n hd]. cbn [fst snd] in *.
        repeat split; [| exact Eh]. unfold run in E1 |- *. rewrite E1, E2. discriminate.
      * apply height_eqb_neq in Ek. rewrite (Ho k Ek) in Hl. apply Hweak. eapply IH; [reflexivity|].
        eapply pruned_lookup; eauto.
    + injection Hr as <- <-. apply Hweak. eapply IH; [reflexivity | exact Hl].
Qed.
