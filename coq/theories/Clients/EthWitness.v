(** Concrete histories for C18: non-vacuity of the premises and the refutation of
    the single-chain statement without the premise "distinct headers at one height
    have distinct state roots" (known finding C18:equal-root-branches). *)
From Coq Require Import List NArith ZArith Bool Lia.
From Tibc Require Import Clients.Eth Clients.EthFacts.
Import ListNotations.
Open Scope N_scope.

(** a valid child of [p] as the generator of the harness builds it *)
Definition mk_child (p : header) (hash dt root used : N) : header :=
  Hd hash (h_hash p) (h_rev p) (h_num p + 1) (h_time p + dt) root empty_uncle
     (h_gaslimit p) used (calc_difficulty (h_time p + dt) p)
     (match calc_base_fee p with Some b => b | None => 0%Z end) 0 true.

Definition w_h0 : header :=
  Hd 2 14 0 9800000 1700000000 3 empty_uncle 30000000 15000000 9000000000000000%Z 50000000000%Z 2 true.
Definition w_now : N := 1700005000.
Definition w_op (h : header) : op := Op w_now true h.

(** the header tree of the harness family "equal-root-witness-2":
      h0 - b1 - b2 - b3        b2 and a2 carry the same state root (6) at height 9800002
         \ a1 - a2
              \ e2 *)
Definition w_b1 := mk_child w_h0 1 14 4 2000.
Definition w_b2 := mk_child w_b1 5 14 6 2000.
Definition w_a1 := mk_child w_h0 7 13 8 1000.
Definition w_a2 := mk_child w_a1 9 13 6 1000.
Definition w_b3 := mk_child w_b2 10 13 11 1000.
Definition w_e2 := mk_child w_a1 12 15 13 3000.
Definition w_ops : list op := map w_op [w_b1; w_b2; w_a1; w_a2; w_b3; w_e2].

(** the same tree with distinct roots (a2 has root 16) *)
Definition v_a2 := mk_child w_a1 9 13 16 1000.
Definition v_ops : list op := map w_op [w_b1; w_b2; w_a1; v_a2; w_b3; w_e2].

Ltac in_cases H := cbn [In] in H; repeat (destruct H as [H|H]; [subst|]); try contradiction.

Lemma w_accepted : eth_accepted w_h0 1000000 w_ops = [w_e2; w_b3; w_a2; w_a1; w_b2; w_b1; w_h0].
Proof. vm_compute. reflexivity. Qed.
Lemma v_accepted : eth_accepted w_h0 1000000 v_ops = [w_e2; w_b3; v_a2; w_a1; w_b2; w_b1; w_h0].
Proof. vm_compute. reflexivity. Qed.

Lemma w_nocoll : NoColl [w_e2; w_b3; w_a2; w_a1; w_b2; w_b1; w_h0].
Proof.
  intros x y Hx Hy. in_cases Hx; in_cases Hy; first [reflexivity | vm_compute; intros E; discriminate E].
Qed.

(** without the distinct-roots premise the statement fails: after the six updates the
    latest header is e2 (child of a1) but the consensus state at height 9800001 is b1's *)
Theorem eth_equal_root_refuted :
  exists h0 trust ops,
    let s := eth_run h0 trust ops in
    let acc := eth_accepted h0 trust ops in
    NoColl acc /\ (forall x, In x acc -> h_num x < two64 - 1) /\
    exists r n c, n <= h_num (s_tip s) /\ pget (r, n) (s_main s) = Some c /\
      forall x, linked acc (s_tip s) x -> h_num x = n -> c <> cons_of x.
Proof.
  exists w_h0, 1000000, w_ops. cbv zeta. rewrite w_accepted. split; [exact w_nocoll | split].
  - intros x Hx. in_cases Hx; vm_compute; reflexivity.
  - exists 0, 9800001, (cons_of w_b1).
    assert (Et : s_tip (eth_run w_h0 1000000 w_ops) = w_e2) by (vm_compute; reflexivity).
    rewrite Et. split; [vm_compute; discriminate | split; [vm_compute; reflexivity|]].
    intros x Hl Hn.
    assert (Ha : linked [w_e2; w_b3; w_a2; w_a1; w_b2; w_b1; w_h0] w_e2 w_a1).
    { eapply l_step; [| | | apply l_refl]; [cbn; auto 10 | vm_compute; reflexivity | vm_compute; reflexivity]. }
    assert (x = w_a1) by (eapply linked_unique_nc; [exact w_nocoll | exact Hl | exact Ha | rewrite Hn; vm_compute; reflexivity]).
    subst x. vm_compute. intros E. discriminate E.
Qed.

(** non-vacuity: with distinct roots the same submissions satisfy all premises, contain
    fork switches to a lower, an equal and a higher height, nothing is pruned, and the
    consensus states up to the latest header are exactly e2, a1, h0 *)
Lemma v_good : Good [w_e2; w_b3; v_a2; w_a1; w_b2; w_b1; w_h0].
Proof.
  split.
  - intros x y Hx Hy. in_cases Hx; in_cases Hy; first [reflexivity | vm_compute; intros E; discriminate E].
  - intros x y Hx Hy. in_cases Hx; in_cases Hy;
      first [reflexivity | vm_compute; intros E; discriminate E | vm_compute; intros _ E; discriminate E].
  - intros x Hx. in_cases Hx; vm_compute; reflexivity.
Qed.

Lemma v_quiet : quiet (eth_init w_h0 1000000) v_ops.
Proof. vm_compute. repeat split. Qed.

Example eth_single_chain_nonvacuous :
  Good (eth_accepted w_h0 1000000 v_ops) /\ quiet (eth_init w_h0 1000000) v_ops /\
  length (eth_accepted w_h0 1000000 v_ops) = 7%nat /\
  s_tip (eth_run w_h0 1000000 v_ops) = w_e2 /\
  map (fun n => pget (0, n) (s_main (eth_run w_h0 1000000 v_ops))) [9800000; 9800001; 9800002; 9800003] =
    [Some (cons_of w_h0); Some (cons_of w_a1); Some (cons_of w_e2); Some (cons_of w_b3)].
Proof.
  rewrite v_accepted. split; [exact v_good | split; [exact v_quiet | split; [reflexivity | split]]]; vm_compute; reflexivity.
Qed.

(** non-vacuity of the acceptance characterisation: a valid child is accepted, and each
    single perturbation of it is refused *)
Example eth_accept_nonvacuous :
  let s := eth_run w_h0 1000000 [w_op w_b1] in
  let c := mk_child w_b1 20 14 21 2000 in
  (exists s', eth_update w_now true c s = Some s') /\
  eth_update w_now false c s = None /\
  eth_update (h_time c - 16) true c s = None /\
  eth_update w_now true (mk_child w_b1 20 0 21 2000) s = None /\
  eth_update w_now true w_b1 s = None /\
  eth_update w_now true (mk_child w_b2 22 14 23 2000) s = None.
Proof. vm_compute. repeat split; try reflexivity. eexists; reflexivity. Qed.
