(** C08 -- state-proof verification glue of the three light clients.

    Modelled (as the code is now in /repo):
    - 07-tendermint/types/client_state.go: VerifyPacketCommitment / VerifyPacketAcknowledgement /
      VerifyPacketCleanCommitment, produceVerificationArgs, verifyDelayPeriodPassed
    - 23-commitment/types/merkle.go: ApplyPrefix, VerifyMembership, validateVerificationArgs,
      verifyChainedMembershipProof, MerklePath.GetKey (url.PathUnescape written out)
    - 09-eth and 08-bsc types/client_state.go: the three Verify* functions, produceVerificationArgs,
      verifyMerkleProof, checkProofResult; types/keys.go (slot = keccak(path ++ pad32(104)))
    - 24-host/keys.go path builders (Host/Keys.v)

    Not modelled -- they enter as Section variables: the ics23 proof objects and verifier
    (kind / Calculate / VerifyMembership), go-ethereum's trie.VerifyProof over a node set, keccak256,
    rlp encoding of the account and rlp string decoding, and the decoders of the proof bytes
    (protobuf for Tendermint, encoding/json + common.FromHex for ETH/BSC).

    Errors and panics of the Go code are [false]: the functions are read-only, the only observable is
    accept / reject. *)
From Tibc Require Import Base.Bytes Host.Keys.

(** ** heights (02-client/types/height.go) *)
Definition height := (N * N)%type.   (* (revision number, revision height) *)

(** a.LT(b): revision numbers first *)
Definition height_lt (a b : height) : bool :=
  if N.eqb (fst a) (fst b) then N.ltb (snd a) (snd b) else N.ltb (fst a) (fst b).

Definition height_eqb (a b : height) : bool := N.eqb (fst a) (fst b) && N.eqb (snd a) (snd b).

(** the client store, per key family: first entry for the height *)
Fixpoint hlookup {A} (m : list (height * A)) (h : height) : option A :=
  match m with
  | [] => None
  | (k, v) :: m' => if height_eqb k h then Some v else hlookup m' h
  end.

(** what GetConsensusState finds under the consensus-state key *)
Inductive centry :=
| CGood (root : bytes)   (* a consensus state of the client's own type, with this root *)
| CBad.                  (* bytes that do not decode to a consensus state of the client's type *)

(** ** the three verification functions and their protocol keys *)
Inductive vfn := FCommit | FAck | FClean.

Definition proto_path (f : vfn) (s d : bytes) (n : N) : bytes :=
  match f with
  | FCommit => commit_key s d n
  | FAck => ack_key s d n
  | FClean => clean_key s d
  end.

(** the value that is checked by the Tendermint client: the caller's bytes, or
    sdk.Uint64ToBigEndian(sequence) for clean *)
Definition claimed (f : vfn) (n : N) (v : bytes) : bytes :=
  match f with FClean => be64 n | _ => v end.

Definition is_empty (b : bytes) : bool := match b with [] => true | _ => false end.

(** ** net/url PathUnescape (MerklePath.GetKey) *)
Definition ishex (c : N) : bool :=
  ((48 <=? c) && (c <=? 57)) || ((97 <=? c) && (c <=? 102)) || ((65 <=? c) && (c <=? 70)).
Definition unhex (c : N) : N :=
  if (48 <=? c) && (c <=? 57) then c - 48
  else if (97 <=? c) && (c <=? 102) then c - 87
  else c - 55.
Definition percent : N := 37.

Fixpoint unescape (s : bytes) : option bytes :=
  match s with
  | [] => Some []
  | c :: r =>
      if N.eqb c percent then
        match r with
        | a :: b :: r' =>
            if ishex a && ishex b
            then match unescape r' with Some t => Some ((16 * unhex a + unhex b) :: t) | None => None end
            else None
        | _ => None
        end
      else match unescape r with Some t => Some (c :: t) | None => None end
  end.

(** * Tendermint *)
Inductive pkind := PExist | PNonexist | POther.

Record tm_client (S : Type) := TmClient {
  t_latest : height;
  t_delay : N;                  (* TimeDelay, nanoseconds *)
  t_prefix : bytes;             (* MerklePrefix.KeyPrefix *)
  t_specs : list (option S)     (* ProofSpecs; None = nil pointer *)
}.
Arguments TmClient {S}.
Arguments t_latest {S}. Arguments t_delay {S}. Arguments t_prefix {S}. Arguments t_specs {S}.

Section Tendermint.
  Variable P : Type.                                    (* *ics23.CommitmentProof *)
  Variable SP : Type.                                    (* *ics23.ProofSpec *)
  Variable pkind_of : P -> pkind.                       (* type switch on .Proof *)
  Variable calc : P -> option bytes.                    (* .Calculate() *)
  Variable vmem : SP -> bytes -> P -> bytes -> bytes -> bool.  (* ics23.VerifyMembership spec root proof key value *)
  Variable decode : bytes -> option (list P).           (* cdc.Unmarshal into MerkleProof: .Proofs *)

  (** verifyChainedMembershipProof, started at index 0: [rest] are proofs[i:] *)
  Fixpoint tm_chain (specs : list (option SP)) (keys : list bytes) (rest : list P) (i : nat) (value : bytes)
    : option bytes :=
    match rest with
    | [] => Some value
    | p :: rest' =>
        match pkind_of p with
        | PExist =>
            match calc p with
            | None => None
            | Some subroot =>
                if Nat.ltb i (length keys) then
                  match nth_error keys (length keys - 1 - i) with
                  | None => None
                  | Some raw =>
                      match unescape raw with
                      | None => None
                      | Some key =>
                          match nth_error specs i with
                          | Some (Some sp) =>
                              if vmem sp subroot p key value
                              then tm_chain specs keys rest' (Datatypes.S i) subroot
                              else None
                          | _ => None
                          end
                      end
                  end
                else None
            end
        | _ => None
        end
    end.

  (** MerkleProof.VerifyMembership (with validateVerificationArgs) *)
  Definition verify_membership (specs : list (option SP)) (root : bytes) (keys : list bytes)
             (ps : list P) (value : bytes) : bool :=
    match ps with
    | [] => false                                                        (* proof.Empty() *)
    | _ =>
        if is_empty root then false
        else if negb (Nat.eqb (length specs) (length ps)) then false
        else if existsb (fun s => match s with None => true | Some _ => false end) specs then false
        else if negb (Nat.eqb (length keys) (length specs)) then false
        else if is_empty value then false
        else match tm_chain specs keys ps 0 value with
             | Some subroot => beq root subroot
             | None => false
             end
    end.

  (** verifyDelayPeriodPassed: validTime := processedTime + delayPeriod in uint64 *)
  Definition tm_delay_ok (processed delay now : N) : bool :=
    negb (now <? (processed + delay) mod two64).

  Definition tm_verify (cl : tm_client SP) (cons : list (height * centry)) (ptimes : list (height * N))
             (now : N) (h : height) (proof : option bytes) (f : vfn) (s d : bytes) (n : N) (v : bytes) : bool :=
    if height_lt (t_latest cl) h then false
    else match proof with
         | None => false
         | Some bz =>
             match decode bz with
             | None => false
             | Some ps =>
                 match hlookup cons h with
                 | Some (CGood root) =>
                     match hlookup ptimes h with
                     | None => false
                     | Some pt =>
                         if negb (tm_delay_ok pt (t_delay cl) now) then false
                         else if is_empty (t_prefix cl) then false                      (* ApplyPrefix *)
                         else verify_membership (t_specs cl) root [t_prefix cl; proto_path f s d n] ps (claimed f n v)
                     end
                 | _ => false
                 end
             end
         end.
End Tendermint.

(** * ETH / BSC *)

(** common.BytesToHash: the last 32 bytes, left-padded with zeros *)
Fixpoint zeros (n : nat) : bytes := match n with O => [] | Datatypes.S n' => 0 :: zeros n' end.
Definition lpad32 (b : bytes) : bytes := zeros (32 - length b) ++ b.
Definition to_hash32 (b : bytes) : bytes := lpad32 (skipn (length b - 32) b).

(** big.Int.SetBytes *)
Definition be_to_N (b : bytes) : N := fold_left (fun acc x => acc * 256 + x) b 0.

(** result of trie.VerifyProof *)
Inductive mres := MErr | MAbsent | MVal (v : bytes).

Record evm_client := EvmClient {
  e_latest : height;      (* Header.Height *)
  e_delay : N;            (* GetDelayBlock(): ETH BlockDelay, BSC 2*len(Validators)/3+1 *)
  e_contract : bytes      (* ContractAddress *)
}.

Definition bsc_delay_block (nvalidators : N) : N := 2 * nvalidators / 3 + 1.

(** the value that is checked by the ETH and BSC clients (after repair 8edde70): the caller's bytes, or
    common.LeftPadBytes(sdk.Uint64ToBigEndian(sequence), 32) for clean *)
Definition evm_claimed (f : vfn) (n : N) (v : bytes) : bytes :=
  match f with FClean => lpad32 (be64 n) | _ => v end.

(** keys.go: paramsIndex 104 left-padded to 32 bytes *)
Definition slot_index : bytes := lpad32 [104].

Section Evm.
  Variable NS : Type.                                         (* the node set built from the hex strings *)
  Variable mpt_verify : bytes -> bytes -> NS -> mres.         (* trie.VerifyProof root key nodes *)
  Variable keccak : bytes -> bytes.
  Variable rlp_account : N -> N -> bytes -> bytes -> bytes.   (* rlp(ProofAccount{nonce, balance, storage, codehash}) *)
  Variable rlp_dec : bytes -> option bytes.                   (* rlp.DecodeBytes(_, &[]byte) *)

  Record sproof := SProof { sp_key : bytes; sp_nodes : NS }.  (* fields after common.FromHex *)
  Record eproof := EProof {
    ep_addr : bytes; ep_balance : bytes; ep_codehash : bytes; ep_nonce : bytes; ep_storagehash : bytes;
    ep_acct : NS;
    ep_storage : list (option sproof)                         (* []*StorageResult: None = nil pointer *)
  }.

  Variable decode : bytes -> option eproof.                   (* json.Unmarshal + FromHex of the fields *)

  Definition slot_of (f : vfn) (s d : bytes) (n : N) : bytes := keccak (proto_path f s d n ++ slot_index).

  Definition mres_bytes (r : mres) : bytes := match r with MVal v => v | _ => [] end.

  (** checkProofResult *)
  Definition check_result (result value : bytes) : bool :=
    match rlp_dec result with
    | None => false
    | Some t => beq (lpad32 t) value
    end.

  Definition verify_merkle (pf : eproof) (root contract value proofkey : bytes) : bool :=
    if negb (beq (ep_addr pf) contract) then false
    else match mpt_verify (to_hash32 root) (keccak (ep_addr pf)) (ep_acct pf) with
         | MErr => false
         | r =>
             let sh := to_hash32 (ep_storagehash pf) in
             let acc := rlp_account (be_to_N (to_hash32 (ep_nonce pf))) (be_to_N (to_hash32 (ep_balance pf)))
                                    sh (to_hash32 (ep_codehash pf)) in
             if negb (beq acc (mres_bytes r)) then false
             else match ep_storage pf with
                  | [Some sp] =>
                      let k := to_hash32 (sp_key sp) in
                      if negb (beq k proofkey) then false
                      else match mpt_verify sh (keccak k) (sp_nodes sp) with
                           | MErr => false
                           | r2 => check_result (mres_bytes r2) value
                           end
                  | _ => false      (* len != 1, or a nil entry (nil dereference) *)
                  end
         end.

  (** delayBlock := latest.RevisionHeight - height.RevisionHeight in uint64; reject if < GetDelayBlock() *)
  Definition evm_delay_ok (latest h : height) (delay : N) : bool :=
    negb ((snd latest + two64 - snd h) mod two64 <? delay).

  Definition evm_verify (cl : evm_client) (cons : list (height * centry)) (h : height) (proof : option bytes)
             (f : vfn) (s d : bytes) (n : N) (v : bytes) : bool :=
    if height_lt (e_latest cl) h then false
    else match proof with
         | None => false
         | Some bz =>
             match decode bz with
             | None => false
             | Some pf =>
                 match hlookup cons h with
                 | Some (CGood root) =>
                     if negb (evm_delay_ok (e_latest cl) h (e_delay cl)) then false
                     else verify_merkle pf root (e_contract cl) (evm_claimed f n v) (slot_of f s d n)
                 | _ => false
                 end
             end
         end.
End Evm.

Arguments SProof {NS}. Arguments EProof {NS}.
Arguments sp_key {NS}. Arguments sp_nodes {NS}.
Arguments ep_addr {NS}. Arguments ep_balance {NS}. Arguments ep_codehash {NS}. Arguments ep_nonce {NS}.
Arguments ep_storagehash {NS}. Arguments ep_acct {NS}. Arguments ep_storage {NS}.
