(** The client registry and its authority gates: core/keeper/msg_server.go
    (CreateClient, UpdateClient, UpgradeClient, RegisterRelayer,
    SetRoutingRules), 02-client/keeper/{client,relayer}.go.

    What a light client decides about a header (accept / refuse, the new
    client and consensus state) is the subject of C07/C17/C18; here it is an
    input of the update operation ([verdict]), as is the client's status.  What
    is modelled is everything the registry itself decides: who may do what,
    what is written, and what is left alone. *)
From Coq Require Import NArith List Bool.
From Tibc Require Import Base.Bytes Base.FMap Routing.Rules.
Import ListNotations.
Open Scope N_scope.

Record rclient := mkRC {
  rc_type : N;                 (* 7 tendermint, 8 bsc, 9 eth *)
  rc_state : bytes;            (* the stored client state (marshalled) *)
  rc_cons : fmap bytes }.      (* consensus states by height key *)

Record registry := mkReg {
  g_authority : bytes;
  g_clients : fmap rclient;
  g_relayers : fmap (list bytes);
  g_rules : option (list bytes) }.

(** result of CheckHeaderAndUpdateState as seen by the keeper: the new client
    state, the height of the header and its consensus state *)
Record verdict := mkVerdict { v_state : bytes; v_height : bytes; v_cons : bytes;
                              v_pruned : list bytes }.
    (* v_pruned: heights whose consensus state the light client deleted from its
       own store while processing the header (Tendermint and ETH prune the
       earliest expired one) *)

Definition prune (ks : list bytes) (m : fmap bytes) : fmap bytes := fold_right remove m ks.

Inductive rop :=
| RCreate (auth name : bytes) (ty : N) (st : bytes) (hkey : bytes) (cst : bytes) (valid : bool)
    (* valid: ValidateBasic of the message and Initialize of the client succeed *)
| RUpgrade (auth name : bytes) (ty : N) (st : bytes) (hkey : bytes) (cst : bytes) (valid : bool)
| RRegister (auth name : bytes) (relayers : list bytes) (valid : bool)
| RSetRules (auth : bytes) (rules : list bytes)
| RUpdate (signer name : bytes) (active : bool) (v : option verdict).

Definition with_clients (g : registry) (cs : fmap rclient) : registry :=
  mkReg (g_authority g) cs (g_relayers g) (g_rules g).

Definition relayers_of (g : registry) (name : bytes) : list bytes :=
  match lookup name (g_relayers g) with Some l => l | None => [] end.

(** AuthRelayer *)
Definition auth_relayer (g : registry) (name signer : bytes) : bool :=
  existsb (beq signer) (relayers_of g name).

Definition rexec (g : registry) (o : rop) : option registry :=
  match o with
  | RCreate auth name ty st hkey cst valid =>
      if negb (beq auth (g_authority g)) then None else
      if has name (g_clients g) then None else
      if negb valid then None else
      Some (with_clients g (set name (mkRC ty st (set hkey cst [])) (g_clients g)))
  | RUpgrade auth name ty st hkey cst valid =>
      if negb (beq auth (g_authority g)) then None else
      if negb valid then None else
      match lookup name (g_clients g) with
      | None => None
      | Some old =>
          if negb (N.eqb (rc_type old) ty) then None else
          Some (with_clients g (set name (mkRC ty st (set hkey cst (rc_cons old))) (g_clients g)))
      end
  | RRegister auth name relayers valid =>
      if negb (beq auth (g_authority g)) then None else
      if negb valid then None else
      Some (mkReg (g_authority g) (g_clients g) (set name relayers (g_relayers g)) (g_rules g))
  | RSetRules auth rules =>
      if negb (beq auth (g_authority g)) then None else
      match set_rules rules with
      | Some st => Some (mkReg (g_authority g) (g_clients g) (g_relayers g) (Some st))
      | None => None
      end
  | RUpdate signer name active v =>
      if negb (auth_relayer g name signer) then None else
      match lookup name (g_clients g) with
      | None => None
      | Some old =>
          if negb active then None else
          match v with
          | None => None
          | Some vd =>
              Some (with_clients g (set name (mkRC (rc_type old) (v_state vd)
                                                 (set (v_height vd) (v_cons vd) (prune (v_pruned vd) (rc_cons old))))
                                        (g_clients g)))
          end
      end
  end.

(** a message: keep the new state iff the handler succeeded *)
Definition rstep (g : registry) (o : rop) : registry * bool :=
  match rexec g o with Some g' => (g', true) | None => (g, false) end.

Definition rrun (g : registry) (ops : list rop) : registry :=
  fold_left (fun g o => fst (rstep g o)) ops g.

(** who asks *)
Definition privileged (o : rop) : bool :=
  match o with RUpdate _ _ _ _ => false | _ => true end.
Definition requester (o : rop) : bytes :=
  match o with
  | RCreate a _ _ _ _ _ _ | RUpgrade a _ _ _ _ _ _ | RRegister a _ _ _ | RSetRules a _ => a
  | RUpdate s _ _ _ => s
  end.
