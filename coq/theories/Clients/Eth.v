(** Model of the ETH light client's header acceptance and fork handling
    (modules/tibc/light-clients/09-eth/types: header.go ValidateBasic / verifyHeader /
    verifyCascadingFields, verify_header.go VerifyEip1559Header / VerifyGaslimit /
    CalcBaseFee / makeDifficultyCalculator, update.go CheckHeaderAndUpdateState /
    update / RestrictChain, store.go pruning and the three indexes) together with
    the writes of 02-client keeper.UpdateClient (status test before, consensus state
    at the header's height and ClientState.Header afterwards).

    Not modelled (inputs of the model):
    - keccak256(rlp(header)): every header carries its own hash [h_hash] as the code
      computes it; hashes and state roots are opaque numbers (only compared);
    - the ethash seal: a boolean input [seal] of the update;
    - protobuf / Any encoding of stored values (the store holds the header itself).
    The model follows the code as it is, including: the index keys use the revision
    HEIGHT only while consensus states are keyed by (revision number, height) (a header
    under another revision number than the client's is refused since fix 81967eb); the
    root index is keyed by (state root, height) and overwritten; pruning looks only
    at the first consensus-state key without a 0x2f byte; uint64 wrap-around of
    [timestamp + trusting period], [height - 1], [height + 1]; int64 arithmetic of
    VerifyGaslimit; big.Int division by zero in CalcBaseFee (a panic = refusal).
    A failed update changes nothing (transaction semantics of the SDK). *)
From Coq Require Import List NArith ZArith Bool.
Import ListNotations.
Open Scope N_scope.

(** * finite maps keyed by pairs of numbers (association lists, [pset] removes the old binding) *)
Definition key := (N * N)%type.
Definition keqb (a b : key) : bool := (fst a =? fst b) && (snd a =? snd b).

Section PMap.
Context {V : Type}.
Definition pmap := list (key * V).
Fixpoint pget (k : key) (m : pmap) : option V :=
  match m with
  | [] => None
  | (k', v) :: m' => if keqb k k' then Some v else pget k m'
  end.
Fixpoint pdel (k : key) (m : pmap) : pmap :=
  match m with
  | [] => []
  | (k', v) :: m' => if keqb k k' then pdel k m' else (k', v) :: pdel k m'
  end.
Definition pset (k : key) (v : V) (m : pmap) : pmap := (k, v) :: pdel k m.
End PMap.
Arguments pmap : clear implicits.

(** * headers, consensus states, client store *)
Definition two64 : N := 18446744073709551616.
Definition pred64 (n : N) : N := if n =? 0 then two64 - 1 else n - 1.
Definition succ64 (n : N) : N := (n + 1) mod two64.

(** The header as the code sees it: Height (revision number, revision height) and
    the fields of ToEthHeader().  [h_wf] = both decimal strings (Difficulty, BaseFee)
    parse; [h_extra] = len(Extra); [h_uncle] = the uncle hash (opaque, [empty_uncle]
    stands for types.EmptyUncleHash). *)
Record header := Hd {
  h_hash : N; h_parent : N;
  h_rev : N; h_num : N;
  h_time : N; h_root : N; h_uncle : N;
  h_gaslimit : N; h_gasused : N;
  h_diff : Z; h_basefee : Z;
  h_extra : N; h_wf : bool }.

Definition empty_uncle : N := 0.

Record consst := CS { c_time : N; c_rev : N; c_num : N; c_root : N }.
Definition cons_of (x : header) : consst := CS (h_time x) (h_rev x) (h_num x) (h_root x).

Definition key_of (x : header) : key := (h_hash x, h_num x).

Record cstate := St {
  s_idx  : pmap header;   (* ethHeaderIndex/<hash><height>  -> header *)
  s_rootmain : pmap key;  (* ethRootMain/<root><height>     -> header index key *)
  s_main : pmap consst;   (* consensusStates/<rev><height>  -> consensus state *)
  s_tip  : header;        (* ClientState.Header *)
  s_trust : N }.          (* ClientState.TrustingPeriod *)

(** * Header.ValidateBasic *)
Definition validate_basic (h : header) : bool :=
  h_wf h &&                                   (* unparsable numbers: nil-pointer panic / refused later *)
  (h_extra h <=? 32) &&
  (h_gaslimit h <=? 9223372036854775807) &&
  (h_gasused h <=? h_gaslimit h) &&
  (if 0 <? h_num h then negb (Z.abs_N (h_diff h) mod two64 =? 0) else true).

(** * VerifyGaslimit (int64 / uint64 conversions written out) *)
Definition to_i64 (n : N) : Z :=
  let z := Z.of_N (n mod two64) in
  if (z <? 9223372036854775808)%Z then z else (z - 18446744073709551616)%Z.
Definition wrap_i64 (z : Z) : Z :=
  ((z + 9223372036854775808) mod 18446744073709551616 - 9223372036854775808)%Z.
Definition gas_limit_ok (pgl hgl : N) : bool :=
  let d := wrap_i64 (to_i64 pgl - to_i64 hgl) in
  let d := if (d <? 0)%Z then wrap_i64 (- d) else d in
  let limit := pgl / 1024 in
  negb (limit <=? Z.to_N (d mod 18446744073709551616)) && (5000 <=? hgl).

(** * CalcBaseFee (big.Int; Div is Euclidean = floor for a positive divisor; a zero
      divisor panics) *)
Definition calc_base_fee (p : header) : option Z :=
  let target := h_gaslimit p / 2 in
  let bf := h_basefee p in
  if h_gasused p =? target then Some bf
  else if target =? 0 then None
  else if target <? h_gasused p then
    let delta := Z.max (bf * Z.of_N (h_gasused p - target) / Z.of_N target / 8) 1 in
    Some (bf + delta)%Z
  else
    let delta := (bf * Z.of_N (target - h_gasused p) / Z.of_N target / 8)%Z in
    Some (Z.max (bf - delta) 0).

(** * makeDifficultyCalculator(9700000) *)
Definition calc_difficulty (time : N) (p : header) : Z :=
  let x := ((Z.of_N time - Z.of_N (h_time p)) / 9)%Z in
  let x := if h_uncle p =? empty_uncle then (1 - x)%Z else (2 - x)%Z in
  let x := Z.max x (-99) in
  let y := (h_diff p / 2048)%Z in
  let x := (h_diff p + y * x)%Z in
  let x := Z.max x 131072 in
  let pn := to_i64 (h_num p) in            (* big.NewInt(int64(height)) *)
  let fake := if (9699999 <=? pn)%Z then (pn - 9699999)%Z else 0%Z in
  let pc := (fake / 100000)%Z in
  if (1 <? pc)%Z then (x + 2 ^ (pc - 2))%Z else x.

(** * verifyHeader: [now] = block time (Unix seconds), [seal] = ethash verdict *)
Definition verify_header (now : N) (seal : bool) (h : header) (s : cstate) : bool :=
  match pget (key_of h) (s_idx s) with
  | Some _ => false                                        (* header already exists *)
  | None =>
    match pget (h_parent h, pred64 (h_num h)) (s_idx s) with
    | None => false                                        (* parent unknown *)
    | Some p =>
        h_wf p && (h_hash p =? h_parent h) &&
        (h_time h <=? now + 15) && (h_time p <? h_time h) &&
        gas_limit_ok (h_gaslimit p) (h_gaslimit h) &&
        match calc_base_fee p with Some b => (h_basefee h =? b)%Z | None => false end &&
        (calc_difficulty (h_time h) p =? h_diff h)%Z &&
        seal
    end
  end.

(** * pruning: IterateConsensusStateAscending skips every key that contains a '/'
      (0x2f) inside its 16 big-endian bytes and stops at the first other key *)
Definition be8 (n : N) : list N :=
  map (fun i => (n / 256 ^ i) mod 256) [7; 6; 5; 4; 3; 2; 1; 0].
Definition has_slash (k : key) : bool :=
  existsb (fun b => b =? 47) (be8 (fst k) ++ be8 (snd k)).
Definition key_lt (a b : key) : bool :=
  (fst a <? fst b) || ((fst a =? fst b) && (snd a <? snd b)).
Fixpoint earliest (m : pmap consst) (best : option key) : option key :=
  match m with
  | [] => best
  | (k, _) :: m' =>
      earliest m' (if has_slash k then best
                   else match best with
                        | None => Some k
                        | Some b => if key_lt k b then Some k else best
                        end)
  end.

Definition expired (c : consst) (trust now : N) : bool := (c_time c + trust) mod two64 <? now.

(** deleteConsensusStateAndIndexHeader *)
Definition delete_cons (k : key) (c : consst) (s : cstate) : option cstate :=
  match pget (c_root c, snd k) (s_rootmain s) with
  | None => None                                           (* "Header index not found" *)
  | Some ik => Some (St (pdel ik (s_idx s)) (pdel (c_root c, snd k) (s_rootmain s))
                        (pdel k (s_main s)) (s_tip s) (s_trust s))
  end.

Definition prune (now : N) (s : cstate) : option cstate :=
  match earliest (s_main s) None with
  | None => Some s
  | Some k =>
      match pget k (s_main s) with
      | None => Some s
      | Some c => if expired c (s_trust s) now then delete_cons k c s else Some s
      end
  end.

(** * update: index the header and point the root index at it *)
Definition index_header (h : header) (s : cstate) : cstate :=
  St (pset (key_of h) h (s_idx s)) (pset (h_root h, h_num h) (key_of h) (s_rootmain s))
     (s_main s) (s_tip s) (s_trust s).

(** * RestrictChain.  The Go loops run until a parent lookup fails; every
      iteration needs a header stored one height lower, so they end after at most
      (number of stored headers) iterations: fuel = S (length idx). *)
Fixpoint walk_down (fuel : nat) (idx : pmap header) (nw : header) (ti si : N) (acc : list N)
  : option (header * N * list N) :=
  if si <? ti then
    match fuel with
    | O => None
    | S f =>
        match pget (h_parent nw, pred64 (h_num nw)) idx with
        | None => None
        | Some p => walk_down f idx p (pred64 ti) si (h_hash nw :: acc)
        end
    end
  else Some (nw, ti, acc).

Fixpoint walk_both (fuel : nat) (idx : pmap header) (cur nw : header) (ti : N) (acc : list N)
  : option (header * N * list N) :=
  if h_parent cur =? h_parent nw then Some (nw, ti, acc)
  else
    match fuel with
    | O => None
    | S f =>
        match pget (h_parent nw, pred64 (h_num nw)) idx,
              pget (h_parent cur, pred64 (h_num cur)) idx with
        | Some pn, Some pc => walk_both f idx pc pn (pred64 ti) (h_hash nw :: acc)
        | _, _ => None
        end
    end.

(** the final loop: newHashes from the last to the first, ti counting upwards *)
Fixpoint rewrite_main (idx : pmap header) (rv : N) (hashes : list N) (ti : N) (m : pmap consst)
  : option (pmap consst) :=
  match hashes with
  | [] => Some m
  | a :: rest =>
      match pget (a, ti) idx with
      | None => None
      | Some x => rewrite_main idx rv rest (succ64 ti) (pset (rv, ti) (cons_of x) m)
      end
  end.

Definition restrict_chain (s : cstate) (nw : header) : option (pmap consst) :=
  let tip := s_tip s in
  let fuel := S (length (s_idx s)) in
  let start :=
    if h_num nw <? h_num tip then                       (* si > ti *)
      match pget (h_rev nw, h_num nw) (s_main s) with
      | None => None
      | Some c =>
          match pget (c_root c, h_num nw) (s_rootmain s) with
          | None => None
          | Some ik => match pget ik (s_idx s) with
                       | None => None
                       | Some cur => Some (cur, h_num nw)
                       end
          end
      end
    else Some (tip, h_num tip) in
  match start with
  | None => None
  | Some (cur, si) =>
      match walk_down fuel (s_idx s) nw (h_num nw) si [] with
      | None => None
      | Some (nw1, ti1, acc1) =>
          match walk_both fuel (s_idx s) cur nw1 ti1 acc1 with
          | None => None
          | Some (nw2, ti2, acc2) =>
              rewrite_main (s_idx s) (h_rev nw) (h_hash nw2 :: acc2) ti2 (s_main s)
          end
      end
  end.

(** * ClientState.Status (as of fix cf95f5a) *)
Definition active (now : N) (s : cstate) : bool :=
  match pget (h_rev (s_tip s), h_num (s_tip s)) (s_main s) with
  | None => false
  | Some c => negb (expired c (s_trust s) now)
  end.

(** * keeper.UpdateClient = Status, CheckHeaderAndUpdateState, then the two writes *)
Definition eth_update (now : N) (seal : bool) (h : header) (s : cstate) : option cstate :=
  if negb (active now s) then None
  else if negb (validate_basic h) then None
  else if negb (h_rev h =? h_rev (s_tip s)) then None      (* checkValidity, fix 81967eb *)
  else if negb (verify_header now seal h s) then None
  else
    match prune now s with
    | None => None
    | Some s1 =>
        let s2 := index_header h s1 in
        let m3 := if h_hash (s_tip s) =? h_parent h then Some (s_main s2) else restrict_chain s2 h in
        match m3 with
        | None => None
        | Some m => Some (St (s_idx s2) (s_rootmain s2) (pset (h_rev h, h_num h) (cons_of h) m)
                             h (s_trust s))
        end
    end.

(** operations and histories *)
Record op := Op { o_now : N; o_seal : bool; o_hdr : header }.

Definition eth_step (s : cstate) (o : op) : cstate :=
  match eth_update (o_now o) (o_seal o) (o_hdr o) s with Some s' => s' | None => s end.

(** CreateClient with a consensus state that matches the initial header *)
Definition eth_init (h0 : header) (trust : N) : cstate :=
  St [(key_of h0, h0)] [((h_root h0, h_num h0), key_of h0)]
     [((h_rev h0, h_num h0), cons_of h0)] h0 trust.

Definition eth_run (h0 : header) (trust : N) (ops : list op) : cstate :=
  fold_left eth_step ops (eth_init h0 trust).

(** the headers accepted so far (newest first, the initial header last): a function
    of the history only, never read by the client *)
Definition accepted_step (sa : cstate * list header) (o : op) : cstate * list header :=
  match eth_update (o_now o) (o_seal o) (o_hdr o) (fst sa) with
  | Some s' => (s', o_hdr o :: snd sa)
  | None => sa
  end.
Definition eth_run_acc (h0 : header) (trust : N) (ops : list op) : cstate * list header :=
  fold_left accepted_step ops (eth_init h0 trust, [h0]).
Definition eth_accepted (h0 : header) (trust : N) (ops : list op) : list header :=
  snd (eth_run_acc h0 trust ops).
