(** Soundness / completeness of acceptance in terms of validly signed voting power, the relation
    between the code's adjacent rule and the uniform "trust level and 2/3" reading, and concrete
    witnesses. *)
From Tibc Require Import Base.Bytes Clients.Tm Clients.TmTally Clients.TmStep.
From Coq Require Import ZArith ZifyN ZifyNat ZifyBool Lia.
Ltac Zify.zify_post_hook ::= Z.div_mod_to_equations.
Open Scope Z_scope.

(** * Own set *)
Lemma combine_nonneg vals sigs : Forall (fun v => 0 <= v_power v) vals ->
  Forall (fun e : validator * csig => 0 <= v_power (fst e)) (combine vals sigs).
Proof.
  intros H. revert sigs. induction H as [|v vals Hv _ IH]; intros [|s sigs]; cbn [combine]; constructor; auto.
Qed.

(** soundness: the validly signed Commit power of the header's own validators (each validator
    at most once: entries are matched by index) exceeds 2/3 of the set's total power *)
Theorem own_quorum_sound s sigs : valset_ok s = true -> own_quorum (vs_vals s) sigs ->
  2 * total_power (vs_vals s) < 3 * signed_power (combine (vs_vals s) sigs).
Proof.
  intros Hok (Hl & p & q & E & Hv & Hc).
  pose proof (valset_ok_nonneg _ Hok) as (Hnn & _ & _).
  pose proof (combine_nonneg _ sigs Hnn) as Hf. rewrite E in Hf |- *.
  rewrite signed_power_app, (all_valid_signed p Hv).
  apply Forall_app in Hf. destruct Hf as [_ Hq]. pose proof (signed_power_nonneg q Hq). lia.
Qed.

(** completeness: same number of entries as validators, every Commit entry validly signed,
    Commit power above 2/3 => quorum *)
Theorem own_quorum_complete vals sigs : length vals = length sigs ->
  all_valid (combine vals sigs) -> 2 * total_power vals < 3 * commit_power (combine vals sigs) ->
  own_quorum vals sigs.
Proof.
  intros Hl Hv Hc. split; [exact Hl|]. exists (combine vals sigs), []. rewrite app_nil_r. repeat split; assumption.
Qed.

(** * Trusted set *)

(** a set of distinct trusted validators, each of which validly signed a Commit entry *)
Definition trusted_signers (tvals : list validator) (sigs : list csig) (I : list (nat * validator)) : Prop :=
  NoDup (map fst I) /\
  forall i v, In (i, v) I ->
    nth_error tvals i = Some v /\
    exists s, In s sigs /\ cs_commit s = true /\ cs_addr s = v_addr v /\ cs_ok_tr s = true.

Definition signers_power (I : list (nat * validator)) : Z := fold_right (fun e a => v_power (snd e) + a) 0 I.

Lemma view_entry_meaning tvals sigs e : In e (filter_map (tr_view tvals) sigs) ->
  exists s v, In s sigs /\ cs_commit s = true /\ nth_error tvals (idx_of e) = Some v /\
              v_addr v = cs_addr s /\ pow_of e = v_power v /\ ok_of e = cs_ok_tr s.
Proof.
  intros H. apply filter_map_in in H. destruct H as (s & Hs & Hv). unfold tr_view in Hv.
  destruct (cs_commit s) eqn:Ec; [|discriminate].
  destruct (find_val (cs_addr s) tvals 0) as [[i v]|] eqn:Ef; [|discriminate].
  injection Hv as <-. apply find_val_spec in Ef. destruct Ef as (_ & Hn & Ha & _).
  rewrite Nat.sub_0_r in Hn. exists s, v. cbn. repeat split; auto.
Qed.

(** soundness: distinct trusted validators holding more than the trust level validly signed *)
Theorem trusted_quorum_sound tvals sigs num den : trusted_quorum tvals sigs num den ->
  exists I, trusted_signers tvals sigs I /\
            total_power tvals * Z.of_N num < signers_power I * Z.of_N den.
Proof.
  intros (_ & p & q & E & Hok & Hnd & Hc).
  assert (Hin : forall e, In e p -> In e (filter_map (tr_view tvals) sigs)) by (intros e He; rewrite E; apply in_or_app; left; exact He).
  clear E. revert Hc. generalize (total_power tvals * Z.of_N num). intros bound.
  assert (exists I, map fst I = map idx_of p /\ signers_power I = view_power p /\
            forall i v, In (i, v) I -> nth_error tvals i = Some v /\
              exists s, In s sigs /\ cs_commit s = true /\ cs_addr s = v_addr v /\ cs_ok_tr s = true) as (I & HI1 & HI2 & HI3).
  { clear Hnd. induction p as [|e p IH].
    - exists []. split; [reflexivity|]. split; [reflexivity|]. intros i0 v0 [].
    - inversion Hok as [|? ? He Hok']; subst.
      destruct IH as (I & H1 & H2 & H3); [exact Hok' | intros x Hx; apply Hin; right; exact Hx|].
      destruct (view_entry_meaning tvals sigs e (Hin e (or_introl eq_refl))) as (s & v & Hs & Hcm & Hn & Ha & Hp & Ho).
      exists ((idx_of e, v) :: I). cbn [map fst]. rewrite H1. split; [reflexivity|]. split.
      + cbn [signers_power fold_right snd]. unfold signers_power in H2. rewrite H2.
        change (view_power (e :: p)) with (pow_of e + view_power p). rewrite Hp. reflexivity.
      + intros i w [[= <- <-]|Hw]; [|apply H3; exact Hw].
        split; [exact Hn|]. exists s. repeat split; auto. congruence. }
  intros Hc. exists I. split; [split; [rewrite HI1; exact Hnd | exact HI3] | rewrite HI2; exact Hc].
Qed.

(** completeness: all Commit entries by trusted validators validly signed, none twice, their
    power above the trust level, no int64 overflow => quorum *)
Theorem trusted_quorum_complete tvals sigs num den :
  total_power tvals * Z.of_N num <= max_int64 ->
  Forall (fun e => ok_of e = true) (filter_map (tr_view tvals) sigs) ->
  NoDup (map idx_of (filter_map (tr_view tvals) sigs)) ->
  total_power tvals * Z.of_N num < view_power (filter_map (tr_view tvals) sigs) * Z.of_N den ->
  trusted_quorum tvals sigs num den.
Proof.
  intros Hov Hok Hnd Hc. split; [exact Hov|].
  exists (filter_map (tr_view tvals) sigs), []. rewrite app_nil_r. repeat split; assumption.
Qed.

(** * The two readings of the rule for adjacent headers

    The property text asks for "over the trust level of the trusted set AND over two thirds of the
    header's own set".  For an adjacent header the code (cometbft VerifyAdjacent) does not run the
    trust-level tally; it demands that the header's validator set IS the trusted next validator
    set (hash equality).  With a collision-free validator-set hash the two sets coincide, and for
    a commit whose entries carry the addresses of the validators at their index (what every real
    commit looks like) the 2/3 quorum implies the trust-level quorum whenever the trust level is
    at most 2/3.  For trust levels above 2/3 the readings differ (witness below). *)

Fixpoint view_of (k : nat) (l : list (validator * csig)) : list (nat * Z * bool) :=
  match l with
  | [] => []
  | (v, s) :: l' =>
      if cs_commit s then (k, v_power v, cs_ok_tr s) :: view_of (S k) l' else view_of (S k) l'
  end.

Lemma find_val_skip a : forall pre l k, (forall w, In w pre -> v_addr w <> a) ->
  find_val a (pre ++ l) k = find_val a l (k + length pre).
Proof.
  induction pre as [|w pre IH]; intros l k H; cbn [app find_val length].
  - rewrite Nat.add_0_r. reflexivity.
  - assert (E : beq (v_addr w) a = false) by (apply beq_false, H; left; reflexivity). rewrite E.
    rewrite IH by (intros x Hx; apply H; right; exact Hx). f_equal. lia.
Qed.

(** entries carry the address of the validator at their index *)
Definition aligned (vals : list validator) (sigs : list csig) : Prop :=
  Forall (fun e : validator * csig => cs_commit (snd e) = true -> cs_addr (snd e) = v_addr (fst e)) (combine vals sigs).

Lemma view_aligned : forall rest srest pre, length rest = length srest -> aligned rest srest ->
  NoDup (map v_addr (pre ++ rest)) ->
  filter_map (tr_view (pre ++ rest)) srest = view_of (length pre) (combine rest srest).
Proof.
  induction rest as [|v rest IH]; intros [|s srest] pre Hl Ha Hnd; try discriminate; [reflexivity|].
  cbn [combine view_of filter_map]. injection Hl as Hl.
  unfold aligned in Ha. cbn [combine] in Ha. inversion Ha as [|? ? Hs Ha']; subst. cbn [fst snd] in Hs.
  assert (Hrec : filter_map (tr_view (pre ++ v :: rest)) srest = view_of (S (length pre)) (combine rest srest)).
  { replace (pre ++ v :: rest) with ((pre ++ [v]) ++ rest) by (rewrite <- app_assoc; reflexivity).
    replace (S (length pre)) with (length (pre ++ [v])) by (rewrite app_length; cbn; lia).
    apply IH; [exact Hl | exact Ha' | rewrite <- app_assoc; exact Hnd]. }
  unfold tr_view at 1. destruct (cs_commit s) eqn:Ec; [|exact Hrec].
  rewrite (Hs eq_refl).
  rewrite find_val_skip.
  - cbn [find_val]. rewrite beq_refl. cbn [Nat.add]. rewrite Hrec. reflexivity.
  - intros w Hw E. rewrite map_app in Hnd. cbn [map] in Hnd. apply NoDup_remove_2 in Hnd.
    apply Hnd. apply in_or_app. left. rewrite <- E. apply in_map. exact Hw.
Qed.

Lemma view_of_app k p q : view_of k (p ++ q) = view_of k p ++ view_of (k + length p) q.
Proof.
  revert k. induction p as [|[v s] p IH]; intros k; cbn [app view_of length].
  - rewrite Nat.add_0_r. reflexivity.
  - rewrite IH. replace (S k + length p)%nat with (k + S (length p))%nat by lia.
    destruct (cs_commit s); reflexivity.
Qed.

Lemma view_of_bounds k p : Forall (fun e => (k <= idx_of e)%nat) (view_of k p).
Proof.
  revert k. induction p as [|[v s] p IH]; intros k; cbn [view_of]; [constructor|].
  assert (H : Forall (fun e => (k <= idx_of e)%nat) (view_of (S k) p)).
  { eapply Forall_impl; [|apply IH]. cbn. intros e He. lia. }
  destruct (cs_commit s); [constructor; [cbn; lia | exact H] | exact H].
Qed.

Lemma view_of_nodup k p : NoDup (map idx_of (view_of k p)).
Proof.
  revert k. induction p as [|[v s] p IH]; intros k; cbn [view_of]; [constructor|].
  destruct (cs_commit s); [|apply IH]. cbn [map]. constructor; [|apply IH].
  intros H. apply in_map_iff in H. destruct H as (e & He & Hin).
  pose proof (view_of_bounds (S k) p) as Hb. rewrite Forall_forall in Hb. specialize (Hb e Hin). cbn in He. lia.
Qed.

Lemma view_of_power k p : view_power (view_of k p) = commit_power p.
Proof.
  revert k. induction p as [|[v s] p IH]; intros k; cbn [view_of]; [reflexivity|].
  rewrite commit_power_cons. cbn [fst snd]. destruct (cs_commit s); [|rewrite IH; lia].
  change (view_power ((k, v_power v, cs_ok_tr s) :: view_of (S k) p)) with (v_power v + view_power (view_of (S k) p)).
  rewrite IH. reflexivity.
Qed.

Lemma view_of_ok k p : all_valid p ->
  Forall (fun e : validator * csig => cs_commit (snd e) = true -> cs_ok_tr (snd e) = cs_ok_own (snd e)) p ->
  Forall (fun e => ok_of e = true) (view_of k p).
Proof.
  revert k. induction p as [|[v s] p IH]; intros k Hv Hc; cbn [view_of]; [constructor|].
  inversion Hv as [|? ? Hv1 Hv2]; subst. inversion Hc as [|? ? Hc1 Hc2]; subst. cbn [snd] in Hv1, Hc1.
  destruct (cs_commit s) eqn:Ec; [|apply IH; assumption].
  constructor; [|apply IH; assumption]. cbn. rewrite Hc1, Hv1; reflexivity.
Qed.

Theorem adjacent_readings_agree vals sigs num den :
  0 <= total_power vals ->
  total_power vals * Z.of_N num <= max_int64 ->
  (0 < den)%N -> (3 * Z.of_N num <= 2 * Z.of_N den) ->
  NoDup (map v_addr vals) ->
  aligned vals sigs ->
  Forall (fun s => cs_commit s = true -> cs_ok_tr s = cs_ok_own s) sigs ->
  own_quorum vals sigs -> trusted_quorum vals sigs num den.
Proof.
  intros Ht Hov Hden Hlvl Hnd Hal Hkeys (Hl & p & q & E & Hv & Hc).
  split; [exact Hov|].
  pose proof (view_aligned vals sigs [] Hl Hal Hnd) as Hview. cbn [app length] in Hview.
  rewrite Hview, E, view_of_app.
  exists (view_of 0 p), (view_of (0 + length p) q). split; [reflexivity|].
  assert (Hkp : Forall (fun e : validator * csig => cs_commit (snd e) = true -> cs_ok_tr (snd e) = cs_ok_own (snd e)) p).
  { apply Forall_forall. intros [v s] Hin. cbn [snd].
    assert (Hs : In s sigs).
    { assert (Hin' : In (v, s) (combine vals sigs)) by (rewrite E; apply in_or_app; left; exact Hin).
      apply in_combine_r in Hin'. exact Hin'. }
    rewrite Forall_forall in Hkeys. apply Hkeys. exact Hs. }
  split; [apply view_of_ok; assumption|]. split; [apply view_of_nodup|].
  rewrite view_of_power.
  assert (H1 : 3 * (total_power vals * Z.of_N num) <= 2 * (total_power vals * Z.of_N den)) by nia.
  assert (H2 : 2 * (total_power vals * Z.of_N den) < 3 * (commit_power p * Z.of_N den)) by nia.
  lia.
Qed.

(** * Witnesses *)
Definition b1 (n : N) : bytes := [n].
Definition xaddr (n : N) : bytes := [n; n; n].
Definition xval (n : N) (p : Z) : validator := Val (xaddr n) p.
Definition xset (h : N) (vs : list validator) : valset := VS true vs [h].
Definition xsig (n : N) (ok : bool) : csig := CSig true (xaddr n) ok ok.
Definition xchain : bytes := of_string "cpty-1".

Definition xV0 := [xval 1 3; xval 2 2; xval 3 1; xval 4 1].
Definition xV1 := [xval 1 3; xval 5 3; xval 2 2].
(** client at height 1-10, trust level 1/3, trusting period 100, drift 5 *)
Definition xcl : client := Client xchain 1 3 100 5 (Hh 1 10).
Definition xco10 : cons := Cons 1000 (b1 7) (b1 20).            (* next validators hash = hash of xV0 *)
Definition xst : store := Store [(Hh 1 10, xco10)] [(Hh 1 10, 1001%N)] [Hh 1 10].

(** non-adjacent header 1-14 with a changed validator set xV1, signed by validators 1 and 5 *)
Definition xhd : header :=
  Header xchain 14 1040 (b1 21) (b1 22) (b1 9) true 14 true
         [xsig 1 true; xsig 5 true; CSig false [] false false]
         (xset 21 xV1) (Hh 1 10) (xset 20 xV0).
(** same header, validator 5's signature invalid: only 3 of 8 own power validly signed *)
Definition xhd_bad : header :=
  Header xchain 14 1040 (b1 21) (b1 22) (b1 9) true 14 true
         [xsig 1 true; xsig 5 false; CSig false [] false false]
         (xset 21 xV1) (Hh 1 10) (xset 20 xV0).

Lemma witness_accepts :
  keeper_update 1050 (Some (xcl, xst)) xhd =
    Some (Client xchain 1 3 100 5 (Hh 1 14),
          Store [(Hh 1 10, xco10); (Hh 1 14, Cons 1040 (b1 9) (b1 22))]
                [(Hh 1 10, 1001%N); (Hh 1 14, 1050%N)] [Hh 1 10; Hh 1 14]).
Proof. vm_compute. reflexivity. Qed.

Lemma witness_rejects :
  keeper_update 1050 (Some (xcl, xst)) xhd_bad = None /\
  keeper_update 1100 (Some (xcl, xst)) xhd = None /\          (* trusted state at its expiry *)
  keeper_update 1035 (Some (xcl, xst)) xhd = None /\          (* header time = now + drift *)
  keeper_update 1099 (Some (xcl, xst)) xhd <> None.
Proof. vm_compute. repeat split; discriminate. Qed.

(** adjacent header at trust level 1/1: three of four equal validators sign.  Accepted by the
    code's rule (validator-set hash = trusted next validators hash, 3/4 > 2/3); the trust-level
    tally (which the code does not run for adjacent headers) would refuse it. *)
Definition yV := [xval 1 1; xval 2 1; xval 3 1; xval 4 1].
Definition ycl : client := Client xchain 1 1 100 5 (Hh 1 10).
Definition yst : store := Store [(Hh 1 10, Cons 1000 (b1 7) (b1 30))] [(Hh 1 10, 1001%N)] [Hh 1 10].
Definition yhd : header :=
  Header xchain 11 1040 (b1 30) (b1 30) (b1 9) true 11 true
         [xsig 1 true; xsig 2 true; xsig 3 true; CSig false [] false false]
         (xset 30 yV) (Hh 1 10) (xset 30 yV).

Lemma adjacent_corner :
  adjacent yhd = true /\
  (exists r, check_header_and_update 1050 ycl yst yhd = Some r) /\
  ~ trusted_quorum (vs_vals (hd_trusted_vals yhd)) (hd_commit yhd) (cl_tl_num ycl) (cl_tl_den ycl).
Proof.
  split; [reflexivity|]. split; [eexists; vm_compute; reflexivity|].
  intros H. apply verify_commit_light_trusting_iff in H.
  - vm_compute in H. discriminate.
  - vm_compute. repeat split; reflexivity.
  - vm_compute. discriminate.
Qed.

(** reachable client stores (from CreateClient through any history of updates) are consistent:
    the pruning step cannot fail and examines the lowest stored height *)
Theorem tm_reachable_store now0 cl0 co0 ops cl st :
  run ops (keeper_create now0 cl0 co0) = Some (cl, st) ->
  store_wf st /\
  match st_iter st with [] => True | k :: _ => exists c, hlookup k (st_cons st) = Some c end /\
  (forall k rest, st_iter st = k :: rest -> forall k' c, hlookup k' (st_cons st) = Some c -> height_le k k').
Proof.
  intros H. destruct (create_wf now0 cl0 co0) as (st0 & E & Hwf). rewrite E in H.
  pose proof (tm_store_wf_reachable ops cl0 st0 Hwf cl st H) as W.
  split; [exact W|]. split; [apply store_wf_prunable; exact W | intros k rest Ei; eapply store_wf_earliest; eauto].
Qed.

(** end to end: an accepted header carries validly signed Commit power of more than 2/3 of its own
    validator set and, unless adjacent, of more than the trust level of the trusted validators the
    stored state committed to *)
Theorem tm_accept_power_sound now cl st hd r : tl_wf (cl_tl_num cl) (cl_tl_den cl) ->
  check_header_and_update now cl st hd = Some r ->
  exists co, hlookup (hd_trusted_height hd) (st_cons st) = Some co /\
    co_nvh co = vs_hash (hd_trusted_vals hd) /\
    2 * total_power (vs_vals (hd_vals hd)) < 3 * signed_power (combine (vs_vals (hd_vals hd)) (hd_commit hd)) /\
    (adjacent hd = false ->
       exists I, trusted_signers (vs_vals (hd_trusted_vals hd)) (hd_commit hd) I /\
         total_power (vs_vals (hd_trusted_vals hd)) * Z.of_N (cl_tl_num cl) < signers_power I * Z.of_N (cl_tl_den cl)).
Proof.
  intros Hwf H. destruct (proj1 (tm_accept_iff now cl st hd Hwf) (ex_intro _ r H)) as (co & h & R).
  exists co. destruct R as [R1 [R2a R2b] R3 R4 R5 R6 R7 [R8a R8b] R9 R10 R11 R12 R13 R14].
  split; [exact R1|]. split; [exact R2b|]. split; [apply own_quorum_sound; assumption|].
  intros Ha. rewrite Ha in R12. apply trusted_quorum_sound. exact R12.
Qed.
