(** The acceptance theorem in terms of the history of accepted blocks, and concrete witnesses:
    - the two situations in which the code's recent-signer rule is weaker than "sealed none of the
      preceding floor(N/2) blocks" (number < floor(N/2)+1; validator set grew recently),
    - non-vacuity of the positive theorems. *)
From Tibc Require Import Base.Bytes Clients.Bsc Clients.BscFacts Clients.BscHistory.
From Coq Require Import PeanoNat ZArith ZifyN ZifyNat ZifyBool.
Open Scope N_scope.

(* ---------------------------------------------------------------- acceptance over histories *)

Definition property_rule (g : gstate) (h : header) : Prop :=
  let st := g_st g in
  basic_rule h /\ extra_rule (s_epoch st) h /\ child_rule (s_header st) h /\ gas_rule (s_header st) h /\
  exists s, recovered h = Some s /\ s = to_addr (h_coinbase h) /\
            In s (sorted_vals (s_validators st)) /\
            sealed_none_of_preceding (g_sig g) (h_num h) (seal_limit st - 1) s /\
            h_diff h = (if inturn st s then 2 else 1).

(** in every state reached from a state satisfying the invariant: provided number >= floor(N/2)+1 and
    the recent-signer store covers the last floor(N/2) blocks, UpdateClient accepts a header iff the
    client is active and the header satisfies the property's conjunction *)
Lemma update_accept_iff_history g now h :
  ginv g -> hdr_wf h ->
  seal_limit (g_st g) <= h_num h ->
  g_lo g + seal_limit (g_st g) <= h_num h + 1 ->
  ((exists st', update_client (g_st g) now h = Some st') <->
   status_active (g_st g) now = true /\ property_rule g h).
Proof.
  intros I H L1 L2. unfold property_rule. cbv zeta. split.
  - intros [st' U]. apply update_client_iff in U. destruct U as [A [s [[B [E [C [G [R [CB [M [NR D]]]]]]]] _]]].
    split; [exact A|]. repeat (split; [assumption|]). exists s. repeat (split; [assumption|]).
    split; [|exact D]. apply (not_recent_history g (h_num h) s I); try assumption.
    apply child_num; [apply I | exact H | exact C].
  - intros [A [B [E [C [G [s [R [CB [M [SN D]]]]]]]]]].
    eexists. apply update_client_iff. split; [exact A|]. exists s. split; [|reflexivity].
    repeat (split; [assumption|]). split; [|exact D].
    apply (not_recent_history g (h_num h) s I); try assumption.
    apply child_num; [apply I | exact H | exact C].
Qed.

(** the turn: with the header a child of the latest one, in-turn means being the validator at index
    number mod N of the ascending validator list *)
Lemma inturn_child st h s : st_wf st -> hdr_wf h -> child_rule (s_header st) h ->
  inturn st s =
  beq (nth (N.to_nat (h_num h mod N.of_nat (length (sorted_vals (s_validators st))))) (sorted_vals (s_validators st)) []) s.
Proof.
  intros W H C. pose proof (child_num st h W H C) as NUM. unfold inturn.
  replace (add64 (h_num (s_header st)) 1) with (h_num h); [reflexivity|].
  destruct H as [H _]. unfold add64, two64 in *. rewrite NUM. symmetry. apply N.mod_small. lia.
Qed.

(* ---------------------------------------------------------------- concrete chains *)

Definition wa (b : N) : bytes := repeat b 20.
Definition whash (n : N) : bytes := to_hash (dec n).
Definition wextra (vals : list bytes) : bytes := repeat 0 32%nat ++ concat vals ++ repeat 0 65%nat.
(** header of block [num] sealed by [signer] (coinbase = signer), child of the chain's block num-1 *)
Definition whdr (num : N) (signer : bytes) (diff : N) (vals : list bytes) : header :=
  Header 0 num (whash (num - 1)) uncle_hash signer [] diff 30000000 0 (1000 + num) (wextra vals) zero32
         (Some (whash num)) (Some signer).
Definition wstate (h : header) (epoch : N) (vals : list bytes) (rec : pmap bytes) : state :=
  State h epoch 1000000 vals rec vals [(hheight h, new_cons h)].

Definition A := wa 1. Definition B := wa 2. Definition C := wa 3. Definition D := wa 4. Definition E := wa 5.
Definition vals3 := [A; B; C].
Definition vals5 := [A; B; C; D; E].
Definition vals9 := [A; B; C; D; E; wa 6; wa 7; wa 8; wa 9].

(** (1) below the limit: 5 validators (floor(N/2) = 2), tracked from block 0 whose sealer E is recorded.
    Blocks 1 and 2 are both sealed by A. *)
Definition bl_st0 : state := wstate (whdr 0 E 2 vals5) 100 vals5 [((0, 0), E)].
Definition bl_g0 : gstate := G bl_st0 (fun x => if x =? 0 then Some (0, E) else None) 0.
Definition bl_h1 := whdr 1 A 1 [].
Definition bl_h2 := whdr 2 A 1 [].

Lemma bl_g0_inv : ginv bl_g0.
Proof.
  constructor; cbn [g_st g_sig g_lo bl_g0].
  - repeat split; vm_compute; reflexivity.
  - repeat constructor. intros [].
  - intros k v. cbn. destruct (hkey_eqb k (0, 0)); [|discriminate]. intros X. inversion X. reflexivity.
  - intros r hh v. cbn. destruct (hkey_eqb (r, hh) (0, 0)) eqn:K; [|discriminate].
    apply hkey_eqb_spec in K. inversion K. intros X. inversion X. split; [reflexivity | vm_compute; discriminate].
  - intros hh Hh. assert (h_num (s_header bl_st0) = 0) as Z by reflexivity. rewrite Z in Hh.
    assert (hh = 0) as -> by lia. exists 0, E. split; reflexivity.
Qed.

Lemma recent_rule_below_limit_refuted : exists g now h s st',
  ginv g /\ hdr_wf h /\
  g_lo g + seal_limit (g_st g) <= h_num h + 1 /\          (* the store covers the window *)
  h_num h < seal_limit (g_st g) /\                          (* but number < floor(N/2)+1 *)
  update_client (g_st g) now h = Some st' /\ recovered h = Some s /\
  ~ sealed_none_of_preceding (g_sig g) (h_num h) (seal_limit (g_st g) - 1) s.
Proof.
  exists (gstep bl_g0 (5, bl_h1)), 5, bl_h2, A. eexists.
  split; [apply gstep_inv; [apply bl_g0_inv | split; vm_compute; reflexivity]|].
  split; [split; vm_compute; reflexivity|].
  split; [vm_compute; discriminate|]. split; [vm_compute; reflexivity|].
  split; [vm_compute; reflexivity|]. split; [vm_compute; reflexivity|].
  intros SN. apply (SN 1 ltac:(vm_compute; split; [discriminate | reflexivity]) 0 A); vm_compute; reflexivity.
Qed.

(** (2) after a growth of the set: 3 validators until block 9, 9 validators (announced at block 8,
    epoch length 4) from block 10 on.  A sealed block 6 and seals block 10; floor(9/2) = 4. *)
Definition gr_st0 : state := wstate (whdr 4 C 2 vals3) 4 vals3 [].
Definition gr_g0 : gstate := G gr_st0 (fun _ => None) 5.
Definition gr_chain : list (N * header) :=
  [(5, whdr 5 C 2 []); (5, whdr 6 A 2 []); (5, whdr 7 B 2 []); (5, whdr 8 C 2 vals9); (5, whdr 9 B 1 [])].
Definition gr_h10 := whdr 10 A 1 [].

Lemma gr_g_inv : ginv (grun gr_g0 gr_chain).
Proof.
  apply grun_inv.
  - apply (ginv_fresh gr_st0); [repeat split; vm_compute; reflexivity | reflexivity].
  - repeat constructor; vm_compute; reflexivity.
Qed.

Lemma recent_rule_after_growth_refuted : exists g now h s st',
  ginv g /\ hdr_wf h /\
  seal_limit (g_st g) <= h_num h /\                         (* number >= floor(N/2)+1 *)
  update_client (g_st g) now h = Some st' /\ recovered h = Some s /\
  ~ sealed_none_of_preceding (g_sig g) (h_num h) (seal_limit (g_st g) - 1) s.
Proof.
  exists (grun gr_g0 gr_chain), 5, gr_h10, A. eexists.
  split; [apply gr_g_inv|]. split; [split; vm_compute; reflexivity|].
  split; [vm_compute; discriminate|]. split; [vm_compute; reflexivity|]. split; [vm_compute; reflexivity|].
  intros SN. apply (SN 6 ltac:(vm_compute; split; [discriminate | reflexivity]) 0 A); vm_compute; reflexivity.
Qed.

(* ---------------------------------------------------------------- non-vacuity *)

(** a state reached by accepted headers in which all guards of [update_accept_iff_history] hold and a
    header is accepted (block 7 of the chain above, sealed by B) *)
Lemma accept_history_nonvacuous : exists g now h st',
  ginv g /\ hdr_wf h /\ seal_limit (g_st g) <= h_num h /\ g_lo g + seal_limit (g_st g) <= h_num h + 1 /\
  update_client (g_st g) now h = Some st' /\ s_header st' = h.
Proof.
  exists (grun gr_g0 (firstn 2 gr_chain)), 5, (whdr 7 B 2 []). eexists.
  split.
  { apply grun_inv.
    - apply (ginv_fresh gr_st0); [repeat split; vm_compute; reflexivity | reflexivity].
    - repeat constructor; vm_compute; reflexivity. }
  split; [split; vm_compute; reflexivity|].
  split; [vm_compute; discriminate|]. split; [vm_compute; discriminate|].
  split; vm_compute; reflexivity.
Qed.

(** rejection is non-vacuous too: the same header with the other difficulty is refused; the direct
    call leaves the signer entry of the refused header behind, the transaction rule does not *)
Lemma reject_nonvacuous :
  let st := run gr_st0 (firstn 2 gr_chain) in
  let bad := whdr 7 B 1 [] in
  update_client st 5 bad = None /\ step st (5, bad) = st /\
  fst (direct st bad) = set_recents st (sealed_recents st bad B) /\ fst (direct st bad) <> st.
Proof.
  cbv zeta. split; [vm_compute; reflexivity|]. split; [vm_compute; reflexivity|].
  split; [vm_compute; reflexivity|]. vm_compute. discriminate.
Qed.

(** rotation: block 8 announces the nine validators while three are in force (floor(3/2) = 1):
    after block 8 the old set is still in force, after block 9 the announced one *)
Lemma rotation_nonvacuous :
  let st7 := run gr_st0 (firstn 3 gr_chain) in
  let st8 := run gr_st0 (firstn 4 gr_chain) in
  let st9 := run gr_st0 gr_chain in
  update_client st7 5 (whdr 8 C 2 vals9) = Some st8 /\
  h_num (whdr 8 C 2 vals9) mod s_epoch st7 = 0 /\
  s_validators st8 = vals3 /\ s_pending st8 = vals9 /\ s_validators st9 = vals9.
Proof. cbv zeta. repeat split; vm_compute; reflexivity. Qed.
