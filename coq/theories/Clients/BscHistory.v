(** History invariants of the BSC client model: what the recent-signer store contains after ANY
    sequence of presented headers (ghost record of who sealed which accepted block), the recent-signer
    rule in terms of that history, and validator-set rotation. *)
From Tibc Require Import Base.Bytes Clients.Bsc Clients.BscFacts.
From Coq Require Import PeanoNat ZArith ZifyN ZifyNat ZifyBool.
Ltac Zify.zify_post_hook ::= Z.div_mod_to_equations.
Open Scope N_scope.

(* ---------------------------------------------------------------- well-formedness (uint64 ranges) *)

(** a header whose number is a uint64 other than MaxUint64 and whose extra-data has a sane length *)
Definition hdr_wf (h : header) : Prop :=
  h_num h < two64 - 1 /\ N.of_nat (length (h_extra h)) < two63.

Definition st_wf (st : state) : Prop :=
  h_num (s_header st) < two64 - 1 /\
  N.of_nat (length (s_validators st)) < two63 /\
  N.of_nat (length (s_pending st)) < two63.

Lemma child_num st h : st_wf st -> hdr_wf h -> child_rule (s_header st) h ->
  h_num h = h_num (s_header st) + 1.
Proof.
  intros [W _] [H _] [C _]. unfold sub64, two64 in *. lia.
Qed.

Lemma chunks_length k b : length (chunks k b) = k.
Proof. revert b. induction k as [|k IH]; intros b; cbn [chunks length]; [reflexivity | rewrite IH; reflexivity]. Qed.

Lemma parse_validators_length extra : (length (parse_validators extra) <= length extra)%nat.
Proof.
  unfold parse_validators. rewrite chunks_length, firstn_length, skipn_length.
  unfold address_length, extra_vanity, extra_seal.
  pose proof (Nat.div_le_upper_bound (Nat.min (length extra - 32 - 65) (length extra - 32)) 20 (length extra)).
  apply H; lia.
Qed.

Lemma insert_sorted_length x l : (length (insert_sorted x l) <= S (length l))%nat.
Proof.
  induction l as [|y l IH]; cbn [insert_sorted length]; [lia|].
  destruct (blt x y); [cbn [length]; lia|]. destruct (beq x y); cbn [length]; lia.
Qed.

Lemma sorted_vals_length vs : (length (sorted_vals vs) <= length vs)%nat.
Proof.
  unfold sorted_vals. rewrite <- (map_length to_addr vs).
  induction (map to_addr vs) as [|a l IH]; cbn [fold_right length]; [lia|].
  pose proof (insert_sorted_length a (fold_right insert_sorted [] l)). lia.
Qed.

Definition seal_limit_of (vs : list bytes) : N := N.of_nat (length (sorted_vals vs) / 2 + 1).
Definition prune_limit_of (vs : list bytes) : N := N.of_nat (length vs / 2 + 1).

Lemma seal_limit_eq st : seal_limit st = seal_limit_of (s_validators st).
Proof. reflexivity. Qed.

Lemma seal_le_prune vs : seal_limit_of vs <= prune_limit_of vs.
Proof.
  unfold seal_limit_of, prune_limit_of. pose proof (sorted_vals_length vs).
  pose proof (Nat.div_le_mono _ _ 2 (ltac:(lia) : 2%nat <> 0%nat) H). lia.
Qed.

Lemma new_pending_wf st h : st_wf st -> hdr_wf h -> N.of_nat (length (new_pending st h)) < two63.
Proof.
  intros [_ [_ P]] [_ E]. unfold new_pending. destruct (_ =? _); [|exact P].
  pose proof (parse_validators_length (h_extra h)). lia.
Qed.

Lemma accepted_state_wf st h s : st_wf st -> hdr_wf h -> st_wf (accepted_state st h s).
Proof.
  intros W H. unfold st_wf, accepted_state. cbn. split; [apply H|]. split; [|apply new_pending_wf; assumption].
  unfold new_validators. destruct (switches st h); [apply new_pending_wf; assumption | apply W].
Qed.

(* ---------------------------------------------------------------- deletions of update() *)

Lemma prune_shrink_sub rev num newL cnt : forall i r k v,
  plookup k (prune_shrink rev num newL i cnt r) = Some v -> plookup k r = Some v.
Proof.
  induction cnt as [|c IH]; intros i r k v; cbn [prune_shrink]; [auto|].
  intros H. apply IH in H. apply plookup_pdel_some in H. apply H.
Qed.

Lemma prune_shrink_keep rev num newL cnt : forall i r k,
  (forall j, i <= j < i + N.of_nat cnt -> k <> (rev, sub64 (sub64 num newL) j)) ->
  plookup k (prune_shrink rev num newL i cnt r) = plookup k r.
Proof.
  induction cnt as [|c IH]; intros i r k Hk; cbn [prune_shrink]; [reflexivity|].
  rewrite IH.
  - apply plookup_pdel_neq. apply Hk. lia.
  - intros j Hj. apply Hk. lia.
Qed.

Lemma prune_shrink_nodup rev num newL cnt : forall i r, nodupk r -> nodupk (prune_shrink rev num newL i cnt r).
Proof.
  induction cnt as [|c IH]; intros i r H; cbn [prune_shrink]; [exact H|].
  apply IH. apply nodupk_pdel. exact H.
Qed.

Lemma new_recents_sub st r h k v : plookup k (new_recents st r h) = Some v -> plookup k r = Some v.
Proof.
  unfold new_recents. intros H.
  assert (forall r1, plookup k (if N.of_nat (length (new_validators st h) / 2 + 1) <=? h_num h
                               then pdel (h_rev h, h_num h - N.of_nat (length (new_validators st h) / 2 + 1)) r1 else r1) = Some v ->
                     plookup k r1 = Some v) as D.
  { intros r1. destruct (_ <=? _); [|auto]. intros X. apply plookup_pdel_some in X. apply X. }
  apply D in H. destruct (switches st h); [|exact H]. eapply prune_shrink_sub. exact H.
Qed.

Lemma new_recents_nodup st r h : nodupk r -> nodupk (new_recents st r h).
Proof.
  intros H. unfold new_recents.
  assert (nodupk (if switches st h
                  then prune_shrink (h_rev h) (h_num h) (N.of_nat (length (sorted_vals (new_pending st h)) / 2 + 1)) 0
                         (length (s_validators st) / 2 + 1 - (length (sorted_vals (new_pending st h)) / 2 + 1)) r
                  else r)) as H1.
  { destruct (switches st h); [apply prune_shrink_nodup; exact H | exact H]. }
  destruct (_ <=? _); [apply nodupk_pdel; exact H1 | exact H1].
Qed.

(** heights deleted by the shrink loop lie below the new window (no uint64 wrap can bring them back) *)
Lemma shrink_height_outside num newL j hh :
  num < two64 -> newL + j < two63 -> 1 <= newL -> num + 1 - newL <= hh <= num ->
  hh <> sub64 (sub64 num newL) j.
Proof.
  unfold sub64, two64, two63. intros. lia.
Qed.

(** entries inside the window of the NEW seal limit survive update() *)
Lemma new_recents_keep st r h k : st_wf st -> hdr_wf h ->
  h_num h + 1 - seal_limit_of (new_validators st h) <= snd k <= h_num h ->
  plookup k (new_recents st r h) = plookup k r.
Proof.
  intros W H Hk. unfold new_recents.
  pose proof (seal_le_prune (new_validators st h)) as LP. unfold prune_limit_of in LP.
  assert (1 <= seal_limit_of (new_validators st h)) as L1 by (unfold seal_limit_of; lia).
  assert (forall r1 : pmap bytes, plookup k (if N.of_nat (length (new_validators st h) / 2 + 1) <=? h_num h
                               then pdel (h_rev h, h_num h - N.of_nat (length (new_validators st h) / 2 + 1)) r1 else r1) =
                     plookup k r1) as D.
  { intros r1. destruct (N.leb_spec (N.of_nat (length (new_validators st h) / 2 + 1)) (h_num h)); [|reflexivity].
    apply plookup_pdel_neq. intros E. subst k. cbn [snd] in Hk. lia. }
  rewrite D. destruct (switches st h) eqn:S; [|reflexivity].
  apply prune_shrink_keep. intros j Hj E. subst k. cbn [snd] in Hk.
  unfold new_validators in *. rewrite S in *. unfold seal_limit_of in *.
  destruct W as [_ [WV _]]. destruct H as [Hn _].
  assert (N.of_nat (length (s_validators st) / 2 + 1) <= N.of_nat (length (s_validators st)) + 1) by
    (pose proof (Nat.div_le_upper_bound (length (s_validators st)) 2 (length (s_validators st))); lia).
  exfalso. eapply shrink_height_outside; [ | | | exact Hk | reflexivity]; unfold two64, two63 in *; lia.
Qed.

(* ---------------------------------------------------------------- ghost history *)

(** who sealed the accepted block of a given number, and under which revision number it was filed *)
Definition sigmap := N -> option (N * bytes).

Record gstate := G { g_st : state; g_sig : sigmap; g_lo : N }.

Definition gstep (g : gstate) (i : N * header) : gstate :=
  match update_client (g_st g) (fst i) (snd i), recovered (snd i) with
  | Some st', Some s =>
      G st'
        (fun x => if x =? h_num (snd i) then Some (h_rev (snd i), s) else g_sig g x)
        (N.max (g_lo g) (h_num (snd i) + 1 - seal_limit st'))
  | _, _ => g
  end.

Definition grun (g : gstate) (is : list (N * header)) : gstate := fold_left gstep is g.

Lemma gstep_state g i : g_st (gstep g i) = step (g_st g) i.
Proof.
  unfold gstep, step. destruct (update_client (g_st g) (fst i) (snd i)) as [st'|] eqn:U; [|reflexivity].
  apply update_client_iff in U. destruct U as [_ [s [[_ [_ [_ [_ [R _]]]]] _]]]. rewrite R. reflexivity.
Qed.

Lemma grun_state is : forall g, g_st (grun g is) = run (g_st g) is.
Proof.
  induction is as [|i is IH]; intros g; [reflexivity|]. unfold grun, run in *. cbn [fold_left].
  rewrite IH, gstep_state. reflexivity.
Qed.

(** the invariant: the recent-signer store is sound w.r.t. the history (every entry records the true
    sealer of an accepted block, under the revision number of that block's header) and complete on
    [g_lo, latest]; heights are unique; values are addresses *)
Record ginv (g : gstate) : Prop := {
  gi_wf : st_wf (g_st g);
  gi_nodup : nodupk (s_recents (g_st g));
  gi_len : forall k v, plookup k (s_recents (g_st g)) = Some v -> length v = 20%nat;
  gi_sound : forall r hh v, plookup (r, hh) (s_recents (g_st g)) = Some v ->
               g_sig g hh = Some (r, v) /\ hh <= h_num (s_header (g_st g));
  gi_complete : forall hh, g_lo g <= hh <= h_num (s_header (g_st g)) ->
               exists r v, g_sig g hh = Some (r, v) /\ plookup (r, hh) (s_recents (g_st g)) = Some v
}.

(** a client without recent-signer entries (as created by CreateClient with an empty list) *)
Lemma ginv_fresh st : st_wf st -> s_recents st = [] ->
  ginv (G st (fun _ => None) (h_num (s_header st) + 1)).
Proof.
  intros W E. constructor; cbn [g_st g_sig g_lo]; rewrite ?E.
  - exact W.
  - constructor.
  - intros k v H. discriminate.
  - intros r hh v H. discriminate.
  - intros hh H. lia.
Qed.

Lemma gstep_inv g i : ginv g -> hdr_wf (snd i) -> ginv (gstep g i).
Proof.
  intros I H. destruct i as [now h]. cbn [snd] in H. unfold gstep. cbn [fst snd].
  destruct (update_client (g_st g) now h) as [st'|] eqn:U; [|exact I].
  apply update_client_iff in U. destruct U as [_ [s [A ->]]].
  pose proof A as [_ [_ [C [_ [R _]]]]]. rewrite R.
  destruct I as [W ND LEN SOUND COMPL]. set (st := g_st g) in *.
  pose proof (child_num st h W H C) as NUM.
  assert (forall k v, plookup k (sealed_recents st h s) = Some v ->
            (k = hheight h /\ v = s) \/ (k <> hheight h /\ plookup k (s_recents st) = Some v)) as SR.
  { intros k v. unfold sealed_recents. destruct (hkey_eqb k (hheight h)) eqn:E.
    - apply hkey_eqb_spec in E. subst k. rewrite plookup_pset_eq. intros X. inversion X. auto.
    - apply hkey_eqb_false in E. rewrite plookup_pset_neq by exact E. auto. }
  constructor; cbn [g_st g_sig g_lo set_cons accepted_state s_recents s_header s_validators s_pending].
  - apply (accepted_state_wf st h s W H).
  - apply new_recents_nodup. apply nodupk_pset. exact ND.
  - intros k v X. apply new_recents_sub in X. apply SR in X. destruct X as [[_ ->]|[_ X]].
    + eapply recovered_length. exact R.
    + eapply LEN. exact X.
  - intros r hh v X. apply new_recents_sub in X. apply SR in X. destruct X as [[K ->]|[K X]].
    + unfold hheight in K. inversion K. subst. rewrite N.eqb_refl. split; [reflexivity | lia].
    + apply SOUND in X. destruct X as [X1 X2]. fold st in X2.
      assert (hh <> h_num h) as NE by lia. apply N.eqb_neq in NE. rewrite NE. split; [exact X1 | lia].
  - intros hh Hh.
    assert (seal_limit (set_cons (accepted_state st h s) (pset (hheight h) (new_cons h) (s_cons st))) =
            seal_limit_of (new_validators st h)) as SL by reflexivity.
    rewrite SL in Hh.
    destruct (N.eqb_spec hh (h_num h)) as [E|NE].
    + subst hh. exists (h_rev h), s. split; [reflexivity|].
      rewrite new_recents_keep; [|exact W|exact H|cbn [snd]; lia].
      unfold sealed_recents. apply plookup_pset_eq.
    + destruct (COMPL hh) as [r [v [X1 X2]]]; [fold st; lia|]. exists r, v. split; [exact X1|].
      rewrite new_recents_keep; [|exact W|exact H|cbn [snd]; lia].
      unfold sealed_recents. rewrite plookup_pset_neq; [exact X2|]. unfold hheight. intros K. inversion K. lia.
Qed.

Lemma grun_inv is : forall g, ginv g -> Forall (fun i => hdr_wf (snd i)) is -> ginv (grun g is).
Proof.
  induction is as [|i is IH]; intros g I F; [exact I|]. inversion F; subst.
  unfold grun. cbn [fold_left]. apply IH; [apply gstep_inv; assumption | assumption].
Qed.

(** how the lower end of the covered window moves: an accepted block num with the limit L' of the
    state after it pushes it to at least num+1-L'; a refused header leaves it alone.  Hence coverage
    of the window is inherited by the next header unless the limit grows by more than one. *)
Lemma g_lo_step g now h :
  match update_client (g_st g) now h with
  | Some st' => g_st (gstep g (now, h)) = st' /\
                g_lo (gstep g (now, h)) = N.max (g_lo g) (h_num h + 1 - seal_limit st')
  | None => gstep g (now, h) = g
  end.
Proof.
  unfold gstep. cbn [fst snd]. destruct (update_client (g_st g) now h) as [st'|] eqn:U; [|reflexivity].
  apply update_client_iff in U. destruct U as [_ [s [[_ [_ [_ [_ [R _]]]]] _]]]. rewrite R. split; reflexivity.
Qed.

Lemma window_cover_step g now h st' : update_client (g_st g) now h = Some st' ->
  g_lo g + seal_limit (g_st g) <= h_num h + 1 ->
  seal_limit st' <= seal_limit (g_st g) + 1 ->
  g_lo (gstep g (now, h)) + seal_limit st' <= (h_num h + 1) + 1.
Proof.
  intros U C L. pose proof (g_lo_step g now h) as S. rewrite U in S. destruct S as [_ ->]. lia.
Qed.

(* ---------------------------------------------------------------- snapshot under the invariant *)

Lemma snap_recents_ginv g hh a : ginv g ->
  (In (hh, a) (snap_recents (s_recents (g_st g))) <-> exists r, plookup (r, hh) (s_recents (g_st g)) = Some a).
Proof.
  intros [W ND LEN SOUND COMPL]. unfold snap_recents. rewrite in_map_iff. split.
  - intros [[[r hh'] v] [E Hin]]. cbn [fst snd] in E. inversion E. subst hh' a.
    apply filter_In in Hin. destruct Hin as [Hin _]. apply (in_plookup _ _ _ ND) in Hin.
    exists r. rewrite Hin. f_equal. symmetry. apply left_pad_id. eapply LEN. exact Hin.
  - intros [r X]. exists ((r, hh), a). cbn [fst snd]. split.
    + f_equal. apply left_pad_id. eapply LEN. exact X.
    + apply filter_In. split; [apply plookup_in; exact X|]. apply negb_true_iff.
      unfold shadowed. destruct (existsb _ _) eqn:E; [|reflexivity]. exfalso.
      apply existsb_exists in E. destruct E as [[[r' hh'] v'] [Hin F]]. cbn [fst snd] in F.
      apply andb_true_iff in F. destruct F as [F1 F2]. apply N.eqb_eq in F1. subst hh'.
      apply (in_plookup _ _ _ ND) in Hin. apply SOUND in Hin. apply SOUND in X.
      destruct Hin as [S1 _], X as [S2 _]. rewrite S1 in S2. inversion S2. subst r'.
      rewrite blt_irrefl in F2. discriminate.
Qed.

(** [s] sealed none of the [k] accepted blocks preceding block [num] *)
Definition sealed_none_of_preceding (sg : sigmap) (num k : N) (s : bytes) : Prop :=
  forall hh, num - k <= hh < num -> forall r v, sg hh = Some (r, v) -> v <> s.

(** the recent-signer rule of verifySeal is "sealed none of the preceding floor(N/2) blocks" provided
    the subtraction does not wrap (number >= floor(N/2)+1) and the store covers that window *)
Lemma not_recent_history g num s :
  ginv g -> num = h_num (s_header (g_st g)) + 1 ->
  seal_limit (g_st g) <= num -> g_lo g + seal_limit (g_st g) <= num + 1 ->
  (not_recent (g_st g) num s <->
   sealed_none_of_preceding (g_sig g) num (seal_limit (g_st g) - 1) s).
Proof.
  intros I NUM L1 L2. pose proof I as [W ND LEN SOUND COMPL].
  assert (sub64 num (seal_limit (g_st g)) = num - seal_limit (g_st g)) as SUB.
  { destruct W as [W _]. unfold sub64, two64 in *. lia. }
  unfold not_recent, sealed_none_of_preceding. rewrite SUB. split.
  - intros NR hh Hh r v SG E. subst v.
    destruct (COMPL hh) as [r' [v' [X1 X2]]]; [lia|]. rewrite X1 in SG. inversion SG. subst r' v'.
    assert (In (hh, s) (snap_recents (s_recents (g_st g)))) as Hin by (apply (snap_recents_ginv g hh s I); eauto).
    specialize (NR hh s Hin eq_refl). lia.
  - intros SN hh v Hin E. subst v. apply (snap_recents_ginv g hh s I) in Hin. destruct Hin as [r X].
    apply SOUND in X. destruct X as [X1 X2].
    destruct (N.leb_spec hh (num - seal_limit (g_st g))) as [LE|GT]; [exact LE|]. exfalso.
    apply (SN hh ltac:(lia) r s X1). reflexivity.
Qed.

(* ---------------------------------------------------------------- rotation *)

Lemma if_same {A} (b : bool) (x : A) : (if b then x else x) = x.
Proof. destruct b; reflexivity. Qed.

Lemma step_epoch st i : s_epoch (step st i) = s_epoch st.
Proof.
  unfold step. destruct (update_client st (fst i) (snd i)) as [st'|] eqn:U; [|reflexivity].
  apply update_client_effect in U. apply U.
Qed.

(** the validator set and the pending set after an accepted header, as the code computes them *)
Lemma update_client_sets st now h st' : update_client st now h = Some st' ->
  s_pending st' = (if h_num h mod s_epoch st =? 0 then parse_validators (h_extra h) else s_pending st) /\
  s_validators st' = (if h_num h mod s_epoch st =? N.of_nat (length (s_validators st) / 2)
                      then s_pending st' else s_validators st).
Proof.
  intros U. apply update_client_iff in U. destruct U as [_ [s [_ ->]]]. cbn. split; reflexivity.
Qed.

(** Rotation: let the epoch header [he] (number a multiple of the epoch length) be accepted in a state
    with N validators.  Then, whatever is presented afterwards, as long as the client's latest block
    is e+d with d < epoch length: the pending set is the one [he] announced, and the validator set
    is the old one while d < floor(N/2) and the announced one from d = floor(N/2) on.  (Block e+d+1 is
    verified against the set after block e+d: the announced set decides from block e+floor(N/2)+1.) *)
Lemma rotation_exact st0 now0 he st1 : update_client st0 now0 he = Some st1 ->
  st_wf st0 -> hdr_wf he -> h_num he mod s_epoch st0 = 0 ->
  forall is, Forall (fun i => hdr_wf (snd i)) is ->
  let st := run st1 is in
  let d := h_num (s_header st) - h_num he in
  h_num he <= h_num (s_header st) /\ st_wf st /\ s_epoch st = s_epoch st0 /\
  (d < s_epoch st0 ->
   s_pending st = parse_validators (h_extra he) /\
   s_validators st = (if N.of_nat (length (s_validators st0) / 2) <=? d
                      then parse_validators (h_extra he) else s_validators st0)).
Proof.
  intros U0 W0 H0 M0 is F.
  set (P := fun st => h_num he <= h_num (s_header st) /\ st_wf st /\ s_epoch st = s_epoch st0 /\
    (h_num (s_header st) - h_num he < s_epoch st0 ->
     s_pending st = parse_validators (h_extra he) /\
     s_validators st = (if N.of_nat (length (s_validators st0) / 2) <=? h_num (s_header st) - h_num he
                        then parse_validators (h_extra he) else s_validators st0))).
  assert (forall is st, Forall (fun i => hdr_wf (snd i)) is -> P st -> P (run st is)) as IND.
  { clear F U0. intros is'. induction is' as [|[now h] tl IH]; intros st F PS; [exact PS|].
    inversion F as [|? ? Hh F']; subst. cbn [snd] in Hh. unfold run. cbn [fold_left]. apply IH; [exact F'|].
    unfold step. cbn [fst snd]. destruct (update_client st now h) as [st'|] eqn:U; [|exact PS].
    destruct PS as [P1 [P2 [P3 P4]]].
    pose proof (update_client_sets _ _ _ _ U) as [SP SV].
    pose proof (update_client_effect _ _ _ _ U) as [EH [_ [_ [EE _]]]].
    apply update_client_iff in U. destruct U as [_ [s [A ST]]].
    pose proof A as [_ [_ [C _]]]. pose proof (child_num st h P2 Hh C) as NUM.
    assert (st_wf st') as W' by (subst st'; apply (accepted_state_wf st h s P2 Hh)).
    unfold P. rewrite EH, EE, P3. split; [lia|]. split; [exact W'|]. split; [reflexivity|].
    intros D. rewrite P3 in SP, SV.
    assert (h_num (s_header st) - h_num he < s_epoch st0) as D0 by lia.
    destruct (P4 D0) as [Q1 Q2].
    assert (h_num h mod s_epoch st0 = h_num h - h_num he) as MOD.
    { replace (h_num h) with (h_num he + (h_num h - h_num he)) at 1 by lia.
      rewrite N.add_mod by lia. rewrite M0, N.add_0_l, N.mod_mod by lia. apply N.mod_small. exact D. }
    rewrite MOD in SP, SV.
    assert (h_num h - h_num he =? 0 = false) as NZ by (apply N.eqb_neq; lia).
    rewrite NZ in SP. rewrite SP, Q1 in *. split; [reflexivity|].
    rewrite SV, Q2.
    destruct (N.leb_spec (N.of_nat (length (s_validators st0) / 2)) (h_num (s_header st) - h_num he)) as [LE|GT].
    - rewrite if_same.
      destruct (N.leb_spec (N.of_nat (length (s_validators st0) / 2)) (h_num h - h_num he)); [reflexivity | exfalso; lia].
    - destruct (N.eqb_spec (h_num h - h_num he) (N.of_nat (length (s_validators st0) / 2))) as [E|NE];
      destruct (N.leb_spec (N.of_nat (length (s_validators st0) / 2)) (h_num h - h_num he)); try reflexivity; exfalso; lia. }
  apply IND; [exact F|].
  pose proof (update_client_sets _ _ _ _ U0) as [SP SV].
  pose proof (update_client_effect _ _ _ _ U0) as [EH [_ [_ [EE _]]]].
  apply update_client_iff in U0. destruct U0 as [_ [s [A ST]]].
  unfold P. rewrite EH, EE. split; [lia|]. split; [subst st1; apply (accepted_state_wf st0 he s W0 H0)|].
  split; [reflexivity|]. intros _. rewrite N.sub_diag. rewrite M0 in SP, SV. cbn [N.eqb] in SP.
  rewrite SP in *. split; [reflexivity|]. rewrite SV.
  destruct (N.eqb_spec 0 (N.of_nat (length (s_validators st0) / 2))) as [E|NE];
  destruct (N.leb_spec (N.of_nat (length (s_validators st0) / 2)) 0); try reflexivity; lia.
Qed.
