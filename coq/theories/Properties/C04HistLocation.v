(** C04 -- the two-chain location statement, in counting form (statements only;
    proofs in Net/NftLocation.v).

    For a '/'-free native class cl of the chain named nI, an id, the chain named
    nJ, vpath = "nft/nI/nJ/cl" and v = [vcls] its voucher class on nJ, counted
    from the two event logs with the harness decoder:
      S / R / C    away-sends of (cl,id) committed on I towards J / their refunds
                   on I / their credits (success acknowledgements) on J;
      S'/ R'/ C'   back-sends of (vpath,id) committed on J towards I / their
                   refunds on J / their credits on I.
    PROVED: if the two per-chain LEDGER EQUATIONS hold after a history,
      [ledger_eq_I]   [(cl,id) owned by escrow on I] + R + C' = S
      [ledger_eq_J]   [(v,id) exists on J] + S' = C + R'
    then  [(cl,id) in escrow on I] = ua + [(v,id) exists on J] + ub  with
    ua = S - C - R >= 0 unsettled away-sends, ub = S' - C' - R' >= 0 unsettled
    back-sends (the inequalities are C04total_sum_ineq_port).  The left side being
    0 or 1, this is the location invariant L1-L4; in particular the voucher exists
    on J only while (cl,id) is escrowed on I, so they are never both user-held.
    Premises: hist_ok, '/'-free names nI, nJ of two chains of the network.

    NOT PROVED (therefore no unconditional "never two user holders" theorem is
    stated): that [ledger_eq_I] and [ledger_eq_J] are history invariants.  Each is
    a statement about ONE chain and its OWN log.  What they need, per step of that
    chain (all ingredients exist as theorems, the case analysis is not done):
      - own send of (cl,id) away  <->  a weighted [ESend] (needs sends_roundtrip,
        no_raw_nft_send, NoSelf, dec_nft (enc_mt x) = None, the trace invariant so
        that no other class has class path cl);
      - refund releasing (cl,id)  <->  a weighted error [EAppAck] (own-send link);
      - back-receive releasing (cl,id) <-> a weighted success [EWriteAck] from J:
        THIS IS THE MISSING TRANSITION in substance -- the code releases for any
        class path whose LAST segment is cl ("nft/X/J/cl" for any X), so the
        equation needs that every voucher path on J ending in cl starts with nI,
        i.e. two chains only, or a trace-store invariant on J recording sources;
      - no donation to the escrow account, no escrow signature, no user burn or
        mint of (v,id) (by VInv), no OSetApp;
      symmetric on J for (v,id). *)
From Tibc Require Import Base.Bytes Base.FMap Host.Keys Host.KeysFacts Routing.Rules Packet.Types Packet.Keeper
  Net.Net Net.NetInv Apps.Path Apps.Nft Apps.NftFacts Apps.Mt Apps.App Harness.AppNet
  Net.AppNetSim Net.AppNetNoSelf Net.AppNetSumIneq Net.AppNetNftSum
  Apps.NftHistory Apps.NftHistoryThm Apps.NftEscrow Net.NftLocation.
From Tibc Require Import Properties.Example Properties.C05HistNet Properties.C05HistSum Properties.C04HistCross.

Theorem C04loc_location_identity :
  forall (nft_escrow mt_escrow nI nJ cl id : bytes) (n0 : anet) (ops : list anop)
         (i : nat) (ci : chain app_state) (j : nat) (cj : chain app_state),
    hist_ok n0 ops -> noslash nI -> noslash nJ ->
    nth_error (anrun nft_escrow mt_escrow n0 ops) i = Some ci -> c_name app_state ci = nI ->
    nth_error (anrun nft_escrow mt_escrow n0 ops) j = Some cj -> c_name app_state cj = nJ ->
    let li := log_of i (anrun_log nft_escrow mt_escrow n0 ops) in
    let lj := log_of j (anrun_log nft_escrow mt_escrow n0 ops) in
    ledger_eq_I nft_escrow nI nJ cl id ci li -> ledger_eq_J nI nJ cl id cj lj ->
    exists ua ub,
      S_away nI nJ cl id li = C_away nI nJ cl id lj + R_away nI nJ cl id li + ua /\
      S_back nI nJ cl id lj = C_back nI nJ cl id li + R_back nI nJ cl id lj + ub /\
      escI nft_escrow cl id ci = ua + presJ nI nJ cl id cj + ub.
Proof. exact location_identity. Qed.
Print Assumptions C04loc_location_identity.

Theorem C04loc_voucher_implies_escrow_if_ledger_eqs :
  forall (nft_escrow mt_escrow nI nJ cl id : bytes) (n0 : anet) (ops : list anop)
         (i : nat) (ci : chain app_state) (j : nat) (cj : chain app_state),
    hist_ok n0 ops -> noslash nI -> noslash nJ ->
    nth_error (anrun nft_escrow mt_escrow n0 ops) i = Some ci -> c_name app_state ci = nI ->
    nth_error (anrun nft_escrow mt_escrow n0 ops) j = Some cj -> c_name app_state cj = nJ ->
    ledger_eq_I nft_escrow nI nJ cl id ci (log_of i (anrun_log nft_escrow mt_escrow n0 ops)) ->
    ledger_eq_J nI nJ cl id cj (log_of j (anrun_log nft_escrow mt_escrow n0 ops)) ->
    token_at (nft_of cj) (vcls nI nJ cl) id <> None -> owner_of (nft_of ci) cl id = Some nft_escrow.
Proof. exact voucher_implies_escrow. Qed.
Print Assumptions C04loc_voucher_implies_escrow_if_ledger_eqs.

Theorem C04loc_no_two_user_holders_if_ledger_eqs :
  forall (nft_escrow mt_escrow nI nJ cl id : bytes) (n0 : anet) (ops : list anop)
         (i : nat) (ci : chain app_state) (j : nat) (cj : chain app_state),
    hist_ok n0 ops -> noslash nI -> noslash nJ ->
    nth_error (anrun nft_escrow mt_escrow n0 ops) i = Some ci -> c_name app_state ci = nI ->
    nth_error (anrun nft_escrow mt_escrow n0 ops) j = Some cj -> c_name app_state cj = nJ ->
    ledger_eq_I nft_escrow nI nJ cl id ci (log_of i (anrun_log nft_escrow mt_escrow n0 ops)) ->
    ledger_eq_J nI nJ cl id cj (log_of j (anrun_log nft_escrow mt_escrow n0 ops)) ->
    user_held nft_escrow (nft_of ci) cl id -> user_held nft_escrow (nft_of cj) (vcls nI nJ cl) id -> False.
Proof. exact ledger_eqs_exclude_two_user_holders. Qed.
Print Assumptions C04loc_no_two_user_holders_if_ledger_eqs.

(** * non-vacuity: the whole tour L1 -> L2 -> L3 -> L4 -> L1 of kitty/tom between
    A and B (send, credit, back-send, back-credit), and the refund history; the
    numbers are (escI, S, R, C', presJ, S', C, R') at the end of each prefix *)
Definition w_carol := of_string "cosmos1carol".
Definition w_back_pkt :=
  mkPacket 1 nameB nameA [] NFT_PORT
    (enc_nft (mkNftData (of_string "nft/chain-aaaa/chain-bbbb/kitty") y_tom y_uri y_bob w_carol false [])).
Definition w_tour : list anop :=
  y_credit ++
  [ AUser 1 125 (UNftSend y_v y_tom y_bob w_carol nameA [] []);
    ANet (NUpd 0 1 130 7 127);
    ANet (NChain 0 140 (ORecv w_back_pkt (PGenuine nameB (commit_key nameB nameA 1)) 7)) ].

Definition loc_numbers (ops : list anop) : option (N * N * N * N * N * N * N * N) :=
  match anrun x_nesc x_mesc x_n0 ops with
  | [cA; cB] =>
      let li := log_of 0 (anrun_log x_nesc x_mesc x_n0 ops) in
      let lj := log_of 1 (anrun_log x_nesc x_mesc x_n0 ops) in
      Some (escI x_nesc y_kitty y_tom cA, S_away nameA nameB y_kitty y_tom li, R_away nameA nameB y_kitty y_tom li,
            C_back nameA nameB y_kitty y_tom li, presJ nameA nameB y_kitty y_tom cB,
            S_back nameA nameB y_kitty y_tom lj, C_away nameA nameB y_kitty y_tom lj,
            R_back nameA nameB y_kitty y_tom lj)
  | _ => None
  end.

Example C04loc_tour_nonvacuous :
  vcls nameA nameB y_kitty = y_v /\
  (* L1: minted, user-held on A *)              loc_numbers (firstn 4 w_tour) = Some (0, 0, 0, 0, 0, 0, 0, 0) /\
  (* L2: sent, unsettled *)                      loc_numbers (firstn 5 w_tour) = Some (1, 1, 0, 0, 0, 0, 0, 0) /\
  (* L3: credited on B, voucher with bob *)      loc_numbers (firstn 7 w_tour) = Some (1, 1, 0, 0, 1, 0, 1, 0) /\
  (* L4: voucher burned by the back-send *)      loc_numbers (firstn 8 w_tour) = Some (1, 1, 0, 0, 0, 1, 1, 0) /\
  (* L1: released to carol on A *)               loc_numbers w_tour = Some (0, 1, 0, 1, 0, 1, 1, 0) /\
  (* refund history: sent, error ack, refunded *) loc_numbers y_refund = Some (0, 1, 1, 0, 0, 0, 0, 0).
Proof. repeat split; vm_compute; reflexivity. Qed.
Print Assumptions C04loc_tour_nonvacuous.

(** ... so both ledger equations hold at the end of the tour, and the premises of
    the location identity are met *)
Example C04loc_ledger_eqs_nonvacuous :
  match anrun x_nesc x_mesc x_n0 w_tour with
  | [cA; cB] =>
      ledger_eq_I x_nesc nameA nameB y_kitty y_tom cA (log_of 0 (anrun_log x_nesc x_mesc x_n0 w_tour)) /\
      ledger_eq_J nameA nameB y_kitty y_tom cB (log_of 1 (anrun_log x_nesc x_mesc x_n0 w_tour)) /\
      owner_of (nft_of cA) y_kitty y_tom = Some w_carol
  | _ => False
  end.
Proof. vm_compute. repeat split; reflexivity. Qed.
Print Assumptions C04loc_ledger_eqs_nonvacuous.

(** the tour satisfies [hist_ok] and the name premises *)
Example C04loc_premises_nonvacuous :
  hist_ok x_n0 w_tour /\ noslash nameA /\ noslash nameB.
Proof.
  split; [|split; intros X; vm_compute in X; repeat (destruct X as [X|X]; [discriminate X|]); exact X].
  split; [exact x_n0_init|]. split; [exact x_names_nodup|].
  unfold w_tour, y_credit. cbn [app].
  split; [repeat constructor; cbn; unfold wfp; cbn; try exact I; reflexivity|repeat constructor].
Qed.
Print Assumptions C04loc_premises_nonvacuous.
