(** C05 across two chains of an application-network history (Harness/AppNet.v,
    [anrun] / [anrun_log] of Net/AppNetSim.v) -- statements only; proofs in
    Net/MtCrossChain.v and Net/MtCrossEq.v.

    (1) PROJECTION.  Chain i of a network history runs a TIMED hop history
    [proj i n0 ops]: a generic operation [ANet (NChain i now o)] is the hop
    [HOp o] at time [now]; an honest client creation / update on i about chain j
    is [HOp (OCreateClient ..)] / [HOp (OUpdateClient ..)] with j's current name
    and packet store; a user transaction [AUser i now u] is [HUser u]; steps on
    other chains contribute nothing.  A network step sets the block time of the
    acted chain even when the step fails, and the hop histories of
    Apps/MtHistory.v cannot set the time, so the hops carry their time
    ([thop] = time * hop, [thstep c (now,h) = hstep (with_now c now) h]); the
    equality below is exact (whole chain state including the time, and the
    chain's event log).
    (2) The per-chain MT accounting holds for timed histories ([tacts]: as
    [hacts], but the direction of a user send is recorded from the state the
    send ran in, not decoded from the packet -- the harness codec does not
    satisfy dec (enc x) = Some x for every x, so no codec premise is used).
    (3) The cross-chain equation for two chains, with "no unit is created"
    (the two summed inequalities) as explicit premises. *)
From Tibc Require Import Base.Bytes Base.FMap Host.Keys Host.KeysFacts Routing.Rules
  Packet.Types Packet.Keeper Packet.KeeperFacts Net.Net Net.Explained Net.NetInv
  Apps.Path Apps.Nft Apps.Mt Apps.MtFacts Apps.App Apps.AppFacts Harness.AppNet
  Net.AppNetSim Net.AppNetFacts Net.AppNetConserve Net.AppNetNoSelf
  Apps.MtHistory Apps.MtHistEscrow Net.MtCrossChain Net.MtCrossEq.
From Tibc Require Import Properties.Example Properties.C05HistNet Properties.C05HistSum.

(** (1) PROJECTION.  Only premise: chain i exists. *)
Theorem C05X_chain_of_network_runs_a_hop_history :
  forall (nft_escrow mt_escrow : bytes) (i : nat) (ops : list anop) (n : anet) (ci : chain app_state),
    nth_error n i = Some ci ->
    nth_error (anrun nft_escrow mt_escrow n ops) i
      = Some (thrun idHh idH addr_ok nft_escrow mt_escrow enc_nft dec_nft enc_mt dec_mt ci
                    (proj nft_escrow mt_escrow i n ops)) /\
    log_of i (anrun_log nft_escrow mt_escrow n ops)
      = tevents idHh idH addr_ok nft_escrow mt_escrow enc_nft dec_nft enc_mt dec_mt ci
                (proj nft_escrow mt_escrow i n ops).
Proof. exact anrun_proj. Qed.
Print Assumptions C05X_chain_of_network_runs_a_hop_history.

(** the projected history contains no OSetApp if the network history contains
    none ([anop_noset]; [hist_ok] does not exclude it) *)
Theorem C05X_projected_history_ok :
  forall (nft_escrow mt_escrow : bytes) (i : nat) (ops : list anop) (n : anet),
    Forall anop_noset ops -> Forall thop_ok (proj nft_escrow mt_escrow i n ops).
Proof. exact proj_ok. Qed.
Print Assumptions C05X_projected_history_ok.

(** (2) the ledger of a timed history is the start ledger plus the moves of its
    acts; invariant kept.  Any hashes, address check, escrow addresses, codecs;
    NO codec premise. *)
Theorem C05X_timed_history_ledger :
  forall (Hh H : bytes -> bytes) (valid_addr : bytes -> bool) (nft_escrow mt_escrow : bytes)
         (enc_nft : nft_data -> bytes) (dec_nft : bytes -> option nft_data)
         (enc_mt : mt_data -> bytes) (dec_mt : bytes -> option mt_data)
         (c : chain app_state) (l : list thop),
    Forall thop_ok l -> MtInv (a_mt (c_app app_state c)) ->
    let c' := thrun Hh H valid_addr nft_escrow mt_escrow enc_nft dec_nft enc_mt dec_mt c l in
    MtInv (a_mt (c_app app_state c')) /\
    ledger_eq (a_mt (c_app app_state c)) (a_mt (c_app app_state c'))
      (concat (map (moves_of mt_escrow)
                   (tacts Hh H valid_addr nft_escrow mt_escrow enc_nft dec_nft enc_mt dec_mt c l))).
Proof. exact thist_ledger. Qed.
Print Assumptions C05X_timed_history_ledger.

(** escrow accounting of chain i inside a network history (every input) *)
Theorem C05X_network_escrow_accounting :
  forall (nft_escrow mt_escrow : bytes) (n0 : anet) (ops : list anop) (i : nat)
         (ci0 ci : chain app_state) (cl id : bytes),
    Forall anop_noset ops -> nth_error n0 i = Some ci0 -> MtInv (a_mt (c_app app_state ci0)) ->
    nth_error (anrun nft_escrow mt_escrow n0 ops) i = Some ci ->
    let A := nacts nft_escrow mt_escrow i n0 ops in
    bal_of (a_mt (c_app app_state ci)) mt_escrow cl id
      + sumf (refunded_away cl id) A + sumf (released_back cl id) A
      + sumf (party_out mt_escrow cl id) A + sumf (user_out mt_escrow cl id) A
    = bal_of (a_mt (c_app app_state ci0)) mt_escrow cl id
      + sumf (sent_away cl id) A + sumf (party_in mt_escrow cl id) A + sumf (user_in mt_escrow cl id) A
    /\ bal_of (a_mt (c_app app_state ci)) mt_escrow cl id <= u64max.
Proof. exact net_escrow_accounting. Qed.
Print Assumptions C05X_network_escrow_accounting.

(** supply accounting of chain j inside a network history *)
Theorem C05X_network_supply_accounting :
  forall (nft_escrow mt_escrow : bytes) (n0 : anet) (ops : list anop) (i : nat)
         (ci0 ci : chain app_state) (cl id : bytes),
    Forall anop_noset ops -> nth_error n0 i = Some ci0 -> MtInv (a_mt (c_app app_state ci0)) ->
    nth_error (anrun nft_escrow mt_escrow n0 ops) i = Some ci ->
    let A := nacts nft_escrow mt_escrow i n0 ops in
    supply_of (a_mt (c_app app_state ci)) cl id + sumf (burned_back cl id) A + sumf (user_burned cl id) A
    = supply_of (a_mt (c_app app_state ci0)) cl id
      + sumf (minted_recv cl id) A + sumf (reminted_refund cl id) A + sumf (user_minted cl id) A
    /\ supply_of (a_mt (c_app app_state ci)) cl id <= u64max.
Proof. exact net_supply_accounting. Qed.
Print Assumptions C05X_network_supply_accounting.

(** (3) THE CROSS-CHAIN EQUATION, two chains i and j, class cl on i, class v on
    j (intended v = [voucher_of name_i name_j cl]).  With
      SA, RA, RB  = locked by away-sends / refunded / released, of (cl,id), on i
      MR, RM, BB  = minted by away-receives / minted again by refunds / burned by
                    back-sends, of (v,id), on j
      in flight i->j = SA - (MR + RA),   in flight j->i = BB - (RB + RM):
      units locked on i = vouchers in existence on j + in flight i->j + in flight j->i,
    both differences are exact, and everything is at most 2^64-1.
    Premises:
      - MR + RA <= SA and RB + RM <= BB: "no unit is created", the summed form of
        the packet-layer matching facts (each credit / refund is matched by one
        send with the same key and data; at most once; a key is not both credited
        and refunded).  Without them the in-flight quantities would not be
        differences of what they are meant to be; they are the only place where
        the two chains are connected;
      - no OSetApp; both chains exist and start with a ledger satisfying the
        invariant, nothing in escrow for (cl,id) on i, no supply of (v,id) on j;
      - on i no act names the escrow address as a party (no donations to
        escrow etc.: C05H_escrow_party_terms_needed / _user_terms_needed);
      - on j nobody mints or burns (v,id) with MsgMintMT / MsgBurnMT (a holder
        can burn vouchers: then fewer vouchers exist than units are locked). *)
Theorem C05X_cross_chain_equation :
  forall (nft_escrow mt_escrow : bytes) (n0 : anet) (ops : list anop) (i j : nat) (cl v id : bytes),
    MR nft_escrow mt_escrow n0 ops j v id + RA nft_escrow mt_escrow n0 ops i cl id
      <= SA nft_escrow mt_escrow n0 ops i cl id ->
    RB nft_escrow mt_escrow n0 ops i cl id + RM nft_escrow mt_escrow n0 ops j v id
      <= BB nft_escrow mt_escrow n0 ops j v id ->
    forall ci0 cj0 ci cj : chain app_state,
      Forall anop_noset ops ->
      nth_error n0 i = Some ci0 -> nth_error n0 j = Some cj0 ->
      MtInv (a_mt (c_app app_state ci0)) -> MtInv (a_mt (c_app app_state cj0)) ->
      nth_error (anrun nft_escrow mt_escrow n0 ops) i = Some ci ->
      nth_error (anrun nft_escrow mt_escrow n0 ops) j = Some cj ->
      bal_of (a_mt (c_app app_state ci0)) mt_escrow cl id = 0 ->
      supply_of (a_mt (c_app app_state cj0)) v id = 0 ->
      Forall (act_clean mt_escrow) (nacts nft_escrow mt_escrow i n0 ops) ->
      sumf (user_minted v id) (nacts nft_escrow mt_escrow j n0 ops) = 0 ->
      sumf (user_burned v id) (nacts nft_escrow mt_escrow j n0 ops) = 0 ->
      bal_of (a_mt (c_app app_state ci)) mt_escrow cl id
        = supply_of (a_mt (c_app app_state cj)) v id
          + in_flight_ij nft_escrow mt_escrow n0 ops i j cl v id
          + in_flight_ji nft_escrow mt_escrow n0 ops i j cl v id /\
      in_flight_ij nft_escrow mt_escrow n0 ops i j cl v id
        + (MR nft_escrow mt_escrow n0 ops j v id + RA nft_escrow mt_escrow n0 ops i cl id)
        = SA nft_escrow mt_escrow n0 ops i cl id /\
      in_flight_ji nft_escrow mt_escrow n0 ops i j cl v id
        + (RB nft_escrow mt_escrow n0 ops i cl id + RM nft_escrow mt_escrow n0 ops j v id)
        = BB nft_escrow mt_escrow n0 ops j v id /\
      bal_of (a_mt (c_app app_state ci)) mt_escrow cl id <= u64max.
Proof. exact cross_chain_equation. Qed.
Print Assumptions C05X_cross_chain_equation.

(** the safety half: no more vouchers exist on j than units are locked on i *)
Theorem C05X_vouchers_at_most_locked :
  forall (nft_escrow mt_escrow : bytes) (n0 : anet) (ops : list anop) (i j : nat) (cl v id : bytes),
    MR nft_escrow mt_escrow n0 ops j v id + RA nft_escrow mt_escrow n0 ops i cl id
      <= SA nft_escrow mt_escrow n0 ops i cl id ->
    RB nft_escrow mt_escrow n0 ops i cl id + RM nft_escrow mt_escrow n0 ops j v id
      <= BB nft_escrow mt_escrow n0 ops j v id ->
    forall ci0 cj0 ci cj : chain app_state,
      Forall anop_noset ops ->
      nth_error n0 i = Some ci0 -> nth_error n0 j = Some cj0 ->
      MtInv (a_mt (c_app app_state ci0)) -> MtInv (a_mt (c_app app_state cj0)) ->
      nth_error (anrun nft_escrow mt_escrow n0 ops) i = Some ci ->
      nth_error (anrun nft_escrow mt_escrow n0 ops) j = Some cj ->
      bal_of (a_mt (c_app app_state ci0)) mt_escrow cl id = 0 ->
      supply_of (a_mt (c_app app_state cj0)) v id = 0 ->
      Forall (act_clean mt_escrow) (nacts nft_escrow mt_escrow i n0 ops) ->
      sumf (user_minted v id) (nacts nft_escrow mt_escrow j n0 ops) = 0 ->
      sumf (user_burned v id) (nacts nft_escrow mt_escrow j n0 ops) = 0 ->
      supply_of (a_mt (c_app app_state cj)) v id <= bal_of (a_mt (c_app app_state ci)) mt_escrow cl id.
Proof. exact vouchers_le_locked. Qed.
Print Assumptions C05X_vouchers_at_most_locked.

(** * non-vacuity: two chains A (index 0) and B (index 1); on A 10 units of
    "gold"/"bar1" are minted, 4 and 3 are sent to B; B receives and credits the
    4 (the 3 stay in flight); A processes the acknowledgement; on B bob sends 1
    voucher back (burned); A receives it and releases 1.
    Locked on A: 7 - 0 - 1 = 6.  Vouchers on B: 4 + 0 - 1 = 3.
    In flight A->B: 7 - (4 + 0) = 3.  In flight B->A: 1 - (1 + 0) = 0.  6 = 3 + 3 + 0. *)
Definition x_v := voucher_of nameA nameB x_cls.
Definition x_back : packet :=
  mkPacket 1 nameB nameA [] MT_PORT
    (enc_mt (mkMtData (away_new_class_path MT_PFX nameA nameB x_cls) x_tid x_bob x_alice false [] 1 (of_string "meta"))).
Definition x_cross : list anop :=
  [ ANet (NCreate 0 1 100 2 90 1000); ANet (NCreate 1 0 100 2 90 1000);
    AUser 0 100 (UMtIssue x_cls x_alice);
    AUser 0 100 (UMtMintNew x_cls x_tid 10 (of_string "meta") x_alice x_alice);
    AUser 0 100 (UMtSend x_cls x_tid x_alice x_bob nameB [] [] 4);
    AUser 0 100 (UMtSend x_cls x_tid x_alice x_bob nameB [] [] 3);
    ANet (NUpd 1 0 110 5 105);
    ANet (NChain 1 120 (ORecv x_pkt x_pf 5));
    ANet (NUpd 0 1 130 7 125);
    ANet (NChain 0 140 (OAck x_pkt ack_ok x_apf 7));
    AUser 1 150 (UMtSend x_v x_tid x_bob x_alice nameA [] [] 1);
    ANet (NUpd 0 1 160 9 155);
    ANet (NChain 0 170 (ORecv x_back (PGenuine nameB (commit_key nameB nameA 1)) 9)) ].

Example C05X_cross_chain_equation_nonvacuous :
  hist_ok x_n0 x_cross /\ Forall anop_noset x_cross /\
  x_v = of_string "tibc-mt/chain-aaaa/chain-bbbb/gold" /\
  (* the two "no unit is created" premises hold in this history *)
  MR x_nesc x_mesc x_n0 x_cross 1 x_v x_tid + RA x_nesc x_mesc x_n0 x_cross 0 x_cls x_tid
    <= SA x_nesc x_mesc x_n0 x_cross 0 x_cls x_tid /\
  RB x_nesc x_mesc x_n0 x_cross 0 x_cls x_tid + RM x_nesc x_mesc x_n0 x_cross 1 x_v x_tid
    <= BB x_nesc x_mesc x_n0 x_cross 1 x_v x_tid /\
  Forall (act_clean x_mesc) (nacts x_nesc x_mesc 0 x_n0 x_cross) /\
  sumf (user_minted x_v x_tid) (nacts x_nesc x_mesc 1 x_n0 x_cross) = 0 /\
  sumf (user_burned x_v x_tid) (nacts x_nesc x_mesc 1 x_n0 x_cross) = 0 /\
  (SA x_nesc x_mesc x_n0 x_cross 0 x_cls x_tid, RA x_nesc x_mesc x_n0 x_cross 0 x_cls x_tid,
   RB x_nesc x_mesc x_n0 x_cross 0 x_cls x_tid, MR x_nesc x_mesc x_n0 x_cross 1 x_v x_tid,
   RM x_nesc x_mesc x_n0 x_cross 1 x_v x_tid, BB x_nesc x_mesc x_n0 x_cross 1 x_v x_tid,
   in_flight_ij x_nesc x_mesc x_n0 x_cross 0 1 x_cls x_v x_tid,
   in_flight_ji x_nesc x_mesc x_n0 x_cross 0 1 x_cls x_v x_tid) = (7, 0, 1, 4, 0, 1, 3, 0) /\
  match anrun x_nesc x_mesc x_n0 x_cross with
  | [cA; cB] =>
      (bal_of (a_mt (c_app app_state cA)) x_mesc x_cls x_tid,
       supply_of (a_mt (c_app app_state cB)) x_v x_tid,
       bal_of (a_mt (c_app app_state cA)) x_alice x_cls x_tid,
       bal_of (a_mt (c_app app_state cB)) x_bob x_v x_tid) = (6, 3, 4, 3)
  | _ => False
  end.
Proof.
  split.
  { split; [exact x_n0_init|]. split; [exact x_names_nodup|].
    split; [repeat constructor; cbn; unfold wfp; cbn; try exact I; reflexivity|]. repeat constructor. }
  split; [repeat constructor|].
  split; [vm_compute; reflexivity|].
  split; [vm_compute; discriminate|]. split; [vm_compute; discriminate|].
  split; [vm_compute; repeat constructor; discriminate|].
  split; [vm_compute; reflexivity|]. split; [vm_compute; reflexivity|].
  split; vm_compute; reflexivity.
Qed.

(** the projection of this history on chain A: 9 timed hops (the 4 steps on B
    contribute none), and the projected run IS chain A of the network *)
Example C05X_projection_nonvacuous :
  length (proj x_nesc x_mesc 0 x_n0 x_cross) = 9%nat /\
  length (proj x_nesc x_mesc 1 x_n0 x_cross) = 4%nat /\
  nth_error (anrun x_nesc x_mesc x_n0 x_cross) 0
    = Some (thrun idHh idH addr_ok x_nesc x_mesc enc_nft dec_nft enc_mt dec_mt (mk_achain nameA)
                  (proj x_nesc x_mesc 0 x_n0 x_cross)) /\
  log_of 0 (anrun_log x_nesc x_mesc x_n0 x_cross)
    = [ESend x_pkt;
       ESend (mkPacket 2 nameA nameB [] MT_PORT
                (enc_mt (mkMtData x_cls x_tid x_alice x_bob true [] 3 (of_string "meta"))));
       EAck x_pkt ack_ok; EAppAck x_pkt ack_ok;
       ERecv x_back; EDeliver x_back; EWriteAck x_back ack_ok].
Proof.
  split; [vm_compute; reflexivity|]. split; [vm_compute; reflexivity|].
  split; vm_compute; reflexivity.
Qed.
