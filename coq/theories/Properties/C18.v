(** C18 - the ETH client accepts only valid children of known headers and keeps one chain.
    Statements only; the model is Clients/Eth.v, the proofs are in Clients/EthFacts.v and
    Clients/EthWitness.v.

    Reading guide.  [eth_update now seal h s] is keeper.UpdateClient at block time [now] with
    ethash verdict [seal]; [eth_run h0 trust ops] is the client state after the history [ops]
    on a client created from header [h0]; [eth_accepted h0 trust ops] lists the headers accepted
    along the way (with [h0]).  [linked acc t x]: [x] is reached from [t] by following parent
    hashes through accepted headers, one height down per step.
    [Good acc]: no two accepted headers share a hash, distinct accepted headers at one height
    have distinct state roots, heights stay below 2^64 - 1.
    [quiet s0 ops]: at no submission time of the history a consensus state was expired
    (nothing pruned). *)
From Coq Require Import List NArith ZArith Bool.
From Tibc Require Import Clients.Eth Clients.EthFacts Clients.EthWitness.
Import ListNotations.
Open Scope N_scope.

(** acceptance in ANY state = client active, well-formed header of the client's revision
    number, header not stored, parent stored, time window, EIP-1559 gas limit and base fee,
    prescribed difficulty, valid seal - and the store update (pruning, fork handling) succeeds *)
Theorem C18_accept_iff_any_state : forall now seal h s,
  (exists s', eth_update now seal h s = Some s') <->
  active now s = true /\ validate_basic h = true /\ h_rev h = h_rev (s_tip s) /\
  verify_header now seal h s = true /\ exists s', store_step now h s = Some s'.
Proof. exact eth_accept_iff. Qed.
Print Assumptions C18_accept_iff_any_state.

Theorem C18_verify_header_iff : forall now seal h s,
  verify_header now seal h s = true <->
  pget (key_of h) (s_idx s) = None /\
  exists p, pget (h_parent h, pred64 (h_num h)) (s_idx s) = Some p /\
    h_wf p = true /\ h_hash p = h_parent h /\
    h_time h <= now + 15 /\ h_time p < h_time h /\
    gas_limit_ok (h_gaslimit p) (h_gaslimit h) = true /\
    calc_base_fee p = Some (h_basefee h) /\
    calc_difficulty (h_time h) p = h_diff h /\
    seal = true.
Proof. exact verify_header_true. Qed.
Print Assumptions C18_verify_header_iff.

(** in every state reached by a history without pruning the store update always succeeds:
    acceptance is exactly the stated list of checks, whatever the parent's depth *)
Theorem C18_accept_iff : forall h0 trust ops now seal h,
  let s := eth_run h0 trust ops in
  Good (h :: eth_accepted h0 trust ops) -> quiet (eth_init h0 trust) ops -> prune now s = Some s ->
  ((exists s', eth_update now seal h s = Some s') <->
   active now s = true /\ validate_basic h = true /\ h_rev h = h_rev (s_tip s) /\
   pget (key_of h) (s_idx s) = None /\
   exists p, pget (h_parent h, pred64 (h_num h)) (s_idx s) = Some p /\
     h_wf p = true /\ h_hash p = h_parent h /\
     h_time h <= now + 15 /\ h_time p < h_time h /\
     gas_limit_ok (h_gaslimit p) (h_gaslimit h) = true /\
     calc_base_fee p = Some (h_basefee h) /\
     calc_difficulty (h_time h) p = h_diff h /\
     seal = true).
Proof. exact eth_accept_iff_reachable. Qed.
Print Assumptions C18_accept_iff.

(** a valid child of any accepted header - a fork of any depth - is accepted *)
Theorem C18_fork_of_any_depth_accepted : forall h0 trust ops now seal h p,
  let s := eth_run h0 trust ops in
  let acc := eth_accepted h0 trust ops in
  Good (h :: acc) -> quiet (eth_init h0 trust) ops -> prune now s = Some s ->
  In p acc -> h_parent h = h_hash p -> h_num h = h_num p + 1 ->
  (forall x, In x acc -> h_hash x <> h_hash h) ->
  active now s = true -> validate_basic h = true -> h_rev h = h_rev (s_tip s) ->
  h_wf p = true -> h_time h <= now + 15 -> h_time p < h_time h ->
  gas_limit_ok (h_gaslimit p) (h_gaslimit h) = true ->
  calc_base_fee p = Some (h_basefee h) -> calc_difficulty (h_time h) p = h_diff h -> seal = true ->
  exists s', eth_update now seal h s = Some s'.
Proof. exact eth_fork_accepted. Qed.
Print Assumptions C18_fork_of_any_depth_accepted.

(** the gas-limit check is |parent - header| < parent / 1024 and header >= 5000 *)
Theorem C18_gas_limit_rule : forall pgl hgl,
  pgl < 9223372036854775808 -> hgl < 9223372036854775808 ->
  (gas_limit_ok pgl hgl = true <->
   (Z.abs (Z.of_N pgl - Z.of_N hgl) < Z.of_N (pgl / 1024))%Z /\ 5000 <= hgl).
Proof. exact gas_limit_ok_spec. Qed.
Print Assumptions C18_gas_limit_rule.

Theorem C18_difficulty_at_least_minimum : forall t p, (131072 <= calc_difficulty t p)%Z.
Proof. exact calc_difficulty_min. Qed.
Print Assumptions C18_difficulty_at_least_minimum.

Theorem C18_base_fee_nonnegative : forall p b,
  (0 <= h_basefee p)%Z -> calc_base_fee p = Some b -> (0 <= b)%Z.
Proof. exact calc_base_fee_nonneg. Qed.
Print Assumptions C18_base_fee_nonnegative.

(** EIP-1559: the prescribed base fee moves by at most an eighth of the parent's, stays
    when the parent used exactly its gas target, rises when it used more, never rises when less *)
Theorem C18_base_fee_rule : forall p b,
  (0 <= h_basefee p)%Z -> h_gasused p <= 2 * (h_gaslimit p / 2) -> calc_base_fee p = Some b ->
  (Z.abs (b - h_basefee p) <= Z.max (h_basefee p / 8) 1)%Z /\
  (h_gasused p = h_gaslimit p / 2 -> b = h_basefee p) /\
  (h_gaslimit p / 2 < h_gasused p -> (h_basefee p < b)%Z) /\
  (h_gasused p < h_gaslimit p / 2 -> (b <= h_basefee p)%Z).
Proof. exact calc_base_fee_bounded. Qed.
Print Assumptions C18_base_fee_rule.

(** soundness over all histories: every accepted header other than the initial one is a
    well-formed child of an accepted header - parent hash, height + 1, same revision number,
    later timestamp, EIP-1559 gas limit and base fee, prescribed difficulty *)
Theorem C18_accepted_are_valid_children : forall h0 trust ops,
  Good (eth_accepted h0 trust ops) ->
  forall x, In x (eth_accepted h0 trust ops) ->
    x = h0 \/ exists p, In p (eth_accepted h0 trust ops) /\ valid_child p x.
Proof. exact eth_accepted_valid_children. Qed.
Print Assumptions C18_accepted_are_valid_children.

(** a header the client already has is refused *)
Theorem C18_duplicate_refused : forall now seal h s x,
  pget (key_of h) (s_idx s) = Some x -> eth_update now seal h s = None.
Proof. exact eth_duplicate_refused. Qed.
Print Assumptions C18_duplicate_refused.

(** rejection changes nothing *)
Theorem C18_reject_unchanged : forall s o,
  eth_update (o_now o) (o_seal o) (o_hdr o) s = None -> eth_step s o = s.
Proof. exact eth_reject_unchanged. Qed.
Print Assumptions C18_reject_unchanged.

(** exact effect of an accepted update *)
Theorem C18_accept_effect : forall now seal h s s',
  eth_update now seal h s = Some s' ->
  s_tip s' = h /\ s_trust s' = s_trust s /\
  pget (key_of h) (s_idx s') = Some h /\
  pget (h_root h, h_num h) (s_rootmain s') = Some (key_of h) /\
  pget (h_rev h, h_num h) (s_main s') = Some (cons_of h).
Proof. exact eth_accept_effect. Qed.
Print Assumptions C18_accept_effect.

(** one chain: after ANY history (any order of submissions from competing branches, forks
    of any depth, pruning) every consensus state at a height up to the latest header's is
    the consensus state of the unique header at that height on the parent-linked chain of
    accepted headers that ends at the latest header *)
Theorem C18_single_chain : forall h0 trust ops,
  let s := eth_run h0 trust ops in
  let acc := eth_accepted h0 trust ops in
  Good acc ->
  forall r n c, n <= h_num (s_tip s) -> pget (r, n) (s_main s) = Some c ->
    exists x, linked acc (s_tip s) x /\ h_num x = n /\ c = cons_of x /\ In x acc /\
              (forall y, linked acc (s_tip s) y -> h_num y = n -> y = x).
Proof. exact eth_single_chain. Qed.
Print Assumptions C18_single_chain.

(** all consensus states carry the client's revision number (fix 81967eb) *)
Theorem C18_one_revision : forall h0 trust ops r n c,
  Good (eth_accepted h0 trust ops) ->
  pget (r, n) (s_main (eth_run h0 trust ops)) = Some c -> r = h_rev (s_tip (eth_run h0 trust ops)).
Proof. intros h0 trust ops r n c G. exact (i_main_rev _ _ (eth_inv_all h0 trust ops G) r n c). Qed.
Print Assumptions C18_one_revision.

(** known finding C18:equal-root-branches: without "distinct headers at one height have
    distinct state roots" the single-chain statement fails (witness: six updates) *)
Theorem C18_equal_root_refuted :
  exists h0 trust ops,
    let s := eth_run h0 trust ops in
    let acc := eth_accepted h0 trust ops in
    NoColl acc /\ (forall x, In x acc -> h_num x < two64 - 1) /\
    exists r n c, n <= h_num (s_tip s) /\ pget (r, n) (s_main s) = Some c /\
      forall x, linked acc (s_tip s) x -> h_num x = n -> c <> cons_of x.
Proof. exact eth_equal_root_refuted. Qed.
Print Assumptions C18_equal_root_refuted.

(** non-vacuity: a history with fork switches satisfying every premise, and an accepted
    valid child with refused single-field perturbations *)
Example C18_nonvacuous :
  Good (eth_accepted w_h0 1000000 v_ops) /\ quiet (eth_init w_h0 1000000) v_ops /\
  length (eth_accepted w_h0 1000000 v_ops) = 7%nat /\
  s_tip (eth_run w_h0 1000000 v_ops) = w_e2 /\
  map (fun n => pget (0, n) (s_main (eth_run w_h0 1000000 v_ops))) [9800000; 9800001; 9800002; 9800003] =
    [Some (cons_of w_h0); Some (cons_of w_a1); Some (cons_of w_e2); Some (cons_of w_b3)].
Proof. exact eth_single_chain_nonvacuous. Qed.

Example C18_accept_nonvacuous :
  let s := eth_run w_h0 1000000 [w_op w_b1] in
  let c := mk_child w_b1 20 14 21 2000 in
  (exists s', eth_update w_now true c s = Some s') /\
  eth_update w_now false c s = None /\
  eth_update (h_time c - 16) true c s = None /\
  eth_update w_now true (mk_child w_b1 20 0 21 2000) s = None /\
  eth_update w_now true w_b1 s = None /\
  eth_update w_now true (mk_child w_b2 22 14 23 2000) s = None.
Proof. exact eth_accept_nonvacuous. Qed.
