(** C05 across two chains, bridge (3) discharged -- statements only; proofs in
    Net/MtCrossBridge3.v.  Of the two "no unit is created" inequalities the
    forward one (credited on j + refunded on i <= sent by i) is now a theorem;
    the reverse one (released on i + refunded on j <= sent back by j) remains a
    named premise of the equation. *)
From Tibc Require Import Base.Bytes Base.FMap Host.Keys Host.KeysFacts Routing.Rules
  Packet.Types Packet.Keeper Packet.KeeperFacts Net.Net Net.Explained Net.NetInv
  Apps.Path Apps.Nft Apps.Mt Apps.MtFacts Apps.App Apps.AppFacts Harness.AppNet
  Net.AppNetSim Net.AppNetNoSelf Net.AppNetSumIneq
  Apps.MtHistory Apps.MtHistEscrow Apps.MtHistClass
  Net.MtCrossChain Net.MtCrossEq Net.MtCrossBridge Net.MtCrossBridge3.
From Tibc Require Import Properties.Example Properties.C05HistNet Properties.C05HistSum
  Properties.C05HistCross Properties.C05HistClosed.

(** which packet-layer operations log a commitment [ESend q]: the bare OSend of
    q, or a receive of q whose relay field names this chain (relay re-commit);
    any application *)
Theorem C05closed2_commitments_come_from :
  forall (A : Type) (H : bytes -> bytes) (has_route : bytes -> bool)
         (on_recv : A -> packet -> option (A * option bytes)) (on_ack : A -> packet -> bytes -> option A)
         (c : chain A) (o : op A) (c' : chain A) (ev : list event) (q : packet),
    exec A H has_route on_recv on_ack c o = Some (c', ev) -> In (ESend q) ev ->
    o = OSend q \/ exists pf h, o = ORecv q pf h /\ p_relay q = c_name A c.
Proof. exact exec_esend. Qed.
Print Assumptions C05closed2_commitments_come_from.

(** BRIDGE (3).  Premises:
    - no OSetApp; relayed packets relay-free with plain class paths
      ([anop_direct]); NA not empty (so that a relay-free receive never re-commits);
    - [anop_class_ok]: the class named in a MsgMtTransfer is a voucher class or '/'-free;
    - chain i exists, is named NA, its trace table satisfies TraceInv at the start;
    - [sends_roundtrip] = true: the boolean codec check along chain i's part of
      the history (data of MT sends, if they decode, decode to what was sent;
      NFT sends and bare OSend do not decode as MT data -- the latter is "no raw
      send on the MT port").
    Conclusion: sent_sum NA NB (wd cl id) (log of i) <= SA. *)
Theorem C05closed2_sends_accounted :
  forall (nft_escrow mt_escrow NA NB cl id : bytes),
    NA <> [] -> noslash cl ->
    forall (n0 : anet) (ops : list anop) (i : nat) (ci0 : chain app_state),
      Forall anop_noset ops -> Forall (anop_direct NA NB) ops -> Forall anop_class_ok ops ->
      nth_error n0 i = Some ci0 -> c_name app_state ci0 = NA ->
      TraceInv idHh (a_mt (c_app app_state ci0)) ->
      sends_roundtrip nft_escrow mt_escrow ci0 (proj nft_escrow mt_escrow i n0 ops) = true ->
      sends_accounted nft_escrow mt_escrow NA NB cl id n0 ops i.
Proof. exact sends_accounted_thm. Qed.
Print Assumptions C05closed2_sends_accounted.

(** THE TWO-CHAIN EQUATION, forward direction fully discharged:
      locked on i = vouchers on j + in flight i->j + in flight j->i,
      vouchers on j <= locked on i <= 2^64-1. *)
Theorem C05closed2_cross_chain_equation :
  forall (nft_escrow mt_escrow NA NB cl id : bytes) (n0 : anet) (ops : list anop) (i j : nat)
         (ci0 cj0 ci cj : chain app_state),
    NA <> [] -> noslash NA -> noslash NB -> noslash cl ->
    hist_ok n0 ops -> Forall anop_noset ops -> Forall (anop_direct NA NB) ops -> Forall anop_class_ok ops ->
    nth_error n0 i = Some ci0 -> nth_error n0 j = Some cj0 ->
    c_name app_state ci0 = NA -> c_name app_state cj0 = NB ->
    MtInv (a_mt (c_app app_state ci0)) -> MtInv (a_mt (c_app app_state cj0)) ->
    TraceInv idHh (a_mt (c_app app_state ci0)) ->
    sends_roundtrip nft_escrow mt_escrow ci0 (proj nft_escrow mt_escrow i n0 ops) = true ->
    nth_error (anrun nft_escrow mt_escrow n0 ops) i = Some ci ->
    nth_error (anrun nft_escrow mt_escrow n0 ops) j = Some cj ->
    bal_of (a_mt (c_app app_state ci0)) mt_escrow cl id = 0 ->
    supply_of (a_mt (c_app app_state cj0)) (voucher_of NA NB cl) id = 0 ->
    Forall (act_clean mt_escrow) (nacts nft_escrow mt_escrow i n0 ops) ->
    sumf (user_minted (voucher_of NA NB cl) id) (nacts nft_escrow mt_escrow j n0 ops) = 0 ->
    sumf (user_burned (voucher_of NA NB cl) id) (nacts nft_escrow mt_escrow j n0 ops) = 0 ->
    RB nft_escrow mt_escrow n0 ops i cl id + RM nft_escrow mt_escrow n0 ops j (voucher_of NA NB cl) id
      <= BB nft_escrow mt_escrow n0 ops j (voucher_of NA NB cl) id ->
    let v := voucher_of NA NB cl in
    bal_of (a_mt (c_app app_state ci)) mt_escrow cl id
      = supply_of (a_mt (c_app app_state cj)) v id
        + in_flight_ij nft_escrow mt_escrow n0 ops i j cl v id
        + in_flight_ji nft_escrow mt_escrow n0 ops i j cl v id /\
    in_flight_ij nft_escrow mt_escrow n0 ops i j cl v id
      + (MR nft_escrow mt_escrow n0 ops j v id + RA nft_escrow mt_escrow n0 ops i cl id)
      = SA nft_escrow mt_escrow n0 ops i cl id /\
    in_flight_ji nft_escrow mt_escrow n0 ops i j cl v id
      + (RB nft_escrow mt_escrow n0 ops i cl id + RM nft_escrow mt_escrow n0 ops j v id)
      = BB nft_escrow mt_escrow n0 ops j v id /\
    supply_of (a_mt (c_app app_state cj)) v id <= bal_of (a_mt (c_app app_state ci)) mt_escrow cl id /\
    bal_of (a_mt (c_app app_state ci)) mt_escrow cl id <= u64max.
Proof. exact closed2_cross_chain_equation. Qed.
Print Assumptions C05closed2_cross_chain_equation.

(** * non-vacuity: the history [x_cross] meets the new premises (the boolean
    codec check evaluates to true on both chains; the voucher class sent back
    from B has the "tibc-" prefix, the class sent from A is '/'-free) *)
Example C05closed2_nonvacuous :
  nameA <> [] /\
  Forall anop_class_ok x_cross /\
  TraceInv idHh (a_mt (c_app app_state (mk_achain nameA))) /\
  sends_roundtrip x_nesc x_mesc (mk_achain nameA) (proj x_nesc x_mesc 0 x_n0 x_cross) = true /\
  sends_roundtrip x_nesc x_mesc (mk_achain nameB) (proj x_nesc x_mesc 1 x_n0 x_cross) = true.
Proof.
  split; [discriminate|].
  split.
  { repeat (apply Forall_cons || apply Forall_nil); cbn [anop_class_ok]; try exact Logic.I.
    - right. intros X. vm_compute in X. repeat (destruct X as [X|X]; [discriminate X|]). exact X.
    - right. intros X. vm_compute in X. repeat (destruct X as [X|X]; [discriminate X|]). exact X.
    - left. vm_compute. reflexivity. }
  split; [apply TraceInv_init|].
  split; vm_compute; reflexivity.
Qed.

(** the check rejects a bare OSend of MT packet data ("no raw send on the MT port") *)
Example C05closed2_raw_send_rejected :
  sends_roundtrip x_nesc x_mesc (mk_achain nameA)
    (proj x_nesc x_mesc 0 x_n0
       [ANet (NCreate 0 1 100 2 90 1000); ANet (NChain 0 100 (OSend x_pkt))]) = false.
Proof. vm_compute. reflexivity. Qed.
