(** C04 single holder across two chains -- what is proved and what is refuted.
    Statements only; proofs in Net/NftSingleHolder.v (+ NftSingleHolder2.v).

    REFUTED without the premise "no user issues a class containing '/'" (known
    finding D4): [C04_single_holder_slash_refuted].
    PROVED: (c) the class-path construction is injective on '/'-free parts;
    (b) the trace-store invariant; and the exact form of voucher creation
    ([C04_single_voucher_creation_exact], conditional on the path well-formedness
    of the sending chain, see there).
    NOT PROVED: the closed invariant "(v,id) user-held on J implies (cl,id) owned
    by the escrow account on I" -- it needs a location invariant over in-flight
    packets (sent / credited / refunded per key) on top of these facts. *)
From Tibc Require Import Base.Bytes Base.FMap Host.Keys Host.KeysFacts Routing.Rules Packet.Types Packet.Keeper
  Net.Net Net.NetInv Apps.Path Apps.PathFacts Apps.Nft Apps.NftFacts Apps.Mt Apps.App Harness.AppNet
  Net.AppNetSim Net.AppNetNoSelf Apps.NftHistory Apps.NftHistoryThm Apps.NftEscrow
  Net.NftCrossChain Net.NftCrossChain2 Net.NftSingleHolder Net.NftSingleHolder2.
From Tibc Require Import Properties.Example Properties.C05HistNet Properties.C05HistSum Properties.C04HistCross.

(** REFUTED (finding D4).  Chain A has the native class "kitty" (token tom, held
    by alice) and -- issued by mallory, accepted by the NFT module because denom
    ids may contain '/' -- the native class "nft/chain-aaaa/kitty" (token tom).
    Mallory sends the latter to bob on B: B extends the path to
    "nft/chain-aaaa/chain-bbbb/kitty" and mints the voucher
    "tibc-nft/chain-aaaa/chain-bbbb/kitty"/tom -- exactly the voucher class of
    A's native "kitty".  Now (v, tom) is user-held on B while (kitty, tom) is
    user-held on A (not escrowed): two user holders. *)
Definition z_alice := of_string "cosmos1alice".
Definition z_bob := of_string "cosmos1bob".
Definition z_mallory := of_string "cosmos1mallory".
Definition z_kitty := of_string "kitty".
Definition z_slashy := of_string "nft/chain-aaaa/kitty".
Definition z_tom := of_string "tom".
Definition z_uri := of_string "uri".
Definition z_pkt := mkPacket 1 nameA nameB [] NFT_PORT (enc_nft (mkNftData z_slashy z_tom z_uri z_mallory z_bob true [])).
Definition z_hist : list anop :=
  [ ANet (NCreate 0 1 100 2 90 1000); ANet (NCreate 1 0 100 2 90 1000);
    AUser 0 100 (UNftIssue z_kitty z_alice); AUser 0 100 (UNftMint z_kitty z_tom z_uri z_alice z_alice);
    AUser 0 100 (UNftIssue z_slashy z_mallory); AUser 0 100 (UNftMint z_slashy z_tom z_uri z_mallory z_mallory);
    AUser 0 100 (UNftSend z_slashy z_tom z_mallory z_bob nameB [] []);
    ANet (NUpd 1 0 110 5 105); ANet (NChain 1 120 (ORecv z_pkt x_pf 5)) ].

Example C04_single_holder_slash_refuted :
  let v := voucher_class idHh (away_new_class_path NFT_PFX nameA nameB z_kitty) in
  hist_ok x_n0 z_hist /\ Forall no_raw_nft_send z_hist /\
  match anrun x_nesc x_mesc x_n0 z_hist with
  | [cA; cB] =>
      owner_of (nft_of cB) v z_tom = Some z_bob /\          (* voucher of kitty/tom user-held on B *)
      owner_of (nft_of cA) z_kitty z_tom = Some z_alice      (* kitty/tom user-held on A, not escrowed *)
  | _ => False
  end.
Proof.
  split; [|split].
  - split; [exact x_n0_init|]. split; [exact x_names_nodup|].
    split; [repeat constructor; cbn; unfold wfp; cbn; try exact I; reflexivity|repeat constructor].
  - repeat constructor.
  - vm_compute. split; reflexivity.
Qed.
Print Assumptions C04_single_holder_slash_refuted.

(** (c) PATH INJECTIVITY.  For '/'-free chain names and classes, two native
    classes get the same voucher class on the destination only if source chain,
    destination chain and class agree ... *)
Theorem C04_single_voucher_native_inj :
  forall s1 d1 c1 s2 d2 c2 : bytes,
    noslash s1 -> noslash d1 -> noslash c1 -> noslash s2 -> noslash d2 -> noslash c2 ->
    voucher_class idHh (away_new_class_path NFT_PFX s1 d1 c1) =
    voucher_class idHh (away_new_class_path NFT_PFX s2 d2 c2) ->
    s1 = s2 /\ d1 = d2 /\ c1 = c2.
Proof. exact voucher_native_inj. Qed.
Print Assumptions C04_single_voucher_native_inj.

(** ... and a native class never shares its voucher class with a voucher path
    "nft/c1/.../ck/b" of at least two chains (k >= 2).  (With k = 1 it does:
    that is the refutation above.) *)
Theorem C04_single_voucher_native_vs_path :
  forall (s1 d1 c1 s2 d2 : bytes) (p : list bytes) (b : bytes),
    noslash s1 -> noslash d1 -> noslash c1 -> noslash d2 -> all_noslash p -> noslash b ->
    (2 <= length p)%nat ->
    voucher_class idHh (away_new_class_path NFT_PFX s1 d1 c1) =
    voucher_class idHh (away_new_class_path NFT_PFX s2 d2 (full NFT_PFX p b)) -> False.
Proof. exact voucher_native_vs_path. Qed.
Print Assumptions C04_single_voucher_native_vs_path.

(** (b) TRACE-STORE INVARIANT.  In every state reached by a history without
    [OSetApp] from a state satisfying it (the initial state does), every entry of
    the class-trace store maps the hash of the full class path of some away-path
    (source, destination, class of a received packet) to that full class path:
    entries stem from away-receives only. *)
Theorem C04_single_trace_invariant :
  forall (Hh H : bytes -> bytes) (valid_addr : bytes -> bool) (nft_escrow mt_escrow : bytes)
         (enc_nft : nft_data -> bytes) (dec_nft : bytes -> option nft_data)
         (enc_mt : mt_data -> bytes) (dec_mt : bytes -> option mt_data)
         (hs : list hop) (c : chain app_state),
    Forall not_setapp hs -> TInv Hh (nft_of c) ->
    TInv Hh (nft_of (hrun Hh H valid_addr nft_escrow mt_escrow enc_nft dec_nft enc_mt dec_mt c hs)).
Proof. exact hrun_TInv. Qed.
Print Assumptions C04_single_trace_invariant.

Theorem C04_single_trace_invariant_step :
  forall (Hh H : bytes -> bytes) (valid_addr : bytes -> bool) (nft_escrow mt_escrow : bytes)
         (enc_nft : nft_data -> bytes) (dec_nft : bytes -> option nft_data)
         (enc_mt : mt_data -> bytes) (dec_mt : bytes -> option mt_data)
         (c : chain app_state) (h : hop) (c' : chain app_state) (ev : list event),
    hexec Hh H valid_addr nft_escrow mt_escrow enc_nft dec_nft enc_mt dec_mt c h = Some (c', ev) ->
    not_setapp h -> TInv Hh (nft_of c) -> TInv Hh (nft_of c').
Proof. exact step_TInv. Qed.
Print Assumptions C04_single_trace_invariant_step.

(** the paths behind trace entries always contain '/' *)
Theorem C04_single_away_path_has_slash :
  forall src dst c : bytes, In slash (away_new_class_path NFT_PFX src dst c).
Proof. exact away_path_has_slash. Qed.
Print Assumptions C04_single_away_path_has_slash.

(** non-vacuity of (b): after the delivery of C04HistCross's credit history chain
    B's trace store has exactly the entry of the received path *)
Example C04_single_trace_invariant_nonvacuous :
  match anrun x_nesc x_mesc x_n0 z_hist with
  | [cA; cB] => ns_traces (nft_of cB) =
                  [(of_string "nft/chain-aaaa/chain-bbbb/kitty", of_string "nft/chain-aaaa/chain-bbbb/kitty")] /\
                ns_traces (nft_of cA) = []
  | _ => False
  end.
Proof. vm_compute. split; reflexivity. Qed.
Print Assumptions C04_single_trace_invariant_nonvacuous.

(** EXACT VOUCHER CREATION (conditional).  In an application-network history, a
    step of the chain named nJ that creates the voucher (v, id), where v is the
    voucher class on nJ of the '/'-free native class cl of the chain named nI, is a
    receive of a packet p (or the refund of a back-send of nJ itself), and if p is
    relay-free it is backed by a [UNftSend] of EXACTLY (cl, id) towards nJ on the
    chain named nI, which found (cl, id) owned by the sender and left it owned by
    the escrow account.  Premises beyond C04HistCross:
    - [sends_roundtrip]: the harness decoder inverts the encoder on the data of
      the NFT sends of this history (fails only for fields of 2^64 bytes or more);
    - all chain names '/'-free (packet validation enforces it for names in packets);
    - [paths_wf] in every reached state: the class path of every existing class
      is the '/'-free class itself or a voucher path "nft/c1/../ck/b" with k >= 2
      and '/'-free parts.  THIS IS THE PREMISE "no user-issued class contains '/'"
      (finding D4) in the form the proof uses; it is assumed, not derived from the
      user operations (the derivation needs the trace invariant above plus the
      same fact about incoming packets, a network-wide induction not done here).
      Without it: C04_single_holder_slash_refuted. *)
Theorem C04_single_voucher_creation_exact :
  forall (nft_escrow mt_escrow : bytes) (n0 : anet) (ops pre : list anop) (o : anop) (post : list anop)
         (j : nat) (cj : chain app_state) (now : N) (h : hop) (c' : chain app_state) (ev : list event)
         (nI nJ cl id : bytes),
    hist_ok n0 ops -> Forall no_raw_nft_send ops -> sends_roundtrip nft_escrow mt_escrow n0 ops ->
    (forall a k ck, nth_error (anrun nft_escrow mt_escrow n0 a) k = Some ck -> noslash (c_name app_state ck)) ->
    (forall a k ck, nth_error (anrun nft_escrow mt_escrow n0 a) k = Some ck -> paths_wf (nft_of ck)) ->
    noslash nI -> noslash cl -> c_name app_state cj = nJ ->
    step_at nft_escrow mt_escrow n0 ops pre o post j cj now h c' ev -> not_setapp h ->
    no_escrow_sig nft_escrow h -> VInv nft_escrow (nft_of cj) ->
    let v := voucher_class idHh (away_new_class_path NFT_PFX nI nJ cl) in
    is_voucher v = true ->
    token_at (nft_of cj) v id = None -> token_at (nft_of c') v id <> None ->
    (exists p pf hh, h = HOp (ORecv p pf hh) /\
       (p_relay p = [] ->
        exists k pre1 post1 now1 sender receiver relay contract ck ck' q uri,
          step_at nft_escrow mt_escrow n0 ops pre1
                  (AUser k now1 (UNftSend cl id sender receiver nJ relay contract)) post1
                  k ck now1 (HUser (UNftSend cl id sender receiver nJ relay contract)) ck' [ESend q] /\
          c_name app_state ck = nI /\ p_src p = nI /\ p_data q = p_data p /\ p_seq q = p_seq p /\
          token_at (nft_of (with_now app_state ck now1)) cl id = Some (sender, uri) /\
          token_at (nft_of ck') cl id = Some (nft_escrow, uri))) \/
    (exists owner uri, is_refund_back idHh dec_nft h ev v id owner uri).
Proof. exact voucher_creation_exact. Qed.
Print Assumptions C04_single_voucher_creation_exact.

(** instances of the premises on the credit history of C04HistCross.v: the codec
    equation of [sends_roundtrip] for its send (state of A just before the send),
    and [paths_wf] of the initial state *)
Example C04_single_premises_nonvacuous :
  match nth_error (anrun x_nesc x_mesc x_n0 (firstn 4 y_credit)) 0 with
  | Some cA => dec_nft (p_data y_pkt) = send_record (with_now app_state cA 100) y_kitty y_tom y_alice y_bob nameB []
  | None => False
  end /\
  paths_wf (nft_of (mk_achain nameA)) /\ noslash nameA /\ noslash nameB /\ noslash y_kitty.
Proof.
  split; [vm_compute; reflexivity|]. split.
  - intros class fp HC. discriminate HC.
  - repeat split; intros X; vm_compute in X; repeat (destruct X as [X|X]; [discriminate X|]); exact X.
Qed.
Print Assumptions C04_single_premises_nonvacuous.
