(** C05 over histories -- the per-chain half of "multi-token transfers conserve
    supply across chains".

    A HISTORY of one chain is a list of hops: packet-layer operations of any
    kind (send, receive, acknowledge, clean, client create/update, rules, time)
    executed through the model's [exec] with the application callbacks of
    Apps/App.v, and user transactions of the token modules ([user_exec]).  Every
    hop is a transaction (a failed hop changes nothing).  The only operation
    excluded is [OSetApp], which overwrites the application state with an
    arbitrary value and does not exist in the implementation ([hop_ok]).

    The LOG of a history ([hlog]) is the list of its successful hops, each with
    the packet events it emitted.  From each log entry [act_of] reads off what
    the MT transfer module did (looking at the hop and at the events only):
      ASendAway  -- a user send whose packet says "away from origin": lock
      ASendBack  -- a user send whose packet says "back": burn the voucher
      ARecvAway / ARecvBack -- a receive on the MT port that logged EDeliver and
                    wrote the success acknowledgement: mint voucher / release
      ARefundAway / ARefundBack -- an acknowledgement on the MT port that logged
                    EAppAck with an error acknowledgement: release / mint again
      AUMint / AUMove / AUBurn -- MsgMintMT, MsgTransferMT, MsgBurnMT.
    The ghost sums below ([sent_away] ...) add up the amounts of these acts, per
    (class, id), as natural numbers.

    Everything holds for arbitrary hash functions [Hh], [H], arbitrary address
    validation, arbitrary escrow addresses and arbitrary packet-data codecs with
    [dec_mt (enc_mt x) = Some x] (needed because the direction of a send is read
    from the packet in the log). *)
From Tibc Require Import Base.Bytes Base.FMap Host.Keys Routing.Rules Packet.Types Packet.Keeper Packet.KeeperFacts
  Apps.Path Apps.Nft Apps.Mt Apps.MtFacts Apps.App Apps.AppFacts Harness.AppNet
  Apps.MtHistory Apps.MtHistEscrow Apps.MtHistLinks Apps.MtHistClass Apps.MtHistExample.

(** 1. The ledger invariant (for every (class, id): the holder map has no
    duplicates, the sum of all balances equals the supply, the supply is at
    most 2^64-1) holds after every history that starts in a state satisfying
    it (e.g. the initial chain).  Premises: no OSetApp; codec round trip. *)
Theorem C05H_invariant_after_every_history :
  forall (Hh H : bytes -> bytes) (valid_addr : bytes -> bool) (nft_escrow mt_escrow : bytes)
         (enc_nft : nft_data -> bytes) (dec_nft : bytes -> option nft_data)
         (enc_mt : mt_data -> bytes) (dec_mt : bytes -> option mt_data),
    (forall x, dec_mt (enc_mt x) = Some x) ->
    forall (c : chain app_state) (hs : list hop),
      Forall hop_ok hs -> AppInv (c_app app_state c) ->
      AppInv (c_app app_state (hrun Hh H valid_addr nft_escrow mt_escrow enc_nft dec_nft enc_mt dec_mt c hs)).
Proof. exact hist_inv. Qed.
Print Assumptions C05H_invariant_after_every_history.

(** 2. General form: the ledger after a history is the ledger before it plus
    the keeper moves of the log -- for EVERY account o and every (class, id):
      balance after + units that left o = balance before + units that reached o
      supply after + units burned = supply before + units minted
    as equations between natural numbers (nothing wraps). *)
Theorem C05H_ledger_is_start_plus_moves :
  forall (Hh H : bytes -> bytes) (valid_addr : bytes -> bool) (nft_escrow mt_escrow : bytes)
         (enc_nft : nft_data -> bytes) (dec_nft : bytes -> option nft_data)
         (enc_mt : mt_data -> bytes) (dec_mt : bytes -> option mt_data),
    (forall x, dec_mt (enc_mt x) = Some x) ->
    forall (c : chain app_state) (hs : list hop),
      Forall hop_ok hs -> MtInv (a_mt (c_app app_state c)) ->
      let c' := hrun Hh H valid_addr nft_escrow mt_escrow enc_nft dec_nft enc_mt dec_mt c hs in
      let ms := hmoves Hh H valid_addr nft_escrow mt_escrow enc_nft dec_nft enc_mt dec_mt c hs in
      MtInv (a_mt (c_app app_state c')) /\
      (forall o cl id,
         bal_of (a_mt (c_app app_state c')) o cl id + sumf (mv_out o cl id) ms
         = bal_of (a_mt (c_app app_state c)) o cl id + sumf (mv_in o cl id) ms) /\
      (forall cl id,
         supply_of (a_mt (c_app app_state c')) cl id + sumf (mv_sout cl id) ms
         = supply_of (a_mt (c_app app_state c)) cl id + sumf (mv_sin cl id) ms).
Proof. exact hist_ledger. Qed.
Print Assumptions C05H_ledger_is_start_plus_moves.

(** 3. ESCROW ACCOUNTING, true for every input.  For every (class, id):
      escrow balance after
        + refunded to senders of away-sends + released by successful back-receives
        + sends signed by the escrow address itself + user moves/burns by the escrow address
      = escrow balance before
        + locked by this chain's away-sends
        + units of receives / refunds whose packet names the escrow address as receiver / sender
        + user mints / moves to the escrow address,
    and the escrow balance is at most 2^64-1.
    The two kinds of explicit terms cannot be dropped: see
    [C05H_escrow_party_terms_needed] and [C05H_escrow_user_terms_needed]. *)
Theorem C05H_escrow_accounting :
  forall (Hh H : bytes -> bytes) (valid_addr : bytes -> bool) (nft_escrow mt_escrow : bytes)
         (enc_nft : nft_data -> bytes) (dec_nft : bytes -> option nft_data)
         (enc_mt : mt_data -> bytes) (dec_mt : bytes -> option mt_data),
    (forall x, dec_mt (enc_mt x) = Some x) ->
    forall (c : chain app_state) (hs : list hop) (cl id : bytes),
      Forall hop_ok hs -> MtInv (a_mt (c_app app_state c)) ->
      let c' := hrun Hh H valid_addr nft_escrow mt_escrow enc_nft dec_nft enc_mt dec_mt c hs in
      let A := hacts Hh H valid_addr nft_escrow mt_escrow enc_nft dec_nft enc_mt dec_mt c hs in
      bal_of (a_mt (c_app app_state c')) mt_escrow cl id
        + sumf (refunded_away cl id) A + sumf (released_back cl id) A
        + sumf (party_out mt_escrow cl id) A + sumf (user_out mt_escrow cl id) A
      = bal_of (a_mt (c_app app_state c)) mt_escrow cl id
        + sumf (sent_away cl id) A + sumf (party_in mt_escrow cl id) A + sumf (user_in mt_escrow cl id) A
      /\ bal_of (a_mt (c_app app_state c')) mt_escrow cl id <= u64max.
Proof. exact escrow_accounting. Qed.
Print Assumptions C05H_escrow_accounting.

(** 3'. When no act of the log names the escrow address as a party:
      escrow after + refunded + released = escrow before + sent away. *)
Theorem C05H_escrow_accounting_clean :
  forall (Hh H : bytes -> bytes) (valid_addr : bytes -> bool) (nft_escrow mt_escrow : bytes)
         (enc_nft : nft_data -> bytes) (dec_nft : bytes -> option nft_data)
         (enc_mt : mt_data -> bytes) (dec_mt : bytes -> option mt_data),
    (forall x, dec_mt (enc_mt x) = Some x) ->
    forall (c : chain app_state) (hs : list hop) (cl id : bytes),
      Forall hop_ok hs -> MtInv (a_mt (c_app app_state c)) ->
      Forall (act_clean mt_escrow) (hacts Hh H valid_addr nft_escrow mt_escrow enc_nft dec_nft enc_mt dec_mt c hs) ->
      let c' := hrun Hh H valid_addr nft_escrow mt_escrow enc_nft dec_nft enc_mt dec_mt c hs in
      let A := hacts Hh H valid_addr nft_escrow mt_escrow enc_nft dec_nft enc_mt dec_mt c hs in
      bal_of (a_mt (c_app app_state c')) mt_escrow cl id
        + sumf (refunded_away cl id) A + sumf (released_back cl id) A
      = bal_of (a_mt (c_app app_state c)) mt_escrow cl id + sumf (sent_away cl id) A.
Proof. exact escrow_accounting_clean. Qed.
Print Assumptions C05H_escrow_accounting_clean.

(** a premise on the hops (not on the log) that implies the previous one: no
    user transaction names the escrow address as sender / owner / recipient,
    no received MT packet names it as receiver, no acknowledged MT packet
    names it as sender *)
Theorem C05H_clean_hops_give_clean_acts :
  forall (Hh H : bytes -> bytes) (valid_addr : bytes -> bool) (nft_escrow mt_escrow : bytes)
         (enc_nft : nft_data -> bytes) (dec_nft : bytes -> option nft_data)
         (enc_mt : mt_data -> bytes) (dec_mt : bytes -> option mt_data)
         (c : chain app_state) (hs : list hop),
    Forall (hop_clean mt_escrow dec_mt) hs ->
    Forall (act_clean mt_escrow) (hacts Hh H valid_addr nft_escrow mt_escrow enc_nft dec_nft enc_mt dec_mt c hs).
Proof. exact hops_clean_acts. Qed.
Print Assumptions C05H_clean_hops_give_clean_acts.

(** 4. SUPPLY ACCOUNTING for every class, in particular every voucher class:
      supply after + burned by back-sends + burned by users (MsgBurnMT)
      = supply before + minted by successful away-receives
        + minted again by refunds of back-sends + minted by users (MsgMintMT),
    and the supply is at most 2^64-1.  (A holder may burn vouchers with
    MsgBurnMT, and whoever owns the denom -- the escrow address for a voucher
    class created by a receive -- may mint: both terms are kept explicit.) *)
Theorem C05H_supply_accounting :
  forall (Hh H : bytes -> bytes) (valid_addr : bytes -> bool) (nft_escrow mt_escrow : bytes)
         (enc_nft : nft_data -> bytes) (dec_nft : bytes -> option nft_data)
         (enc_mt : mt_data -> bytes) (dec_mt : bytes -> option mt_data),
    (forall x, dec_mt (enc_mt x) = Some x) ->
    forall (c : chain app_state) (hs : list hop) (cl id : bytes),
      Forall hop_ok hs -> MtInv (a_mt (c_app app_state c)) ->
      let c' := hrun Hh H valid_addr nft_escrow mt_escrow enc_nft dec_nft enc_mt dec_mt c hs in
      let A := hacts Hh H valid_addr nft_escrow mt_escrow enc_nft dec_nft enc_mt dec_mt c hs in
      supply_of (a_mt (c_app app_state c')) cl id + sumf (burned_back cl id) A + sumf (user_burned cl id) A
      = supply_of (a_mt (c_app app_state c)) cl id
        + sumf (minted_recv cl id) A + sumf (reminted_refund cl id) A + sumf (user_minted cl id) A
      /\ supply_of (a_mt (c_app app_state c')) cl id <= u64max.
Proof. exact supply_accounting. Qed.
Print Assumptions C05H_supply_accounting.

(** 5. In the words of the property, AT EVERY POINT n of every history of a
    chain that starts with nothing in escrow for (class, id) and whose log
    never names the escrow address as a party:
      units locked in escrow = units sent away - (units refunded + units returned),
    the subtraction does not go below zero and the result is at most 2^64-1. *)
Theorem C05H_locked_equals_sent_minus_refunded_minus_returned :
  forall (Hh H : bytes -> bytes) (valid_addr : bytes -> bool) (nft_escrow mt_escrow : bytes)
         (enc_nft : nft_data -> bytes) (dec_nft : bytes -> option nft_data)
         (enc_mt : mt_data -> bytes) (dec_mt : bytes -> option mt_data),
    (forall x, dec_mt (enc_mt x) = Some x) ->
    forall (c : chain app_state) (hs : list hop) (cl id : bytes) (n : nat),
      Forall hop_ok hs -> MtInv (a_mt (c_app app_state c)) ->
      bal_of (a_mt (c_app app_state c)) mt_escrow cl id = 0 ->
      Forall (act_clean mt_escrow) (hacts Hh H valid_addr nft_escrow mt_escrow enc_nft dec_nft enc_mt dec_mt c hs) ->
      let cn := hrun Hh H valid_addr nft_escrow mt_escrow enc_nft dec_nft enc_mt dec_mt c (firstn n hs) in
      let A := hacts Hh H valid_addr nft_escrow mt_escrow enc_nft dec_nft enc_mt dec_mt c (firstn n hs) in
      sumf (refunded_away cl id) A + sumf (released_back cl id) A <= sumf (sent_away cl id) A /\
      bal_of (a_mt (c_app app_state cn)) mt_escrow cl id
        = sumf (sent_away cl id) A - (sumf (refunded_away cl id) A + sumf (released_back cl id) A) /\
      bal_of (a_mt (c_app app_state cn)) mt_escrow cl id <= u64max.
Proof. exact escrow_locked_at_every_point_clean. Qed.
Print Assumptions C05H_locked_equals_sent_minus_refunded_minus_returned.

(** 5'. The same without the premise on parties, with the explicit terms. *)
Theorem C05H_locked_at_every_point_all_inputs :
  forall (Hh H : bytes -> bytes) (valid_addr : bytes -> bool) (nft_escrow mt_escrow : bytes)
         (enc_nft : nft_data -> bytes) (dec_nft : bytes -> option nft_data)
         (enc_mt : mt_data -> bytes) (dec_mt : bytes -> option mt_data),
    (forall x, dec_mt (enc_mt x) = Some x) ->
    forall (c : chain app_state) (hs : list hop) (cl id : bytes) (n : nat),
      Forall hop_ok hs -> MtInv (a_mt (c_app app_state c)) ->
      bal_of (a_mt (c_app app_state c)) mt_escrow cl id = 0 ->
      let cn := hrun Hh H valid_addr nft_escrow mt_escrow enc_nft dec_nft enc_mt dec_mt c (firstn n hs) in
      let A := hacts Hh H valid_addr nft_escrow mt_escrow enc_nft dec_nft enc_mt dec_mt c (firstn n hs) in
      let plus := sumf (sent_away cl id) A + sumf (party_in mt_escrow cl id) A + sumf (user_in mt_escrow cl id) A in
      let minus := sumf (refunded_away cl id) A + sumf (released_back cl id) A
                   + sumf (party_out mt_escrow cl id) A + sumf (user_out mt_escrow cl id) A in
      minus <= plus /\
      bal_of (a_mt (c_app app_state cn)) mt_escrow cl id = plus - minus /\
      plus - minus <= u64max.
Proof. exact escrow_locked_at_every_point. Qed.
Print Assumptions C05H_locked_at_every_point_all_inputs.

(** 6. Voucher units in existence, at every point n of every history of a chain
    where (class, id) has supply 0 initially:
      supply = received + minted again by refunds + user mints - (sent back + user burns). *)
Theorem C05H_vouchers_equal_received_minus_sent_back :
  forall (Hh H : bytes -> bytes) (valid_addr : bytes -> bool) (nft_escrow mt_escrow : bytes)
         (enc_nft : nft_data -> bytes) (dec_nft : bytes -> option nft_data)
         (enc_mt : mt_data -> bytes) (dec_mt : bytes -> option mt_data),
    (forall x, dec_mt (enc_mt x) = Some x) ->
    forall (c : chain app_state) (hs : list hop) (cl id : bytes) (n : nat),
      Forall hop_ok hs -> MtInv (a_mt (c_app app_state c)) ->
      supply_of (a_mt (c_app app_state c)) cl id = 0 ->
      let cn := hrun Hh H valid_addr nft_escrow mt_escrow enc_nft dec_nft enc_mt dec_mt c (firstn n hs) in
      let A := hacts Hh H valid_addr nft_escrow mt_escrow enc_nft dec_nft enc_mt dec_mt c (firstn n hs) in
      let plus := sumf (minted_recv cl id) A + sumf (reminted_refund cl id) A + sumf (user_minted cl id) A in
      let minus := sumf (burned_back cl id) A + sumf (user_burned cl id) A in
      minus <= plus /\
      supply_of (a_mt (c_app app_state cn)) cl id = plus - minus /\
      plus - minus <= u64max.
Proof. exact supply_at_every_point. Qed.
Print Assumptions C05H_vouchers_equal_received_minus_sent_back.

(** the ghost sums of a prefix never exceed those of the whole history *)
Theorem C05H_ghost_sums_grow :
  forall (Hh H : bytes -> bytes) (valid_addr : bytes -> bool) (nft_escrow mt_escrow : bytes)
         (enc_nft : nft_data -> bytes) (dec_nft : bytes -> option nft_data)
         (enc_mt : mt_data -> bytes) (dec_mt : bytes -> option mt_data)
         (f : act -> N) (c : chain app_state) (hs : list hop) (n : nat),
    sumf f (hacts Hh H valid_addr nft_escrow mt_escrow enc_nft dec_nft enc_mt dec_mt c (firstn n hs))
    <= sumf f (hacts Hh H valid_addr nft_escrow mt_escrow enc_nft dec_nft enc_mt dec_mt c hs).
Proof. exact ghost_sum_monotone. Qed.
Print Assumptions C05H_ghost_sums_grow.

(** 7. LINK TO THE PACKET LAYER.  (a) A successful user send emits exactly one
    ESend p; p is on the MT port from this chain to the named destination; its
    data decodes to d with the accounted amount, id, sender, receiver, the class
    path of the class the user named and the accounted direction; amount <= 2^64-1. *)
Theorem C05H_send_act_is_the_packet_sent :
  forall (Hh H : bytes -> bytes) (valid_addr : bytes -> bool) (nft_escrow mt_escrow : bytes)
         (enc_nft : nft_data -> bytes) (dec_nft : bytes -> option nft_data)
         (enc_mt : mt_data -> bytes) (dec_mt : bytes -> option mt_data),
    (forall x, dec_mt (enc_mt x) = Some x) ->
    forall (c : chain app_state) (cl id s r dest relay k : bytes) (amt : N) (c' : chain app_state) (ev : list event),
      MtInv (a_mt (c_app app_state c)) ->
      hexec Hh H valid_addr nft_escrow mt_escrow enc_nft dec_nft enc_mt dec_mt c
            (HUser (UMtSend cl id s r dest relay k amt)) = Some (c', ev) ->
      exists p d, ev = [ESend p] /\ dec_mt (p_data p) = Some d /\
        act_of Hh dec_mt (HUser (UMtSend cl id s r dest relay k amt), ev)
          = (if md_away d then ASendAway cl id amt s else ASendBack cl id amt s) /\
        md_id d = id /\ md_sender d = s /\ md_receiver d = r /\ md_amount d = amt /\
        mt_class_path_of (a_mt (c_app app_state c)) cl = Some (md_class d) /\
        determine_away MT_PFX (md_class d) dest = Some (md_away d) /\
        p_src p = c_name app_state c /\ p_dst p = dest /\ p_port p = MT_PORT /\
        amt <= u64max.
Proof. exact send_entry_packet. Qed.
Print Assumptions C05H_send_act_is_the_packet_sent.

(** (b) A receive is accounted only if the packet was delivered on this chain
    (EDeliver p), on the MT port, and the success acknowledgement was written
    (EWriteAck p ack_ok); the accounted class, id, amount, receiver are those
    of the packet data.  Conversely every such receive is accounted: by
    definition of [recv_act], see [recv_accounted] in Apps/MtHistLinks.v. *)
Theorem C05H_recv_act_is_a_delivered_packet :
  forall (Hh H : bytes -> bytes) (valid_addr : bytes -> bool) (nft_escrow mt_escrow : bytes)
         (enc_nft : nft_data -> bytes) (dec_nft : bytes -> option nft_data)
         (enc_mt : mt_data -> bytes) (dec_mt : bytes -> option mt_data)
         (c : chain app_state) (p : packet) (pf : proof) (h : N) (c' : chain app_state) (ev : list event),
    hexec Hh H valid_addr nft_escrow mt_escrow enc_nft dec_nft enc_mt dec_mt c (HOp (ORecv p pf h)) = Some (c', ev) ->
    recv_act Hh dec_mt p ev <> ANone ->
    p_dst p = c_name app_state c /\ p_port p = MT_PORT /\ In (EDeliver p) ev /\ In (EWriteAck p ack_ok) ev /\
    exists d, dec_mt (p_data p) = Some d /\
      recv_act Hh dec_mt p ev =
        if md_away d then ARecvAway (recv_voucher Hh p d) (md_id d) (md_amount d) (md_receiver d)
        else match back_new_class_path (md_class d) with
             | Some np => ARecvBack (voucher_class Hh np) (md_id d) (md_amount d) (md_receiver d)
             | None => ANone
             end.
Proof. exact recv_entry_packet. Qed.
Print Assumptions C05H_recv_act_is_a_delivered_packet.

(** (c) A refund is accounted only if this chain is the packet's source, the
    packet is on the MT port and the application processed an error
    acknowledgement for it (EAppAck p k). *)
Theorem C05H_refund_act_is_an_error_ack_processed :
  forall (Hh H : bytes -> bytes) (valid_addr : bytes -> bool) (nft_escrow mt_escrow : bytes)
         (enc_nft : nft_data -> bytes) (dec_nft : bytes -> option nft_data)
         (enc_mt : mt_data -> bytes) (dec_mt : bytes -> option mt_data)
         (c : chain app_state) (p : packet) (k : bytes) (pf : proof) (h : N) (c' : chain app_state) (ev : list event),
    hexec Hh H valid_addr nft_escrow mt_escrow enc_nft dec_nft enc_mt dec_mt c (HOp (OAck p k pf h)) = Some (c', ev) ->
    ack_act Hh dec_mt p k ev <> ANone ->
    p_src p = c_name app_state c /\ p_port p = MT_PORT /\ In (EAppAck p k) ev /\ is_err_ack k = true /\
    exists d, dec_mt (p_data p) = Some d /\
      ack_act Hh dec_mt p k ev =
        if md_away d then ARefundAway (voucher_class Hh (md_class d)) (md_id d) (md_amount d) (md_sender d)
        else ARefundBack (voucher_class Hh (md_class d)) (md_id d) (md_amount d) (md_sender d).
Proof. exact ack_entry_packet. Qed.
Print Assumptions C05H_refund_act_is_an_error_ack_processed.

(** for histories of packet-layer operations only, the flat event log of the
    history is the model's [run_log] and the final state is [run] *)
Theorem C05H_log_is_run_log :
  forall (Hh H : bytes -> bytes) (valid_addr : bytes -> bool) (nft_escrow mt_escrow : bytes)
         (enc_nft : nft_data -> bytes) (dec_nft : bytes -> option nft_data)
         (enc_mt : mt_data -> bytes) (dec_mt : bytes -> option mt_data)
         (c : chain app_state) (ops : list (op app_state)),
    hevents Hh H valid_addr nft_escrow mt_escrow enc_nft dec_nft enc_mt dec_mt c (map HOp ops)
    = run_log app_state H app_has_route
        (app_on_recv Hh valid_addr nft_escrow mt_escrow dec_nft dec_mt)
        (app_on_ack Hh valid_addr nft_escrow mt_escrow dec_nft dec_mt) c ops.
Proof. exact hevents_ops. Qed.
Print Assumptions C05H_log_is_run_log.

(** 8. THE REFUND OF A PACKET IS ACCOUNTED UNDER THE CLASS, ID, AMOUNT, SENDER
    AND DIRECTION OF ITS SEND.  [TraceInv]: every entry (h, path) of the trace
    table has h = Hh path and path = a ++ "/" ++ t with a non-empty and
    '/'-free.  It holds initially and after every history (entries are only
    added by away-receives, whose paths always have this shape, whatever the
    packet says). *)
Theorem C05H_trace_table_invariant :
  forall (Hh H : bytes -> bytes) (valid_addr : bytes -> bool) (nft_escrow mt_escrow : bytes)
         (enc_nft : nft_data -> bytes) (dec_nft : bytes -> option nft_data)
         (enc_mt : mt_data -> bytes) (dec_mt : bytes -> option mt_data)
         (c : chain app_state) (hs : list hop),
    Forall hop_ok hs -> TraceInv Hh (a_mt (c_app app_state c)) ->
    TraceInv Hh (a_mt (c_app app_state (hrun Hh H valid_addr nft_escrow mt_escrow enc_nft dec_nft enc_mt dec_mt c hs))).
Proof. exact hist_tr. Qed.
Print Assumptions C05H_trace_table_invariant.

Theorem C05H_trace_table_invariant_initial : forall Hh, TraceInv Hh (a_mt app_init).
Proof. exact TraceInv_init. Qed.
Print Assumptions C05H_trace_table_invariant_initial.

(** Premise [class_ok cl]: the class the user names is a voucher class
    ("tibc-" prefix) or contains no '/'.  Needed: see
    [C05H_class_with_slash_refund_stuck].  Conclusion: the send emitted exactly
    [ESend p]; whenever an error acknowledgement for this p is processed by the
    application (any later step that logs EAppAck, whatever proof / height), the
    step is accounted as the refund of exactly (cl, id, amt, sender), in the
    direction of the send. *)
Theorem C05H_refund_mirrors_send :
  forall (Hh H : bytes -> bytes) (valid_addr : bytes -> bool) (nft_escrow mt_escrow : bytes)
         (enc_nft : nft_data -> bytes) (dec_nft : bytes -> option nft_data)
         (enc_mt : mt_data -> bytes) (dec_mt : bytes -> option mt_data),
    (forall x, dec_mt (enc_mt x) = Some x) ->
    forall (c : chain app_state) (cl id s r dest relay k : bytes) (amt : N) (c' : chain app_state) (ev : list event),
      MtInv (a_mt (c_app app_state c)) -> TraceInv Hh (a_mt (c_app app_state c)) -> class_ok cl ->
      hexec Hh H valid_addr nft_escrow mt_escrow enc_nft dec_nft enc_mt dec_mt c
            (HUser (UMtSend cl id s r dest relay k amt)) = Some (c', ev) ->
      exists p d, ev = [ESend p] /\ p_port p = MT_PORT /\ p_src p = c_name app_state c /\
        dec_mt (p_data p) = Some d /\ md_amount d = amt /\
        act_of Hh dec_mt (HUser (UMtSend cl id s r dest relay k amt), ev)
          = (if md_away d then ASendAway cl id amt s else ASendBack cl id amt s) /\
        forall ack pf h ev',
          existsb is_appack ev' = true -> is_err_ack ack = true ->
          act_of Hh dec_mt (HOp (OAck p ack pf h), ev')
            = (if md_away d then ARefundAway cl id amt s else ARefundBack cl id amt s).
Proof. intros Hh H va ne me en dn em dm. exact (refund_mirrors_send Hh H va ne me en dn em dm). Qed.
Print Assumptions C05H_refund_mirrors_send.

(** * non-vacuity: every premise of the theorems above holds for a concrete
    history (codec [enc0]/[dec0] with a proved round trip) with two away sends
    (30 + 20), one refund (30), one back receive (15), one away receive (7
    vouchers), one back send (4) and its refund (4), a failed and a successful
    user move; the sums are the expected ones: 5 = 50 - 30 - 15 locked,
    7 = 7 + 4 - 4 vouchers *)
Example C05H_accounting_nonvacuous :
  let c := mk_achain nA in
  let hs := x_hist enc0 in
  let A := hacts idHh idH addr_ok nesc esc enc_nft dec_nft enc0 dec0 c hs in
  let st' := a_mt (c_app app_state (hrun idHh idH addr_ok nesc esc enc_nft dec_nft enc0 dec0 c hs)) in
  (forall x, dec0 (enc0 x) = Some x) /\ Forall hop_ok hs /\ MtInv (a_mt (c_app app_state c)) /\
  Forall (act_clean esc) A /\
  length A = 14%nat /\
  (bal_of st' esc cls tid, sumf (sent_away cls tid) A, sumf (refunded_away cls tid) A,
   sumf (released_back cls tid) A) = (5, 50, 30, 15) /\
  (supply_of st' vgold tid2, sumf (minted_recv vgold tid2) A, sumf (reminted_refund vgold tid2) A,
   sumf (burned_back vgold tid2) A) = (7, 7, 4, 4) /\
  (bal_of st' alice cls tid, bal_of st' bob cls tid, supply_of st' cls tid) = (90, 5, 100).
Proof.
  split; [exact dec0_enc0|]. split; [apply x_hist_ok|]. split; [apply MtInv_init|].
  split; [vm_compute; repeat constructor; discriminate|].
  vm_compute. repeat split.
Qed.

(** the same history with the packet-data codec of the correspondence harness *)
Example C05H_accounting_nonvacuous_harness_codec :
  let c := mk_achain nA in
  let hs := x_hist enc_mt in
  let A := hacts idHh idH addr_ok nesc esc enc_nft dec_nft enc_mt dec_mt c hs in
  let st' := a_mt (c_app app_state (hrun idHh idH addr_ok nesc esc enc_nft dec_nft enc_mt dec_mt c hs)) in
  (bal_of st' esc cls tid, sumf (sent_away cls tid) A, sumf (refunded_away cls tid) A,
   sumf (released_back cls tid) A) = (5, 50, 30, 15) /\
  (supply_of st' vgold tid2, sumf (minted_recv vgold tid2) A, sumf (reminted_refund vgold tid2) A,
   sumf (burned_back vgold tid2) A) = (7, 7, 4, 4).
Proof. vm_compute. repeat split. Qed.

(** * the explicit terms are needed *)

(** a relayed packet that names the escrow address itself as receiver of an
    away transfer leaves 7 voucher units in the escrow account although nothing
    was sent, refunded or released on this chain: the equation of
    [C05H_escrow_accounting_clean] fails (7 + 0 + 0 <> 0 + 0), the general one
    holds with [party_in] = 7 *)
Example C05H_escrow_party_terms_needed :
  let c := mk_achain nA in
  let hs := x_hist_party enc0 in
  let A := hacts idHh idH addr_ok nesc esc enc_nft dec_nft enc0 dec0 c hs in
  let st' := a_mt (c_app app_state (hrun idHh idH addr_ok nesc esc enc_nft dec_nft enc0 dec0 c hs)) in
  Forall hop_ok hs /\ MtInv (a_mt (c_app app_state c)) /\
  bal_of st' esc vgold tid2 + sumf (refunded_away vgold tid2) A + sumf (released_back vgold tid2) A
    <> bal_of (a_mt (c_app app_state c)) esc vgold tid2 + sumf (sent_away vgold tid2) A /\
  (bal_of st' esc vgold tid2, sumf (party_in esc vgold tid2) A, sumf (sent_away vgold tid2) A) = (7, 7, 0).
Proof.
  split; [repeat constructor|]. split; [apply MtInv_init|]. split; [vm_compute; discriminate|].
  vm_compute. reflexivity.
Qed.

(** a user moves 5 units to the escrow address with MsgTransferMT *)
Example C05H_escrow_user_terms_needed :
  let c := mk_achain nA in
  let hs := x_hist_donate in
  let A := hacts idHh idH addr_ok nesc esc enc_nft dec_nft enc0 dec0 c hs in
  let st' := a_mt (c_app app_state (hrun idHh idH addr_ok nesc esc enc_nft dec_nft enc0 dec0 c hs)) in
  Forall hop_ok hs /\ MtInv (a_mt (c_app app_state c)) /\
  bal_of st' esc cls tid + sumf (refunded_away cls tid) A + sumf (released_back cls tid) A
    <> bal_of (a_mt (c_app app_state c)) esc cls tid + sumf (sent_away cls tid) A /\
  (bal_of st' esc cls tid, sumf (user_in esc cls tid) A, sumf (sent_away cls tid) A) = (5, 5, 0).
Proof.
  split; [repeat constructor|]. split; [apply MtInv_init|]. split; [vm_compute; discriminate|].
  vm_compute. reflexivity.
Qed.

(** a native class named "a/b" (the model lets users choose denom names; '/' is
    not excluded): 30 units are locked under "a/b"; the error acknowledgement
    cannot be processed (the refund looks under "tibc-a/b", the transaction
    fails: only 4 of the 5 hops are in the log) and the units stay in escrow *)
Example C05H_class_with_slash_refund_stuck :
  let c := mk_achain nA in
  let hs := x_hist_slash enc0 in
  let l := hlog idHh idH addr_ok nesc esc enc_nft dec_nft enc0 dec0 c hs in
  let st' := a_mt (c_app app_state (hrun idHh idH addr_ok nesc esc enc_nft dec_nft enc0 dec0 c hs)) in
  Forall hop_ok hs /\ ~ class_ok cslash /\
  (length hs, length l, bal_of st' esc cslash tid, bal_of st' alice cslash tid,
   voucher_class idHh cslash) = (5%nat, 4%nat, 30, 70, of_string "tibc-a/b").
Proof.
  split; [repeat constructor|]. split.
  - intros [X|X]; [discriminate X|]. apply X. vm_compute. tauto.
  - vm_compute. reflexivity.
Qed.

(** WARNING for the cross-chain argument.  The packet-layer operation [OSend]
    is part of [op] and therefore of histories; it sends ANY packet, also one on
    the MT port whose data claim that 30 units were locked.  The ledger
    accounting above is unaffected (the step is accounted as ANone, the ledger
    does not move), but such a packet is in flight without escrow behind it.
    The implementation has no message for a bare SendPacket (only the
    applications call it), so cross-chain statements must exclude [OSend] on
    the token ports from histories. *)
Example C05H_raw_send_is_not_a_transfer :
  let c := mk_achain nA in
  let hs := x_hist_rawsend enc0 in
  let A := hacts idHh idH addr_ok nesc esc enc_nft dec_nft enc0 dec0 c hs in
  let st' := a_mt (c_app app_state (hrun idHh idH addr_ok nesc esc enc_nft dec_nft enc0 dec0 c hs)) in
  Forall hop_ok hs /\
  hevents idHh idH addr_ok nesc esc enc_nft dec_nft enc0 dec0 c hs = [ESend (p1 enc0)] /\
  (option_map md_amount (dec0 (p_data (p1 enc0))), A, bal_of st' esc cls tid) = (Some 30, [ANone; ANone], 0).
Proof. split; [repeat constructor|]. vm_compute. split; reflexivity. Qed.
