(** C10 — cleanup never discards live state and the clean point only moves forward. *)
From Tibc Require Import Base.Bytes Base.FMap Host.Keys Host.KeysFacts Routing.Rules
  Packet.Types Packet.Keeper Packet.KeeperFacts Packet.Invariants.
From Tibc Require Import Harness.Net Properties.Example.

(** on the source, a clean request for N is accepted iff N is above the clean
    point, not above the highest acknowledged sequence, no commitment (i.e. no
    unacknowledged packet) remains in [clean point, N], and the next hop is known *)
Theorem C10_clean_accept_iff :
  forall (A : Type) (c : chain A) (cp : cleanpkt),
    (exists c' ev, clean_packet A c cp = Some (c', ev)) <->
    clean_validate_basic cp = true /\
    clean_seq A c (c_name A c) (cp_dst cp) < cp_seq cp /\
    cp_seq cp <= max_ack A c (c_name A c) (cp_dst cp) /\
    (forall m, clean_seq A c (c_name A c) (cp_dst cp) <= m <= cp_seq cp ->
               commit_at A c (c_name A c) (cp_dst cp) m = None) /\
    has (if is_nil (cp_relay cp) then cp_dst cp else cp_relay cp) (c_clients A c) = true.
Proof. exact clean_accept_iff. Qed.
Print Assumptions C10_clean_accept_iff.

(** elsewhere a clean is accepted only with proof of the source's clean point
    against an active client, and under the same local conditions *)
Theorem C10_recv_clean_needs_proof :
  forall (A : Type) (c : chain A) (cp : cleanpkt) (pf : proof) (h : N) (c' : chain A) (ev : list event),
    recv_clean A c cp pf h = Some (c', ev) ->
    clean_validate_basic cp = true /\ validate_clean A c cp = true /\
    (exists from cl, lookup from (c_clients A c) = Some cl /\ client_active cl (c_now A c) = true /\
       from = (if beq (cp_dst cp) (c_name A c) && negb (is_nil (cp_relay cp)) then cp_relay cp else cp_src cp) /\
       verify cl from h pf (clean_key (cp_src cp) (cp_dst cp)) (be64 (cp_seq cp)) = true) /\
    (ev = [ECleanRecv cp] \/ ev = [ECleanRecv cp; ECleanSend cp]) /\
    c' = with_kv A c (set (clean_key (cp_src cp) (cp_dst cp)) (be64 (cp_seq cp))
                        (clean_acks_receipts (cp_src cp) (cp_dst cp) (cp_seq cp) (c_kv A c))).
Proof. exact recv_clean_inv. Qed.
Print Assumptions C10_recv_clean_needs_proof.

(** cleaning removes receipts and acknowledgements with clean < seq <= N, sets
    the clean point to N, and changes nothing else *)
Theorem C10_clean_effect_exact :
  forall (A : Type) (c : chain A) (cp : cleanpkt) (pf : proof) (h : N) (c' : chain A) (ev : list event),
    wfcp cp -> recv_clean A c cp pf h = Some (c', ev) ->
    let s := cp_src cp in let d := cp_dst cp in
    let cur := clean_seq A c s d in
    clean_seq A c' s d = cp_seq cp /\
    (forall m, cur < m <= cp_seq cp -> receipt_at A c' s d m = None /\ ack_at A c' s d m = None) /\
    (forall k, k <> clean_key s d ->
               (forall m, cur < m <= cp_seq cp -> k <> receipt_key s d m /\ k <> ack_key s d m) ->
               lookup k (c_kv A c') = lookup k (c_kv A c)).
Proof. exact recv_clean_effect. Qed.
Print Assumptions C10_clean_effect_exact.

(** the clean point of every pair never decreases, for every operation *)
Theorem C10_cleanpoint_monotone :
  forall (A : Type) (H : bytes -> bytes) (has_route : bytes -> bool)
         (on_recv : A -> packet -> option (A * option bytes))
         (on_ack : A -> packet -> bytes -> option A)
         (ops : list (op A)) (c : chain A) (s d : bytes),
    Forall op_wf ops ->
    clean_seq A c s d <= clean_seq A (run A H has_route on_recv on_ack c ops) s d.
Proof. intros A H hr orc oa ops. exact (run_clean_mono A H hr orc oa ops). Qed.
Print Assumptions C10_cleanpoint_monotone.

(** once the clean point reached N, every packet or acknowledgement with
    sequence <= N is refused in every later state *)
Theorem C10_refused_forever :
  forall (A : Type) (H : bytes -> bytes) (has_route : bytes -> bool)
         (on_recv : A -> packet -> option (A * option bytes))
         (on_ack : A -> packet -> bytes -> option A)
         (c : chain A) (ops : list (op A)) (p : packet) (pf : proof) (h : N) (a : bytes),
    Forall op_wf ops -> p_seq p <= clean_seq A c (p_src p) (p_dst p) ->
    msg_recv A H has_route on_recv (run A H has_route on_recv on_ack c ops) p pf h = None /\
    msg_ack A H has_route on_ack (run A H has_route on_recv on_ack c ops) p a pf h = None.
Proof. exact refused_forever. Qed.
Print Assumptions C10_refused_forever.

(** receipts are removed only by cleaning: a receipt persists until the clean
    point passes its sequence *)
Theorem C10_receipt_persists_until_cleaned :
  forall (A : Type) (H : bytes -> bytes) (has_route : bytes -> bool)
         (on_recv : A -> packet -> option (A * option bytes))
         (on_ack : A -> packet -> bytes -> option A)
         (c : chain A) (o : op A) (c' : chain A) (ev : list event) (s d : bytes) (n : N),
    op_wf o -> wfk s d n -> exec A H has_route on_recv on_ack c o = Some (c', ev) ->
    receipt_at A c s d n <> None ->
    receipt_at A c' s d n <> None \/ n <= clean_seq A c' s d.
Proof. exact exec_receipt_persist. Qed.
Print Assumptions C10_receipt_persists_until_cleaned.

(** non-vacuity: on chain A (xp1 sent and acknowledged) a clean to 1 is
    accepted and a second one is refused *)
Example C10_nonvacuous :
  let cA := mkChain unit nameA [(next_send_key nameA nameB, be64 2); (maxack_key nameA nameB, be64 1)]
                    [(nameB, clB0)] None 200 tt in
  let cp := mkClean 1 [] nameB [] in
  match clean_packet unit cA cp with
  | Some (c', _) => clean_seq unit c' nameA nameB = 1 /\ clean_packet unit c' cp = None
  | None => False
  end.
Proof. vm_compute. split; reflexivity. Qed.
