(** C11 — relay chains forward faithfully, enforce the whitelist, run no app logic. *)
From Tibc Require Import Base.Bytes Base.FMap Host.Keys Host.KeysFacts Routing.Rules
  Packet.Types Packet.Keeper Packet.KeeperFacts Packet.Invariants Packet.Complete Packet.Relay.
From Tibc Require Import Harness.Net Properties.Example.

(** re-commit unchanged for the destination if the whitelist allows
    (source, destination, port) and the destination is known ... *)
Theorem C11_relay_forwards_if_allowed :
  forall (A : Type) (H : bytes -> bytes) (has_route : bytes -> bool)
         (on_recv : A -> packet -> option (A * option bytes))
         (c : chain A) (p : packet) (pf : proof) (h : N),
    deliverable A H c p pf h -> p_relay p = c_name A c -> p_dst p <> c_name A c ->
    authenticate (c_rules A c) (p_src p) (p_dst p) (p_port p) = true ->
    has (p_dst p) (c_clients A c) = true ->
    exists c', msg_recv A H has_route on_recv c p pf h = Some (c', [ERecv p; ESend p]) /\
               commit_at A c' (p_src p) (p_dst p) (p_seq p) = Some (H (p_data p)) /\
               c_app A c' = c_app A c.
Proof. exact recv_complete_relay. Qed.
Print Assumptions C11_relay_forwards_if_allowed.

(** ... and only if *)
Theorem C11_relay_forwards_only_if_allowed :
  forall (A : Type) (H : bytes -> bytes) (has_route : bytes -> bool)
         (on_recv : A -> packet -> option (A * option bytes))
         (c : chain A) (p : packet) (pf : proof) (h : N) (c' : chain A) (ev : list event),
    msg_recv A H has_route on_recv c p pf h = Some (c', ev) -> In (ESend p) ev ->
    p_relay p = c_name A c /\
    authenticate (c_rules A c) (p_src p) (p_dst p) (p_port p) = true /\
    commit_at A c' (p_src p) (p_dst p) (p_seq p) = Some (H (p_data p)).
Proof. exact relay_forward_only_if. Qed.
Print Assumptions C11_relay_forwards_only_if_allowed.

(** a whitelist refusal records receipt + error acknowledgement (which then
    travels back to the source), writes no commitment (the destination never
    sees the packet) and runs no application logic *)
Theorem C11_relay_unauthorised_error_ack :
  forall (A : Type) (H : bytes -> bytes) (has_route : bytes -> bool)
         (on_recv : A -> packet -> option (A * option bytes))
         (c : chain A) (p : packet) (pf : proof) (h : N),
    deliverable A H c p pf h -> p_relay p = c_name A c -> p_dst p <> c_name A c ->
    authenticate (c_rules A c) (p_src p) (p_dst p) (p_port p) = false ->
    ack_at A c (p_src p) (p_dst p) (p_seq p) = None ->
    has (p_src p) (c_clients A c) = true ->
    exists c', msg_recv A H has_route on_recv c p pf h = Some (c', [ERecv p; EWriteAck p unauth_ack]) /\
               ack_at A c' (p_src p) (p_dst p) (p_seq p) = Some (H unauth_ack) /\
               receipt_at A c' (p_src p) (p_dst p) (p_seq p) = Some receipt_val /\
               commit_at A c' (p_src p) (p_dst p) (p_seq p) = commit_at A c (p_src p) (p_dst p) (p_seq p) /\
               c_app A c' = c_app A c.
Proof. exact relay_unauthorised_error_ack. Qed.
Print Assumptions C11_relay_unauthorised_error_ack.

(** KNOWN FINDING (D11): allowed but destination unknown -- the code fails the
    whole message instead of recording an error acknowledgement *)
Theorem C11_relay_unknown_dest_fails :
  forall (A : Type) (H : bytes -> bytes) (has_route : bytes -> bool)
         (on_recv : A -> packet -> option (A * option bytes))
         (c : chain A) (p : packet) (pf : proof) (h : N),
    p_relay p = c_name A c ->
    authenticate (c_rules A c) (p_src p) (p_dst p) (p_port p) = true ->
    has (p_dst p) (c_clients A c) = false ->
    msg_recv A H has_route on_recv c p pf h = None.
Proof. exact relay_unknown_dest_fails. Qed.
Print Assumptions C11_relay_unknown_dest_fails.

(** acknowledgements, success or error, pass back through the relay unchanged *)
Theorem C11_relay_ack_passthrough :
  forall (A : Type) (H : bytes -> bytes) (c : chain A) (p : packet) (a : bytes) (pf : proof) (h : N)
         (c' : chain A) (ev : list event),
    ack_packet A H c p a pf h = Some (c', ev) -> p_relay p = c_name A c ->
    ack_at A c' (p_src p) (p_dst p) (p_seq p) = Some (H a) /\ ev = [EAck p a; EWriteAck p a] /\
    exists from cl, lookup from (c_clients A c) = Some cl /\
       verify cl from h pf (ack_key (p_src p) (p_dst p) (p_seq p)) (H a) = true.
Proof. exact relay_ack_passthrough. Qed.
Print Assumptions C11_relay_ack_passthrough.

(** a chain never runs application logic for traffic passing through: any
    operation on a packet it neither finally receives nor originally sent
    leaves its application state unchanged *)
Theorem C11_transit_no_app_logic :
  forall (A : Type) (H : bytes -> bytes) (has_route : bytes -> bool)
         (on_recv : A -> packet -> option (A * option bytes))
         (on_ack : A -> packet -> bytes -> option A)
         (c : chain A) (o : op A) (c' : chain A) (ev : list event),
    exec A H has_route on_recv on_ack c o = Some (c', ev) ->
    (forall p pf h, o = ORecv p pf h -> p_dst p <> c_name A c) ->
    (forall p a pf h, o = OAck p a pf h -> p_src p <> c_name A c) ->
    (forall a, o <> OSetApp a) ->       (* OSetApp = the token modules' own user transactions *)
    c_app A c' = c_app A c.
Proof. exact transit_no_app_logic. Qed.
Print Assumptions C11_transit_no_app_logic.

(** a relayed transfer ends exactly like a direct one: the token modules never
    look at the relay field of a packet (receive and acknowledgement callbacks
    give the same state and the same acknowledgement for every value of it), and
    what a transfer takes from the sender's ledger does not depend on the relay
    chosen (the packets differ in the relay field only).  Together with
    C11_transit_no_app_logic (the relay chain runs no application logic) the
    token states of source and destination after send / recv@relay / recv@dest /
    ack@relay / ack@source equal those after send / recv@dest / ack@source, for
    success and error outcomes alike. *)
From Tibc Require Import Apps.Path Apps.Nft Apps.Mt Apps.App Apps.RelayInvisible.

Theorem C11_callbacks_ignore_relay :
  forall Hh valid_addr nft_escrow mt_escrow dec_nft dec_mt (a : app_state) (p : packet) (r ack : bytes),
    app_on_recv Hh valid_addr nft_escrow mt_escrow dec_nft dec_mt a (set_relay p r) =
    app_on_recv Hh valid_addr nft_escrow mt_escrow dec_nft dec_mt a p /\
    app_on_ack Hh valid_addr nft_escrow mt_escrow dec_nft dec_mt a (set_relay p r) ack =
    app_on_ack Hh valid_addr nft_escrow mt_escrow dec_nft dec_mt a p ack.
Proof.
  intros. split; [apply on_recv_ignores_relay|apply on_ack_ignores_relay].
Qed.
Print Assumptions C11_callbacks_ignore_relay.

Theorem C11_send_effect_independent_of_relay :
  forall nft_escrow mt_escrow enc_nft enc_mt name seq class id sender receiver dest relay contract,
    (forall st,
      match nft_send nft_escrow enc_nft name seq st class id sender receiver dest relay contract,
            nft_send nft_escrow enc_nft name seq st class id sender receiver dest [] contract with
      | Some (st1, p1), Some (st2, p2) => st1 = st2 /\ p1 = set_relay p2 relay
      | None, None => True
      | _, _ => False
      end) /\
    (forall st amt,
      match mt_send mt_escrow enc_mt name seq st class id sender receiver dest relay contract amt,
            mt_send mt_escrow enc_mt name seq st class id sender receiver dest [] contract amt with
      | Some (st1, p1), Some (st2, p2) => st1 = st2 /\ p1 = set_relay p2 relay
      | None, None => True
      | _, _ => False
      end).
Proof.
  intros. split; intros; [apply nft_send_relay|apply mt_send_relay].
Qed.
Print Assumptions C11_send_effect_independent_of_relay.
