(** C08 -- state-proof verification is sound and complete for every client type.
    Statements only; the model is Clients/ProofGlue.v, the proofs are in Clients/ProofGlueFacts.v.

    The third-party verifiers (ics23, go-ethereum trie.VerifyProof, keccak, rlp, the protobuf/JSON decoders)
    are arguments of the model; every theorem that needs something about them carries the premise
    [tm_lib_ok] / [evm_lib_ok]: the verifier is sound and complete w.r.t. an abstract committed key-value
    map ([tlookup] / [mlookup]) and every proof object has an encoding.  [f] ranges over the three
    functions (packet commitment, acknowledgement, clean point). *)
From Tibc Require Import Base.Bytes Host.Keys Clients.ProofGlue Clients.ProofGlueFacts.

(** * Tendermint (07-tendermint + 23-commitment) *)

(** exact acceptance condition of the code: height not above latest, decodable proof, consensus state and
    processed time recorded at the proof height, (processed + delay) mod 2^64 <= now, two non-nil specs,
    non-empty prefix / root / value, and the proof is the two-step chain the ics23 library accepts for the
    URL-unescaped key path [prefix; protocol path] and the claimed value under the recorded root *)
Theorem C08_tm_accept_iff : forall P SP pkind_of calc vmem decode cl cons ptimes now h proof f s d n v,
  tm_verify P SP pkind_of calc vmem decode cl cons ptimes now h proof f s d n v = true <->
  height_le h (t_latest cl) /\
  exists bz ps root pt s0 s1 k1 k2,
    proof = Some bz /\ decode bz = Some ps /\
    hlookup cons h = Some (CGood root) /\ hlookup ptimes h = Some pt /\
    (pt + t_delay cl) mod two64 <= now /\
    t_specs cl = [Some s0; Some s1] /\ t_prefix cl <> [] /\ root <> [] /\ claimed f n v <> [] /\
    unescape (t_prefix cl) = Some k1 /\ unescape (proto_path f s d n) = Some k2 /\
    tm_proof_ok P SP pkind_of calc vmem s0 s1 root k1 k2 (claimed f n v) ps.
Proof. exact tm_verify_iff. Qed.
Print Assumptions C08_tm_accept_iff.

(** soundness: whatever proof is accepted, the committed state at the recorded root holds the value *)
Theorem C08_tm_sound : forall P SP pkind_of calc vmem decode tlookup,
  tm_lib_ok P SP pkind_of calc vmem decode tlookup ->
  forall cl cons ptimes now h proof f s d n v,
    tm_verify P SP pkind_of calc vmem decode cl cons ptimes now h proof f s d n v = true ->
    tm_holds SP tlookup cl cons ptimes now h f s d n v.
Proof. exact tm_sound_lib. Qed.
Print Assumptions C08_tm_sound.

(** completeness: whenever the conditions hold there is a proof that is accepted *)
Theorem C08_tm_complete : forall P SP pkind_of calc vmem decode tlookup,
  tm_lib_ok P SP pkind_of calc vmem decode tlookup ->
  forall cl cons ptimes now h f s d n v,
    tm_holds SP tlookup cl cons ptimes now h f s d n v ->
    exists bz, tm_verify P SP pkind_of calc vmem decode cl cons ptimes now h (Some bz) f s d n v = true.
Proof. exact tm_complete_lib. Qed.
Print Assumptions C08_tm_complete.

(** the property: for chain names / prefix without '%' and processed time + delay below 2^64, some proof
    verifies exactly when the committed state under the root recorded at the proof height maps the store
    prefix and the protocol path to the claimed value, the height is not above the latest height, and
    processed time + delay <= now *)
Theorem C08_tm_verifiable_iff_property : forall P SP pkind_of calc vmem decode tlookup,
  tm_lib_ok P SP pkind_of calc vmem decode tlookup ->
  forall cl cons ptimes now h f s d n v,
    nopercent (t_prefix cl) -> nopercent s -> nopercent d ->
    (forall pt, hlookup ptimes h = Some pt -> pt + t_delay cl < two64) ->
    ((exists bz, tm_verify P SP pkind_of calc vmem decode cl cons ptimes now h (Some bz) f s d n v = true) <->
     tm_property SP tlookup cl cons ptimes now h f s d n v).
Proof. exact tm_property_lib. Qed.
Print Assumptions C08_tm_verifiable_iff_property.

Theorem C08_tm_nil_proof_rejected : forall P SP pkind_of calc vmem decode cl cons ptimes now h f s d n v,
  tm_verify P SP pkind_of calc vmem decode cl cons ptimes now h None f s d n v = false.
Proof. exact tm_nil_proof_rejected. Qed.
Print Assumptions C08_tm_nil_proof_rejected.

(** known finding C08:tm-delay-overflow -- the guard on processed time + delay is necessary *)
Theorem C08_tm_delay_overflow_refuted :
  exists (P SP : Type) pkind_of calc vmem decode tlookup,
    tm_lib_ok P SP pkind_of calc vmem decode tlookup /\
    exists cl cons ptimes now h bz f s d n v,
      nopercent (t_prefix cl) /\ nopercent s /\ nopercent d /\ t_delay cl < two64 /\
      tm_verify P SP pkind_of calc vmem decode cl cons ptimes now h (Some bz) f s d n v = true /\
      ~ tm_property SP tlookup cl cons ptimes now h f s d n v.
Proof. exact tm_delay_overflow_refuted. Qed.
Print Assumptions C08_tm_delay_overflow_refuted.

(** known finding C08:tm-keypath-percent-unescape -- the guard on '%' is necessary *)
Theorem C08_tm_percent_refuted :
  exists (P SP : Type) pkind_of calc vmem decode tlookup,
    tm_lib_ok P SP pkind_of calc vmem decode tlookup /\
    exists cl cons ptimes now h bz f s d n v,
      (forall pt, hlookup ptimes h = Some pt -> pt + t_delay cl < two64) /\
      tm_verify P SP pkind_of calc vmem decode cl cons ptimes now h (Some bz) f s d n v = true /\
      ~ tm_property SP tlookup cl cons ptimes now h f s d n v.
Proof. exact tm_percent_refuted. Qed.
Print Assumptions C08_tm_percent_refuted.

(** * ETH (09-eth) and BSC (08-bsc): the same code, the block delay is BlockDelay resp. 2*len(Validators)/3+1 *)

(** exact acceptance condition of the code: height not above latest, decodable proof, consensus state recorded
    at the proof height, (latest.height - h.height) mod 2^64 >= delay blocks, and the proof object is what the
    libraries accept: address = contract, account proof against the recorded root at keccak(address) giving
    the rlp of (nonce, balance, storage root, code hash), exactly one storage entry whose key is the slot
    keccak(protocol path ++ pad32(104)), storage proof against the storage root at keccak(slot) giving an rlp
    string whose left-padded 32 bytes are the claimed value *)
Theorem C08_evm_accept_iff : forall NS mpt_verify keccak rlp_account rlp_dec decode cl cons h proof f s d n v,
  evm_verify NS mpt_verify keccak rlp_account rlp_dec decode cl cons h proof f s d n v = true <->
  height_le h (e_latest cl) /\
  exists bz pf root,
    proof = Some bz /\ decode bz = Some pf /\ hlookup cons h = Some (CGood root) /\
    evm_delay_ok (e_latest cl) h (e_delay cl) = true /\
    evm_proof_ok NS mpt_verify keccak rlp_account rlp_dec pf root (e_contract cl) (evm_claimed f n v) (slot_of keccak f s d n).
Proof. exact evm_verify_iff. Qed.
Print Assumptions C08_evm_accept_iff.

Theorem C08_evm_sound : forall NS mpt_verify keccak rlp_account rlp_dec decode mlookup,
  evm_lib_ok NS mpt_verify keccak rlp_account rlp_dec decode mlookup ->
  forall cl cons h proof f s d n v,
    evm_verify NS mpt_verify keccak rlp_account rlp_dec decode cl cons h proof f s d n v = true ->
    evm_holds keccak rlp_account rlp_dec mlookup cl cons h f s d n v.
Proof. exact evm_sound_lib. Qed.
Print Assumptions C08_evm_sound.

Theorem C08_evm_complete : forall NS mpt_verify keccak rlp_account rlp_dec decode mlookup,
  evm_lib_ok NS mpt_verify keccak rlp_account rlp_dec decode mlookup ->
  forall cl cons h f s d n v,
    evm_holds keccak rlp_account rlp_dec mlookup cl cons h f s d n v ->
    exists bz, evm_verify NS mpt_verify keccak rlp_account rlp_dec decode cl cons h (Some bz) f s d n v = true.
Proof. exact evm_complete_lib. Qed.
Print Assumptions C08_evm_complete.

(** the property for the ETH client: for a proof height of the client's revision, some proof verifies exactly
    when the state under the root recorded at the proof height holds the claimed 32-byte word in the contract's
    slot of the protocol path, the height is not above the latest height, and BlockDelay blocks have passed *)
Theorem C08_eth_verifiable_iff_property : forall NS mpt_verify keccak rlp_account rlp_dec decode mlookup,
  evm_lib_ok NS mpt_verify keccak rlp_account rlp_dec decode mlookup ->
  forall latest blockdelay contract cons h f s d n v,
    fst h = fst latest -> snd latest < two64 ->
    ((exists bz, evm_verify NS mpt_verify keccak rlp_account rlp_dec decode
                            (EvmClient latest blockdelay contract) cons h (Some bz) f s d n v = true) <->
     evm_property keccak rlp_account rlp_dec mlookup (EvmClient latest blockdelay contract) cons h f s d n v).
Proof. intros. apply evm_property_lib; assumption. Qed.
Print Assumptions C08_eth_verifiable_iff_property.

(** the property for the BSC client (after repair d0bf41f): the delay is 2*|validators|/3+1 blocks *)
Theorem C08_bsc_verifiable_iff_property : forall NS mpt_verify keccak rlp_account rlp_dec decode mlookup,
  evm_lib_ok NS mpt_verify keccak rlp_account rlp_dec decode mlookup ->
  forall latest nvalidators contract cons h f s d n v,
    fst h = fst latest -> snd latest < two64 ->
    ((exists bz, evm_verify NS mpt_verify keccak rlp_account rlp_dec decode
                            (EvmClient latest (bsc_delay_block nvalidators) contract) cons h (Some bz) f s d n v = true) <->
     evm_property keccak rlp_account rlp_dec mlookup (EvmClient latest (bsc_delay_block nvalidators) contract) cons h f s d n v).
Proof. intros. apply evm_property_lib; assumption. Qed.
Print Assumptions C08_bsc_verifiable_iff_property.

(** the clean point is compared as the 32-byte storage word of the sequence (after repair 8edde70; before it
    the 8-byte value could never equal a 32-byte word) *)
Theorem C08_evm_clean_word : forall n v,
  evm_claimed FClean n v = zeros 24 ++ be64 n /\ length (evm_claimed FClean n v) = 32%nat.
Proof. exact evm_claimed_clean. Qed.
Print Assumptions C08_evm_clean_word.

Theorem C08_evm_nil_proof_rejected : forall NS mpt_verify keccak rlp_account rlp_dec decode cl cons h f s d n v,
  evm_verify NS mpt_verify keccak rlp_account rlp_dec decode cl cons h None f s d n v = false.
Proof. exact evm_nil_proof_rejected. Qed.
Print Assumptions C08_evm_nil_proof_rejected.

(** known findings C08:eth-block-delay-cross-revision / C08:bsc-block-delay-cross-revision -- the guard on
    equal revision numbers is necessary *)
Theorem C08_evm_cross_revision_refuted :
  exists (NS : Type) mpt_verify keccak rlp_account rlp_dec decode mlookup,
    evm_lib_ok NS mpt_verify keccak rlp_account rlp_dec decode mlookup /\
    exists cl cons h bz f s d n v,
      snd (e_latest cl) < two64 /\
      evm_verify NS mpt_verify keccak rlp_account rlp_dec decode cl cons h (Some bz) f s d n v = true /\
      ~ evm_property keccak rlp_account rlp_dec mlookup cl cons h f s d n v.
Proof. exact evm_cross_revision_refuted. Qed.
Print Assumptions C08_evm_cross_revision_refuted.

(** non-vacuity: executable toy libraries satisfy the premises; with them the model accepts the valid
    scenario and rejects it one nanosecond / one block early, with another value, with another chain name *)
Example C08_nonvacuous :
  tm_lib_ok N N toy_pkind toy_calc toy_vmem toy_decode toy_tlookup /\
  toy_tm_run 10 15 (of_string "aA") [7; 7] = true /\
  toy_tm_run 10 14 (of_string "aA") [7; 7] = false /\
  toy_tm_run 10 15 (of_string "aA") [7; 8] = false /\
  toy_tm_run 10 15 (of_string "aB") [7; 7] = false /\
  evm_lib_ok unit toy_mpt toy_keccak toy_rlp_account toy_rlp_dec toy_edecode toy_mlookup /\
  toy_evm_run (0, 108) 3 (w32 200) = true /\
  toy_evm_run (0, 107) 3 (w32 200) = false /\
  toy_evm_run (0, 108) 3 (w32 201) = false /\
  toy_evm_run (0, 104) 0 (w32 200) = false.
Proof. exact nonvacuous. Qed.
