(** C09 — sends get gap-free sequences and one binding commitment, all-or-nothing. *)
From Tibc Require Import Base.Bytes Base.FMap Host.Keys Host.KeysFacts Routing.Rules
  Packet.Types Packet.Keeper Packet.KeeperFacts Packet.Invariants.
From Tibc Require Import Harness.Net Properties.Example.

(** On every (source, destination) pair the successful sends of any operation
    history carry consecutive sequences starting at the pair's counter (1 on a
    fresh chain), whatever other traffic is interleaved; the counter ends at
    start + number of sends.  (The bound excludes only the 2^64-th send.) *)
Theorem C09_send_seq_gapfree :
  forall (A : Type) (H : bytes -> bytes) (has_route : bytes -> bool)
         (on_recv : A -> packet -> option (A * option bytes))
         (on_ack : A -> packet -> bytes -> option A)
         (ops : list (op A)) (c : chain A) (s d : bytes),
    Forall op_wf ops -> noslash s -> noslash d ->
    next_send A c s d + N.of_nat (length (own_sends A H has_route on_recv on_ack s d c ops)) < two64 ->
    own_sends A H has_route on_recv on_ack s d c ops =
      iota (next_send A c s d) (length (own_sends A H has_route on_recv on_ack s d c ops)) /\
    next_send A (run A H has_route on_recv on_ack c ops) s d =
      next_send A c s d + N.of_nat (length (own_sends A H has_route on_recv on_ack s d c ops)).
Proof. intros A H hr orc oa ops. exact (send_seq_gapfree A H hr orc oa ops). Qed.
Print Assumptions C09_send_seq_gapfree.

(** a successful send leaves exactly one commitment to the packet's data at its
    sequence, moves only that pair's counter, announces the packet, and changes
    nothing else (no other key, no client, rule or application state) *)
Theorem C09_send_effect :
  forall (A : Type) (H : bytes -> bytes) (has_route : bytes -> bool)
         (on_recv : A -> packet -> option (A * option bytes))
         (on_ack : A -> packet -> bytes -> option A)
         (c : chain A) (p : packet) (c' : chain A) (ev : list event),
    wfp p -> exec A H has_route on_recv on_ack c (OSend p) = Some (c', ev) ->
    p_src p = c_name A c /\
    p_seq p = next_send A c (p_src p) (p_dst p) /\
    next_send A c' (p_src p) (p_dst p) = (p_seq p + 1) mod two64 /\
    commit_at A c' (p_src p) (p_dst p) (p_seq p) = Some (H (p_data p)) /\
    ev = [ESend p] /\
    (forall k, k <> next_send_key (p_src p) (p_dst p) ->
               k <> commit_key (p_src p) (p_dst p) (p_seq p) ->
               lookup k (c_kv A c') = lookup k (c_kv A c)) /\
    c_clients A c' = c_clients A c /\ c_rules A c' = c_rules A c /\ c_app A c' = c_app A c /\
    c_name A c' = c_name A c.
Proof. exact send_effect. Qed.
Print Assumptions C09_send_effect.

(** only a successful own send on that pair moves a send counter *)
Theorem C09_counter_moves_only_by_send :
  forall (A : Type) (H : bytes -> bytes) (has_route : bytes -> bool)
         (on_recv : A -> packet -> option (A * option bytes))
         (on_ack : A -> packet -> bytes -> option A)
         (c : chain A) (o : op A) (c' : chain A) (ev : list event) (s d : bytes),
    exec A H has_route on_recv on_ack c o = Some (c', ev) ->
    (forall p, o = OSend p -> next_send_key (p_src p) (p_dst p) <> next_send_key s d) ->
    next_send A c' s d = next_send A c s d.
Proof. exact exec_next_send. Qed.
Print Assumptions C09_counter_moves_only_by_send.

(** a failing operation (send with unknown destination or relay, wrong
    sequence, empty data, ...) changes nothing at all *)
Theorem C09_fail_unchanged :
  forall (A : Type) (H : bytes -> bytes) (has_route : bytes -> bool)
         (on_recv : A -> packet -> option (A * option bytes))
         (on_ack : A -> packet -> bytes -> option A) (c : chain A) (o : op A),
    exec A H has_route on_recv on_ack c o = None ->
    step A H has_route on_recv on_ack c o = (c, None).
Proof. intros A H hr orc oa c o E. unfold step. rewrite E. reflexivity. Qed.
Print Assumptions C09_fail_unchanged.

(** the failing send kinds of the property are indeed failures of the model *)
Theorem C09_send_failures :
  forall (A : Type) (H : bytes -> bytes) (c : chain A) (p : packet),
    (p_data p = [] \/ p_seq p = 0 \/ p_seq p <> next_send A c (p_src p) (p_dst p) \/
     p_src p <> c_name A c \/
     has (if is_nil (p_relay p) then p_dst p else p_relay p) (c_clients A c) = false) ->
    send_packet A H c p = None.
Proof.
  intros A H c p Hc. destruct (send_packet A H c p) as [[c' ev]|] eqn:E; [|reflexivity]. exfalso.
  pose proof E as E'. apply send_packet_inv in E'. destruct E' as (V & S & Q & _).
  apply KeyEq.validate_basic_names in V. destruct V as (_ & _ & V3 & V4).
  destruct Hc as [X|[X|[X|[X|X]]]]; try contradiction.
  unfold send_packet in E. destruct (validate_basic p); [|discriminate]. cbn [negb] in E.
  destruct (beq (p_src p) (c_name A c)); [|discriminate]. cbn [negb] in E.
  rewrite X in E. discriminate.
Qed.
Print Assumptions C09_send_failures.

Example C09_nonvacuous :
  let c0 := mkChain unit nameA [] [(nameB, clB0); (nameC, clB0)] None 200 tt in
  let pk n d := mkPacket n nameA d [] mock_port (of_string "x") in
  own_sends unit idH mock_has_route mock_on_recv mock_on_ack nameA nameB c0
    [OSend (pk 1 nameB); OSend (pk 1 nameB); OSend (pk 1 nameC); OSend (pk 3 nameB); OSend (pk 2 nameB)]
  = [1; 2].
Proof. vm_compute. reflexivity. Qed.
