(** C05 (history level, network) -- token traffic is covered by the network
    theorems C01 / C02 / C03.
    Statements only; proofs in Net/AppNetSim.v and Net/AppNetFacts.v.

    The application network of Harness/AppNet.v (the one the correspondence check
    drives) has two kinds of steps: generic network operations [ANet o] and user
    transactions [AUser i now u] of the NFT / MT modules on chain i.  User
    transactions are not operations of the generic network of Net/Net.v, so the
    theorems of Net/NetInv.v said nothing about histories containing them.  Here:
    every application-network history IS a generic network history (same final
    state, same event log), and therefore C01, C02, C03 hold for it. *)
From Tibc Require Import Base.Bytes Base.FMap Host.Keys Host.KeysFacts Routing.Rules
  Packet.Types Packet.Keeper Packet.KeeperFacts Packet.Invariants Net.Net Net.Explained Net.NetInv
  Apps.Path Apps.Nft Apps.Mt Apps.App Harness.AppNet Net.AppNetSim Net.AppNetFacts Net.AppNetConserve.
From Tibc Require Import Properties.Example.

(** SIMULATION.  For every starting network and every list of application-network
    steps, the list [expand_all n ops] of generic operations
      - [ANet o]                      ->  [o]
      - successful token send         ->  [NChain i now (OSetApp a'); NChain i now (OSend pkt)]
      - other successful user op      ->  [NChain i now (OSetApp a')]
      - failing user op               ->  [NChain i now (OTick 0)]   (only the block time is set)
      - user op on a missing chain    ->  []
    reaches the same network and produces the same tagged event log.
    No premise. *)
Theorem C05net_simulation :
  forall (nft_escrow mt_escrow : bytes) (ops : list anop) (n : anet),
    anrun nft_escrow mt_escrow n ops =
      nrun app_state idH a_has_route (a_on_recv nft_escrow mt_escrow) (a_on_ack nft_escrow mt_escrow)
           n (expand_all nft_escrow mt_escrow n ops) /\
    anrun_log nft_escrow mt_escrow n ops =
      nrun_log app_state idH a_has_route (a_on_recv nft_escrow mt_escrow) (a_on_ack nft_escrow mt_escrow)
           n (expand_all nft_escrow mt_escrow n ops).
Proof. exact anrun_sim. Qed.
Print Assumptions C05net_simulation.

(** The expansion satisfies the premise [nop_ok] of the network theorems
    (sequence numbers below 2^64, light clients written only by NCreate / NUpd)
    whenever the generic operations in the history do ([anop_ok]: nothing is asked
    of user transactions).  Premise [net_init]: the chains start with empty
    packet stores and without light clients -- needed because the packet a token
    send builds carries the chain's send counter, which must be below 2^64; it is
    in every state reachable from an empty store. *)
Theorem C05net_expansion_ok :
  forall (nft_escrow mt_escrow : bytes) (ops : list anop) (n : anet),
    net_init app_state n -> Forall anop_ok ops ->
    Forall nop_ok (expand_all nft_escrow mt_escrow n ops).
Proof. exact expand_all_ok_init. Qed.
Print Assumptions C05net_expansion_ok.

(** C01 for token traffic: in every application-network history (any user
    transactions, sends of tokens, relayed messages with arbitrary packets,
    proofs and heights, honest client creations / updates), whenever a chain
    accepts a receive message for p, the chain it is proven from has logged a
    commitment of a packet with the same source, destination, sequence and data.
    Premises: empty initial stores, [anop_ok] (see above), p's sequence < 2^64. *)
Theorem C05net_recv_authentic :
  forall (nft_escrow mt_escrow : bytes)
         (n0 : anet) (ops : list anop) (i : nat) (ci : chain app_state) (now : N)
         (p : packet) (pf : proof) (h : N) (c' : chain app_state) (ev : list event),
    net_init app_state n0 -> Forall anop_ok ops -> wfp p ->
    nth_error (anrun nft_escrow mt_escrow n0 ops) i = Some ci ->
    msg_recv app_state idH a_has_route (a_on_recv nft_escrow mt_escrow)
             (with_now app_state ci now) p pf h = Some (c', ev) ->
    exists j cj p',
      nth_error (anrun nft_escrow mt_escrow n0 ops) j = Some cj /\
      c_name app_state cj = prover_name app_state ci p /\
      In (ESend p') (log_of j (anrun_log nft_escrow mt_escrow n0 ops)) /\
      p_src p' = p_src p /\ p_dst p' = p_dst p /\ p_seq p' = p_seq p /\ p_data p' = p_data p.
Proof. exact a_recv_authentic. Qed.
Print Assumptions C05net_recv_authentic.

(** C03 (authenticity) for token traffic: an accepted acknowledgement -- in
    particular one that triggers a refund -- was recorded with exactly those
    bytes, for that (source, destination, sequence), by the chain it is proven
    from.  Same premises. *)
Theorem C05net_ack_authentic :
  forall (nft_escrow mt_escrow : bytes)
         (n0 : anet) (ops : list anop) (i : nat) (ci : chain app_state) (now : N)
         (p : packet) (a : bytes) (pf : proof) (h : N) (c' : chain app_state) (ev : list event),
    net_init app_state n0 -> Forall anop_ok ops -> wfp p ->
    nth_error (anrun nft_escrow mt_escrow n0 ops) i = Some ci ->
    msg_ack app_state idH a_has_route (a_on_ack nft_escrow mt_escrow)
            (with_now app_state ci now) p a pf h = Some (c', ev) ->
    exists j cj p' a',
      nth_error (anrun nft_escrow mt_escrow n0 ops) j = Some cj /\
      c_name app_state cj = ack_prover_name app_state ci p /\
      In (EWriteAck p' a') (log_of j (anrun_log nft_escrow mt_escrow n0 ops)) /\
      p_src p' = p_src p /\ p_dst p' = p_dst p /\ p_seq p' = p_seq p /\ a' = a.
Proof. exact a_ack_authentic. Qed.
Print Assumptions C05net_ack_authentic.

(** C02 for token traffic: on every chain of every application-network history
    the application callback OnRecvPacket (token credit) runs at most once per
    (source, destination, sequence).  Premises: empty initial stores, [anop_ok],
    '/'-free names and sequence < 2^64 ([wfk]). *)
Theorem C05net_deliver_at_most_once :
  forall (nft_escrow mt_escrow : bytes)
         (n0 : anet) (ops : list anop) (j : nat) (cj : chain app_state) (s d : bytes) (k : N),
    net_init app_state n0 -> Forall anop_ok ops -> wfk s d k ->
    nth_error (anrun nft_escrow mt_escrow n0 ops) j = Some cj ->
    (ndeliver s d k (log_of j (anrun_log nft_escrow mt_escrow n0 ops)) <= 1)%nat.
Proof. exact a_deliver_at_most_once. Qed.
Print Assumptions C05net_deliver_at_most_once.

(** the same on every generic network (any application), from any starting state *)
Theorem C05net_generic_deliver_at_most_once :
  forall (A : Type) (H : bytes -> bytes) (has_route : bytes -> bool)
         (on_recv : A -> packet -> option (A * option bytes))
         (on_ack : A -> packet -> bytes -> option A)
         (n0 : net A) (ops : list (nop A)) (j : nat) (cj : chain A) (s d : bytes) (k : N),
    Forall nop_ok ops -> wfk s d k ->
    nth_error (nrun A H has_route on_recv on_ack n0 ops) j = Some cj ->
    (ndeliver s d k (log_of j (nrun_log A H has_route on_recv on_ack n0 ops)) <= 1)%nat.
Proof. exact net_deliver_at_most_once. Qed.
Print Assumptions C05net_generic_deliver_at_most_once.

(** CROSS-CHAIN MATCHING, closed over the history (no hypothetical next step):
    in every application-network history, every delivery event [EDeliver p] in
    the log of a chain j -- the token credit of the NFT / MT module runs exactly
    in these -- is matched by a commitment event [ESend p'] in the log of the chain
    the packet was proven from (named [p_src p] for relay-free packets, else
    [p_relay p]), with the same source, destination, sequence and DATA, hence the
    same class path, token id and amount.  Together with
    C05net_deliver_at_most_once (one delivery per key) deliveries map injectively
    to sends.  The port and the relay field of p' may differ from p's (they are
    not part of the commitment: known finding D6), which is why the statement is
    about the data.  Premises: empty initial stores, [anop_ok]. *)
Theorem C05net_deliver_matched :
  forall (nft_escrow mt_escrow : bytes) (n0 : anet) (ops : list anop),
    net_init app_state n0 -> Forall anop_ok ops ->
    forall j p, In (j, EDeliver p) (anrun_log nft_escrow mt_escrow n0 ops) ->
      exists cj j' cj' p',
        nth_error (anrun nft_escrow mt_escrow n0 ops) j = Some cj /\
        nth_error (anrun nft_escrow mt_escrow n0 ops) j' = Some cj' /\
        c_name app_state cj' = prover_name app_state cj p /\
        In (j', ESend p') (anrun_log nft_escrow mt_escrow n0 ops) /\
        p_src p' = p_src p /\ p_dst p' = p_dst p /\ p_seq p' = p_seq p /\ p_data p' = p_data p.
Proof. exact a_deliver_matched. Qed.
Print Assumptions C05net_deliver_matched.

(** ... and every processed acknowledgement [EAppAck p a] in the log of a chain
    i -- the refund of the NFT / MT module runs exactly in those with an error
    acknowledgement [a] -- is matched by an event [EWriteAck p' a], same key and
    the very same acknowledgement bytes, in the log of the chain it was proven
    from (named [p_dst p] for relay-free packets): a refund happens only if the
    destination recorded an error acknowledgement for that packet. *)
Theorem C05net_appack_matched :
  forall (nft_escrow mt_escrow : bytes) (n0 : anet) (ops : list anop),
    net_init app_state n0 -> Forall anop_ok ops ->
    forall i p a, In (i, EAppAck p a) (anrun_log nft_escrow mt_escrow n0 ops) ->
      exists ci j cj p',
        nth_error (anrun nft_escrow mt_escrow n0 ops) i = Some ci /\
        nth_error (anrun nft_escrow mt_escrow n0 ops) j = Some cj /\
        c_name app_state cj = ack_prover_name app_state ci p /\
        In (j, EWriteAck p' a) (anrun_log nft_escrow mt_escrow n0 ops) /\
        p_src p' = p_src p /\ p_dst p' = p_dst p /\ p_seq p' = p_seq p.
Proof. exact a_appack_matched. Qed.
Print Assumptions C05net_appack_matched.

(** ... and it concerns a packet the chain itself committed: every processed
    acknowledgement (refund) [EAppAck p a] on chain i is matched by a commitment
    [ESend p'] in i's OWN log with the same key and the same data -- only what was
    sent (same class path, id, amount) is ever refunded. *)
Theorem C05net_refund_own_send :
  forall (nft_escrow mt_escrow : bytes) (n0 : anet) (ops : list anop),
    net_init app_state n0 -> Forall anop_ok ops ->
    forall i p a, In (i, EAppAck p a) (anrun_log nft_escrow mt_escrow n0 ops) ->
      exists p', In (i, ESend p') (anrun_log nft_escrow mt_escrow n0 ops) /\
        p_src p' = p_src p /\ p_dst p' = p_dst p /\ p_seq p' = p_seq p /\ p_data p' = p_data p.
Proof. exact a_appack_own_send. Qed.
Print Assumptions C05net_refund_own_send.

(** * non-vacuity: a two-chain history with user transactions: class issued,
    10 units minted, 4 sent from A to B (a second send of 40 fails), received and
    credited on B, acknowledged on A; the replayed receive is refused *)
Definition x_nesc := of_string "cosmos1nftescrow".
Definition x_mesc := of_string "cosmos1mtescrow".
Definition x_cls := of_string "gold".
Definition x_tid := of_string "bar1".
Definition x_alice := of_string "cosmos1alice".
Definition x_bob := of_string "cosmos1bob".
Definition x_n0 : anet := map mk_achain [nameA; nameB].
Definition x_pkt : packet :=
  mkPacket 1 nameA nameB [] MT_PORT
    (enc_mt (mkMtData x_cls x_tid x_alice x_bob true [] 4 (of_string "meta"))).
Definition x_pf := PGenuine nameA (commit_key nameA nameB 1).
Definition x_apf := PGenuine nameB (ack_key nameA nameB 1).

(* up to the point where B is about to receive *)
Definition x_pre : list anop :=
  [ ANet (NCreate 0 1 100 2 90 1000); ANet (NCreate 1 0 100 2 90 1000);
    AUser 0 100 (UMtIssue x_cls x_alice);
    AUser 0 100 (UMtMintNew x_cls x_tid 10 (of_string "meta") x_alice x_alice);
    AUser 0 100 (UMtSend x_cls x_tid x_alice x_bob nameB [] [] 4);
    AUser 0 100 (UMtSend x_cls x_tid x_alice x_bob nameB [] [] 40);
    ANet (NUpd 1 0 110 5 105) ].
(* ... B receives (twice), A is about to process the acknowledgement *)
Definition x_mid : list anop :=
  x_pre ++ [ ANet (NChain 1 120 (ORecv x_pkt x_pf 5)); ANet (NChain 1 121 (ORecv x_pkt x_pf 5));
             ANet (NUpd 0 1 130 7 125) ].
Definition x_all : list anop := x_mid ++ [ ANet (NChain 0 140 (OAck x_pkt ack_ok x_apf 7)) ].

Lemma x_n0_init : net_init app_state x_n0.
Proof.
  intros j cj Hj. destruct j as [|[|j]]; cbn in Hj.
  - inversion Hj; subst. split; reflexivity.
  - inversion Hj; subst. split; reflexivity.
  - destruct j; discriminate.
Qed.

Lemma x_all_ok : Forall anop_ok x_all.
Proof. repeat constructor; cbn; unfold wfp; cbn; try exact I; reflexivity. Qed.

Example C05net_simulation_nonvacuous :
  anrun_log x_nesc x_mesc x_n0 x_all =
    [(0%nat, ESend x_pkt); (1%nat, ERecv x_pkt); (1%nat, EDeliver x_pkt); (1%nat, EWriteAck x_pkt ack_ok);
     (0%nat, EAck x_pkt ack_ok); (0%nat, EAppAck x_pkt ack_ok)] /\
  length (expand_all x_nesc x_mesc x_n0 x_all) = 12%nat /\
  (* tokens: 4 escrowed on A, 6 left with the sender; 4 credited to the receiver on B *)
  match anrun x_nesc x_mesc x_n0 x_all with
  | [cA; cB] =>
      bal_of (a_mt (c_app app_state cA)) x_mesc x_cls x_tid = 4 /\
      bal_of (a_mt (c_app app_state cA)) x_alice x_cls x_tid = 6 /\
      exists v, ms_classes (a_mt (c_app app_state cB)) = [(v, x_mesc)] /\
                bal_of (a_mt (c_app app_state cB)) x_bob v x_tid = 4
  | _ => False
  end.
Proof.
  split; [vm_compute; reflexivity|]. split; [vm_compute; reflexivity|].
  vm_compute. split; [reflexivity|]. split; [reflexivity|]. eexists. split; reflexivity.
Qed.

Example C05net_expansion_ok_nonvacuous :
  net_init app_state x_n0 /\ Forall anop_ok x_all /\
  Forall nop_ok (expand_all x_nesc x_mesc x_n0 x_all).
Proof.
  split; [exact x_n0_init|]. split; [exact x_all_ok|].
  apply expand_all_ok_init; [exact x_n0_init | exact x_all_ok].
Qed.

(** the premises of C05net_recv_authentic are met: after [x_pre] chain B accepts x_pkt *)
Example C05net_recv_authentic_nonvacuous :
  net_init app_state x_n0 /\ Forall anop_ok x_pre /\ wfp x_pkt /\
  match nth_error (anrun x_nesc x_mesc x_n0 x_pre) 1 with
  | Some ci =>
      match msg_recv app_state idH a_has_route (a_on_recv x_nesc x_mesc) (with_now app_state ci 120) x_pkt x_pf 5 with
      | Some (_, ev) => ev = [ERecv x_pkt; EDeliver x_pkt; EWriteAck x_pkt ack_ok]
      | None => False
      end
  | None => False
  end.
Proof.
  split; [exact x_n0_init|].
  split; [repeat constructor; cbn; unfold wfp; cbn; try exact I; reflexivity|].
  split; [vm_compute; reflexivity|]. vm_compute. reflexivity.
Qed.

(** the premises of C05net_ack_authentic are met: after [x_mid] chain A accepts the acknowledgement *)
Example C05net_ack_authentic_nonvacuous :
  net_init app_state x_n0 /\ Forall anop_ok x_mid /\ wfp x_pkt /\
  match nth_error (anrun x_nesc x_mesc x_n0 x_mid) 0 with
  | Some ci =>
      match msg_ack app_state idH a_has_route (a_on_ack x_nesc x_mesc) (with_now app_state ci 140) x_pkt ack_ok x_apf 7 with
      | Some (_, ev) => ev = [EAck x_pkt ack_ok; EAppAck x_pkt ack_ok]
      | None => False
      end
  | None => False
  end.
Proof.
  split; [exact x_n0_init|].
  split; [repeat constructor; cbn; unfold wfp; cbn; try exact I; reflexivity|].
  split; [vm_compute; reflexivity|]. vm_compute. reflexivity.
Qed.

(** exactly one delivery although the receive was submitted twice *)
Example C05net_deliver_at_most_once_nonvacuous :
  wfk nameA nameB 1 /\
  ndeliver nameA nameB 1 (log_of 1 (anrun_log x_nesc x_mesc x_n0 x_all)) = 1%nat.
Proof.
  split; [|vm_compute; reflexivity].
  repeat split; try (vm_compute; reflexivity);
    intros X; vm_compute in X; repeat (destruct X as [X|X]; [discriminate X|]); exact X.
Qed.

(** the history [x_all] contains a delivery on B and a processed acknowledgement on A *)
Example C05net_deliver_matched_nonvacuous :
  net_init app_state x_n0 /\ Forall anop_ok x_all /\
  In (1%nat, EDeliver x_pkt) (anrun_log x_nesc x_mesc x_n0 x_all) /\
  In (0%nat, ESend x_pkt) (anrun_log x_nesc x_mesc x_n0 x_all).
Proof.
  split; [exact x_n0_init|]. split; [exact x_all_ok|].
  destruct C05net_simulation_nonvacuous as [L _]. rewrite L.
  split; repeat (try (left; reflexivity); right).
Qed.

(** a refund: 4 units sent to an address B rejects; B answers with an error
    acknowledgement, A processes it and gives the 4 units back to the sender *)
Definition x_bad := of_string "nobody".
Definition x_pkt2 : packet :=
  mkPacket 1 nameA nameB [] MT_PORT
    (enc_mt (mkMtData x_cls x_tid x_alice x_bad true [] 4 (of_string "meta"))).
Definition x_refund : list anop :=
  [ ANet (NCreate 0 1 100 2 90 1000); ANet (NCreate 1 0 100 2 90 1000);
    AUser 0 100 (UMtIssue x_cls x_alice);
    AUser 0 100 (UMtMintNew x_cls x_tid 10 (of_string "meta") x_alice x_alice);
    AUser 0 100 (UMtSend x_cls x_tid x_alice x_bad nameB [] [] 4);
    ANet (NUpd 1 0 110 5 105);
    ANet (NChain 1 120 (ORecv x_pkt2 x_pf 5));
    ANet (NUpd 0 1 130 7 125);
    ANet (NChain 0 140 (OAck x_pkt2 ack_err x_apf 7)) ].

Example C05net_appack_matched_nonvacuous :
  net_init app_state x_n0 /\ Forall anop_ok x_refund /\
  anrun_log x_nesc x_mesc x_n0 x_refund =
    [(0%nat, ESend x_pkt2); (1%nat, ERecv x_pkt2); (1%nat, EDeliver x_pkt2); (1%nat, EWriteAck x_pkt2 ack_err);
     (0%nat, EAck x_pkt2 ack_err); (0%nat, EAppAck x_pkt2 ack_err)] /\
  match anrun x_nesc x_mesc x_n0 x_refund with
  | [cA; cB] =>
      bal_of (a_mt (c_app app_state cA)) x_mesc x_cls x_tid = 0 /\
      bal_of (a_mt (c_app app_state cA)) x_alice x_cls x_tid = 10
  | _ => False
  end.
Proof.
  split; [exact x_n0_init|].
  split; [repeat constructor; cbn; unfold wfp; cbn; try exact I; reflexivity|].
  split; [vm_compute; reflexivity|]. vm_compute. split; reflexivity.
Qed.

Example C05net_refund_own_send_nonvacuous :
  net_init app_state x_n0 /\ Forall anop_ok x_refund /\
  In (0%nat, EAppAck x_pkt2 ack_err) (anrun_log x_nesc x_mesc x_n0 x_refund) /\
  is_err_ack ack_err = true.
Proof.
  destruct C05net_appack_matched_nonvacuous as (A1 & A2 & L & _).
  split; [exact A1|]. split; [exact A2|]. rewrite L.
  split; [repeat (try (left; reflexivity); right) | vm_compute; reflexivity].
Qed.
