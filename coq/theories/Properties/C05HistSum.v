(** C05 (history level, two chains) -- "no unit is created": per key
    (source, destination, sequence), the credit on the destination and the refund
    on the source exclude each other, the credit happens at most once, and both
    happen only for a packet the source committed with the same data (class path,
    id, amount).  Statements only; proofs in Net/AppNetNoSelf.v, Net/AppNetSums.v,
    Net/AppNetCount.v.  Matching is on (source, destination, sequence, data): port
    and relay field are not bound by the commitment (known finding D6).
    NOT proved here: the summed form (credited + refunded <= sent).

    Premises on a history, collected in [hist_ok n0 ops]:
      - [net_init n0]: chains start with empty packet stores, no light clients;
      - [NoDup (names n0)]: chain names pairwise different (a chain is identified
        by the name the packets carry);
      - [Forall anop_ok ops]: sequence numbers < 2^64, light clients written only
        by the honest NCreate / NUpd;
      - [anop_noself]: no NCreate i i (and no OCreateClient under the chain's own
        name): no chain holds a light client of itself.  Necessary: see
        C05sum_noself_needed. *)
From Tibc Require Import Base.Bytes Base.FMap Host.Keys Host.KeysFacts Routing.Rules
  Packet.Types Packet.Keeper Packet.KeeperFacts Packet.Invariants Packet.AckOnce
  Net.Net Net.Explained Net.NetInv
  Apps.Path Apps.Nft Apps.Mt Apps.MtFacts Apps.App Harness.AppNet
  Net.AppNetSim Net.AppNetFacts Net.AppNetConserve Net.AppNetNoSelf Net.AppNetSums Net.AppNetCount.
From Tibc Require Import Properties.Example Properties.C05HistNet.

(** NoSelf is a network invariant: in every state of every history no chain
    holds a light client under its own name *)
Theorem C05sum_noself_invariant :
  forall (nft_escrow mt_escrow : bytes) (n0 : anet) (ops : list anop) (i : nat) (ci : chain app_state),
    hist_ok n0 ops -> nth_error (anrun nft_escrow mt_escrow n0 ops) i = Some ci ->
    NoSelf app_state ci.
Proof. exact a_NoSelf. Qed.
Print Assumptions C05sum_noself_invariant.

(** ... for every application and every generic network *)
Theorem C05sum_noself_invariant_generic :
  forall (A : Type) (H : bytes -> bytes) (has_route : bytes -> bool)
         (on_recv : A -> packet -> option (A * option bytes))
         (on_ack : A -> packet -> bytes -> option A) (ops : list (nop A)) (n : net A),
    NoDup (names A n) -> Forall (fun o => nop_noself A (names A n) o = true) ops ->
    NS A n -> NS A (nrun A H has_route on_recv on_ack n ops).
Proof. exact nrun_NS. Qed.
Print Assumptions C05sum_noself_invariant_generic.

(** what goes wrong without it: a chain with a (forged) light client of itself
    delivers and acknowledges a packet "relayed by itself", then accepts an
    acknowledgement "from itself" and overwrites the recorded acknowledgement by an
    error acknowledgement -- two acknowledgements for one key on one chain *)
Example C05sum_noself_needed :
  (NoSelf unit ns_chain -> False) /\
  mrun_log ns_chain [ORecv ns_p (PGenuine nameB (commit_key nameA nameB 1)) 5;
                     OAck ns_p ns_err (PGenuine nameB (ack_key nameA nameB 1)) 5] =
  [ERecv ns_p; ESend ns_p; EDeliver ns_p; EWriteAck ns_p mock_ack; EAck ns_p ns_err; EWriteAck ns_p ns_err].
Proof. split; [exact noself_needed | exact noself_needed_two_acks]. Qed.

(** on the destination at most one acknowledgement is ever written per key, and
    only together with the delivery of that very packet *)
Theorem C05sum_own_ack_unique :
  forall (nft_escrow mt_escrow : bytes) (n0 : anet) (ops : list anop) (j : nat) (cj : chain app_state)
         (s : bytes) (k : N) (p : packet) (a : bytes) (p' : packet) (a' : bytes),
    hist_ok n0 ops ->
    nth_error (anrun nft_escrow mt_escrow n0 ops) j = Some cj -> wfk s (c_name app_state cj) k ->
    In (EWriteAck p a) (log_of j (anrun_log nft_escrow mt_escrow n0 ops)) ->
    In (EWriteAck p' a') (log_of j (anrun_log nft_escrow mt_escrow n0 ops)) ->
    p_src p = s -> p_dst p = c_name app_state cj -> p_seq p = k ->
    p_src p' = s -> p_dst p' = c_name app_state cj -> p_seq p' = k ->
    p = p' /\ a = a' /\ In (EDeliver p) (log_of j (anrun_log nft_escrow mt_escrow n0 ops)).
Proof. exact a_own_ack_unique. Qed.
Print Assumptions C05sum_own_ack_unique.

(** (b) an error acknowledgement written on j for a key addressed to j excludes
    a success acknowledgement for that key on j ... *)
Theorem C05sum_err_excludes_ok :
  forall (nft_escrow mt_escrow : bytes) (n0 : anet) (ops : list anop) (j : nat) (cj : chain app_state)
         (p : packet) (a : bytes) (p' : packet) (a' : bytes),
    hist_ok n0 ops ->
    nth_error (anrun nft_escrow mt_escrow n0 ops) j = Some cj -> wfp p ->
    In (EWriteAck p a) (log_of j (anrun_log nft_escrow mt_escrow n0 ops)) ->
    In (EWriteAck p' a') (log_of j (anrun_log nft_escrow mt_escrow n0 ops)) ->
    p_dst p = c_name app_state cj ->
    p_src p' = p_src p -> p_dst p' = p_dst p -> p_seq p' = p_seq p ->
    noslash (p_src p) -> noslash (p_dst p) ->
    is_err_ack a = true -> is_ok_ack a' = true -> False.
Proof. exact a_err_excludes_ok. Qed.
Print Assumptions C05sum_err_excludes_ok.

(** ... and the MT callback that answered with the error acknowledgement changed
    no balance and no supply (ledger invariant [MtInv] of C05 as premise; it
    holds in every state reached by user transactions and callbacks) *)
Theorem C05sum_error_delivery_credits_nothing :
  forall (nft_escrow mt_escrow : bytes) (a : app_state) (p : packet) (a' : app_state) (ack : bytes),
    a_on_recv nft_escrow mt_escrow a p = Some (a', Some ack) ->
    p_port p = MT_PORT -> is_err_ack ack = true -> MtInv (a_mt a) ->
    same_amounts (a_mt a') (a_mt a) /\ a_nft a' = a_nft a.
Proof. exact a_on_recv_err_no_credit. Qed.
Print Assumptions C05sum_error_delivery_credits_nothing.

(** MUTUAL EXCLUSION across the two chains: if the source i processed an error
    acknowledgement for the relay-free packet p addressed to j (the refund runs in
    exactly these steps), then j never wrote a success acknowledgement for p's
    key: no key is both refunded and credited. *)
Theorem C05sum_refund_excludes_credit :
  forall (nft_escrow mt_escrow : bytes) (n0 : anet) (ops : list anop) (i j : nat) (cj : chain app_state)
         (p : packet) (a : bytes) (p' : packet) (a' : bytes),
    hist_ok n0 ops ->
    nth_error (anrun nft_escrow mt_escrow n0 ops) j = Some cj ->
    In (i, EAppAck p a) (anrun_log nft_escrow mt_escrow n0 ops) ->
    p_relay p = [] -> p_dst p = c_name app_state cj -> is_err_ack a = true ->
    In (j, EWriteAck p' a') (anrun_log nft_escrow mt_escrow n0 ops) ->
    p_src p' = p_src p -> p_dst p' = p_dst p -> p_seq p' = p_seq p ->
    is_ok_ack a' = true -> False.
Proof. exact a_refund_excludes_credit. Qed.
Print Assumptions C05sum_refund_excludes_credit.

(** a credit happens at most once per key, with the delivery, and only for a
    packet committed with the same data by the chain it was proven from (the
    source, for relay-free packets) *)
Theorem C05sum_credit_once_and_sent :
  forall (nft_escrow mt_escrow : bytes) (n0 : anet) (ops : list anop) (j : nat) (cj : chain app_state)
         (p : packet) (a : bytes),
    hist_ok n0 ops ->
    nth_error (anrun nft_escrow mt_escrow n0 ops) j = Some cj ->
    In (j, EWriteAck p a) (anrun_log nft_escrow mt_escrow n0 ops) -> p_dst p = c_name app_state cj ->
    noslash (p_src p) -> noslash (p_dst p) -> wfp p ->
    (forall p' a', In (j, EWriteAck p' a') (anrun_log nft_escrow mt_escrow n0 ops) ->
       p_src p' = p_src p -> p_dst p' = p_dst p -> p_seq p' = p_seq p -> p' = p /\ a' = a) /\
    In (j, EDeliver p) (anrun_log nft_escrow mt_escrow n0 ops) /\
    exists j' cj' q,
      nth_error (anrun nft_escrow mt_escrow n0 ops) j' = Some cj' /\
      c_name app_state cj' = prover_name app_state cj p /\
      In (j', ESend q) (anrun_log nft_escrow mt_escrow n0 ops) /\
      p_src q = p_src p /\ p_dst q = p_dst p /\ p_seq q = p_seq p /\ p_data q = p_data p.
Proof. exact a_credit_once_and_sent. Qed.
Print Assumptions C05sum_credit_once_and_sent.

(** source-side counting: on every chain, for every key and every data, the
    processed acknowledgements (among them all refunds) of packets with that key
    and data never outnumber the commitments ([ESend]) the chain logged for that key
    and data -- a packet is refunded at most as often as it was sent.  Premises:
    empty initial stores, [anop_ok], well-formed key. *)
Theorem C05sum_refunds_le_sends :
  forall (nft_escrow mt_escrow : bytes) (n0 : anet) (ops : list anop) (j : nat) (cj : chain app_state)
         (s d : bytes) (n : N) (x : bytes),
    net_init app_state n0 -> Forall anop_ok ops -> wfk s d n ->
    nth_error (anrun nft_escrow mt_escrow n0 ops) j = Some cj ->
    (cnt (appack_is s d n x) (log_of j (anrun_log nft_escrow mt_escrow n0 ops)) <=
     cnt (send_is s d n x) (log_of j (anrun_log nft_escrow mt_escrow n0 ops)))%nat.
Proof. exact a_refunds_le_sends. Qed.
Print Assumptions C05sum_refunds_le_sends.

(** * non-vacuity: the two histories of C05HistNet.v satisfy [hist_ok] *)
Lemma x_names_nodup : NoDup (names app_state x_n0).
Proof.
  vm_compute. constructor; [|constructor; [|constructor]].
  - intros [X|[]]. discriminate X.
  - intros [].
Qed.

Example C05sum_hist_ok_nonvacuous : hist_ok x_n0 x_all /\ hist_ok x_n0 x_refund.
Proof.
  split.
  - split; [exact x_n0_init|]. split; [exact x_names_nodup|]. split; [exact x_all_ok|].
    repeat constructor.
  - destruct C05net_appack_matched_nonvacuous as (A1 & A2 & _).
    split; [exact A1|]. split; [exact x_names_nodup|]. split; [exact A2|]. repeat constructor.
Qed.

(** the refund history meets the premises of C05sum_refund_excludes_credit;
    the credit history those of C05sum_credit_once_and_sent *)
Example C05sum_refund_excludes_credit_nonvacuous :
  In (0%nat, EAppAck x_pkt2 ack_err) (anrun_log x_nesc x_mesc x_n0 x_refund) /\
  p_relay x_pkt2 = [] /\ is_err_ack ack_err = true /\
  match nth_error (anrun x_nesc x_mesc x_n0 x_refund) 1 with
  | Some cj => p_dst x_pkt2 = c_name app_state cj
  | None => False
  end.
Proof.
  destruct C05net_appack_matched_nonvacuous as (_ & _ & L & _). rewrite L.
  split; [repeat (try (left; reflexivity); right)|]. split; [reflexivity|].
  split; vm_compute; reflexivity.
Qed.

Example C05sum_credit_once_and_sent_nonvacuous :
  In (1%nat, EWriteAck x_pkt ack_ok) (anrun_log x_nesc x_mesc x_n0 x_all) /\
  is_ok_ack ack_ok = true /\ wfp x_pkt /\
  match nth_error (anrun x_nesc x_mesc x_n0 x_all) 1 with
  | Some cj => p_dst x_pkt = c_name app_state cj
  | None => False
  end.
Proof.
  destruct C05net_simulation_nonvacuous as (L & _). rewrite L.
  split; [repeat (try (left; reflexivity); right)|].
  split; [vm_compute; reflexivity|]. split; vm_compute; reflexivity.
Qed.

(** in the refund history: one refund, one send of that key and data *)
Example C05sum_refunds_le_sends_nonvacuous :
  cnt (appack_is nameA nameB 1 (p_data x_pkt2)) (log_of 0 (anrun_log x_nesc x_mesc x_n0 x_refund)) = 1%nat /\
  cnt (send_is nameA nameB 1 (p_data x_pkt2)) (log_of 0 (anrun_log x_nesc x_mesc x_n0 x_refund)) = 1%nat.
Proof. split; vm_compute; reflexivity. Qed.
