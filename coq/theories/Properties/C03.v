(** C03 — acknowledgements are authentic, written once and processed at most once.
    Statements only. *)
From Tibc Require Import Base.Bytes Base.FMap Host.Keys Host.KeysFacts Routing.Rules
  Packet.Types Packet.Keeper Packet.KeeperFacts Packet.Invariants Packet.Relay
  Net.Net Net.Explained Net.NetInv Packet.AckOnce.
From Tibc Require Import Harness.Net Properties.Example.

(** authenticity, network level: an accepted acknowledgement was recorded, for
    exactly that (source, destination, sequence) and with exactly those bytes,
    by the chain it is proven from (destination, or relay chain on the source) *)
Theorem C03_ack_authentic :
  forall (A : Type) (H : bytes -> bytes) (has_route : bytes -> bool)
         (on_recv : A -> packet -> option (A * option bytes))
         (on_ack : A -> packet -> bytes -> option A),
    (forall x y, H x = H y -> x = y) ->
    forall (n0 : net A) (ops : list (nop A)) (i : nat) (ci : chain A) (now : N)
           (p : packet) (a : bytes) (pf : proof) (h : N) (c' : chain A) (ev : list event),
      net_init A n0 -> Forall nop_ok ops -> wfp p ->
      nth_error (nrun A H has_route on_recv on_ack n0 ops) i = Some ci ->
      msg_ack A H has_route on_ack (with_now A ci now) p a pf h = Some (c', ev) ->
      exists j cj p' a',
        nth_error (nrun A H has_route on_recv on_ack n0 ops) j = Some cj /\
        c_name A cj = ack_prover_name A ci p /\
        In (EWriteAck p' a') (log_of j (nrun_log A H has_route on_recv on_ack n0 ops)) /\
        p_src p' = p_src p /\ p_dst p' = p_dst p /\ p_seq p' = p_seq p /\ a' = a.
Proof. exact ack_authentic. Qed.
Print Assumptions C03_ack_authentic.

(** the local half: the acknowledgement logic runs and the commitment is
    dropped only if the chain still holds the commitment of exactly that
    packet's data; afterwards the commitment is gone *)
Theorem C03_ack_needs_own_commitment :
  forall (A : Type) (H : bytes -> bytes) (has_route : bytes -> bool)
         (on_ack : A -> packet -> bytes -> option A)
         (c : chain A) (p : packet) (a : bytes) (pf : proof) (h : N) (c' : chain A) (ev : list event),
    (forall x, H x <> []) ->
    msg_ack A H has_route on_ack c p a pf h = Some (c', ev) ->
    commit_at A c (p_src p) (p_dst p) (p_seq p) = Some (H (p_data p)) /\
    commit_at A c' (p_src p) (p_dst p) (p_seq p) = None.
Proof. intros A H hr oa. exact (ack_needs_own_commitment A H hr oa). Qed.
Print Assumptions C03_ack_needs_own_commitment.

(** with the commitment gone the same acknowledgement is refused: each sent
    packet is acknowledged at most once per commitment *)
Theorem C03_second_ack_refused :
  forall (A : Type) (H : bytes -> bytes) (has_route : bytes -> bool)
         (on_ack : A -> packet -> bytes -> option A)
         (c : chain A) (p : packet) (a : bytes) (pf : proof) (h : N) (c' : chain A) (ev : list event)
         (a2 : bytes) (pf2 : proof) (h2 : N),
    (forall x, H x <> []) ->
    msg_ack A H has_route on_ack c p a pf h = Some (c', ev) ->
    msg_ack A H has_route on_ack c' p a2 pf2 h2 = None.
Proof.
  intros A H hr oa c p a pf h c' ev a2 pf2 h2 NE E.
  destruct (ack_needs_own_commitment A H hr oa c p a pf h c' ev NE E) as [_ CN].
  destruct (msg_ack A H hr oa c' p a2 pf2 h2) as [[c2 ev2]|] eqn:E2; [|reflexivity].
  destruct (ack_needs_own_commitment A H hr oa c' p a2 pf2 h2 c2 ev2 NE E2) as [C2 _].
  congruence.
Qed.
Print Assumptions C03_second_ack_refused.

(** the acknowledgement recorded for a received packet is non-empty, is the
    hash of what was announced, and is written only where none was stored *)
Theorem C03_ack_written_once_nonempty :
  forall (A : Type) (H : bytes -> bytes) (has_route : bytes -> bool)
         (on_recv : A -> packet -> option (A * option bytes))
         (c : chain A) (p : packet) (pf : proof) (h : N) (c' : chain A) (ev : list event),
    msg_recv A H has_route on_recv c p pf h = Some (c', ev) ->
    ack_at A c' (p_src p) (p_dst p) (p_seq p) = ack_at A c (p_src p) (p_dst p) (p_seq p) \/
    (exists a, ack_at A c' (p_src p) (p_dst p) (p_seq p) = Some (H a) /\ In (EWriteAck p a) ev /\
               ack_at A c (p_src p) (p_dst p) (p_seq p) = None /\ a <> []).
Proof.
  intros A H hr orc c p pf h c' ev E. apply msg_recv_vals in E. destruct E as (_ & X & _). exact X.
Qed.
Print Assumptions C03_ack_written_once_nonempty.

(** acknowledgement entries are explained by write_acknowledgement events of
    the chain that holds them, over all operations *)
Theorem C03_acks_explained :
  forall (A : Type) (H : bytes -> bytes) (has_route : bytes -> bool)
         (on_recv : A -> packet -> option (A * option bytes))
         (on_ack : A -> packet -> bytes -> option A)
         (c : chain A) (o : op A) (c' : chain A) (ev log : list event),
    op_wf o -> exec A H has_route on_recv on_ack c o = Some (c', ev) ->
    kv_explained H (c_kv A c) log -> kv_explained H (c_kv A c') (log ++ ev).
Proof. exact exec_explained. Qed.
Print Assumptions C03_acks_explained.

(** pass-through on a relay chain records the very bytes it verified *)
Theorem C03_relay_passthrough_unchanged :
  forall (A : Type) (H : bytes -> bytes) (c : chain A) (p : packet) (a : bytes) (pf : proof) (h : N)
         (c' : chain A) (ev : list event),
    ack_packet A H c p a pf h = Some (c', ev) -> p_relay p = c_name A c ->
    ack_at A c' (p_src p) (p_dst p) (p_seq p) = Some (H a) /\ ev = [EAck p a; EWriteAck p a] /\
    exists from cl, lookup from (c_clients A c) = Some cl /\
       verify cl from h pf (ack_key (p_src p) (p_dst p) (p_seq p)) (H a) = true.
Proof. exact relay_ack_passthrough. Qed.
Print Assumptions C03_relay_passthrough_unchanged.

(** never overwritten: in every state a chain can reach from an empty packet
    store (any operations, any packets, proofs and heights; the chain has a
    non-empty '/'-free name and no light client of itself), the pass-through write
    of an acknowledgement on a relay chain finds the key empty.  Together with
    C03_ack_written_once_nonempty (the receive path checks the key itself) every
    acknowledgement key is written at most once until it is cleaned. *)
Theorem C03_relay_ack_never_overwrites :
  forall (A : Type) (H : bytes -> bytes) (has_route : bytes -> bool)
         (on_recv : A -> packet -> option (A * option bytes))
         (on_ack : A -> packet -> bytes -> option A),
    (forall x, H x <> []) ->
    forall (c0 : chain A) (ops : list (op A)) (p : packet) (a : bytes) (pf : proof) (h : N)
           (c' : chain A) (ev : list event),
      c_kv A c0 = [] -> NoSelf A c0 -> c_name A c0 <> [] -> noslash (c_name A c0) ->
      Forall (op_wf (A:=A)) ops -> Forall (op_noself A (c_name A c0)) ops -> wfp p ->
      ack_packet A H (run A H has_route on_recv on_ack c0 ops) p a pf h = Some (c', ev) ->
      p_relay p = c_name A (run A H has_route on_recv on_ack c0 ops) ->
      ack_at A (run A H has_route on_recv on_ack c0 ops) (p_src p) (p_dst p) (p_seq p) = None.
Proof. exact relay_ack_never_overwrites. Qed.
Print Assumptions C03_relay_ack_never_overwrites.

(** the invariant behind it, for packets of other chains, in every reachable state:
    a stored acknowledgement excludes a stored commitment, and both imply a
    receipt (or a clean point that has passed them) *)
Theorem C03_ack_excludes_commitment :
  forall (A : Type) (H : bytes -> bytes) (has_route : bytes -> bool)
         (on_recv : A -> packet -> option (A * option bytes))
         (on_ack : A -> packet -> bytes -> option A),
    (forall x, H x <> []) ->
    forall (c0 : chain A) (ops : list (op A)) (s d : bytes) (n : N),
      c_kv A c0 = [] -> NoSelf A c0 -> c_name A c0 <> [] -> noslash (c_name A c0) ->
      Forall (op_wf (A:=A)) ops -> Forall (op_noself A (c_name A c0)) ops ->
      wfk s d n -> s <> c_name A c0 ->
      let c := run A H has_route on_recv on_ack c0 ops in
      (commit_at A c s d n <> None -> receipt_at A c s d n <> None) /\
      (ack_at A c s d n <> None -> receipt_at A c s d n <> None \/ n <= clean_seq A c s d) /\
      (ack_at A c s d n <> None -> commit_at A c s d n = None).
Proof.
  intros A H hr orc oa NE c0 ops s d n KV NS NN NSL FW FN W SN c.
  assert (G : Good A (run A H hr orc oa c0 ops)).
  { apply run_Good; [exact NE|exact FW|exact FN|].
    exact (conj NS (conj NN (conj NSL (InvA_empty A c0 KV)))). }
  destruct G as (_ & _ & _ & I). apply I; [exact W|].
  assert (NM : forall ops c1, c_name A (run A H hr orc oa c1 ops) = c_name A c1).
  { clear. induction ops as [|o ops IH]; intros c1; [reflexivity|].
    unfold Keeper.run. cbn [fold_left]. fold (run A H hr orc oa (fst (step A H hr orc oa c1 o)) ops).
    rewrite IH. unfold Keeper.step. destruct (exec A H hr orc oa c1 o) as [[c2 ev]|] eqn:E; cbn [fst]; [|reflexivity].
    eapply exec_name; exact E. }
  rewrite NM. exact SN.
Qed.
Print Assumptions C03_ack_excludes_commitment.

Example C03_nonvacuous :
  let ack_ops := [OAck xp1 mock_ack (PGenuine nameB (ack_key nameA nameB 1)) 3;
                  OAck xp1 mock_ack (PGenuine nameB (ack_key nameA nameB 1)) 3] in
  let clB1 := mkClient [(hkey 3, ([(ack_key nameA nameB 1, mock_ack)] : fmap bytes, 100))] 3 1000 in
  let cA := mkChain unit nameA [(commit_key nameA nameB 1, of_string "x")] [(nameB, clB1)] None 200 tt in
  mrun_log cA ack_ops = [EAck xp1 mock_ack; EAppAck xp1 mock_ack].
Proof. vm_compute. reflexivity. Qed.
