(** C04 / C05 (history level, totals) -- the NFT instance of the cross-chain
    count inequality, and "an error-acknowledged delivery credits nothing" closed
    over histories.  Statements only; proofs in Net/AppNetNftSum.v (the proof of
    Net/AppNetSumIneq.v, generic in the application port) and Net/AppNetNoCredit.v. *)
From Tibc Require Import Base.Bytes Base.FMap Host.Keys Host.KeysFacts Routing.Rules
  Packet.Types Packet.Keeper Packet.KeeperFacts Packet.Invariants Packet.AckOnce
  Net.Net Net.Explained Net.NetInv
  Apps.Path Apps.Nft Apps.NftFacts Apps.Mt Apps.MtFacts Apps.App Apps.AppFacts Harness.AppNet
  Net.AppNetSim Net.AppNetFacts Net.AppNetConserve Net.AppNetNoSelf Net.AppNetSums Net.AppNetCount
  Net.AppNetSumIneq Net.AppNetNftSum Net.AppNetNoCredit.
From Tibc Require Import Properties.Example Properties.C05HistNet Properties.C05HistSum Properties.C05HistTotal.

(** the sum inequality for any application port PT and any weight wd on the
    packet data: credits = j's success acknowledgements of relay-free packets
    NA -> NB on port PT; refunds = i's processed error acknowledgements of
    relay-free packets NA -> NB on port PT; commitments = all of i's ESend
    NA -> NB (port and relay are not bound by the commitment).
    Premises: [hist_ok] (Properties/C05HistSum.v), '/'-free names. *)
Theorem C04total_sum_ineq_port :
  forall (nft_escrow mt_escrow NA NB : bytes) (wd : bytes -> N) (PT : bytes) (n0 : anet) (ops : list anop)
         (i : nat) (ci : chain app_state) (j : nat) (cj : chain app_state),
    hist_ok n0 ops -> noslash NA -> noslash NB ->
    nth_error (anrun nft_escrow mt_escrow n0 ops) i = Some ci -> c_name app_state ci = NA ->
    nth_error (anrun nft_escrow mt_escrow n0 ops) j = Some cj -> c_name app_state cj = NB ->
    credited_sum_g NA NB wd PT (log_of j (anrun_log nft_escrow mt_escrow n0 ops)) +
    refunded_sum_g NA NB wd PT (log_of i (anrun_log nft_escrow mt_escrow n0 ops))
      <= sent_sum_g NA NB wd (log_of i (anrun_log nft_escrow mt_escrow n0 ops)).
Proof. exact a_sum_ineq_g. Qed.
Print Assumptions C04total_sum_ineq_port.

(** NFT: (number of successful NFT deliveries on j of relay-free packets from i)
    + (number of NFT refunds on i) <= (number of i's commitments to j): no token
    is credited more often than it was sent, and none is both credited and refunded *)
Theorem C04total_nft_count :
  forall (nft_escrow mt_escrow NA NB : bytes) (n0 : anet) (ops : list anop)
         (i : nat) (ci : chain app_state) (j : nat) (cj : chain app_state),
    hist_ok n0 ops -> noslash NA -> noslash NB ->
    nth_error (anrun nft_escrow mt_escrow n0 ops) i = Some ci -> c_name app_state ci = NA ->
    nth_error (anrun nft_escrow mt_escrow n0 ops) j = Some cj -> c_name app_state cj = NB ->
    credited_sum_g NA NB (fun _ => 1) NFT_PORT (log_of j (anrun_log nft_escrow mt_escrow n0 ops)) +
    refunded_sum_g NA NB (fun _ => 1) NFT_PORT (log_of i (anrun_log nft_escrow mt_escrow n0 ops))
      <= sent_sum_g NA NB (fun _ => 1) (log_of i (anrun_log nft_escrow mt_escrow n0 ops)).
Proof. exact a_nft_count_ineq. Qed.
Print Assumptions C04total_nft_count.

(** the MT ledger invariant (sum of balances = supply <= 2^64-1, C05) is an
    application-network invariant when no step sets the application state directly
    ([anop_noset]: no ANet (NChain _ _ (OSetApp _)); user transactions and
    callbacks are the only writers) *)
Theorem C04total_ledger_invariant :
  forall (nft_escrow mt_escrow : bytes) (ops : list anop) (n : anet),
    Forall anop_noset ops -> apps_ok n -> apps_ok (anrun nft_escrow mt_escrow n ops).
Proof. exact anrun_apps_ok. Qed.
Print Assumptions C04total_ledger_invariant.

(** HISTORY LEVEL "an error-acknowledged delivery credits nothing": after any
    history [pre] (without OSetApp, from chains satisfying the ledger invariant),
    every step that delivers p and writes an error acknowledgement for it leaves,
    on the delivering chain, all MT balances and supplies and the whole NFT state
    unchanged (MT port), resp. all NFT tokens and the whole MT state (NFT port). *)
Theorem C04total_err_delivery_credits_nothing :
  forall (nft_escrow mt_escrow : bytes) (n0 : anet) (pre : list anop) (o : anop) (n' : anet)
         (ev : list event) (p : packet) (a : bytes),
    apps_ok n0 -> Forall anop_noset pre ->
    anstep nft_escrow mt_escrow (anrun nft_escrow mt_escrow n0 pre) o = (n', Some ev) ->
    In (EDeliver p) ev -> In (EWriteAck p a) ev -> is_err_ack a = true ->
    exists cj cj',
      nth_error (anrun nft_escrow mt_escrow n0 pre) (anop_chain o) = Some cj /\
      nth_error n' (anop_chain o) = Some cj' /\
      (p_port p = MT_PORT ->
         same_amounts (a_mt (c_app app_state cj')) (a_mt (c_app app_state cj)) /\
         a_nft (c_app app_state cj') = a_nft (c_app app_state cj)) /\
      (p_port p = NFT_PORT ->
         same_tokens (a_nft (c_app app_state cj')) (a_nft (c_app app_state cj)) /\
         a_mt (c_app app_state cj') = a_mt (c_app app_state cj)).
Proof. exact a_err_delivery_credits_nothing. Qed.
Print Assumptions C04total_err_delivery_credits_nothing.

(** * non-vacuity *)
(** an NFT history: class issued, token minted, sent from A to B, delivered and
    credited on B, acknowledged on A: 1 credit + 0 refunds <= 1 commitment *)
Definition f_cls := of_string "kitty".
Definition f_id := of_string "tom".
Definition f_pkt : packet :=
  mkPacket 1 nameA nameB [] NFT_PORT (enc_nft (mkNftData f_cls f_id (of_string "uri") x_alice x_bob true [])).
Definition f_ops : list anop :=
  [ ANet (NCreate 0 1 100 2 90 1000); ANet (NCreate 1 0 100 2 90 1000);
    AUser 0 100 (UNftIssue f_cls x_alice);
    AUser 0 100 (UNftMint f_cls f_id (of_string "uri") x_alice x_alice);
    AUser 0 100 (UNftSend f_cls f_id x_alice x_bob nameB [] []);
    ANet (NUpd 1 0 110 5 105);
    ANet (NChain 1 120 (ORecv f_pkt x_pf 5));
    ANet (NUpd 0 1 130 7 125);
    ANet (NChain 0 140 (OAck f_pkt ack_ok x_apf 7)) ].

Example C04total_nft_count_nonvacuous :
  hist_ok x_n0 f_ops /\ noslash nameA /\ noslash nameB /\
  anrun_log x_nesc x_mesc x_n0 f_ops =
    [(0%nat, ESend f_pkt); (1%nat, ERecv f_pkt); (1%nat, EDeliver f_pkt); (1%nat, EWriteAck f_pkt ack_ok);
     (0%nat, EAck f_pkt ack_ok); (0%nat, EAppAck f_pkt ack_ok)] /\
  (credited_sum_g nameA nameB (fun _ => 1) NFT_PORT (log_of 1 (anrun_log x_nesc x_mesc x_n0 f_ops)),
   refunded_sum_g nameA nameB (fun _ => 1) NFT_PORT (log_of 0 (anrun_log x_nesc x_mesc x_n0 f_ops)),
   sent_sum_g nameA nameB (fun _ => 1) (log_of 0 (anrun_log x_nesc x_mesc x_n0 f_ops))) = (1, 0, 1).
Proof.
  destruct noslash_AB as [SA SB].
  split; [|split; [exact SA|split; [exact SB|split; vm_compute; reflexivity]]].
  split; [exact x_n0_init|]. split; [exact x_names_nodup|].
  split; [repeat constructor; cbn; unfold wfp; cbn; try exact I; reflexivity | repeat constructor].
Qed.

(** the MT refund history: its delivery step on B (step 7 of x_refund) writes an
    error acknowledgement; premises of C04total_err_delivery_credits_nothing hold *)
Definition x_refund_pre : list anop := firstn 6 x_refund.
Definition x_refund_step : anop := ANet (NChain 1 120 (ORecv x_pkt2 x_pf 5)).

Lemma x_apps_ok : apps_ok x_n0.
Proof.
  intros i ci Hi. destruct i as [|[|i]]; cbn in Hi.
  - inversion Hi; subst. exact AppInv_init.
  - inversion Hi; subst. exact AppInv_init.
  - destruct i; discriminate.
Qed.

Example C04total_err_delivery_credits_nothing_nonvacuous :
  apps_ok x_n0 /\ Forall anop_noset x_refund /\ Forall anop_noset x_refund_pre /\
  x_refund = x_refund_pre ++ x_refund_step :: skipn 7 x_refund /\
  snd (anstep x_nesc x_mesc (anrun x_nesc x_mesc x_n0 x_refund_pre) x_refund_step) =
    Some [ERecv x_pkt2; EDeliver x_pkt2; EWriteAck x_pkt2 ack_err] /\
  is_err_ack ack_err = true /\ p_port x_pkt2 = MT_PORT.
Proof.
  split; [exact x_apps_ok|].
  split; [repeat constructor|]. split; [repeat constructor|].
  split; [reflexivity|]. split; [vm_compute; reflexivity|]. split; vm_compute; reflexivity.
Qed.
