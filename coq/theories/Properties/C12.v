(** C12 — routing rules mean exactly field-wise match with '*' wildcards.
    Statements only; proofs are in Routing/RulesFacts.v. *)
From Tibc Require Import Base.Bytes Routing.Rules Routing.RulesFacts.

(** a rule set is accepted iff every rule is three comma-separated fields,
    each a valid identifier or a single '*' *)
Theorem C12_set_rules_accept_iff : forall rs,
  (exists st, set_rules rs = Some st) <->
  Forall (fun r => exists a b c, is_rule_of r a b c /\
            valid_field a = true /\ valid_field b = true /\ valid_field c = true) rs.
Proof.
  intros rs. rewrite set_rules_accept_iff. rewrite !Forall_forall.
  split; intros H r Hr; apply valid_rule_iff; apply H; exact Hr.
Qed.
Print Assumptions C12_set_rules_accept_iff.

Theorem C12_set_rules_stores_exactly : forall rs st, set_rules rs = Some st -> st = rs.
Proof. exact set_rules_stores. Qed.
Print Assumptions C12_set_rules_stores_exactly.

(** a triple is authorised iff some stored rule matches field by field *)
Theorem C12_authenticate_iff : forall stored s d p,
  authenticate stored s d p = true <->
  exists rs r a b c, stored = Some rs /\ In r rs /\ is_rule_of r a b c /\
                     fmatch a s /\ fmatch b d /\ fmatch c p.
Proof. exact authenticate_iff. Qed.
Print Assumptions C12_authenticate_iff.

(** any non-'*' field matches only the identical string *)
Theorem C12_literal_field_exact : forall f x, is_ident f = true -> (fmatch f x <-> f = x).
Proof. exact literal_field_exact. Qed.
Print Assumptions C12_literal_field_exact.

Theorem C12_no_rules_nothing : forall s d p,
  authenticate None s d p = false /\ authenticate (Some []) s d p = false.
Proof. exact no_rules_nothing. Qed.
Print Assumptions C12_no_rules_nothing.

(** non-vacuity: the rule "a+b,*,[x]" is valid, matches (a+b, zz, [x]) and
    does not match (aab, zz, [x]) nor (a+b, zz, x) *)
Example C12_nonvacuous :
  let r := of_string "a+b,*,[x]" in
  valid_rule r = true /\
  authenticate (set_rules [r]) (of_string "a+b") (of_string "zz") (of_string "[x]") = true /\
  authenticate (set_rules [r]) (of_string "aab") (of_string "zz") (of_string "[x]") = false /\
  authenticate (set_rules [r]) (of_string "a+b") (of_string "zz") (of_string "x") = false.
Proof. vm_compute. auto. Qed.
