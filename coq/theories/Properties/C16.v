(** C16 — genesis export and re-import preserve all protocol state.
    Statements only; the model is Genesis/Export.v (the tibc KVStore as a list of
    byte keys and values, [export] / [import] as coded, a panic is [None]), the
    proofs are in Genesis/{ExportFacts,Continuation,Witness}.v.

    [wf_store s]: the keys of [s] are distinct and each is one the protocol's key
    builders produce from '/'-free names and uint64 numbers: chainName,
    Routing/Rules, relayers<name>, clients/<name>/clientState (a registered client
    type), clients/<name>/consensusStates/<16 height bytes> (ANY uint64 revision and
    height), clients/<name>/<any key selected by the ExportMetadata of that client's
    type>, {commitments,receipts,acks}/<a>/<b>/sequences/<n> (receipts hold 0x01),
    nextSequenceSend/<a>/<b> (8 bytes), clean/<a>/<b>, maxAckSeq/<a>/<b>.
    [expected s k]: chainName -> the chain name; Routing/Rules -> the rules value
    (an absent or "null" list re-encoded as "[]"); any key under clean/ or maxAckSeq/
    -> nothing; every other key -> what [s] holds. *)
From Tibc Require Import Base.Bytes Base.FMap Host.Keys Host.KeysFacts Packet.Types Packet.Keeper
  Apps.Path Apps.Nft Apps.Mt Genesis.Export Genesis.ExportFacts Genesis.Continuation Genesis.Witness.

(** the export of a well-formed store never panics *)
Theorem C16_export_total : forall s, wf_store s -> exists g, export s = Some g.
Proof. exact export_total. Qed.
Print Assumptions C16_export_total.

(** the re-imported store, for EVERY key: covered families come back byte for
    byte, nothing else appears, the uncovered families are gone *)
Theorem C16_roundtrip_covered : forall s, wf_store s ->
  exists g, export s = Some g /\ forall k, lookup k (import g) = expected s k.
Proof. exact roundtrip. Qed.
Print Assumptions C16_roundtrip_covered.

(** a consensus state at ANY height survives: no condition on the bytes of the
    revision or the height (47, 303, 12032 contain '/', 795044969-7308907147052545125
    ends in "/clientState"), nor on the client name *)
Theorem C16_consensus_state_survives : forall s g name rev h,
  wf_store s -> export s = Some g ->
  lookup (cons_key name rev h) (import g) = lookup (cons_key name rev h) s.
Proof. exact consensus_state_survives. Qed.
Print Assumptions C16_consensus_state_survives.

(** ... and so does every other key of every client's sub-store: the client state,
    Tendermint processed times and iteration keys, BSC recent signers and pending
    validators, ETH header index and main-root index *)
Theorem C16_client_store_survives : forall s g name rk,
  wf_store s -> export s = Some g ->
  lookup (client_prefix name ++ rk) (import g) = lookup (client_prefix name ++ rk) s.
Proof. exact client_store_survives. Qed.
Print Assumptions C16_client_store_survives.

(** pending commitments, receipts (replay protection), acknowledgements, send sequences *)
Theorem C16_packet_families_survive : forall s g a b n,
  wf_store s -> export s = Some g ->
  lookup (commit_key a b n) (import g) = lookup (commit_key a b n) s /\
  lookup (receipt_key a b n) (import g) = lookup (receipt_key a b n) s /\
  lookup (ack_key a b n) (import g) = lookup (ack_key a b n) s /\
  lookup (next_send_key a b) (import g) = lookup (next_send_key a b) s.
Proof. exact packet_families_survive. Qed.
Print Assumptions C16_packet_families_survive.

(** relayer registry, chain name, routing rules *)
Theorem C16_registry_survives : forall s g name,
  wf_store s -> export s = Some g ->
  lookup (relayer_key name) (import g) = lookup (relayer_key name) s /\
  lookup K_chainName (import g) = Some (chain_name_of s) /\
  lookup K_rules (import g) = Some (rules_value (lookup K_rules s)).
Proof. exact registry_survives. Qed.
Print Assumptions C16_registry_survives.

Theorem C16_nothing_else_appears : forall s g k v,
  wf_store s -> export s = Some g ->
  lookup k (import g) = Some v -> k = K_chainName \/ k = K_rules \/ lookup k s = Some v.
Proof. exact nothing_else_appears. Qed.
Print Assumptions C16_nothing_else_appears.

(** NOT preserved (recorded findings): no clean point and no highest acknowledged
    sequence ever survives, whatever the store *)
Theorem C16_clean_and_max_ack_never_survive : forall s g a b,
  wf_store s -> export s = Some g ->
  lookup (clean_key a b) (import g) = None /\ lookup (maxack_key a b) (import g) = None.
Proof. exact uncovered_never_survive. Qed.
Print Assumptions C16_clean_and_max_ack_never_survive.

(** ... with the consequence, on the packet model: a chain that refuses a cleaned
    packet delivers it to the application again after being restarted from its export *)
Theorem C16_roundtrip_missing_refuted :
  exists (c : chain unit) (p : packet) (pf : proof) (h : N),
    wf_store (c_kv unit c) /\
    step unit w_H w_has_route w_on_recv w_on_ack c (ORecv p pf h) = (c, None) /\
    exists c' ev,
      step unit w_H w_has_route w_on_recv w_on_ack (reimport_chain unit c) (ORecv p pf h) = (c', Some ev) /\
      In (EDeliver p) ev /\
      lookup (clean_key (p_src p) (p_dst p)) (c_kv unit c) = Some (be64 2) /\
      lookup (clean_key (p_src p) (p_dst p)) (c_kv unit (reimport_chain unit c)) = None.
Proof.
  exists w_chainB, w_pkt, w_proof, 7. exact clean_point_lost_replay_accepted.
Qed.
Print Assumptions C16_roundtrip_missing_refuted.

(** a clean request the chain accepts is refused after the restart (highest
    acknowledged sequence lost) *)
Theorem C16_max_ack_lost_refuted :
  exists (c : chain unit) (cp : cleanpkt),
    wf_store (c_kv unit c) /\
    (exists c' ev, step unit w_H w_has_route w_on_recv w_on_ack c (OClean cp) = (c', Some ev)) /\
    step unit w_H w_has_route w_on_recv w_on_ack (reimport_chain unit c) (OClean cp) = (reimport_chain unit c, None).
Proof.
  exists w_chainA, w_clean. pose proof max_ack_lost_clean_refused as (A & B & C & _). auto.
Qed.
Print Assumptions C16_max_ack_lost_refuted.

(** the transfer applications export nothing: every class trace is gone, and then
    no voucher class ("tibc-<HASH>") can be sent by the NFT or the MT application *)
Theorem C16_class_traces_refuted :
  (forall s k, lookup k (app_reimport s) = None) /\
  (forall escrow enc name seq classes tokens class id sender receiver dest relay contract,
     has_prefix tibc_dash class = true ->
     nft_send escrow enc name seq (mkNftState classes tokens []) class id sender receiver dest relay contract = None) /\
  (forall escrow enc name seq classes mts supply bal class id sender receiver dest relay contract amt,
     has_prefix tibc_dash class = true ->
     mt_send escrow enc name seq (mkMtState classes mts supply bal []) class id sender receiver dest relay contract amt = None).
Proof.
  split; [exact traces_lost|]. split; [exact nft_voucher_stuck | exact mt_voucher_stuck].
Qed.
Print Assumptions C16_class_traces_refuted.

(** the packet sub-module's export / import alone, on any well-formed store *)
Theorem C16_packet_roundtrip : forall s, wf_store s ->
  forall k, lookup k (pkt_reimport s) = if pcovered k then lookup k s else None.
Proof. exact pkt_roundtrip. Qed.
Print Assumptions C16_packet_roundtrip.

(** continuation: when the packet store holds only exported families (no clean
    point, no highest acknowledged sequence), EVERY later history of packet
    operations, whatever the application callbacks, the hash and the routing, gives the
    same results (event log) and equal stores, clients, rules and application state on
    the chain and on the chain restarted from its export *)
Theorem C16_continuation_equal :
  forall (A : Type) (H : bytes -> bytes) (has_route : bytes -> bool)
         (on_recv : A -> packet -> option (A * option bytes)) (on_ack : A -> packet -> bytes -> option A)
         (c : chain A) (ops : list (op A)),
    exported_only (c_kv A c) ->
    run_log A H has_route on_recv on_ack c ops = run_log A H has_route on_recv on_ack (reimport_chain A c) ops /\
    (forall k, lookup k (c_kv A (run A H has_route on_recv on_ack c ops)) =
               lookup k (c_kv A (run A H has_route on_recv on_ack (reimport_chain A c) ops))) /\
    c_clients A (run A H has_route on_recv on_ack c ops) = c_clients A (run A H has_route on_recv on_ack (reimport_chain A c) ops) /\
    c_rules A (run A H has_route on_recv on_ack c ops) = c_rules A (run A H has_route on_recv on_ack (reimport_chain A c) ops) /\
    c_app A (run A H has_route on_recv on_ack c ops) = c_app A (run A H has_route on_recv on_ack (reimport_chain A c) ops).
Proof. exact continuation_equal. Qed.
Print Assumptions C16_continuation_equal.

(** every packet operation reads the store only through lookups: two chains whose
    stores answer every lookup alike are indistinguishable by any history *)
Theorem C16_history_depends_on_lookups_only :
  forall (A : Type) (H : bytes -> bytes) (has_route : bytes -> bool)
         (on_recv : A -> packet -> option (A * option bytes)) (on_ack : A -> packet -> bytes -> option A)
         (ops : list (op A)) (c c2 : chain A),
    sim A c c2 ->
    run_log A H has_route on_recv on_ack c ops = run_log A H has_route on_recv on_ack c2 ops /\
    sim A (run A H has_route on_recv on_ack c ops) (run A H has_route on_recv on_ack c2 ops).
Proof. exact run_ext. Qed.
Print Assumptions C16_history_depends_on_lookups_only.

(** non-vacuity: a store with every key family (three client types with all their
    metadata, consensus heights 47 / 303 / 12032 and one ending in "/clientState",
    relayers, rules, packets, clean point, max-ack) is well-formed; the model
    executed on it returns 23 of its 25 keys byte for byte and drops exactly the
    clean point and the highest acknowledged sequence *)
Example C16_nonvacuous :
  wf_store ex_store /\
  (In slash (height_bytes 0 47) /\ In slash (height_bytes 0 303) /\ In slash (height_bytes 0 12032) /\
   skipn 4 (height_bytes suffix_rev suffix_h) = slash :: K_clientState) /\
  exists m, reimport ex_store = Some m /\
    forallb (fun kv : bytes * bytes =>
               if covered (fst kv) || beq (fst kv) K_chainName || beq (fst kv) K_rules
               then match lookup (fst kv) m with Some v => beq v (snd kv) | None => false end
               else match lookup (fst kv) m with Some _ => false | None => true end) ex_store = true /\
    length m = 23%nat.
Proof.
  split; [exact ex_store_wf|]. split; [exact ex_heights_contain_slash | exact ex_store_roundtrip].
Qed.

(** non-vacuity of the continuation theorem's premise *)
Example C16_continuation_nonvacuous :
  exported_only [(commit_key cB cA 5, of_string "hash5"); (receipt_key cA cB 3, receipt_value);
                 (ack_key cA cB 3, of_string "ack3"); (next_send_key cB cA, be64 6)].
Proof.
  split; [apply nodupb_spec; vm_compute; reflexivity|].
  apply all_entries. repeat (apply Forall_cons; [cbn [fst snd]|]); [..|apply Forall_nil].
  - apply (PE_seq K_commit cB cA 5); [unfold seq_fam; tauto | ns | ns | lt64 |].
    intros X. apply beq_spec in X. vm_compute in X. discriminate.
  - apply (PE_seq K_receipt cA cB 3); [unfold seq_fam; tauto | ns | ns | lt64 | reflexivity].
  - apply (PE_seq K_ack cA cB 3); [unfold seq_fam; tauto | ns | ns | lt64 |].
    intros X. apply beq_spec in X. vm_compute in X. discriminate.
  - apply (PE_send cB cA 6); [ns | ns | lt64].
Qed.

(** the loss of the highest acknowledged sequence is noticed by clean requests ONLY:
    with no clean point in the store (highest acknowledged sequences may be there), every
    history without clean requests gives the same results, and stores equal outside
    maxAckSeq/, on the chain and on the chain restarted from its export *)
Theorem C16_continuation_equal_modulo_max_ack :
  forall (A : Type) (H : bytes -> bytes) (has_route : bytes -> bool)
         (on_recv : A -> packet -> option (A * option bytes)) (on_ack : A -> packet -> bytes -> option A)
         (c : chain A) (ops : list (op A)),
    no_clean_points (c_kv A c) -> Forall (no_clean_op A) ops ->
    run_log A H has_route on_recv on_ack c ops = run_log A H has_route on_recv on_ack (reimport_chain A c) ops /\
    (forall k, is_maxack k = false ->
               lookup k (c_kv A (run A H has_route on_recv on_ack c ops)) =
               lookup k (c_kv A (run A H has_route on_recv on_ack (reimport_chain A c) ops))) /\
    c_clients A (run A H has_route on_recv on_ack c ops) = c_clients A (run A H has_route on_recv on_ack (reimport_chain A c) ops) /\
    c_rules A (run A H has_route on_recv on_ack c ops) = c_rules A (run A H has_route on_recv on_ack (reimport_chain A c) ops) /\
    c_app A (run A H has_route on_recv on_ack c ops) = c_app A (run A H has_route on_recv on_ack (reimport_chain A c) ops).
Proof. exact continuation_equal_modulo_max_ack. Qed.
Print Assumptions C16_continuation_equal_modulo_max_ack.
