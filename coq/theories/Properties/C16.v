(** C16 — placeholder while the facts are being proved *)
From Tibc Require Import Base.Bytes Genesis.Export.
Theorem C16_stub : app_reimport [] = [].
Proof. reflexivity. Qed.
Print Assumptions C16_stub.
