(** C17 — the BSC client follows only a correctly sealed, hash-linked header chain.
    Statements only; proofs are in Clients/BscFacts.v, BscHistory.v, BscWitness.v.

    Model: Clients/Bsc.v.  [direct] = ClientState.CheckHeaderAndUpdateState on a client store,
    [update_client] = 02-client keeper.UpdateClient, [step]/[run] = MsgUpdateClient transactions
    (writes kept iff no error).  Block hash and seal recovery are fields of the model header. *)
From Tibc Require Import Base.Bytes Clients.Bsc Clients.BscFacts Clients.BscHistory Clients.BscWitness.
From Coq Require Import PeanoNat Permutation.
Open Scope N_scope.

(** Acceptance, exactly as the code decides it (every state, every header): the consensus state of the
    latest height exists, and [accept_rule]: sanity of extra/mix/uncle, validators listed only on epoch
    blocks, direct child of the latest header (number and hash), gas limits within bounds, sealed by
    the coinbase, who is a member of the validator set, not blocked by a stored recent-signer entry
    ([not_recent]: no entry of that signer with height > number - (floor(N/2)+1), uint64 subtraction),
    difficulty 2 iff in turn, else 1. *)
Theorem C17_accept_iff : forall st h,
  (exists st' cs, direct st h = (st', Some cs)) <->
  has_latest_cons st /\ exists s, accept_rule st h s.
Proof.
  intros st h. split.
  - intros [st' [cs H]]. apply direct_accept_iff in H. destruct H as [L [s [A _]]]. eauto.
  - intros [L [s A]]. exists (accepted_state st h s), (new_cons h). apply direct_accept_iff. eauto.
Qed.
Print Assumptions C17_accept_iff.

(** exact effect of an accepted header: latest header, validator set, pending set, recent signers,
    and the returned consensus state (time, height, root of the header) *)
Theorem C17_accept_effect : forall st h st' cs, direct st h = (st', Some cs) ->
  exists s, accept_rule st h s /\ st' = accepted_state st h s /\ cs = new_cons h.
Proof. intros st h st' cs H. apply direct_accept_iff in H. destruct H as [_ [s H]]. eauto. Qed.
Print Assumptions C17_accept_effect.

(** a refused header at the level of a direct call: nothing changes, except that a header refused
    only for its difficulty leaves its own signer entry behind (SetSigner precedes the check) *)
Theorem C17_direct_reject : forall st h st', direct st h = (st', None) ->
  st' = st \/ exists s, recovered h = Some s /\ st' = set_recents st (sealed_recents st h s).
Proof. exact direct_reject. Qed.
Print Assumptions C17_direct_reject.

(** keeper.UpdateClient: accepted iff the client is Active and the header satisfies [accept_rule];
    the new state is then determined *)
Theorem C17_update_client_iff : forall st now h st', update_client st now h = Some st' <->
  status_active st now = true /\
  exists s, accept_rule st h s /\
            st' = set_cons (accepted_state st h s) (pset (hheight h) (new_cons h) (s_cons st)).
Proof. exact update_client_iff. Qed.
Print Assumptions C17_update_client_iff.

(** after acceptance the latest header and the consensus state stored for its height are the header's *)
Theorem C17_update_effect : forall st now h st', update_client st now h = Some st' ->
  s_header st' = h /\
  plookup (hheight h) (s_cons st') = Some (Cons (h_time h) (hheight h) (h_root h)) /\
  (forall k, k <> hheight h -> plookup k (s_cons st') = plookup k (s_cons st)) /\
  s_epoch st' = s_epoch st /\ s_trusting st' = s_trusting st.
Proof. exact update_client_effect. Qed.
Print Assumptions C17_update_effect.

(** a refused update transaction changes nothing *)
Theorem C17_reject_changes_nothing : forall st now h,
  update_client st now h = None -> step st (now, h) = st.
Proof. exact step_reject. Qed.
Print Assumptions C17_reject_changes_nothing.

(** Recent-signer window, over ALL histories: starting from a state that satisfies the invariant
    (e.g. a client without recent-signer entries, [C17_fresh_client]) and presenting any list of
    well-formed headers (accepted or not), the store stays sound w.r.t. the ghost record of who sealed
    which accepted block, is complete on [g_lo, latest] (g_lo = max over accepted blocks n of
    n+1-(floor(N_after n / 2)+1)), has unique heights and 20-byte values *)
Theorem C17_recents_window : forall g is,
  ginv g -> Forall (fun i => hdr_wf (snd i)) is ->
  ginv (grun g is) /\ g_st (grun g is) = run (g_st g) is.
Proof. intros g is I F. split; [apply grun_inv; assumption | apply grun_state]. Qed.
Print Assumptions C17_recents_window.

Theorem C17_fresh_client : forall st, st_wf st -> s_recents st = [] ->
  ginv (G st (fun _ => None) (h_num (s_header st) + 1)).
Proof. exact ginv_fresh. Qed.
Print Assumptions C17_fresh_client.

(** movement of the covered window's lower end; coverage is inherited by the next header unless the
    limit floor(N/2)+1 grows by more than one at that step *)
Theorem C17_window_lower_end : forall g now h,
  match update_client (g_st g) now h with
  | Some st' => g_st (gstep g (now, h)) = st' /\
                g_lo (gstep g (now, h)) = N.max (g_lo g) (h_num h + 1 - seal_limit st')
  | None => gstep g (now, h) = g
  end.
Proof. exact g_lo_step. Qed.
Print Assumptions C17_window_lower_end.

Theorem C17_window_cover_inherited : forall g now h st', update_client (g_st g) now h = Some st' ->
  g_lo g + seal_limit (g_st g) <= h_num h + 1 ->
  seal_limit st' <= seal_limit (g_st g) + 1 ->
  g_lo (gstep g (now, h)) + seal_limit st' <= (h_num h + 1) + 1.
Proof. exact window_cover_step. Qed.
Print Assumptions C17_window_cover_inherited.

(** under the invariant the code's rule on stored entries is "sealed none of the preceding floor(N/2)
    blocks", provided number >= floor(N/2)+1 and the store covers that window *)
Theorem C17_recent_rule_history : forall g num s,
  ginv g -> num = h_num (s_header (g_st g)) + 1 ->
  seal_limit (g_st g) <= num -> g_lo g + seal_limit (g_st g) <= num + 1 ->
  (not_recent (g_st g) num s <->
   sealed_none_of_preceding (g_sig g) num (seal_limit (g_st g) - 1) s).
Proof. exact not_recent_history. Qed.
Print Assumptions C17_recent_rule_history.

(** the property's conjunction, positive form *)
Theorem C17_accept_iff_property : forall g now h,
  ginv g -> hdr_wf h ->
  seal_limit (g_st g) <= h_num h ->
  g_lo g + seal_limit (g_st g) <= h_num h + 1 ->
  ((exists st', update_client (g_st g) now h = Some st') <->
   status_active (g_st g) now = true /\ property_rule g h).
Proof. exact update_accept_iff_history. Qed.
Print Assumptions C17_accept_iff_property.

(** ... and both guards are necessary: the faithful model violates the unguarded property *)
Theorem C17_recent_rule_below_limit_refuted : exists g now h s st',
  ginv g /\ hdr_wf h /\
  g_lo g + seal_limit (g_st g) <= h_num h + 1 /\
  h_num h < seal_limit (g_st g) /\
  update_client (g_st g) now h = Some st' /\ recovered h = Some s /\
  ~ sealed_none_of_preceding (g_sig g) (h_num h) (seal_limit (g_st g) - 1) s.
Proof. exact recent_rule_below_limit_refuted. Qed.
Print Assumptions C17_recent_rule_below_limit_refuted.

Theorem C17_recent_rule_after_growth_refuted : exists g now h s st',
  ginv g /\ hdr_wf h /\
  seal_limit (g_st g) <= h_num h /\
  update_client (g_st g) now h = Some st' /\ recovered h = Some s /\
  ~ sealed_none_of_preceding (g_sig g) (h_num h) (seal_limit (g_st g) - 1) s.
Proof. exact recent_rule_after_growth_refuted. Qed.
Print Assumptions C17_recent_rule_after_growth_refuted.

(** rotation: the set announced by an accepted epoch header e is pending from e on and is the
    validator set exactly from the acceptance of block e + floor(N/2) on (N = size of the set in
    force at e), i.e. it decides about blocks from e + floor(N/2) + 1 on and not before — whatever is
    presented in between *)
Theorem C17_rotation_exact : forall st0 now0 he st1, update_client st0 now0 he = Some st1 ->
  st_wf st0 -> hdr_wf he -> h_num he mod s_epoch st0 = 0 ->
  forall is, Forall (fun i => hdr_wf (snd i)) is ->
  let st := run st1 is in
  let d := h_num (s_header st) - h_num he in
  h_num he <= h_num (s_header st) /\ st_wf st /\ s_epoch st = s_epoch st0 /\
  (d < s_epoch st0 ->
   s_pending st = parse_validators (h_extra he) /\
   s_validators st = (if N.of_nat (length (s_validators st0) / 2) <=? d
                      then parse_validators (h_extra he) else s_validators st0)).
Proof. exact rotation_exact. Qed.
Print Assumptions C17_rotation_exact.

(** one step of rotation in every state *)
Theorem C17_rotation_step : forall st now h st', update_client st now h = Some st' ->
  s_pending st' = (if h_num h mod s_epoch st =? 0 then parse_validators (h_extra h) else s_pending st) /\
  s_validators st' = (if h_num h mod s_epoch st =? N.of_nat (length (s_validators st) / 2)
                      then s_pending st' else s_validators st).
Proof. exact update_client_sets. Qed.
Print Assumptions C17_rotation_step.

(** the Go map iterations: validators() is the ascending list of the SET of validators, whatever the
    order (and multiplicity) in which they are stored or iterated; the recent-signer loop is an
    existential over the entries *)
Theorem C17_validators_order_independent : forall vs vs',
  (forall x, In x (map to_addr vs) <-> In x (map to_addr vs')) -> sorted_vals vs = sorted_vals vs'.
Proof. exact sorted_vals_order_independent. Qed.
Print Assumptions C17_validators_order_independent.

Theorem C17_recent_loop_order_independent : forall (f : N * bytes -> bool) l l',
  Permutation l l' -> existsb f l = existsb f l'.
Proof. exact (@existsb_perm (N * bytes)). Qed.
Print Assumptions C17_recent_loop_order_independent.

Theorem C17_inturn_is_index_number_mod_N : forall st h s,
  st_wf st -> hdr_wf h -> child_rule (s_header st) h ->
  inturn st s =
  beq (nth (N.to_nat (h_num h mod N.of_nat (length (sorted_vals (s_validators st)))))
           (sorted_vals (s_validators st)) []) s.
Proof. exact inturn_child. Qed.
Print Assumptions C17_inturn_is_index_number_mod_N.

(** with both gas limits below 2^63 the int64 arithmetic of the bound is the absolute difference *)
Theorem C17_gas_bound_is_absolute_difference : forall p g, p < two63 -> g < two63 ->
  gas_absdiff p g = if g <=? p then p - g else g - p.
Proof. exact gas_absdiff_small. Qed.
Print Assumptions C17_gas_bound_is_absolute_difference.

(** non-vacuity *)
Example C17_accept_nonvacuous : exists g now h st',
  ginv g /\ hdr_wf h /\ seal_limit (g_st g) <= h_num h /\ g_lo g + seal_limit (g_st g) <= h_num h + 1 /\
  update_client (g_st g) now h = Some st' /\ s_header st' = h.
Proof. exact accept_history_nonvacuous. Qed.

Example C17_reject_nonvacuous :
  let st := run gr_st0 (firstn 2 gr_chain) in
  let bad := whdr 7 B 1 [] in
  update_client st 5 bad = None /\ step st (5, bad) = st /\
  fst (direct st bad) = set_recents st (sealed_recents st bad B) /\ fst (direct st bad) <> st.
Proof. exact reject_nonvacuous. Qed.

Example C17_rotation_nonvacuous :
  let st7 := run gr_st0 (firstn 3 gr_chain) in
  let st8 := run gr_st0 (firstn 4 gr_chain) in
  let st9 := run gr_st0 gr_chain in
  update_client st7 5 (whdr 8 C 2 vals9) = Some st8 /\
  h_num (whdr 8 C 2 vals9) mod s_epoch st7 = 0 /\
  s_validators st8 = vals3 /\ s_pending st8 = vals9 /\ s_validators st9 = vals9.
Proof. exact rotation_nonvacuous. Qed.
