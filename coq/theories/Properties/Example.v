(** A small concrete chain state used by the non-vacuity examples. *)
From Tibc Require Import Base.Bytes Base.FMap Host.Keys Routing.Rules Packet.Types Packet.Keeper Harness.Net.

Definition nameA := of_string "chain-aaaa".
Definition nameB := of_string "chain-bbbb".
Definition nameC := of_string "chain-cccc".
Definition xp1 := mkPacket 1 nameA nameB [] mock_port (of_string "x").
(* chain A's store after it sent xp1 *)
Definition snapA : fmap bytes := [(commit_key nameA nameB 1, of_string "x")].
Definition clA := mkClient [(hkey 5, (snapA, 100))] 5 1000.
Definition clB0 := mkClient [(hkey 3, ([] : fmap bytes, 100))] 3 1000.
(* chain B: knows A at height 5 *)
Definition xcB := mkChain unit nameB [] [(nameA, clA)] None 200 tt.
(* chain A after the send: has a client for B *)
Definition xcA := mkChain unit nameA
  [(commit_key nameA nameB 1, of_string "x"); (next_send_key nameA nameB, be64 2)]
  [(nameB, clB0)] None 200 tt.
Definition xpf := PGenuine nameA (commit_key nameA nameB 1).

Definition mexec := exec unit idH mock_has_route mock_on_recv mock_on_ack.
Definition mrun := run unit idH mock_has_route mock_on_recv mock_on_ack.
Definition mrun_log := run_log unit idH mock_has_route mock_on_recv mock_on_ack.
