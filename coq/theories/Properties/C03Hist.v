(** C03 (history level) -- acknowledgements are processed at most once and never
    overwritten, under a hash premise the harness' identity hash satisfies.
    Statements only; proofs in Packet/AckOnceWeak.v and Net/AppNetAckOnce.v.

    Properties/C03.v states C03_ack_needs_own_commitment, C03_second_ack_refused,
    C03_relay_ack_never_overwrites and C03_ack_excludes_commitment under
    [forall x, H x <> []], which NO function with H [] = [] satisfies -- in
    particular not the identity idH used by the mock and the application networks.
    Here the premise is [forall x, x <> [] -> H x <> []]: the hashed values are
    packet data, non-empty by Packet.ValidateBasic. *)
From Tibc Require Import Base.Bytes Base.FMap Host.Keys Host.KeysFacts Routing.Rules
  Packet.Types Packet.Keeper Packet.KeeperFacts Packet.Invariants Packet.AckOnce Packet.AckOnceWeak
  Net.Net Net.Explained Net.NetInv Apps.Path Apps.Nft Apps.Mt Apps.App Harness.AppNet
  Net.AppNetSim Net.AppNetFacts Net.AppNetConserve Net.AppNetNoSelf Net.AppNetAckOnce.
From Tibc Require Import Properties.Example Properties.C05HistNet.

(** single chain, any application *)
Theorem C03hist_ack_needs_own_commitment :
  forall (A : Type) (H : bytes -> bytes) (has_route : bytes -> bool)
         (on_ack : A -> packet -> bytes -> option A),
    (forall x, x <> [] -> H x <> []) ->
    forall (c : chain A) (p : packet) (a : bytes) (pf : proof) (h : N) (c' : chain A) (ev : list event),
      msg_ack A H has_route on_ack c p a pf h = Some (c', ev) ->
      commit_at A c (p_src p) (p_dst p) (p_seq p) = Some (H (p_data p)) /\
      commit_at A c' (p_src p) (p_dst p) (p_seq p) = None.
Proof. exact ack_needs_own_commitment_w. Qed.
Print Assumptions C03hist_ack_needs_own_commitment.

Theorem C03hist_second_ack_refused :
  forall (A : Type) (H : bytes -> bytes) (has_route : bytes -> bool)
         (on_ack : A -> packet -> bytes -> option A),
    (forall x, x <> [] -> H x <> []) ->
    forall (c : chain A) (p : packet) (a : bytes) (pf : proof) (h : N) (c' : chain A) (ev : list event)
           (a2 : bytes) (pf2 : proof) (h2 : N),
      msg_ack A H has_route on_ack c p a pf h = Some (c', ev) ->
      msg_ack A H has_route on_ack c' p a2 pf2 h2 = None.
Proof. exact second_ack_refused_w. Qed.
Print Assumptions C03hist_second_ack_refused.

Theorem C03hist_relay_ack_never_overwrites_chain :
  forall (A : Type) (H : bytes -> bytes) (has_route : bytes -> bool)
         (on_recv : A -> packet -> option (A * option bytes))
         (on_ack : A -> packet -> bytes -> option A),
    (forall x, x <> [] -> H x <> []) ->
    forall (c0 : chain A) (ops : list (op A)) (p : packet) (a : bytes) (pf : proof) (h : N)
           (c' : chain A) (ev : list event),
      c_kv A c0 = [] -> NoSelf A c0 -> c_name A c0 <> [] -> noslash (c_name A c0) ->
      Forall (op_wf (A:=A)) ops -> Forall (op_noself A (c_name A c0)) ops -> wfp p ->
      ack_packet A H (run A H has_route on_recv on_ack c0 ops) p a pf h = Some (c', ev) ->
      p_relay p = c_name A (run A H has_route on_recv on_ack c0 ops) ->
      ack_at A (run A H has_route on_recv on_ack c0 ops) (p_src p) (p_dst p) (p_seq p) = None.
Proof. exact relay_ack_never_overwrites_w. Qed.
Print Assumptions C03hist_relay_ack_never_overwrites_chain.

(** application-network histories.  Premises: [hist_ok] (empty initial stores,
    pairwise different names, anop_ok, no light client of oneself -- see
    Properties/C05HistSum.v) and [names_ok]: chain names non-empty and '/'-free. *)
Theorem C03hist_relay_ack_never_overwrites :
  forall (nft_escrow mt_escrow : bytes) (n0 : anet) (ops : list anop) (i : nat) (ci : chain app_state)
         (now : N) (p : packet) (a : bytes) (pf : proof) (h : N) (c' : chain app_state) (ev : list event),
    hist_ok n0 ops -> names_ok app_state n0 ->
    nth_error (anrun nft_escrow mt_escrow n0 ops) i = Some ci -> wfp p ->
    ack_packet app_state idH (with_now app_state ci now) p a pf h = Some (c', ev) ->
    p_relay p = c_name app_state ci ->
    ack_at app_state ci (p_src p) (p_dst p) (p_seq p) = None.
Proof. exact a_relay_ack_never_overwrites. Qed.
Print Assumptions C03hist_relay_ack_never_overwrites.

Theorem C03hist_ack_excludes_commitment :
  forall (nft_escrow mt_escrow : bytes) (n0 : anet) (ops : list anop) (i : nat) (ci : chain app_state)
         (s d : bytes) (n : N),
    hist_ok n0 ops -> names_ok app_state n0 ->
    nth_error (anrun nft_escrow mt_escrow n0 ops) i = Some ci -> wfk s d n -> s <> c_name app_state ci ->
    (commit_at app_state ci s d n <> None -> receipt_at app_state ci s d n <> None) /\
    (ack_at app_state ci s d n <> None -> receipt_at app_state ci s d n <> None \/ n <= clean_seq app_state ci s d) /\
    (ack_at app_state ci s d n <> None -> commit_at app_state ci s d n = None).
Proof. exact a_ack_excludes_commitment. Qed.
Print Assumptions C03hist_ack_excludes_commitment.

(** no hash premise left for the application network (identity hash) *)
Theorem C03hist_app_ack_needs_own_commitment :
  forall (nft_escrow mt_escrow : bytes) (c : chain app_state) (p : packet) (a : bytes) (pf : proof) (h : N)
         (c' : chain app_state) (ev : list event),
    msg_ack app_state idH a_has_route (a_on_ack nft_escrow mt_escrow) c p a pf h = Some (c', ev) ->
    commit_at app_state c (p_src p) (p_dst p) (p_seq p) = Some (p_data p) /\
    commit_at app_state c' (p_src p) (p_dst p) (p_seq p) = None.
Proof. exact a_ack_needs_own_commitment. Qed.
Print Assumptions C03hist_app_ack_needs_own_commitment.

Theorem C03hist_app_second_ack_refused :
  forall (nft_escrow mt_escrow : bytes) (c : chain app_state) (p : packet) (a : bytes) (pf : proof) (h : N)
         (c' : chain app_state) (ev : list event) (a2 : bytes) (pf2 : proof) (h2 : N),
    msg_ack app_state idH a_has_route (a_on_ack nft_escrow mt_escrow) c p a pf h = Some (c', ev) ->
    msg_ack app_state idH a_has_route (a_on_ack nft_escrow mt_escrow) c' p a2 pf2 h2 = None.
Proof. exact a_second_ack_refused. Qed.
Print Assumptions C03hist_app_second_ack_refused.

(** * non-vacuity *)
(** the identity hash meets the weak premise, not the old one *)
Example C03hist_premise_nonvacuous :
  (forall x : bytes, x <> [] -> idH x <> []) /\ ~ (forall x : bytes, idH x <> []).
Proof. split; [exact idH_ne|]. intros X. exact (X [] eq_refl). Qed.

(** second acknowledgement refused on a concrete application history (the
    refund history of C05HistNet.v with the acknowledgement submitted twice):
    the second submission adds nothing to the log and leaves the balances *)
Example C03hist_second_ack_refused_nonvacuous :
  let again := ANet (NChain 0 150 (OAck x_pkt2 ack_err x_apf 7)) in
  anrun_log x_nesc x_mesc x_n0 (x_refund ++ [again]) = anrun_log x_nesc x_mesc x_n0 x_refund /\
  In (0%nat, EAppAck x_pkt2 ack_err) (anrun_log x_nesc x_mesc x_n0 x_refund) /\
  match anrun x_nesc x_mesc x_n0 (x_refund ++ [again]) with
  | cA :: _ => bal_of (a_mt (c_app app_state cA)) x_alice x_cls x_tid = 10
  | _ => False
  end.
Proof.
  cbv zeta. split; [vm_compute; reflexivity|].
  split; [|vm_compute; reflexivity].
  destruct C05net_appack_matched_nonvacuous as (_ & _ & L & _). rewrite L.
  repeat (try (left; reflexivity); right).
Qed.

(** a three-chain history A -> (relay B) -> C with real MT traffic: after C
    delivered and acknowledged, the relay chain B accepts the acknowledgement and
    writes it through -- the premises of C03hist_relay_ack_never_overwrites hold
    (and its conclusion: no acknowledgement stored on B before) *)
Definition r_n0 : anet := map mk_achain [nameA; nameB; nameC].
Definition r_pkt : packet :=
  mkPacket 1 nameA nameC nameB MT_PORT
    (enc_mt (mkMtData x_cls x_tid x_alice x_bob true [] 4 (of_string "meta"))).
Definition r_ops : list anop :=
  [ ANet (NCreate 0 1 100 2 90 1000); ANet (NCreate 1 0 100 2 90 1000);
    ANet (NCreate 1 2 100 2 90 1000); ANet (NCreate 2 1 100 2 90 1000);
    ANet (NChain 1 100 (OSetRules [of_string "*,*,*"]));
    AUser 0 100 (UMtIssue x_cls x_alice);
    AUser 0 100 (UMtMintNew x_cls x_tid 10 (of_string "meta") x_alice x_alice);
    AUser 0 100 (UMtSend x_cls x_tid x_alice x_bob nameC nameB [] 4);
    ANet (NUpd 1 0 110 5 105);
    ANet (NChain 1 120 (ORecv r_pkt (PGenuine nameA (commit_key nameA nameC 1)) 5));
    ANet (NUpd 2 1 130 7 125);
    ANet (NChain 2 140 (ORecv r_pkt (PGenuine nameB (commit_key nameA nameC 1)) 7));
    ANet (NUpd 1 2 150 9 145) ].

Lemma noslash_name x : forallb (fun c => negb (N.eqb c slash)) x = true -> noslash x.
Proof.
  intros F X. rewrite forallb_forall in F. specialize (F _ X). rewrite N.eqb_refl in F. discriminate.
Qed.

Example C03hist_relay_ack_never_overwrites_nonvacuous :
  hist_ok r_n0 r_ops /\ names_ok app_state r_n0 /\ wfp r_pkt /\
  match nth_error (anrun x_nesc x_mesc r_n0 r_ops) 1 with
  | Some ci =>
      p_relay r_pkt = c_name app_state ci /\
      match ack_packet app_state idH (with_now app_state ci 160) r_pkt ack_ok
                       (PGenuine nameC (ack_key nameA nameC 1)) 9 with
      | Some (_, ev) => ev = [EAck r_pkt ack_ok; EWriteAck r_pkt ack_ok]
      | None => False
      end
  | None => False
  end.
Proof.
  split; [|split; [|split]].
  - split; [|split; [|split]].
    + intros j cj Hj. destruct j as [|[|[|j]]]; cbn in Hj; try (inversion Hj; subst; split; reflexivity).
      destruct j; discriminate.
    + vm_compute. repeat constructor; cbn; intuition discriminate.
    + repeat constructor; cbn; unfold wfp; cbn; try exact I; reflexivity.
    + repeat constructor.
  - unfold names_ok. vm_compute names. repeat constructor; try discriminate;
      apply noslash_name; vm_compute; reflexivity.
  - vm_compute. reflexivity.
  - vm_compute. split; reflexivity.
Qed.
