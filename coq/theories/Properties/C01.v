(** C01 — inbound packets are authentic: accepted only if the counterparty
    committed them.  Statements only; proofs in Net/NetInv.v, Net/Explained.v. *)
From Tibc Require Import Base.Bytes Base.FMap Host.Keys Host.KeysFacts Routing.Rules
  Packet.Types Packet.Keeper Packet.KeeperFacts Packet.Invariants Net.Net Net.Explained Net.NetInv.
From Tibc Require Import Harness.Net Properties.Example.

(** In a network of any number of chains, started without light clients and
    driven by ANY sequence of operations (sends, relayed receives /
    acknowledgements / cleans with arbitrary packets, proofs and heights, rule
    changes, time steps, honest client creations and updates), whenever a chain
    accepts a receive message for packet p, the chain it is proven from -- p's
    source, or p's relay chain when this chain is the destination of a relayed
    packet -- has logged a commitment (own send or relay re-commit) of a packet
    with the same source, destination, sequence and data.
    Premise: the commitment hash is collision-free. *)
Theorem C01_recv_authentic :
  forall (A : Type) (H : bytes -> bytes) (has_route : bytes -> bool)
         (on_recv : A -> packet -> option (A * option bytes))
         (on_ack : A -> packet -> bytes -> option A),
    (forall x y, H x = H y -> x = y) ->
    forall (n0 : net A) (ops : list (nop A)) (i : nat) (ci : chain A) (now : N)
           (p : packet) (pf : proof) (h : N) (c' : chain A) (ev : list event),
      net_init A n0 -> Forall nop_ok ops -> wfp p ->
      nth_error (nrun A H has_route on_recv on_ack n0 ops) i = Some ci ->
      msg_recv A H has_route on_recv (with_now A ci now) p pf h = Some (c', ev) ->
      exists j cj p',
        nth_error (nrun A H has_route on_recv on_ack n0 ops) j = Some cj /\
        c_name A cj = prover_name A ci p /\
        In (ESend p') (log_of j (nrun_log A H has_route on_recv on_ack n0 ops)) /\
        p_src p' = p_src p /\ p_dst p' = p_dst p /\ p_seq p' = p_seq p /\ p_data p' = p_data p.
Proof. exact recv_authentic. Qed.
Print Assumptions C01_recv_authentic.

(** what a chain logs as committed is what it holds: every commitment in a
    chain's store was put there by a send or re-commit event of that chain
    carrying exactly that source, destination, sequence and hash(data) *)
Theorem C01_commitments_explained :
  forall (A : Type) (H : bytes -> bytes) (has_route : bytes -> bool)
         (on_recv : A -> packet -> option (A * option bytes))
         (on_ack : A -> packet -> bytes -> option A)
         (c : chain A) (o : op A) (c' : chain A) (ev log : list event),
    op_wf o -> exec A H has_route on_recv on_ack c o = Some (c', ev) ->
    kv_explained H (c_kv A c) log -> kv_explained H (c_kv A c') (log ++ ev).
Proof. exact exec_explained. Qed.
Print Assumptions C01_commitments_explained.

(** a receive is accepted only against an active client of the proving chain,
    with a proof establishing exactly the commitment key and value at a height
    the client knows *)
Theorem C01_recv_needs_verified_proof :
  forall (A : Type) (H : bytes -> bytes) (has_route : bytes -> bool)
         (on_recv : A -> packet -> option (A * option bytes))
         (c : chain A) (p : packet) (pf : proof) (h : N) (c' : chain A) (ev : list event),
    msg_recv A H has_route on_recv c p pf h = Some (c', ev) ->
    exists cl, lookup (prover_name A c p) (c_clients A c) = Some cl /\
               client_active cl (c_now A c) = true /\
               verify cl (prover_name A c p) h pf
                      (commit_key (p_src p) (p_dst p) (p_seq p)) (H (p_data p)) = true.
Proof.
  intros A H hr orc c p pf h c' ev E. apply msg_recv_vals in E.
  destruct E as (_ & _ & _ & X). exact X.
Qed.
Print Assumptions C01_recv_needs_verified_proof.

(** a rejected message changes nothing *)
Theorem C01_reject_unchanged :
  forall (A : Type) (H : bytes -> bytes) (has_route : bytes -> bool)
         (on_recv : A -> packet -> option (A * option bytes))
         (on_ack : A -> packet -> bytes -> option A) (c : chain A) (p : packet) (pf : proof) (h : N),
    msg_recv A H has_route on_recv c p pf h = None ->
    step A H has_route on_recv on_ack c (ORecv p pf h) = (c, None).
Proof. intros A H hr orc oa c p pf h E. unfold step. cbn [exec]. rewrite E. reflexivity. Qed.
Print Assumptions C01_reject_unchanged.

(** non-vacuity: a three-chain run in which a relayed packet is accepted at the
    relay and then at the destination (premises of the theorem are met) *)
Definition x_ops : list (nop unit) :=
  let p := mkPacket 1 nameA nameC nameB mock_port (of_string "x") in
  [ NCreate 0 1 100 2 90 1000; NCreate 1 0 100 2 90 1000; NCreate 1 2 100 2 90 1000;
    NCreate 2 1 100 2 90 1000;
    NChain 1 100 (OSetRules [of_string "*,*,*"]);
    NChain 0 100 (OSend p);
    NUpd 1 0 110 5 105;
    NChain 1 120 (ORecv p (PGenuine nameA (commit_key nameA nameC 1)) 5);
    NUpd 2 1 130 7 125;
    NChain 2 140 (ORecv p (PGenuine nameB (commit_key nameA nameC 1)) 7) ].

Example C01_nonvacuous :
  Forall nop_ok x_ops /\
  nrun_log unit idH mock_has_route mock_on_recv mock_on_ack (map mk_chain [nameA; nameB; nameC]) x_ops =
  let p := mkPacket 1 nameA nameC nameB mock_port (of_string "x") in
  [(0%nat, ESend p); (1%nat, ERecv p); (1%nat, ESend p);
   (2%nat, ERecv p); (2%nat, EDeliver p); (2%nat, EWriteAck p mock_ack)].
Proof.
  split; [|vm_compute; reflexivity].
  repeat constructor; cbn; unfold wfp; cbn; try exact I; reflexivity.
Qed.
