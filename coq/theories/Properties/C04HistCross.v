(** C04 across chains -- NFT traffic in the application network of
    Harness/AppNet.v ([anrun], [anrun_log]; harness hash and codec).
    Statements only; proofs in Net/NftCrossChain.v and Net/NftCrossChain2.v.

    PROVED: (1) the own-send link -- every NFT refund on chain i is the refund of
    a packet that chain i's own earlier [UNftSend] committed (same key, same
    data); every delivered relay-free NFT packet (voucher creation or escrow
    release) is backed by a [UNftSend] on the chain named as its source, which
    locked or burned the sent token there; a refunded key is never credited on
    the destination; an escrowed token is released only through one of these.
    NOT PROVED: the closed two-chain invariant "voucher (v,id) user-held on j
    implies (cl,id) escrowed on i" -- see the report (it needs injectivity of the
    class-path construction, i.e. no native class containing '/' on either chain
    (finding D4), and a trace-store invariant on j).

    Premises:
    - [hist_ok n0 ops] (Net/AppNetNoSelf.v): empty initial stores, pairwise
      different chain names, sequence numbers < 2^64, honest light-client
      contents, no chain holds a light client of itself.
    - [Forall no_raw_nft_send ops]: a raw packet-layer [OSend] (no such message
      exists in the implementation; the model has it for the mock application)
      never carries data the NFT module would decode.  NEEDED: otherwise a
      commitment nobody locked a token for could be refunded.
    - "p_relay p = []" where stated: direct traffic (for a relayed packet the
      commitment the destination checks is the relay chain's).
    - [not_setapp], [no_escrow_sig], [VInv]: as in Properties/C04Hist.v. *)
From Tibc Require Import Base.Bytes Base.FMap Host.Keys Routing.Rules Packet.Types Packet.Keeper
  Packet.KeeperFacts Net.Net Net.NetInv Apps.Path Apps.Nft Apps.NftFacts Apps.Mt Apps.App Harness.AppNet
  Net.AppNetSim Net.AppNetNoSelf Apps.NftHistory Apps.NftHistoryThm Apps.NftEscrow
  Net.NftCrossChain Net.NftCrossChain2.
From Tibc Require Import Properties.Example Properties.C05HistNet Properties.C05HistSum.

Notation xexec e m := (hexec idHh idH addr_ok e m enc_nft dec_nft enc_mt dec_mt).
Notation xstep e m := (hstep idHh idH addr_ok e m enc_nft dec_nft enc_mt dec_mt).

(** PROJECTION.  Every step of the application network is one [hop] step
    (Apps/NftHistory.v) of the acted chain, taken after setting the block time:
    [ANet (NChain i now o)] is [HOp o], client creations / updates are [HOp] of
    the resolved client operation, [AUser i now u] is [HUser u].  (A failing step
    keeps the new block time; the NFT ledger does not depend on it.)  So the
    per-chain step theorems of C04Hist.v apply to every network step. *)
Theorem C04_cross_step_is_hop :
  forall (nft_escrow mt_escrow : bytes) (n : anet) (o : anop),
    anstep nft_escrow mt_escrow n o =
    match aresolve n o with
    | None => (n, None)
    | Some (i, now, h) =>
        match nth_error n i with
        | None => (n, None)
        | Some ci => (upd_nth n i (fst (xstep nft_escrow mt_escrow (with_now app_state ci now) h)),
                      snd (xstep nft_escrow mt_escrow (with_now app_state ci now) h))
        end
    end.
Proof. exact anstep_hop. Qed.
Print Assumptions C04_cross_step_is_hop.

(** every logged event belongs to a successful step of the history
    ([step_at]: position in the history, acted chain before, block time, hop,
    chain after, events) *)
Theorem C04_cross_event_has_step :
  forall (nft_escrow mt_escrow : bytes) (ops : list anop) (n0 : anet) (i : nat) (e : event),
    In (i, e) (anrun_log nft_escrow mt_escrow n0 ops) ->
    exists pre o post ci now h c' ev,
      step_at nft_escrow mt_escrow n0 ops pre o post i ci now h c' ev /\ In e ev.
Proof. exact log_event_step. Qed.
Print Assumptions C04_cross_event_has_step.

(** CODEC: the harness decoder of NFT packet data refuses every encoded MT
    packet data (different tags), so an MT commitment cannot be refunded or
    delivered as an NFT packet although the port field is not authenticated (D6) *)
Theorem C04_cross_mt_data_not_nft : forall x : mt_data, dec_nft (enc_mt x) = None.
Proof. exact dec_nft_enc_mt. Qed.
Print Assumptions C04_cross_mt_data_not_nft.

(** what a successful [UNftSend] step did *)
Theorem C04_cross_send_step_facts :
  forall (nft_escrow mt_escrow : bytes) (c : chain app_state)
         (class id sender receiver dest relay contract : bytes) (c' : chain app_state) (q : packet),
    xexec nft_escrow mt_escrow c (HUser (UNftSend class id sender receiver dest relay contract)) = Some (c', [ESend q]) ->
    nft_sent nft_escrow c c' class id sender receiver dest relay contract q.
Proof. exact nft_send_step_facts. Qed.
Print Assumptions C04_cross_send_step_facts.

(** (1) OWN-SEND LINK.  Every processed acknowledgement on chain i of a packet
    whose data decodes as NFT data -- every NFT refund is one -- concerns a
    packet q that an earlier [UNftSend] user transaction of chain i committed:
    same source, destination, sequence and data.  (By
    C04_cross_send_step_facts q's data is the encoding of that send's class path,
    id, uri, sender, receiver and direction flag, and the send locked / burned
    exactly that (class, id).) *)
Theorem C04_cross_refund_own_send :
  forall (nft_escrow mt_escrow : bytes) (n0 : anet) (ops : list anop) (i : nat)
         (p : packet) (a : bytes) (d : nft_data),
    hist_ok n0 ops -> Forall no_raw_nft_send ops ->
    In (i, EAppAck p a) (anrun_log nft_escrow mt_escrow n0 ops) -> dec_nft (p_data p) = Some d ->
    exists q pre post now class id sender receiver dest relay contract ci c',
      step_at nft_escrow mt_escrow n0 ops pre
              (AUser i now (UNftSend class id sender receiver dest relay contract)) post
              i ci now (HUser (UNftSend class id sender receiver dest relay contract)) c' [ESend q] /\
      p_src q = p_src p /\ p_dst q = p_dst p /\ p_seq q = p_seq p /\ p_data q = p_data p.
Proof. exact nft_refund_own_send. Qed.
Print Assumptions C04_cross_refund_own_send.

(** every delivered relay-free packet whose data decodes as NFT data is backed
    by a [UNftSend] on the chain named as its source, same key and data *)
Theorem C04_cross_delivery_backed_by_send :
  forall (nft_escrow mt_escrow : bytes) (n0 : anet) (ops : list anop) (j : nat) (p : packet) (d : nft_data),
    hist_ok n0 ops -> Forall no_raw_nft_send ops ->
    In (j, EDeliver p) (anrun_log nft_escrow mt_escrow n0 ops) -> p_relay p = [] ->
    dec_nft (p_data p) = Some d ->
    exists i q pre post now class id sender receiver dest relay contract ci c',
      step_at nft_escrow mt_escrow n0 ops pre
              (AUser i now (UNftSend class id sender receiver dest relay contract)) post
              i ci now (HUser (UNftSend class id sender receiver dest relay contract)) c' [ESend q] /\
      c_name app_state ci = p_src p /\
      p_src q = p_src p /\ p_dst q = p_dst p /\ p_seq q = p_seq p /\ p_data q = p_data p /\
      nft_sent nft_escrow (with_now app_state ci now) c' class id sender receiver dest relay contract q.
Proof. exact delivery_backed_by_nft_send. Qed.
Print Assumptions C04_cross_delivery_backed_by_send.

(** a refunded key is never credited: no step of the destination is a
    successful receive of a packet with the key of a refunded relay-free packet *)
Theorem C04_cross_refunded_key_never_credited :
  forall (nft_escrow mt_escrow : bytes) (n0 : anet) (ops : list anop) (i j : nat) (cj : chain app_state)
         (p : packet) (a : bytes) (pre : list anop) (o : anop) (post : list anop) (cj0 : chain app_state)
         (now : N) (p' : packet) (pf : proof) (hh : N) (c' : chain app_state) (ev : list event),
    hist_ok n0 ops -> nth_error (anrun nft_escrow mt_escrow n0 ops) j = Some cj ->
    In (i, EAppAck p a) (anrun_log nft_escrow mt_escrow n0 ops) -> p_relay p = [] ->
    p_dst p = c_name app_state cj -> is_err_ack a = true ->
    step_at nft_escrow mt_escrow n0 ops pre o post j cj0 now (HOp (ORecv p' pf hh)) c' ev ->
    recv_ok_ev ev = true ->
    p_src p' = p_src p -> p_dst p' = p_dst p -> p_seq p' = p_seq p -> False.
Proof. exact refunded_key_never_credited. Qed.
Print Assumptions C04_cross_refunded_key_never_credited.

(** (2, per-token exclusivity) ESCROW RELEASE ACROSS CHAINS: see
    Net/NftCrossChain2.v [escrow_release_cross] for the statement in words *)
Theorem C04_cross_escrow_release :
  forall (nft_escrow mt_escrow : bytes) (n0 : anet) (ops pre : list anop) (o : anop) (post : list anop)
         (i : nat) (ci : chain app_state) (now : N) (h : hop) (c' : chain app_state) (ev : list event)
         (class id : bytes),
    hist_ok n0 ops -> Forall no_raw_nft_send ops ->
    step_at nft_escrow mt_escrow n0 ops pre o post i ci now h c' ev -> not_setapp h ->
    no_escrow_sig nft_escrow h ->
    owner_of (nft_of ci) class id = Some nft_escrow -> owner_of (nft_of c') class id <> Some nft_escrow ->
    exists to, owner_of (nft_of c') class id = Some to /\ to <> nft_escrow /\
      ((exists p pf hh d np,
          h = HOp (ORecv p pf hh) /\ dec_nft (p_data p) = Some d /\ nd_away d = false /\
          back_new_class_path (nd_class d) = Some np /\ class = voucher_class idHh np /\
          id = nd_id d /\ to = nd_receiver d /\
          (p_relay p = [] ->
           exists k q pre1 post1 now1 cl1 id1 sender receiver dest relay contract ck ck',
             step_at nft_escrow mt_escrow n0 ops pre1
                     (AUser k now1 (UNftSend cl1 id1 sender receiver dest relay contract)) post1
                     k ck now1 (HUser (UNftSend cl1 id1 sender receiver dest relay contract)) ck' [ESend q] /\
             c_name app_state ck = p_src p /\ p_dst q = p_dst p /\ p_seq q = p_seq p /\ p_data q = p_data p /\
             nft_sent nft_escrow (with_now app_state ck now1) ck' cl1 id1 sender receiver dest relay contract q)) \/
       (exists p ack pf hh d,
          h = HOp (OAck p ack pf hh) /\ is_err_ack ack = true /\ dec_nft (p_data p) = Some d /\
          nd_away d = true /\ class = voucher_class idHh (nd_class d) /\ id = nd_id d /\ to = nd_sender d /\
          (exists q pre1 post1 now1 cl1 id1 sender receiver dest relay contract ck ck',
             step_at nft_escrow mt_escrow n0 ops pre1
                     (AUser i now1 (UNftSend cl1 id1 sender receiver dest relay contract)) post1
                     i ck now1 (HUser (UNftSend cl1 id1 sender receiver dest relay contract)) ck' [ESend q] /\
             p_src q = p_src p /\ p_dst q = p_dst p /\ p_seq q = p_seq p /\ p_data q = p_data p /\
             nft_sent nft_escrow (with_now app_state ck now1) ck' cl1 id1 sender receiver dest relay contract q) /\
          (p_relay p = [] ->
           forall j cj pre2 o2 post2 cj0 now2 p' pf2 hh2 cj' ev2,
             nth_error (anrun nft_escrow mt_escrow n0 ops) j = Some cj -> p_dst p = c_name app_state cj ->
             step_at nft_escrow mt_escrow n0 ops pre2 o2 post2 j cj0 now2 (HOp (ORecv p' pf2 hh2)) cj' ev2 ->
             recv_ok_ev ev2 = true ->
             p_src p' = p_src p -> p_dst p' = p_dst p -> p_seq p' = p_seq p -> False))).
Proof. exact escrow_release_cross. Qed.
Print Assumptions C04_cross_escrow_release.

(** VOUCHER CREATION ACROSS CHAINS: see [voucher_creation_cross] *)
Theorem C04_cross_voucher_creation :
  forall (nft_escrow mt_escrow : bytes) (n0 : anet) (ops pre : list anop) (o : anop) (post : list anop)
         (j : nat) (cj : chain app_state) (now : N) (h : hop) (c' : chain app_state) (ev : list event)
         (class id : bytes),
    hist_ok n0 ops -> Forall no_raw_nft_send ops ->
    step_at nft_escrow mt_escrow n0 ops pre o post j cj now h c' ev -> not_setapp h ->
    no_escrow_sig nft_escrow h ->
    VInv nft_escrow (nft_of cj) -> is_voucher class = true ->
    token_at (nft_of cj) class id = None -> token_at (nft_of c') class id <> None ->
    (exists p pf hh d,
       h = HOp (ORecv p pf hh) /\ dec_nft (p_data p) = Some d /\ nd_away d = true /\ nd_id d = id /\
       class = voucher_class idHh (away_new_class_path NFT_PFX (p_src p) (p_dst p) (nd_class d)) /\
       (p_relay p = [] ->
        exists k q pre1 post1 now1 cl1 id1 sender receiver dest relay contract ck ck',
          step_at nft_escrow mt_escrow n0 ops pre1
                  (AUser k now1 (UNftSend cl1 id1 sender receiver dest relay contract)) post1
                  k ck now1 (HUser (UNftSend cl1 id1 sender receiver dest relay contract)) ck' [ESend q] /\
          c_name app_state ck = p_src p /\ p_dst q = p_dst p /\ p_seq q = p_seq p /\ p_data q = p_data p /\
          nft_sent nft_escrow (with_now app_state ck now1) ck' cl1 id1 sender receiver dest relay contract q)) \/
    (exists owner uri, is_refund_back idHh dec_nft h ev class id owner uri).
Proof. exact voucher_creation_cross. Qed.
Print Assumptions C04_cross_voucher_creation.

(** * non-vacuity: kitty/tom minted on A, sent to bob on B (credited there), and
    -- second history -- sent to an address B rejects, error acknowledgement,
    refund on A *)
Definition y_alice := of_string "cosmos1alice".
Definition y_bob := of_string "cosmos1bob".
Definition y_kitty := of_string "kitty".
Definition y_tom := of_string "tom".
Definition y_uri := of_string "uri".
Definition y_bad := of_string "nobody".
Definition y_v := of_string "tibc-nft/chain-aaaa/chain-bbbb/kitty".
Definition y_pkt := mkPacket 1 nameA nameB [] NFT_PORT (enc_nft (mkNftData y_kitty y_tom y_uri y_alice y_bob true [])).
Definition y_pkt2 := mkPacket 1 nameA nameB [] NFT_PORT (enc_nft (mkNftData y_kitty y_tom y_uri y_alice y_bad true [])).

Definition y_credit : list anop :=
  [ ANet (NCreate 0 1 100 2 90 1000); ANet (NCreate 1 0 100 2 90 1000);
    AUser 0 100 (UNftIssue y_kitty y_alice); AUser 0 100 (UNftMint y_kitty y_tom y_uri y_alice y_alice);
    AUser 0 100 (UNftSend y_kitty y_tom y_alice y_bob nameB [] []);
    ANet (NUpd 1 0 110 5 105); ANet (NChain 1 120 (ORecv y_pkt x_pf 5)) ].
Definition y_refund : list anop :=
  [ ANet (NCreate 0 1 100 2 90 1000); ANet (NCreate 1 0 100 2 90 1000);
    AUser 0 100 (UNftIssue y_kitty y_alice); AUser 0 100 (UNftMint y_kitty y_tom y_uri y_alice y_alice);
    AUser 0 100 (UNftSend y_kitty y_tom y_alice y_bad nameB [] []);
    ANet (NUpd 1 0 110 5 105); ANet (NChain 1 120 (ORecv y_pkt2 x_pf 5));
    ANet (NUpd 0 1 130 7 125); ANet (NChain 0 140 (OAck y_pkt2 ack_err x_apf 7)) ].

Lemma y_credit_ok : hist_ok x_n0 y_credit /\ Forall no_raw_nft_send y_credit.
Proof.
  split.
  - split; [exact x_n0_init|]. split; [exact x_names_nodup|].
    split; [repeat constructor; cbn; unfold wfp; cbn; try exact I; reflexivity|repeat constructor].
  - repeat constructor.
Qed.

Lemma y_refund_ok : hist_ok x_n0 y_refund /\ Forall no_raw_nft_send y_refund.
Proof.
  split.
  - split; [exact x_n0_init|]. split; [exact x_names_nodup|].
    split; [repeat constructor; cbn; unfold wfp; cbn; try exact I; reflexivity|repeat constructor].
  - repeat constructor.
Qed.

(** the credit history: voucher created on B for bob while kitty/tom is locked on A *)
Example C04_cross_delivery_nonvacuous :
  hist_ok x_n0 y_credit /\ Forall no_raw_nft_send y_credit /\
  anrun_log x_nesc x_mesc x_n0 y_credit =
    [(0%nat, ESend y_pkt); (1%nat, ERecv y_pkt); (1%nat, EDeliver y_pkt); (1%nat, EWriteAck y_pkt ack_ok)] /\
  p_relay y_pkt = [] /\
  match anrun x_nesc x_mesc x_n0 y_credit with
  | [cA; cB] => owner_of (nft_of cA) y_kitty y_tom = Some x_nesc /\
                owner_of (nft_of cB) y_v y_tom = Some y_bob
  | _ => False
  end.
Proof.
  destruct y_credit_ok as [A1 A2]. split; [exact A1|]. split; [exact A2|].
  split; [vm_compute; reflexivity|]. split; [reflexivity|]. vm_compute. split; reflexivity.
Qed.
Print Assumptions C04_cross_delivery_nonvacuous.

(** the refund history: error acknowledgement processed on A, alice owns kitty/tom
    again, no voucher on B *)
Example C04_cross_refund_nonvacuous :
  hist_ok x_n0 y_refund /\ Forall no_raw_nft_send y_refund /\
  anrun_log x_nesc x_mesc x_n0 y_refund =
    [(0%nat, ESend y_pkt2); (1%nat, ERecv y_pkt2); (1%nat, EDeliver y_pkt2); (1%nat, EWriteAck y_pkt2 ack_err);
     (0%nat, EAck y_pkt2 ack_err); (0%nat, EAppAck y_pkt2 ack_err)] /\
  is_err_ack ack_err = true /\
  match anrun x_nesc x_mesc x_n0 y_refund with
  | [cA; cB] => owner_of (nft_of cA) y_kitty y_tom = Some y_alice /\
                token_at (nft_of cB) y_v y_tom = None
  | _ => False
  end.
Proof.
  destruct y_refund_ok as [A1 A2]. split; [exact A1|]. split; [exact A2|].
  split; [vm_compute; reflexivity|]. split; [vm_compute; reflexivity|]. vm_compute. split; reflexivity.
Qed.
Print Assumptions C04_cross_refund_nonvacuous.

(** THE PREMISE [no_raw_nft_send] IS NEEDED: a raw [OSend] of NFT-shaped data
    commits a packet for which nothing was locked; when its error acknowledgement
    comes back, the NFT module "refunds" whatever the escrow account holds under
    that (class, id) -- here the token alice had locked by a genuine send --
    to the sender field of the forged data. *)
Definition y_mallory := of_string "cosmos1mallory".
Definition y_forged := mkPacket 2 nameA nameB [] NFT_PORT (enc_nft (mkNftData y_kitty y_tom y_uri y_mallory y_bad true [])).
Definition y_raw : list anop :=
  [ ANet (NCreate 0 1 100 2 90 1000); ANet (NCreate 1 0 100 2 90 1000);
    AUser 0 100 (UNftIssue y_kitty y_alice); AUser 0 100 (UNftMint y_kitty y_tom y_uri y_alice y_alice);
    AUser 0 100 (UNftSend y_kitty y_tom y_alice y_bob nameB [] []);
    ANet (NChain 0 101 (OSend y_forged));
    ANet (NUpd 1 0 110 5 105);
    ANet (NChain 1 120 (ORecv y_forged (PGenuine nameA (commit_key nameA nameB 2)) 5));
    ANet (NUpd 0 1 130 7 125);
    ANet (NChain 0 140 (OAck y_forged ack_err (PGenuine nameB (ack_key nameA nameB 2)) 7)) ].

Example C04_cross_no_raw_send_needed :
  match anrun x_nesc x_mesc x_n0 y_raw with
  | [cA; cB] => owner_of (nft_of cA) y_kitty y_tom = Some y_mallory
  | _ => False
  end.
Proof. vm_compute. reflexivity. Qed.
Print Assumptions C04_cross_no_raw_send_needed.
