(** C04 -- [paths_wf] and '/'-free chain names as HISTORY INVARIANTS of the
    application network (they were premises of C04_single_voucher_creation_exact).
    Statements only; proofs in Net/NftPathsWf.v and Net/NftPathsWf2.v.

    Premises, collected in [Prem nft_escrow mt_escrow n0 ops]:
      hist_ok n0 ops; Forall no_raw_nft_send ops; Forall no_setapp_op ops (no
      OSetApp); Forall users_issue_plain_classes ops (every class a user issues is
      '/'-free: the irismod id grammar apart from '/', finding D4);
      sends_roundtrip (harness decoder inverts the encoder on the NFT sends of
      the history); nft_deliveries_relay_free (every delivered packet whose data
      decodes as NFT data has an empty relay field: direct traffic -- its source
      is then a chain of the network by the matching theorem).
    Plus on the initial network: [names_plain n0] (chain names '/'-free) and
    [NetP n0] (the invariant holds initially: true for [mk_achain] chains).
    All premises are prefix-closed, which the induction uses. *)
From Tibc Require Import Base.Bytes Base.FMap Host.Keys Host.KeysFacts Routing.Rules Packet.Types Packet.Keeper
  Net.Net Net.NetInv Apps.Path Apps.PathFacts Apps.Nft Apps.NftFacts Apps.Mt Apps.App Harness.AppNet
  Net.AppNetSim Net.AppNetNoSelf Apps.NftHistory Apps.NftHistoryThm Apps.NftEscrow
  Net.NftCrossChain Net.NftCrossChain2 Net.NftSingleHolder Net.NftSingleHolder2 Net.NftPathsWf Net.NftPathsWf2.
From Tibc Require Import Properties.Example Properties.C05HistNet Properties.C05HistSum Properties.C04HistCross.

(** chain names never change, so '/'-free names stay '/'-free *)
Theorem C04paths_names_plain_reached :
  forall (nft_escrow mt_escrow : bytes) (n0 : anet) (a : list anop),
    names_plain n0 -> names_plain (anrun nft_escrow mt_escrow n0 a).
Proof. exact names_plain_reached. Qed.
Print Assumptions C04paths_names_plain_reached.

(** the per-chain invariant [PInv] = (i) every class is '/'-free or starts with
    "tibc-" and (ii) every trace value is a voucher path "nft/c1/../ck/b" with
    '/'-free parts and k >= 2; it implies [paths_wf] *)
Theorem C04paths_invariant_gives_paths_wf : forall st : nft_state, PInv st -> paths_wf st.
Proof. exact PInv_paths_wf. Qed.
Print Assumptions C04paths_invariant_gives_paths_wf.

(** one step of one chain keeps it, if the NFT packets the step delivers carry a
    well-formed class path from a '/'-free source *)
Theorem C04paths_step_invariant :
  forall (nft_escrow mt_escrow : bytes) (c : chain app_state) (h : hop) (c' : chain app_state) (ev : list event),
    hexec idHh idH addr_ok nft_escrow mt_escrow enc_nft dec_nft enc_mt dec_mt c h = Some (c', ev) ->
    not_setapp h -> issue_plain h -> noslash (c_name app_state c) ->
    (forall p d, In (EDeliver p) ev -> dec_nft (p_data p) = Some d ->
                 noslash (p_src p) /\ wfpath (nd_class d)) ->
    PInv (nft_of c) -> PInv (nft_of c').
Proof. exact step_PInv. Qed.
Print Assumptions C04paths_step_invariant.

(** (iii) network-wide: the invariant holds on every chain after every history
    satisfying the premises (strong induction on the length of the history; a
    delivery is backed by a [UNftSend] in a strictly earlier state) *)
Theorem C04paths_invariant_reached :
  forall (nft_escrow mt_escrow : bytes) (n0 : anet),
    names_plain n0 -> NetP n0 ->
    forall (m : nat) (ops : list anop), length ops = m -> Prem nft_escrow mt_escrow n0 ops ->
    NetP (anrun nft_escrow mt_escrow n0 ops).
Proof. exact reach_PInv. Qed.
Print Assumptions C04paths_invariant_reached.

Theorem C04paths_paths_wf_reached :
  forall (nft_escrow mt_escrow : bytes) (n0 : anet) (ops : list anop),
    names_plain n0 -> NetP n0 -> Prem nft_escrow mt_escrow n0 ops ->
    forall a b, ops = a ++ b ->
    forall k ck, nth_error (anrun nft_escrow mt_escrow n0 a) k = Some ck -> paths_wf (nft_of ck).
Proof. exact reach_paths_wf. Qed.
Print Assumptions C04paths_paths_wf_reached.

(** C04_single_voucher_creation_exact with [paths_wf] and the '/'-free names
    discharged: no premise about reached states is left.  ([not_setapp h] follows
    from [Prem]; it is kept as a premise of the step for brevity.) *)
Theorem C04paths_voucher_creation_exact :
  forall (nft_escrow mt_escrow : bytes) (n0 : anet) (ops pre : list anop) (o : anop) (post : list anop)
         (j : nat) (cj : chain app_state) (now : N) (h : hop) (c' : chain app_state) (ev : list event)
         (nI nJ cl id : bytes),
    names_plain n0 -> NetP n0 -> Prem nft_escrow mt_escrow n0 ops ->
    noslash nI -> noslash cl -> c_name app_state cj = nJ ->
    step_at nft_escrow mt_escrow n0 ops pre o post j cj now h c' ev -> not_setapp h ->
    no_escrow_sig nft_escrow h -> VInv nft_escrow (nft_of cj) ->
    let v := voucher_class idHh (away_new_class_path NFT_PFX nI nJ cl) in
    is_voucher v = true ->
    token_at (nft_of cj) v id = None -> token_at (nft_of c') v id <> None ->
    (exists p pf hh, h = HOp (ORecv p pf hh) /\
       (p_relay p = [] ->
        exists k pre1 post1 now1 sender receiver relay contract ck ck' q uri,
          step_at nft_escrow mt_escrow n0 ops pre1
                  (AUser k now1 (UNftSend cl id sender receiver nJ relay contract)) post1
                  k ck now1 (HUser (UNftSend cl id sender receiver nJ relay contract)) ck' [ESend q] /\
          c_name app_state ck = nI /\ p_src p = nI /\ p_data q = p_data p /\ p_seq q = p_seq p /\
          token_at (nft_of (with_now app_state ck now1)) cl id = Some (sender, uri) /\
          token_at (nft_of ck') cl id = Some (nft_escrow, uri))) \/
    (exists owner uri, is_refund_back idHh dec_nft h ev v id owner uri).
Proof. exact paths_voucher_creation_exact. Qed.
Print Assumptions C04paths_voucher_creation_exact.

(** non-vacuity of the premises on the initial network and the log-level premise
    on the credit history of C04HistCross.v *)
Example C04paths_premises_nonvacuous :
  names_plain x_n0 /\ NetP x_n0 /\
  hist_ok x_n0 y_credit /\ Forall no_raw_nft_send y_credit /\ Forall no_setapp_op y_credit /\
  Forall users_issue_plain_classes y_credit /\
  nft_deliveries_relay_free x_nesc x_mesc x_n0 y_credit.
Proof.
  destruct C04_cross_delivery_nonvacuous as (A1 & A2 & L & _).
  assert (NS : forall x, (x = nameA \/ x = nameB \/ x = y_kitty) -> noslash x).
  { intros x [->|[->| ->]] X; vm_compute in X; repeat (destruct X as [X|X]; [discriminate X|]); exact X. }
  split; [|split; [|split; [exact A1|split; [exact A2|split; [|split]]]]].
  - intros k ck Hk. destruct k as [|[|k]]; cbn in Hk.
    + inversion Hk; subst. apply NS. auto.
    + inversion Hk; subst. apply NS. auto.
    + destruct k; discriminate.
  - intros k ck Hk. destruct k as [|[|k]]; cbn in Hk.
    + inversion Hk; subst. exact PInv_init.
    + inversion Hk; subst. exact PInv_init.
    + destruct k; discriminate.
  - repeat constructor.
  - repeat constructor. cbn. apply NS. auto.
  - intros j p d F D. rewrite L in F. cbn in F.
    repeat (destruct F as [F|F]; [inversion F; subst; reflexivity|]). destruct F.
Qed.
Print Assumptions C04paths_premises_nonvacuous.
