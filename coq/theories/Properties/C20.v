(** C20 — state transitions are deterministic.
    A Gallina function is deterministic by construction, so "the model's step
    is a function" says nothing.  What is proved here is the part of the
    property that is logic: at every place where the Go code ranges over a map
    (Go's iteration order is unspecified and changes from run to run) the
    observable result is the same for EVERY order of the entries.  That these
    are all the places, and that nothing else in the state machine reads the
    clock, a random source, the file system or the scheduler, is what the site
    scan and the twin-replay of recorded histories check on every run
    (DESIGN.md section 8, C20).  Statements only; proofs in Determinism/Perm.v. *)
From Coq Require Import NArith List Permutation.
From Tibc Require Import Base.Bytes Determinism.Perm.
Import ListNotations.
Open Scope N_scope.

(** 08-bsc verifySeal: `for seen, recent := range snap.Recents` — whether the
    signer counts as having signed recently does not depend on the order in
    which the map yields its entries *)
Theorem C20_recent_signer_loop_order_independent : forall signer number limit l l',
  Permutation l l' -> recents_loop signer number limit l = recents_loop signer number limit l'.
Proof. exact recents_loop_order_independent. Qed.
Print Assumptions C20_recent_signer_loop_order_independent.

(** 08-bsc snapshot.validators(): `for v := range s.Validators` followed by an
    ascending sort — the resulting list does not depend on the iteration order *)
Theorem C20_validators_order_independent : forall l l',
  Permutation l l' -> isort l = isort l'.
Proof. exact validators_sorted_order_independent. Qed.
Print Assumptions C20_validators_order_independent.

(** ... and every correct sorting procedure returns that list *)
Theorem C20_any_sort_agrees : forall l s, sorted s -> Permutation l s -> s = isort l.
Proof. exact any_sort_agrees. Qed.
Print Assumptions C20_any_sort_agrees.

(** snapshot.inturn *)
Theorem C20_inturn_order_independent : forall vals vals' number v,
  Permutation vals vals' -> inturn vals number v = inturn vals' number v.
Proof. exact inturn_order_independent. Qed.
Print Assumptions C20_inturn_order_independent.

(** everything verifySeal derives from the two maps *)
Theorem C20_seal_view_order_independent : forall vals vals' recents recents' signer number,
  Permutation vals vals' -> Permutation recents recents' ->
  seal_view vals recents signer number = seal_view vals' recents' signer number.
Proof. exact seal_view_order_independent. Qed.
Print Assumptions C20_seal_view_order_independent.

Example C20_nonvacuous :
  let a := [1;2] in let b := [1;1] in let c := [0;9] in
  isort [a; b; c] = [c; b; a] /\ isort [c; a; b] = [c; b; a] /\
  inturn [a; b; c] 3 b = true /\ inturn [b; c; a] 3 b = true /\
  recents_loop a 10 2 [(7, b); (9, a)] = true /\ recents_loop a 10 2 [(9, a); (7, b)] = true /\
  recents_loop a 10 2 [(8, a); (9, b)] = false.
Proof. vm_compute. repeat split; reflexivity. Qed.
