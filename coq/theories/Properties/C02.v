(** C02 — exactly-once delivery per (source, destination, sequence).
    Statements only; proofs in Packet/Invariants.v and Packet/Complete.v. *)
From Tibc Require Import Base.Bytes Base.FMap Host.Keys Host.KeysFacts Routing.Rules
  Packet.Types Packet.Keeper Packet.KeeperFacts Packet.Invariants Packet.Complete.
From Tibc Require Import Harness.Net Properties.Example.

(** For every application, every starting state of a chain and every sequence
    of operations on it (sends, receives, acknowledgements, cleans,
    receive-cleans, client creation/updates with arbitrary contents, rule changes,
    time steps; any packets, proofs and heights), the destination application
    processes each (source, destination, sequence) at most once. *)
Theorem C02_deliver_at_most_once :
  forall (A : Type) (H : bytes -> bytes) (has_route : bytes -> bool)
         (on_recv : A -> packet -> option (A * option bytes))
         (on_ack : A -> packet -> bytes -> option A)
         (c : chain A) (ops : list (op A)) (s d : bytes) (n : N),
    Forall op_wf ops -> wfk s d n ->
    (ndeliver s d n (run_log A H has_route on_recv on_ack c ops) <= 1)%nat.
Proof. exact deliver_at_most_once. Qed.
Print Assumptions C02_deliver_at_most_once.

(** A genuinely committed, well-formed packet that has been neither delivered
    nor cleaned is accepted at its destination with a valid, current proof. *)
Theorem C02_recv_complete_dest :
  forall (A : Type) (H : bytes -> bytes) (has_route : bytes -> bool)
         (on_recv : A -> packet -> option (A * option bytes))
         (c : chain A) (p : packet) (pf : proof) (h : N) (a' : A) (ack : bytes),
    deliverable A H c p pf h -> p_dst p = c_name A c -> p_relay p <> c_name A c ->
    has_route (p_port p) = true ->
    on_recv (c_app A c) p = Some (a', Some ack) -> ack <> [] ->
    ack_at A c (p_src p) (p_dst p) (p_seq p) = None ->
    exists c' ev, msg_recv A H has_route on_recv c p pf h = Some (c', ev) /\
                  In (EDeliver p) ev /\ In (EWriteAck p ack) ev /\
                  ack_at A c' (p_src p) (p_dst p) (p_seq p) = Some (H ack).
Proof. exact recv_complete_dest. Qed.
Print Assumptions C02_recv_complete_dest.

(** ... and at its relay chain when the whitelist allows it *)
Theorem C02_recv_complete_relay :
  forall (A : Type) (H : bytes -> bytes) (has_route : bytes -> bool)
         (on_recv : A -> packet -> option (A * option bytes))
         (c : chain A) (p : packet) (pf : proof) (h : N),
    deliverable A H c p pf h -> p_relay p = c_name A c -> p_dst p <> c_name A c ->
    authenticate (c_rules A c) (p_src p) (p_dst p) (p_port p) = true ->
    has (p_dst p) (c_clients A c) = true ->
    exists c', msg_recv A H has_route on_recv c p pf h = Some (c', [ERecv p; ESend p]) /\
               commit_at A c' (p_src p) (p_dst p) (p_seq p) = Some (H (p_data p)) /\
               c_app A c' = c_app A c.
Proof. exact recv_complete_relay. Qed.
Print Assumptions C02_recv_complete_relay.

(** non-vacuity: a concrete chain delivers xp1 once; the replay and the replay
    after a clean are refused; the premises of the completeness theorem hold *)
Example C02_nonvacuous :
  ndeliver nameA nameB 1
    (mrun_log xcB [ORecv xp1 xpf 5; ORecv xp1 xpf 5; ORecv xp1 xpf 5]) = 1%nat /\
  deliverable unit idH xcB xp1 xpf 5.
Proof.
  split; [vm_compute; reflexivity|].
  unfold deliverable. repeat split; try (vm_compute; congruence).
  eexists. repeat split; vm_compute; reflexivity.
Qed.
