(** C05 — multi-token transfers conserve supply; no uint64 arithmetic wraps.
    PROVED: on every chain, for every (class, id), after every user transaction
    and every transfer-module callback: sum of balances = supply <= 2^64-1, every
    ledger operation either fails cleanly or moves exactly the stated amount, no
    subtraction wraps and no addition overflows; exact refunds (C06).
    OVER HISTORIES: see C05Hist.v (every history of one chain: escrow and
    voucher-supply accounting, exact and within uint64 at every prefix),
    C05HistNet.v / C05HistSum.v (the application network refines the generic
    network; per key: credit at most once, only for sent data, excluded by a
    refund), C05HistTotal.v (units credited on j + units refunded on i <= units
    sent by i to j, for every history) and, when present, C05HistCross.v (the
    two-chain equation).
    NOT PROVED (checked by the correspondence oracles on every explored history):
    the equalities over routes of three and more chains and through relays. *)
From Tibc Require Import Base.Bytes Base.FMap Packet.Types Packet.Keeper
  Apps.Path Apps.Nft Apps.Mt Apps.MtFacts Apps.App Apps.AppFacts.

(** transfer: succeeds iff the source holds enough; then exactly [amt] moves,
    supplies are untouched, the invariant is kept; otherwise nothing changes *)
Theorem C05_transfer_exact_no_wrap :
  forall (st : mt_state) (c i : bytes) (amt : N) (src dst : bytes),
    MtInv st ->
    (bal_of st src c i < amt -> mt_transfer st c i amt src dst = (st, false)) /\
    (amt <= bal_of st src c i ->
     exists st', mt_transfer st c i amt src dst = (st', true) /\ MtInv st' /\
       (forall c' i', supply_of st' c' i' = supply_of st c' i') /\
       (src <> dst -> bal_of st' src c i = bal_of st src c i - amt /\
                      bal_of st' dst c i = bal_of st dst c i + amt) /\
       (src = dst -> bal_of st' src c i = bal_of st src c i) /\
       (forall o c' i', (c', i') <> (c, i) \/ (o <> src /\ o <> dst) -> bal_of st' o c' i' = bal_of st o c' i')).
Proof. exact mt_transfer_inv. Qed.
Print Assumptions C05_transfer_exact_no_wrap.

Theorem C05_mint_exact_no_overflow :
  forall (st : mt_state) (c i : bytes) (amt : N) (rcpt : bytes),
    MtInv st ->
    (u64max < supply_of st c i + amt -> mt_mint st c i amt rcpt = (st, false)) /\
    (supply_of st c i + amt <= u64max ->
     exists st', mt_mint st c i amt rcpt = (st', true) /\ MtInv st' /\
       supply_of st' c i = supply_of st c i + amt /\
       bal_of st' rcpt c i = bal_of st rcpt c i + amt /\
       (forall o c' i', (c', i') <> (c, i) \/ o <> rcpt -> bal_of st' o c' i' = bal_of st o c' i') /\
       (forall c' i', (c', i') <> (c, i) -> supply_of st' c' i' = supply_of st c' i')).
Proof. exact mt_mint_inv. Qed.
Print Assumptions C05_mint_exact_no_overflow.

Theorem C05_burn_exact_no_wrap :
  forall (st : mt_state) (c i : bytes) (amt : N) (owner : bytes),
    MtInv st ->
    (bal_of st owner c i < amt -> mt_burn st c i amt owner = (st, false)) /\
    (amt <= bal_of st owner c i ->
     exists st', mt_burn st c i amt owner = (st', true) /\ MtInv st' /\
       supply_of st' c i = supply_of st c i - amt /\
       bal_of st' owner c i = bal_of st owner c i - amt /\
       (forall o c' i', (c', i') <> (c, i) \/ o <> owner -> bal_of st' o c' i' = bal_of st o c' i') /\
       (forall c' i', (c', i') <> (c, i) -> supply_of st' c' i' = supply_of st c' i')).
Proof. exact mt_burn_inv. Qed.
Print Assumptions C05_burn_exact_no_wrap.

(** the invariant holds initially and after every user transaction, every
    receive callback (success, error acknowledgement or failure) and every
    acknowledgement callback (incl. refunds): hence in every reachable state *)
Theorem C05_invariant_initial : AppInv app_init.
Proof. exact AppInv_init. Qed.
Print Assumptions C05_invariant_initial.

Theorem C05_invariant_user_ops :
  forall (H : bytes -> bytes) (nft_escrow mt_escrow : bytes)
         (enc_nft : nft_data -> bytes) (enc_mt : mt_data -> bytes)
         (c : chain app_state) (u : user_op) (c' : chain app_state) (ev : list event),
    AppInv (c_app app_state c) ->
    user_exec H nft_escrow mt_escrow enc_nft enc_mt c u = Some (c', ev) ->
    AppInv (c_app app_state c').
Proof. exact user_keeps_inv. Qed.
Print Assumptions C05_invariant_user_ops.

Theorem C05_invariant_recv_callback :
  forall (Hh : bytes -> bytes) (valid_addr : bytes -> bool) (nft_escrow mt_escrow : bytes)
         (dec_nft : bytes -> option nft_data) (dec_mt : bytes -> option mt_data)
         (a : app_state) (p : packet) (a' : app_state) (ack : option bytes),
    AppInv a -> app_on_recv Hh valid_addr nft_escrow mt_escrow dec_nft dec_mt a p = Some (a', ack) -> AppInv a'.
Proof. exact recv_keeps_inv. Qed.
Print Assumptions C05_invariant_recv_callback.

Theorem C05_invariant_ack_callback :
  forall (Hh : bytes -> bytes) (valid_addr : bytes -> bool) (nft_escrow mt_escrow : bytes)
         (dec_nft : bytes -> option nft_data) (dec_mt : bytes -> option mt_data)
         (a : app_state) (p : packet) (k : bytes) (a' : app_state),
    AppInv a -> app_on_ack Hh valid_addr nft_escrow mt_escrow dec_nft dec_mt a p k = Some a' -> AppInv a'.
Proof. intros Hh va ne me dn dm. exact (ack_keeps_inv Hh (fun x => x) va ne me dn (fun _ => []) dm). Qed.
Print Assumptions C05_invariant_ack_callback.

(** the escrow step of a send moves exactly the amount and needs the sender to hold it *)
Theorem C05_send_moves_exact_amount :
  forall (escrow : bytes) (enc : mt_data -> bytes)
         (name : bytes) (seq : N) (st : mt_state)
         (class id sender receiver dest relay contract : bytes) (amt : N) (st1 : mt_state) (p : packet),
    MtInv st -> mt_send escrow enc name seq st class id sender receiver dest relay contract amt = Some (st1, p) ->
    MtInv st1 /\ amt <= bal_of st sender class id /\
    p_src p = name /\ p_dst p = dest /\ p_relay p = relay /\ p_seq p = seq /\ p_port p = MT_PORT.
Proof. intros escrow enc. exact (mt_send_inv escrow enc). Qed.
Print Assumptions C05_send_moves_exact_amount.

(** non-vacuity: at the 64-bit limit -- 2^64-1 units minted, one more refused,
    2^63 moved, a transfer of more than held refused, all without wrap *)
Example C05_nonvacuous :
  let cls := of_string "c" in let id := of_string "i" in
  let u1 := of_string "u1" in let u2 := of_string "u2" in
  let st0 := mkMtState [] [] [] [] [] in
  let '(st1, ok1) := mt_mint st0 cls id u64max u1 in
  let '(_, ok2) := mt_mint st1 cls id 1 u1 in
  let '(st3, ok3) := mt_transfer st1 cls id 9223372036854775808 u1 u2 in
  let '(_, ok4) := mt_transfer st3 cls id 9223372036854775808 u1 u2 in
  (ok1, ok2, ok3, ok4, bal_of st3 u1 cls id, bal_of st3 u2 cls id, supply_of st3 cls id) =
  (true, false, true, false, 9223372036854775807, 9223372036854775808, u64max).
Proof. vm_compute. reflexivity. Qed.
