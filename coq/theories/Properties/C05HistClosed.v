(** C05 across two chains with the forward premise "no unit is created"
    discharged from the summed inequality C05total_sum_ineq -- statements only;
    proofs in Net/MtCrossBridge.v.

    i = chain named NA, j = chain named NB, cl a '/'-free class on i,
    v = [voucher_of NA NB cl] = "tibc-mt/NA/NB/cl" the class an away-receive of a
    packet NA -> NB carrying cl mints on j.  Weight on packet data:
    [wd cl id data] = the amount if the data decode to (class path cl, id, away),
    else 0. *)
From Tibc Require Import Base.Bytes Base.FMap Host.Keys Host.KeysFacts Routing.Rules
  Packet.Types Packet.Keeper Packet.KeeperFacts Net.Net Net.Explained Net.NetInv
  Apps.Path Apps.Nft Apps.Mt Apps.MtFacts Apps.App Apps.AppFacts Harness.AppNet
  Net.AppNetSim Net.AppNetNoSelf Net.AppNetSumIneq
  Apps.MtHistory Apps.MtHistEscrow Net.MtCrossChain Net.MtCrossEq Net.MtCrossBridge.
From Tibc Require Import Properties.Example Properties.C05HistNet Properties.C05HistSum Properties.C05HistCross.

(** for '/'-free chain names and class paths the voucher class determines the
    source chain and the class *)
Theorem C05closed_voucher_class_injective :
  forall s d b s' b' : bytes,
    noslash s -> noslash s' -> noslash d -> noslash b -> noslash b' ->
    voucher_of s d b = voucher_of s' d b' -> s = s' /\ b = b'.
Proof. exact voucher_of_inj. Qed.
Print Assumptions C05closed_voucher_class_injective.

(** BRIDGE (1): the units minted into (v, id) by away-receives on j are at most
    the credited sum of j's log (success acknowledgements written for relay-free
    MT packets NA -> NB, weighted by [wd]).
    Premise [anop_direct NA NB] on the relayed messages of the history: received
    and acknowledged packets are relay-free; the class path of an "away" packet is
    '/'-free; acknowledged packets with source NA have destination NB.  The
    '/'-freeness is the MT analogue of finding D4 and is needed:
    C05closed_plain_class_needed. *)
Theorem C05closed_minted_le_credited :
  forall (nft_escrow mt_escrow NA NB cl id : bytes),
    noslash NA -> noslash NB -> noslash cl ->
    forall (n0 : anet) (ops : list anop) (j : nat) (cj0 : chain app_state),
      Forall (anop_direct NA NB) ops -> nth_error n0 j = Some cj0 -> c_name app_state cj0 = NB ->
      MR nft_escrow mt_escrow n0 ops j (voucher_of NA NB cl) id
      <= credited_sum NA NB (wd cl id) (log_of j (anrun_log nft_escrow mt_escrow n0 ops)).
Proof. exact MR_le_credited. Qed.
Print Assumptions C05closed_minted_le_credited.

(** BRIDGE (2): the units refunded to senders of away-sends of (cl, id) on i are
    at most the refunded sum of i's log *)
Theorem C05closed_refunded_le_refunded_sum :
  forall (nft_escrow mt_escrow NA NB cl id : bytes)
    (n0 : anet) (ops : list anop) (i : nat) (ci0 : chain app_state),
      Forall (anop_direct NA NB) ops -> nth_error n0 i = Some ci0 -> c_name app_state ci0 = NA ->
      RA nft_escrow mt_escrow n0 ops i cl id
      <= refunded_sum NA NB (wd cl id) (log_of i (anrun_log nft_escrow mt_escrow n0 ops)).
Proof. exact RA_le_refunded. Qed.
Print Assumptions C05closed_refunded_le_refunded_sum.

(** the premise MR + RA <= SA of C05X_cross_chain_equation, from hist_ok, the
    direct-traffic premise and bridge (3) [sends_accounted]:
      sent_sum NA NB (wd cl id) (log of i) <= SA
    (every commitment NA -> NB in i's log whose data say (cl, id, away) is an
    accounted away-send of (cl, id) of that amount; this needs: no bare OSend on
    the MT port, a codec round trip on the data actually sent, and that the class
    the user named is cl -- NOT proved here) *)
Theorem C05closed_no_unit_created_forward :
  forall (nft_escrow mt_escrow NA NB cl id : bytes),
    noslash NA -> noslash NB -> noslash cl ->
    forall (n0 : anet) (ops : list anop) (i j : nat) (ci0 cj0 ci cj : chain app_state),
      hist_ok n0 ops -> Forall (anop_direct NA NB) ops ->
      nth_error n0 i = Some ci0 -> nth_error n0 j = Some cj0 ->
      c_name app_state ci0 = NA -> c_name app_state cj0 = NB ->
      nth_error (anrun nft_escrow mt_escrow n0 ops) i = Some ci ->
      nth_error (anrun nft_escrow mt_escrow n0 ops) j = Some cj ->
      sends_accounted nft_escrow mt_escrow NA NB cl id n0 ops i ->
      MR nft_escrow mt_escrow n0 ops j (voucher_of NA NB cl) id + RA nft_escrow mt_escrow n0 ops i cl id
      <= SA nft_escrow mt_escrow n0 ops i cl id.
Proof. exact no_unit_created_ij_discharged. Qed.
Print Assumptions C05closed_no_unit_created_forward.

(** THE TWO-CHAIN EQUATION with the forward premise discharged:
      locked on i = vouchers on j + in flight i->j + in flight j->i,
      vouchers on j <= locked on i <= 2^64-1.
    Remaining premises: hist_ok, no OSetApp, direct traffic with plain class
    paths, clean acts on i, no user mint/burn of (v,id) on j, empty start,
    bridge (3) [sends_accounted], and the reverse-direction inequality. *)
Theorem C05closed_cross_chain_equation :
  forall (nft_escrow mt_escrow NA NB cl id : bytes) (n0 : anet) (ops : list anop) (i j : nat)
         (ci0 cj0 ci cj : chain app_state),
    noslash NA -> noslash NB -> noslash cl ->
    hist_ok n0 ops -> Forall anop_noset ops -> Forall (anop_direct NA NB) ops ->
    nth_error n0 i = Some ci0 -> nth_error n0 j = Some cj0 ->
    c_name app_state ci0 = NA -> c_name app_state cj0 = NB ->
    MtInv (a_mt (c_app app_state ci0)) -> MtInv (a_mt (c_app app_state cj0)) ->
    nth_error (anrun nft_escrow mt_escrow n0 ops) i = Some ci ->
    nth_error (anrun nft_escrow mt_escrow n0 ops) j = Some cj ->
    bal_of (a_mt (c_app app_state ci0)) mt_escrow cl id = 0 ->
    supply_of (a_mt (c_app app_state cj0)) (voucher_of NA NB cl) id = 0 ->
    Forall (act_clean mt_escrow) (nacts nft_escrow mt_escrow i n0 ops) ->
    sumf (user_minted (voucher_of NA NB cl) id) (nacts nft_escrow mt_escrow j n0 ops) = 0 ->
    sumf (user_burned (voucher_of NA NB cl) id) (nacts nft_escrow mt_escrow j n0 ops) = 0 ->
    sends_accounted nft_escrow mt_escrow NA NB cl id n0 ops i ->
    RB nft_escrow mt_escrow n0 ops i cl id + RM nft_escrow mt_escrow n0 ops j (voucher_of NA NB cl) id
      <= BB nft_escrow mt_escrow n0 ops j (voucher_of NA NB cl) id ->
    let v := voucher_of NA NB cl in
    bal_of (a_mt (c_app app_state ci)) mt_escrow cl id
      = supply_of (a_mt (c_app app_state cj)) v id
        + in_flight_ij nft_escrow mt_escrow n0 ops i j cl v id
        + in_flight_ji nft_escrow mt_escrow n0 ops i j cl v id /\
    in_flight_ij nft_escrow mt_escrow n0 ops i j cl v id
      + (MR nft_escrow mt_escrow n0 ops j v id + RA nft_escrow mt_escrow n0 ops i cl id)
      = SA nft_escrow mt_escrow n0 ops i cl id /\
    in_flight_ji nft_escrow mt_escrow n0 ops i j cl v id
      + (RB nft_escrow mt_escrow n0 ops i cl id + RM nft_escrow mt_escrow n0 ops j v id)
      = BB nft_escrow mt_escrow n0 ops j v id /\
    supply_of (a_mt (c_app app_state cj)) v id <= bal_of (a_mt (c_app app_state ci)) mt_escrow cl id /\
    bal_of (a_mt (c_app app_state ci)) mt_escrow cl id <= u64max.
Proof. exact closed_cross_chain_equation. Qed.
Print Assumptions C05closed_cross_chain_equation.

(** * non-vacuity: the history [x_cross] of C05HistCross.v meets the new premises *)
Lemma x_pkt_plain : pkt_plain x_pkt.
Proof.
  split; [reflexivity|]. intros d D _. vm_compute in D. inversion D. cbn [md_class].
  intros X. vm_compute in X. repeat (destruct X as [X|X]; [discriminate X|]). exact X.
Qed.

Lemma x_back_plain : pkt_plain x_back.
Proof.
  split; [reflexivity|]. intros d D A. vm_compute in D. inversion D; subst d. discriminate A.
Qed.

Example C05closed_nonvacuous :
  noslash nameA /\ noslash nameB /\ noslash x_cls /\
  Forall (anop_direct nameA nameB) x_cross /\
  sends_accounted x_nesc x_mesc nameA nameB x_cls x_tid x_n0 x_cross 0 /\
  (credited_sum nameA nameB (wd x_cls x_tid) (log_of 1 (anrun_log x_nesc x_mesc x_n0 x_cross)),
   refunded_sum nameA nameB (wd x_cls x_tid) (log_of 0 (anrun_log x_nesc x_mesc x_n0 x_cross)),
   sent_sum nameA nameB (wd x_cls x_tid) (log_of 0 (anrun_log x_nesc x_mesc x_n0 x_cross))) = (4, 0, 7).
Proof.
  assert (NS : forall b, (forall x, In x b -> N.eqb x slash = false) -> noslash b).
  { intros b F X. apply F in X. discriminate X. }
  split; [apply NS; intros x X; vm_compute in X; repeat (destruct X as [<-|X]; [reflexivity|]); destruct X|].
  split; [apply NS; intros x X; vm_compute in X; repeat (destruct X as [<-|X]; [reflexivity|]); destruct X|].
  split; [apply NS; intros x X; vm_compute in X; repeat (destruct X as [<-|X]; [reflexivity|]); destruct X|].
  split.
  { repeat (apply Forall_cons || apply Forall_nil); cbn [anop_direct];
      try exact Logic.I; try exact x_pkt_plain; try exact x_back_plain.
    split; [exact x_pkt_plain|intros _; reflexivity]. }
  split; [vm_compute; discriminate|]. vm_compute. reflexivity.
Qed.

(** * the plain-class premise is needed (MT analogue of D4): on A a user issues
    the native class "mt/chain-aaaa/gold" and sends 4 units to B; B mints them
    into the voucher class of "gold" -- 4 vouchers of "gold" exist on B although
    no unit of "gold" was ever locked on A: MR + RA <= SA fails (4 + 0 <= 0) *)
Definition x_fcls := MT_PFX ++ slash :: nameA ++ slash :: x_cls.
Definition x_fpkt : packet :=
  mkPacket 1 nameA nameB [] MT_PORT
    (enc_mt (mkMtData x_fcls x_tid x_alice x_bob true [] 4 (of_string "meta"))).
Definition x_forge : list anop :=
  [ ANet (NCreate 0 1 100 2 90 1000); ANet (NCreate 1 0 100 2 90 1000);
    AUser 0 100 (UMtIssue x_fcls x_alice);
    AUser 0 100 (UMtMintNew x_fcls x_tid 10 (of_string "meta") x_alice x_alice);
    AUser 0 100 (UMtSend x_fcls x_tid x_alice x_bob nameB [] [] 4);
    ANet (NUpd 1 0 110 5 105);
    ANet (NChain 1 120 (ORecv x_fpkt x_pf 5)) ].

Example C05closed_plain_class_needed :
  hist_ok x_n0 x_forge /\ Forall anop_noset x_forge /\
  ~ pkt_plain x_fpkt /\
  (MR x_nesc x_mesc x_n0 x_forge 1 x_v x_tid, RA x_nesc x_mesc x_n0 x_forge 0 x_cls x_tid,
   SA x_nesc x_mesc x_n0 x_forge 0 x_cls x_tid) = (4, 0, 0) /\
  match anrun x_nesc x_mesc x_n0 x_forge with
  | [cA; cB] => (bal_of (a_mt (c_app app_state cA)) x_mesc x_cls x_tid,
                 supply_of (a_mt (c_app app_state cB)) x_v x_tid) = (0, 4)
  | _ => False
  end.
Proof.
  split.
  { split; [exact x_n0_init|]. split; [exact x_names_nodup|].
    split; [repeat constructor; cbn; unfold wfp; cbn; try exact I; reflexivity|]. repeat constructor. }
  split; [repeat constructor|].
  split.
  { intros [_ P].
    assert (D : dec_mt (p_data x_fpkt) = Some (mkMtData x_fcls x_tid x_alice x_bob true [] 4 (of_string "meta")))
      by (vm_compute; reflexivity).
    apply (P _ D eq_refl). vm_compute. tauto. }
  split; vm_compute; reflexivity.
Qed.
