(** C04 over histories -- per-chain NFT ownership accounting.

    Properties/C04.v proves what ONE call of the NFT transfer module does.  This
    file states what holds after EVERY history of one chain, so that the
    cross-chain statement "exactly one holder" reduces to the packet-layer facts
    C01-C03 (a packet is delivered at most once and only if it was sent, an
    acknowledgement is processed at most once).

    A history ([list hop], Apps/NftHistory.v) mixes packet-layer operations
    ([HOp o], executed by [exec] with the application callbacks of Apps/App.v) and
    user transactions ([HUser u], executed by [user_exec]); every step is a
    transaction (a failing step changes nothing).  [hrun] is the final chain,
    [hlog] the event log, [htrace] the list of successful steps (state before,
    operation, events emitted).

    [cause_of c h ev] reads off a successful step what the NFT module did --
    from the operation, the events it emitted, the decoded packet data and, for
    a send, the class-trace store; never from the ownership ledger:
      KCreate w class id owner uri   absent -> (owner, uri)
      KMove w class id from to       (from, uri) -> (to, uri)
      KDestroy w class id owner      (owner, uri) -> absent
      KNone                          no token changed
    with the reason [w]: user mint / move / burn, own send, successful receive
    (away / back), refund (of an away-send / of a back-send).  A receive counts as
    successful when the step's events end with [EDeliver p; EWriteAck p ack_ok]
    ([recv_ok_ev]); a refund is a step whose events end with [EAppAck p ack]
    ([appack_ev]) for an error acknowledgement.

    Premises used below, and why:
    - [not_setapp h]: the artificial packet-layer operation [OSetApp], which
      overwrites the application state, does not occur (user transactions are
      explicit here).
    - [no_escrow_sig esc h]: no user transaction is signed by the transfer
      module's escrow account (mint sender, transfer source, burn owner, send
      sender).  A module account has no key.  NEEDED: the escrow account is the
      creator of every voucher class, so its signature could mint vouchers and
      move escrowed tokens (Example [C04_hist_escrow_signature_needed]).
    - [no_reserved_issue h]: no user issues a class whose name starts with
      "tibc-".  In the implementation irismod's MsgIssueDenom validation refuses
      the reserved prefixes; the model's [UNftIssue] has no such check.  NEEDED
      (Example [C04_hist_reserved_issue_needed]).
    - [VInv esc st]: every "tibc-" class of the start state was issued by the
      transfer module (creator = escrow account, minting restricted).  Holds
      initially ([VInv_init]) and is kept by every good step.
    [good esc h] is the conjunction of the three step premises.

    Native classes containing '/' (finding D4, [C04_forge_refuted]) are not
    excluded anywhere: the theorems say what the code does -- a back-receive
    releases the escrowed token that the packet's class path RESOLVES to, whoever
    built that path. *)
From Tibc Require Import Base.Bytes Base.FMap Host.Keys Routing.Rules Packet.Types Packet.Keeper
  Packet.KeeperFacts Apps.Path Apps.Nft Apps.NftFacts Apps.Mt Apps.App Harness.AppNet
  Apps.NftHistory Apps.NftHistoryThm Apps.NftEscrow.

(** 0. THE STEP THEOREM.  Every successful step of a history (except [OSetApp])
    changes the ownership ledger exactly as its cause says: one token is
    created, moved or destroyed, every other token keeps owner and uri. *)
Theorem C04_hist_step_effect :
  forall (Hh H : bytes -> bytes) (valid_addr : bytes -> bool) (nft_escrow mt_escrow : bytes)
         (enc_nft : nft_data -> bytes) (dec_nft : bytes -> option nft_data)
         (enc_mt : mt_data -> bytes) (dec_mt : bytes -> option mt_data)
         (c : chain app_state) (h : hop) (c' : chain app_state) (ev : list event),
    hexec Hh H valid_addr nft_escrow mt_escrow enc_nft dec_nft enc_mt dec_mt c h = Some (c', ev) ->
    not_setapp h ->
    effect (cause_of Hh nft_escrow dec_nft c h ev) (nft_of c) (nft_of c').
Proof. exact step_effect. Qed.
Print Assumptions C04_hist_step_effect.

(** the causes mean what their names say: each is tied to the operation of the
    step, the shape of its events and the decoded packet data *)
Theorem C04_hist_cause_explained :
  forall (Hh : bytes -> bytes) (nft_escrow : bytes) (dec_nft : bytes -> option nft_data)
         (c : chain app_state) (h : hop) (ev : list event),
    explained Hh nft_escrow dec_nft c h ev (cause_of Hh nft_escrow dec_nft c h ev).
Proof. exact cause_of_explained. Qed.
Print Assumptions C04_hist_cause_explained.

(** 1. VOUCHERS ONLY AGAINST DELIVERED PACKETS.  If after a history a token of
    a "tibc-" class exists that did not exist before, then the event log of the
    history contains
    - the delivery [EDeliver p] of an NFT packet to this chain, answered with the
      success acknowledgement, whose data says "away from origin", carries this
      id, and whose class path extended by this hop hashes to this class; or
    - the processing [EAppAck p ack] of an ERROR acknowledgement for an NFT
      packet of this chain whose data says "back to origin" (the burned voucher
      is minted again), with this id and a class path hashing to this class.
    Nothing else creates it: a user mint on a voucher class needs the escrow
    account's signature. *)
Theorem C04_hist_vouchers_only_against_packets :
  forall (Hh H : bytes -> bytes) (valid_addr : bytes -> bool) (nft_escrow mt_escrow : bytes)
         (enc_nft : nft_data -> bytes) (dec_nft : bytes -> option nft_data)
         (enc_mt : mt_data -> bytes) (dec_mt : bytes -> option mt_data)
         (c : chain app_state) (hs : list hop) (class id : bytes),
    Forall (good nft_escrow) hs -> VInv nft_escrow (nft_of c) -> is_voucher class = true ->
    token_at (nft_of c) class id = None ->
    token_at (nft_of (hrun Hh H valid_addr nft_escrow mt_escrow enc_nft dec_nft enc_mt dec_mt c hs)) class id <> None ->
    let log := hlog Hh H valid_addr nft_escrow mt_escrow enc_nft dec_nft enc_mt dec_mt c hs in
    (exists p d, In (EDeliver p) log /\ In (EWriteAck p ack_ok) log /\
       p_port p = NFT_PORT /\ p_dst p = c_name app_state c /\ dec_nft (p_data p) = Some d /\
       nd_away d = true /\ nd_id d = id /\
       class = voucher_class Hh (away_new_class_path NFT_PFX (p_src p) (p_dst p) (nd_class d))) \/
    (exists p ack d, In (EAppAck p ack) log /\ is_err_ack ack = true /\
       p_port p = NFT_PORT /\ p_src p = c_name app_state c /\ dec_nft (p_data p) = Some d /\
       nd_away d = false /\ nd_id d = id /\ class = voucher_class Hh (nd_class d)).
Proof. exact vouchers_only_against_packets. Qed.
Print Assumptions C04_hist_vouchers_only_against_packets.

(** the class invariant holds initially and is kept by good histories *)
Theorem C04_hist_VInv_kept :
  forall (Hh H : bytes -> bytes) (valid_addr : bytes -> bool) (nft_escrow mt_escrow : bytes)
         (enc_nft : nft_data -> bytes) (dec_nft : bytes -> option nft_data)
         (enc_mt : mt_data -> bytes) (dec_mt : bytes -> option mt_data)
         (hs : list hop) (c : chain app_state),
    Forall (good nft_escrow) hs -> VInv nft_escrow (nft_of c) ->
    VInv nft_escrow (nft_of (hrun Hh H valid_addr nft_escrow mt_escrow enc_nft dec_nft enc_mt dec_mt c hs)).
Proof. exact hrun_VInv. Qed.
Print Assumptions C04_hist_VInv_kept.

(** 2. ESCROW RELEASED ONLY TO THE RIGHT CLAIMANT.  Take any successful step
    (c1, h, ev) of any good history and any (class, id) the escrow account owns
    before it.  After the step the escrow account still owns it, or it is owned
    by [to] <> escrow and
    - the step delivered an NFT packet to this chain (success acknowledgement)
      whose data says "back", whose class path resolves ([back_new_class_path])
      to a path hashing to this class, whose id is this id and whose receiver is
      [to]; or
    - the step processed an error acknowledgement of an NFT packet of this chain
      whose data says "away", with this class and id, and [to] is the sender
      the packet names.
    In particular an escrowed token is never destroyed. *)
Theorem C04_hist_escrow_released_only_to_claimant :
  forall (Hh H : bytes -> bytes) (valid_addr : bytes -> bool) (nft_escrow mt_escrow : bytes)
         (enc_nft : nft_data -> bytes) (dec_nft : bytes -> option nft_data)
         (enc_mt : mt_data -> bytes) (dec_mt : bytes -> option mt_data)
         (c : chain app_state) (hs : list hop) (c1 : chain app_state) (h : hop) (ev : list event)
         (class id : bytes),
    Forall (good nft_escrow) hs ->
    In (c1, h, ev) (htrace Hh H valid_addr nft_escrow mt_escrow enc_nft dec_nft enc_mt dec_mt c hs) ->
    owner_of (nft_of c1) class id = Some nft_escrow ->
    let log := hlog Hh H valid_addr nft_escrow mt_escrow enc_nft dec_nft enc_mt dec_mt c hs in
    exists c2,
      hexec Hh H valid_addr nft_escrow mt_escrow enc_nft dec_nft enc_mt dec_mt c1 h = Some (c2, ev) /\
      (owner_of (nft_of c2) class id = Some nft_escrow \/
       exists to, owner_of (nft_of c2) class id = Some to /\ to <> nft_escrow /\
         ((exists p d np, In (EDeliver p) log /\ In (EWriteAck p ack_ok) log /\
             p_port p = NFT_PORT /\ p_dst p = c_name app_state c /\ dec_nft (p_data p) = Some d /\
             nd_away d = false /\ back_new_class_path (nd_class d) = Some np /\
             class = voucher_class Hh np /\ id = nd_id d /\ to = nd_receiver d) \/
          (exists p ack d, In (EAppAck p ack) log /\ is_err_ack ack = true /\
             p_port p = NFT_PORT /\ p_src p = c_name app_state c /\ dec_nft (p_data p) = Some d /\
             nd_away d = true /\ class = voucher_class Hh (nd_class d) /\ id = nd_id d /\
             to = nd_sender d))).
Proof. exact escrow_released_only_to_claimant. Qed.
Print Assumptions C04_hist_escrow_released_only_to_claimant.

(** the same for one step from ANY state (no invariant is needed) *)
Theorem C04_hist_escrow_release_step :
  forall (Hh H : bytes -> bytes) (valid_addr : bytes -> bool) (nft_escrow mt_escrow : bytes)
         (enc_nft : nft_data -> bytes) (dec_nft : bytes -> option nft_data)
         (enc_mt : mt_data -> bytes) (dec_mt : bytes -> option mt_data)
         (c : chain app_state) (h : hop) (c' : chain app_state) (ev : list event) (class id : bytes),
    hexec Hh H valid_addr nft_escrow mt_escrow enc_nft dec_nft enc_mt dec_mt c h = Some (c', ev) ->
    not_setapp h -> no_escrow_sig nft_escrow h ->
    owner_of (nft_of c) class id = Some nft_escrow -> owner_of (nft_of c') class id <> Some nft_escrow ->
    exists to, owner_of (nft_of c') class id = Some to /\ to <> nft_escrow /\
      (is_recv_back Hh dec_nft h ev class id to \/ is_refund_away Hh dec_nft h ev class id to).
Proof. exact escrow_release_step. Qed.
Print Assumptions C04_hist_escrow_release_step.

(** 3. ESCROW ACCOUNTING.  [esc_ghost E c hs] computes a list of (class, id)
    from the history alone: start with E; a successful step whose cause moves a
    token to / creates it for the escrow account adds it; a step whose cause
    moves it away from / destroys it at the escrow account removes it.  If E is
    the set of tokens the escrow account owns at the start, [esc_ghost E c hs] is
    exactly the set it owns at the end -- for every history without [OSetApp]; no
    other premise. *)
Theorem C04_hist_escrow_accounting :
  forall (Hh H : bytes -> bytes) (valid_addr : bytes -> bool) (nft_escrow mt_escrow : bytes)
         (enc_nft : nft_data -> bytes) (dec_nft : bytes -> option nft_data)
         (enc_mt : mt_data -> bytes) (dec_mt : bytes -> option mt_data)
         (hs : list hop) (c : chain app_state) (E : list tok),
    Forall not_setapp hs ->
    (forall t, In t E <-> in_escrow nft_escrow (nft_of c) t) ->
    forall t, In t (esc_ghost Hh H valid_addr nft_escrow mt_escrow enc_nft dec_nft enc_mt dec_mt E c hs) <->
              in_escrow nft_escrow
                (nft_of (hrun Hh H valid_addr nft_escrow mt_escrow enc_nft dec_nft enc_mt dec_mt c hs)) t.
Proof. exact escrow_accounting. Qed.
Print Assumptions C04_hist_escrow_accounting.

(** the terms of the ghost, in packet-layer words.  A token is REMOVED from the
    escrow set only by a successful back-receive resolving to it or by the refund
    of an away-send of it (given that the escrow account signs nothing). *)
Theorem C04_hist_escrow_minus_terms :
  forall (Hh : bytes -> bytes) (nft_escrow : bytes) (dec_nft : bytes -> option nft_data)
         (c : chain app_state) (h : hop) (ev : list event) (t : tok),
    no_escrow_sig nft_escrow h ->
    esc_delta nft_escrow (cause_of Hh nft_escrow dec_nft c h ev) = DOut t ->
    exists to, to <> nft_escrow /\
      (is_recv_back Hh dec_nft h ev (fst t) (snd t) to \/ is_refund_away Hh dec_nft h ev (fst t) (snd t) to).
Proof. exact esc_delta_out. Qed.
Print Assumptions C04_hist_escrow_minus_terms.

(** A token is ADDED to the escrow set by this chain's own away-send of it -- or
    by a step that names the escrow account as recipient, which anybody can
    cause: a user mint or transfer to the escrow address, a packet whose
    receiver is the escrow address, a refund to a sender field equal to it.
    These "donations" are why the ghost is not just sends minus releases. *)
Theorem C04_hist_escrow_plus_terms :
  forall (Hh : bytes -> bytes) (nft_escrow : bytes) (dec_nft : bytes -> option nft_data)
         (c : chain app_state) (h : hop) (ev : list event) (t : tok),
    esc_delta nft_escrow (cause_of Hh nft_escrow dec_nft c h ev) = DIn t ->
    (exists sender, is_own_send c h (fst t) (snd t) sender true) \/
    (exists uri sender, h = HUser (UNftMint (fst t) (snd t) uri sender nft_escrow)) \/
    (exists from, h = HUser (UNftMove (fst t) (snd t) from nft_escrow)) \/
    (exists uri, is_recv_away Hh dec_nft h ev (fst t) (snd t) nft_escrow uri) \/
    is_recv_back Hh dec_nft h ev (fst t) (snd t) nft_escrow \/
    is_refund_away Hh dec_nft h ev (fst t) (snd t) nft_escrow \/
    (exists uri, is_refund_back Hh dec_nft h ev (fst t) (snd t) nft_escrow uri).
Proof. exact esc_delta_in. Qed.
Print Assumptions C04_hist_escrow_plus_terms.

(** 4. ONE HOLDER PER CHAIN.  On one chain a (class, id) is in exactly one of
    three states: held by a user, owned by the escrow account, absent. *)
Theorem C04_hist_holder_trichotomy :
  forall (nft_escrow : bytes) (st : nft_state) (class id : bytes),
    (user_held nft_escrow st class id /\ owner_of st class id <> Some nft_escrow /\ token_at st class id <> None) \/
    (owner_of st class id = Some nft_escrow /\ ~ user_held nft_escrow st class id) \/
    (token_at st class id = None /\ ~ user_held nft_escrow st class id).
Proof. exact holder_trichotomy. Qed.
Print Assumptions C04_hist_holder_trichotomy.

(** a successful own send takes the sender's token out of user hands: it is
    locked in escrow (direction test says away) or destroyed (back) *)
Theorem C04_hist_send_unholds :
  forall (Hh H : bytes -> bytes) (valid_addr : bytes -> bool) (nft_escrow mt_escrow : bytes)
         (enc_nft : nft_data -> bytes) (dec_nft : bytes -> option nft_data)
         (enc_mt : mt_data -> bytes) (dec_mt : bytes -> option mt_data)
         (c : chain app_state) (h : hop) (c' : chain app_state) (ev : list event)
         (class id sender : bytes) (away : bool),
    hexec Hh H valid_addr nft_escrow mt_escrow enc_nft dec_nft enc_mt dec_mt c h = Some (c', ev) ->
    is_own_send c h class id sender away ->
    owner_of (nft_of c) class id = Some sender /\
    (if away then owner_of (nft_of c') class id = Some nft_escrow
     else token_at (nft_of c') class id = None) /\
    ~ user_held nft_escrow (nft_of c') class id.
Proof. exact send_unholds. Qed.
Print Assumptions C04_hist_send_unholds.

(** and the packet it emits carries exactly the class path, id, uri, sender,
    receiver and direction flag of that send *)
Theorem C04_hist_own_send_packet :
  forall (Hh H : bytes -> bytes) (valid_addr : bytes -> bool) (nft_escrow mt_escrow : bytes)
         (enc_nft : nft_data -> bytes) (dec_nft : bytes -> option nft_data)
         (enc_mt : mt_data -> bytes) (dec_mt : bytes -> option mt_data)
         (c : chain app_state) (h : hop) (c' : chain app_state) (ev : list event)
         (class id sender : bytes) (away : bool),
    hexec Hh H valid_addr nft_escrow mt_escrow enc_nft dec_nft enc_mt dec_mt c h = Some (c', ev) ->
    is_own_send c h class id sender away ->
    exists receiver dest relay contract full uri,
      h = HUser (UNftSend class id sender receiver dest relay contract) /\
      class_path_of (nft_of c) class = Some full /\
      token_at (nft_of c) class id = Some (sender, uri) /\
      ev = [ESend (mkPacket (next_send app_state c (c_name app_state c) dest) (c_name app_state c) dest relay
                     NFT_PORT (enc_nft (mkNftData full id uri sender receiver away contract)))].
Proof. exact own_send_packet. Qed.
Print Assumptions C04_hist_own_send_packet.

(** a (class, id) that is NOT in user hands (locked, burned, or never there)
    comes into user hands during a good history only through a step that is a
    user mint, a successful away-receive, the refund of a back-send, a
    successful back-receive or the refund of an away-send of exactly that
    (class, id).  So "held by a user on this chain" and "locked / burned for a
    packet in flight" are exclusive, and leaving the second needs the packet's
    delivery or its error acknowledgement.  (For a "tibc-" class the user-mint
    case is impossible by theorem 1.) *)
Theorem C04_hist_regain_needs_packet :
  forall (Hh H : bytes -> bytes) (valid_addr : bytes -> bool) (nft_escrow mt_escrow : bytes)
         (enc_nft : nft_data -> bytes) (dec_nft : bytes -> option nft_data)
         (enc_mt : mt_data -> bytes) (dec_mt : bytes -> option mt_data)
         (hs : list hop) (c : chain app_state) (class id : bytes),
    Forall (good nft_escrow) hs ->
    ~ user_held nft_escrow (nft_of c) class id ->
    user_held nft_escrow
      (nft_of (hrun Hh H valid_addr nft_escrow mt_escrow enc_nft dec_nft enc_mt dec_mt c hs)) class id ->
    exists c1 h ev owner,
      In (c1, h, ev) (htrace Hh H valid_addr nft_escrow mt_escrow enc_nft dec_nft enc_mt dec_mt c hs) /\
      owner <> nft_escrow /\ regain Hh dec_nft h ev class id owner.
Proof. exact regain_history. Qed.
Print Assumptions C04_hist_regain_needs_packet.

(** HOOKS TO THE PACKET LAYER.  The refund step (any [OAck] step) is accepted
    only while this chain stores, under the packet's (source, destination,
    sequence), the commitment of exactly this packet data, and it deletes that
    commitment -- so a refund happens at most once per commitment and only for
    data this chain committed.  A delivery step is accepted only while no
    receipt exists for the packet and writes the receipt -- at most one delivery
    per (source, destination, sequence).  NOT PROVED HERE: that a commitment
    under this chain's own name stems from an earlier [UNftSend] step of the same
    history (see the report: raw [OSend], relay re-commitment and the
    unauthenticated port field stand in the way). *)
Theorem C04_hist_refund_consumes_commitment :
  forall (Hh H : bytes -> bytes) (valid_addr : bytes -> bool) (nft_escrow mt_escrow : bytes)
         (enc_nft : nft_data -> bytes) (dec_nft : bytes -> option nft_data)
         (enc_mt : mt_data -> bytes) (dec_mt : bytes -> option mt_data)
         (c : chain app_state) (p : packet) (ack : bytes) (pf : proof) (hh : N)
         (c' : chain app_state) (ev : list event),
    hexec Hh H valid_addr nft_escrow mt_escrow enc_nft dec_nft enc_mt dec_mt c (HOp (OAck p ack pf hh)) = Some (c', ev) ->
    beq (match commit_at app_state c (p_src p) (p_dst p) (p_seq p) with Some b => b | None => [] end)
        (H (p_data p)) = true /\
    commit_at app_state c' (p_src p) (p_dst p) (p_seq p) = None.
Proof. exact ack_step_commitment. Qed.
Print Assumptions C04_hist_refund_consumes_commitment.

Theorem C04_hist_delivery_consumes_receipt :
  forall (Hh H : bytes -> bytes) (valid_addr : bytes -> bool) (nft_escrow mt_escrow : bytes)
         (enc_nft : nft_data -> bytes) (dec_nft : bytes -> option nft_data)
         (enc_mt : mt_data -> bytes) (dec_mt : bytes -> option mt_data)
         (c : chain app_state) (p : packet) (pf : proof) (hh : N)
         (c' : chain app_state) (ev : list event),
    hexec Hh H valid_addr nft_escrow mt_escrow enc_nft dec_nft enc_mt dec_mt c (HOp (ORecv p pf hh)) = Some (c', ev) ->
    receipt_at app_state c (p_src p) (p_dst p) (p_seq p) = None /\
    receipt_at app_state c' (p_src p) (p_dst p) (p_seq p) = Some receipt_val.
Proof. exact recv_step_receipt. Qed.
Print Assumptions C04_hist_delivery_consumes_receipt.

(** * concrete histories (harness codec and hash, [mk_achain]) *)

Definition xA := of_string "chain-aaaa".
Definition xB := of_string "chain-bbbb".
Definition xesc := of_string "cosmos1nftescrow".
Definition xmesc := of_string "cosmos1mtescrow".
Definition alice := of_string "cosmos1alice".
Definition bob := of_string "cosmos1bob".
Definition carol := of_string "cosmos1carol".
Definition mallory := of_string "cosmos1mallory".
Definition kitty := of_string "kitty".
Definition tom := of_string "tom".
Definition fake := of_string "fake".
Definition xuri := of_string "uri".
Definition vpath := of_string "nft/chain-aaaa/chain-bbbb/kitty".
Definition vclass := of_string "tibc-nft/chain-aaaa/chain-bbbb/kitty".

Notation xexec := (hexec idHh idH addr_ok xesc xmesc enc_nft dec_nft enc_mt dec_mt).
Notation xrun := (hrun idHh idH addr_ok xesc xmesc enc_nft dec_nft enc_mt dec_mt).
Notation xlog := (hlog idHh idH addr_ok xesc xmesc enc_nft dec_nft enc_mt dec_mt).
Notation xtrace := (htrace idHh idH addr_ok xesc xmesc enc_nft dec_nft enc_mt dec_mt).
Notation xghost := (esc_ghost idHh idH addr_ok xesc xmesc enc_nft dec_nft enc_mt dec_mt).

(** kitty/tom travels A -> B *)
Definition dAB := mkNftData kitty tom xuri alice bob true [].
Definition pAB := mkPacket 1 xA xB [] NFT_PORT (enc_nft dAB).
(** the voucher travels back B -> A, to carol *)
Definition dBA := mkNftData vpath tom xuri bob carol false [].
Definition pBA := mkPacket 1 xB xA [] NFT_PORT (enc_nft dBA).

(** B's light client of A has seen A's commitment of pAB *)
Definition clA := mkClient [(hkey 1, ([(commit_key xA xB 1, idH (enc_nft dAB))], 0))] 1 1000.
(** A's light client of B has seen an error acknowledgement for pAB and B's commitment of pBA *)
Definition clB :=
  mkClient [(hkey 1, ([(ack_key xA xB 1, idH ack_err); (commit_key xB xA 1, idH (enc_nft dBA))], 0))] 1 1000.

(** on B: the packet is delivered, the voucher is minted for bob *)
Definition hsB : list hop :=
  [HOp (OCreateClient xA clA); HOp (ORecv pAB (PGenuine xA (commit_key xA xB 1)) 1)].

(** on A: alice mints kitty/tom and sends it to bob on B ... *)
Definition hsA_send : list hop :=
  [HOp (OCreateClient xB clB); HUser (UNftIssue kitty alice); HUser (UNftMint kitty tom xuri alice alice);
   HUser (UNftSend kitty tom alice bob xB [] [])].
(** ... then the transfer fails on B and the error acknowledgement comes back *)
Definition hsA_refund : list hop :=
  [HOp (OCreateClient xB clB); HUser (UNftIssue kitty alice); HUser (UNftMint kitty tom xuri alice alice);
   HUser (UNftSend kitty tom alice bob xB [] []);
   HOp (OAck pAB ack_err (PGenuine xB (ack_key xA xB 1)) 1)].
(** ... or it succeeded and the voucher comes back, for carol *)
Definition hsA_back : list hop :=
  [HOp (OCreateClient xB clB); HUser (UNftIssue kitty alice); HUser (UNftMint kitty tom xuri alice alice);
   HUser (UNftSend kitty tom alice bob xB [] []);
   HOp (ORecv pBA (PGenuine xB (commit_key xB xA 1)) 1)].

Ltac side :=
  lazymatch goal with
  | |- True => exact I
  | |- _ /\ _ => split; side
  | |- _ <> _ => apply beq_false; vm_compute; reflexivity
  | |- _ = _ => vm_compute; reflexivity
  end.
Ltac all_good :=
  repeat (constructor; [unfold good; cbn [not_setapp no_reserved_issue no_escrow_sig]; side|]);
  constructor.

(** theorem 1 applies: all premises hold and a voucher appears; the log shows the delivery *)
Example C04_hist_vouchers_nonvacuous :
  Forall (good xesc) hsB /\ VInv xesc (nft_of (mk_achain xB)) /\ is_voucher vclass = true /\
  token_at (nft_of (mk_achain xB)) vclass tom = None /\
  token_at (nft_of (xrun (mk_achain xB) hsB)) vclass tom = Some (bob, xuri) /\
  xlog (mk_achain xB) hsB = [ERecv pAB; EDeliver pAB; EWriteAck pAB ack_ok] /\
  dec_nft (p_data pAB) = Some dAB /\
  vclass = voucher_class idHh (away_new_class_path NFT_PFX (p_src pAB) (p_dst pAB) (nd_class dAB)).
Proof.
  split; [unfold hsB; all_good|]. split; [exact (VInv_init xesc)|].
  repeat split; vm_compute; reflexivity.
Qed.
Print Assumptions C04_hist_vouchers_nonvacuous.

(** theorem 2 applies, refund branch: the escrowed kitty/tom goes back to alice *)
Example C04_hist_escrow_refund_nonvacuous :
  Forall (good xesc) hsA_refund /\
  owner_of (nft_of (xrun (mk_achain xA) hsA_send)) kitty tom = Some xesc /\
  owner_of (nft_of (xrun (mk_achain xA) hsA_refund)) kitty tom = Some alice /\
  xlog (mk_achain xA) hsA_refund = [ESend pAB; EAck pAB ack_err; EAppAck pAB ack_err] /\
  is_err_ack ack_err = true /\ nd_away dAB = true /\ nd_sender dAB = alice /\
  kitty = voucher_class idHh (nd_class dAB).
Proof.
  split; [unfold hsA_refund; all_good|]. repeat split; vm_compute; reflexivity.
Qed.
Print Assumptions C04_hist_escrow_refund_nonvacuous.

(** theorem 2 applies, back-receive branch: the escrowed kitty/tom is released
    to carol, the receiver the returning packet names *)
Example C04_hist_escrow_back_nonvacuous :
  Forall (good xesc) hsA_back /\
  owner_of (nft_of (xrun (mk_achain xA) hsA_send)) kitty tom = Some xesc /\
  owner_of (nft_of (xrun (mk_achain xA) hsA_back)) kitty tom = Some carol /\
  xlog (mk_achain xA) hsA_back = [ESend pAB; ERecv pBA; EDeliver pBA; EWriteAck pBA ack_ok] /\
  dec_nft (p_data pBA) = Some dBA /\ back_new_class_path (nd_class dBA) = Some kitty /\
  kitty = voucher_class idHh kitty.
Proof.
  split; [unfold hsA_back; all_good|]. repeat split; vm_compute; reflexivity.
Qed.
Print Assumptions C04_hist_escrow_back_nonvacuous.

(** theorem 3: the ghost set follows the escrow account through send, refund and return *)
Example C04_hist_escrow_accounting_nonvacuous :
  Forall not_setapp hsA_back /\
  xghost [] (mk_achain xA) hsA_send = [(kitty, tom)] /\
  xghost [] (mk_achain xA) hsA_refund = [] /\
  xghost [] (mk_achain xA) hsA_back = [] /\
  (* a donation: bob's voucher on B moved to the escrow address by a plain user transfer *)
  xghost [] (mk_achain xB) (hsB ++ [HUser (UNftMove vclass tom bob xesc)]) = [(vclass, tom)] /\
  owner_of (nft_of (xrun (mk_achain xB) (hsB ++ [HUser (UNftMove vclass tom bob xesc)]))) vclass tom = Some xesc.
Proof.
  split; [unfold hsA_back; repeat (constructor; [exact I|]); constructor|].
  repeat split; vm_compute; reflexivity.
Qed.
Print Assumptions C04_hist_escrow_accounting_nonvacuous.

(** theorem 4: after the send the token is not user-held; the refund (or the
    returning voucher) brings it back into user hands *)
Example C04_hist_regain_nonvacuous :
  Forall (good xesc) hsA_refund /\ Forall (good xesc) hsA_back /\
  ~ user_held xesc (nft_of (xrun (mk_achain xA) hsA_send)) kitty tom /\
  user_held xesc (nft_of (xrun (mk_achain xA) hsA_refund)) kitty tom /\
  user_held xesc (nft_of (xrun (mk_achain xA) hsA_back)) kitty tom /\
  length (xtrace (mk_achain xA) hsA_refund) = 5%nat.
Proof.
  split; [unfold hsA_refund; all_good|]. split; [unfold hsA_back; all_good|]. split; [|split; [|split]].
  - intros (o & u & E & N). vm_compute in E. inversion E; subst. apply N. reflexivity.
  - exists alice, xuri. split; [vm_compute; reflexivity|apply beq_false; vm_compute; reflexivity].
  - exists carol, xuri. split; [vm_compute; reflexivity|apply beq_false; vm_compute; reflexivity].
  - vm_compute. reflexivity.
Qed.
Print Assumptions C04_hist_regain_nonvacuous.

(** THE PREMISE [no_escrow_sig] IS NEEDED: once the voucher class exists on B, a
    mint signed by the escrow account (the class's creator) creates a voucher
    with no packet behind it -- the log gets no new event -- whereas the same
    mint signed by anybody else is refused. *)
Example C04_hist_escrow_signature_needed :
  let hs := hsB ++ [HUser (UNftMint vclass fake xuri xesc mallory)] in
  token_at (nft_of (xrun (mk_achain xB) hs)) vclass fake = Some (mallory, xuri) /\
  xlog (mk_achain xB) hs = xlog (mk_achain xB) hsB /\
  xexec (xrun (mk_achain xB) hsB) (HUser (UNftMint vclass fake xuri mallory mallory)) = None.
Proof. repeat split; vm_compute; reflexivity. Qed.
Print Assumptions C04_hist_escrow_signature_needed.

(** THE PREMISE [no_reserved_issue] IS NEEDED (in the model): [UNftIssue] accepts
    the class name "tibc-..." from a user, who then mints "vouchers" at will.
    (irismod's message validation refuses the reserved prefix; that check is
    outside the model.) *)
Example C04_hist_reserved_issue_needed :
  let hs := [HUser (UNftIssue vclass mallory); HUser (UNftMint vclass tom xuri mallory mallory)] in
  token_at (nft_of (xrun (mk_achain xB) hs)) vclass tom = Some (mallory, xuri) /\
  xlog (mk_achain xB) hs = [].
Proof. repeat split; vm_compute; reflexivity. Qed.
Print Assumptions C04_hist_reserved_issue_needed.
