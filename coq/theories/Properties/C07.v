(** C07 — Tendermint client accepts a header exactly when the light-client rule allows it.
    Statements only; the model is Clients/Tm.v, proofs are in Clients/TmTally.v (the two commit
    tallies), Clients/TmStep.v (acceptance, effect, histories) and Clients/TmSound.v (voting-power
    soundness / completeness, the adjacent corner, witnesses).

    Reading guide.  [check_header_and_update] is ClientState.CheckHeaderAndUpdateState,
    [keeper_update] is 02-client Keeper.UpdateClient, [keeper_step] a MsgUpdateClient transaction,
    [run] a history of them.  [light_client_rule] is the conjunction of the property text (record
    in TmStep.v): trusted state stored, trusted validators hash to its next-validators hash, same
    revision / chain, newer, well-formed commit for this header, validator set belongs to the
    header, within trusting period, time after the trusted state and within clock drift, the link
    to the trusted state (adjacent: validator-set hash equality; otherwise: trust-level quorum of
    the trusted set), 2/3 quorum of the header's own set.  [tl_wf]: trust-level numerator and
    denominator are int64 naturals, denominator not 0 (every client state that passed Validate
    with a sensible fraction; outside it cometbft's int64 conversions decide and the model follows
    them, see Tm.v [trust_needed]). *)
From Tibc Require Import Base.Bytes Clients.Tm Clients.TmTally Clients.TmStep Clients.TmSound.
From Coq Require Import ZArith.
Open Scope Z_scope.

(** ** Acceptance is exactly the light-client rule *)
Theorem C07_accept_iff : forall now cl st hd, tl_wf (cl_tl_num cl) (cl_tl_den cl) ->
  (exists r, check_header_and_update now cl st hd = Some r) <->
  (exists co h, light_client_rule now cl st hd co h).
Proof. exact tm_accept_iff. Qed.
Print Assumptions C07_accept_iff.

(** through the keeper: additionally the client exists and is Active (its latest consensus state
    is stored and not expired) *)
Theorem C07_keeper_accept_iff : forall now k hd,
  (forall cl st, k = Some (cl, st) -> tl_wf (cl_tl_num cl) (cl_tl_den cl)) ->
  (exists r, keeper_update now k hd = Some r) <->
  exists cl st, k = Some (cl, st) /\
    (exists lc, hlookup (cl_latest cl) (st_cons st) = Some lc /\ now < co_time lc + cl_period cl) /\
    exists co h, light_client_rule now cl st hd co h.
Proof. exact keeper_accept_iff. Qed.
Print Assumptions C07_keeper_accept_iff.

(** ** The two tallies, exactly (prefix scans of cometbft) and as fractions *)
Theorem C07_own_tally_iff : forall vals sigs, 0 <= total_power vals ->
  verify_commit_light vals sigs = true <-> own_quorum vals sigs.
Proof. exact verify_commit_light_iff. Qed.
Print Assumptions C07_own_tally_iff.

Theorem C07_trusted_tally_iff : forall tvals sigs num den, tl_wf num den -> 0 <= total_power tvals ->
  verify_commit_light_trusting tvals sigs num den = true <-> trusted_quorum tvals sigs num den.
Proof. exact verify_commit_light_trusting_iff. Qed.
Print Assumptions C07_trusted_tally_iff.

Theorem C07_two_thirds_boundary : forall tally total : Z,
  total * 2 / 3 < tally <-> 2 * total < 3 * tally.
Proof. exact two_thirds_boundary. Qed.
Print Assumptions C07_two_thirds_boundary.

Theorem C07_trust_level_boundary : forall tally total num den : Z, 0 < den ->
  total * num / den < tally <-> total * num < tally * den.
Proof. exact fraction_boundary. Qed.
Print Assumptions C07_trust_level_boundary.

(** soundness: acceptance needs validly signed Commit power of more than 2/3 of the header's own
    validator set (each validator counted once) ... *)
Theorem C07_power_sound_own : forall s sigs, valset_ok s = true -> own_quorum (vs_vals s) sigs ->
  2 * total_power (vs_vals s) < 3 * signed_power (combine (vs_vals s) sigs).
Proof. exact own_quorum_sound. Qed.
Print Assumptions C07_power_sound_own.

(** ... and, for non-adjacent headers, distinct trusted validators holding more than the trust
    level, each with a validly signed Commit entry *)
Theorem C07_power_sound_trusted : forall tvals sigs num den, trusted_quorum tvals sigs num den ->
  exists I, trusted_signers tvals sigs I /\
            total_power tvals * Z.of_N num < signers_power I * Z.of_N den.
Proof. exact trusted_quorum_sound. Qed.
Print Assumptions C07_power_sound_trusted.

(** end to end: what acceptance says about voting power *)
Theorem C07_accept_power_sound : forall now cl st hd r, tl_wf (cl_tl_num cl) (cl_tl_den cl) ->
  check_header_and_update now cl st hd = Some r ->
  exists co, hlookup (hd_trusted_height hd) (st_cons st) = Some co /\
    co_nvh co = vs_hash (hd_trusted_vals hd) /\
    2 * total_power (vs_vals (hd_vals hd)) < 3 * signed_power (combine (vs_vals (hd_vals hd)) (hd_commit hd)) /\
    (adjacent hd = false ->
       exists I, trusted_signers (vs_vals (hd_trusted_vals hd)) (hd_commit hd) I /\
         total_power (vs_vals (hd_trusted_vals hd)) * Z.of_N (cl_tl_num cl) < signers_power I * Z.of_N (cl_tl_den cl)).
Proof. exact tm_accept_power_sound. Qed.
Print Assumptions C07_accept_power_sound.

(** completeness: enough validly signed power (and nothing invalid among the counted entries) is
    accepted by the tallies *)
Theorem C07_power_complete_own : forall vals sigs, length vals = length sigs ->
  all_valid (combine vals sigs) -> 2 * total_power vals < 3 * commit_power (combine vals sigs) ->
  own_quorum vals sigs.
Proof. exact own_quorum_complete. Qed.
Print Assumptions C07_power_complete_own.

Theorem C07_power_complete_trusted : forall tvals sigs num den,
  total_power tvals * Z.of_N num <= max_int64 ->
  Forall (fun e => ok_of e = true) (filter_map (tr_view tvals) sigs) ->
  NoDup (map idx_of (filter_map (tr_view tvals) sigs)) ->
  total_power tvals * Z.of_N num < view_power (filter_map (tr_view tvals) sigs) * Z.of_N den ->
  trusted_quorum tvals sigs num den.
Proof. exact trusted_quorum_complete. Qed.
Print Assumptions C07_power_complete_trusted.

(** ** Exact effect of an accepted update; rejection changes nothing *)
Theorem C07_accept_effect : forall now cl st hd cl' co' st',
  check_header_and_update now cl st hd = Some (cl', co', st') ->
  exists h st1,
    header_height hd = Some h /\
    pruned cl st st1 now /\
    cl' = with_latest cl (max_height (cl_latest cl) h) /\
    co' = Cons (hd_time hd) (hd_app_hash hd) (hd_next_vals_hash hd) /\
    st' = Store (st_cons st1) (hset h (ptime_of now) (st_ptime st1)) (iter_add h (st_iter st1)).
Proof. exact tm_accept_effect. Qed.
Print Assumptions C07_accept_effect.

Theorem C07_keeper_accept_effect : forall now cl st hd cl' st',
  keeper_update now (Some (cl, st)) hd = Some (cl', st') ->
  exists h st1, header_height hd = Some h /\ pruned cl st st1 now /\
    hlookup h (st_cons st') = Some (Cons (hd_time hd) (hd_app_hash hd) (hd_next_vals_hash hd)) /\
    hlookup h (st_ptime st') = Some (ptime_of now) /\
    (forall k, k <> h -> hlookup k (st_cons st') = hlookup k (st_cons st1)) /\
    cl_latest cl' = max_height (cl_latest cl) h /\
    height_le (cl_latest cl) (cl_latest cl').
Proof. exact keeper_accept_stored. Qed.
Print Assumptions C07_keeper_accept_effect.

Theorem C07_reject_unchanged : forall k now hd,
  keeper_update now k hd = None -> keeper_step k (now, hd) = k.
Proof. exact keeper_reject_unchanged. Qed.
Print Assumptions C07_reject_unchanged.

(** ** All histories of updates *)
Theorem C07_latest_monotone : forall ops cl st,
  exists cl' st', run ops (Some (cl, st)) = Some (cl', st') /\
    height_le (cl_latest cl) (cl_latest cl') /\
    cl_chain_id cl' = cl_chain_id cl /\ cl_tl_num cl' = cl_tl_num cl /\ cl_tl_den cl' = cl_tl_den cl /\
    cl_period cl' = cl_period cl /\ cl_drift cl' = cl_drift cl.
Proof. exact tm_latest_monotone. Qed.
Print Assumptions C07_latest_monotone.

(** every consensus state ever stored is the initial one or (time, app hash, next validators hash)
    of a header that was accepted, under the rule above, for exactly that height *)
Theorem C07_stored_explained : forall now0 cl0 co0 ops cl st,
  run ops (keeper_create now0 cl0 co0) = Some (cl, st) ->
  forall k c, hlookup k (st_cons st) = Some c ->
  explained (cl_latest cl0, co0) ops (keeper_create now0 cl0 co0) k c.
Proof. exact tm_stored_explained. Qed.
Print Assumptions C07_stored_explained.

(** reachable client stores are consistent (consensus states, processed times and iteration keys
    cover the same heights in ascending order), so the pruning step cannot fail and the height it
    examines is the lowest stored one *)
Theorem C07_store_wf_reachable : forall now0 cl0 co0 ops cl st,
  run ops (keeper_create now0 cl0 co0) = Some (cl, st) ->
  store_wf st /\
  match st_iter st with [] => True | k :: _ => exists c, hlookup k (st_cons st) = Some c end /\
  (forall k rest, st_iter st = k :: rest -> forall k' c, hlookup k' (st_cons st) = Some c -> height_le k k').
Proof. exact tm_reachable_store. Qed.
Print Assumptions C07_store_wf_reachable.

(** ** Adjacent headers: the code's rule versus the uniform "trust level AND 2/3" reading.
    Same validator set (what hash equality means for a collision-free hash), entries carrying the
    address of the validator at their index, one key per validator, trust level at most 2/3:
    the 2/3 quorum the code checks implies the trust-level quorum it skips. *)
Theorem C07_adjacent_readings_agree : forall vals sigs num den,
  0 <= total_power vals ->
  total_power vals * Z.of_N num <= max_int64 ->
  (0 < den)%N -> 3 * Z.of_N num <= 2 * Z.of_N den ->
  NoDup (map v_addr vals) ->
  aligned vals sigs ->
  Forall (fun s => cs_commit s = true -> cs_ok_tr s = cs_ok_own s) sigs ->
  own_quorum vals sigs -> trusted_quorum vals sigs num den.
Proof. exact adjacent_readings_agree. Qed.
Print Assumptions C07_adjacent_readings_agree.

(** the corner where they differ (documented, not a defect): trust level above 2/3, adjacent header
    signed by 3 of 4 equal validators is accepted although the trust-level tally would refuse *)
Theorem C07_adjacent_corner :
  adjacent yhd = true /\
  (exists r, check_header_and_update 1050 ycl yst yhd = Some r) /\
  ~ trusted_quorum (vs_vals (hd_trusted_vals yhd)) (hd_commit yhd) (cl_tl_num ycl) (cl_tl_den ycl).
Proof. exact adjacent_corner. Qed.
Print Assumptions C07_adjacent_corner.

(** ** Non-vacuity: a non-adjacent header with a changed validator set is accepted with exactly the
    stated effect; an invalid signature before the crossing point, the trusted state at its expiry
    and a header time equal to now + drift are rejected; one nanosecond before expiry is accepted *)
Example C07_nonvacuous :
  keeper_update 1050 (Some (xcl, xst)) xhd =
    Some (Client xchain 1 3 100 5 (Hh 1 14),
          Store [(Hh 1 10, xco10); (Hh 1 14, Cons 1040 (b1 9) (b1 22))]
                [(Hh 1 10, 1001%N); (Hh 1 14, 1050%N)] [Hh 1 10; Hh 1 14]) /\
  keeper_update 1050 (Some (xcl, xst)) xhd_bad = None /\
  keeper_update 1100 (Some (xcl, xst)) xhd = None /\
  keeper_update 1035 (Some (xcl, xst)) xhd = None /\
  keeper_update 1099 (Some (xcl, xst)) xhd <> None /\
  tl_wf (cl_tl_num xcl) (cl_tl_den xcl).
Proof. vm_compute. repeat split; (reflexivity || discriminate). Qed.
