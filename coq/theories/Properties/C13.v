(** C13 — a relayer cannot redirect a packet to another port or around its
    relay chain.  The code binds source, destination, sequence and data (C01)
    but NOT port and relay chain: the wanted statement is refuted by two
    witnesses (known findings), and the part that does hold is proved. *)
From Tibc Require Import Base.Bytes Base.FMap Host.Keys Host.KeysFacts Routing.Rules
  Packet.Types Packet.Keeper Packet.KeeperFacts Packet.Invariants Net.Net Net.Explained Net.NetInv.
From Tibc Require Import Harness.Net Properties.Example.

(** an application that accepts every port (for the port witness) *)
Definition any_route (p : bytes) : bool := true.
Definition any_recv (a : unit) (p : packet) : option (unit * option bytes) := Some (tt, Some mock_ack).
Definition any_ack (a : unit) (p : packet) (k : bytes) : option unit := Some tt.

Definition w_via := mkPacket 1 nameA nameC nameB mock_port (of_string "x").   (* committed: relay B *)
Definition w_stripped := mkPacket 1 nameA nameC [] mock_port (of_string "x"). (* presented: no relay *)
Definition w_port := mkPacket 1 nameA nameC nameB (of_string "NFT") (of_string "x"). (* presented: other port *)

Definition w_ops : list (nop unit) :=
  [ NCreate 0 1 100 2 90 1000; NCreate 2 0 100 2 90 1000; NCreate 1 0 100 2 90 1000;
    NCreate 1 2 100 2 90 1000; NCreate 2 1 100 2 90 1000;
    NChain 1 100 (OSetRules [of_string "*,*,*"]);
    NChain 0 100 (OSend w_via);
    NUpd 2 0 110 5 105; NUpd 1 0 110 5 105 ].

Definition w_net := nrun unit idH any_route any_recv any_ack (map mk_chain [nameA; nameB; nameC]) w_ops.

(** REFUTED (known finding D6, relay stripped): chain A committed w_via, which
    must traverse relay chain B; the destination C accepts and delivers the same
    packet with the relay field removed, directly from A, so B's whitelist is
    never consulted.  The only commitment in the whole network is A's, naming B. *)
Theorem C13_relay_strip_refuted :
  Forall nop_ok w_ops /\
  nrun_log unit idH any_route any_recv any_ack (map mk_chain [nameA; nameB; nameC]) w_ops
    = [(0%nat, ESend w_via)] /\
  match nth_error w_net 2 with
  | Some cC =>
      match msg_recv unit idH any_route any_recv (with_now unit cC 120) w_stripped
                     (PGenuine nameA (commit_key nameA nameC 1)) 5 with
      | Some (_, ev) => In (EDeliver w_stripped) ev
      | None => False
      end
  | None => False
  end.
Proof.
  split; [repeat constructor; cbn; unfold wfp; cbn; try exact I; reflexivity|].
  split; [vm_compute; reflexivity|]. vm_compute. tauto.
Qed.
Print Assumptions C13_relay_strip_refuted.

(** REFUTED (known finding D6, port edited): the relay chain B accepts and
    forwards the packet with its port changed from tibcmock to NFT *)
Theorem C13_port_edit_refuted :
  match nth_error w_net 1 with
  | Some cB =>
      match msg_recv unit idH any_route any_recv (with_now unit cB 120) w_port
                     (PGenuine nameA (commit_key nameA nameC 1)) 5 with
      | Some (_, ev) => In (ESend w_port) ev
      | None => False
      end
  | None => False
  end.
Proof. vm_compute. tauto. Qed.
Print Assumptions C13_port_edit_refuted.

(** what IS bound: source, destination, sequence and data (C01), whatever the
    presented port and relay fields are *)
Theorem C13_src_dst_seq_data_bound :
  forall (A : Type) (H : bytes -> bytes) (has_route : bytes -> bool)
         (on_recv : A -> packet -> option (A * option bytes))
         (on_ack : A -> packet -> bytes -> option A),
    (forall x y, H x = H y -> x = y) ->
    forall (n0 : net A) (ops : list (nop A)) (i : nat) (ci : chain A) (now : N)
           (p : packet) (pf : proof) (h : N) (c' : chain A) (ev : list event),
      net_init A n0 -> Forall nop_ok ops -> wfp p ->
      nth_error (nrun A H has_route on_recv on_ack n0 ops) i = Some ci ->
      msg_recv A H has_route on_recv (with_now A ci now) p pf h = Some (c', ev) ->
      exists j cj p',
        nth_error (nrun A H has_route on_recv on_ack n0 ops) j = Some cj /\
        c_name A cj = prover_name A ci p /\
        In (ESend p') (log_of j (nrun_log A H has_route on_recv on_ack n0 ops)) /\
        p_src p' = p_src p /\ p_dst p' = p_dst p /\ p_seq p' = p_seq p /\ p_data p' = p_data p.
Proof. exact recv_authentic. Qed.
Print Assumptions C13_src_dst_seq_data_bound.

(** the relay field cannot be removed where the destination has no light client
    for the source: the stripped packet must be proven from the source *)
Theorem C13_relay_cannot_be_removed_without_source_client :
  forall (A : Type) (H : bytes -> bytes) (has_route : bytes -> bool)
         (on_recv : A -> packet -> option (A * option bytes))
         (c : chain A) (p : packet) (pf : proof) (h : N),
    p_relay p = [] -> lookup (p_src p) (c_clients A c) = None ->
    msg_recv A H has_route on_recv c p pf h = None.
Proof.
  intros A H hr orc c p pf h RL NC.
  destruct (msg_recv A H hr orc c p pf h) as [[c' ev]|] eqn:E; [|reflexivity].
  apply msg_recv_vals in E. destruct E as (_ & _ & _ & cl & CL & _).
  rewrite RL in CL. cbn [is_nil negb] in CL. rewrite andb_false_r in CL. congruence.
Qed.
Print Assumptions C13_relay_cannot_be_removed_without_source_client.
