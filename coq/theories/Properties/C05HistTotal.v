(** C05 (history level, totals) -- cross-chain conservation as an inequality of
    sums, for every application-network history and every pair of chains.
    Statements only; proofs in Net/AppNetSumIneq.v (on top of AppNetNoSelf /
    AppNetSums / AppNetCount).

    For chains i (named NA) and j (named NB) and any weight [wd] on packet data:
      credited_sum  = sum of wd(data) over j's EWriteAck p a events with
                      p_src = NA, p_dst = NB, p_relay = [], port MT, a a success
                      acknowledgement (the MT credit ran and succeeded in that step);
      refunded_sum  = sum of wd(data) over i's EAppAck p a events with p_src = NA,
                      p_dst = NB, p_relay = [], a an error acknowledgement (the
                      refund runs in exactly these steps);
      sent_sum      = sum of wd(data) over i's ESend p events with p_src = NA,
                      p_dst = NB -- ANY relay field and port: they are not bound by
                      the commitment (known finding D6: a packet committed with a
                      relay can be delivered relay-free), so restricting the sends
                      to relay-free ones would make the inequality false.
    Then  credited_sum + refunded_sum <= sent_sum.  The non-negative difference
    is what is in flight (or was acknowledged with success, which moves nothing).
    Premises: [hist_ok] (see C05HistSum.v), '/'-free names NA, NB (they are, by
    the chain-name validation, whenever any packet between them was accepted). *)
From Tibc Require Import Base.Bytes Base.FMap Host.Keys Host.KeysFacts Routing.Rules
  Packet.Types Packet.Keeper Packet.KeeperFacts Packet.Invariants Packet.AckOnce
  Net.Net Net.Explained Net.NetInv
  Apps.Path Apps.Nft Apps.Mt Apps.MtFacts Apps.App Harness.AppNet
  Net.AppNetSim Net.AppNetFacts Net.AppNetConserve Net.AppNetNoSelf Net.AppNetSums Net.AppNetCount
  Net.AppNetSumIneq.
From Tibc Require Import Properties.Example Properties.C05HistNet Properties.C05HistSum.

(** multiset domination implies domination of weighted sums *)
Theorem C05total_dom_sum :
  forall (X : Type) (dec : forall a b : X, {a = b} + {a <> b}) (w : X -> N) (L1 L2 : list X),
    (forall z, (count_occ dec L1 z <= count_occ dec L2 z)%nat) -> sumw w L1 <= sumw w L2.
Proof. intros X dec w L1 L2. exact (dom_sum dec w L1 L2). Qed.
Print Assumptions C05total_dom_sum.

(** per (sequence, data): credits on j plus refunds on i never outnumber i's commitments *)
Theorem C05total_key_ineq :
  forall (nft_escrow mt_escrow NA NB : bytes) (n0 : anet) (ops : list anop)
         (i : nat) (ci : chain app_state) (j : nat) (cj : chain app_state) (z : kd),
    hist_ok n0 ops -> noslash NA -> noslash NB ->
    nth_error (anrun nft_escrow mt_escrow n0 ops) i = Some ci -> c_name app_state ci = NA ->
    nth_error (anrun nft_escrow mt_escrow n0 ops) j = Some cj -> c_name app_state cj = NB ->
    (cnt (isz kd_dec (creditp NA NB) z) (log_of j (anrun_log nft_escrow mt_escrow n0 ops)) +
     cnt (isz kd_dec (refundp NA NB) z) (log_of i (anrun_log nft_escrow mt_escrow n0 ops)) <=
     cnt (isz kd_dec (sendp NA NB) z) (log_of i (anrun_log nft_escrow mt_escrow n0 ops)))%nat.
Proof. intros ne me NA NB. exact (a_key_ineq ne me NA NB (fun _ => 0)). Qed.
Print Assumptions C05total_key_ineq.

(** the sum inequality, for every weight function on the packet data *)
Theorem C05total_sum_ineq :
  forall (nft_escrow mt_escrow NA NB : bytes) (wd : bytes -> N) (n0 : anet) (ops : list anop)
         (i : nat) (ci : chain app_state) (j : nat) (cj : chain app_state),
    hist_ok n0 ops -> noslash NA -> noslash NB ->
    nth_error (anrun nft_escrow mt_escrow n0 ops) i = Some ci -> c_name app_state ci = NA ->
    nth_error (anrun nft_escrow mt_escrow n0 ops) j = Some cj -> c_name app_state cj = NB ->
    credited_sum NA NB wd (log_of j (anrun_log nft_escrow mt_escrow n0 ops)) +
    refunded_sum NA NB wd (log_of i (anrun_log nft_escrow mt_escrow n0 ops))
      <= sent_sum NA NB wd (log_of i (anrun_log nft_escrow mt_escrow n0 ops)).
Proof. exact a_sum_ineq. Qed.
Print Assumptions C05total_sum_ineq.

(** the MT instance: amounts read from the packet data with the harness decoder
    (data that does not decode counts 0 on both sides; matching is by data) *)
Definition mt_amount (d : bytes) : N := match dec_mt d with Some m => md_amount m | None => 0 end.

Theorem C05total_mt_units :
  forall (nft_escrow mt_escrow NA NB : bytes) (n0 : anet) (ops : list anop)
         (i : nat) (ci : chain app_state) (j : nat) (cj : chain app_state),
    hist_ok n0 ops -> noslash NA -> noslash NB ->
    nth_error (anrun nft_escrow mt_escrow n0 ops) i = Some ci -> c_name app_state ci = NA ->
    nth_error (anrun nft_escrow mt_escrow n0 ops) j = Some cj -> c_name app_state cj = NB ->
    credited_sum NA NB mt_amount (log_of j (anrun_log nft_escrow mt_escrow n0 ops)) +
    refunded_sum NA NB mt_amount (log_of i (anrun_log nft_escrow mt_escrow n0 ops))
      <= sent_sum NA NB mt_amount (log_of i (anrun_log nft_escrow mt_escrow n0 ops)).
Proof. intros ne me NA NB. exact (a_sum_ineq ne me NA NB mt_amount). Qed.
Print Assumptions C05total_mt_units.

(** counting instance (w = 1): number of credits + number of refunds <= number of sends *)
Theorem C05total_count :
  forall (nft_escrow mt_escrow NA NB : bytes) (n0 : anet) (ops : list anop)
         (i : nat) (ci : chain app_state) (j : nat) (cj : chain app_state),
    hist_ok n0 ops -> noslash NA -> noslash NB ->
    nth_error (anrun nft_escrow mt_escrow n0 ops) i = Some ci -> c_name app_state ci = NA ->
    nth_error (anrun nft_escrow mt_escrow n0 ops) j = Some cj -> c_name app_state cj = NB ->
    credited_sum NA NB (fun _ => 1) (log_of j (anrun_log nft_escrow mt_escrow n0 ops)) +
    refunded_sum NA NB (fun _ => 1) (log_of i (anrun_log nft_escrow mt_escrow n0 ops))
      <= sent_sum NA NB (fun _ => 1) (log_of i (anrun_log nft_escrow mt_escrow n0 ops)).
Proof. intros ne me NA NB. exact (a_sum_ineq ne me NA NB (fun _ => 1)). Qed.
Print Assumptions C05total_count.

(** * non-vacuity: the premises hold for the two example histories, and the sums
    are the expected ones: 4 credited / 0 refunded / 4 sent, and 0 / 4 / 4 *)
Lemma noslash_AB : noslash nameA /\ noslash nameB.
Proof.
  split; intros X; vm_compute in X; repeat (destruct X as [X|X]; [discriminate X|]); exact X.
Qed.

Example C05total_mt_units_nonvacuous :
  hist_ok x_n0 x_all /\ hist_ok x_n0 x_refund /\ noslash nameA /\ noslash nameB /\
  (credited_sum nameA nameB mt_amount (log_of 1 (anrun_log x_nesc x_mesc x_n0 x_all)),
   refunded_sum nameA nameB mt_amount (log_of 0 (anrun_log x_nesc x_mesc x_n0 x_all)),
   sent_sum nameA nameB mt_amount (log_of 0 (anrun_log x_nesc x_mesc x_n0 x_all))) = (4, 0, 4) /\
  (credited_sum nameA nameB mt_amount (log_of 1 (anrun_log x_nesc x_mesc x_n0 x_refund)),
   refunded_sum nameA nameB mt_amount (log_of 0 (anrun_log x_nesc x_mesc x_n0 x_refund)),
   sent_sum nameA nameB mt_amount (log_of 0 (anrun_log x_nesc x_mesc x_n0 x_refund))) = (0, 4, 4) /\
  match anrun x_nesc x_mesc x_n0 x_all with
  | [cA; cB] => c_name app_state cA = nameA /\ c_name app_state cB = nameB
  | _ => False
  end.
Proof.
  destruct C05sum_hist_ok_nonvacuous as [H1 H2]. destruct noslash_AB as [SA SB].
  split; [exact H1|]. split; [exact H2|]. split; [exact SA|]. split; [exact SB|].
  split; [vm_compute; reflexivity|]. split; [vm_compute; reflexivity|].
  vm_compute. split; reflexivity.
Qed.
