(** C06 — failed transfers are refunded exactly; a round trip restores the original. *)
From Tibc Require Import Base.Bytes Base.FMap Host.KeysFacts Packet.Types
  Apps.Path Apps.PathFacts Apps.Nft Apps.NftFacts Apps.Mt Apps.MtFacts.

(** NFT: processing the error acknowledgement of a transfer restores the
    ownership ledger of the sending chain exactly (the token is the sender's
    again, in the same class and id, with the same URI; nothing else moved).
    [class_of_path_ok] relates the class on the sending chain to the full class
    path the packet carries; it holds for native '/'-free classes (lemma below)
    and for vouchers recorded in the trace store. *)
Theorem C06_nft_refund_exact :
  forall (Hh : bytes -> bytes) (valid_addr : bytes -> bool) (escrow : bytes)
         (enc : nft_data -> bytes) (dec : bytes -> option nft_data)
         (name : bytes) (seq : N) (st : nft_state)
         (class id sender receiver dest relay contract : bytes) (st1 : nft_state) (p : packet) (d : nft_data),
    nft_send escrow enc name seq st class id sender receiver dest relay contract = Some (st1, p) ->
    dec (p_data p) = Some d -> (forall x, dec (enc x) = Some x) ->
    valid_addr sender = true ->
    class_of_path_ok Hh class (nd_class d) ->
    exists st2, nft_refund Hh valid_addr escrow st1 d = Some st2 /\ same_tokens st2 st.
Proof. exact refund_exact. Qed.
Print Assumptions C06_nft_refund_exact.

Theorem C06_class_of_path_native :
  forall (Hh : bytes -> bytes) (class : bytes), noslash class -> class_of_path_ok Hh class class.
Proof. exact class_of_path_native. Qed.
Print Assumptions C06_class_of_path_native.

(** MT: processing the error acknowledgement gives the sender back exactly the
    amount that left and restores the supply; no other balance or supply moves *)
Theorem C06_mt_refund_exact :
  forall (Hh : bytes -> bytes) (valid_addr : bytes -> bool) (escrow : bytes)
         (enc : mt_data -> bytes) (dec : bytes -> option mt_data)
         (name : bytes) (seq : N) (st : mt_state)
         (class id sender receiver dest relay contract : bytes) (amt : N)
         (st1 : mt_state) (p : packet) (d : mt_data),
    MtInv st -> sender <> escrow ->
    mt_send escrow enc name seq st class id sender receiver dest relay contract amt = Some (st1, p) ->
    dec (p_data p) = Some d -> (forall x, dec (enc x) = Some x) ->
    valid_addr sender = true -> voucher_class Hh (md_class d) = class ->
    exists st2, mt_refund Hh valid_addr escrow st1 d = Some st2 /\ same_amounts st2 st /\ MtInv st2.
Proof. exact mt_refund_exact. Qed.
Print Assumptions C06_mt_refund_exact.

(** round trip, class-path level, for every path length: moving a '/'-free
    class away over any hop and back yields the class path it had before
    (for a native class: the original class itself) *)
Theorem C06_round_trip_native :
  forall (PFX : bytes), noslash PFX -> PFX <> [] ->
  forall s d b, noslash s -> noslash d -> noslash b ->
    back_new_class_path (away_new_class_path PFX s d b) = Some b.
Proof. intros PFX H1 H2 s d b Hs Hd Hb. eapply back_away_native; eauto. Qed.
Print Assumptions C06_round_trip_native.

Theorem C06_round_trip_voucher :
  forall (PFX : bytes), noslash PFX -> PFX <> [] ->
  forall s d (p : list bytes) b,
    (2 <= length p)%nat -> all_noslash p -> noslash d -> noslash b ->
    back_new_class_path (away_new_class_path PFX s d (full PFX p b)) = Some (full PFX p b).
Proof. intros PFX H1 H2 s d p b Hl Hp Hd Hb. eapply back_away_full; eauto. Qed.
Print Assumptions C06_round_trip_voucher.

(** ... and the direction test sends a voucher back exactly when the
    destination is the chain it came from *)
Theorem C06_direction_test :
  forall (PFX : bytes), noslash PFX -> PFX <> [] ->
  forall (q : list bytes) x y b d,
    all_noslash (q ++ [x; y]) -> noslash b ->
    determine_away PFX (full PFX (q ++ [x; y]) b) d = Some (negb (beq x d)).
Proof. intros PFX H1 H2 q x y b d Hp Hb. eapply determine_away_full; eauto. Qed.
Print Assumptions C06_direction_test.

(** REFUTED for native classes containing '/' (known finding D4): the class
    "art/cats" sent from chain-aaaa to chain-bbbb arrives as "nft/chain-aaaa/chain-bbbb/art/cats";
    on the way back the direction test reads the wrong path element and flags
    the return as "away": the voucher is escrowed instead of burned and the
    original stays locked *)
Theorem C06_roundtrip_slash_refuted :
  let A := of_string "chain-aaaa" in let B := of_string "chain-bbbb" in
  let cls := of_string "art/cats" in
  let v := away_new_class_path NFT_PFX A B cls in
  determine_away NFT_PFX v A = Some true /\
  back_new_class_path v <> Some cls.
Proof. vm_compute. split; [reflexivity | discriminate]. Qed.
Print Assumptions C06_roundtrip_slash_refuted.
