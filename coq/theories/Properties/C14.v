(** C14 — expired light clients are frozen out, for every client type.
    Statements only; proofs in Clients/StatusFacts.v and Packet/Frozen.v. *)
From Coq Require Import NArith List.
From Tibc Require Import Base.Bytes Base.FMap Routing.Rules Packet.Types Packet.Keeper
  Clients.Status Clients.StatusFacts Packet.Frozen.
Import ListNotations.
Open Scope N_scope.

(** Tendermint (nanosecond clock): Unknown iff there is no consensus state at
    the latest height; Expired iff newest trusted time + trusting period <= block time;
    Active iff block time < newest trusted time + trusting period *)
Theorem C14_tm_status_iff : forall ts period s ns,
  (tm_status ts period s ns = Unknown <-> ts = None) /\
  (tm_status ts period s ns = Expired <-> exists t, ts = Some t /\ t + period <= now_ns s ns) /\
  (tm_status ts period s ns = Active <-> exists t, ts = Some t /\ now_ns s ns < t + period).
Proof. exact tm_status_iff. Qed.
Print Assumptions C14_tm_status_iff.

(** BSC and ETH (second clock, uint64): Expired iff newest header time +
    trusting period < Unix seconds of the block time (no uint64 wrap of the sum) *)
Theorem C14_bsc_status_iff : forall ts period s ns,
  (forall t, ts = Some t -> t + period < two64) ->
  (bsc_status ts period s ns = Unknown <-> ts = None) /\
  (bsc_status ts period s ns = Expired <-> exists t, ts = Some t /\ t + period < s) /\
  (bsc_status ts period s ns = Active <-> exists t, ts = Some t /\ s <= t + period).
Proof. exact sec_status_iff. Qed.
Print Assumptions C14_bsc_status_iff.

Theorem C14_eth_status_iff : forall ts period s ns,
  (forall t, ts = Some t -> t + period < two64) ->
  (eth_status ts period s ns = Unknown <-> ts = None) /\
  (eth_status ts period s ns = Expired <-> exists t, ts = Some t /\ t + period < s) /\
  (eth_status ts period s ns = Active <-> exists t, ts = Some t /\ s <= t + period).
Proof. exact sec_status_iff. Qed.
Print Assumptions C14_eth_status_iff.

(** the sub-second part of the block time never matters for BSC / ETH *)
Theorem C14_seconds_clients_ignore_subsecond : forall ty ts period s ns ns',
  ty <> 7 -> status_of ty ts period s ns = status_of ty ts period s ns'.
Proof.
  intros ty ts period s ns ns' T. unfold status_of.
  destruct ty as [|p]; [reflexivity|].
  do 3 (destruct p as [p|p|]; try reflexivity). contradiction.
Qed.
Print Assumptions C14_seconds_clients_ignore_subsecond.

(** the property in one statement, in each client's own unit: older than the
    trusting period -> Expired, inside it -> Active *)
Theorem C14_older_than_period_expired :
  (forall t period s ns, t + period < now_ns s ns -> tm_status (Some t) period s ns = Expired) /\
  (forall t period s ns, t + period < two64 -> t + period < s -> bsc_status (Some t) period s ns = Expired) /\
  (forall t period s ns, t + period < two64 -> t + period < s -> eth_status (Some t) period s ns = Expired).
Proof. split; [exact tm_frozen|split; exact sec_frozen]. Qed.
Print Assumptions C14_older_than_period_expired.

Theorem C14_inside_period_active :
  (forall t period s ns, now_ns s ns < t + period -> tm_status (Some t) period s ns = Active) /\
  (forall t period s ns, t + period < two64 -> s <= t + period -> bsc_status (Some t) period s ns = Active) /\
  (forall t period s ns, t + period < two64 -> s <= t + period -> eth_status (Some t) period s ns = Active).
Proof. split; [exact tm_live|split; exact sec_live]. Qed.
Print Assumptions C14_inside_period_active.

(** exactly at the boundary the conventions differ: Tendermint is Expired
    (cometbft convention), BSC/ETH are still Active *)
Theorem C14_boundary : forall t period s,
  tm_status (Some t) period 0 (t + period) = Expired /\
  (t + period < two64 -> bsc_status (Some t) period (t + period) s = Active).
Proof.
  intros t period s. split.
  - apply tm_boundary. unfold now_ns. reflexivity.
  - intros NW. apply sec_live; [exact NW|apply N.le_refl].
Qed.
Print Assumptions C14_boundary.

(** the uint64 sum in the BSC/ETH rule wraps: the no-wrap premise above is needed *)
Theorem C14_seconds_status_wrap_refuted :
  exists t period s, s <= t + period /\ eth_status (Some t) period s 0 = Expired.
Proof. exists 1700000000, (two64 - 10), 1700000001. exact sec_status_wrap_witness. Qed.
Print Assumptions C14_seconds_status_wrap_refuted.

(** a client that is not Active is not used: receive, acknowledgement, clean
    request and header update that would rely on it are refused and change nothing *)
Theorem C14_frozen_client_refuses_recv : forall A H hr onr ona (c : chain A) p pf h,
  frozen A c (recv_prover A c p) -> step A H hr onr ona c (ORecv p pf h) = (c, None).
Proof. exact frozen_recv. Qed.
Print Assumptions C14_frozen_client_refuses_recv.

Theorem C14_frozen_client_refuses_ack : forall A H hr onr ona (c : chain A) p a pf h,
  frozen A c (ack_prover A c p) -> step A H hr onr ona c (OAck p a pf h) = (c, None).
Proof. exact frozen_ack. Qed.
Print Assumptions C14_frozen_client_refuses_ack.

Theorem C14_frozen_client_refuses_clean : forall A H hr onr ona (c : chain A) cp pf h,
  frozen A c (clean_prover A c cp) -> step A H hr onr ona c (ORecvClean cp pf h) = (c, None).
Proof. exact frozen_recv_clean. Qed.
Print Assumptions C14_frozen_client_refuses_clean.

Theorem C14_frozen_client_refuses_update : forall A H hr onr ona (c : chain A) name h snap t cl,
  lookup name (c_clients A c) = Some cl -> client_active cl (c_now A c) = false ->
  step A H hr onr ona c (OUpdateClient name h snap t) = (c, None).
Proof. exact frozen_update. Qed.
Print Assumptions C14_frozen_client_refuses_update.

(** conversely every accepted message was vouched for by an Active client *)
Theorem C14_accepted_means_active : forall A H hr onr ona (c c' : chain A) ev,
  (forall p pf h, step A H hr onr ona c (ORecv p pf h) = (c', Some ev) ->
     exists cl, lookup (recv_prover A c p) (c_clients A c) = Some cl /\ client_active cl (c_now A c) = true) /\
  (forall p a pf h, step A H hr onr ona c (OAck p a pf h) = (c', Some ev) ->
     exists cl, lookup (ack_prover A c p) (c_clients A c) = Some cl /\ client_active cl (c_now A c) = true) /\
  (forall cp pf h, step A H hr onr ona c (ORecvClean cp pf h) = (c', Some ev) ->
     exists cl, lookup (clean_prover A c cp) (c_clients A c) = Some cl /\ client_active cl (c_now A c) = true) /\
  (forall name h snap t, step A H hr onr ona c (OUpdateClient name h snap t) = (c', Some ev) ->
     exists cl, lookup name (c_clients A c) = Some cl /\ client_active cl (c_now A c) = true).
Proof.
  intros. repeat split; intros.
  - eapply accepted_recv_active; eassumption.
  - eapply accepted_ack_active; eassumption.
  - eapply accepted_recv_clean_active; eassumption.
  - eapply accepted_update_active; eassumption.
Qed.
Print Assumptions C14_accepted_means_active.

(** the gate of the packet-layer model is the Tendermint status rule *)
Theorem C14_packet_gate_is_status : forall cl s ns,
  client_active cl (now_ns s ns) = true <->
  tm_status (option_map snd (snap_at cl (cl_latest cl))) (cl_period cl) s ns = Active.
Proof. exact client_active_is_tm_status. Qed.
Print Assumptions C14_packet_gate_is_status.

(** frozen for good: over every later history (any operations, time only moving
    forward) an inactive client stays exactly as it is and stays inactive *)
Theorem C14_frozen_forever : forall A H hr onr ona ops (c : chain A) name cl,
  lookup name (c_clients A c) = Some cl -> client_active cl (c_now A c) = false ->
  lookup name (c_clients A (run A H hr onr ona c ops)) = Some cl /\
  client_active cl (c_now A (run A H hr onr ona c ops)) = false.
Proof. intros A H hr onr ona. exact (frozen_forever A H hr onr ona). Qed.
Print Assumptions C14_frozen_forever.

Example C14_nonvacuous :
  tm_status (Some 1000) 500 0 1499 = Active /\ tm_status (Some 1000) 500 0 1500 = Expired /\
  eth_status (Some 1000) 500 1500 999999999 = Active /\ eth_status (Some 1000) 500 1501 0 = Expired /\
  bsc_status None 500 1501 0 = Unknown.
Proof. vm_compute. repeat split; reflexivity. Qed.
