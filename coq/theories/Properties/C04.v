(** C04 — NFT transfers never duplicate an NFT or release escrow to the wrong claimant.
    PROVED (per chain, for every state and input): the exact ownership effect of
    every transfer-module step -- a send locks (away) or burns (back) exactly the
    sender's token; a successful receive creates exactly one voucher for the
    receiver (away, only if absent) or releases exactly the escrowed token the
    returning class path denotes (back); an error outcome moves nothing (C19);
    a refund restores exactly (C06).
    REFUTED for native classes containing '/' (known finding D4): witness below.
    OVER HISTORIES: see C04Hist.v (every history of one chain: vouchers only
    against delivered packets, escrow released only to the claimant, escrow
    accounting), C04HistCross.v (every history of the application network: every
    refund is the refund of an own transfer, every delivery is backed by a
    transfer on the source, a refunded key was never credited) and, when present,
    C04HistSingle.v (two chains, '/'-free classes: never two user holders).
    NOT PROVED: the cross-chain statement over routes of three and more chains;
    it is checked by the correspondence oracle after every fifth step of every
    explored history. *)
From Tibc Require Import Base.Bytes Base.FMap Host.KeysFacts Packet.Types
  Apps.Path Apps.PathFacts Apps.Nft Apps.NftFacts.

(** a send succeeds only on the sender's own token and either escrows it (away)
    or destroys it (back); no other token is touched; the packet it builds carries
    the sender's chain, the requested route and the next sequence *)
Theorem C04_send_locks_or_burns :
  forall (escrow : bytes) (enc : nft_data -> bytes) (name : bytes) (seq : N) (st : nft_state)
         (class id sender receiver dest relay contract : bytes) (st1 : nft_state) (p : packet),
    nft_send escrow enc name seq st class id sender receiver dest relay contract = Some (st1, p) ->
    exists uri, token_at st class id = Some (sender, uri) /\
    (token_at st1 class id = Some (escrow, uri) \/ token_at st1 class id = None) /\
    (forall c i, (c, i) <> (class, id) -> token_at st1 c i = token_at st c i) /\
    p_src p = name /\ p_dst p = dest /\ p_relay p = relay /\ p_seq p = seq /\ p_port p = NFT_PORT.
Proof. exact send_locks_or_burns. Qed.
Print Assumptions C04_send_locks_or_burns.

(** vouchers come into existence only against a delivered packet, and escrow is
    released only for the returning voucher: the two success cases of the receive
    callback, each moving exactly one token *)
Theorem C04_recv_ok_effect :
  forall (Hh : bytes -> bytes) (valid_addr : bytes -> bool) (escrow : bytes)
         (st : nft_state) (src dst : bytes) (d : nft_data) (st' : nft_state),
    nft_recv_core Hh valid_addr escrow st src dst d = (st', RvOk) ->
    exists class uri,
      token_at st' class (nd_id d) = Some (nd_receiver d, uri) /\
      (forall c i, (c, i) <> (class, nd_id d) -> token_at st' c i = token_at st c i) /\
      (if nd_away d
       then class = voucher_class Hh (away_new_class_path NFT_PFX src dst (nd_class d)) /\
            token_at st class (nd_id d) = None /\ uri = nd_uri d
       else exists np, back_new_class_path (nd_class d) = Some np /\ class = voucher_class Hh np /\
            token_at st class (nd_id d) = Some (escrow, uri)).
Proof. exact recv_ok_effect. Qed.
Print Assumptions C04_recv_ok_effect.

Theorem C04_recv_error_moves_nothing :
  forall (Hh : bytes -> bytes) (valid_addr : bytes -> bool) (escrow : bytes)
         (st : nft_state) (src dst : bytes) (d : nft_data) (st' : nft_state),
    nft_recv_core Hh valid_addr escrow st src dst d = (st', RvErr) -> same_tokens st' st.
Proof. exact recv_error_no_token_effect. Qed.
Print Assumptions C04_recv_error_moves_nothing.

(** ledger primitives: only the owner can move or burn a token; a token is
    minted only where none exists *)
Theorem C04_transfer_needs_owner :
  forall (st : nft_state) (class id src dst : bytes) (st' : nft_state),
    nft_transfer st class id src dst = Some st' ->
    exists uri, token_at st class id = Some (src, uri) /\ has_class class st = true /\
    ns_classes st' = ns_classes st /\ ns_traces st' = ns_traces st /\
    (forall c i, token_at st' c i = if beq c class && beq i id then Some (dst, uri) else token_at st c i).
Proof. exact nft_transfer_spec. Qed.
Print Assumptions C04_transfer_needs_owner.

(** REFUTED (known finding D4): a native class may contain '/' and start with
    the path prefix.  Chain A (chain-aaaa) holds kitty/tom in escrow for the
    genuine voucher on B.  A packet from B carrying the NATIVE class
    "nft/chain-aaaa/chain-bbbb/kitty" of B with away = false (what SendNftTransfer
    builds for such a class) makes A release the escrowed original to the forger. *)
Theorem C04_forge_refuted :
  let A := of_string "chain-aaaa" in let B := of_string "chain-bbbb" in
  let esc := of_string "cosmos1escrow" in let forger := of_string "cosmos1forger" in
  let kitty := of_string "kitty" in let tom := of_string "tom" in
  let forged := of_string "nft/chain-aaaa/chain-bbbb/kitty" in
  let stA := mkNftState [(kitty, (of_string "cosmos1alice", false))] [(tkey kitty tom, (esc, []))] [] in
  (* on B the direction test flags the forged native class as "back" *)
  determine_away NFT_PFX forged A = Some false /\
  (* and A releases the escrowed original to the forger *)
  match nft_recv_core (fun x => x) (fun _ => true) esc stA B A
          (mkNftData forged tom [] forger forger false []) with
  | (stA', RvOk) => token_at stA' kitty tom = Some (forger, [])
  | _ => False
  end.
Proof. vm_compute. split; reflexivity. Qed.
Print Assumptions C04_forge_refuted.
