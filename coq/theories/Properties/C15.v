(** C15 — privileged operations need the right authority and never clobber clients.
    Statements only; proofs in Clients/RegistryFacts.v. *)
From Coq Require Import NArith List.
From Tibc Require Import Base.Bytes Base.FMap Routing.Rules Clients.Registry Clients.RegistryFacts.
Import ListNotations.
Open Scope N_scope.

(** create / upgrade / register-relayer / set-rules requested by anyone but the
    governance authority: refused, nothing changes *)
Theorem C15_privileged_needs_authority : forall g o,
  privileged o = true -> requester o <> g_authority g -> rstep g o = (g, false).
Proof. exact privileged_needs_authority. Qed.
Print Assumptions C15_privileged_needs_authority.

(** a header update sent by an account that is not registered as a relayer for
    THAT chain name: refused, nothing changes (whatever the header, and whatever
    the account is registered for elsewhere) *)
Theorem C15_update_needs_relayer : forall g signer name active v,
  ~ In signer (relayers_of g name) -> rstep g (RUpdate signer name active v) = (g, false).
Proof. exact update_needs_relayer. Qed.
Print Assumptions C15_update_needs_relayer.

(** every refused request leaves the registry exactly as it was *)
Theorem C15_refused_unchanged : forall g o, snd (rstep g o) = false -> fst (rstep g o) = g.
Proof. exact rstep_refused_unchanged. Qed.
Print Assumptions C15_refused_unchanged.

(** exact acceptance conditions of the five handlers *)
Theorem C15_create_accept_iff : forall g auth name ty st hk cst valid,
  snd (rstep g (RCreate auth name ty st hk cst valid)) = true <->
  auth = g_authority g /\ lookup name (g_clients g) = None /\ valid = true.
Proof. exact create_accept_iff. Qed.
Print Assumptions C15_create_accept_iff.

Theorem C15_upgrade_accept_iff : forall g auth name ty st hk cst valid,
  snd (rstep g (RUpgrade auth name ty st hk cst valid)) = true <->
  auth = g_authority g /\ valid = true /\
  exists old, lookup name (g_clients g) = Some old /\ rc_type old = ty.
Proof. exact upgrade_accept_iff. Qed.
Print Assumptions C15_upgrade_accept_iff.

Theorem C15_register_accept_iff : forall g auth name rl valid,
  snd (rstep g (RRegister auth name rl valid)) = true <-> auth = g_authority g /\ valid = true.
Proof. exact register_accept_iff. Qed.
Print Assumptions C15_register_accept_iff.

Theorem C15_setrules_accept_iff : forall g auth rules,
  snd (rstep g (RSetRules auth rules)) = true <->
  auth = g_authority g /\ exists st, set_rules rules = Some st.
Proof. exact setrules_accept_iff. Qed.
Print Assumptions C15_setrules_accept_iff.

Theorem C15_update_accept_iff : forall g signer name active v,
  snd (rstep g (RUpdate signer name active v)) = true <->
  In signer (relayers_of g name) /\ (exists old, lookup name (g_clients g) = Some old) /\
  active = true /\ exists vd, v = Some vd.
Proof. exact update_accept_iff. Qed.
Print Assumptions C15_update_accept_iff.

(** creating never overwrites: success means no client was stored under the
    name, and every other client, the relayers, the rules and the authority
    are untouched *)
Theorem C15_create_never_overwrites : forall g auth name ty st hk cst valid g',
  rstep g (RCreate auth name ty st hk cst valid) = (g', true) ->
  lookup name (g_clients g) = None /\
  lookup name (g_clients g') = Some (mkRC ty st (set hk cst [])) /\
  (forall n, n <> name -> lookup n (g_clients g') = lookup n (g_clients g)) /\
  g_relayers g' = g_relayers g /\ g_rules g' = g_rules g /\ g_authority g' = g_authority g.
Proof. exact create_effect. Qed.
Print Assumptions C15_create_never_overwrites.

(** upgrading keeps the type, keeps the older consensus states, touches no other client *)
Theorem C15_upgrade_keeps_type : forall g auth name ty st hk cst valid g',
  rstep g (RUpgrade auth name ty st hk cst valid) = (g', true) ->
  exists old, lookup name (g_clients g) = Some old /\ rc_type old = ty /\
  lookup name (g_clients g') = Some (mkRC ty st (set hk cst (rc_cons old))) /\
  (forall n, n <> name -> lookup n (g_clients g') = lookup n (g_clients g)) /\
  g_relayers g' = g_relayers g /\ g_rules g' = g_rules g /\ g_authority g' = g_authority g.
Proof. exact upgrade_effect. Qed.
Print Assumptions C15_upgrade_keeps_type.

Theorem C15_register_effect : forall g auth name rl valid g',
  rstep g (RRegister auth name rl valid) = (g', true) ->
  relayers_of g' name = rl /\
  (forall n, n <> name -> relayers_of g' n = relayers_of g n) /\
  g_clients g' = g_clients g /\ g_rules g' = g_rules g /\ g_authority g' = g_authority g.
Proof. exact register_effect. Qed.
Print Assumptions C15_register_effect.

Theorem C15_update_effect : forall g signer name active v g',
  rstep g (RUpdate signer name active v) = (g', true) ->
  exists old vd, lookup name (g_clients g) = Some old /\ v = Some vd /\
  lookup name (g_clients g') = Some (mkRC (rc_type old) (v_state vd) (set (v_height vd) (v_cons vd) (prune (v_pruned vd) (rc_cons old)))) /\
  (forall n, n <> name -> lookup n (g_clients g') = lookup n (g_clients g)) /\
  g_relayers g' = g_relayers g /\ g_rules g' = g_rules g /\ g_authority g' = g_authority g.
Proof. exact update_effect. Qed.
Print Assumptions C15_update_effect.

(** over every history of requests: a client, once created, is never removed
    and never changes its type; the authority never changes *)
Theorem C15_type_stable_forever : forall ops g name cl,
  lookup name (g_clients g) = Some cl ->
  exists cl', lookup name (g_clients (rrun g ops)) = Some cl' /\ rc_type cl' = rc_type cl.
Proof. exact rrun_type_stable. Qed.
Print Assumptions C15_type_stable_forever.

Theorem C15_authority_constant : forall ops g, g_authority (rrun g ops) = g_authority g.
Proof. exact rrun_authority. Qed.
Print Assumptions C15_authority_constant.

(** a history of requests none of which comes from the party entitled to make
    it leaves the registry unchanged, however long *)
Theorem C15_unauthorised_history_inert : forall ops g, Forall (unauthorised g) ops -> rrun g ops = g.
Proof. exact rrun_unauthorised. Qed.
Print Assumptions C15_unauthorised_history_inert.

(** non-vacuity: authority "gov" creates a client of type 7 for "b", registers
    relayer "r1" for it; "r1" updates it, "r2" (registered for "c") cannot; a
    second create and an upgrade to type 9 are refused *)
Example C15_nonvacuous :
  let gov := of_string "gov" in let b := of_string "b" in let c := of_string "c" in
  let g0 := mkReg gov [] [] None in
  let ops := [RCreate gov b 7 [1] [0;1] [5] true; RRegister gov b [of_string "r1"] true;
              RRegister gov c [of_string "r2"] true] in
  let g := rrun g0 ops in
  snd (rstep g (RUpdate (of_string "r1") b true (Some (mkVerdict [2] [0;2] [6] [])))) = true /\
  snd (rstep g (RUpdate (of_string "r2") b true (Some (mkVerdict [2] [0;2] [6] [])))) = false /\
  snd (rstep g (RCreate gov b 7 [9] [0;9] [9] true)) = false /\
  snd (rstep g (RUpgrade gov b 9 [9] [0;9] [9] true)) = false /\
  snd (rstep g (RUpgrade gov b 7 [9] [0;9] [9] true)) = true /\
  snd (rstep g (RUpgrade (of_string "r1") b 7 [9] [0;9] [9] true)) = false.
Proof. vm_compute. repeat split; reflexivity. Qed.
