(** C19 — failed messages leave no trace; error acknowledgements leave no token effects. *)
From Tibc Require Import Base.Bytes Base.FMap Host.Keys Host.KeysFacts Routing.Rules
  Packet.Types Packet.Keeper Packet.KeeperFacts Apps.Path Apps.Nft Apps.NftFacts Apps.Mt Apps.MtFacts
  Apps.App Apps.AppFacts.

(** a message that returns an error leaves the chain's state exactly as it was
    (the model's transaction wrapper keeps the pre-state; that BaseApp does the
    same is checked on the implementation by byte-comparing the tibc/nft/mt/NFT/MT
    stores around every failing message) *)
Theorem C19_failed_message_unchanged :
  forall (A : Type) (H : bytes -> bytes) (has_route : bytes -> bool)
         (on_recv : A -> packet -> option (A * option bytes))
         (on_ack : A -> packet -> bytes -> option A) (c : chain A) (o : op A),
    exec A H has_route on_recv on_ack c o = None ->
    step A H has_route on_recv on_ack c o = (c, None).
Proof. intros A H hr orc oa c o E. unfold step. rewrite E. reflexivity. Qed.
Print Assumptions C19_failed_message_unchanged.

(** NFT: when OnRecvPacket ends in an error (answered with an error
    acknowledgement) no token changed owner, appeared or disappeared -- not by
    construction: the callback runs on the live state; the proof shows that the
    only write that can precede a failure (issuing the voucher class / trace)
    touches no token, and that the transfer following a successful mint cannot fail *)
Theorem C19_nft_error_ack_no_token_effect :
  forall (Hh : bytes -> bytes) (valid_addr : bytes -> bool) (escrow : bytes)
         (st : nft_state) (src dst : bytes) (d : nft_data) (st' : nft_state),
    nft_recv_core Hh valid_addr escrow st src dst d = (st', RvErr) -> same_tokens st' st.
Proof. exact recv_error_no_token_effect. Qed.
Print Assumptions C19_nft_error_ack_no_token_effect.

(** MT: under the ledger invariant (sum of balances = supply <= 2^64-1, which
    every operation preserves, see C05) an error outcome leaves every balance and
    every supply unchanged; the invariant itself is kept in all three outcomes *)
Theorem C19_mt_error_ack_no_token_effect :
  forall (Hh : bytes -> bytes) (valid_addr : bytes -> bool) (escrow : bytes)
         (st : mt_state) (src dst : bytes) (d : mt_data) (st' : mt_state) (r : recv_res),
    MtInv st -> mt_recv_core Hh valid_addr escrow st src dst d = (st', r) ->
    MtInv st' /\ (r = RvErr -> same_amounts st' st) /\ (r = RvPanic -> st' = st).
Proof. exact mt_recv_inv. Qed.
Print Assumptions C19_mt_error_ack_no_token_effect.

(** the packet layer records exactly the receipt and the acknowledgement (and
    the max-ack counter): every other key of the packet store is untouched by a
    receive at the destination *)
Theorem C19_recv_packet_layer_exact :
  forall (A : Type) (H : bytes -> bytes) (has_route : bytes -> bool)
         (on_recv : A -> packet -> option (A * option bytes))
         (c : chain A) (p : packet) (pf : proof) (h : N) (c' : chain A) (ev : list event),
    msg_recv A H has_route on_recv c p pf h = Some (c', ev) -> p_relay p <> c_name A c ->
    receipt_at A c' (p_src p) (p_dst p) (p_seq p) = Some receipt_val /\
    commit_at A c' (p_src p) (p_dst p) (p_seq p) = commit_at A c (p_src p) (p_dst p) (p_seq p) /\
    (forall k, k <> receipt_key (p_src p) (p_dst p) (p_seq p) ->
               k <> ack_key (p_src p) (p_dst p) (p_seq p) ->
               k <> maxack_key (p_src p) (p_dst p) ->
               lookup k (c_kv A c') = lookup k (c_kv A c)).
Proof.
  intros A H hr orc c p pf h c' ev E NR.
  pose proof E as E1. apply msg_recv_inv in E1. destruct E1 as (_ & _ & _ & R1 & F & _).
  apply msg_recv_vals in E. destruct E as (CV & _).
  assert (CK : commit_at A c' (p_src p) (p_dst p) (p_seq p) = commit_at A c (p_src p) (p_dst p) (p_seq p)).
  { destruct CV as [CV|(_ & _ & X & _)]; [exact CV | contradiction]. }
  split; [exact R1|]. split; [exact CK|].
  intros k k1 k2 k3.
  destruct (bytes_eq_dec k (commit_key (p_src p) (p_dst p) (p_seq p))) as [->|k4].
  - exact CK.
  - apply F; assumption.
Qed.
Print Assumptions C19_recv_packet_layer_exact.
