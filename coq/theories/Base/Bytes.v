(** Byte strings as [list N]; the Go string functions the tibc-go code uses
    (strings.Split / Join / HasPrefix / Contains, fmt "%d", big-endian uint64)
    as total Gallina functions.  Definitions only + small characterising
    lemmas; larger facts live in BytesFacts.v. *)
From Coq Require Export List NArith Bool Lia.
From Coq Require Strings.String Strings.Ascii.
Export ListNotations.
Export Coq.Strings.String.StringSyntax.
Notation string := Coq.Strings.String.string.
Notation String := Coq.Strings.String.String.
Notation EmptyString := Coq.Strings.String.EmptyString.
Notation ascii := Coq.Strings.Ascii.ascii.
Notation N_of_ascii := Coq.Strings.Ascii.N_of_ascii.
Delimit Scope string_scope with string.
Open Scope N_scope.

Definition byte := N.
Definition bytes := list N.

Fixpoint beq (a b : bytes) : bool :=
  match a, b with
  | [], [] => true
  | x :: a', y :: b' => N.eqb x y && beq a' b'
  | _, _ => false
  end.

Lemma beq_spec a b : beq a b = true <-> a = b.
Proof.
  revert b; induction a as [|x a IH]; destruct b as [|y b]; simpl; try (split; congruence).
  rewrite andb_true_iff, N.eqb_eq, IH. split; [intros [-> ->]; reflexivity | intros H; inversion H; auto].
Qed.

Lemma beq_refl a : beq a a = true.
Proof. apply beq_spec; reflexivity. Qed.

Lemma beq_false a b : beq a b = false <-> a <> b.
Proof.
  split.
  - intros H E. apply beq_spec in E. congruence.
  - intros H. destruct (beq a b) eqn:E; [apply beq_spec in E; contradiction | reflexivity].
Qed.

Definition bytes_eq_dec (a b : bytes) : {a = b} + {a <> b}.
Proof. destruct (beq a b) eqn:E; [left; apply beq_spec; exact E | right; apply beq_false; exact E]. Defined.

(** strings.Split(s, sep) for a one-byte separator. *)
Fixpoint split (sep : N) (s : bytes) : list bytes :=
  match s with
  | [] => [[]]
  | c :: s' =>
      if N.eqb c sep then [] :: split sep s'
      else match split sep s' with
           | [] => [[c]]
           | h :: t => (c :: h) :: t
           end
  end.

(** strings.Join(l, sep) *)
Fixpoint join (sep : bytes) (l : list bytes) : bytes :=
  match l with
  | [] => []
  | [x] => x
  | x :: rest => x ++ sep ++ join sep rest
  end.

Fixpoint has_prefix (p s : bytes) : bool :=
  match p, s with
  | [], _ => true
  | x :: p', y :: s' => N.eqb x y && has_prefix p' s'
  | _ :: _, [] => false
  end.

Definition contains (c : N) (s : bytes) : bool := existsb (N.eqb c) s.

(** fmt.Sprintf("%d", n) — decimal digits, most significant first.
    Fuel-driven; 20 digits cover 2^64, [dec] uses a generous fuel of 40 and the
    facts file proves it exact for every n < 10^40. *)
Fixpoint dec_aux (fuel : nat) (n : N) (acc : bytes) : bytes :=
  match fuel with
  | O => acc
  | S f =>
      let d := 48 + n mod 10 in
      let q := n / 10 in
      if N.eqb q 0 then d :: acc else dec_aux f q (d :: acc)
  end.
Definition dec (n : N) : bytes := dec_aux 40 n [].

(** big-endian fixed width (sdk.Uint64ToBigEndian) *)
Fixpoint be_aux (w : nat) (n : N) (acc : bytes) : bytes :=
  match w with
  | O => acc
  | S w' => be_aux w' (n / 256) (n mod 256 :: acc)
  end.
Definition be64 (n : N) : bytes := be_aux 8 n [].

(** Coq string literals to bytes (model constants such as "commitments/"). *)
Fixpoint of_string (s : string) : bytes :=
  match s with
  | EmptyString => []
  | String a s' => N_of_ascii a :: of_string s'
  end.

(** hex literals used by the harness-generated case files: hx "612b62" *)
Definition hexval (a : ascii) : N :=
  let n := N_of_ascii a in
  if (48 <=? n) && (n <=? 57) then n - 48
  else if (97 <=? n) && (n <=? 102) then n - 87
  else if (65 <=? n) && (n <=? 70) then n - 55
  else 0.
Fixpoint hx (s : string) : bytes :=
  match s with
  | String a (String b s') => (16 * hexval a + hexval b) :: hx s'
  | _ => []
  end.

Arguments of_string s%string.
Arguments hx s%string.

Definition slash : N := 47.
Definition comma : N := 44.
Definition star : N := 42.

Definition u64max : N := 18446744073709551615.
Definition two64 : N := 18446744073709551616.
