From Tibc Require Import Base.Bytes.
From Coq Require Import ZArith ZifyN ZifyNat ZifyBool.
Ltac Zify.zify_post_hook ::= Z.div_mod_to_equations.

(** * split / join *)

Lemma split_nonnil sep s : split sep s <> [].
Proof.
  destruct s as [|c s]; simpl; [discriminate|].
  destruct (N.eqb c sep); [discriminate|]. destruct (split sep s); discriminate.
Qed.

Lemma split_cons_nosep sep c s : c <> sep ->
  split sep (c :: s) = (c :: hd [] (split sep s)) :: tl (split sep s).
Proof.
  intros H. simpl. apply N.eqb_neq in H. rewrite H.
  destruct (split sep s) eqn:E; [exfalso; eapply split_nonnil; eauto | reflexivity].
Qed.

Lemma split_nosep sep s : ~ In sep s -> split sep s = [s].
Proof.
  induction s as [|c s IH]; intros H; [reflexivity|].
  rewrite split_cons_nosep by (intros ->; apply H; left; reflexivity).
  rewrite IH by (intros X; apply H; right; exact X). reflexivity.
Qed.

Lemma split_app sep a b : ~ In sep a -> split sep (a ++ sep :: b) = a :: split sep b.
Proof.
  induction a as [|c a IH]; intros H.
  - simpl. rewrite N.eqb_refl. reflexivity.
  - rewrite <- app_comm_cons.
    rewrite split_cons_nosep by (intros ->; apply H; left; reflexivity).
    rewrite IH by (intros X; apply H; right; exact X). reflexivity.
Qed.

Lemma join_cons sep x y l : join sep (x :: y :: l) = x ++ sep ++ join sep (y :: l).
Proof. reflexivity. Qed.

Lemma join_split sep s : join [sep] (split sep s) = s.
Proof.
  induction s as [|c s IH]; [reflexivity|].
  simpl split. destruct (N.eqb c sep) eqn:E.
  - apply N.eqb_eq in E; subst c.
    destruct (split sep s) eqn:E2; [exfalso; eapply split_nonnil; eauto|].
    rewrite join_cons. simpl. f_equal. exact IH.
  - destruct (split sep s) as [|h t] eqn:E2; [exfalso; eapply split_nonnil; eauto|].
    destruct t as [|h2 t].
    + simpl in *. congruence.
    + rewrite join_cons in *. simpl in *. congruence.
Qed.

Lemma split_join sep l : l <> [] -> Forall (fun x => ~ In sep x) l ->
  split sep (join [sep] l) = l.
Proof.
  induction l as [|x l IH]; intros Hn HF; [congruence|].
  inversion HF as [|? ? Hx HF']; subst.
  destruct l as [|y l].
  - simpl. apply split_nosep; assumption.
  - rewrite join_cons. cbn [app]. rewrite split_app by assumption.
    f_equal. apply IH; [discriminate | assumption].
Qed.

Lemma split_fields_nosep sep s : Forall (fun x => ~ In sep x) (split sep s).
Proof.
  induction s as [|c s IH]; simpl.
  - constructor; [intros []|constructor].
  - destruct (N.eqb c sep) eqn:E.
    + constructor; [intros []|exact IH].
    + destruct (split sep s) as [|h t]; [constructor; [|constructor]|].
      * intros [X|[]]. subst. rewrite N.eqb_refl in E. discriminate.
      * inversion IH; subst. constructor; [|assumption].
        intros [X|X]; [subst; rewrite N.eqb_refl in E; discriminate | contradiction].
Qed.

(** [a ++ sep :: b] determines [a] and [b] when [a] is separator-free *)
Lemma join2_inj (sep : N) (a a' b b' : bytes) : ~ In sep a -> ~ In sep a' ->
  a ++ sep :: b = a' ++ sep :: b' -> a = a' /\ b = b'.
Proof.
  intros Ha Ha' E.
  assert (H : split sep (a ++ sep :: b) = split sep (a' ++ sep :: b')) by (rewrite E; reflexivity).
  rewrite !split_app in H by assumption. inversion H; subst. split; [reflexivity|].
  apply app_inv_head in E. inversion E; reflexivity.
Qed.

(** splitting characterises three-field strings *)
Lemma split3_iff sep r a b c :
  split sep r = [a; b; c] <->
  (r = a ++ sep :: b ++ sep :: c /\ ~ In sep a /\ ~ In sep b /\ ~ In sep c).
Proof.
  split.
  - intros H. pose proof (join_split sep r) as J. rewrite H in J.
    pose proof (split_fields_nosep sep r) as F. rewrite H in F.
    rewrite !Forall_cons_iff in F. destruct F as (Fa & Fb & Fc & _).
    split; [|auto]. rewrite <- J. reflexivity.
  - intros (-> & Ha & Hb & Hc).
    rewrite split_app by assumption. rewrite split_app by assumption.
    rewrite split_nosep by assumption. reflexivity.
Qed.

(** * has_prefix / contains *)

Lemma has_prefix_spec p s : has_prefix p s = true <-> exists t, s = p ++ t.
Proof.
  revert s; induction p as [|x p IH]; intros s; simpl.
  - split; [intros _; exists s; reflexivity | reflexivity].
  - destruct s as [|y s]; [split; [discriminate | intros [t H]; discriminate]|].
    rewrite andb_true_iff, N.eqb_eq, IH. split.
    + intros [-> [t ->]]. exists t. reflexivity.
    + intros [t H]. inversion H; subst. split; [reflexivity | exists t; reflexivity].
Qed.

Lemma has_prefix_app p t : has_prefix p (p ++ t) = true.
Proof. apply has_prefix_spec. exists t. reflexivity. Qed.

Lemma contains_spec c s : contains c s = true <-> In c s.
Proof.
  unfold contains. rewrite existsb_exists. split.
  - intros [x [Hi He]]. apply N.eqb_eq in He. subst. exact Hi.
  - intros H. exists c. split; [exact H | apply N.eqb_refl].
Qed.

Lemma contains_false c s : contains c s = false <-> ~ In c s.
Proof.
  rewrite <- contains_spec. destruct (contains c s); split; intros H; try congruence.
Qed.

(** * decimal printing *)

Definition dval (l : bytes) : N := fold_left (fun a d => 10 * a + (d - 48)) l 0.

Definition is_digit (d : N) : Prop := 48 <= d <= 57.

Lemma dec_aux_acc f : forall n acc, dec_aux f n acc = dec_aux f n [] ++ acc.
Proof.
  induction f as [|f IH]; intros n acc; simpl; [reflexivity|].
  destruct (N.eqb (n / 10) 0); [reflexivity|].
  rewrite IH. rewrite (IH _ [_]). rewrite <- app_assoc. reflexivity.
Qed.

Lemma dval_snoc l d : dval (l ++ [d]) = 10 * dval l + (d - 48).
Proof. unfold dval. rewrite fold_left_app. reflexivity. Qed.

Lemma dec_aux_val f : forall n, n < 10 ^ N.of_nat f -> dval (dec_aux f n []) = n.
Proof.
  induction f as [|f IH]; intros n Hn.
  - simpl in Hn. assert (n = 0) by lia. subst. reflexivity.
  - cbn [dec_aux]. destruct (N.eqb (n / 10) 0) eqn:E.
    + apply N.eqb_eq in E. unfold dval. cbn [fold_left]. lia.
    + rewrite dec_aux_acc, dval_snoc. rewrite IH.
      * lia.
      * rewrite Nnat.Nat2N.inj_succ, N.pow_succ_r' in Hn. lia.
Qed.

Lemma dec_aux_digits f : forall n acc, Forall is_digit acc -> Forall is_digit (dec_aux f n acc).
Proof.
  induction f as [|f IH]; intros n acc H; simpl; [exact H|].
  assert (D : is_digit (48 + n mod 10)) by (unfold is_digit; lia).
  destruct (N.eqb (n / 10) 0); [constructor; assumption|].
  apply IH. constructor; assumption.
Qed.

Definition dec_bound : N := 10 ^ 40.

Lemma dec_val n : n < dec_bound -> dval (dec n) = n.
Proof. intros H. unfold dec. apply dec_aux_val. exact H. Qed.

Lemma dec_inj n m : n < dec_bound -> m < dec_bound -> dec n = dec m -> n = m.
Proof. intros Hn Hm E. rewrite <- (dec_val n Hn), <- (dec_val m Hm), E. reflexivity. Qed.

Lemma dec_digits n : Forall is_digit (dec n).
Proof. apply dec_aux_digits. constructor. Qed.

Lemma dec_noslash n : ~ In slash (dec n).
Proof.
  intros H. pose proof (dec_digits n) as D. rewrite Forall_forall in D.
  apply D in H. unfold is_digit, slash in H. lia.
Qed.

Lemma dec_aux_nonempty f n acc : dec_aux (S f) n acc <> [].
Proof.
  cbn [dec_aux]. destruct (N.eqb (n / 10) 0); [discriminate|].
  rewrite dec_aux_acc. intros H. apply app_eq_nil in H. destruct H; discriminate.
Qed.

Lemma dec_nonempty n : dec n <> [].
Proof. apply (dec_aux_nonempty 39). Qed.

Lemma u64_lt_dec_bound n : n <= u64max -> n < dec_bound.
Proof. unfold u64max, dec_bound. intros H. eapply N.le_lt_trans; [exact H|]. vm_compute. reflexivity. Qed.
