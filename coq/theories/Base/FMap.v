(** Finite maps from byte strings to values as association lists without
    duplicate keys ([set] removes the old binding).  State equalities are
    stated pointwise through [lookup]. *)
From Tibc Require Import Base.Bytes.

Section FMap.
Context {V : Type}.

Definition fmap := list (bytes * V).

Fixpoint lookup (k : bytes) (m : fmap) : option V :=
  match m with
  | [] => None
  | (k', v) :: m' => if beq k k' then Some v else lookup k m'
  end.

Fixpoint remove (k : bytes) (m : fmap) : fmap :=
  match m with
  | [] => []
  | (k', v) :: m' => if beq k k' then remove k m' else (k', v) :: remove k m'
  end.

Definition set (k : bytes) (v : V) (m : fmap) : fmap := (k, v) :: remove k m.

Definition has (k : bytes) (m : fmap) : bool :=
  match lookup k m with Some _ => true | None => false end.

Lemma lookup_remove_eq k m : lookup k (remove k m) = None.
Proof.
  induction m as [|[k' v] m IH]; simpl; [reflexivity|].
  destruct (beq k k') eqn:E; [exact IH|]. simpl. rewrite E. exact IH.
Qed.

Lemma lookup_remove_neq k k' m : k <> k' -> lookup k (remove k' m) = lookup k m.
Proof.
  intros H. induction m as [|[k2 v] m IH]; simpl; [reflexivity|].
  destruct (beq k' k2) eqn:E.
  - apply beq_spec in E. subst k2.
    assert (beq k k' = false) as -> by (apply beq_false; exact H). exact IH.
  - simpl. destruct (beq k k2); [reflexivity | exact IH].
Qed.

Lemma lookup_set_eq k v m : lookup k (set k v m) = Some v.
Proof. unfold set. simpl. rewrite beq_refl. reflexivity. Qed.

Lemma lookup_set_neq k k' v m : k <> k' -> lookup k (set k' v m) = lookup k m.
Proof.
  intros H. unfold set. simpl.
  assert (beq k k' = false) as -> by (apply beq_false; exact H).
  apply lookup_remove_neq. exact H.
Qed.

Lemma lookup_set k k' v m :
  lookup k (set k' v m) = if beq k k' then Some v else lookup k m.
Proof.
  destruct (beq k k') eqn:E.
  - apply beq_spec in E. subst. apply lookup_set_eq.
  - apply lookup_set_neq. apply beq_false. exact E.
Qed.

Lemma lookup_remove k k' m :
  lookup k (remove k' m) = if beq k k' then None else lookup k m.
Proof.
  destruct (beq k k') eqn:E.
  - apply beq_spec in E. subst. apply lookup_remove_eq.
  - apply lookup_remove_neq. apply beq_false. exact E.
Qed.

(** delete the keys [f start], [f (start+1)], ... ([cnt] of them): the Go loops
    "for seq := a; seq <= b; seq++ { if has(k seq) { delete(k seq) } }" *)
Fixpoint del_range (f : N -> bytes) (start : N) (cnt : nat) (m : fmap) : fmap :=
  match cnt with
  | O => m
  | S c => del_range f (start + 1) c (remove (f start) m)
  end.

Fixpoint any_range (f : N -> bytes) (start : N) (cnt : nat) (m : fmap) : bool :=
  match cnt with
  | O => false
  | S c => has (f start) m || any_range f (start + 1) c m
  end.

Definition in_range (f : N -> bytes) (start : N) (cnt : nat) (k : bytes) : Prop :=
  exists i, i < N.of_nat cnt /\ k = f (start + i).

Lemma in_range_S f start c k :
  in_range f start (S c) k <-> k = f start \/ in_range f (start + 1) c k.
Proof.
  unfold in_range. split.
  - intros [i [Hi E]]. destruct (N.eq_dec i 0) as [->|Hn].
    + left. rewrite N.add_0_r in E. exact E.
    + right. exists (i - 1). split; [lia|]. subst k. f_equal. lia.
  - intros [E|[i [Hi E]]].
    + exists 0. split; [lia|]. rewrite N.add_0_r. exact E.
    + exists (i + 1). split; [lia|]. subst k. f_equal. lia.
Qed.

Lemma lookup_del_range_in f cnt : forall start m k,
  in_range f start cnt k -> lookup k (del_range f start cnt m) = None.
Proof.
  induction cnt as [|c IH]; intros start m k H.
  - destruct H as [i [Hi _]]. simpl in Hi. lia.
  - apply in_range_S in H. cbn [del_range]. destruct H as [->|H].
    + (* removed first; later removals keep it absent *)
      clear IH. revert start m. induction c as [|c IHc]; intros start m; cbn [del_range].
      * apply lookup_remove_eq.
      * specialize (IHc (start + 1)).
        (* generalise: absent keys stay absent *)
        assert (G : forall c s (m' : fmap) k', lookup k' m' = None -> lookup k' (del_range f s c m') = None).
        { clear. induction c as [|c IH]; intros s m' k' H; cbn [del_range]; [exact H|].
          apply IH. rewrite lookup_remove. destruct (beq k' (f s)); [reflexivity | exact H]. }
        apply G. rewrite lookup_remove. destruct (beq (f start) (f (start + 1))); [reflexivity|].
        apply lookup_remove_eq.
    + apply IH. exact H.
Qed.

Lemma lookup_del_range_out f cnt : forall start m k,
  ~ in_range f start cnt k -> lookup k (del_range f start cnt m) = lookup k m.
Proof.
  induction cnt as [|c IH]; intros start m k H; cbn [del_range]; [reflexivity|].
  rewrite IH.
  - apply lookup_remove_neq. intros E. apply H. apply in_range_S. left. exact E.
  - intros X. apply H. apply in_range_S. right. exact X.
Qed.

Lemma any_range_false f cnt : forall start m,
  any_range f start cnt m = false <-> (forall k, in_range f start cnt k -> lookup k m = None).
Proof.
  induction cnt as [|c IH]; intros start m; cbn [any_range].
  - split; [|reflexivity]. intros _ k [i [Hi _]]. simpl in Hi. lia.
  - rewrite orb_false_iff, IH. unfold has. split.
    + intros [H1 H2] k Hk. apply in_range_S in Hk. destruct Hk as [->|Hk].
      * destruct (lookup (f start) m); [discriminate | reflexivity].
      * apply H2. exact Hk.
    + intros H. split.
      * rewrite (H (f start)); [reflexivity|]. apply in_range_S. left. reflexivity.
      * intros k Hk. apply H. apply in_range_S. right. exact Hk.
Qed.

End FMap.

Arguments fmap V : clear implicits.
