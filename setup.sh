#!/bin/sh
# Offline build of the framework: Coq development (full .vo) and the Go harness
# against /repo's working tree (warms the Go build cache; cold ~6 min).
set -e
cd "$(dirname "$0")"
export GOFLAGS=-mod=mod GOPROXY=off GOSUMDB=off GOTOOLCHAIN=local
mkdir -p work evidence replays
( cd coq && coq_makefile -f _CoqProject -o Makefile && timeout 3000 make -j16 ) > work/setup-coq.log 2>&1 || { tail -30 work/setup-coq.log; exit 1; }
cp /repo/go.sum harness/go.sum
( cd harness && go test -c -tags verif -o ../work/harness.test . ) > work/setup-go.log 2>&1 || { tail -30 work/setup-go.log; exit 1; }
( cd tools/scan && go build -o ../../work/scan . ) > work/setup-scan.log 2>&1 || { tail -30 work/setup-scan.log; exit 1; }
( cd tools/srcmap && go build -o ../../work/srcmap . ) > work/setup-srcmap.log 2>&1 || { tail -30 work/setup-srcmap.log; exit 1; }
echo setup ok
