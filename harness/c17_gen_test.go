package harness

import (
	"bytes"
	"fmt"
	"math/rand"
	"strings"
	"testing"

	"github.com/ethereum/go-ethereum/common"
	gethtypes "github.com/ethereum/go-ethereum/core/types"

	clienttypes "github.com/bianjieai/tibc-go/modules/tibc/core/02-client/types"
	host "github.com/bianjieai/tibc-go/modules/tibc/core/24-host"
	bsctypes "github.com/bianjieai/tibc-go/modules/tibc/light-clients/08-bsc/types"
	tibctesting "github.com/bianjieai/tibc-go/modules/tibc/testing"
)

type c17Gen struct {
	t     *testing.T
	rep   *Report
	cs    *CaseSet
	chain *tibctesting.TestChain
	seq   int
}

const c17Trusting = uint64(1000000000000)

func (g *c17Gen) world(scenario string, epoch uint64, real bool, r *rand.Rand) *c17World {
	g.seq++
	w := &c17World{
		t: g.t, rep: g.rep, chain: g.chain, cdc: g.chain.App.AppCodec(), keeper: g.chain.App.TIBCKeeper.ClientKeeper, rnd: r,
		scenario: scenario, name: fmt.Sprintf("bsc-c17-%05d", g.seq), real: real,
		spec: &c17Spec{epoch: epoch, chainID: 56 + uint64(g.seq%3), signerOf: map[uint64]common.Address{}, limitAfter: map[uint64]int{}},
		byAddr: map[common.Address]c17Key{}, pool: map[string]uint64{},
	}
	w.keys = c17MakeKeys(34, fmt.Sprintf("%d-%d", envSeed(), g.seq%7))
	for _, k := range w.keys {
		w.byAddr[k.addr] = k
	}
	g.chain.Coordinator.UpdateTimeForChain(g.chain)
	w.now = uint64(g.chain.ProposedHeader.Time.Unix())
	if real {
		w.ctx = g.chain.GetContext()
		w.keeper.RegisterRelayers(w.ctx, w.name, []string{g.chain.SenderAccount.GetAddress().String()})
	} else {
		w.ctx, _ = g.chain.GetContext().CacheContext()
	}
	g.rep.Count(fmt.Sprintf("scenario:epochlen:%d", epoch))
	w.flush = g.flush
	return w
}

func (g *c17Gen) finish(w *c17World) {
	if w.init == nil || len(w.steps) == 0 {
		return
	}
	e := &c17Buf{}
	e.num(uint64(len(w.table)))
	for _, b := range w.table {
		e.raw(b)
	}
	e.b = append(e.b, w.init...)
	e.num(uint64(len(w.steps)))
	for _, st := range w.steps {
		e.b = append(e.b, st...)
	}
	g.cs.Add("\""+string(bytes.ReplaceAll(e.b, []byte{'"'}, []byte{'"', '"'}))+"\"%c17", c17CaseDesc{w.scenario, w.descs})
	g.rep.Sample(6, map[string]any{"scenario": w.scenario, "first_steps": w.descs[:c17Min(3, len(w.descs))]})
}

// ends the current case and starts a new one from the real state as it is now
func (g *c17Gen) flush(w *c17World) {
	g.finish(w)
	w.pool, w.table, w.steps, w.descs = map[string]uint64{}, nil, nil, nil
	w.init = w.stateTerm()
}

func c17Min(a, b int) int {
	if a < b {
		return a
	}
	return b
}

func c17Addrs(ks []c17Key) [][]byte {
	out := make([][]byte, len(ks))
	for i, k := range ks {
		out[i] = append([]byte(nil), k.addr[:]...)
	}
	return out
}

func c17RandBytes(r *rand.Rand, n int) []byte {
	b := make([]byte, n)
	r.Read(b)
	return b
}

// an initial (trusted) header at block number num listing the validators `announce`
func (w *c17World) genesis(num, gas uint64, announce [][]byte) *bsctypes.Header {
	extra := c17RandBytes(w.rnd, 32)
	for _, v := range announce {
		extra = append(extra, v...)
	}
	extra = append(extra, make([]byte, 65)...)
	h := &bsctypes.Header{
		ParentHash: c17RandBytes(w.rnd, 32), UncleHash: gethtypes.EmptyUncleHash[:], Coinbase: c17RandBytes(w.rnd, 20),
		Root: c17RandBytes(w.rnd, 32), TxHash: c17RandBytes(w.rnd, 32), ReceiptHash: c17RandBytes(w.rnd, 32),
		Bloom: make([]byte, 256), Difficulty: 2, Height: clienttypes.NewHeight(0, num), GasLimit: gas, GasUsed: gas / 2,
		Time: 1500000000 + 3*num, Extra: extra, MixDigest: make([]byte, 32), Nonce: make([]byte, 8),
	}
	return h
}

// validators of the set in force that the property allows to seal block num
func (w *c17World) allowed(num uint64) []common.Address {
	sp := w.spec
	var out []common.Address
	n := uint64(len(sp.cur))
	for _, a := range sp.cur {
		recent := false
		for b := uint64(1); b <= n/2 && b <= num; b++ {
			if who, ok := sp.signerOf[num-b]; ok && who == a {
				recent = true
			}
		}
		if !recent {
			out = append(out, a)
		}
	}
	return out
}

func (w *c17World) inturnAddr(num uint64) (common.Address, bool) {
	if len(w.spec.cur) == 0 {
		return common.Address{}, false
	}
	return w.spec.cur[num%uint64(len(w.spec.cur))], true
}

// a valid child of the latest header sealed by `signer` (zero address: choose an allowed validator,
// the in-turn one with probability 0.6); announce = validators to list if the block is an epoch block
func (w *c17World) next(signer common.Address, announce [][]byte) (*bsctypes.Header, c17Key) {
	sp := w.spec
	p := sp.latest
	num := p.Height.RevisionHeight + 1
	it, hasIt := w.inturnAddr(num)
	if signer == (common.Address{}) {
		al := w.allowed(num)
		switch {
		case len(al) == 0 && len(sp.cur) > 0:
			signer = sp.cur[w.rnd.Intn(len(sp.cur))]
		case len(al) == 0:
			signer = w.keys[0].addr
		case hasIt && c17In(it, al) && w.rnd.Intn(10) < 6:
			signer = it
		default:
			signer = al[w.rnd.Intn(len(al))]
		}
	}
	key, ok := w.byAddr[signer]
	if !ok {
		w.t.Fatalf("no key for %s", signer.Hex())
	}
	diff := uint64(1)
	if hasIt && it == signer {
		diff = 2
	}
	ph, _ := c17Hash(p)
	bound := p.GasLimit / 256
	gas := p.GasLimit
	if bound > 1 {
		d := uint64(w.rnd.Int63n(int64(bound)))
		if w.rnd.Intn(2) == 0 && p.GasLimit+d <= 0x7fffffffffffffff {
			gas = p.GasLimit + d
		} else if p.GasLimit-d >= 5000 {
			gas = p.GasLimit - d
		}
	}
	extra := c17RandBytes(w.rnd, 32)
	if sp.epoch != 0 && num%sp.epoch == 0 {
		for _, v := range announce {
			extra = append(extra, v...)
		}
	}
	extra = append(extra, make([]byte, 65)...)
	h := &bsctypes.Header{
		ParentHash: ph[:], UncleHash: gethtypes.EmptyUncleHash[:], Coinbase: append([]byte(nil), signer[:]...),
		Root: c17RandBytes(w.rnd, 32), TxHash: c17RandBytes(w.rnd, 32), ReceiptHash: c17RandBytes(w.rnd, 32),
		Bloom: make([]byte, 256), Difficulty: diff, Height: clienttypes.NewHeight(p.Height.RevisionNumber, num),
		GasLimit: gas, GasUsed: w.rnd.Uint64() % (gas/2 + 1), Time: p.Time + 3, Extra: extra,
		MixDigest: make([]byte, 32), Nonce: make([]byte, 8),
	}
	c17Seal(h, key, sp.chainID)
	return h, key
}

type c17Variant struct {
	name string
	mk   func() *bsctypes.Header // built (and sealed) only when the variant is presented
}

// every single-field corruption of the valid header h (sealed by k).  "-u": the field is changed after
// sealing (the seal no longer covers the header); "-r": changed and re-sealed by the same validator.
func (w *c17World) variants(h *bsctypes.Header, k c17Key, announce [][]byte) []c17Variant {
	sp := w.spec
	var out []c17Variant
	add := func(name string, reseal bool, f func(m *bsctypes.Header)) {
		out = append(out, c17Variant{name, func() *bsctypes.Header {
			m := c17CopyHeader(h)
			f(m)
			if reseal {
				c17Seal(m, k, sp.chainID)
			}
			return m
		}})
	}
	both := func(name string, f func(m *bsctypes.Header)) {
		add(name+"-u", false, f)
		add(name+"-r", true, f)
	}
	p := sp.latest
	num := h.Height.RevisionHeight

	// --- parent link
	both("parent-flip", func(m *bsctypes.Header) { m.ParentHash[w.rnd.Intn(32)] ^= 0x40 })
	add("parent-zero-r", true, func(m *bsctypes.Header) { m.ParentHash = make([]byte, 32) })
	add("parent-empty-r", true, func(m *bsctypes.Header) { m.ParentHash = nil })
	add("parent-33-junk-prefix-r", true, func(m *bsctypes.Header) { m.ParentHash = append([]byte{0xab}, m.ParentHash...) })
	add("parent-31-r", true, func(m *bsctypes.Header) { m.ParentHash = m.ParentHash[1:] })
	add("parent-is-grandparent-r", true, func(m *bsctypes.Header) { m.ParentHash = append([]byte(nil), p.ParentHash...) })
	both("number+1", func(m *bsctypes.Header) { m.Height.RevisionHeight = num + 1 })
	both("number-1", func(m *bsctypes.Header) { m.Height.RevisionHeight = num - 1 })
	add("number-0-r", true, func(m *bsctypes.Header) { m.Height.RevisionHeight = 0 })
	add("number+epoch-r", true, func(m *bsctypes.Header) { m.Height.RevisionHeight = num + sp.epoch })
	add("revision+1", false, func(m *bsctypes.Header) { m.Height.RevisionNumber++ })
	add("resubmit-latest", false, func(m *bsctypes.Header) { *m = *c17CopyHeader(p) })

	// --- gas
	bound := p.GasLimit / 256
	gasv := func(name string, g uint64) {
		add(name+"-r", true, func(m *bsctypes.Header) {
			m.GasLimit = g
			if m.GasUsed > g {
				m.GasUsed = g
			}
		})
	}
	if bound >= 1 {
		gasv("gaslimit-parent+bound-1", p.GasLimit+bound-1)
		gasv("gaslimit-parent+bound", p.GasLimit+bound)
		gasv("gaslimit-parent+bound+1", p.GasLimit+bound+1)
		gasv("gaslimit-parent-bound+1", p.GasLimit-bound+1)
		gasv("gaslimit-parent-bound", p.GasLimit-bound)
		gasv("gaslimit-parent-bound-1", p.GasLimit-bound-1)
	}
	gasv("gaslimit-parent", p.GasLimit)
	gasv("gaslimit-4999", 4999)
	gasv("gaslimit-5000", 5000)
	gasv("gaslimit-2^63-1", 0x7fffffffffffffff)
	gasv("gaslimit-2^63", 0x8000000000000000)
	add("gaslimit-u", false, func(m *bsctypes.Header) { m.GasLimit++ })
	add("gasused=limit-r", true, func(m *bsctypes.Header) { m.GasUsed = m.GasLimit })
	add("gasused=limit+1-r", true, func(m *bsctypes.Header) { m.GasUsed = m.GasLimit + 1 })
	add("gasused-u", false, func(m *bsctypes.Header) { m.GasUsed = m.GasUsed / 2 })

	// --- difficulty
	both("difficulty-swap", func(m *bsctypes.Header) { m.Difficulty = 3 - m.Difficulty })
	add("difficulty-0-r", true, func(m *bsctypes.Header) { m.Difficulty = 0 })
	add("difficulty-3-r", true, func(m *bsctypes.Header) { m.Difficulty = 3 })

	// --- coinbase / seal
	other := w.keys[w.rnd.Intn(len(w.keys))]
	if len(sp.cur) > 1 {
		for _, a := range sp.cur {
			if a != k.addr {
				other = w.byAddr[a]
				break
			}
		}
	}
	both("coinbase-other-validator", func(m *bsctypes.Header) { m.Coinbase = append([]byte(nil), other.addr[:]...) })
	add("coinbase-21-junk-prefix-r", true, func(m *bsctypes.Header) { m.Coinbase = append([]byte{0x77}, m.Coinbase...) })
	add("coinbase-19-r", true, func(m *bsctypes.Header) { m.Coinbase = m.Coinbase[1:] })
	add("seal-flip", false, func(m *bsctypes.Header) { m.Extra[len(m.Extra)-65+w.rnd.Intn(64)] ^= 0x01 })
	add("seal-v-27", false, func(m *bsctypes.Header) { m.Extra[len(m.Extra)-1] += 27 })
	add("seal-zero", false, func(m *bsctypes.Header) { copy(m.Extra[len(m.Extra)-65:], make([]byte, 65)) })
	add("seal-other-chain-id", false, func(m *bsctypes.Header) { c17Seal(m, k, sp.chainID+1) })
	{ // sealed by a key outside the validator set (coinbase = that key)
		var outsider *c17Key
		for i := range w.keys {
			if !c17In(w.keys[i].addr, sp.cur) {
				outsider = &w.keys[i]
				break
			}
		}
		if outsider != nil {
			for _, d := range []uint64{1, 2} {
				d, o := d, *outsider
				out = append(out, c17Variant{fmt.Sprintf("signer-outside-set-d%d", d), func() *bsctypes.Header {
					m := c17CopyHeader(h)
					m.Coinbase = append([]byte(nil), o.addr[:]...)
					m.Difficulty = d
					c17Seal(m, o, sp.chainID)
					return m
				}})
			}
			if c17In(outsider.addr, sp.pend) {
				w.rep.Count("variant:signer-in-pending-set-only")
			}
		}
	}

	// --- standalone fields
	both("root", func(m *bsctypes.Header) { m.Root[3] ^= 1 })
	both("time+1", func(m *bsctypes.Header) { m.Time++ })
	add("time-before-parent-r", true, func(m *bsctypes.Header) { m.Time = p.Time - 100 })
	add("txhash-u", false, func(m *bsctypes.Header) { m.TxHash[0] ^= 1 })
	add("bloom-u", false, func(m *bsctypes.Header) { m.Bloom[5] ^= 1 })
	both("mixdigest-nonzero", func(m *bsctypes.Header) { m.MixDigest[31] = 1 })
	add("mixdigest-33-hidden-r", true, func(m *bsctypes.Header) { m.MixDigest = append([]byte{1}, make([]byte, 32)...) })
	add("mixdigest-empty-r", true, func(m *bsctypes.Header) { m.MixDigest = nil })
	both("unclehash-wrong", func(m *bsctypes.Header) { m.UncleHash[0] ^= 0x80 })
	add("unclehash-empty-r", true, func(m *bsctypes.Header) { m.UncleHash = nil })
	add("unclehash-33-junk-prefix-r", true, func(m *bsctypes.Header) { m.UncleHash = append([]byte{9}, m.UncleHash...) })
	add("nonce-u", false, func(m *bsctypes.Header) { m.Nonce[0] ^= 1 })

	// --- extra-data
	resize := func(name string, extra func(vanity, vals, seal []byte) []byte) {
		add(name+"-r", true, func(m *bsctypes.Header) {
			e := m.Extra
			m.Extra = extra(e[:32], e[32:len(e)-65], e[len(e)-65:])
		})
	}
	cat := func(bs ...[]byte) []byte { return bytes.Join(bs, nil) }
	one := w.keys[w.rnd.Intn(len(w.keys))].addr
	resize("extra+1-validator", func(v, vs, s []byte) []byte { return cat(v, vs, one[:], s) })
	resize("extra+1-byte", func(v, vs, s []byte) []byte { return cat(v, vs, []byte{7}, s) })
	resize("extra+19-bytes", func(v, vs, s []byte) []byte { return cat(v, vs, one[:19], s) })
	resize("extra-no-validators", func(v, vs, s []byte) []byte { return cat(v, s) })
	if len(h.Extra) > 97+20 {
		resize("extra-1-validator", func(v, vs, s []byte) []byte { return cat(v, vs[:len(vs)-20], s) })
		resize("extra-1-byte", func(v, vs, s []byte) []byte { return cat(v, vs[:len(vs)-1], s) })
		resize("extra-duplicate-validator", func(v, vs, s []byte) []byte { return cat(v, vs, vs[:20], s) })
	}
	resize("extra-96", func(v, vs, s []byte) []byte { return cat(v[:31], s) })
	add("extra-64", false, func(m *bsctypes.Header) { m.Extra = m.Extra[:64] })
	add("extra-31", false, func(m *bsctypes.Header) { m.Extra = m.Extra[:31] })
	add("extra-empty", false, func(m *bsctypes.Header) { m.Extra = nil })
	add("vanity-u", false, func(m *bsctypes.Header) { m.Extra[0] ^= 1 })

	// --- oversize fields that make Header.Hash() of the NEXT update panic
	add("bloom-257-r", true, func(m *bsctypes.Header) { m.Bloom = make([]byte, 257) })
	add("nonce-9-r", true, func(m *bsctypes.Header) { m.Nonce = make([]byte, 9) })

	// --- recency window: sealed by the validator that sealed block num-d
	n := uint64(len(sp.cur))
	for _, d := range []uint64{1, 2, n / 2, n/2 + 1, n/2 + 2} {
		if d == 0 || d > num {
			continue
		}
		who, ok := sp.signerOf[num-d]
		if !ok || !c17In(who, sp.cur) || who == k.addr {
			continue
		}
		rel := "inside"
		if d > n/2 {
			rel = "outside"
		}
		out = append(out, c17Variant{fmt.Sprintf("sealed-by-signer-of-n-%s-window(d=limit%+d)", rel, int64(d)-int64(n/2+1)), func() *bsctypes.Header {
			m, _ := w.next(who, announce)
			return m
		}})
	}
	// --- every other member of the set, with both difficulties (turn-ness)
	for i, a := range sp.cur {
		if a == k.addr || (i > 3 && w.rnd.Intn(4) != 0) {
			continue
		}
		a := a
		out = append(out, c17Variant{"other-validator", func() *bsctypes.Header {
			m, _ := w.next(a, announce)
			return m
		}})
		out = append(out, c17Variant{"other-validator-difficulty-swap", func() *bsctypes.Header {
			m2, kk := w.next(a, announce)
			m2.Difficulty = 3 - m2.Difficulty
			c17Seal(m2, kk, sp.chainID)
			return m2
		}})
	}
	return out
}

// one block: optionally present corruptions of the valid header (never kept), then the valid header
// itself (kept).  frac = fraction of the variants presented (1 = all).
func (w *c17World) block(signer common.Address, announce [][]byte, frac float64) bool {
	h, k := w.next(signer, announce)
	if h.Difficulty == 2 {
		w.rep.Count("valid-header:in-turn")
	} else {
		w.rep.Count("valid-header:out-of-turn")
	}
	if frac > 0 {
		for _, v := range w.variants(h, k, announce) {
			if w.only != "" && !strings.HasPrefix(v.name, w.only) {
				continue
			}
			if frac < 1 && w.rnd.Float64() >= frac {
				continue
			}
			mode := "K"
			if w.rnd.Intn(3) == 0 {
				mode = "D"
			}
			w.present(v.name, mode, false, v.mk())
		}
		w.present("valid", "D", false, h)
	}
	return w.present("valid", "K", true, h)
}

func (w *c17World) pick(n int) []c17Key {
	perm := w.rnd.Perm(len(w.keys))
	out := make([]c17Key, n)
	for i := range out {
		out[i] = w.keys[perm[i]]
	}
	return out
}

// a set of size n sharing about half of its members with `old`
func (w *c17World) reshuffle(old [][]byte, n int) [][]byte {
	var out [][]byte
	seen := map[string]bool{}
	for _, i := range w.rnd.Perm(len(old)) {
		if len(out) < n/2 {
			out = append(out, old[i])
			seen[string(old[i])] = true
		}
	}
	for _, i := range w.rnd.Perm(len(w.keys)) {
		a := w.keys[i].addr
		if len(out) < n && !seen[string(a[:])] {
			out = append(out, append([]byte(nil), a[:]...))
			seen[string(a[:])] = true
		}
	}
	w.rnd.Shuffle(len(out), func(i, j int) { out[i], out[j] = out[j], out[i] })
	return out
}

// generic chain: client created at block start (an epoch block) with set size n0; at every epoch block
// the next size of `sizes` is announced; `blocks` blocks are appended
func (g *c17Gen) chainScenario(name string, r *rand.Rand, epoch, start uint64, n0 int, sizes []int, blocks int, frac float64, fullAt map[uint64]bool, real bool) {
	w := g.world(name, epoch, real, r)
	defer g.finish(w)
	set := c17Addrs(w.pick(n0))
	g.rep.Count(fmt.Sprintf("scenario:setsize:%d", n0))
	if !w.create(w.genesis(start, 30000000+uint64(r.Intn(1000000)), set), set, nil, c17Trusting) {
		return
	}
	if real {
		g.chain.NextBlock()
		g.chain.Coordinator.IncrementTime()
		w.ctx = g.chain.GetContext()
	}
	si := 0
	for i := 0; i < blocks; i++ {
		num := w.spec.latest.Height.RevisionHeight + 1
		var announce [][]byte
		if num%epoch == 0 {
			n := len(set)
			if si < len(sizes) {
				n = sizes[si]
				si++
			}
			set = w.reshuffle(set, n)
			announce = set
			g.rep.Count(fmt.Sprintf("scenario:setsize:%d", n))
		}
		f := frac
		if fullAt[num] {
			f = 1
		}
		if real {
			w.now = uint64(g.chain.ProposedHeader.Time.Unix())
		}
		if !w.block(common.Address{}, announce, f) {
			g.rep.Count("chain:stuck")
			return
		}
	}
}

// ---------------------------------------------------------------- directed families

func (g *c17Gen) directed() {
	r := newRand(1700)
	all := func(ns ...uint64) map[uint64]bool {
		m := map[uint64]bool{}
		for _, n := range ns {
			m[n] = true
		}
		return m
	}
	// every corruption at the first block, a plain block, an epoch block, the switch block and after
	g.chainScenario("directed/all-corruptions-N3-epoch4-from-0", r, 4, 0, 3, []int{3, 5}, 11, 0, all(1, 4, 5), false)
	g.chainScenario("directed/all-corruptions-N7-epoch8-from-8", r, 8, 8, 7, []int{4}, 13, 0, all(16, 19), false)
	// tracked from block 0 with a large set: the recent-signer rule below floor(N/2)+1 (known finding)
	g.chainScenario("directed/from-0-N5", r, 6, 0, 5, nil, 5, 0.05, all(2), false)
	g.chainScenario("directed/from-0-N21", r, 12, 0, 21, nil, 13, 0.05, all(11), false)
	g.growth(r)
	g.chainScenario("directed/shrink-9-to-3", r, 6, 6, 9, []int{3, 9}, 16, 0.05, all(16), false)
	g.chainScenario("directed/shrink-21-to-1", r, 12, 12, 21, []int{1, 2}, 30, 0.03, nil, false)
	g.chainScenario("directed/grow-1-to-21", r, 12, 12, 1, []int{21, 1}, 30, 0.03, all(25), false)
	g.chainScenario("directed/never-rotates-N21-epoch3", r, 3, 3, 21, []int{3, 4, 5}, 12, 0.05, nil, false)
	g.chainScenario("directed/empty-set-announced", r, 4, 4, 3, []int{0}, 8, 0.1, nil, false)
	// set sizes 1..21 with a change to another size
	for n := 1; n <= 21; n++ {
		epoch := uint64(12)
		if n <= 11 {
			epoch = 6
		}
		start := uint64(0)
		if n%2 == 0 {
			start = epoch
		}
		g.chainScenario(fmt.Sprintf("directed/size-%d-to-%d", n, 22-n), r, epoch, start, n, []int{22 - n}, int(epoch)+n/2+2, 0.01, nil, false)
	}
	g.gas(r)
	g.revisions(r)
	g.collisions(r)
	g.oddInitialSets(r)
	g.expired(r)
	g.oddStores(r)
	g.bricked(r)
	g.epochZero(r)
	g.genesisMismatch(r)
	// the same through real transactions (MsgUpdateClient, BaseApp)
	g.chainScenario("directed/msg-N3-epoch4", r, 4, 4, 3, []int{5}, 7, 0.03, nil, true)
	g.realInvalid(r)
}

// witness of the after-growth discrepancy: 3 -> 9 validators
func (g *c17Gen) growth(r *rand.Rand) {
	w := g.world("directed/growth-3-to-9-recent-signer", 4, false, r)
	defer g.finish(w)
	ks := w.pick(9)
	small := c17Addrs(ks[:3])
	big := c17Addrs(ks)
	if !w.create(w.genesis(4, 30000000, small), small, nil, c17Trusting) {
		return
	}
	A, B, C := ks[0].addr, ks[1].addr, ks[2].addr
	for _, s := range []common.Address{C, A, B, C, B} { // blocks 5..9; 8 announces the big set, in force after 9
		var ann [][]byte
		if (w.spec.latest.Height.RevisionHeight+1)%4 == 0 {
			ann = big
		}
		if !w.block(s, ann, 0) {
			g.rep.Count("chain:stuck")
			return
		}
	}
	// block 10 sealed by A, who sealed block 6 (one of the preceding floor(9/2)=4 blocks)
	h, _ := w.next(A, nil)
	w.present("sealed-by-signer-of-n-4-after-growth", "D", false, h)
	w.present("sealed-by-signer-of-n-4-after-growth", "K", false, h)
	for i := 0; i < 6; i++ {
		w.block(common.Address{}, big, 0.1)
	}
}

func (g *c17Gen) gas(r *rand.Rand) {
	for _, c := range []struct {
		name   string
		gas    uint64
		exempt bool
	}{
		{"gas-at-cap", 0x7fffffffffffffff - 1000, false}, {"gas-at-min", 5009, false}, {"gas-min-exact", 5000, false},
		{"gas-parent-below-256", 200, false}, {"gas-parent-256", 256, false}, {"gas-parent-511", 511, false},
		{"gas-parent-2^63", 0x8000000000000000, true}, {"gas-parent-2^64-1", 0xffffffffffffffff, true},
		{"gas-parent-2^63+2^40", 0x8000010000000000, true},
	} {
		w := g.world("directed/"+c.name, 5, false, r)
		w.exempt = c.exempt
		w.only = "gas"
		set := c17Addrs(w.pick(4))
		if w.create(w.genesis(5, c.gas, set), set, nil, c17Trusting) {
			for i := 0; i < 4; i++ {
				if c.exempt { // int64 wrap of the parent's gas limit: which gas limits are accepted?
					h, k := w.next(common.Address{}, set)
					for _, gl := range []uint64{5000, 1 << 40, 1 << 55, 1<<56 - 2, 1<<56 - 1, 1 << 56, 1<<63 - 1, c.gas, c.gas - 1, c.gas - 1<<40} {
						m := c17CopyHeader(h)
						m.GasLimit, m.GasUsed = gl, 0
						c17Seal(m, k, w.spec.chainID)
						w.present("gaslimit-vs-wrapped-parent", "D", false, m)
						w.present("gaslimit-vs-wrapped-parent", "K", false, m)
					}
				}
				if !w.block(common.Address{}, set, 1) {
					break
				}
			}
		}
		g.finish(w)
	}
}

// the revision number of a header is covered by neither hash nor seal
func (g *c17Gen) revisions(r *rand.Rand) {
	w := g.world("directed/revision-number-changes", 6, false, r)
	defer g.finish(w)
	set := c17Addrs(w.pick(7))
	if !w.create(w.genesis(6, 30000000, set), set, nil, c17Trusting) {
		return
	}
	for i := 0; i < 20; i++ {
		h, k := w.next(common.Address{}, set)
		h.Height.RevisionNumber = uint64([]int{0, 3, 3, 10, 9, 0, 0, 7}[i%8])
		if i%5 == 4 {
			for _, v := range w.variants(h, k, set) {
				if w.rnd.Intn(6) == 0 {
					w.present(v.name, "K", false, v.mk())
				}
			}
		}
		w.present("valid-in-other-revision", "D", false, h)
		if !w.present("valid-in-other-revision", "K", true, h) {
			return
		}
	}
}

// initial recent signers whose store keys collide on the revision height (snapshot() keeps the entry
// with the greatest key), stale and future entries
func (g *c17Gen) collisions(r *rand.Rand) {
	for v := 0; v < 6; v++ {
		w := g.world(fmt.Sprintf("directed/initial-recents-%d", v), 10, false, r)
		w.exempt = true
		ks := w.pick(5)
		set := c17Addrs(ks)
		sg := func(rev, h uint64, k int) bsctypes.Signer {
			return bsctypes.Signer{Height: clienttypes.NewHeight(rev, h), Validator: append([]byte(nil), ks[k].addr[:]...)}
		}
		var rs []bsctypes.Signer
		switch v {
		case 0: // keys "0-19" < "10-19" < "5-19" < "9-19": the last one counts
			rs = []bsctypes.Signer{sg(0, 19, 0), sg(5, 19, 1), sg(10, 19, 2), sg(9, 19, 3)}
		case 1:
			rs = []bsctypes.Signer{sg(9, 19, 0), sg(10, 19, 1), sg(100, 19, 2), sg(0, 18, 3)}
		case 2: // same key twice: the later write wins; a future entry; an old entry
			rs = []bsctypes.Signer{sg(0, 19, 0), sg(0, 19, 1), sg(0, 25, 2), sg(0, 3, 3)}
		case 3: // plain, the honest window
			rs = []bsctypes.Signer{sg(0, 18, 0), sg(0, 19, 1), sg(0, 20, 2)}
			w.exempt = false
		case 4: // validator bytes longer than an address (BytesToAddress crops from the left)
			s := sg(0, 20, 0)
			s.Validator = append([]byte{1, 2, 3}, s.Validator...)
			rs = []bsctypes.Signer{s, sg(2, 20, 1)}
		case 5: // entry far in the future: uint64 comparison against number-limit
			rs = []bsctypes.Signer{sg(0, 1<<62, 0), sg(1<<40, 20, 1), sg(18446744073709551615, 19, 2)}
		}
		if w.create(w.genesis(20, 30000000, set), set, rs, c17Trusting) {
			for i := 0; i < 5; i++ {
				for _, k := range ks { // every member of the set presented as sealer
					h, _ := w.next(k.addr, set)
					w.present("sealed-by-each-member", "D", false, h)
					w.present("sealed-by-each-member", "K", false, h)
				}
				// a member that the real client accepts
				ok := false
				for _, j := range w.rnd.Perm(len(ks)) {
					h, _ := w.next(ks[j].addr, set)
					if w.present("valid", "K", true, h) {
						ok = true
						break
					}
				}
				if !ok {
					break
				}
			}
		}
		g.finish(w)
	}
}

// initial validator lists with duplicates / over-long entries / different from the announced set
func (g *c17Gen) oddInitialSets(r *rand.Rand) {
	for v := 0; v < 6; v++ {
		w := g.world(fmt.Sprintf("directed/initial-validators-%d", v), 6, false, r)
		ks := w.pick(12)
		set := c17Addrs(ks[:5])
		vals := set
		announced := set
		switch v {
		case 0: // duplicates: len(Validators) = 8 but 5 distinct
			w.exempt = true
			vals = append(append([][]byte{}, set...), set[0], set[1], set[0])
		case 1: // 23-byte entries
			w.exempt = true
			vals = nil
			for _, a := range set {
				vals = append(vals, append([]byte{9, 9, 9}, a...))
			}
		case 2: // validators differ from the set announced by the initial header (N0/2 = 2: switch at start+2)
			announced = c17Addrs(ks[3:8])
		case 3: // single validator, other set announced by the initial header: that announcement is dropped
			vals = c17Addrs(ks[:1])
			announced = c17Addrs(ks[2:6])
		case 4: // duplicates announced at an epoch block
			w.exempt = true
		case 5: // nine validators in force; three distinct ones announced nine times over
			w.exempt = true
			vals = c17Addrs(ks[:9])
			set = vals
			announced = vals
		}
		if w.create(w.genesis(6, 30000000, announced), vals, nil, c17Trusting) {
			for i := 0; i < 14; i++ {
				num := w.spec.latest.Height.RevisionHeight + 1
				ann := announced
				if v == 4 && num%6 == 0 {
					ann = append(append([][]byte{}, announced...), announced[0], announced[1], announced[2], announced[0])
				}
				if v == 5 && num%6 == 0 {
					ann = [][]byte{vals[0], vals[1], vals[2], vals[0], vals[1], vals[2], vals[0], vals[1], vals[2]}
				}
				h, _ := w.next(common.Address{}, ann)
				if w.exempt { // choose a sealer the real client accepts
					for _, k := range ks {
						hh, _ := w.next(k.addr, ann)
						if w.present("sealed-by-each-key", "D", false, hh) {
							h = hh
						}
					}
				}
				w.present("valid", "D", false, h)
				if !w.present("valid", "K", true, h) {
					break
				}
			}
		}
		g.finish(w)
	}
}

// expired client: keeper.UpdateClient refuses, the direct call does not look at the status
func (g *c17Gen) expired(r *rand.Rand) {
	for _, tr := range []uint64{10, 0, 1 << 63} {
		w := g.world(fmt.Sprintf("directed/trusting-period-%d", tr), 6, false, r)
		set := c17Addrs(w.pick(3))
		gh := w.genesis(6, 30000000, set)
		if tr == 1<<63 {
			gh.Time = 1<<63 + 5 // Timestamp + TrustingPeriod wraps
		}
		if w.create(gh, set, nil, tr) {
			for _, now := range []uint64{w.now, gh.Time + tr, gh.Time + tr + 1, gh.Time + tr - 1, 5, 4} {
				w.now = now
				h, _ := w.next(common.Address{}, set)
				w.present("valid-at-time", "D", false, h)
				w.present("valid-at-time", "K", false, h)
			}
		}
		g.finish(w)
	}
}

// client states that only a genesis import / upgrade can produce: no consensus state for the latest
// height (Status Unknown, GetConsensusState fails); no pending-validators key at the switch block
func (g *c17Gen) oddStores(r *rand.Rand) {
	for v := 0; v < 2; v++ {
		w := g.world(fmt.Sprintf("directed/odd-store-%d", v), 6, false, r)
		w.exempt = true
		set := c17Addrs(w.pick(3))
		gh := w.genesis(6, 30000000, set)
		if w.create(gh, set, nil, c17Trusting) {
			store := w.keeper.ClientStore(w.ctx, w.name)
			if v == 0 {
				store.Delete(host.ConsensusStateKey(gh.Height))
			} else {
				store.Delete([]byte(bsctypes.PrefixPendingValidators))
			}
			w.pool, w.table = map[string]uint64{}, nil
			w.init = w.stateTerm()
			for i := 0; i < 4; i++ {
				h, _ := w.next(common.Address{}, set)
				w.present("valid-on-odd-store", "D", false, h)
				if !w.present("valid-on-odd-store", "K", true, h) {
					break
				}
			}
		}
		g.finish(w)
	}
}

// an accepted header whose bloom/nonce is too long makes Header.Hash() panic on the next update
func (g *c17Gen) bricked(r *rand.Rand) {
	for v := 0; v < 2; v++ {
		w := g.world(fmt.Sprintf("directed/oversize-field-accepted-%d", v), 6, false, r)
		set := c17Addrs(w.pick(3))
		if w.create(w.genesis(6, 30000000, set), set, nil, c17Trusting) {
			w.block(common.Address{}, set, 0)
			h, k := w.next(common.Address{}, set)
			if v == 0 {
				h.Bloom = make([]byte, 300)
			} else {
				h.Nonce = make([]byte, 12)
			}
			c17Seal(h, k, w.spec.chainID)
			w.present("oversize-field", "D", false, h)
			if w.present("oversize-field", "K", true, h) {
				for i := 0; i < 3; i++ {
					n, _ := w.next(common.Address{}, set)
					w.present("child-of-unhashable-header", "D", false, n)
					w.present("child-of-unhashable-header", "K", true, n)
				}
			}
		}
		g.finish(w)
	}
}

// a client state with epoch 0 (only reachable through genesis import / upgrade): division by zero
func (g *c17Gen) epochZero(r *rand.Rand) {
	w := g.world("directed/epoch-0", 0, false, r)
	defer g.finish(w)
	set := c17Addrs(w.pick(3))
	gh := w.genesis(6, 30000000, set)
	if w.create(gh, set, nil, c17Trusting) {
		g.rep.Fail("C17:epoch-0-created", "CreateClient accepted a client state with epoch 0", nil)
		return
	}
	w.exempt = true
	cs := &bsctypes.ClientState{Header: *gh, ChainId: w.spec.chainID, Epoch: 0, BlockInteval: 3, Validators: set,
		ContractAddress: make([]byte, 20), TrustingPeriod: c17Trusting}
	w.keeper.SetClientState(w.ctx, w.name, cs)
	w.keeper.SetClientConsensusState(w.ctx, w.name, gh.Height, &bsctypes.ConsensusState{Timestamp: gh.Time, Number: gh.Height, Root: gh.Root})
	w.consHeights = []clienttypes.Height{gh.Height}
	w.init = w.stateTerm()
	w.spec.epoch = 1 // only used to build headers
	w.spec.latest, w.spec.cur = c17CopyHeader(gh), c17SortedSet(set)
	for i := 0; i < 3; i++ {
		h, _ := w.next(common.Address{}, nil)
		w.present("epoch-0-client", "D", false, h)
		w.present("epoch-0-client", "K", false, h)
	}
}

// CreateClient refuses an initial header that is not an epoch block
func (g *c17Gen) genesisMismatch(r *rand.Rand) {
	w := g.world("directed/create-at-non-epoch-block", 6, false, r)
	set := c17Addrs(w.pick(3))
	if w.create(w.genesis(7, 30000000, set), set, nil, c17Trusting) {
		g.rep.Fail("C17:create-at-non-epoch-block", "CreateClient accepted an initial header that is not an epoch block", nil)
	}
}

// invalid headers through real transactions
func (g *c17Gen) realInvalid(r *rand.Rand) {
	w := g.world("directed/msg-invalid-headers", 4, true, r)
	defer g.finish(w)
	set := c17Addrs(w.pick(4))
	if !w.create(w.genesis(8, 30000000, set), set, nil, c17Trusting) {
		return
	}
	g.chain.NextBlock()
	g.chain.Coordinator.IncrementTime()
	w.ctx = g.chain.GetContext()
	for i := 0; i < 5; i++ {
		h, k := w.next(common.Address{}, set)
		vs := w.variants(h, k, set)
		for _, j := range w.rnd.Perm(len(vs))[:5] {
			w.now = uint64(g.chain.ProposedHeader.Time.Unix())
			w.present(vs[j].name, "K", true, vs[j].mk()) // a real transaction; kept if the client accepts it
			if !bytes.Equal(w.spec.latest.Extra, h.Extra) && w.spec.latest.Height.RevisionHeight == h.Height.RevisionHeight {
				break // a variant was accepted and is now the latest header
			}
		}
		if w.spec.latest.Height.RevisionHeight == h.Height.RevisionHeight {
			continue
		}
		w.now = uint64(g.chain.ProposedHeader.Time.Unix())
		if !w.present("valid", "K", true, h) {
			return
		}
	}
}

// ---------------------------------------------------------------- seeded random chains

func (g *c17Gen) random() {
	n := 16
	if envTier() == "thorough" {
		n = 800
	}
	for i := 0; i < n; i++ {
		r := newRand(1710 + int64(i))
		epoch := uint64(2 + r.Intn(11))
		start := epoch * uint64(r.Intn(4))
		n0 := 1 + r.Intn(21)
		if r.Intn(3) == 0 {
			n0 = 1 + r.Intn(5)
		}
		var sizes []int
		for j := 0; j < 8; j++ {
			s := 1 + r.Intn(21)
			if r.Intn(3) == 0 {
				s = 1 + r.Intn(4)
			}
			sizes = append(sizes, s)
		}
		blocks := 15 + r.Intn(20)
		frac := 0.015
		if i%4 == 3 { // the malformed stream: many corruptions per block
			frac = 0.1
			blocks = 8
		}
		g.chainScenario(fmt.Sprintf("random/%d", i), r, epoch, start, n0, sizes, blocks, frac, nil, i%8 == 5)
	}
}
