package harness

// C20 — state transitions are deterministic.
//
// (1) map-iteration sites: the real snapshot.validators()/inturn() of the BSC client on
//     validator sets in arbitrary order against the model (Determinism/Perm.v).
// (2) twin replay: every chain of a history is recorded at the ABCI boundary (genesis
//     inputs, every FinalizeBlock request with its raw transaction bytes, and the direct
//     keeper writes of the harness).  A second application is built from the same genesis
//     and fed the same requests; every block's response (transaction results, events, gas,
//     validator updates) and application hash must be byte-identical.
// (3) the same replay once more in a fresh process with another GOMAXPROCS, GC setting,
//     time zone, working directory, HOME and an unusable TMPDIR.

import (
	"bytes"
	"context"
	"crypto/sha256"
	"encoding/hex"
	"encoding/json"
	"fmt"
	"math/rand"
	"os"
	"os/exec"
	"path/filepath"
	"sort"
	"strings"
	"testing"
	"time"

	"cosmossdk.io/log"
	storetypes "cosmossdk.io/store/types"
	abci "github.com/cometbft/cometbft/abci/types"
	cmtproto "github.com/cometbft/cometbft/proto/tendermint/types"
	cmttypes "github.com/cometbft/cometbft/types"
	dbm "github.com/cosmos/cosmos-db"
	"github.com/cosmos/cosmos-sdk/baseapp"
	"github.com/cosmos/cosmos-sdk/crypto/keys/secp256k1"
	sdk "github.com/cosmos/cosmos-sdk/types"
	authtypes "github.com/cosmos/cosmos-sdk/x/auth/types"
	banktypes "github.com/cosmos/cosmos-sdk/x/bank/types"

	sdkmath "cosmossdk.io/math"

	clienttypes "github.com/bianjieai/tibc-go/modules/tibc/core/02-client/types"
	packettypes "github.com/bianjieai/tibc-go/modules/tibc/core/04-packet/types"
	"github.com/bianjieai/tibc-go/modules/tibc/core/exported"
	bsctypes "github.com/bianjieai/tibc-go/modules/tibc/light-clients/08-bsc/types"
	ethtypes "github.com/bianjieai/tibc-go/modules/tibc/light-clients/09-eth/types"
	tibctesting "github.com/bianjieai/tibc-go/modules/tibc/testing"
	"github.com/bianjieai/tibc-go/simapp"
)

// ---- recording ---------------------------------------------------------------------------

type c20Entry struct {
	Kind   string            `json:"kind"` // "block" | direct-write kinds
	Header []byte            `json:"header,omitempty"`
	Data   map[string][]byte `json:"data,omitempty"`
	Req    []byte            `json:"req,omitempty"`
	Digest string            `json:"digest,omitempty"` // sha256 of the marshalled ResponseFinalizeBlock of the original run
	Res    []byte            `json:"-"`                // the response itself (kept in memory for the replay report)
	NTx    int               `json:"ntx,omitempty"`
}

type c20Log struct {
	ChainID  string     `json:"chain_id"`
	ValSet   []byte     `json:"valset"`
	Accounts [][]byte   `json:"accounts"`
	Block1   int64      `json:"block1_time_ns"`
	Entries  []c20Entry `json:"entries"`
}

type c20Listener struct{ log *c20Log }

func c20Digest(res *abci.ResponseFinalizeBlock) string {
	bz, err := res.Marshal()
	if err != nil {
		panic(err)
	}
	s := sha256.Sum256(bz)
	return hex.EncodeToString(s[:])
}

func (l *c20Listener) ListenFinalizeBlock(_ context.Context, req abci.RequestFinalizeBlock, res abci.ResponseFinalizeBlock) error {
	bz, err := req.Marshal()
	if err != nil {
		return err
	}
	rb, _ := res.Marshal()
	l.log.Entries = append(l.log.Entries, c20Entry{Kind: "block", Req: bz, Digest: c20Digest(&res), NTx: len(req.Txs), Res: rb})
	return nil
}

func (l *c20Listener) ListenCommit(context.Context, abci.ResponseCommit, []*storetypes.StoreKVPair) error {
	return nil
}

type c20Recorder struct {
	logs  map[string]*c20Log
	order []string
}

func newC20Recorder() *c20Recorder { return &c20Recorder{logs: map[string]*c20Log{}} }

func (r *c20Recorder) install() {
	chainHook = func(c *tibctesting.TestChain) {
		vp, err := c.Vals.ToProto()
		if err != nil {
			panic(err)
		}
		vbz, _ := vp.Marshal()
		lg := &c20Log{ChainID: c.ChainID, ValSet: vbz, Block1: c.LastHeader.GetTime().UnixNano()}
		for _, a := range c.SenderAccounts {
			lg.Accounts = append(lg.Accounts, a.SenderPrivKey.PubKey().Bytes())
		}
		// logs are keyed by the application instance: several histories reuse chain ids
		key := fmt.Sprintf("%s#%d", c.ChainID, len(r.order))
		r.logs[key] = lg
		r.order = append(r.order, key)
		c.App.SetStreamingManager(storetypes.StreamingManager{ABCIListeners: []storetypes.ABCIListener{&c20Listener{lg}}})
		c20Keys[c] = key
	}
	directHook = func(c *tibctesting.TestChain, kind string, data map[string][]byte) {
		hb, _ := c.ProposedHeader.Marshal()
		lg := r.logs[c20Keys[c]]
		lg.Entries = append(lg.Entries, c20Entry{Kind: kind, Header: hb, Data: data})
	}
}

func (r *c20Recorder) uninstall() { chainHook, directHook = nil, nil }

var c20Keys = map[*tibctesting.TestChain]string{}

// ---- replay ----------------------------------------------------------------------------------

// c20Replay builds a fresh application from the recorded genesis inputs, applies the recorded
// direct writes and blocks, and returns the digest of every block's response
// restartEvery > 0: after every restartEvery-th block the application object is thrown away and a
// new one is started on the same database, as a node restart does: nothing a state transition
// needs may live in process memory only
func c20Replay(t *testing.T, lg *c20Log, restartEvery int) ([]string, error) {
	var vp cmtproto.ValidatorSet
	if err := vp.Unmarshal(lg.ValSet); err != nil {
		return nil, err
	}
	valSet, err := cmttypes.ValidatorSetFromProto(&vp)
	if err != nil {
		return nil, err
	}
	var genAccs []authtypes.GenesisAccount
	var bals []banktypes.Balance
	for i, pkb := range lg.Accounts {
		pk := &secp256k1.PubKey{Key: pkb}
		acc := authtypes.NewBaseAccount(pk.Address().Bytes(), pk, uint64(i), 0)
		amount, _ := sdkmath.NewIntFromString("10000000000000000000")
		genAccs = append(genAccs, acc)
		bals = append(bals, banktypes.Balance{Address: acc.GetAddress().String(), Coins: sdk.NewCoins(sdk.NewCoin(sdk.DefaultBondDenom, amount))})
	}
	var db dbm.DB
	newApp := func() *simapp.SimApp {
		return simapp.NewSimApp(log.NewNopLogger(), db, nil, true, simapp.EmptyAppOptions{}, baseapp.SetChainID(lg.ChainID))
	}
	saveInit := tibctesting.DefaultTestingAppInit
	tibctesting.DefaultTestingAppInit = func(chainID string) (*simapp.SimApp, map[string]json.RawMessage) {
		db = dbm.NewMemDB()
		a := newApp()
		return a, simapp.NewDefaultGenesisState(a.AppCodec())
	}
	app := tibctesting.SetupWithGenesisValSet(t, valSet, genAccs, lg.ChainID, sdk.DefaultPowerReduction, bals...)
	tibctesting.DefaultTestingAppInit = saveInit
	nblk := 0
	// the genesis block, as NewTestChainWithValSet commits it
	if _, err := app.FinalizeBlock(&abci.RequestFinalizeBlock{Height: 1, Time: time.Unix(0, lg.Block1).UTC(), NextValidatorsHash: valSet.Hash()}); err != nil {
		return nil, err
	}
	if _, err := app.Commit(); err != nil {
		return nil, err
	}
	var out []string
	for _, e := range lg.Entries {
		if e.Kind == "block" {
			var req abci.RequestFinalizeBlock
			if err := req.Unmarshal(e.Req); err != nil {
				return nil, err
			}
			res, err := app.FinalizeBlock(&req)
			if err != nil {
				return nil, err
			}
			out = append(out, c20Digest(res))
			if e.Res != nil && c20Digest(res) != e.Digest && c20FirstDivergence == "" {
				var orig abci.ResponseFinalizeBlock
				_ = orig.Unmarshal(e.Res)
				c20FirstDivergence = c20Describe(&orig, res)
			}
			if _, err := app.Commit(); err != nil {
				return nil, err
			}
			nblk++
			if restartEvery > 0 && nblk%restartEvery == 0 {
				app = newApp()
			}
			continue
		}
		var hdr cmtproto.Header
		if err := hdr.Unmarshal(e.Header); err != nil {
			return nil, err
		}
		if err := c20ApplyDirect(app, app.BaseApp.NewUncachedContext(false, hdr), e); err != nil {
			return nil, fmt.Errorf("direct write %s: %w", e.Kind, err)
		}
	}
	return out, nil
}

func c20ApplyDirect(app *simapp.SimApp, ctx sdk.Context, e c20Entry) error {
	ck := app.TIBCKeeper.ClientKeeper
	switch e.Kind {
	case "chainname":
		ck.SetChainName(ctx, string(e.Data["name"]))
	case "create":
		cs, err := clienttypes.UnmarshalClientState(app.AppCodec(), e.Data["client"])
		if err != nil {
			return err
		}
		cons, err := clienttypes.UnmarshalConsensusState(app.AppCodec(), e.Data["cons"])
		if err != nil {
			return err
		}
		rl := []string{string(e.Data["relayer"])}
		if bz, ok := e.Data["relayers"]; ok {
			rl = nil
			if err := json.Unmarshal(bz, &rl); err != nil {
				return err
			}
		}
		ck.RegisterRelayers(ctx, string(e.Data["name"]), rl)
		return ck.CreateClient(ctx, string(e.Data["name"]), cs, cons)
	case "setrules":
		var rules []string
		if err := json.Unmarshal(e.Data["rules"], &rules); err != nil {
			return err
		}
		cctx, write := ctx.CacheContext()
		if err := app.TIBCKeeper.RoutingKeeper.SetRoutingRules(cctx, rules); err != nil {
			return err
		}
		write()
	case "send":
		var p packettypes.Packet
		if err := p.Unmarshal(e.Data["packet"]); err != nil {
			return err
		}
		cctx, write := ctx.CacheContext()
		cctx = cctx.WithEventManager(sdk.NewEventManager())
		if err := app.TIBCKeeper.PacketKeeper.SendPacket(cctx, p); err != nil {
			return err
		}
		write()
	default:
		return fmt.Errorf("unknown direct write kind %q", e.Kind)
	}
	return nil
}

// description of the first diverging block seen by an in-process replay (for the replay file)
var c20FirstDivergence string

func c20Describe(a, b *abci.ResponseFinalizeBlock) string {
	if len(a.TxResults) == len(b.TxResults) {
		for i := range a.TxResults {
			x, _ := a.TxResults[i].Marshal()
			y, _ := b.TxResults[i].Marshal()
			if !bytes.Equal(x, y) {
				d := fmt.Sprintf("tx %d: original code=%d gas=%d/%d log=%q events=%d data=%x / replay code=%d gas=%d/%d log=%q events=%d data=%x", i,
					a.TxResults[i].Code, a.TxResults[i].GasUsed, a.TxResults[i].GasWanted, a.TxResults[i].Log, len(a.TxResults[i].Events), a.TxResults[i].Data,
					b.TxResults[i].Code, b.TxResults[i].GasUsed, b.TxResults[i].GasWanted, b.TxResults[i].Log, len(b.TxResults[i].Events), b.TxResults[i].Data)
				for j := 0; j < len(a.TxResults[i].Events) && j < len(b.TxResults[i].Events); j++ {
					if ea, eb := a.TxResults[i].Events[j].String(), b.TxResults[i].Events[j].String(); ea != eb {
						d += fmt.Sprintf(" ; event %d: %s / %s", j, ea, eb)
						break
					}
				}
				return d
			}
		}
	}
	for j := 0; j < len(a.Events) && j < len(b.Events); j++ {
		if ea, eb := a.Events[j].String(), b.Events[j].String(); ea != eb {
			return fmt.Sprintf("block event %d: %s / %s", j, ea, eb)
		}
	}
	return fmt.Sprintf("original: %d tx results, %d events, app hash %x / replay: %d tx results, %d events, app hash %x",
		len(a.TxResults), len(a.Events), a.AppHash, len(b.TxResults), len(b.Events), b.AppHash)
}

func c20Original(lg *c20Log) []string {
	var out []string
	for _, e := range lg.Entries {
		if e.Kind == "block" {
			out = append(out, e.Digest)
		}
	}
	return out
}

// first index at which two digest lists differ (-1: equal)
func c20FirstDiff(a, b []string) int {
	for i := 0; i < len(a) && i < len(b); i++ {
		if a[i] != b[i] {
			return i
		}
	}
	if len(a) != len(b) {
		if len(a) < len(b) {
			return len(a)
		}
		return len(b)
	}
	return -1
}

// ---- EVM-client history (recorded BSC and ETH mainnet headers through MsgUpdateClient) --------

func c20RepoPath(rel string) string {
	root := os.Getenv("VERIF_REPO")
	if root == "" {
		root = "/repo"
	}
	return filepath.Join(root, rel)
}

type c20BscGenesis struct {
	GenesisHeader          *bsctypes.BscHeader `json:"genesis_header"`
	GenesisValidatorHeader *bsctypes.BscHeader `json:"genesis_validator_header"`
}

// c20EvmHistory: one chain tracking BSC and Ethereum mainnet with the repository's recorded
// headers; nBsc / nEth header updates are sent as signed MsgUpdateClient transactions
// (the ETH ones run the real ethash verification)
func c20EvmHistory(t *testing.T, nBsc, nEth int) (accepted, rejected int) {
	h := newNetH(t, 1)
	c := h.chains[0]
	var bg c20BscGenesis
	bz, err := os.ReadFile(c20RepoPath("modules/tibc/light-clients/08-bsc/types/testdata/genesis_state.json"))
	if err != nil {
		t.Fatal(err)
	}
	if err := json.Unmarshal(bz, &bg); err != nil {
		t.Fatal(err)
	}
	var bscUpd []*bsctypes.BscHeader
	bz, _ = os.ReadFile(c20RepoPath("modules/tibc/light-clients/08-bsc/types/testdata/update_headers.json"))
	if err := json.Unmarshal(bz, &bscUpd); err != nil {
		t.Fatal(err)
	}
	var ethUpd []*ethtypes.EthHeader
	bz, _ = os.ReadFile(c20RepoPath("modules/tibc/light-clients/09-eth/types/testdata/update_headers.json"))
	if err := json.Unmarshal(bz, &ethUpd); err != nil {
		t.Fatal(err)
	}
	// bring the chain's clock past the newest recorded header
	newest := ethUpd[len(ethUpd)-1].Time
	for _, u := range bscUpd {
		if u.Time > newest {
			newest = u.Time
		}
	}
	if d := time.Unix(int64(newest), 0).Sub(h.coord.CurrentTime); d > 0 {
		h.coord.IncrementTimeBy(d + time.Hour)
	}
	h.commit(0)
	relayer := c.SenderAccount.GetAddress().String()
	create := func(name string, cs exported.ClientState, cons exported.ConsensusState) {
		h.coord.UpdateTimeForChain(c)
		ctx := c.GetContext()
		// a relayer list with several distinct addresses and a repeated one (legal: only address validity is
		// checked): the stored record, hence the application hash, must not depend on anything but the list
		rl := []string{relayer}
		for k := 1; k < len(c.SenderAccounts) && k <= 6; k++ {
			rl = append(rl, c.SenderAccounts[k].SenderAccount.GetAddress().String())
		}
		rl = append(rl, relayer)
		c.App.TIBCKeeper.ClientKeeper.RegisterRelayers(ctx, name, rl)
		if err := c.App.TIBCKeeper.ClientKeeper.CreateClient(ctx, name, cs, cons); err != nil {
			t.Fatal(err)
		}
		rlb, _ := json.Marshal(rl)
		callDirect(c, "create", map[string][]byte{"name": []byte(name), "relayer": []byte(relayer), "relayers": rlb,
			"client": clienttypes.MustMarshalClientState(c.App.AppCodec(), cs), "cons": clienttypes.MustMarshalConsensusState(c.App.AppCodec(), cons)})
		h.commit(0)
	}
	// BSC client as the repository's own test builds it (through Initialize instead of SetPendingValidators)
	bh := bg.GenesisHeader.ToHeader()
	genVals, err := bsctypes.ParseValidators(bg.GenesisValidatorHeader.Extra)
	if err != nil {
		t.Fatal(err)
	}
	create("bsc-mainnet", &bsctypes.ClientState{Header: bh, ChainId: 56, Epoch: 200, BlockInteval: 3, Validators: genVals,
		ContractAddress: []byte("0x00"), TrustingPeriod: 1 << 40},
		&bsctypes.ConsensusState{Timestamp: bh.Time, Number: bh.Height, Root: bh.Root})
	eh := ethUpd[0].ToHeader()
	create("eth-mainnet", &ethtypes.ClientState{Header: eh, ChainId: 1, ContractAddress: []byte("0x00"), TrustingPeriod: 1 << 40, TimeDelay: 0, BlockDelay: 1},
		&ethtypes.ConsensusState{Timestamp: eh.Time, Number: eh.Height, Root: eh.Root})
	send := func(name string, hdr exported.Header) {
		msg, err := clienttypes.NewMsgUpdateClient(name, hdr, c.SenderAccount.GetAddress())
		if err != nil {
			t.Fatal(err)
		}
		if ok, _, e := h.deliver(0, msg); ok {
			accepted++
		} else {
			rejected++
			if os.Getenv("VERIF_C20_DEBUG") != "" {
				t.Log(name, e)
			}
		}
	}
	for i := 0; i < nBsc && i < len(bscUpd); i++ {
		hd := bscUpd[i].ToHeader()
		send("bsc-mainnet", &hd)
		if i == 2 { // a replayed header and a header for the wrong client
			send("bsc-mainnet", &hd)
			send("eth-mainnet", &hd)
		}
	}
	for i := 1; i <= nEth && i < len(ethUpd); i++ {
		hd := ethUpd[i].ToHeader()
		send("eth-mainnet", &hd)
	}
	if nEth > 0 {
		hd := ethUpd[1].ToHeader()
		send("eth-mainnet", &hd) // duplicate
		bad := ethUpd[nEth+1].ToHeader() // child of the newest stored header
		bad.Nonce++
		send("eth-mainnet", &bad) // broken seal
	}
	return
}

// c20Discarded: keeper write entry points are called on a branch of the state that is then thrown
// away — what x/gov does when a later message of a passed proposal fails, what BaseApp does for a
// transaction whose later message fails — interleaved with traffic that depends on the same state.
// The discarded calls are NOT recorded, so the twin never sees them: any trace they leave in the
// original process (an in-memory cache, a package variable) shows up as a divergence.
func c20Discarded(t *testing.T) {
	h := newNetH(t, 3)
	mesh(h)
	A, B, C := h.names[0], h.names[1], h.names[2]
	discard := func(i int, f func(ctx sdk.Context)) {
		h.coord.UpdateTimeForChain(h.chains[i])
		ctx, _ := h.chains[i].GetContext().CacheContext()
		f(ctx.WithEventManager(sdk.NewEventManager()))
		// the branch is dropped
	}
	k1 := h.chains[1].App.TIBCKeeper
	h.SetRules(1, []string{A + "," + C + ",nosuchport"})
	discard(1, func(ctx sdk.Context) { _ = k1.RoutingKeeper.SetRoutingRules(ctx, []string{"*,*,*"}) })
	p1 := h.sendOK(0, Pkt{1, A, C, B, "tibcmock", "via-relay-1"})
	h.hopRecv(1, 0, p1) // the whitelist in force does not allow it: error acknowledgement
	discard(1, func(ctx sdk.Context) { _ = k1.RoutingKeeper.SetRoutingRules(ctx, nil) })
	h.SetRules(1, []string{"*,*,*"})
	discard(1, func(ctx sdk.Context) { _ = k1.RoutingKeeper.SetRoutingRules(ctx, []string{"a,b,c"}) })
	p2 := h.sendOK(0, Pkt{2, A, C, B, "tibcmock", "via-relay-2"})
	h.hopRecv(1, 0, p2) // allowed: forwarded
	// relayer registry and client registry
	discard(1, func(ctx sdk.Context) {
		k1.ClientKeeper.RegisterRelayers(ctx, A, []string{h.chains[1].SenderAccounts[2].SenderAccount.GetAddress().String()})
	})
	h.UpdateClient(1, 0)
	discard(1, func(ctx sdk.Context) { k1.ClientKeeper.SetChainName(ctx, "someoneelse") })
	p3 := h.sendOK(0, Pkt{3, A, B, "", "tibcmock", "direct-3"})
	h.hopRecv(1, 0, p3)
	// packet keeper
	discard(0, func(ctx sdk.Context) {
		_ = h.chains[0].App.TIBCKeeper.PacketKeeper.SendPacket(ctx, Pkt{4, A, B, "", "tibcmock", "never-sent"}.real())
	})
	p4 := h.sendOK(0, Pkt{4, A, B, "", "tibcmock", "really-sent-4"})
	h.hopRecv(1, 0, p4)
	h.hopAck(0, 1, p3, mockAck)
	discard(0, func(ctx sdk.Context) {
		_ = h.chains[0].App.TIBCKeeper.PacketKeeper.CleanPacket(ctx, CPkt{3, "", B, ""}.real())
	})
	h.hopAck(0, 1, p4, mockAck)
	h.Clean(0, CPkt{4, "", B, ""})
}

// ---- the check ------------------------------------------------------------------------------------

type c20Hist struct {
	Name string
	Run  func(t *testing.T)
}

func c20Histories(t *testing.T) []c20Hist {
	var hs []c20Hist
	netFam := func(prefix string, fams []netFamily, pick []int) {
		for _, i := range pick {
			if i < len(fams) {
				f := fams[i]
				hs = append(hs, c20Hist{prefix + ":" + f.Name, func(t *testing.T) {
					h := newNetH(t, 3)
					mesh(h)
					f.Run(h)
				}})
			}
		}
	}
	appFam := func(prefix string, fams []appFamily, pick []int) {
		for _, i := range pick {
			if i < len(fams) {
				f := fams[i]
				hs = append(hs, c20Hist{prefix + ":" + f.Name, func(t *testing.T) {
					h := newAppH(t, 3)
					mesh(h.NetH)
					f.Run(h, newTokOracle(h))
				}})
			}
		}
	}
	all := func(n int) []int {
		var x []int
		for i := 0; i < n; i++ {
			x = append(x, i)
		}
		return x
	}
	if envTier() == "thorough" {
		netFam("C01", famC01(t), all(99))
		netFam("C02", famC02(t), all(99))
		netFam("C03", famC03(t), all(99))
		netFam("C09", famC09(t), all(99))
		netFam("C10", famC10(t), all(99))
		netFam("C11", famC11(t), all(99))
		netFam("C13", famC13(t), all(99))
		netFam("C14", famC14(t), all(99))
		appFam("C04", famC04(), all(99))
		appFam("C05", famC05(), all(99))
		appFam("C06", famC06(), all(99))
		appFam("C19", famC19(), all(99))
	} else {
		netFam("C02", famC02(t), []int{0, 2})
		netFam("C10", famC10(t), []int{0, 1})
		netFam("C11", famC11(t), []int{0, 1})
		netFam("C14", famC14(t), []int{0})
		appFam("C04", famC04(), []int{0})
		appFam("C05", famC05(), []int{0})
		appFam("C06", famC06(), []int{0})
		appFam("C19", famC19(), []int{0})
	}
	nNet, nApp := tierN(2, 12), tierN(2, 12)
	for k := 0; k < nNet; k++ {
		k := k
		hs = append(hs, c20Hist{fmt.Sprintf("random-net-%d", k), func(t *testing.T) {
			h := newNetH(t, 3)
			mesh(h)
			randomHistory(h, newRand(int64(k)*7919+20), genCfg{Chains: 3, Ops: 45, Perturb: 30, Clean: true, Rules: true})
		}})
	}
	for k := 0; k < nApp; k++ {
		k := k
		hs = append(hs, c20Hist{fmt.Sprintf("random-app-%d", k), func(t *testing.T) {
			h := newAppH(t, 3)
			mesh(h.NetH)
			randomTokenHistory(h, newTokOracle(h), newRand(int64(k)*104729+20), tokCfg{Ops: 40, NFT: true, MT: true, BadRecv: 20, Relay: k%2 == 1})
		}})
	}
	hs = append(hs, c20Hist{"discarded-branches", func(t *testing.T) { c20Discarded(t) }})
	hs = append(hs, c20Hist{"evm-clients-recorded-mainnet-headers", func(t *testing.T) {
		a, r := c20EvmHistory(t, tierN(40, 300), tierN(1, 4))
		if a == 0 || r == 0 {
			t.Fatalf("evm history degenerate: %d accepted, %d rejected", a, r)
		}
	}})
	return hs
}

func TestC20(t *testing.T) {
	out := envOut(t)
	rep := newReport("C20")
	rep.Rule = "map sites: real snapshot.validators()/inturn() on validator sets of 1-21 members in random order vs the model; twin replay: histories of all message kinds (packets direct and relayed, acknowledgements, cleans, NFT/MT transfers and refunds, Tendermint client updates, routing rules, recorded BSC and ETH mainnet header updates incl. real ethash, failing messages) recorded at the ABCI boundary and re-executed on a second application built from the same genesis, in this process and in a fresh process with other GOMAXPROCS / GOGC / TZ / cwd / HOME and an unusable TMPDIR; every block's marshalled ResponseFinalizeBlock (tx codes, logs, events, gas, app hash) compared byte for byte"
	cs := &CaseSet{Prop: "C20", Imports: "Harness.C20 Determinism.Perm", Mismatch: "c20_mismatches", Shard: 400}

	// ---- (1) map-iteration sites ----
	r := newRand(20)
	nSets := tierN(300, 5000)
	for k := 0; k < nSets; k++ {
		n := 1 + r.Intn(21)
		seen := map[string]bool{}
		var vals [][]byte
		for len(vals) < n {
			a := make([]byte, 20)
			switch r.Intn(4) {
			case 0: // near-equal addresses: differ late
				copy(a, bytes.Repeat([]byte{0xab}, 20))
				a[19-r.Intn(3)] = byte(r.Intn(4))
			case 1:
				a[0] = byte(r.Intn(3))
				a[1] = byte(r.Intn(256))
			default:
				r.Read(a)
			}
			if !seen[string(a)] {
				seen[string(a)] = true
				vals = append(vals, a)
			}
		}
		number := uint64(r.Intn(1000))
		who := vals[r.Intn(len(vals))]
		if r.Intn(6) == 0 {
			who = make([]byte, 20)
		}
		sorted, inturn := bsctypes.VerifSnapshotView(vals, number, who)
		// the same question again: Go randomises map iteration per range statement
		for rep2 := 0; rep2 < 3; rep2++ {
			s2, i2 := bsctypes.VerifSnapshotView(vals, number, who)
			if i2 != inturn || !c20EqualLists(s2, sorted) {
				rep.Fail("C20:map-order-visible", "snapshot.validators()/inturn() gave different answers on the same validator set", map[string]any{"vals": c20Hex(vals), "number": number})
			}
		}
		// oracle: ascending, same elements
		if !sort.SliceIsSorted(sorted, func(i, j int) bool { return bytes.Compare(sorted[i], sorted[j]) < 0 }) || len(sorted) != len(vals) {
			rep.Fail("C20:validators-not-sorted", "snapshot.validators() is not the ascending arrangement of the validator set", map[string]any{"vals": c20Hex(vals)})
		}
		var vs, ss []string
		for _, v := range vals {
			vs = append(vs, hxs(v))
		}
		for _, v := range sorted {
			ss = append(ss, hxs(v))
		}
		cs.Add(fmt.Sprintf("C20Case %s %d %s %s %s", coqList(vs), number, hxs(who), coqList(ss), coqBool(inturn)),
			map[string]any{"vals": c20Hex(vals), "number": number, "who": hex.EncodeToString(who), "inturn": inturn})
		rep.Evaluations++
		rep.Count(fmt.Sprintf("valset-size:%02d", n))
		rep.Nontrivial(fmt.Sprintf("inturn=%v", inturn))
	}

	// ---- (2) twin replay ----
	rec := newC20Recorder()
	rec.install()
	hists := c20Histories(t)
	marks := []int{0}
	for _, hst := range hists {
		hst.Run(t)
		marks = append(marks, len(rec.order))
		rep.Count("history:" + strings.SplitN(hst.Name, ":", 2)[0])
	}
	rec.uninstall()
	histOf := func(idx int) string {
		for i := 0; i+1 < len(marks); i++ {
			if idx >= marks[i] && idx < marks[i+1] {
				return hists[i].Name
			}
		}
		return "?"
	}
	nBlocks, nTx := 0, 0
	var logs []*c20Log
	for idx, key := range rec.order {
		lg := rec.logs[key]
		logs = append(logs, lg)
		orig := c20Original(lg)
		for _, e := range lg.Entries {
			if e.Kind == "block" {
				nBlocks++
				nTx += e.NTx
			} else {
				rep.Count("direct-write:" + e.Kind)
			}
		}
		twin, err := c20Replay(t, lg, 4)
		if err != nil {
			rep.Fail("C20:replay-broken", "the recorded history could not be replayed: "+err.Error(), map[string]any{"history": histOf(idx), "chain": lg.ChainID})
			continue
		}
		if d := c20FirstDiff(orig, twin); d >= 0 {
			rep.Fail("C20:twin-diverged", fmt.Sprintf("re-executing the same genesis and the same blocks gave a different result at block %d of %s", d, lg.ChainID),
				map[string]any{"history": histOf(idx), "chain": lg.ChainID, "block_index": d, "blocks": len(orig), "difference": c20FirstDivergence})
			c20FirstDivergence = ""
		}
		rep.Evaluations += len(orig)
	}
	rep.Histogram["blocks-compared"] = nBlocks
	rep.Histogram["transactions-compared"] = nTx
	rep.Nontrivial("twin")

	// ---- (3) fresh process, perturbed environment ----
	logFile := filepath.Join(out, "c20_logs.json")
	outFile := filepath.Join(out, "c20_child.json")
	bz, _ := json.Marshal(logs)
	if err := os.WriteFile(logFile, bz, 0o644); err != nil {
		t.Fatal(err)
	}
	cmd := exec.Command(os.Args[0], "-test.run", "^TestC20Child$", "-test.timeout", "3000s")
	cmd.Dir = "/"
	env := []string{}
	for _, e := range os.Environ() {
		k := strings.SplitN(e, "=", 2)[0]
		switch k {
		case "TMPDIR", "HOME", "TZ", "GOMAXPROCS", "GOGC", "GODEBUG":
		default:
			env = append(env, e)
		}
	}
	cmd.Env = append(env, "VERIF_C20_LOG="+logFile, "VERIF_C20_OUT="+outFile, "TMPDIR=/nonexistent-c20-tmp", "HOME=/nonexistent-c20-home",
		"TZ=Pacific/Kiritimati", "GOMAXPROCS=3", "GOGC=25")
	cout, cerr := cmd.CombinedOutput()
	var child [][]string
	if cerr == nil {
		cb, err := os.ReadFile(outFile)
		if err == nil {
			cerr = json.Unmarshal(cb, &child)
		} else {
			cerr = err
		}
	}
	if cerr != nil || len(child) != len(logs) {
		tail := string(cout)
		if len(tail) > 1500 {
			tail = tail[len(tail)-1500:]
		}
		rep.Fail("C20:child-replay-broken", "the replay in a fresh process did not complete", map[string]any{"error": fmt.Sprint(cerr), "output": tail})
	} else {
		for idx, lg := range logs {
			if d := c20FirstDiff(c20Original(lg), child[idx]); d >= 0 {
				rep.Fail("C20:fresh-process-diverged", fmt.Sprintf("re-executing the same genesis and blocks in another process / environment gave a different result at block %d of %s", d, lg.ChainID),
					map[string]any{"history": histOf(idx), "chain": lg.ChainID, "block_index": d})
			}
			rep.Evaluations += len(child[idx])
		}
		rep.Nontrivial("fresh-process")
	}
	rep.Sample(3, map[string]any{"histories": len(hists), "applications": len(logs), "blocks": nBlocks, "transactions": nTx})
	rep.Notes = append(rep.Notes, "child environment: TMPDIR=/nonexistent-c20-tmp HOME=/nonexistent-c20-home TZ=Pacific/Kiritimati GOMAXPROCS=3 GOGC=25 cwd=/")
	cs.Write(t, out)
	rep.Write(t, out)
	_ = rand.Int
}

func TestC20Child(t *testing.T) {
	lf, of := os.Getenv("VERIF_C20_LOG"), os.Getenv("VERIF_C20_OUT")
	if lf == "" {
		t.Skip("helper of TestC20")
	}
	bz, err := os.ReadFile(lf)
	if err != nil {
		t.Fatal(err)
	}
	var logs []*c20Log
	if err := json.Unmarshal(bz, &logs); err != nil {
		t.Fatal(err)
	}
	var out [][]string
	for _, lg := range logs {
		d, err := c20Replay(t, lg, 0)
		if err != nil {
			t.Fatalf("%s: %v", lg.ChainID, err)
		}
		out = append(out, d)
	}
	ob, _ := json.Marshal(out)
	if err := os.WriteFile(of, ob, 0o644); err != nil {
		t.Fatal(err)
	}
}

func c20EqualLists(a, b [][]byte) bool {
	if len(a) != len(b) {
		return false
	}
	for i := range a {
		if !bytes.Equal(a[i], b[i]) {
			return false
		}
	}
	return true
}

func c20Hex(l [][]byte) []string {
	var o []string
	for _, x := range l {
		o = append(o, hex.EncodeToString(x))
	}
	return o
}
