package harness

// C08, Ethereum-style side (09-eth and 08-bsc clients): real Merkle-Patricia world/storage tries built with
// go-ethereum are the prover; the verifying clients are the repo's ClientStates over a scratch client store.

import (
	"bytes"
	"encoding/json"
	"fmt"
	"math/big"
	"sort"
	"testing"

	"github.com/ethereum/go-ethereum/common"
	ethtypes "github.com/ethereum/go-ethereum/core/types"
	"github.com/ethereum/go-ethereum/crypto"
	"github.com/ethereum/go-ethereum/ethdb/memorydb"
	"github.com/ethereum/go-ethereum/light"
	"github.com/ethereum/go-ethereum/rlp"
	"github.com/ethereum/go-ethereum/trie"

	host "github.com/bianjieai/tibc-go/modules/tibc/core/24-host"
	ibctm "github.com/bianjieai/tibc-go/modules/tibc/light-clients/07-tendermint/types"
	bsctypes "github.com/bianjieai/tibc-go/modules/tibc/light-clients/08-bsc/types"
	ethclient "github.com/bianjieai/tibc-go/modules/tibc/light-clients/09-eth/types"
	tibctesting "github.com/bianjieai/tibc-go/modules/tibc/testing"
)

type c08EthAcct struct {
	Addr     common.Address
	Nonce    uint64
	Balance  *big.Int
	CodeHash common.Hash
	Slots    map[common.Hash][]byte // slot -> 32-byte word (all-zero words are not stored)
	sroot    common.Hash
	strie    *trie.Trie
}

type c08EthState struct {
	Accts []*c08EthAcct
	Root  common.Hash
	wtrie *trie.Trie
}

func c08NewTrie(t *testing.T) *trie.Trie {
	tr, err := trie.New(common.Hash{}, trie.NewDatabase(memorydb.New()))
	if err != nil {
		t.Fatal(err)
	}
	return tr
}

// builds the tries of a state the way an Ethereum node does
func c08BuildEthState(t *testing.T, accts []*c08EthAcct) *c08EthState {
	st := &c08EthState{Accts: accts, wtrie: c08NewTrie(t)}
	for _, a := range accts {
		a.strie = c08NewTrie(t)
		slots := make([]common.Hash, 0, len(a.Slots))
		for s := range a.Slots {
			slots = append(slots, s)
		}
		sort.Slice(slots, func(i, j int) bool { return bytes.Compare(slots[i][:], slots[j][:]) < 0 })
		for _, s := range slots {
			w := common.TrimLeftZeroes(a.Slots[s])
			if len(w) == 0 {
				continue
			}
			enc, _ := rlp.EncodeToBytes(w)
			a.strie.Update(crypto.Keccak256(s[:]), enc)
		}
		a.sroot = a.strie.Hash()
		enc, err := rlp.EncodeToBytes(&ethtypes.StateAccount{Nonce: a.Nonce, Balance: a.Balance, Root: a.sroot, CodeHash: a.CodeHash[:]})
		if err != nil {
			t.Fatal(err)
		}
		st.wtrie.Update(crypto.Keccak256(a.Addr[:]), enc)
	}
	st.Root = st.wtrie.Hash()
	return st
}

func (st *c08EthState) acct(addr []byte) *c08EthAcct {
	for _, a := range st.Accts {
		if bytes.Equal(a.Addr[:], addr) {
			return a
		}
	}
	return nil
}

// the eth_getProof answer, in the JSON shape the clients parse
type c08SR struct {
	Key   string   `json:"key"`
	Value string   `json:"value"`
	Proof []string `json:"proof"`
}
type c08EP struct {
	Address      string   `json:"address"`
	Balance      string   `json:"balance"`
	CodeHash     string   `json:"code_hash"`
	Nonce        string   `json:"nonce"`
	StorageHash  string   `json:"storage_hash"`
	AccountProof []string `json:"account_proof"`
	StorageProof []*c08SR `json:"storage_proof"`
}

func c08HexNodes(nl light.NodeList) []string {
	out := make([]string, len(nl))
	for i, n := range nl {
		out[i] = "0x" + common.Bytes2Hex(n)
	}
	return out
}

// prove answers eth_getProof(addr, slots) against the state
func (st *c08EthState) prove(addr common.Address, slots []common.Hash) *c08EP {
	var anl light.NodeList
	_ = st.wtrie.Prove(crypto.Keccak256(addr[:]), 0, &anl)
	ep := &c08EP{Address: "0x" + common.Bytes2Hex(addr[:]), AccountProof: c08HexNodes(anl)}
	a := st.acct(addr[:])
	if a == nil { // absent account: empty account as geth reports it
		ep.Balance, ep.Nonce = "0x0", "0x0"
		ep.CodeHash = "0x" + common.Bytes2Hex(crypto.Keccak256(nil))
		ep.StorageHash = "0x" + common.Bytes2Hex(ethtypes.EmptyRootHash[:])
		for _, s := range slots {
			ep.StorageProof = append(ep.StorageProof, &c08SR{Key: "0x" + common.Bytes2Hex(s[:]), Value: "0x0"})
		}
		return ep
	}
	ep.Balance = "0x" + a.Balance.Text(16)
	ep.Nonce = fmt.Sprintf("0x%x", a.Nonce)
	ep.CodeHash = "0x" + common.Bytes2Hex(a.CodeHash[:])
	ep.StorageHash = "0x" + common.Bytes2Hex(a.sroot[:])
	for _, s := range slots {
		var snl light.NodeList
		_ = a.strie.Prove(crypto.Keccak256(s[:]), 0, &snl)
		w := common.TrimLeftZeroes(a.Slots[s])
		ep.StorageProof = append(ep.StorageProof, &c08SR{Key: "0x" + common.Bytes2Hex(s[:]), Value: "0x" + common.Bytes2Hex(w), Proof: c08HexNodes(snl)})
	}
	return ep
}

func (ep *c08EP) bytes() []byte {
	b, _ := json.Marshal(ep)
	return b
}

func (ep *c08EP) clone() *c08EP {
	var c c08EP
	_ = json.Unmarshal(ep.bytes(), &c)
	return &c
}

// slot of a packet path in the counterparty contract: keccak(path ++ pad32(104)), written out by hand
func c08Slot(fn, src, dst string, seq uint64) common.Hash {
	pre := append([]byte(c08Path(fn, src, dst, seq)), c08SlotIndex()...)
	return crypto.Keccak256Hash(pre)
}
func c08SlotIndex() []byte {
	idx := make([]byte, 32)
	idx[31] = 104
	return idx
}

// the 32-byte word a counterparty contract holds for the claimed value of a call
func c08Word(fn string, seq uint64, val []byte) ([]byte, bool) {
	if fn == "clean" {
		return common.LeftPadBytes(c08be64(seq), 32), true
	}
	if len(val) != 32 {
		return nil, false
	}
	return val, true
}

type c08EthEnv struct {
	t      *testing.T
	chain  *tibctesting.TestChain
	states []*c08EthState
}

func (e *c08EthEnv) stateByRoot(root []byte) *c08EthState {
	for _, s := range e.states {
		if bytes.Equal(s.Root[:], root) {
			return s
		}
	}
	return nil
}

// run executes the real 09-eth / 08-bsc Verify* on the input
func (e *c08EthEnv) run(in *c08In) (ok bool, panicked bool, unchanged bool) {
	ctx, _ := e.chain.GetContext().CacheContext()
	cdc := e.chain.App.AppCodec()
	store := e.chain.App.TIBCKeeper.ClientKeeper.ClientStore(ctx, "c08-"+in.CT)
	for _, c := range in.Cons {
		var bz []byte
		var err error
		switch {
		case c.Kind == 0 && in.CT == "eth":
			bz, err = cdc.MarshalInterface(&ethclient.ConsensusState{Timestamp: 1700000000, Number: c.H.ht(), Root: c.Root})
		case c.Kind == 0:
			bz, err = cdc.MarshalInterface(&bsctypes.ConsensusState{Timestamp: 1700000000, Number: c.H.ht(), Root: c.Root})
		case c.Kind == 1 && in.CT == "eth": // consensus state of another client type
			bz, err = cdc.MarshalInterface(&bsctypes.ConsensusState{Timestamp: 1700000000, Number: c.H.ht(), Root: c.Root})
		case c.Kind == 1:
			bz, err = cdc.MarshalInterface(&ethclient.ConsensusState{Timestamp: 1700000000, Number: c.H.ht(), Root: c.Root})
		default:
			bz = []byte{0xff, 0x01, 0x02}
		}
		if err != nil {
			e.t.Fatal(err)
		}
		store.Set(host.ConsensusStateKey(c.H.ht()), bz)
	}
	for _, p := range in.PT { // not read by these clients; present to show it is irrelevant
		ibctm.SetProcessedTime(store, p.H.ht(), p.T)
	}
	before := c08Dump(store)
	var proof []byte
	if !in.ProofNil {
		proof = append([]byte{}, in.Proof...)
	}
	func() {
		defer func() {
			if r := recover(); r != nil {
				panicked = true
				ok = false
			}
		}()
		var err error
		if in.CT == "eth" {
			cs := ethclient.ClientState{Header: ethclient.Header{Height: in.Latest.ht()}, ContractAddress: in.Prefix, BlockDelay: in.Delay, TimeDelay: 1 << 62, TrustingPeriod: 1000}
			switch in.Fn {
			case "commit":
				err = cs.VerifyPacketCommitment(ctx, store, cdc, in.H.ht(), proof, in.Src, in.Dst, in.Seq, in.Val)
			case "ack":
				err = cs.VerifyPacketAcknowledgement(ctx, store, cdc, in.H.ht(), proof, in.Src, in.Dst, in.Seq, in.Val)
			default:
				err = cs.VerifyPacketCleanCommitment(ctx, store, cdc, in.H.ht(), proof, in.Src, in.Dst, in.Seq)
			}
		} else {
			vals := make([][]byte, in.Delay) // BSC: the block delay is 2*len(validators)/3+1
			for i := range vals {
				vals[i] = bytes.Repeat([]byte{byte(i + 1)}, 20)
			}
			cs := bsctypes.ClientState{Header: bsctypes.Header{Height: in.Latest.ht()}, ContractAddress: in.Prefix, Validators: vals, Epoch: 200, BlockInteval: 3, TrustingPeriod: 1000}
			switch in.Fn {
			case "commit":
				err = cs.VerifyPacketCommitment(ctx, store, cdc, in.H.ht(), proof, in.Src, in.Dst, in.Seq, in.Val)
			case "ack":
				err = cs.VerifyPacketAcknowledgement(ctx, store, cdc, in.H.ht(), proof, in.Src, in.Dst, in.Seq, in.Val)
			default:
				err = cs.VerifyPacketCleanCommitment(ctx, store, cdc, in.H.ht(), proof, in.Src, in.Dst, in.Seq)
			}
		}
		ok = err == nil
	}()
	unchanged = before == c08Dump(store)
	return
}

// ---- what the model's executable instance needs: the library answers, obtained from the real libraries ----

type c08MptEntry struct {
	Root, Key []byte
	Res       int // 0 error, 1 proven absent, 2 value
	Val       []byte
}

func c08Mpt(root common.Hash, key []byte, nodes []string) (int, []byte) {
	nl := new(light.NodeList)
	for _, s := range nodes {
		_ = nl.Put(nil, common.FromHex(s))
	}
	res, val := 0, []byte(nil)
	func() {
		defer func() { _ = recover() }()
		v, err := trie.VerifyProof(root, key, nl.NodeSet())
		switch {
		case err != nil:
		case v == nil:
			res = 1
		default:
			res, val = 2, v
		}
	}()
	return res, val
}

type c08EthSPDec struct {
	Nil bool
	Key []byte
	Tab []c08MptEntry
}

type c08EthDec struct {
	Addr, Balance, CodeHash, Nonce, StorageHash []byte // common.FromHex of the JSON fields
	AcctTab                                      []c08MptEntry
	Storage                                      []c08EthSPDec
	Keccak                                       [][2][]byte
	RlpAcc                                       []c08RlpAcc
	RlpDec                                       []c08RlpDec
}
type c08RlpAcc struct {
	Nonce, Balance *big.Int
	SH, CH         []byte
	Enc            []byte
}
type c08RlpDec struct {
	In  []byte
	OK  bool
	Out []byte
}

func c08Hash32(b []byte) []byte { return common.BytesToHash(b).Bytes() }

// decodeEth parses the proof bytes exactly as the clients do (encoding/json into the repo's Proof type,
// common.FromHex on the fields) and tabulates the answers of keccak / trie.VerifyProof / rlp on every query
// the verification can make on this input.
func (e *c08EthEnv) decode(in *c08In) (*c08EthDec, bool) {
	if in.ProofNil {
		return nil, false
	}
	var addr, bal, ch, nonce, sh string
	var aproof []string
	type spT struct {
		nilp  bool
		key   string
		proof []string
	}
	var sps []spT
	if in.CT == "eth" {
		var p ethclient.Proof
		if err := json.Unmarshal(in.Proof, &p); err != nil {
			return nil, false
		}
		addr, bal, ch, nonce, sh, aproof = p.Address, p.Balance, p.CodeHash, p.Nonce, p.StorageHash, p.AccountProof
		for _, s := range p.StorageProof {
			if s == nil {
				sps = append(sps, spT{nilp: true})
			} else {
				sps = append(sps, spT{key: s.Key, proof: s.Proof})
			}
		}
	} else {
		var p bsctypes.Proof
		if err := json.Unmarshal(in.Proof, &p); err != nil {
			return nil, false
		}
		addr, bal, ch, nonce, sh, aproof = p.Address, p.Balance, p.CodeHash, p.Nonce, p.StorageHash, p.AccountProof
		for _, s := range p.StorageProof {
			if s == nil {
				sps = append(sps, spT{nilp: true})
			} else {
				sps = append(sps, spT{key: s.Key, proof: s.Proof})
			}
		}
	}
	d := &c08EthDec{Addr: common.FromHex(addr), Balance: common.FromHex(bal), CodeHash: common.FromHex(ch), Nonce: common.FromHex(nonce), StorageHash: common.FromHex(sh)}
	kec := func(x []byte) []byte {
		y := crypto.Keccak256(x)
		for _, p := range d.Keccak {
			if bytes.Equal(p[0], x) {
				return y
			}
		}
		d.Keccak = append(d.Keccak, [2][]byte{append([]byte{}, x...), y})
		return y
	}
	// the queries of the verification on this input (only those: everything else answers "error" in the instance)
	if c := in.consAt(in.H); c != nil && c.Kind == 0 {
		d.AcctTab = c08Tab([][]byte{c08Hash32(c.Root)}, [][]byte{kec(d.Addr)}, aproof)
	}
	kec(append([]byte(c08Path(in.Fn, in.Src, in.Dst, in.Seq)), c08SlotIndex()...))
	for i, sp := range sps {
		if sp.nilp {
			d.Storage = append(d.Storage, c08EthSPDec{Nil: true})
			continue
		}
		k := common.FromHex(sp.key)
		var tab []c08MptEntry
		if i == 0 {
			tab = c08Tab([][]byte{c08Hash32(d.StorageHash)}, [][]byte{kec(c08Hash32(k))}, sp.proof)
		}
		d.Storage = append(d.Storage, c08EthSPDec{Key: k, Tab: tab})
	}
	// rlp of the account as the client re-encodes it
	n, b := new(big.Int).SetBytes(c08Hash32(d.Nonce)), new(big.Int).SetBytes(c08Hash32(d.Balance))
	type acc struct {
		Nonce    *big.Int
		Balance  *big.Int
		Storage  common.Hash
		Codehash common.Hash
	}
	enc, _ := rlp.EncodeToBytes(&acc{n, b, common.BytesToHash(d.StorageHash), common.BytesToHash(d.CodeHash)})
	d.RlpAcc = append(d.RlpAcc, c08RlpAcc{n, b, c08Hash32(d.StorageHash), c08Hash32(d.CodeHash), enc})
	// rlp string decoding of every storage value the tries can return (and of the empty result)
	seen := map[string]bool{}
	addDec := func(v []byte) {
		if seen[string(v)] {
			return
		}
		seen[string(v)] = true
		var out []byte
		err := rlp.DecodeBytes(v, &out)
		d.RlpDec = append(d.RlpDec, c08RlpDec{In: append([]byte{}, v...), OK: err == nil, Out: out})
	}
	addDec(nil)
	for _, sp := range d.Storage {
		for _, en := range sp.Tab {
			if en.Res == 2 {
				addDec(en.Val)
			}
		}
	}
	return d, true
}

func c08Tab(roots, keys [][]byte, nodes []string) []c08MptEntry {
	var tab []c08MptEntry
	seen := map[string]bool{}
	for _, r := range roots {
		for _, k := range keys {
			id := string(r) + "|" + string(k)
			if seen[id] {
				continue
			}
			seen[id] = true
			res, val := c08Mpt(common.BytesToHash(r), k, nodes)
			if res != 0 { // errors are the default answer of the instance
				tab = append(tab, c08MptEntry{Root: r, Key: k, Res: res, Val: val})
			}
		}
	}
	return tab
}

func c08TabCoq(tab []c08MptEntry) string {
	items := make([]string, len(tab))
	for i, en := range tab {
		r := "MAbsent"
		if en.Res == 2 {
			r = "(MVal " + hxs(en.Val) + ")"
		}
		items[i] = "(" + hxs(en.Root) + ", " + hxs(en.Key) + ", " + r + ")"
	}
	return coqList(items)
}

func (d *c08EthDec) coq() string {
	sps := make([]string, len(d.Storage))
	for i, sp := range d.Storage {
		if sp.Nil {
			sps[i] = "None"
		} else {
			sps[i] = "(Some (EthSP " + hxs(sp.Key) + " " + c08TabCoq(sp.Tab) + "))"
		}
	}
	return "(EthP " + hxs(d.Addr) + " " + hxs(d.Balance) + " " + hxs(d.CodeHash) + " " + hxs(d.Nonce) + " " + hxs(d.StorageHash) + " " + c08TabCoq(d.AcctTab) + " " + coqList(sps) + ")"
}

func (d *c08EthDec) tablesCoq() (kec, racc, rdec string) {
	ks := make([]string, len(d.Keccak))
	for i, p := range d.Keccak {
		ks[i] = "(" + hxs(p[0]) + ", " + hxs(p[1]) + ")"
	}
	ra := make([]string, len(d.RlpAcc))
	for i, a := range d.RlpAcc {
		ra[i] = "(" + a.Nonce.String() + ", " + a.Balance.String() + ", " + hxs(a.SH) + ", " + hxs(a.CH) + ", " + hxs(a.Enc) + ")"
	}
	rd := make([]string, len(d.RlpDec))
	for i, x := range d.RlpDec {
		rd[i] = "(" + hxs(x.In) + ", " + coqOpt(x.OK, hxs(x.Out)) + ")"
	}
	return coqList(ks), coqList(ra), coqList(rd)
}
