package harness

// C17 -- BSC client follows only a correctly sealed, hash-linked header chain.
//
// Drives the REAL code (08-bsc ClientState.CheckHeaderAndUpdateState, 02-client keeper.UpdateClient,
// MsgUpdateClient through BaseApp) with generated header chains sealed by real secp256k1 keys.
// For every presented header it records accept/reject and a projection of the resulting client
// state/store into a Coq case (evaluated against Clients/Bsc.v by coqc), and evaluates the
// property as an executable predicate over the history of accepted blocks (c17Spec, independent of
// the Coq model and of the code under test: own seal hash, go-ethereum's header hash and recovery).

import (
	"bytes"
	"crypto/ecdsa"
	"crypto/sha256"
	"fmt"
	"math/big"
	"math/rand"
	"sort"
	"testing"
	"time"

	storetypes "cosmossdk.io/store/types"
	"github.com/cosmos/cosmos-sdk/codec"
	sdk "github.com/cosmos/cosmos-sdk/types"
	"github.com/ethereum/go-ethereum/common"
	gethtypes "github.com/ethereum/go-ethereum/core/types"
	"github.com/ethereum/go-ethereum/crypto"
	"github.com/ethereum/go-ethereum/rlp"
	"golang.org/x/crypto/sha3"

	clientkeeper "github.com/bianjieai/tibc-go/modules/tibc/core/02-client/keeper"
	clienttypes "github.com/bianjieai/tibc-go/modules/tibc/core/02-client/types"
	bsctypes "github.com/bianjieai/tibc-go/modules/tibc/light-clients/08-bsc/types"
	tibctesting "github.com/bianjieai/tibc-go/modules/tibc/testing"
)

// ---------------------------------------------------------------- keys, hashes, seals

type c17Key struct {
	priv *ecdsa.PrivateKey
	addr common.Address
}

func c17MakeKeys(n int, salt string) []c17Key {
	ks := make([]c17Key, 0, n)
	for i := 0; len(ks) < n; i++ {
		h := sha256.Sum256([]byte(fmt.Sprintf("c17-validator-key-%s-%d", salt, i)))
		priv, err := crypto.ToECDSA(h[:])
		if err != nil {
			continue
		}
		ks = append(ks, c17Key{priv, crypto.PubkeyToAddress(priv.PublicKey)})
	}
	return ks
}

// the message a validator signs (parlia seal hash over the raw protobuf fields), own implementation
func c17SealHash(h *bsctypes.Header, chainID uint64) (common.Hash, bool) {
	if len(h.Extra) < 65 {
		return common.Hash{}, false
	}
	hasher := sha3.NewLegacyKeccak256()
	err := rlp.Encode(hasher, []interface{}{
		new(big.Int).SetUint64(chainID),
		h.ParentHash, h.UncleHash, h.Coinbase, h.Root, h.TxHash, h.ReceiptHash, h.Bloom,
		h.Difficulty, h.Height.RevisionHeight, h.GasLimit, h.GasUsed, h.Time,
		h.Extra[:len(h.Extra)-65], h.MixDigest, h.Nonce,
	})
	if err != nil {
		return common.Hash{}, false
	}
	var out common.Hash
	hasher.Sum(out[:0])
	return out, true
}

// seals h in place with key k (last 65 bytes of Extra)
func c17Seal(h *bsctypes.Header, k c17Key, chainID uint64) {
	sh, ok := c17SealHash(h, chainID)
	if !ok {
		return
	}
	sig, err := crypto.Sign(sh[:], k.priv)
	if err != nil {
		panic(err)
	}
	copy(h.Extra[len(h.Extra)-65:], sig)
}

// who sealed h according to go-ethereum's recovery over our own seal hash
func c17Recover(h *bsctypes.Header, chainID uint64) (common.Address, bool) {
	sh, ok := c17SealHash(h, chainID)
	if !ok {
		return common.Address{}, false
	}
	pub, err := crypto.SigToPub(sh[:], h.Extra[len(h.Extra)-65:])
	if err != nil {
		return common.Address{}, false
	}
	return crypto.PubkeyToAddress(*pub), true
}

// block hash via go-ethereum's own header type (same 15 RLP fields); false = the repo's Hash() panics
func c17Hash(h *bsctypes.Header) (common.Hash, bool) {
	if len(h.Bloom) > 256 || len(h.Nonce) > 8 {
		return common.Hash{}, false
	}
	var nonce gethtypes.BlockNonce
	copy(nonce[8-len(h.Nonce):], h.Nonce)
	gh := &gethtypes.Header{
		ParentHash:  common.BytesToHash(h.ParentHash),
		UncleHash:   common.BytesToHash(h.UncleHash),
		Coinbase:    common.BytesToAddress(h.Coinbase),
		Root:        common.BytesToHash(h.Root),
		TxHash:      common.BytesToHash(h.TxHash),
		ReceiptHash: common.BytesToHash(h.ReceiptHash),
		Bloom:       gethtypes.BytesToBloom(h.Bloom),
		Difficulty:  new(big.Int).SetUint64(h.Difficulty),
		Number:      new(big.Int).SetUint64(h.Height.RevisionHeight),
		GasLimit:    h.GasLimit,
		GasUsed:     h.GasUsed,
		Time:        h.Time,
		Extra:       h.Extra,
		MixDigest:   common.BytesToHash(h.MixDigest),
		Nonce:       nonce,
	}
	return gh.Hash(), true
}

func c17CopyHeader(h *bsctypes.Header) *bsctypes.Header {
	c := *h
	cp := func(b []byte) []byte { return append([]byte(nil), b...) }
	c.ParentHash, c.UncleHash, c.Coinbase, c.Root = cp(h.ParentHash), cp(h.UncleHash), cp(h.Coinbase), cp(h.Root)
	c.TxHash, c.ReceiptHash, c.Bloom, c.Extra = cp(h.TxHash), cp(h.ReceiptHash), cp(h.Bloom), cp(h.Extra)
	c.MixDigest, c.Nonce = cp(h.MixDigest), cp(h.Nonce)
	return &c
}

// ---------------------------------------------------------------- Coq terms

type c17Enc func([]byte) string

func c17CoqHeader(hxs c17Enc, h *bsctypes.Header, chainID uint64) string {
	hash, hok := c17Hash(h)
	signer, sok := c17Recover(h, chainID)
	extra := hxs(h.Extra)
	if n := len(h.Extra); n >= 97 { // vanity ++ validators ++ seal, written as three shared pieces
		extra = "(" + hxs(h.Extra[:32]) + " ++ " + hxs(h.Extra[32:n-65]) + " ++ " + hxs(h.Extra[n-65:]) + ")"
	}
	return fmt.Sprintf("(Header %d %d %s %s %s %s %d %d %d %d %s %s %s %s)",
		h.Height.RevisionNumber, h.Height.RevisionHeight, hxs(h.ParentHash), hxs(h.UncleHash), hxs(h.Coinbase),
		hxs(h.Root), h.Difficulty, h.GasLimit, h.GasUsed, h.Time, extra, hxs(h.MixDigest),
		coqOpt(hok, hxs(hash[:])), coqOpt(sok, hxs(signer[:])))
}

func c17Pending(cdc codec.BinaryCodec, store storetypes.KVStore) [][]byte {
	if store.Get([]byte(bsctypes.PrefixPendingValidators)) == nil {
		return nil
	}
	return bsctypes.GetPendingValidators(cdc, store).Validators
}

// ---------------------------------------------------------------- binary case encoding (decoded by Harness/C17.v)

type c17Buf struct{ b []byte }

func (e *c17Buf) num(v uint64) {
	for v >= 128 {
		e.b = append(e.b, byte(v&127)|128)
		v >>= 7
	}
	e.b = append(e.b, byte(v))
}
func (e *c17Buf) bool(v bool) {
	if v {
		e.b = append(e.b, 1)
	} else {
		e.b = append(e.b, 0)
	}
}
func (e *c17Buf) raw(v []byte) { e.num(uint64(len(v))); e.b = append(e.b, v...) }

// index of a byte string in the per-case table (every distinct byte string is written once per case)
func (w *c17World) ref(e *c17Buf, b []byte) {
	n, ok := w.pool[string(b)]
	if !ok {
		n = uint64(len(w.table))
		w.pool[string(b)] = n
		w.table = append(w.table, append([]byte(nil), b...))
	}
	e.num(n)
}
func (w *c17World) optref(e *c17Buf, present bool, b []byte) {
	e.bool(present)
	if present {
		w.ref(e, b)
	}
}
func (w *c17World) refs(e *c17Buf, l [][]byte) {
	e.num(uint64(len(l)))
	for _, b := range l {
		w.ref(e, b)
	}
}
func (w *c17World) binHeader(e *c17Buf, h *bsctypes.Header) {
	hash, hok := c17Hash(h)
	signer, sok := c17Recover(h, w.spec.chainID)
	e.num(h.Height.RevisionNumber)
	e.num(h.Height.RevisionHeight)
	w.ref(e, h.ParentHash)
	w.ref(e, h.UncleHash)
	w.ref(e, h.Coinbase)
	w.ref(e, h.Root)
	e.num(h.Difficulty)
	e.num(h.GasLimit)
	e.num(h.GasUsed)
	e.num(h.Time)
	if n := len(h.Extra); n >= 97 { // vanity ++ validators ++ seal as three shared pieces
		e.bool(true)
		w.ref(e, h.Extra[:32])
		w.ref(e, h.Extra[32:n-65])
		w.ref(e, h.Extra[n-65:])
	} else {
		e.bool(false)
		w.ref(e, h.Extra)
	}
	w.ref(e, h.MixDigest)
	w.optref(e, hok, hash[:])
	w.optref(e, sok, signer[:])
}
func (w *c17World) binCons(e *c17Buf, c *bsctypes.ConsensusState) {
	e.num(c.Timestamp)
	e.num(c.Number.RevisionNumber)
	e.num(c.Number.RevisionHeight)
	w.ref(e, c.Root)
}
func (w *c17World) binRecents(e *c17Buf, rs []bsctypes.Signer) {
	e.num(uint64(len(rs)))
	for _, s := range rs {
		e.num(s.Height.RevisionNumber)
		e.num(s.Height.RevisionHeight)
		w.ref(e, s.Validator)
	}
}

// projection of (client state, client store, consensus state) compared with the model;
// before = the real state before the step ("unchanged" is written as None)
func (w *c17World) binProj(e *c17Buf, before *c17Snap, store storetypes.KVStore, cs *bsctypes.ClientState, cons *bsctypes.ConsensusState) {
	hash, hok := c17Hash(&cs.Header)
	after := c17TakeSnap(w.cdc, store, cs)
	e.num(cs.Header.Height.RevisionNumber)
	e.num(cs.Header.Height.RevisionHeight)
	e.num(cs.Header.GasLimit)
	e.num(cs.Header.Time)
	w.ref(e, cs.Header.Root)
	w.optref(e, hok, hash[:])
	ch := !c17SameBytesList(before.vals, after.vals)
	e.bool(ch)
	if ch {
		w.refs(e, after.vals)
	}
	ch = !c17SameSigners(before.recents, after.recents)
	e.bool(ch)
	if ch {
		w.binRecents(e, after.recents)
	}
	ch = !c17SameBytesList(before.pending, after.pending)
	e.bool(ch)
	if ch {
		w.refs(e, after.pending)
	}
	e.bool(cons != nil)
	if cons != nil {
		w.binCons(e, cons)
	}
}

// the parts of the real state that are written as "unchanged" when a step did not touch them
type c17Snap struct {
	vals    [][]byte
	recents []bsctypes.Signer
	pending [][]byte
}

func c17TakeSnap(cdc codec.BinaryCodec, store storetypes.KVStore, cs *bsctypes.ClientState) *c17Snap {
	rs, err := bsctypes.GetRecentSigners(store)
	if err != nil {
		panic(err)
	}
	return &c17Snap{cs.Validators, rs, c17Pending(cdc, store)}
}

func c17SameBytesList(a, b [][]byte) bool {
	if len(a) != len(b) {
		return false
	}
	for i := range a {
		if !bytes.Equal(a[i], b[i]) {
			return false
		}
	}
	return true
}

func c17SameSigners(a, b []bsctypes.Signer) bool {
	if len(a) != len(b) {
		return false
	}
	for i := range a {
		if a[i].Height != b[i].Height || !bytes.Equal(a[i].Validator, b[i].Validator) {
			return false
		}
	}
	return true
}

// ---------------------------------------------------------------- the property as an executable predicate

type c17Spec struct {
	epoch, chainID uint64
	latest         *bsctypes.Header
	cur            []common.Address // validator set in force (sorted ascending, distinct)
	pend           []common.Address // last announced set
	switchAt       uint64           // block after which pend is in force
	hasSwitch      bool
	signerOf       map[uint64]common.Address // who sealed the blocks the client saw
	limitAfter     map[uint64]int            // floor(N/2)+1 in force after block j was accepted
	trusting       uint64
	consTime       uint64
}

func c17SortedSet(bs [][]byte) []common.Address {
	seen := map[common.Address]bool{}
	var out []common.Address
	for _, b := range bs {
		a := common.BytesToAddress(b)
		if !seen[a] {
			seen[a] = true
			out = append(out, a)
		}
	}
	sort.Slice(out, func(i, j int) bool { return bytes.Compare(out[i][:], out[j][:]) < 0 })
	return out
}

func c17ParseVals(extra []byte) [][]byte {
	if len(extra) < 97 {
		return nil
	}
	vb := extra[32 : len(extra)-65]
	var out [][]byte
	for i := 0; i+20 <= len(vb); i += 20 {
		out = append(out, append([]byte(nil), vb[i:i+20]...))
	}
	return out
}

func c17In(a common.Address, set []common.Address) bool {
	for _, x := range set {
		if x == a {
			return true
		}
	}
	return false
}

type c17Verdict struct {
	Basic, Extra, Child, Gas, Recovered, Coinbase, Member, NotRecent, Difficulty, Active bool
	RecentBlock                                                                         uint64
	Signer                                                                              string
}

func (v c17Verdict) accept(keeper bool) bool {
	return v.Basic && v.Extra && v.Child && v.Gas && v.Recovered && v.Coinbase && v.Member && v.NotRecent &&
		v.Difficulty && (v.Active || !keeper)
}
func (v c17Verdict) onlyRecentFails(keeper bool) bool {
	w := v
	w.NotRecent = true
	return !v.NotRecent && w.accept(keeper)
}

// the property: direct child of the latest header, sealed by a member of the set in force who sealed
// none of the preceding floor(N/2) blocks, difficulty by turn, gas limits within bounds, validators
// listed only on epoch blocks (plus the standalone sanity rules and, for the keeper, client Active)
func (s *c17Spec) judge(h *bsctypes.Header, now uint64) c17Verdict {
	var v c17Verdict
	num := h.Height.RevisionHeight
	v.Basic = len(h.Extra) >= 97 &&
		common.BytesToHash(h.MixDigest) == (common.Hash{}) &&
		common.BytesToHash(h.UncleHash) == gethtypes.EmptyUncleHash
	if len(h.Extra) >= 97 && s.epoch != 0 {
		sb := len(h.Extra) - 97
		if num%s.epoch == 0 {
			v.Extra = sb%20 == 0
		} else {
			v.Extra = sb == 0
		}
	}
	ph, pok := c17Hash(s.latest)
	v.Child = pok && num == s.latest.Height.RevisionHeight+1 && common.BytesToHash(h.ParentHash) == ph
	p, g := new(big.Int).SetUint64(s.latest.GasLimit), new(big.Int).SetUint64(h.GasLimit)
	d := new(big.Int).Abs(new(big.Int).Sub(p, g))
	bound := new(big.Int).Div(p, big.NewInt(256))
	v.Gas = h.GasLimit <= 0x7fffffffffffffff && h.GasUsed <= h.GasLimit && d.Cmp(bound) < 0 && h.GasLimit >= 5000
	signer, ok := c17Recover(h, s.chainID)
	v.Recovered = ok
	v.Signer = signer.Hex()
	v.Coinbase = ok && signer == common.BytesToAddress(h.Coinbase)
	v.Member = ok && c17In(signer, s.cur)
	v.NotRecent = true
	n := uint64(len(s.cur))
	for b := uint64(1); b <= n/2 && b <= num; b++ {
		if who, seen := s.signerOf[num-b]; seen && ok && who == signer {
			v.NotRecent = false
			v.RecentBlock = num - b
			break
		}
	}
	if ok && n > 0 {
		inturn := s.cur[num%n] == signer
		v.Difficulty = (inturn && h.Difficulty == 2) || (!inturn && h.Difficulty == 1)
	}
	v.Active = !(s.consTime+s.trusting < now)
	return v
}

// bookkeeping after the client accepted h: the set announced at an epoch block takes effect
// exactly floor(N/2) blocks after it
func (s *c17Spec) accepted(h *bsctypes.Header) {
	num := h.Height.RevisionHeight
	if signer, ok := c17Recover(h, s.chainID); ok {
		s.signerOf[num] = signer
	}
	if num%s.epoch == 0 {
		s.pend = c17SortedSet(c17ParseVals(h.Extra))
		half := uint64(len(s.cur) / 2)
		s.hasSwitch = half < s.epoch
		s.switchAt = num + half
	}
	if s.hasSwitch && num == s.switchAt {
		s.cur = s.pend
		s.hasSwitch = false
	}
	s.limitAfter[num] = len(s.cur)/2 + 1
	s.latest = c17CopyHeader(h)
	s.consTime = h.Time
}

// ---------------------------------------------------------------- driving the real code

type c17StepDesc struct {
	Scenario string     `json:"scenario"`
	Block    uint64     `json:"block"`
	What     string     `json:"what"`
	Mode     string     `json:"mode"`
	Commit   bool       `json:"commit"`
	Accepted bool       `json:"accepted"`
	Err      string     `json:"err,omitempty"`
	Verdict  c17Verdict `json:"property_verdict"`
	Header   string     `json:"header"`
}

type c17World struct {
	t      *testing.T
	rep    *Report
	chain  *tibctesting.TestChain
	cdc    codec.BinaryCodec
	keeper clientkeeper.Keeper
	rnd    *rand.Rand

	scenario string
	name     string // chain name of the BSC client
	ctx      sdk.Context
	real     bool // true: the client lives in the committed app state, headers go through MsgUpdateClient
	only     string // present only corruptions whose name has this prefix
	exempt   bool // the scenario starts from a state outside the property's premises: no property verdicts
	now      uint64
	spec     *c17Spec
	keys     []c17Key // key pool of the scenario
	byAddr   map[common.Address]c17Key

	pool        map[string]uint64
	table       [][]byte
	consHeights []clienttypes.Height
	flush       func(w *c17World)
	init  []byte   // encoded initial state of the current case
	steps [][]byte // encoded steps
	descs []c17StepDesc
}

func c17Safely(f func() error) (err error) {
	defer func() {
		if r := recover(); r != nil {
			err = fmt.Errorf("panic: %v", r)
		}
	}()
	return f()
}

func (w *c17World) clientState(ctx sdk.Context) *bsctypes.ClientState {
	cs, ok := w.keeper.GetClientState(ctx, w.name)
	if !ok {
		w.t.Fatalf("client %s not found", w.name)
	}
	return cs.(*bsctypes.ClientState)
}

func (w *c17World) consAt(ctx sdk.Context, h clienttypes.Height) *bsctypes.ConsensusState {
	c, err := bsctypes.GetConsensusState(w.keeper.ClientStore(ctx, w.name), w.cdc, h)
	if err != nil {
		return nil
	}
	return c
}

// creates the client with the real CreateClient/Initialize and records the initial model state
func (w *c17World) create(hdr *bsctypes.Header, validators [][]byte, recents []bsctypes.Signer, trusting uint64) bool {
	cs := &bsctypes.ClientState{
		Header: *c17CopyHeader(hdr), ChainId: w.spec.chainID, Epoch: w.spec.epoch, BlockInteval: 3,
		Validators: validators, RecentSigners: recents, ContractAddress: make([]byte, 20), TrustingPeriod: trusting,
	}
	cons := &bsctypes.ConsensusState{Timestamp: hdr.Time, Number: hdr.Height, Root: hdr.Root}
	err := c17Safely(func() error { return w.keeper.CreateClient(w.ctx, w.name, cs, cons) })
	if err != nil {
		w.rep.Count("create:refused")
		return false
	}
	w.rep.Count("create:ok")
	w.consHeights = []clienttypes.Height{hdr.Height}
	w.init = w.stateTerm()

	sp := w.spec
	sp.latest = c17CopyHeader(hdr)
	sp.cur = c17SortedSet(validators)
	sp.pend = c17SortedSet(c17ParseVals(hdr.Extra))
	half := uint64(len(sp.cur) / 2)
	sp.hasSwitch = half >= 1 && half < sp.epoch
	sp.switchAt = hdr.Height.RevisionHeight + half
	sp.trusting = trusting
	sp.consTime = hdr.Time
	sp.limitAfter[hdr.Height.RevisionHeight] = len(sp.cur)/2 + 1
	for _, r := range recents {
		sp.signerOf[r.Height.RevisionHeight] = common.BytesToAddress(r.Validator)
	}
	return true
}

// the model state that corresponds to the real client state + client store right now
func (w *c17World) stateTerm() []byte {
	store := w.keeper.ClientStore(w.ctx, w.name)
	rs, err := bsctypes.GetRecentSigners(store)
	if err != nil {
		w.t.Fatal(err)
	}
	st := w.clientState(w.ctx)
	e := &c17Buf{}
	w.binHeader(e, &st.Header)
	e.num(st.Epoch)
	e.num(st.TrustingPeriod)
	w.refs(e, st.Validators)
	w.binRecents(e, rs)
	w.refs(e, c17Pending(w.cdc, store))
	var hs []clienttypes.Height
	seen := map[string]bool{}
	for i := len(w.consHeights) - 1; i >= 0; i-- {
		ht := w.consHeights[i]
		if w.consAt(w.ctx, ht) == nil || seen[ht.String()] {
			continue
		}
		seen[ht.String()] = true
		hs = append(hs, ht)
	}
	e.num(uint64(len(hs)))
	for _, ht := range hs {
		e.num(ht.RevisionNumber)
		e.num(ht.RevisionHeight)
		w.binCons(e, w.consAt(w.ctx, ht))
	}
	return e.b
}

// dump of the client store (oracle "a refused transaction changes nothing")
func (w *c17World) dump(ctx sdk.Context) string {
	store := w.keeper.ClientStore(ctx, w.name)
	it := store.Iterator(nil, nil)
	defer it.Close()
	h := sha256.New()
	for ; it.Valid(); it.Next() {
		fmt.Fprintf(h, "%x=%x;", it.Key(), it.Value())
	}
	return fmt.Sprintf("%x", h.Sum(nil))
}

// present presents one header.  mode "D": CheckHeaderAndUpdateState directly on a branch (discarded);
// "K": keeper.UpdateClient on a branch, kept iff commit and accepted; in a real scenario a committing
// step is a MsgUpdateClient transaction.
func (w *c17World) present(what, mode string, commit bool, h *bsctypes.Header) bool {
	rep := w.rep
	rep.Evaluations++
	h = c17CopyHeader(h)
	var accepted bool
	var errStr string
	proj := &c17Buf{}
	var verdict c17Verdict
	now := w.now
	modeN := 1
	before := c17TakeSnap(w.cdc, w.keeper.ClientStore(w.ctx, w.name), w.clientState(w.ctx))
	keeper := mode != "D"
	label := mode
	if keeper && w.real && commit {
		label = "M"
	}
	switch {
	case mode == "D":
		modeN = 0
		ctx, _ := w.ctx.CacheContext()
		store := w.keeper.ClientStore(ctx, w.name)
		cs := w.clientState(ctx)
		var newCS *bsctypes.ClientState
		var cons *bsctypes.ConsensusState
		err := c17Safely(func() error {
			a, b, e := cs.CheckHeaderAndUpdateState(ctx, w.cdc, store, c17CopyHeader(h))
			if e == nil {
				newCS, cons = a.(*bsctypes.ClientState), b.(*bsctypes.ConsensusState)
			}
			return e
		})
		accepted = err == nil
		if err != nil {
			errStr = err.Error()
			newCS, cons = w.clientState(ctx), nil
		}
		w.binProj(proj, before, store, newCS, cons)
		verdict = w.spec.judge(h, now)
		if accepted {
			w.checkEffect("direct", h, newCS, cons)
		}
	case w.real && commit:
		w.chain.Coordinator.UpdateTimeForChain(w.chain)
		now = uint64(w.chain.ProposedHeader.Time.Unix())
		verdict = w.spec.judge(h, now)
		dumpBefore := w.dump(w.chain.GetContext())
		msg, err := clienttypes.NewMsgUpdateClient(w.name, c17CopyHeader(h), w.chain.SenderAccount.GetAddress())
		if err != nil {
			w.t.Fatal(err)
		}
		_, err = w.chain.SendMsgs(msg)
		if acc := w.chain.App.AccountKeeper.GetAccount(w.chain.GetContext(), w.chain.SenderAccount.GetAddress()); acc != nil {
			_ = w.chain.SenderAccount.SetSequence(acc.GetSequence())
		}
		accepted = err == nil
		if err != nil {
			errStr = err.Error()
		}
		w.ctx = w.chain.GetContext()
		if !accepted && w.dump(w.ctx) != dumpBefore {
			rep.Fail("C17:refused-update-changed-store", "a refused MsgUpdateClient changed the client store", w.desc(what, label, commit, accepted, errStr, verdict, h))
		}
		w.binProj(proj, before, w.keeper.ClientStore(w.ctx, w.name), w.clientState(w.ctx), w.consAt(w.ctx, h.Height))
		if accepted {
			w.checkEffect("msg", h, w.clientState(w.ctx), w.consAt(w.ctx, h.Height))
		}
	default:
		ctx, write := w.ctx.CacheContext()
		ctx = ctx.WithBlockTime(time.Unix(int64(now), 0))
		verdict = w.spec.judge(h, now)
		err := c17Safely(func() error { return w.keeper.UpdateClient(ctx, w.name, c17CopyHeader(h)) })
		accepted = err == nil
		var pctx sdk.Context
		if accepted {
			pctx = ctx
			w.checkEffect("keeper", h, w.clientState(ctx), w.consAt(ctx, h.Height))
		} else {
			errStr = err.Error()
			pctx = w.ctx // the transaction rule: a refused update keeps nothing
		}
		w.binProj(proj, before, w.keeper.ClientStore(pctx, w.name), w.clientState(pctx), w.consAt(pctx, h.Height))
		if accepted && commit {
			write()
		}
	}
	desc := w.desc(what, label, commit, accepted, errStr, verdict, h)
	w.descs = append(w.descs, desc)
	se := &c17Buf{}
	se.num(uint64(modeN))
	se.bool(commit)
	se.num(now)
	w.binHeader(se, h)
	se.bool(accepted)
	se.b = append(se.b, proj.b...)
	w.steps = append(w.steps, se.b)

	res := "reject"
	if accepted {
		res = "accept"
	}
	rep.Count("step:" + label + ":" + res)
	rep.Count("what:" + what + ":" + res)
	rep.Nontrivial(w.scenario + "/" + what + "/" + res)

	// the repo's block hash against go-ethereum's
	if hh, ok := c17Hash(h); ok {
		var got common.Hash
		if err := c17Safely(func() error { got = h.Hash(); return nil }); err != nil || got != hh {
			rep.Fail("C17:block-hash-differs", "Header.Hash() differs from the keccak of the RLP-encoded header", desc)
		}
	}

	// property verdict
	if !w.exempt {
		want := verdict.accept(keeper)
		switch {
		case accepted && !want && verdict.onlyRecentFails(keeper):
			num, b := h.Height.RevisionHeight, verdict.RecentBlock
			limit := uint64(len(w.spec.cur)/2 + 1)
			grown := false
			for j := b + 1; j < num; j++ {
				if l, ok := w.spec.limitAfter[j]; ok && uint64(l) <= j-b {
					grown = true
				}
			}
			switch {
			case num < limit:
				rep.Count("finding:recent-signer-below-limit")
				rep.Fail("C17:recent-signer-below-limit", fmt.Sprintf("block %d sealed by %s accepted although the same validator sealed block %d, one of the preceding floor(N/2)=%d blocks (number < floor(N/2)+1: number-limit wraps in verifySeal)", num, verdict.Signer, b, limit-1), desc)
			case grown:
				rep.Count("finding:recent-signer-after-set-growth")
				rep.Fail("C17:recent-signer-after-set-growth", fmt.Sprintf("block %d sealed by %s accepted although the same validator sealed block %d, one of the preceding floor(N/2)=%d blocks (its recent-signer entry was pruned while the validator set was smaller)", num, verdict.Signer, b, limit-1), desc)
			default:
				rep.Fail("C17:recent-signer-accepted", "header accepted although its signer sealed one of the preceding floor(N/2) blocks", desc)
			}
		case accepted && !want:
			rep.Fail("C17:invalid-header-accepted", "header accepted although it violates the property's acceptance conditions", desc)
		case !accepted && want:
			rep.Fail("C17:valid-header-refused", "header refused although it satisfies all acceptance conditions of the property", desc)
		}
	}

	if accepted && commit && mode != "D" {
		w.consHeights = append(w.consHeights, h.Height)
		w.spec.accepted(h)
		if !w.exempt {
			got := c17SortedSet(w.clientState(w.ctx).Validators)
			if fmt.Sprint(got) != fmt.Sprint(w.spec.cur) {
				rep.Fail("C17:validator-set-differs", fmt.Sprintf("after block %d the client's validator set is not the one in force by the rotation rule (announced at an epoch block, in force floor(N/2) blocks later)", h.Height.RevisionHeight), desc)
			}
		}
	}
	if len(w.steps) >= 40 && w.flush != nil {
		w.flush(w) // continue in a new case that starts from the present real state (keeps case files balanced)
	}
	return accepted
}

// after acceptance the latest header and the consensus state of that height are the header's
func (w *c17World) checkEffect(level string, h *bsctypes.Header, cs *bsctypes.ClientState, cons *bsctypes.ConsensusState) {
	okH := false
	if cs != nil {
		a, _ := cs.Header.Marshal()
		b, _ := h.Marshal()
		okH = bytes.Equal(a, b)
	}
	okC := cons != nil && cons.Timestamp == h.Time && cons.Number == h.Height && bytes.Equal(cons.Root, h.Root)
	if !okH || !okC {
		w.rep.Fail("C17:accept-effect", "after acceptance ("+level+") the latest header / the consensus state at that height are not the accepted header's",
			map[string]any{"scenario": w.scenario, "block": h.Height.RevisionHeight, "latest_ok": okH, "consensus_ok": okC})
	}
}

func (w *c17World) desc(what, mode string, commit, accepted bool, errStr string, v c17Verdict, h *bsctypes.Header) c17StepDesc {
	if len(errStr) > 160 {
		errStr = errStr[:160]
	}
	return c17StepDesc{w.scenario, h.Height.RevisionHeight, what, mode, commit, accepted, errStr, v, c17CoqHeader(hxs, h, w.spec.chainID)}
}

// ---------------------------------------------------------------- the test

type c17CaseDesc struct {
	Scenario string        `json:"scenario"`
	Steps    []c17StepDesc `json:"steps"`
}

func TestC17(t *testing.T) {
	out := envOut(t)
	rep := newReport("C17")
	rep.Rule = "generated BSC header chains sealed with real secp256k1 keys over validator sets of 1-21 members with set changes at epochs (epoch length 2-12), in-turn/out-of-turn signers; per block the valid header plus single-field corruptions (each unsigned and re-sealed where meaningful) presented to CheckHeaderAndUpdateState (direct), keeper.UpdateClient and MsgUpdateClient; directed families per mechanism (link, gas bounds -1/0/+1, seal, recency window boundaries, difficulty, epoch extra-data, rotation, shrink/growth pruning, revision numbers, colliding store keys) then seeded random chains; non-trivial = distinct (scenario, corruption kind, outcome)"
	cs := &CaseSet{Prop: "C17", Imports: "Clients.Bsc Harness.C17", Mismatch: "c17_mismatches_raw", Shard: 1}

	coord := tibctesting.NewCoordinator(t, 1)
	chain := coord.GetChain(tibctesting.GetChainID(0))
	rep.Constants = map[string]string{
		"EmptyUncleHash": gethtypes.EmptyUncleHash.Hex(),
		"PrefixKeyRecentSingers":  bsctypes.PrefixKeyRecentSingers,
		"PrefixPendingValidators": bsctypes.PrefixPendingValidators,
	}
	if gethtypes.EmptyUncleHash.Hex() != "0x1dcc4de8dec75d7aab85b567b6ccd41ad312451b948a7413f0a142fd40d49347" {
		rep.Fail("C17:constant", "uncle hash constant differs from the model's", nil)
	}

	g := &c17Gen{t: t, rep: rep, cs: cs, chain: chain}
	g.directed()
	g.random()

	rep.Notes = append(rep.Notes,
		"hash and seal recovery of every header are computed by the harness (go-ethereum types.Header.Hash, own seal hash + crypto.SigToPub) and enter the model as header fields",
		"numbers, difficulties and times are kept below 2^62 (big.NewInt(int64(x)) in ToBscHeader)")
	// coqc has a fixed cost of several seconds per file: one shard per evaluation worker
	cs.Shard = (len(cs.Terms) + 13) / 14
	if cs.Shard < 1 {
		cs.Shard = 1
	}
	cs.Write(t, out)
	rep.Write(t, out)
}
