package harness

import (
	"crypto/sha256"
	"fmt"
	"strings"
	"testing"
	"time"
)

func tierN(quick, thorough int) int {
	if envTier() == "thorough" {
		return thorough
	}
	return quick
}

// helpers for directed families --------------------------------------------------------

func (h *NetH) sendOK(i int, p Pkt) Pkt { h.Send(i, p); return p }

// relay packet p one hop: update the client and present the genuine proof
func (h *NetH) hopRecv(at, from int, p Pkt) bool {
	h.UpdateClient(at, from)
	return h.Recv(at, p, ProofSpec{from, commitKey(p)}, h.latestKnown(at, from))
}
func (h *NetH) hopAck(at, from int, p Pkt, ack string) bool {
	h.UpdateClient(at, from)
	return h.Ack(at, p, ack, ProofSpec{from, ackKey(p)}, h.latestKnown(at, from))
}

// hopRecvAt / hopAckAt replay a message with the proof at an earlier height
// (the height the first, successful submission used: the fact was true then
// and the client still knows that height)
func (h *NetH) recvAt(at, from int, p Pkt, height uint64) bool {
	return h.Recv(at, p, ProofSpec{from, commitKey(p)}, height)
}
func (h *NetH) ackAt(at, from int, p Pkt, ack string, height uint64) bool {
	return h.Ack(at, p, ack, ProofSpec{from, ackKey(p)}, height)
}

const mockAck = "mock acknowledgement"
const unauthAck = "error:unauthorized"

// every single-field alteration of p
func alterations(h *NetH, p Pkt) []Pkt {
	var out []Pkt
	q := p
	q.Data = p.Data + "x"
	out = append(out, q)
	q = p
	q.Data = p.Data[:len(p.Data)-1]
	out = append(out, q)
	q = p
	q.Seq = p.Seq + 1
	out = append(out, q)
	q = p
	q.Src, q.Dst = p.Dst, p.Src
	out = append(out, q)
	for _, port := range []string{"NFT", "MT", "tibcmock", "nope"} {
		if port != p.Port {
			q = p
			q.Port = port
			out = append(out, q)
		}
	}
	for _, rel := range append([]string{""}, h.names...) {
		if rel != p.Relay {
			q = p
			q.Relay = rel
			out = append(out, q)
		}
	}
	for _, d := range h.names {
		if d != p.Dst {
			q = p
			q.Dst = d
			out = append(out, q)
		}
	}
	return out
}

// malformed relayer / user messages: every one must be refused and change nothing (the message-level
// ValidateBasic checks, CleanPacket.ValidateBasic, unknown next hops).  Added after the statement-
// coverage audit (tools/cover.sh) showed that no generated input reached these refusal branches.
func famMalformed() netFamily {
	return netFamily{"malformed-messages-are-refused-and-change-nothing", func(h *NetH) {
		A, B, C := h.names[0], h.names[1], h.names[2]
		p := h.sendOK(0, Pkt{1, A, B, "", "tibcmock", "~m1"})
		h.UpdateClient(1, 0)
		ht := h.latestKnown(1, 0)
		// receive: proof height 0, empty proof, sequence 0, empty data, ill-formed chain names
		h.Recv(1, p, ProofSpec{0, commitKey(p)}, 0)
		h.forgeNext = "empty"
		h.Recv(1, p, ProofSpec{0, commitKey(p)}, ht)
		for _, q := range []Pkt{
			{0, A, B, "", "tibcmock", "~m1"}, {1, A, B, "", "tibcmock", ""}, {1, "a", B, "", "tibcmock", "~m1"},
			{1, A, "short", "", "tibcmock", "~m1"}, {1, A, B, "x/y", "tibcmock", "~m1"}, {1, A + "/x", B, "", "tibcmock", "~m1"},
			{1, A, B + "%41", "", "tibcmock", "~m1"}, {1, strings.Repeat("n", 65), B, "", "tibcmock", "~m1"},
		} {
			h.Recv(1, q, ProofSpec{0, commitKey(p)}, ht)
			h.Send(0, q)
		}
		// sends to an unknown destination / through an unknown relay chain
		h.Send(0, Pkt{2, A, "ghostchain", "", "tibcmock", "~g"})
		h.Send(0, Pkt{2, A, B, "ghostchain", "tibcmock", "~g"})
		h.Recv(1, p, ProofSpec{0, commitKey(p)}, ht) // the genuine one
		// acknowledgement: height 0, empty proof, empty acknowledgement, sequence 0
		h.UpdateClient(0, 1)
		ha := h.latestKnown(0, 1)
		h.Ack(0, p, mockAck, ProofSpec{1, ackKey(p)}, 0)
		h.forgeNext = "empty"
		h.Ack(0, p, mockAck, ProofSpec{1, ackKey(p)}, ha)
		h.Ack(0, p, "", ProofSpec{1, ackKey(p)}, ha)
		h.Ack(0, Pkt{0, A, B, "", "tibcmock", "~m1"}, mockAck, ProofSpec{1, ackKey(p)}, ha)
		h.Ack(0, p, mockAck, ProofSpec{1, ackKey(p)}, ha) // genuine
		// clean requests: sequence 0, ill-formed names, unknown destination, unknown relay chain
		for _, cp := range []CPkt{
			{0, A, B, ""}, {1, A, "short", ""}, {1, A, B + "/x", ""}, {1, A, B, "r/"}, {1, "a", B, ""},
			{1, A, "ghostchain", ""}, {1, A, B, "ghostchain"},
		} {
			h.Clean(0, cp)
		}
		h.Clean(0, CPkt{1, A, B, ""}) // genuine
		h.UpdateClient(1, 0)
		hc := h.latestKnown(1, 0)
		// receive-clean: height 0, empty proof, sequence 0, ill-formed names, a source chain without client
		h.RecvClean(1, CPkt{1, A, B, ""}, ProofSpec{0, cleanKey(A, B)}, 0)
		h.forgeNext = "empty"
		h.RecvClean(1, CPkt{1, A, B, ""}, ProofSpec{0, cleanKey(A, B)}, hc)
		for _, cp := range []CPkt{{0, A, B, ""}, {1, A, "short", ""}, {1, A + "/", B, ""}, {1, "ghostchain", B, ""}, {1, A, B, "ghostchain"}} {
			h.RecvClean(1, cp, ProofSpec{0, cleanKey(A, B)}, hc)
		}
		// ... and at a relay chain that does not know the destination
		h.RecvClean(2, CPkt{1, A, "ghostchain", C}, ProofSpec{0, cleanKey(A, B)}, hc)
		h.RecvClean(1, CPkt{1, A, B, ""}, ProofSpec{0, cleanKey(A, B)}, hc) // genuine
	}}
}

// ---- C01 ---------------------------------------------------------------------------------

func famC01(t *testing.T) []netFamily {
	return []netFamily{
		{"genuine-proof-re-encoded-against-the-proof-spec", func(h *NetH) {
			// the commitment of packet P is sha256(data).  A relayer takes the genuine proof of P's
			// commitment, hashes the proven value himself and marks the leaf "value not pre-hashed":
			// every hash up to the root is unchanged, but the proof now reads "sha256(sha256(data)) is
			// stored" -- the commitment of the never-sent packet whose data is P's commitment
			A, B := h.names[0], h.names[1]
			p := h.sendOK(0, Pkt{1, A, B, "", "tibcmock", "~genuine-payload"})
			h.UpdateClient(1, 0)
			ht := h.latestKnown(1, 0)
			sum := sha256.Sum256([]byte(p.Data))
			forged := Pkt{1, A, B, "", "tibcmock", string(sum[:])}
			h.forgeNext = "rehash-value"
			h.Recv(1, forged, ProofSpec{0, commitKey(p)}, ht) // never committed by A
			h.forgeNext = "rehash-value"
			h.Recv(1, p, ProofSpec{0, commitKey(p)}, ht) // the genuine packet with the re-encoded proof
			h.recvAt(1, 0, p, ht)                        // genuine packet, genuine proof
			h.hopAck(0, 1, p, mockAck)
		}},
		{"direct-valid-and-every-alteration", func(h *NetH) {
			A, B := h.names[0], h.names[1]
			p := h.sendOK(0, Pkt{1, A, B, "", "tibcmock", "~payload"})
			h.UpdateClient(1, 0)
			ht := h.latestKnown(1, 0)
			for _, q := range alterations(h, p) {
				h.Recv(1, q, ProofSpec{0, commitKey(p)}, ht)
				h.Recv(1, q, ProofSpec{0, commitKey(q)}, ht)
			}
			h.Recv(1, p, ProofSpec{0, ackKey(p)}, ht)      // proof of another key
			h.Recv(1, p, ProofSpec{-1, ""}, ht)            // garbage
			h.Recv(1, p, ProofSpec{2, commitKey(p)}, ht)   // proof from the wrong chain
			h.Recv(1, p, ProofSpec{0, commitKey(p)}, ht+1) // height the client does not know
			h.Recv(1, p, ProofSpec{0, commitKey(p)}, ht-1) // height before the commitment
			h.Recv(2, p, ProofSpec{0, commitKey(p)}, ht)   // chain not involved
			h.Recv(1, p, ProofSpec{0, commitKey(p)}, ht)   // valid
		}},
		{"relayed-valid-and-alterations-at-both-hops", func(h *NetH) {
			A, B, C := h.names[0], h.names[1], h.names[2]
			h.SetRules(1, []string{A + "," + C + ",*"})
			p := h.sendOK(0, Pkt{1, A, C, B, "tibcmock", "~via"})
			h.UpdateClient(1, 0)
			h.UpdateClient(2, 0)
			// destination must not accept it from the source before the relay forwarded it
			h.Recv(2, p, ProofSpec{0, commitKey(p)}, h.latestKnown(2, 0))
			h.UpdateClient(2, 1)
			h.Recv(2, p, ProofSpec{1, commitKey(p)}, h.latestKnown(2, 1))
			for _, q := range alterations(h, p) {
				h.Recv(1, q, ProofSpec{0, commitKey(p)}, h.latestKnown(1, 0))
			}
			h.Recv(1, p, ProofSpec{0, commitKey(p)}, h.latestKnown(1, 0))
			h.UpdateClient(2, 1)
			for _, q := range alterations(h, p) {
				h.Recv(2, q, ProofSpec{1, commitKey(p)}, h.latestKnown(2, 1))
			}
			h.Recv(2, p, ProofSpec{1, commitKey(p)}, h.latestKnown(2, 1))
		}},
		{"no-client-for-prover", func(h *NetH) {
			A := h.names[0]
			p := Pkt{1, "ghostchain", A, "", "tibcmock", "~x"}
			h.Recv(0, p, ProofSpec{1, commitKey(p)}, 5)
		}},
	}
}

func TestC01(t *testing.T) {
	runNetProperty(t, "C01", []string{"C01:"}, famC01(t), tierN(24, 400),
		genCfg{Chains: 3, Ops: 40, Perturb: 45, Clean: true, Rules: true},
		"directed: a committed packet (direct and relayed) presented with every single-field alteration, every wrong proof kind/height/chain; random: seeded histories of send/update/recv/ack/clean/rules on 3 real chains with 45% altered relayer messages; non-trivial = history with accepted and rejected messages; distinct by full operation list")
}

// ---- C02 ---------------------------------------------------------------------------------

func famC02(t *testing.T) []netFamily {
	return []netFamily{
		{"duplicates-around-ack-and-clean", func(h *NetH) {
			A, B := h.names[0], h.names[1]
			var ps []Pkt
			for s := uint64(1); s <= 4; s++ {
				ps = append(ps, h.sendOK(0, Pkt{s, A, B, "", "tibcmock", "~p" + string(rune('0'+s))}))
			}
			h.UpdateClient(1, 0)
			h0 := h.latestKnown(1, 0) // all four commitments are provable at this height, for good
			h.recvAt(1, 0, ps[1], h0) // out of order: 2 first
			h.recvAt(1, 0, ps[1], h0) // duplicate
			h.recvAt(1, 0, ps[0], h0)
			h.hopAck(0, 1, ps[0], mockAck)
			h.recvAt(1, 0, ps[0], h0) // duplicate after ack (old proof still valid)
			h.hopRecv(1, 0, ps[0])    // duplicate after ack (commitment gone at the new height)
			h.hopAck(0, 1, ps[1], mockAck)
			h.Clean(0, CPkt{2, "", B, ""})
			h.UpdateClient(1, 0)
			h.RecvClean(1, CPkt{2, A, B, ""}, ProofSpec{0, cleanKey(A, B)}, h.latestKnown(1, 0))
			h.recvAt(1, 0, ps[0], h0) // duplicate after its receipt was cleaned
			h.recvAt(1, 0, ps[1], h0) // seq == clean point, receipt cleaned
			h.recvAt(1, 0, ps[2], h0) // clean point + 1: first delivery
			h.recvAt(1, 0, ps[2], h0)
			q := ps[3]
			q.Data = "~other"
			h.recvAt(1, 0, q, h0) // same key, other data
			h.recvAt(1, 0, ps[3], h0)
			h.recvAt(1, 0, ps[3], h0)
		}},
		{"partial-clean-with-two-and-three-digit-sequences", func(h *NetH) {
			// receipts and acknowledgements live under keys that end in the DECIMAL sequence: a partial
			// clean must remove exactly the sequences up to N, not whatever sorts between them as text
			// ("10".."19" lie between "1" and "2"); everything delivered above N stays protected
			A, B := h.names[0], h.names[1]
			var ps []Pkt
			for s := uint64(1); s <= 21; s++ {
				ps = append(ps, h.sendOK(0, Pkt{s, A, B, "", "tibcmock", fmt.Sprintf("~q%d", s)}))
			}
			h.UpdateClient(1, 0)
			h0 := h.latestKnown(1, 0)
			for _, s := range []int{1, 2, 3, 10, 11, 12, 19, 20, 21} {
				h.recvAt(1, 0, ps[s-1], h0)
			}
			h.hopAck(0, 1, ps[0], mockAck)
			h.hopAck(0, 1, ps[1], mockAck)
			h.Clean(0, CPkt{2, "", B, ""})
			h.UpdateClient(1, 0)
			h.RecvClean(1, CPkt{2, A, B, ""}, ProofSpec{0, cleanKey(A, B)}, h.latestKnown(1, 0))
			for _, s := range []int{1, 2, 3, 10, 11, 12, 19, 20, 21} {
				h.recvAt(1, 0, ps[s-1], h0) // replays of everything delivered: all refused
			}
			h.recvAt(1, 0, ps[3], h0) // 4: first delivery
			h.hopAck(0, 1, ps[2], mockAck)
			h.hopAck(0, 1, ps[9], mockAck) // the acknowledgement of 10 is still there to be proven
		}},
		{"duplicate-on-relay-hop", func(h *NetH) {
			A, B, C := h.names[0], h.names[1], h.names[2]
			h.SetRules(1, []string{"*,*,*"})
			p := h.sendOK(0, Pkt{1, A, C, B, "tibcmock", "~r"})
			h.UpdateClient(1, 0)
			hb := h.latestKnown(1, 0)
			h.recvAt(1, 0, p, hb)
			h.recvAt(1, 0, p, hb)
			h.UpdateClient(2, 1)
			hc := h.latestKnown(2, 1)
			h.recvAt(2, 1, p, hc)
			h.recvAt(2, 1, p, hc)
			h.hopAck(1, 2, p, mockAck)
			h.recvAt(1, 0, p, hb) // after the relay dropped its commitment
			h.recvAt(2, 1, p, hc)
			h.hopAck(0, 1, p, mockAck)
			h.Clean(0, CPkt{1, "", C, B})
			h.UpdateClient(1, 0)
			h.RecvClean(1, CPkt{1, A, C, B}, ProofSpec{0, cleanKey(A, C)}, h.latestKnown(1, 0))
			h.UpdateClient(2, 1)
			h.RecvClean(2, CPkt{1, A, C, B}, ProofSpec{1, cleanKey(A, C)}, h.latestKnown(2, 1))
			h.recvAt(1, 0, p, hb) // after cleanup on the relay
			h.recvAt(2, 1, p, hc) // after cleanup on the destination
		}},
	}
}

func TestC02(t *testing.T) {
	runNetProperty(t, "C02", []string{"C02:"}, famC02(t), tierN(24, 400),
		genCfg{Chains: 3, Ops: 45, Perturb: 15, Clean: true, Rules: true},
		"directed: duplicates immediately / after ack / after the receipt was cleaned / at the clean point / on the relay hop / same key other data; random: seeded histories with replays; non-trivial = history with accepted and rejected messages")
}

// ---- C03 ---------------------------------------------------------------------------------

func famC03(t *testing.T) []netFamily {
	return []netFamily{
		{"forged-and-misdirected-acks", func(h *NetH) {
			A, B, C := h.names[0], h.names[1], h.names[2]
			p1 := h.sendOK(0, Pkt{1, A, B, "", "tibcmock", "~one"})
			p2 := h.sendOK(0, Pkt{2, A, B, "", "tibcmock", "~two"})
			pc := h.sendOK(0, Pkt{1, A, C, "", "tibcmock", "~toC"})
			h.UpdateClient(0, 1)
			h.Ack(0, p1, mockAck, ProofSpec{1, ackKey(p1)}, h.latestKnown(0, 1)) // before it was written
			h.hopRecv(1, 0, p1)
			h.hopRecv(2, 0, pc)
			h.UpdateClient(0, 1)
			h.UpdateClient(0, 2)
			ht := h.latestKnown(0, 1)
			h.Ack(0, p1, unauthAck, ProofSpec{1, ackKey(p1)}, ht) // error instead of success
			h.Ack(0, p1, "forged", ProofSpec{1, ackKey(p1)}, ht)
			h.Ack(0, p2, mockAck, ProofSpec{1, ackKey(p1)}, ht)                     // ack of another packet
			h.Ack(0, p1, mockAck, ProofSpec{2, ackKey(pc)}, h.latestKnown(0, 2))    // proven from the wrong chain
			h.Ack(0, pc, mockAck, ProofSpec{1, ackKey(p1)}, ht)                     // same sequence, other destination
			for _, q := range alterations(h, p1) {
				h.Ack(0, q, mockAck, ProofSpec{1, ackKey(p1)}, ht)
			}
			h.Ack(1, p1, mockAck, ProofSpec{1, ackKey(p1)}, ht) // on a chain that did not send it
			h.Ack(0, p1, mockAck, ProofSpec{1, ackKey(p1)}, ht) // valid
			h.Ack(0, p1, mockAck, ProofSpec{1, ackKey(p1)}, ht) // second submission
			h.hopRecv(1, 0, p2)
			h.hopAck(0, 1, p2, mockAck)
		}},
		{"relay-pass-through", func(h *NetH) {
			A, B, C := h.names[0], h.names[1], h.names[2]
			h.SetRules(1, []string{A + "," + C + ",tibcmock"})
			p := h.sendOK(0, Pkt{1, A, C, B, "tibcmock", "~ok"})
			u := h.sendOK(0, Pkt{2, A, C, B, "NFT", "~refused"})
			h.hopRecv(1, 0, p)
			h.hopRecv(1, 0, u) // unauthorised: error ack at the relay
			h.hopRecv(2, 1, p)
			h.UpdateClient(0, 1)
			h.Ack(0, p, mockAck, ProofSpec{1, ackKey(p)}, h.latestKnown(0, 1)) // relay has not passed it yet
			h.UpdateClient(1, 2)
			h.Ack(1, p, unauthAck, ProofSpec{2, ackKey(p)}, h.latestKnown(1, 2)) // altered on the way
			h.Ack(1, p, mockAck, ProofSpec{2, ackKey(p)}, h.latestKnown(1, 2))
			h.Ack(1, p, mockAck, ProofSpec{2, ackKey(p)}, h.latestKnown(1, 2)) // again
			h.hopAck(0, 1, p, mockAck)
			h.hopAck(0, 1, u, unauthAck)
			h.hopAck(0, 1, u, unauthAck)
		}},
		{"refusal-at-the-relay-is-final", func(h *NetH) {
			// the error acknowledgement a relay chain wrote for a refused packet stays what it is:
			// after the rules change, replays of the receive must not lead to a second, different
			// acknowledgement for the same packet (written over the first one by the pass-through)
			A, B, C := h.names[0], h.names[1], h.names[2]
			h.SetRules(1, []string{A + "," + C + ",NFT"})
			p := h.sendOK(0, Pkt{1, A, C, B, "tibcmock", "~refused-first"})
			h.UpdateClient(1, 0)
			hb := h.latestKnown(1, 0)
			h.recvAt(1, 0, p, hb) // refused: error acknowledgement on B
			h.hopAck(0, 1, p, unauthAck)
			h.SetRules(1, []string{"*,*,*"})
			h.recvAt(1, 0, p, hb) // the same message again (old proof, old height)
			h.hopRecv(1, 0, p)
			h.hopRecv(2, 1, p)
			h.hopAck(1, 2, p, mockAck) // would overwrite B's error acknowledgement
			h.hopAck(0, 1, p, mockAck)
		}},
	}
}

func TestC03(t *testing.T) {
	runNetProperty(t, "C03", []string{"C03:"}, famC03(t), tierN(24, 400),
		genCfg{Chains: 3, Ops: 45, Perturb: 35, Clean: true, Rules: true},
		"directed: forged/altered/misdirected/premature/repeated acknowledgements, direct and through a relay; random: seeded histories; non-trivial = history with accepted and rejected messages")
}

// ---- C09 ---------------------------------------------------------------------------------

func famC09(t *testing.T) []netFamily {
	return []netFamily{
		{"interleaved-good-and-bad-sends", func(h *NetH) {
			A, B, C := h.names[0], h.names[1], h.names[2]
			h.Send(0, Pkt{2, A, B, "", "tibcmock", "~early"})     // wrong sequence
			h.Send(0, Pkt{0, A, B, "", "tibcmock", "~zero"})      // zero
			h.Send(0, Pkt{1, A, B, "", "tibcmock", ""})           // empty data
			h.Send(0, Pkt{1, A, "nochainhere", "", "tibcmock", "~x"}) // unknown destination
			h.Send(0, Pkt{1, A, B, "norelayhere", "tibcmock", "~x"})  // unknown relay
			h.Send(0, Pkt{1, B, A, "", "tibcmock", "~x"})         // not our chain as source
			h.Send(0, Pkt{1, A, "bad/name99", "", "tibcmock", "~x"})
			p1 := h.sendOK(0, Pkt{1, A, B, "", "tibcmock", "~1"})
			h.Send(0, Pkt{1, A, B, "", "tibcmock", "~again"}) // reuse
			h.sendOK(0, Pkt{1, A, C, "", "tibcmock", "~c1"})
			h.sendOK(0, Pkt{2, A, B, "", "NFT", "~2"})
			h.hopRecv(1, 0, p1)
			in := h.sendOK(1, Pkt{1, B, A, "", "tibcmock", "~in"})
			h.hopRecv(0, 1, in) // inbound traffic on the reverse pair
			h.Send(0, Pkt{4, A, B, "", "tibcmock", "~gap"})
			h.sendOK(0, Pkt{3, A, B, C, "tibcmock", "~3"})
			h.sendOK(0, Pkt{2, A, C, B, "tibcmock", "~c2"})
		}},
	}
}

// token sends through the real NFT / MT modules: a send that must fail (token not owned, amount not
// held, unknown destination) leaves the ledgers, the sequence counter and the commitments untouched
// and announces nothing; a successful one takes the token and the next sequence together
func c09Send(h *AppH, o *tokOracle, mod string, i, k int, mclass, id string, amt uint64, d int, receiver, relay string) {
	real := mclass
	if strings.HasPrefix(mclass, "tibc-") {
		real = h.realClass(i, mod, strings.TrimPrefix(mclass, "tibc-"))
	}
	dest := "nochainhere"
	if d >= 0 {
		dest = h.names[d]
	}
	pre := h.Ledger(i)
	seqBefore := h.chains[i].App.TIBCKeeper.PacketKeeper.GetNextSequenceSend(h.chains[i].GetContext(), h.names[i], dest)
	owner := h.addr(i, k)
	held := uint64(0)
	if mod == "NFT" {
		for _, tk := range pre.NftTokens {
			if tk.Class == mclass && tk.ID == id && tk.Owner == owner {
				held = 1
			}
		}
	} else {
		for _, b := range pre.MtBal {
			if b.Class == mclass && b.ID == id && b.Owner == owner {
				held = b.Amount
			}
		}
	}
	var ok bool
	if mod == "NFT" {
		ok = h.NftSend(i, k, real, id, receiver, dest, relay)
	} else {
		ok = h.MtSend(i, k, real, id, receiver, dest, relay, amt)
	}
	seqAfter := h.chains[i].App.TIBCKeeper.PacketKeeper.GetNextSequenceSend(h.chains[i].GetContext(), h.names[i], dest)
	in := map[string]any{"module": mod, "chain": i, "user": k, "class": mclass, "id": id, "amount": amt, "dest": dest, "held": held}
	if ok && (held < amt || d < 0) {
		h.Fails = append(h.Fails, OracleFailure{"C09:send-without-token", "a transfer of a token the sender does not hold (or to an unknown chain) was accepted: sequence consumed and packet committed without a matching lock or burn", in})
	}
	if !ok && (seqAfter != seqBefore || !sameTokenState(pre, h.Ledger(i))) {
		h.Fails = append(h.Fails, OracleFailure{"C09:failed-send-left-trace", "a refused transfer changed the sequence counter or the ledgers", in})
	}
	if ok && seqAfter != seqBefore+1 {
		h.Fails = append(h.Fails, OracleFailure{"C09:sequence-gap", "a successful transfer did not consume exactly one sequence", in})
	}
	if ok {
		if f := o.trackSend(i, mod, mclass, id, amt, owner, held); f != nil {
			o.settle(f)
		}
	}
}

func famC09App() []appFamily {
	return []appFamily{
		{"token-sends-all-or-nothing", func(h *AppH, o *tokOracle) {
			A, B := h.names[0], h.names[1]
			mintNative(h, o, 0, 1, "kitty", "tom")
			mintNative(h, o, 1, 2, "doggo", "rex")
			cls, _ := h.MtIssue(0, 1)
			id, _ := h.MtMintNew(0, 1, cls, 100, 1)
			o.mtMinted["0|"+cls+"|"+id] = 100
			c09Send(h, o, "NFT", 0, 2, "kitty", "tom", 1, 1, h.addr(1, 2), "")  // not the owner
			c09Send(h, o, "NFT", 0, 1, "kitty", "nosuchid", 1, 1, h.addr(1, 2), "")
			c09Send(h, o, "NFT", 0, 1, "kitty", "tom", 1, -1, h.addr(1, 2), "") // unknown destination
			c09Send(h, o, "NFT", 0, 1, "kitty", "tom", 1, 1, h.addr(1, 2), "")  // good: sequence 1
			c09Send(h, o, "MT", 0, 2, cls, id, 5, 1, h.addr(1, 2), "")         // holds nothing
			c09Send(h, o, "MT", 0, 1, cls, id, 101, 1, h.addr(1, 2), "")       // more than held
			c09Send(h, o, "MT", 0, 1, cls, id, 60, 1, h.addr(1, 2), "")        // good: sequence 2
			c09Send(h, o, "NFT", 0, 1, "kitty", "tom", 1, 1, h.addr(1, 2), "")  // already gone (in escrow)
			v := vclass("NFT", "kitty", A, B)
			c09Send(h, o, "NFT", 1, 1, v, "tom", 1, 0, h.addr(0, 1), "") // voucher, not the holder: back towards the origin
			c09Send(h, o, "NFT", 1, 3, v, "tom", 1, 0, h.addr(0, 3), "")
			c09Send(h, o, "NFT", 1, 2, "doggo", "rex", 1, 0, h.addr(0, 2), "") // B's own native: sequence 1 of (B,A)
			vm := vclass("MT", cls, A, B)
			c09Send(h, o, "MT", 1, 1, vm, id, 1, 0, h.addr(0, 1), "")  // voucher units, not a holder
			c09Send(h, o, "MT", 1, 2, vm, id, 61, 0, h.addr(0, 1), "") // one more than held
			c09Send(h, o, "NFT", 1, 2, v, "tom", 1, 0, h.addr(0, 1), "") // the holder: sequence 2 of (B,A)
			c09Send(h, o, "MT", 1, 2, vm, id, 60, 0, h.addr(0, 1), "")   // sequence 3 of (B,A)
		}},
	}
}

func init() { netPropAppFams["C09"] = famC09App }

func TestC09(t *testing.T) {
	runNetProperty(t, "C09", []string{"C09:"}, famC09(t), tierN(24, 400),
		genCfg{Chains: 3, Ops: 40, Perturb: 15, Clean: true, Rules: false},
		"directed: every failing send kind interleaved with successful sends to two destinations and inbound traffic; random: seeded histories (about a third of the sends malformed); non-trivial = history with accepted and rejected messages")
}

// ---- C10 ---------------------------------------------------------------------------------

func famC10(t *testing.T) []netFamily {
	return []netFamily{
		{"clean-around-unacknowledged", func(h *NetH) {
			A, B := h.names[0], h.names[1]
			var ps []Pkt
			for s := uint64(1); s <= 5; s++ {
				ps = append(ps, h.sendOK(0, Pkt{s, A, B, "", "tibcmock", "~p" + string(rune('0'+s))}))
			}
			h.Clean(0, CPkt{1, "", B, ""}) // nothing acknowledged yet
			h.UpdateClient(1, 0)
			hOld := h.latestKnown(1, 0)
			for _, i := range []int{0, 2, 3} { // ack 1, 3, 4 (2 and 5 outstanding)
				h.hopRecv(1, 0, ps[i])
				h.hopAck(0, 1, ps[i], mockAck)
			}
			h.Clean(0, CPkt{0, "", B, ""})
			h.Clean(0, CPkt{3, "", B, ""}) // 2 is unacknowledged
			h.Clean(0, CPkt{4, "", B, ""})
			h.Clean(0, CPkt{5, "", B, ""}) // above max ack
			h.UpdateClient(1, 0)
			h.RecvClean(1, CPkt{1, A, B, ""}, ProofSpec{0, cleanKey(A, B)}, h.latestKnown(1, 0)) // source has not cleaned
			h.Clean(0, CPkt{1, "", B, ""})
			h.Clean(0, CPkt{1, "", B, ""}) // twice
			h.UpdateClient(1, 0)
			ht := h.latestKnown(1, 0)
			h.RecvClean(1, CPkt{2, A, B, ""}, ProofSpec{0, cleanKey(A, B)}, ht) // more than the source cleaned
			h.RecvClean(1, CPkt{1, A, B, ""}, ProofSpec{0, commitKey(ps[1])}, ht) // wrong proof
			h.RecvClean(1, CPkt{1, A, B, ""}, ProofSpec{-1, ""}, ht)
			h.RecvClean(1, CPkt{1, A, B, ""}, ProofSpec{0, cleanKey(A, B)}, ht)
			h.RecvClean(1, CPkt{1, A, B, ""}, ProofSpec{0, cleanKey(A, B)}, ht)
			h.hopRecv(1, 0, ps[0])          // refused for good
			h.recvAt(1, 0, ps[0], hOld)     // ... also with the proof that was valid when it was first delivered
			h.hopAck(0, 1, ps[0], mockAck)  // refused for good
			h.hopRecv(1, 0, ps[1])          // 2 still deliverable
			h.hopAck(0, 1, ps[1], mockAck)
			h.Clean(0, CPkt{4, "", B, ""})
			h.UpdateClient(1, 0)
			h.RecvClean(1, CPkt{4, A, B, ""}, ProofSpec{0, cleanKey(A, B)}, h.latestKnown(1, 0))
			for _, q := range ps[:4] {
				h.recvAt(1, 0, q, hOld) // every sequence up to the clean point, old proofs
			}
			h.hopRecv(1, 0, ps[4])
		}},
		{"clean-with-two-digit-sequences-and-out-of-order-acks", func(h *NetH) {
			A, B := h.names[0], h.names[1]
			var ps []Pkt
			for s := uint64(1); s <= 12; s++ {
				ps = append(ps, h.sendOK(0, Pkt{s, A, B, "", "tibcmock", fmt.Sprintf("~q%d", s)}))
			}
			for _, i := range []int{0, 1, 2, 3, 4, 9, 10} {
				h.hopRecv(1, 0, ps[i])
			}
			for _, i := range []int{0, 2, 3, 4, 10} { // 2 delivered but unacknowledged; 6..9, 12 in flight
				h.hopAck(0, 1, ps[i], mockAck)
			}
			h.Clean(0, CPkt{5, "", B, ""})  // 2 is still live
			h.Clean(0, CPkt{11, "", B, ""}) // so are 6..10
			h.Clean(0, CPkt{1, "", B, ""})
			h.hopAck(0, 1, ps[1], mockAck)
			h.Clean(0, CPkt{5, "", B, ""})
			h.hopAck(0, 1, ps[9], mockAck)
			h.Clean(0, CPkt{10, "", B, ""}) // 6..9 live
			h.Clean(0, CPkt{11, "", B, ""})
		}},
		{"clean-through-relay", func(h *NetH) {
			A, B, C := h.names[0], h.names[1], h.names[2]
			h.SetRules(1, []string{"*,*,*"})
			p := h.sendOK(0, Pkt{1, A, C, B, "tibcmock", "~r1"})
			h.hopRecv(1, 0, p)
			hb := h.latestKnown(1, 0)
			h.hopRecv(2, 1, p)
			hc := h.latestKnown(2, 1)
			h.UpdateClient(2, 1)
			h.RecvClean(2, CPkt{1, A, C, B}, ProofSpec{1, cleanKey(A, C)}, h.latestKnown(2, 1)) // nothing cleaned yet
			h.hopAck(1, 2, p, mockAck)
			h.Clean(0, CPkt{1, "", C, B}) // source has not seen the ack
			h.hopAck(0, 1, p, mockAck)
			h.Clean(0, CPkt{1, "", C, B})
			h.UpdateClient(1, 0)
			h.RecvClean(1, CPkt{1, A, C, B}, ProofSpec{0, cleanKey(A, C)}, h.latestKnown(1, 0))
			h.UpdateClient(2, 1)
			h.RecvClean(2, CPkt{1, A, C, B}, ProofSpec{1, cleanKey(A, C)}, h.latestKnown(2, 1))
			h.hopRecv(1, 0, p)
			h.hopRecv(2, 1, p)
			h.recvAt(1, 0, p, hb)
			h.recvAt(2, 1, p, hc)
		}},
	}
}

func TestC10(t *testing.T) {
	runNetProperty(t, "C10", []string{"C10:"}, append(famC10(t), famC02(t)[1]), tierN(24, 400),
		genCfg{Chains: 3, Ops: 50, Perturb: 10, Clean: true, Rules: true},
		"directed: cleans below/at/above the clean point and max-ack, past unacknowledged packets, repeated, out-of-order acks around N, destination before source, through a relay, replays after clean; random: seeded histories with 7% clean operations; non-trivial = history with accepted and rejected messages")
}

// ---- C11 ---------------------------------------------------------------------------------

func famC11(t *testing.T) []netFamily {
	mk := func(name string, rules []string, port string, destKnown bool) netFamily {
		return netFamily{name, func(h *NetH) {
			A, B, C := h.names[0], h.names[1], h.names[2]
			dst := C
			if !destKnown {
				dst = "elsewhere42"
			}
			if rules != nil {
				h.SetRules(1, rules)
			}
			p := Pkt{1, A, dst, B, port, "~relay-me"}
			h.Send(0, p)
			if !destKnown {
				// the source only needs a client for the relay chain
			}
			ok := h.hopRecv(1, 0, p)
			h.hopRecv(1, 0, p)
			if destKnown {
				h.hopRecv(2, 1, p)
				if ok {
					h.hopAck(1, 2, p, mockAck)
				}
			}
			h.hopAck(0, 1, p, mockAck)
			h.hopAck(0, 1, p, unauthAck)
		}}
	}
	A, C := "testchain0", "testchain2"
	refusedThenAllowed := netFamily{"refused-then-rules-changed-then-replayed", func(h *NetH) {
		A, B, C := h.names[0], h.names[1], h.names[2]
		h.SetRules(1, []string{A + "," + C + ",NFT"})
		p := h.sendOK(0, Pkt{1, A, C, B, "tibcmock", "~refuse-me"})
		h.UpdateClient(1, 0)
		hb := h.latestKnown(1, 0)
		h.recvAt(1, 0, p, hb) // refused: error acknowledgement
		h.hopAck(0, 1, p, unauthAck)
		h.SetRules(1, []string{"*,*,*"})
		h.recvAt(1, 0, p, hb) // the same message again, now that the rules would allow it
		h.hopRecv(1, 0, p)
		h.hopRecv(2, 1, p)
	}}
	rolledBack := netFamily{"rule-changes-that-are-rolled-back", func(h *NetH) {
		// a rule change that succeeds in a discarded branch of the state (failed proposal / failed
		// transaction) must not influence what the relay chain does
		A, B, C := h.names[0], h.names[1], h.names[2]
		h.SetRules(1, []string{C + "," + A + ",*"}) // only C -> A
		h.SetRulesDiscarded(1, []string{"*,*,*"})
		p1 := h.sendOK(0, Pkt{1, A, C, B, "tibcmock", "~still-refused"})
		h.hopRecv(1, 0, p1) // refused: error acknowledgement, no commitment
		h.hopRecv(2, 1, p1)
		h.hopAck(0, 1, p1, unauthAck)
		h.SetRules(1, []string{"*,*,*"})
		h.SetRulesDiscarded(1, []string{})
		h.SetRulesDiscarded(1, []string{A + ",nowhere99,*"})
		p2 := h.sendOK(0, Pkt{2, A, C, B, "tibcmock", "~still-allowed"})
		h.hopRecv(1, 0, p2) // forwarded
		h.hopRecv(2, 1, p2)
		h.hopAck(1, 2, p2, mockAck)
		h.hopAck(0, 1, p2, mockAck)
	}}
	return []netFamily{
		refusedThenAllowed,
		rolledBack,
		mk("allowed-exact", []string{A + "," + C + ",tibcmock"}, "tibcmock", true),
		mk("allowed-wildcards", []string{"*,*,*"}, "tibcmock", true),
		mk("refused-no-rules", nil, "tibcmock", true),
		mk("refused-empty-rules", []string{}, "tibcmock", true),
		mk("refused-other-port", []string{A + "," + C + ",NFT"}, "tibcmock", true),
		mk("refused-other-dest", []string{A + ",testchain1,*"}, "tibcmock", true),
		mk("allowed-nft-port-passes-without-app-logic", []string{"*,*,NFT"}, "NFT", true),
		mk("allowed-but-destination-unknown", []string{"*,*,*"}, "tibcmock", false),
		mk("refused-and-destination-unknown", []string{}, "tibcmock", false),
	}
}

func TestC11(t *testing.T) {
	runNetProperty(t, "C11", []string{"C11:"}, famC11(t), tierN(24, 400),
		genCfg{Chains: 3, Ops: 45, Perturb: 15, Clean: false, Rules: true},
		"directed: rule sets x ports x destination known/unknown, full relay life cycle incl. replays; random: seeded histories with rule changes; non-trivial = history with accepted and rejected messages")
}

// ---- C13 ---------------------------------------------------------------------------------

func famC13(t *testing.T) []netFamily {
	return []netFamily{
		{"port-and-relay-edits-on-recv-and-ack", func(h *NetH) {
			A, B, C := h.names[0], h.names[1], h.names[2]
			h.SetRules(1, []string{"*,*,*"})
			h.SetRules(2, []string{"*,*,*"})
			d := h.sendOK(0, Pkt{1, A, B, "", "tibcmock", "~direct"})
			v := h.sendOK(0, Pkt{1, A, C, B, "tibcmock", "~via"})
			h.UpdateClient(1, 0)
			h.UpdateClient(2, 0)
			for _, q := range alterations(h, d) {
				if q.Src == d.Src && q.Dst == d.Dst && q.Seq == d.Seq && q.Data == d.Data {
					h.Recv(1, q, ProofSpec{0, commitKey(d)}, h.latestKnown(1, 0))
				}
			}
			for _, q := range alterations(h, v) {
				if q.Src == v.Src && q.Dst == v.Dst && q.Seq == v.Seq && q.Data == v.Data {
					h.Recv(2, q, ProofSpec{0, commitKey(v)}, h.latestKnown(2, 0)) // around the relay
					h.Recv(1, q, ProofSpec{0, commitKey(v)}, h.latestKnown(1, 0))
				}
			}
			// the acknowledgement of the mock application presented to the token applications (port edited on
			// the way back): its bytes do not decode as a token acknowledgement, the message must fail
			// (added after the coverage audit: the "undecodable acknowledgement" branch had no input)
			h.Recv(1, d, ProofSpec{0, commitKey(d)}, h.latestKnown(1, 0))
			h.UpdateClient(0, 1)
			for _, port := range []string{"NFT", "MT"} {
				q := d
				q.Port = port
				h.Ack(0, q, mockAck, ProofSpec{1, ackKey(d)}, h.latestKnown(0, 1))
			}
			h.Ack(0, d, mockAck, ProofSpec{1, ackKey(d)}, h.latestKnown(0, 1))
		}},
	}
}

func TestC13(t *testing.T) {
	runNetProperty(t, "C13", []string{"C13:"}, famC13(t), tierN(24, 400),
		genCfg{Chains: 3, Ops: 40, Perturb: 60, Clean: false, Rules: true},
		"directed: every alteration of port / relay chain of a committed direct and relayed packet in receive messages at every chain; random: seeded histories with 60% altered relayer messages; non-trivial = history with accepted and rejected messages")
}

// ---- C14 (packet part): expired clients ---------------------------------------------------

func famC14(t *testing.T) []netFamily {
	return []netFamily{
		{"expired-client-refuses-everything", func(h *NetH) {
			A, B := h.names[0], h.names[1]
			p1 := h.sendOK(0, Pkt{1, A, B, "", "tibcmock", "~1"})
			p2 := h.sendOK(0, Pkt{2, A, B, "", "tibcmock", "~2"})
			h.hopRecv(1, 0, p1)
			h.hopAck(0, 1, p1, mockAck)
			h.Clean(0, CPkt{1, "", B, ""})
			h.UpdateClient(1, 0)
			ht := h.latestKnown(1, 0)
			h.UpdateClient(0, 1)
			h.Tick(14*24*time.Hour - 30*time.Second) // just inside the trusting period
			h.Recv(1, p2, ProofSpec{0, commitKey(p2)}, ht)
			h.Tick(14 * 24 * time.Hour) // past it
			p3 := h.sendOK(0, Pkt{3, A, B, "", "tibcmock", "~3"})
			_ = p3
			h.RecvClean(1, CPkt{1, A, B, ""}, ProofSpec{0, cleanKey(A, B)}, ht)
			h.Recv(1, Pkt{2, A, B, "", "tibcmock", "~2"}, ProofSpec{0, commitKey(p2)}, ht)
			h.Ack(0, p2, mockAck, ProofSpec{1, ackKey(p2)}, h.latestKnown(0, 1))
			h.UpdateClient(1, 0)
			h.UpdateClient(0, 1)
		}},
	}
}
