package harness

// C15 — privileged operations need the right authority and never clobber clients.
// Drives the real Msg services of one SimApp (through BaseApp with signed
// transactions, and directly the way the governance module executes proposal
// messages), dumps the registry from the raw tibc store after every request and
// hands (request, accepted?, dump) to the Coq model (Clients/Registry.v).

import (
	"encoding/json"
	"bytes"
	"context"
	"crypto/sha256"
	"encoding/hex"
	"fmt"
	"math/rand"
	"sort"
	"strings"
	"testing"
	"time"

	storetypes "cosmossdk.io/store/types"
	sdk "github.com/cosmos/cosmos-sdk/types"
	authtypes "github.com/cosmos/cosmos-sdk/x/auth/types"
	govtypes "github.com/cosmos/cosmos-sdk/x/gov/types"

	clienttypes "github.com/bianjieai/tibc-go/modules/tibc/core/02-client/types"
	commitmenttypes "github.com/bianjieai/tibc-go/modules/tibc/core/23-commitment/types"
	host "github.com/bianjieai/tibc-go/modules/tibc/core/24-host"
	routingtypes "github.com/bianjieai/tibc-go/modules/tibc/core/26-routing/types"
	"github.com/bianjieai/tibc-go/modules/tibc/core/exported"
	tibckeeper "github.com/bianjieai/tibc-go/modules/tibc/core/keeper"
	coretypes "github.com/bianjieai/tibc-go/modules/tibc/core/types"
	ibctmtypes "github.com/bianjieai/tibc-go/modules/tibc/light-clients/07-tendermint/types"
	ethtypes "github.com/bianjieai/tibc-go/modules/tibc/light-clients/09-eth/types"
	tibctesting "github.com/bianjieai/tibc-go/modules/tibc/testing"
)

type c15Client struct {
	Type  int               `json:"type"`
	State string            `json:"state"` // hex
	Cons  map[string]string `json:"cons"`  // hex height key -> hex value
}

type c15Dump struct {
	Clients  map[string]c15Client `json:"clients"`
	Relayers map[string][]string  `json:"relayers"`
	Rules    []string             `json:"rules"`
	HasRules bool                 `json:"has_rules"`
}

type c15Step struct {
	Op        string `json:"op"`
	Via       string `json:"via"`       // direct | baseapp | forged
	Requester string `json:"requester"` // gov | user<k>
	Name      string `json:"name,omitempty"`
	Payload   string `json:"payload,omitempty"`
	OK        bool   `json:"ok"`
	Err       string `json:"err,omitempty"`
}

type c15H struct {
	t      *testing.T
	coord  *tibctesting.Coordinator
	a      *tibctesting.TestChain
	peers  []*tibctesting.TestChain
	gov    string
	ms     coretypes.MsgServer
	steps  []string
	Descs  []c15Step
	regs   map[string][]string // harness-side record of accepted relayer registrations
	Fails  []OracleFailure
	ethSeq uint64
}

func newC15H(t *testing.T) *c15H {
	coord := tibctesting.NewCoordinator(t, 3)
	h := &c15H{t: t, coord: coord, regs: map[string][]string{}}
	for i := 0; i < 3; i++ {
		c := coord.GetChain(tibctesting.GetChainID(i))
		c.App.TIBCKeeper.ClientKeeper.SetChainName(c.GetContext(), c.ChainName)
		c.NextBlock()
		coord.IncrementTime()
		if i == 0 {
			h.a = c
		} else {
			h.peers = append(h.peers, c)
		}
	}
	h.gov = authtypes.NewModuleAddress(govtypes.ModuleName).String()
	h.ms = tibckeeper.NewMsgServerImpl(*h.a.App.TIBCKeeper)
	return h
}

func (h *c15H) user(k int) string { return h.a.SenderAccounts[k].SenderAccount.GetAddress().String() }

func (h *c15H) tibcStore() storetypes.KVStore {
	return h.a.GetContext().KVStore(h.a.App.GetKey(host.StoreKey))
}

func (h *c15H) digest() string {
	it := h.tibcStore().Iterator(nil, nil)
	defer it.Close()
	hs := sha256.New()
	for ; it.Valid(); it.Next() {
		hs.Write(it.Key())
		hs.Write([]byte{0})
		hs.Write(it.Value())
		hs.Write([]byte{1})
	}
	return hex.EncodeToString(hs.Sum(nil))
}

func c15TypeCode(t string) int {
	switch t {
	case exported.Tendermint:
		return 7
	case exported.BSC:
		return 8
	case exported.ETH:
		return 9
	}
	return 0
}

// dump reads the registry straight from the raw store (not through the keeper getters)
func (h *c15H) dump() c15Dump {
	d := c15Dump{Clients: map[string]c15Client{}, Relayers: map[string][]string{}}
	st := h.tibcStore()
	cdc := h.a.App.AppCodec()
	pre := string(host.KeyClientStorePrefix) + "/"
	it := storetypes.KVStorePrefixIterator(st, []byte(pre))
	for ; it.Valid(); it.Next() {
		rest := string(it.Key())[len(pre):]
		i := strings.IndexByte(rest, '/')
		if i < 0 {
			continue
		}
		name, sub := rest[:i], rest[i+1:]
		c, ok := d.Clients[name]
		if !ok {
			c = c15Client{Cons: map[string]string{}}
		}
		cpre := host.KeyConsensusStatePrefix + "/"
		switch {
		case sub == host.KeyClientState:
			c.State = hex.EncodeToString(it.Value())
			cs, err := clienttypes.UnmarshalClientState(cdc, it.Value())
			if err == nil {
				c.Type = c15TypeCode(cs.ClientType())
			}
		case strings.HasPrefix(sub, cpre) && len(sub) == len(cpre)+16:
			c.Cons[hex.EncodeToString([]byte(sub[len(cpre):]))] = hex.EncodeToString(it.Value())
		default: // client metadata (processed time, iteration keys, header indexes ...): not compared
		}
		d.Clients[name] = c
	}
	it.Close()
	// a client entry without a client state is metadata only (cannot happen through the handlers)
	it = storetypes.KVStorePrefixIterator(st, []byte(clienttypes.KeyRelayers))
	for ; it.Valid(); it.Next() {
		var ir clienttypes.IdentifiedRelayers
		if err := cdc.Unmarshal(it.Value(), &ir); err != nil {
			continue
		}
		name := string(it.Key())[len(clienttypes.KeyRelayers):]
		d.Relayers[name] = append([]string{}, ir.Relayers...)
	}
	it.Close()
	rules, found := h.a.App.TIBCKeeper.RoutingKeeper.GetRoutingRules(h.a.GetContext())
	d.Rules, d.HasRules = rules, found
	return d
}

func (d c15Dump) coq() string {
	var cl []string
	for _, n := range sortedKeys(d.Clients) {
		c := d.Clients[n]
		var cons []string
		for _, hk := range sortedKeys(c.Cons) {
			cons = append(cons, fmt.Sprintf("((hx \"%s\"), (hx \"%s\"))", hk, c.Cons[hk]))
		}
		cl = append(cl, fmt.Sprintf("(%s, (%d, (hx \"%s\"), %s))", hxS(n), c.Type, c.State, coqList(cons)))
	}
	var rl []string
	for _, n := range sortedKeys(d.Relayers) {
		var xs []string
		for _, r := range d.Relayers[n] {
			xs = append(xs, hxS(r))
		}
		rl = append(rl, fmt.Sprintf("(%s, %s)", hxS(n), coqList(xs)))
	}
	var rs []string
	for _, r := range d.Rules {
		rs = append(rs, hxS(r))
	}
	return fmt.Sprintf("(mkRDump %s %s %s)", coqList(cl), coqList(rl), coqOpt(d.HasRules, coqList(rs)))
}

// ---- payloads -------------------------------------------------------------------

type c15Payload struct {
	Kind  string
	CS    exported.ClientState
	Cons  exported.ConsensusState
	Valid bool // message ValidateBasic and (for create) Initialize succeed
	// for upgrade only ValidateBasic matters
	ValidUpgrade bool
}

func (h *c15H) payload(kind string, peer int) c15Payload {
	p := h.peers[peer]
	switch kind {
	case "tm", "tm-badcons", "tm-invalid":
		height := p.LastHeader.GetHeight().(clienttypes.Height)
		lvl := tibctesting.DefaultTrustLevel
		if kind == "tm-invalid" {
			lvl = ibctmtypes.Fraction{Numerator: 0, Denominator: 1}
		}
		cs := ibctmtypes.NewClientState(p.ChainID, lvl, tibctesting.TrustingPeriod, tibctesting.UnbondingPeriod,
			tibctesting.MaxClockDrift, height, commitmenttypes.GetSDKSpecs(), tibctesting.Prefix, 0)
		var cons exported.ConsensusState = p.LastHeader.ConsensusState()
		if kind == "tm-badcons" {
			cons = &ethtypes.ConsensusState{Timestamp: 1, Number: clienttypes.NewHeight(0, 5), Root: make([]byte, 32)}
		}
		return c15Payload{Kind: kind, CS: cs, Cons: cons, Valid: kind == "tm", ValidUpgrade: kind != "tm-invalid"}
	default: // eth
		h.ethSeq++
		n := 100 + h.ethSeq
		hdr := ethtypes.Header{
			ParentHash: make([]byte, 32), UncleHash: make([]byte, 32), Coinbase: make([]byte, 20), Root: bytes.Repeat([]byte{byte(n)}, 32),
			TxHash: make([]byte, 32), ReceiptHash: make([]byte, 32), Bloom: make([]byte, 256), Difficulty: "1",
			Height: clienttypes.NewHeight(0, n), GasLimit: 10000, GasUsed: 0, Time: uint64(h.coord.CurrentTime.Unix()),
			Extra: nil, MixDigest: make([]byte, 32), Nonce: 0, BaseFee: "7",
		}
		cs := &ethtypes.ClientState{Header: hdr, ChainId: 1, ContractAddress: make([]byte, 20), TrustingPeriod: 1000000, TimeDelay: 0, BlockDelay: 0}
		cons := &ethtypes.ConsensusState{Timestamp: hdr.Time, Number: hdr.Height, Root: hdr.Root}
		return c15Payload{Kind: "eth", CS: cs, Cons: cons, Valid: true, ValidUpgrade: true}
	}
}

func c15HeightKey(hgt exported.Height) []byte {
	return host.ConsensusStateKey(hgt)[len(host.KeyConsensusStatePrefix)+1:]
}

// ---- execution --------------------------------------------------------------------

// requester: 0 = governance authority, k>0 = user k
// via: "direct" = handler called the way x/gov executes a passed proposal's message (ValidateBasic at
//      submission, handler on a branched context, written on success);
//      "baseapp" = transaction signed by user k whose authority/signer field is user k;
//      "forged" = transaction signed by user k whose authority/signer field names someone else
func (h *c15H) run(opName string, msg sdk.Msg, requester int, via string, call func(ctx context.Context) error) (bool, string) {
	if via == "failed-batch" {
		// the request is one message of a governance proposal whose LATER message fails: x/gov executes
		// all messages on one cached context and throws it away.  The handler itself succeeds; the
		// request as a whole is refused and must leave nothing behind -- neither in the store nor in
		// anything the keepers answer from.
		h.coord.UpdateTimeForChain(h.a)
		ctx, _ := h.a.GetContext().CacheContext()
		err := call(ctx)
		h.a.NextBlock()
		h.coord.IncrementTime()
		if err != nil {
			return false, err.Error()
		}
		return false, "sibling message of the proposal failed: branch discarded"
	}
	if via == "direct" {
		h.coord.UpdateTimeForChain(h.a)
		if vb, ok := msg.(sdk.HasValidateBasic); ok {
			if err := vb.ValidateBasic(); err != nil {
				h.a.NextBlock()
				h.coord.IncrementTime()
				return false, err.Error()
			}
		}
		ctx, write := h.a.GetContext().CacheContext()
		err := call(ctx)
		if err == nil {
			write()
		}
		h.a.NextBlock()
		h.coord.IncrementTime()
		if err != nil {
			return false, err.Error()
		}
		return true, ""
	}
	c := h.a
	k := requester
	save, savek := c.SenderAccount, c.SenderPrivKey
	c.SenderAccount, c.SenderPrivKey = c.SenderAccounts[k].SenderAccount, c.SenderAccounts[k].SenderPrivKey
	resync := func() {
		acc := c.App.AccountKeeper.GetAccount(c.GetContext(), c.SenderAccount.GetAddress())
		_ = c.SenderAccount.SetSequence(acc.GetSequence())
	}
	resync()
	_, err := c.SendMsgs(msg)
	resync()
	c.SenderAccounts[k].SenderAccount = c.SenderAccount
	c.SenderAccount, c.SenderPrivKey = save, savek
	if err != nil {
		return false, err.Error()
	}
	return true, ""
}

func (h *c15H) who(requester int) string {
	if requester == 0 {
		return h.gov
	}
	return h.user(requester)
}

func (h *c15H) reqName(requester int) string {
	if requester == 0 {
		return "gov"
	}
	return fmt.Sprintf("user%d", requester)
}

// authority field and model requester for a privileged request
func (h *c15H) authField(requester int, via string) (field string, model string) {
	switch via {
	case "forged": // signed by user, field names the governance authority: a request by neither
		return h.gov, "forged-signature-by-" + h.user(requester)
	case "failed-batch": // for the model: a request that is refused (the proposal it belongs to failed)
		return h.who(requester), "in-failed-proposal-" + h.who(requester)
	default:
		return h.who(requester), h.who(requester)
	}
}

func (h *c15H) finish(coqOp string, d c15Step, before c15Dump, digBefore string, privileged bool, target string) {
	after := h.dump()
	h.steps = append(h.steps, fmt.Sprintf("(%s, (%s, %s))", coqOp, coqBool(d.OK), after.coq()))
	h.Descs = append(h.Descs, d)
	fail := func(sig, what string) {
		h.Fails = append(h.Fails, OracleFailure{sig, what, map[string]any{"step": d, "index": len(h.Descs) - 1}})
	}
	// ---- implementation-side oracle (independent of the model) ----
	if d.OK && privileged && d.Requester != "gov" {
		fail("C15:privileged-by-non-authority", d.Op+" requested by "+d.Requester+" took effect")
	}
	if !d.OK && h.digest() != digBefore {
		fail("C15:refused-changed-state", "refused "+d.Op+" changed the tibc store")
	}
	if d.OK && d.Op == "create" {
		if _, was := before.Clients[target]; was {
			fail("C15:create-overwrote", "create replaced the existing client "+target)
		}
	}
	h.behaviour(fail)
	for n, c := range before.Clients {
		c2, still := after.Clients[n]
		if !still || c2.State == "" {
			fail("C15:client-removed", "client "+n+" disappeared")
			continue
		}
		if c.Type != c2.Type {
			fail("C15:client-type-changed", fmt.Sprintf("client %s changed type %d -> %d", n, c.Type, c2.Type))
		}
		if n != target || !d.OK || d.Op == "register" || d.Op == "setrules" {
			if c.State != c2.State || len(c.Cons) != len(c2.Cons) {
				fail("C15:other-client-touched", "client "+n+" changed by "+d.Op+" on "+target)
			}
		}
	}
}

func (h *c15H) Create(requester int, via, name, kind string, peer int) bool {
	pl := h.payload(kind, peer)
	field, model := h.authField(requester, via)
	msg, err := clienttypes.NewMsgCreateClient(name, pl.CS, pl.Cons, field)
	if err != nil {
		h.t.Fatal(err)
	}
	msg.ChainName, msg.Title, msg.Description = name, "t", "d"
	before, dig := h.dump(), h.digest()
	ok, e := h.run("create", msg, requester, via, func(ctx context.Context) error { _, err := h.ms.CreateClient(ctx, msg); return err })
	cdc := h.a.App.AppCodec()
	valid := pl.Valid && host.ClientIdentifierValidator(name) == nil
	coqOp := fmt.Sprintf("RCreate %s %s %d %s %s %s %s", hxS(model), hxS(name), c15TypeCode(pl.CS.ClientType()),
		hxs(clienttypes.MustMarshalClientState(cdc, pl.CS)), hxs(c15HeightKey(pl.CS.GetLatestHeight())),
		hxs(clienttypes.MustMarshalConsensusState(cdc, pl.Cons)), coqBool(valid))
	h.finish(coqOp, c15Step{Op: "create", Via: via, Requester: h.reqNameVia(requester, via), Name: name, Payload: kind, OK: ok, Err: e}, before, dig, true, name)
	return ok
}

// a forged request is, for the oracle, a request by the user who signed it
func (h *c15H) reqNameVia(requester int, via string) string { return h.reqName(requester) }

func (h *c15H) Upgrade(requester int, via, name, kind string, peer int) bool {
	pl := h.payload(kind, peer)
	field, model := h.authField(requester, via)
	any1, _ := clienttypes.PackClientState(pl.CS)
	any2, _ := clienttypes.PackConsensusState(pl.Cons)
	msg := &clienttypes.MsgUpgradeClient{Title: "t", Description: "d", ChainName: name, ClientState: any1, ConsensusState: any2, Authority: field}
	before, dig := h.dump(), h.digest()
	ok, e := h.run("upgrade", msg, requester, via, func(ctx context.Context) error { _, err := h.ms.UpgradeClient(ctx, msg); return err })
	cdc := h.a.App.AppCodec()
	valid := pl.ValidUpgrade && host.ClientIdentifierValidator(name) == nil
	coqOp := fmt.Sprintf("RUpgrade %s %s %d %s %s %s %s", hxS(model), hxS(name), c15TypeCode(pl.CS.ClientType()),
		hxs(clienttypes.MustMarshalClientState(cdc, pl.CS)), hxs(c15HeightKey(pl.CS.GetLatestHeight())),
		hxs(clienttypes.MustMarshalConsensusState(cdc, pl.Cons)), coqBool(valid))
	h.finish(coqOp, c15Step{Op: "upgrade", Via: via, Requester: h.reqName(requester), Name: name, Payload: kind, OK: ok, Err: e}, before, dig, true, name)
	return ok
}

func (h *c15H) Register(requester int, via, name string, relayers []string) bool {
	field, model := h.authField(requester, via)
	msg := &clienttypes.MsgRegisterRelayer{Title: "t", Description: "d", ChainName: name, Relayers: relayers, Authority: field}
	before, dig := h.dump(), h.digest()
	ok, e := h.run("register", msg, requester, via, func(ctx context.Context) error { _, err := h.ms.RegisterRelayer(ctx, msg); return err })
	valid := msg.ValidateBasic() == nil
	var rs []string
	for _, r := range relayers {
		rs = append(rs, hxS(r))
	}
	coqOp := fmt.Sprintf("RRegister %s %s %s %s", hxS(model), hxS(name), coqList(rs), coqBool(valid))
	if ok {
		h.regs[name] = append([]string{}, relayers...)
	}
	h.finish(coqOp, c15Step{Op: "register", Via: via, Requester: h.reqName(requester), Name: name, Payload: strings.Join(relayers, ","), OK: ok, Err: e}, before, dig, true, name)
	return ok
}

// behaviour: what the keepers ANSWER must be what the raw store says -- routing rules (getter and
// Authenticate on probe triples, decided field-wise from the stored list), relayer authorisation,
// client states.  Catches registry state kept outside the store (caches, indexes, package variables)
// that survives a refused or rolled-back request.
func (h *c15H) behaviour(fail func(sig, what string)) {
	ctx := h.a.GetContext()
	st := h.tibcStore()
	var raw []string
	bz := st.Get(host.RoutingRulesKey())
	if bz != nil {
		_ = json.Unmarshal(bz, &raw)
	}
	got, found := h.a.App.TIBCKeeper.RoutingKeeper.GetRoutingRules(ctx)
	if found != (bz != nil) || strings.Join(got, ";") != strings.Join(raw, ";") {
		fail("C15:keeper-answer-differs-from-store", fmt.Sprintf("GetRoutingRules answers %v, the store holds %v", got, raw))
	}
	match := func(rule string, f [3]string) bool {
		p := strings.Split(rule, ",")
		if len(p) != 3 {
			return false
		}
		for i := range p {
			if p[i] != "*" && p[i] != f[i] {
				return false
			}
		}
		return true
	}
	probes := [][3]string{{"chain-aa", "chain-bbbbbb", "nft"}, {"x", "y", "z"}, {h.a.ChainName, h.peers[0].ChainName, "tibcmock"}}
	for _, r := range raw {
		if p := strings.Split(r, ","); len(p) == 3 {
			q := [3]string{p[0], p[1], p[2]}
			for i := range q {
				if q[i] == "*" {
					q[i] = "anyvalue"
				}
			}
			probes = append(probes, q)
		}
	}
	for _, q := range probes {
		want := false
		for _, r := range raw {
			if match(r, q) {
				want = true
			}
		}
		if g := h.a.App.TIBCKeeper.RoutingKeeper.Authenticate(ctx, q[0], q[1], q[2]); g != want {
			fail("C15:keeper-answer-differs-from-store", fmt.Sprintf("Authenticate%v answers %v, the stored rules %v say %v", q, g, raw, want))
		}
	}
	d := h.dump()
	for name, rel := range d.Relayers {
		for k := 1; k <= 2; k++ {
			want := false
			for _, r := range rel {
				if r == h.user(k) {
					want = true
				}
			}
			if g := h.a.App.TIBCKeeper.ClientKeeper.AuthRelayer(ctx, name, h.user(k)); g != want {
				fail("C15:keeper-answer-differs-from-store", fmt.Sprintf("AuthRelayer(%s, user%d) answers %v, the stored list says %v", name, k, g, want))
			}
		}
	}
	for _, p := range h.peers {
		_, inStore := d.Clients[p.ChainName]
		if _, g := h.a.App.TIBCKeeper.ClientKeeper.GetClientState(ctx, p.ChainName); g != (inStore && d.Clients[p.ChainName].State != "") {
			fail("C15:keeper-answer-differs-from-store", "GetClientState("+p.ChainName+") disagrees with the store")
		}
	}
}

func (h *c15H) SetRules(requester int, via string, rules []string) bool {
	field, model := h.authField(requester, via)
	msg := &routingtypes.MsgSetRoutingRules{Title: "t", Description: "d", Rules: rules, Authority: field}
	before, dig := h.dump(), h.digest()
	ok, e := h.run("setrules", msg, requester, via, func(ctx context.Context) error { _, err := h.ms.SetRoutingRules(ctx, msg); return err })
	var rs []string
	for _, r := range rules {
		rs = append(rs, hxS(r))
	}
	coqOp := fmt.Sprintf("RSetRules %s %s", hxS(model), coqList(rs))
	h.finish(coqOp, c15Step{Op: "setrules", Via: via, Requester: h.reqName(requester), Payload: strings.Join(rules, ";"), OK: ok, Err: e}, before, dig, true, "")
	return ok
}

// Update: MsgUpdateClient for the client called name with a header of peer hdrPeer, signed by user k.
// via "forged": the Signer field names user `as` while user k signs.
func (h *c15H) Update(k int, via string, as int, name string, hdrPeer int) bool {
	if via == "forged" && as == k {
		via = "baseapp"
	}
	p := h.peers[hdrPeer]
	h.coord.CommitBlock(p)
	before, dig := h.dump(), h.digest()
	ctx := h.a.GetContext()
	cs, found := h.a.App.TIBCKeeper.ClientKeeper.GetClientState(ctx, name)
	active := false
	var hdr exported.Header = p.LastHeader
	headerGood := false
	if found {
		h.coord.UpdateTimeForChain(h.a)
		ctx = h.a.GetContext().WithBlockTime(h.coord.CurrentTime.UTC())
		active = cs.Status(ctx, h.a.App.TIBCKeeper.ClientKeeper.ClientStore(ctx, name), h.a.App.AppCodec()) == exported.Active
		if cs.ClientType() == exported.Tendermint {
			th, err := h.a.ConstructUpdateTMClientHeader(p, name)
			if err == nil {
				hdr = th
				// a header of the chain the client tracks, fresher than the client: acceptable to the light client
				headerGood = cs.(*ibctmtypes.ClientState).ChainId == p.ChainID && th.GetHeight().GT(cs.GetLatestHeight())
			}
		}
	}
	signerField := h.user(k)
	if via == "forged" {
		signerField = h.user(as)
	}
	addr, _ := sdk.AccAddressFromBech32(signerField)
	msg, err := clienttypes.NewMsgUpdateClient(name, hdr, addr)
	if err != nil {
		h.t.Fatal(err)
	}
	ok, e := h.run("update", msg, k, "baseapp", nil)
	after := h.dump()
	verdict := "None"
	if headerGood {
		hk := hex.EncodeToString(c15HeightKey(hdr.GetHeight()))
		c2 := after.Clients[name]
		if ok {
			var pruned []string
			for _, k0 := range sortedKeys(before.Clients[name].Cons) {
				if _, still := c2.Cons[k0]; !still {
					pruned = append(pruned, fmt.Sprintf("(hx \"%s\")", k0))
				}
			}
			verdict = fmt.Sprintf("(Some (mkVerdict (hx \"%s\") (hx \"%s\") (hx \"%s\") %s))", c2.State, hk, c2.Cons[hk], coqList(pruned))
		} else {
			verdict = fmt.Sprintf("(Some (mkVerdict [] (hx \"%s\") [] []))", hk)
		}
	}
	modelSigner := h.user(k)
	if via == "forged" { // signed by k, naming another account: a request by neither
		modelSigner = "forged-signature-by-" + h.user(k)
	}
	coqOp := fmt.Sprintf("RUpdate %s %s %s %s", hxS(modelSigner), hxS(name), coqBool(active), verdict)
	d := c15Step{Op: "update", Via: via, Requester: h.reqName(k), Name: name, Payload: fmt.Sprintf("header-of-peer-%d good=%v active=%v", hdrPeer, headerGood, active), OK: ok, Err: e}
	if ok {
		isRel := false
		for _, r := range h.regs[name] {
			if r == h.user(k) {
				isRel = true
			}
		}
		if !isRel {
			h.Fails = append(h.Fails, OracleFailure{"C15:update-by-non-relayer", "header update by an account not registered for " + name + " took effect", d})
		}
	}
	h.finish(coqOp, d, before, dig, false, name)
	return ok
}

func (h *c15H) CaseTerm() string {
	return "C15Case " + hxS(h.gov) + " [\n  " + strings.Join(h.steps, ";\n  ") + "]"
}

// ---- families -----------------------------------------------------------------------

type c15Family struct {
	Name string
	Run  func(h *c15H)
}

func c15Families() []c15Family {
	return append(c15FamiliesBase(), c15Family{"requests-inside-a-failed-proposal-leave-nothing-behind", func(h *c15H) {
		B, C := h.peers[0].ChainName, h.peers[1].ChainName
		h.SetRules(0, "direct", []string{B + "," + C + ",nft"})
		h.SetRules(0, "failed-batch", []string{"*,*,*"})
		h.SetRules(0, "failed-batch", []string{})
		h.Create(0, "failed-batch", B, "tm", 0)
		h.Create(0, "direct", B, "tm", 0)
		h.Register(0, "direct", B, []string{h.user(1)})
		h.Register(0, "failed-batch", B, []string{h.user(2)})
		h.Register(0, "failed-batch", C, []string{h.user(1)})
		h.Update(1, "baseapp", 1, B, 0)
		h.Update(2, "baseapp", 2, B, 0) // user2 was registered only in the failed proposal
		h.Upgrade(0, "failed-batch", B, "tm", 0)
		h.Create(0, "failed-batch", C, "eth", 1)
		h.SetRules(0, "direct", []string{"*," + C + ",*"})
		h.SetRules(0, "failed-batch", []string{B + "," + C + ",nft"})
		h.Register(0, "direct", B, []string{h.user(2)}) // drops user1
		h.Register(0, "failed-batch", B, []string{h.user(1), h.user(2)})
		h.Update(1, "baseapp", 1, B, 0)
		h.Update(2, "baseapp", 2, B, 0)
	}})
}

func c15FamiliesBase() []c15Family {
	return []c15Family{
		{"every-handler-every-requester", func(h *c15H) {
			B, C := h.peers[0].ChainName, h.peers[1].ChainName
			// nobody but governance may create
			for _, via := range []string{"baseapp", "forged", "direct"} {
				for k := 1; k <= 2; k++ {
					h.Create(k, via, B, "tm", 0)
				}
			}
			h.Create(0, "direct", B, "tm", 0)
			h.Create(0, "direct", B, "tm", 0)  // second create of the same name
			h.Create(0, "direct", B, "eth", 0) // ... with another type
			h.Create(0, "direct", C, "eth", 1)
			// registering relayers
			h.Register(1, "baseapp", B, []string{h.user(1)})
			h.Register(1, "forged", B, []string{h.user(1)})
			h.Register(2, "direct", B, []string{h.user(2)})
			h.Register(0, "direct", B, []string{h.user(1)})
			h.Register(0, "direct", C, []string{h.user(2)})
			// now user1 is a relayer for B only, user2 for C only
			h.Update(2, "baseapp", 0, B, 0) // relayer of another chain
			h.Update(3, "baseapp", 0, B, 0) // arbitrary account
			h.Update(3, "forged", 1, B, 0)  // names the registered relayer, signed by someone else
			h.Update(1, "baseapp", 0, B, 0) // the registered relayer
			h.Update(1, "baseapp", 0, B, 1) // ... with a header of the wrong chain
			h.Update(1, "baseapp", 0, C, 1) // ... for a chain he is not registered for
			// a registered relayer is not an authority
			h.Upgrade(1, "baseapp", B, "tm", 0)
			h.Upgrade(1, "forged", B, "tm", 0)
			h.Upgrade(1, "direct", B, "tm", 0)
			h.SetRules(1, "baseapp", []string{"*,*,*"})
			h.SetRules(1, "forged", []string{"*,*,*"})
			h.SetRules(2, "direct", []string{"*,*,*"})
			h.SetRules(0, "direct", []string{"a,b,c", "*,*,nft"})
			h.SetRules(0, "direct", []string{"bad rule"})
			// upgrades
			h.Upgrade(0, "direct", B, "eth", 0) // type change refused
			h.Upgrade(0, "direct", C, "tm", 1)  // type change refused (eth client)
			h.Upgrade(0, "direct", "nochain", "tm", 0)
			h.Upgrade(0, "direct", B, "tm", 0)
			h.Upgrade(0, "direct", C, "eth", 1)
			h.Upgrade(0, "direct", B, "tm-badcons", 0) // consensus state of another type: not checked by the code
			h.Upgrade(0, "direct", B, "tm-invalid", 0)
			h.Update(1, "baseapp", 0, B, 0)
			// re-registration replaces the list
			h.Register(0, "direct", B, []string{h.user(3)})
			h.Update(1, "baseapp", 0, B, 0)
			h.Update(3, "baseapp", 0, B, 0)
		}},
		{"create-failures-leave-nothing", func(h *c15H) {
			B, C := h.peers[0].ChainName, h.peers[1].ChainName
			h.Create(0, "direct", B, "tm-badcons", 0) // Initialize fails after the client state was written
			h.Create(0, "direct", B, "tm-invalid", 0)
			h.Create(0, "direct", "bad/name", "tm", 0)
			h.Create(0, "direct", "", "tm", 0)
			h.Create(0, "direct", B, "tm", 0)
			h.Create(0, "direct", C, "tm", 1)
			h.Register(0, "direct", B, nil)
			h.Register(0, "direct", B, []string{"notanaddress"})
			h.Register(0, "direct", "bad/name", []string{h.user(1)})
			h.Register(0, "direct", B, []string{h.user(1), h.user(2)})
			h.Update(2, "baseapp", 0, B, 0)
			h.Update(2, "baseapp", 0, C, 1)
		}},
		{"expired-client-update", func(h *c15H) {
			B := h.peers[0].ChainName
			h.Create(0, "direct", B, "tm", 0)
			h.Register(0, "direct", B, []string{h.user(1)})
			h.Update(1, "baseapp", 0, B, 0)
			h.coord.IncrementTimeBy(tibctesting.TrustingPeriod + time.Hour)
			h.Update(1, "baseapp", 0, B, 0)
			h.Update(2, "baseapp", 0, B, 0)
			h.Upgrade(0, "direct", B, "tm", 0) // governance revives it
			h.Update(1, "baseapp", 0, B, 0)
		}},
	}
}

func c15Random(h *c15H, r *rand.Rand, n int) {
	names := []string{h.peers[0].ChainName, h.peers[1].ChainName, "otherchain"}
	vias := []string{"direct", "direct", "baseapp", "forged", "failed-batch"}
	kinds := []string{"tm", "tm", "eth", "tm-badcons", "tm-invalid"}
	for i := 0; i < n; i++ {
		req := 0
		if r.Intn(3) == 0 {
			req = 1 + r.Intn(3)
		}
		via := pick(r, vias)
		if req == 0 {
			via = "direct"
			if r.Intn(4) == 0 {
				via = "failed-batch" // the authority's request inside a proposal that fails later
			}
		}
		ni := r.Intn(len(names))
		name := names[ni]
		peer := ni % 2
		switch r.Intn(10) {
		case 0, 1:
			h.Create(req, via, name, pick(r, kinds), peer)
		case 2:
			h.Upgrade(req, via, name, pick(r, kinds), peer)
		case 3, 4:
			var rl []string
			for k := 1; k <= 3; k++ {
				if r.Intn(2) == 0 {
					rl = append(rl, h.user(k))
				}
			}
			h.Register(req, via, name, rl)
		case 5:
			h.SetRules(req, via, pick(r, [][]string{{"*,*,*"}, {"a,b,c"}, {"x"}, {}}))
		default:
			k := 1 + r.Intn(3)
			if r.Intn(6) == 0 {
				h.Update(k, "forged", 1+r.Intn(3), name, r.Intn(2))
			} else {
				hp := peer
				if r.Intn(5) == 0 {
					hp = 1 - peer
				}
				h.Update(k, "baseapp", 0, name, hp)
			}
		}
	}
}

func TestC15(t *testing.T) {
	out := envOut(t)
	rep := newReport("C15")
	rep.Rule = "directed: each of the five Msg services x {governance authority, registered relayer of this chain, relayer of another chain, arbitrary account} x {handler as executed by x/gov, signed transaction through BaseApp, transaction whose authority/signer field names someone else}, payloads valid / failing ValidateBasic / failing Initialize, client types tendermint and eth; random: seeded request histories; after every request the registry is read back from the raw store; non-trivial = history with accepted and refused requests"
	cs := &CaseSet{Prop: "C15", Imports: "Harness.C15 Clients.Registry", Mismatch: "c15_mismatches", Shard: 6}
	finish := func(name string, h *c15H) {
		cs.Add(h.CaseTerm(), map[string]any{"family": name, "steps": h.Descs})
		acc, rej := 0, 0
		for _, d := range h.Descs {
			rep.Evaluations++
			rep.Count("op:" + d.Op)
			rep.Count("via:" + d.Via)
			rep.Count("requester:" + d.Requester)
			if d.OK {
				acc++
				rep.Count("accepted:" + d.Op)
			} else {
				rej++
				rep.Count("rejected:" + d.Op)
			}
		}
		if acc > 0 && rej > 0 {
			rep.Nontrivial(h.CaseTerm())
		}
		for _, f := range h.Fails {
			rep.Fail(f.Signature, f.What, map[string]any{"family": name, "failure": f.Input})
		}
		rep.Sample(2, map[string]any{"family": name, "steps": h.Descs})
	}
	for _, f := range c15Families() {
		h := newC15H(t)
		f.Run(h)
		finish(f.Name, h)
		rep.Count("family:" + f.Name)
	}
	n := tierN(10, 150)
	for k := 0; k < n; k++ {
		h := newC15H(t)
		c15Random(h, newRand(int64(k)*104729+15), 40)
		finish(fmt.Sprintf("random-%d", k), h)
	}
	rep.Constants = map[string]string{"authority": authtypes.NewModuleAddress(govtypes.ModuleName).String()}
	cs.Write(t, out)
	rep.Write(t, out)
	_ = sort.Strings
}
