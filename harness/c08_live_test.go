package harness

// C08, live-client story (oracle only, no model case): the confirmation delay of a Tendermint client
// counts from the moment the client RECORDED the root a proof is checked against.  The other C08
// families write consensus states and processed times into the client store themselves; this one lets
// the real update path record them (added after the seeded change C08b -- processed time stamped only
// the first time a height is seen -- was invisible to the C08 check and seen only by C07).

import (
	"bytes"
	"testing"
	"time"

	clienttypes "github.com/bianjieai/tibc-go/modules/tibc/core/02-client/types"
	packettypes "github.com/bianjieai/tibc-go/modules/tibc/core/04-packet/types"
	host "github.com/bianjieai/tibc-go/modules/tibc/core/24-host"
	tmtypes "github.com/bianjieai/tibc-go/modules/tibc/light-clients/07-tendermint/types"
	tibctesting "github.com/bianjieai/tibc-go/modules/tibc/testing"
)

func c08LiveDelayStory(t *testing.T, rep *Report) {
	const delay = 10 * time.Minute
	coord := tibctesting.NewCoordinator(t, 2)
	chainA, chainB := coord.GetChain(tibctesting.GetChainID(0)), coord.GetChain(tibctesting.GetChainID(1))
	path := tibctesting.NewPath(chainA, chainB)
	coord.SetupClients(path)
	cs := path.EndpointB.GetClientState().(*tmtypes.ClientState)
	cs.TimeDelay = uint64(delay.Nanoseconds())
	path.EndpointB.SetClientState(cs)
	coord.CommitBlock(chainB)
	h0 := path.EndpointB.GetClientState().GetLatestHeight().(clienttypes.Height)
	verify := func(p packettypes.Packet, ph clienttypes.Height, proof []byte) error {
		st := path.EndpointB.GetClientState().(*tmtypes.ClientState)
		return st.VerifyPacketCommitment(chainB.GetContext(), path.EndpointB.ClientStore(), chainB.Codec, ph, proof,
			p.GetSourceChain(), p.GetDestChain(), p.GetSequence(), packettypes.CommitPacket(p))
	}
	step := 0
	expect := func(what string, err error, wantOK bool) {
		step++
		rep.Evaluations++
		rep.Count("live-delay-story:" + map[bool]string{true: "accept", false: "refuse"}[wantOK])
		if (err == nil) != wantOK {
			sig := "C08:tm-accepts-before-delay-since-recording"
			if wantOK {
				sig = "C08:tm-refuses-after-delay"
			}
			e := ""
			if err != nil {
				e = err.Error()
			}
			rep.Fail(sig, "live Tendermint client with a confirmation delay of 10 min: "+what, map[string]any{"family": "live-client-delay-counts-from-recording", "step": step, "error": e})
		}
	}
	p1 := packettypes.NewPacket(tibctesting.TestHash, 1, chainA.ChainName, chainB.ChainName, "", tibctesting.MockPort)
	if err := path.EndpointA.SendPacket(p1); err != nil {
		t.Fatal(err)
	}
	h1 := path.EndpointB.GetClientState().GetLatestHeight().(clienttypes.Height)
	key1 := host.PacketCommitmentKey(p1.GetSourceChain(), p1.GetDestChain(), p1.GetSequence())
	proof1, _ := chainA.QueryProofAtHeight(key1, int64(h1.RevisionHeight))
	expect("proof at H1 accepted although the delay since H1 was recorded has not elapsed", verify(p1, h1, proof1), false)
	coord.IncrementTimeBy(2 * delay)
	coord.CommitBlock(chainA, chainB)
	expect("genuine proof at H1 refused although the delay has elapsed", verify(p1, h1, proof1), true)
	p2 := packettypes.NewPacket(tibctesting.TestHash, 2, chainA.ChainName, chainB.ChainName, "", tibctesting.MockPort)
	if err := path.EndpointA.SendPacket(p2); err != nil {
		t.Fatal(err)
	}
	h2 := path.EndpointB.GetClientState().GetLatestHeight().(clienttypes.Height)
	key2 := host.PacketCommitmentKey(p2.GetSourceChain(), p2.GetDestChain(), p2.GetSequence())
	proof2H2, _ := chainA.QueryProofAtHeight(key2, int64(h2.RevisionHeight))
	expect("proof at the freshly recorded H2 accepted before the delay", verify(p2, h2, proof2H2), false)
	// a second validly signed header for the known height H1 carrying another app hash (the state with packet 2)
	consH1 := path.EndpointB.GetConsensusState(h1).(*tmtypes.ConsensusState)
	newRoot := chainA.ProposedHeader.AppHash
	if bytes.Equal(consH1.GetRoot().GetHash(), newRoot) {
		t.Fatal("story needs two different roots")
	}
	fork := chainA.CreateTMClientHeader(chainA.ChainID, int64(h1.RevisionHeight), h0, consH1.Timestamp, chainA.Vals, chainA.NextVals, chainA.Vals, chainA.Signers)
	proof2, _ := chainA.QueryProofAtHeight(key2, chainA.ProposedHeader.Height)
	msg, err := clienttypes.NewMsgUpdateClient(chainA.ChainName, fork, chainB.SenderAccount.GetAddress())
	if err != nil {
		t.Fatal(err)
	}
	if _, err = chainB.SendMsgs(msg); err != nil {
		rep.Notes = append(rep.Notes, "live-delay story: second header for a known height refused ("+err.Error()+"); remaining steps skipped")
		return
	}
	consH1 = path.EndpointB.GetConsensusState(h1).(*tmtypes.ConsensusState)
	if !bytes.Equal(consH1.GetRoot().GetHash(), newRoot) {
		rep.Notes = append(rep.Notes, "live-delay story: the root recorded for H1 was not replaced; remaining steps skipped")
		return
	}
	expect("a packet was verified against a root the client recorded only seconds ago (the root of a known height was replaced; the delay must count from the replacement)", verify(p2, h1, proof2), false)
	coord.IncrementTimeBy(2 * delay)
	coord.CommitBlock(chainA, chainB)
	expect("proof against the replaced root refused although the delay since the replacement has elapsed", verify(p2, h1, proof2), true)
}
