package harness

import (
	"math/rand"
	"strings"
	"testing"

	routingtypes "github.com/bianjieai/tibc-go/modules/tibc/core/26-routing/types"
	tibctesting "github.com/bianjieai/tibc-go/modules/tibc/testing"
)

const c12Alphabet = "abzAZ09._+-#[]<>"

type c12Desc struct {
	Rules []string `json:"rules"`
	S     string   `json:"s"`
	D     string   `json:"d"`
	P     string   `json:"p"`
	SetOK bool     `json:"set_ok"`
	Auth  bool     `json:"auth"`
}

// the property, as an executable predicate (implementation-side oracle)
func c12SpecValidField(f string) bool {
	if f == "*" {
		return true
	}
	if len(f) < 1 || len(f) > 64 {
		return false
	}
	for i := 0; i < len(f); i++ {
		c := f[i]
		ok := (c >= 'a' && c <= 'z') || (c >= 'A' && c <= 'Z') || (c >= '0' && c <= '9') ||
			strings.IndexByte("._+-#[]<>", c) >= 0
		if !ok {
			return false
		}
	}
	return true
}
func c12SpecValidRule(r string) bool {
	fs := strings.Split(r, ",")
	return len(fs) == 3 && c12SpecValidField(fs[0]) && c12SpecValidField(fs[1]) && c12SpecValidField(fs[2])
}
func c12SpecAuth(rules []string, s, d, p string) bool {
	for _, r := range rules {
		fs := strings.Split(r, ",")
		if len(fs) != 3 {
			continue
		}
		m := func(f, x string) bool { return f == "*" || f == x }
		if m(fs[0], s) && m(fs[1], d) && m(fs[2], p) {
			return true
		}
	}
	return false
}

func c12Ident(r *rand.Rand, pool []string) string {
	switch r.Intn(10) {
	case 0, 1, 2, 3, 4, 5:
		return pick(r, pool)
	case 6: // random over the alphabet, short
		n := 1 + r.Intn(4)
		b := make([]byte, n)
		for i := range b {
			b[i] = c12Alphabet[r.Intn(len(c12Alphabet))]
		}
		return string(b)
	case 7: // boundary lengths
		n := pick(r, []int{1, 63, 64})
		return strings.Repeat(string(c12Alphabet[r.Intn(len(c12Alphabet))]), n)
	default: // near miss of a pool element: regexp readings of + [ ] . -
		return pick(r, []string{"aab", "ab", "a", "b", "x", "axb", "a-c", "a.b", "aXb", "[a]", "a+b", "abc", "a+", "a[", "]", "a<b>", "0-9", "5"})
	}
}

func c12Field(r *rand.Rand, pool []string) string {
	if r.Intn(3) == 0 {
		return "*"
	}
	return c12Ident(r, pool)
}

func c12BadRule(r *rand.Rand, pool []string) string {
	f := func() string { return c12Field(r, pool) }
	switch r.Intn(12) {
	case 0:
		return f() + "," + f()
	case 1:
		return f() + "," + f() + "," + f() + "," + f()
	case 2:
		return "," + f() + "," + f()
	case 3:
		return f() + ",," + f()
	case 4:
		return f() + "," + f() + ","
	case 5:
		return strings.Repeat("a", 65) + "," + f() + "," + f()
	case 6:
		return "a*," + f() + "," + f()
	case 7:
		return "**," + f() + "," + f()
	case 8:
		return f() + "," + f() + "," + f() + "\n"
	case 9:
		return f() + "," + "a/b" + "," + f()
	case 10:
		return f() + "," + f() + "," + "p q"
	default:
		return ""
	}
}

func TestC12(t *testing.T) {
	out := envOut(t)
	rep := newReport("C12")
	rep.Rule = "seeded rule lists (mostly valid, pool identifiers over the alphabet a-zA-Z0-9._+-#[]<> weighted to regexp metacharacters; separate malformed stream) x triples; non-trivial = SetRoutingRules accepted and at least one rule has a literal field equal to or a near miss of a triple field; distinct by (rules,triple)"
	cs := &CaseSet{Prop: "C12", Imports: "Harness.C12", Mismatch: "c12_mismatches"}
	rep.Constants = map[string]string{"RulePattern": routingtypes.RulePattern}

	coord := tibctesting.NewCoordinator(t, 1)
	chain := coord.GetChain(tibctesting.GetChainID(0))
	k := chain.App.TIBCKeeper.RoutingKeeper

	var prev []string
	run := func(rules []string, s, d, p string) {
		// the previous case's rule set once more, on a branch of the state that is thrown away:
		// a rule set that was never committed must not influence anything
		if dctx, _ := chain.GetContext().CacheContext(); rep.Evaluations%3 == 0 {
			_ = k.SetRoutingRules(dctx, prev)
		}
		prev = append([]string{}, rules...)
		ctx, _ := chain.GetContext().CacheContext()
		err := k.SetRoutingRules(ctx, rules)
		setok := err == nil
		auth := k.Authenticate(ctx, s, d, p)
		// oracle: the property itself
		wantSet := true
		for _, r := range rules {
			wantSet = wantSet && c12SpecValidRule(r)
		}
		desc := c12Desc{rules, s, d, p, setok, auth}
		if setok != wantSet {
			rep.Fail("set-rules-accept", "SetRoutingRules acceptance differs from 'three fields, each identifier or *'", desc)
		}
		if setok {
			if want := c12SpecAuth(rules, s, d, p); want != auth {
				rep.Fail("authenticate-fieldwise", "Authenticate differs from field-wise match with '*' wildcards", desc)
			}
		} else if auth {
			rep.Fail("authenticate-after-refused-set", "triple authorised although the rule set was refused", desc)
		}
		rs := make([]string, len(rules))
		for i, r := range rules {
			rs[i] = hxS(r)
		}
		cs.Add("C12 "+coqList(rs)+" "+hxS(s)+" "+hxS(d)+" "+hxS(p)+" "+coqBool(setok)+" "+coqBool(auth), desc)
		rep.Evaluations++
		if setok {
			rep.Count("set_ok")
		} else {
			rep.Count("set_refused")
		}
		if auth {
			rep.Count("authorised")
		} else {
			rep.Count("not_authorised")
		}
		if setok && len(rules) > 0 {
			rep.Nontrivial(strings.Join(rules, "|") + "#" + s + "," + d + "," + p)
		}
		rep.Sample(6, desc)
	}

	// corpus first: the D1 witnesses
	run([]string{"a+b,*,*"}, "a+b", "x", "y")
	run([]string{"a+b,*,*"}, "aab", "x", "y")
	run([]string{"[a],*,*"}, "a", "x", "y")
	run([]string{"[a],*,*"}, "[a]", "x", "y")
	run([]string{"a[,*,*"}, "a[", "x", "y")
	run([]string{"a-c,*,*"}, "a-c", "x", "y")
	run([]string{"a.b,*,*"}, "axb", "x", "y")
	run([]string{"[a-z],[0-9],*"}, "q", "5", "y")
	run([]string{"*,*,*"}, "anything", "x,y", "z") // '*' must not be needed to absorb commas in identifiers
	run([]string{"*,*,*"}, "a,b", "c", "d")
	run([]string{}, "a", "b", "c")
	run(nil, "a", "b", "c")

	r := newRand(12)
	n := 1500
	if envTier() == "thorough" {
		n = 40000
	}
	pools := [][]string{
		{"a+b", "[a]", "a[", "a-c", "a.b", "x", "y", "nft", "mt", "chain-A", "chain.B"},
		{"testchain0", "testchain1", "testchain2", "nft", "mt", "tibcmock", "a+", "<x>", "#1"},
	}
	for i := 0; i < n; i++ {
		pool := pools[r.Intn(len(pools))]
		nr := r.Intn(4)
		rules := make([]string, 0, nr)
		for j := 0; j < nr; j++ {
			if r.Intn(12) == 0 {
				rules = append(rules, c12BadRule(r, pool))
			} else {
				rules = append(rules, c12Field(r, pool)+","+c12Field(r, pool)+","+c12Field(r, pool))
			}
		}
		s, d, p := c12Ident(r, pool), c12Ident(r, pool), c12Ident(r, pool)
		// bias towards triples that match a rule's literals
		if len(rules) > 0 && r.Intn(2) == 0 {
			fs := strings.Split(rules[r.Intn(len(rules))], ",")
			if len(fs) == 3 {
				if fs[0] != "*" && r.Intn(4) != 0 {
					s = fs[0]
				}
				if fs[1] != "*" && r.Intn(4) != 0 {
					d = fs[1]
				}
				if fs[2] != "*" && r.Intn(4) != 0 {
					p = fs[2]
				}
			}
		}
		run(rules, s, d, p)
	}
	cs.Write(t, out)
	rep.Write(t, out)
}
