package harness

// C18 — ETH client accepts only valid children of known headers, keeps one chain.
// Drives the real keeper.UpdateClient / 09-eth CheckHeaderAndUpdateState on synthetic
// header trees (ethash computation switched off through the verif hook) and on the
// recorded mainnet headers (hook off: the seal is verified), dumps the client store
// after every accepted update for the Coq model, and evaluates the property on the
// real store with go-ethereum's own EIP-1559 / difficulty calculators.

import (
	"bytes"
	"encoding/binary"
	"fmt"
	"math/big"
	"sort"
	"strconv"
	"strings"
	"testing"
	"time"

	"github.com/ethereum/go-ethereum/common"
	"github.com/ethereum/go-ethereum/consensus/ethash"
	"github.com/ethereum/go-ethereum/consensus/misc"
	gethtypes "github.com/ethereum/go-ethereum/core/types"
	"github.com/ethereum/go-ethereum/params"

	"github.com/cosmos/cosmos-sdk/codec"
	sdk "github.com/cosmos/cosmos-sdk/types"

	clientkeeper "github.com/bianjieai/tibc-go/modules/tibc/core/02-client/keeper"
	clienttypes "github.com/bianjieai/tibc-go/modules/tibc/core/02-client/types"
	host "github.com/bianjieai/tibc-go/modules/tibc/core/24-host"
	"github.com/bianjieai/tibc-go/modules/tibc/core/exported"
	eth "github.com/bianjieai/tibc-go/modules/tibc/light-clients/09-eth/types"
	tibctesting "github.com/bianjieai/tibc-go/modules/tibc/testing"
)

// London rules from block 0, no Arrow Glacier: difficulty bomb delay 9,700,000 (EIP-3554)
var c18Cfg = &params.ChainConfig{ChainID: big.NewInt(1), HomesteadBlock: big.NewInt(0), EIP150Block: big.NewInt(0),
	EIP155Block: big.NewInt(0), EIP158Block: big.NewInt(0), ByzantiumBlock: big.NewInt(0), ConstantinopleBlock: big.NewInt(0),
	PetersburgBlock: big.NewInt(0), IstanbulBlock: big.NewInt(0), MuirGlacierBlock: big.NewInt(0), BerlinBlock: big.NewInt(0),
	LondonBlock: big.NewInt(0)}

type c18Env struct {
	t     *testing.T
	chain *tibctesting.TestChain
	k     clientkeeper.Keeper
	cdc   codec.BinaryCodec
	rep   *Report
	cs    *CaseSet
	n     int
}

type c18StepDesc struct {
	Tag      string `json:"tag"`
	Now      uint64 `json:"now"`
	Hash     string `json:"hash"`
	Parent   string `json:"parent"`
	Height   string `json:"height"`
	Time     uint64 `json:"time"`
	Root     string `json:"root"`
	GasLimit uint64 `json:"gas_limit"`
	GasUsed  uint64 `json:"gas_used"`
	Diff     string `json:"difficulty"`
	BaseFee  string `json:"base_fee"`
	Seal     bool   `json:"seal_valid"`
	SkipSeal bool   `json:"seal_hook_on"`
	OK       bool   `json:"accepted"`
	Spec     string `json:"spec"`
	Err      string `json:"err,omitempty"`
}

type c18Desc struct {
	Label string        `json:"history"`
	H0    string        `json:"initial_header"`
	Trust uint64        `json:"trusting_period"`
	Steps []c18StepDesc `json:"steps"`
}

// one history on one fresh client
type c18Hist struct {
	e       *c18Env
	label   string
	name    string
	ctx     sdk.Context
	h0      *eth.Header
	trust   uint64
	ids     map[common.Hash]uint64
	ghost   map[common.Hash]*eth.Header // every header accepted so far (and the initial one), never pruned
	steps   []string
	desc    c18Desc
	now     uint64
	pruned  bool // some accepted header is no longer indexed
	eqRoot  bool // two accepted headers share (root, height)
	quirkH0 bool // initial header outside what MsgCreateClient.ValidateBasic admits: acceptance oracle off
	nAcc    int
	nFork   int
}

func (e *c18Env) newHist(label string, h0 *eth.Header, trust uint64, now uint64) *c18Hist {
	e.n++
	ctx, _ := e.chain.GetContext().CacheContext()
	h := &c18Hist{e: e, label: label, name: fmt.Sprintf("eth%d", e.n), ctx: ctx, h0: h0, trust: trust, now: now,
		ids: map[common.Hash]uint64{gethtypes.EmptyUncleHash: 0}, ghost: map[common.Hash]*eth.Header{}}
	cs := &eth.ClientState{Header: *h0, ChainId: 1, ContractAddress: []byte("0x00"), TrustingPeriod: trust, BlockDelay: 1}
	cons := &eth.ConsensusState{Timestamp: h0.Time, Number: h0.Height, Root: h0.Root}
	if err := e.k.CreateClient(ctx.WithBlockTime(time.Unix(int64(now), 0)), h.name, cs, cons); err != nil {
		e.t.Fatalf("create client: %v", err)
	}
	h.ghost[h0.Hash()] = h0
	h.desc = c18Desc{Label: label, H0: h0.Hash().Hex(), Trust: trust}
	return h
}

func (h *c18Hist) id(x common.Hash) uint64 {
	if v, ok := h.ids[x]; ok {
		return v
	}
	v := uint64(len(h.ids))
	h.ids[x] = v
	return v
}

func c18ParseBig(s string) (*big.Int, bool) { return new(big.Int).SetString(s, 10) }

func c18Z(b *big.Int) string { return "(" + b.String() + ")%Z" }

// Coq term of a header (the ToEthHeader view the code works with)
func (h *c18Hist) hdrTerm(x *eth.Header) string {
	d, ok1 := c18ParseBig(x.Difficulty)
	b, ok2 := c18ParseBig(x.BaseFee)
	wf := ok1 && ok2
	if !wf {
		d, b = big.NewInt(0), big.NewInt(0)
	}
	parent := common.BytesToHash(x.ParentHash)
	root := common.BytesToHash(x.Root)
	uncle := common.BytesToHash(x.UncleHash)
	return fmt.Sprintf("(Hd %d %d %d %d %d %d %d %d %d %s %s %d %s)",
		h.id(x.Hash()), h.id(parent), x.Height.RevisionNumber, x.Height.RevisionHeight, x.Time, h.id(root), h.id(uncle),
		x.GasLimit, x.GasUsed, c18Z(d), c18Z(b), len(x.Extra), coqBool(wf))
}

// ---- reading the real client store -------------------------------------------------

type c18IdxEnt struct {
	Hash common.Hash
	Num  uint64
	Hdr  *eth.Header
}
type c18RootEnt struct {
	Root common.Hash
	Num  uint64
	To   string // the index key it points to
}
type c18ConsEnt struct {
	Rev, Num uint64
	C        *eth.ConsensusState
}
type c18Store struct {
	Idx  []c18IdxEnt
	Root []c18RootEnt
	Cons []c18ConsEnt
	Tip  eth.Header
}

func c18SplitHashNum(s string) (common.Hash, uint64, bool) {
	if len(s) < 67 {
		return common.Hash{}, 0, false
	}
	n, err := strconv.ParseUint(s[66:], 10, 64)
	if err != nil {
		return common.Hash{}, 0, false
	}
	return common.HexToHash(s[:66]), n, true
}

func (h *c18Hist) readStore(ctx sdk.Context) *c18Store {
	st := &c18Store{}
	store := h.e.k.ClientStore(ctx, h.name)
	it := store.Iterator(nil, nil)
	defer it.Close()
	for ; it.Valid(); it.Next() {
		k, v := string(it.Key()), it.Value()
		switch {
		case strings.HasPrefix(k, eth.KeyIndexEthHeaderPrefix+"/"):
			hash, num, ok := c18SplitHashNum(k[len(eth.KeyIndexEthHeaderPrefix)+1:])
			if !ok {
				h.e.t.Fatalf("unparsable index key %q", k)
			}
			var hi exported.Header
			if err := h.e.cdc.UnmarshalInterface(v, &hi); err != nil {
				h.e.t.Fatalf("stored header: %v", err)
			}
			st.Idx = append(st.Idx, c18IdxEnt{hash, num, hi.(*eth.Header)})
		case strings.HasPrefix(k, eth.KeyMainRootPrefix+"/"):
			root, num, ok := c18SplitHashNum(k[len(eth.KeyMainRootPrefix)+1:])
			if !ok {
				h.e.t.Fatalf("unparsable root key %q", k)
			}
			st.Root = append(st.Root, c18RootEnt{root, num, string(v)})
		case strings.HasPrefix(k, host.KeyConsensusStatePrefix+"/"):
			b := []byte(k[len(host.KeyConsensusStatePrefix)+1:])
			if len(b) != 16 {
				h.e.t.Fatalf("consensus key of length %d", len(b))
			}
			c, err := clienttypes.UnmarshalConsensusState(h.e.cdc, v)
			if err != nil {
				h.e.t.Fatalf("consensus state: %v", err)
			}
			st.Cons = append(st.Cons, c18ConsEnt{binary.BigEndian.Uint64(b[:8]), binary.BigEndian.Uint64(b[8:]), c.(*eth.ConsensusState)})
		}
	}
	cs, ok := h.e.k.GetClientState(ctx, h.name)
	if !ok {
		h.e.t.Fatal("client state missing")
	}
	st.Tip = cs.(*eth.ClientState).Header
	return st
}

func (h *c18Hist) dumpTerm(st *c18Store) string {
	var idx, rm, mn []string
	for _, e := range st.Idx {
		idx = append(idx, fmt.Sprintf("((%d,%d),%d)", h.id(e.Hash), e.Num, h.id(e.Hdr.Hash())))
	}
	for _, e := range st.Root {
		if !strings.HasPrefix(e.To, eth.KeyIndexEthHeaderPrefix+"/") {
			h.e.t.Fatalf("root index value %q", e.To)
		}
		th, tn, ok := c18SplitHashNum(e.To[len(eth.KeyIndexEthHeaderPrefix)+1:])
		if !ok {
			h.e.t.Fatalf("root index value %q", e.To)
		}
		rm = append(rm, fmt.Sprintf("((%d,%d),(%d,%d))", h.id(e.Root), e.Num, h.id(th), tn))
	}
	for _, e := range st.Cons {
		mn = append(mn, fmt.Sprintf("((%d,%d),CS %d %d %d %d)", e.Rev, e.Num, e.C.Timestamp, e.C.Number.RevisionNumber,
			e.C.Number.RevisionHeight, h.id(common.BytesToHash(e.C.Root))))
	}
	return fmt.Sprintf("(D18 %s %s %s (%d,%d,%d))", coqList(idx), coqList(rm), coqList(mn),
		h.id(st.Tip.Hash()), st.Tip.Height.RevisionNumber, st.Tip.Height.RevisionHeight)
}

// ---- the property as an executable predicate ----------------------------------------

func c18ToGeth(x *eth.Header) (*gethtypes.Header, bool) {
	d, ok1 := c18ParseBig(x.Difficulty)
	b, ok2 := c18ParseBig(x.BaseFee)
	if !ok1 || !ok2 {
		return nil, false
	}
	return &gethtypes.Header{ParentHash: common.BytesToHash(x.ParentHash), UncleHash: common.BytesToHash(x.UncleHash),
		Coinbase: common.BytesToAddress(x.Coinbase), Root: common.BytesToHash(x.Root), TxHash: common.BytesToHash(x.TxHash),
		ReceiptHash: common.BytesToHash(x.ReceiptHash), Bloom: gethtypes.BytesToBloom(x.Bloom), Difficulty: d,
		Number: new(big.Int).SetUint64(x.Height.RevisionHeight), GasLimit: x.GasLimit, GasUsed: x.GasUsed, Time: x.Time,
		Extra: x.Extra, MixDigest: common.BytesToHash(x.MixDigest), Nonce: gethtypes.EncodeNonce(x.Nonce), BaseFee: b}, true
}

func c18FromGeth(g *gethtypes.Header, rev uint64) *eth.Header {
	e := eth.EthHeader{ParentHash: g.ParentHash, UncleHash: g.UncleHash, Coinbase: g.Coinbase, Root: g.Root, TxHash: g.TxHash,
		ReceiptHash: g.ReceiptHash, Bloom: g.Bloom, Difficulty: g.Difficulty, Number: g.Number, GasLimit: g.GasLimit,
		GasUsed: g.GasUsed, Time: g.Time, Extra: g.Extra, MixDigest: g.MixDigest, Nonce: g.Nonce, BaseFee: g.BaseFee}
	r := e.ToHeader()
	r.Height.RevisionNumber = rev
	return &r
}

// specVerdict: "" = the property says accept; otherwise the first reason to refuse.
// Uses the real store only for "which headers does the client have", go-ethereum for
// the EIP-1559 / difficulty rules and plain big-integer arithmetic for the gas limit bound.
func (h *c18Hist) specVerdict(pre *c18Store, x *eth.Header, now uint64, sealValid bool) string {
	// client must be usable: consensus state of the latest header present and not expired
	active := false
	for _, c := range pre.Cons {
		if c.Rev == pre.Tip.Height.RevisionNumber && c.Num == pre.Tip.Height.RevisionHeight {
			active = !(c.C.Timestamp+h.trust < now)
		}
	}
	if !active {
		return "client-not-active"
	}
	g, ok := c18ToGeth(x)
	if !ok {
		return "malformed-number"
	}
	if len(x.Extra) > 32 {
		return "extra-too-long"
	}
	if x.GasLimit > 0x7fffffffffffffff {
		return "gas-limit-over-2^63"
	}
	if x.GasUsed > x.GasLimit {
		return "gas-used-over-limit"
	}
	if x.Height.RevisionHeight > 0 && new(big.Int).And(new(big.Int).Abs(g.Difficulty), new(big.Int).SetUint64(^uint64(0))).Sign() == 0 {
		return "difficulty-low64-zero"
	}
	if x.Height.RevisionNumber != pre.Tip.Height.RevisionNumber {
		return "revision-number"
	}
	var parent *eth.Header
	for _, e := range pre.Idx {
		if e.Hash == x.Hash() && e.Num == x.Height.RevisionHeight {
			return "duplicate"
		}
	}
	for _, e := range pre.Idx {
		if e.Hash == g.ParentHash && e.Num == x.Height.RevisionHeight-1 {
			parent = e.Hdr
		}
	}
	if parent == nil {
		return "parent-unknown"
	}
	pg, ok := c18ToGeth(parent)
	if !ok {
		return "parent-malformed"
	}
	if x.Time > now+15 {
		return "future"
	}
	if x.Time <= parent.Time {
		return "time-not-after-parent"
	}
	// |pg - g| < pg/1024 and g >= 5000
	diff := new(big.Int).Sub(new(big.Int).SetUint64(parent.GasLimit), new(big.Int).SetUint64(x.GasLimit))
	diff.Abs(diff)
	if diff.Cmp(new(big.Int).SetUint64(parent.GasLimit/1024)) >= 0 {
		return "gas-limit-bound"
	}
	if x.GasLimit < 5000 {
		return "gas-limit-min"
	}
	var want *big.Int
	func() {
		defer func() {
			if recover() != nil {
				want = nil
			}
		}()
		want = misc.CalcBaseFee(c18Cfg, pg)
	}()
	if want == nil || want.Cmp(g.BaseFee) != 0 {
		return "base-fee"
	}
	if ethash.CalcDifficulty(c18Cfg, x.Time, pg).Cmp(g.Difficulty) != 0 {
		return "difficulty"
	}
	if !sealValid {
		return "seal"
	}
	return ""
}

func c18HeightLE(r1, n1, r2, n2 uint64) bool { return r1 < r2 || (r1 == r2 && n1 <= n2) }

// single-chain oracle on the real store, against the harness's own record of accepted headers
func (h *c18Hist) checkSingleChain(st *c18Store, tag string) {
	chain := map[uint64]*eth.Header{}
	cur := st.Tip
	x := &cur
	for x != nil {
		chain[x.Height.RevisionHeight] = x
		p, ok := h.ghost[common.BytesToHash(x.ParentHash)]
		if !ok || p.Height.RevisionHeight+1 != x.Height.RevisionHeight {
			break
		}
		x = p
	}
	tr, tn := st.Tip.Height.RevisionNumber, st.Tip.Height.RevisionHeight
	for _, c := range st.Cons {
		if !c18HeightLE(c.Rev, c.Num, tr, tn) {
			continue
		}
		a := chain[c.Num]
		good := a != nil && c.C.Timestamp == a.Time && bytes.Equal(c.C.Root, a.Root) && c.Rev == a.Height.RevisionNumber &&
			c.C.Number.RevisionNumber == a.Height.RevisionNumber && c.C.Number.RevisionHeight == a.Height.RevisionHeight
		if good {
			continue
		}
		sig := "C18:single-chain-broken"
		if c.Rev != tr {
			sig = "C18:revision-number-unchecked"
		} else if h.eqRoot {
			sig = "C18:equal-root-branches"
		}
		h.e.rep.Fail(sig, fmt.Sprintf("consensus state at height %d-%d (<= latest %d-%d) is not the header at that height on the parent-linked chain ending at the latest header", c.Rev, c.Num, tr, tn),
			map[string]any{"history": h.desc, "after_step": tag})
		h.e.rep.Count("oracle:" + sig)
		return
	}
}

// ---- one update ----------------------------------------------------------------------

// submit runs keeper.UpdateClient on the real code at block time now.  sealValid is what
// the ethash verdict is by construction (true under the hook; known for recorded headers).
func (h *c18Hist) submit(tag string, x *eth.Header, sealValid, skipSeal bool) bool {
	e := h.e
	now := h.now
	eth.VerifSkipSeal = skipSeal
	pre := h.readStore(h.ctx)
	spec := h.specVerdict(pre, x, now, sealValid)

	sctx, write := h.ctx.CacheContext()
	sctx = sctx.WithBlockTime(time.Unix(int64(now), 0))
	var err error
	func() {
		defer func() {
			if r := recover(); r != nil {
				err = fmt.Errorf("panic: %v", r)
			}
		}()
		err = e.k.UpdateClient(sctx, h.name, x)
	}()
	ok := err == nil
	d := c18StepDesc{Tag: tag, Now: now, Hash: x.Hash().Hex(), Parent: common.BytesToHash(x.ParentHash).Hex(), Height: x.Height.String(),
		Time: x.Time, Root: common.BytesToHash(x.Root).Hex(), GasLimit: x.GasLimit, GasUsed: x.GasUsed, Diff: x.Difficulty, BaseFee: x.BaseFee,
		Seal: sealValid, SkipSeal: skipSeal, OK: ok, Spec: spec}
	if err != nil {
		d.Err = err.Error()
		if len(d.Err) > 160 {
			d.Err = d.Err[:160]
		}
	}
	h.desc.Steps = append(h.desc.Steps, d)
	e.rep.Evaluations++
	if i := strings.IndexAny(tag, "#=(+,"); i > 0 {
		e.rep.Count("input:" + tag[:i])
	} else {
		e.rep.Count("input:" + tag)
	}
	if spec == "" {
		e.rep.Count("spec:valid")
	} else {
		e.rep.Count("spec:" + spec)
	}
	dump := "(D18 [] [] [] (0,0,0))"
	if ok {
		write()
		h.nAcc++
		e.rep.Count("accepted")
		post := h.readStore(h.ctx)
		dump = h.dumpTerm(post)
		isFork := !bytes.Equal(pre.Tip.Hash().Bytes(), x.ParentHash)
		if isFork {
			h.nFork++
			depth := int64(pre.Tip.Height.RevisionHeight) - int64(x.Height.RevisionHeight)
			switch {
			case depth > 0:
				e.rep.Count("fork:to-lower-height")
			case depth == 0:
				e.rep.Count("fork:same-height")
			default:
				e.rep.Count("fork:to-higher-height")
			}
			e.rep.Nontrivial(h.label + "/" + tag)
		}
		// exact effect of an accepted update
		h.checkEffect(post, x, tag)
		// bookkeeping of the harness (never read by the code under test)
		for _, g := range h.ghost {
			if g.Height.RevisionHeight == x.Height.RevisionHeight && bytes.Equal(g.Root, x.Root) && g.Hash() != x.Hash() {
				h.eqRoot = true
			}
		}
		h.ghost[x.Hash()] = x
		if len(post.Idx) < len(pre.Idx)+1 {
			h.pruned = true
			e.rep.Count("pruned-on-update")
		}
		h.checkSingleChain(post, tag)
	} else {
		e.rep.Count("refused")
		if spec != "" && spec != "client-not-active" {
			e.rep.Nontrivial(h.label + "/" + tag)
		}
	}
	// acceptance oracle
	switch {
	case h.quirkH0:
		e.rep.Count("oracle:acceptance-skipped(initial header outside MsgCreateClient.ValidateBasic)")
	case ok && spec != "":
		sig := "C18:invalid-header-accepted"
		if spec == "revision-number" {
			sig = "C18:revision-number-unchecked"
		}
		e.rep.Fail(sig, "header accepted although the property refuses it: "+spec, map[string]any{"history": h.desc, "step": tag})
	case !ok && spec == "":
		switch {
		case h.pruned:
			e.rep.Count("valid-child-refused:after-pruning") // RestrictChain / pruning met a deleted header: refusal is safe
		case h.eqRoot:
			e.rep.Count("valid-child-refused:equal-root-history")
		default:
			e.rep.Fail("C18:valid-child-refused", "valid child of a stored header refused: "+d.Err, map[string]any{"history": h.desc, "step": tag})
		}
	}
	h.steps = append(h.steps, fmt.Sprintf("K18 %d %s %s %s %s", now, coqBool(sealValid), h.hdrTerm(x), coqBool(ok), dump))
	return ok
}

func (h *c18Hist) checkEffect(post *c18Store, x *eth.Header, tag string) {
	bad := ""
	if post.Tip.Hash() != x.Hash() || post.Tip.Height != x.Height {
		bad = "ClientState.Header is not the accepted header"
	}
	found := false
	for _, e := range post.Idx {
		if e.Hash == x.Hash() && e.Num == x.Height.RevisionHeight {
			found = e.Hdr.Hash() == x.Hash() && e.Hdr.Height == x.Height
		}
		if e.Hdr.Hash() != e.Hash || e.Hdr.Height.RevisionHeight != e.Num {
			bad = "header index entry not keyed by its own hash and height"
		}
	}
	if !found {
		bad = "accepted header not indexed"
	}
	foundC := false
	for _, c := range post.Cons {
		if c.Rev == x.Height.RevisionNumber && c.Num == x.Height.RevisionHeight {
			foundC = c.C.Timestamp == x.Time && bytes.Equal(c.C.Root, x.Root) && c.C.Number == x.Height
		}
	}
	if !foundC {
		bad = "consensus state at the accepted header's height is not its own"
	}
	foundR := false
	for _, r := range post.Root {
		if r.Root == common.BytesToHash(x.Root) && r.Num == x.Height.RevisionHeight {
			foundR = r.To == string(eth.EthHeaderIndexKey(x.Hash(), x.Height.RevisionHeight))
		}
	}
	if !foundR {
		bad = "root index does not point at the accepted header"
	}
	if bad != "" {
		h.e.rep.Fail("C18:accept-effect", bad, map[string]any{"history": h.desc, "step": tag})
	}
}

func (h *c18Hist) finish() {
	e := h.e
	e.cs.Add(fmt.Sprintf("C18 %s %d %s", h.hdrTerm(h.h0), h.trust, coqList(h.steps)), h.desc)
	e.rep.Count("histories")
	if h.nFork > 0 {
		e.rep.Count("histories-with-fork-switch")
	}
	if h.pruned {
		e.rep.Count("histories-with-pruning")
	}
	if h.eqRoot {
		e.rep.Count("histories-with-equal-root-siblings")
	}
	e.rep.Sample(3, h.desc)
}

// ---- TestC18 -----------------------------------------------------------------------------

func TestC18(t *testing.T) {
	out := envOut(t)
	rep := newReport("C18")
	rep.Rule = "histories of keeper.UpdateClient on a fresh ETH client: recorded mainnet headers with the real ethash check (plus corrupted nonce / mix digest), directed single-field perturbations of a valid child with boundaries -1/0/+1, fork trees of 2-3 branches of depth <= 6 submitted in many orders, equal-root siblings, pruning histories, seeded random tree growth with a malformed stream; non-trivial = accepted fork switch or refusal of a perturbed header"
	cs := &CaseSet{Prop: "C18", Imports: "Clients.Eth Harness.C18", Mismatch: "c18_mismatches", Shard: 20}
	coord := tibctesting.NewCoordinator(t, 1)
	chain := coord.GetChain(tibctesting.GetChainID(0))
	e := &c18Env{t: t, chain: chain, k: chain.App.TIBCKeeper.ClientKeeper, cdc: chain.App.AppCodec(), rep: rep, cs: cs}
	defer func() { eth.VerifSkipSeal = false }()

	// constants the model repeats
	rep.Constants = map[string]string{
		"DifficultyCalculatorParams": fmt.Sprint(eth.DifficultyCalculatorParams),
		"GasLimitBoundDivisor":       fmt.Sprint(params.GasLimitBoundDivisor),
		"MinGasLimit":                fmt.Sprint(params.MinGasLimit),
		"BaseFeeChangeDenominator":   fmt.Sprint(eth.BaseFeeChangeDenominator),
		"ElasticityMultiplier":       fmt.Sprint(eth.ElasticityMultiplier),
		"DifficultyBoundDivisor":     params.DifficultyBoundDivisor.String(),
		"MinimumDifficulty":          params.MinimumDifficulty.String(),
		"MaximumExtraDataSize":       fmt.Sprint(params.MaximumExtraDataSize),
		"EmptyUncleHash":             gethtypes.EmptyUncleHash.Hex(),
		"KeyIndexEthHeaderPrefix":    eth.KeyIndexEthHeaderPrefix,
		"KeyMainRootPrefix":          eth.KeyMainRootPrefix,
	}
	want := map[string]string{"DifficultyCalculatorParams": "9700000", "GasLimitBoundDivisor": "1024", "MinGasLimit": "5000",
		"BaseFeeChangeDenominator": "8", "ElasticityMultiplier": "2", "DifficultyBoundDivisor": "2048", "MinimumDifficulty": "131072",
		"MaximumExtraDataSize": "32"}
	for _, k := range sortedKeys(want) {
		if rep.Constants[k] != want[k] {
			rep.Fail("C18:constant-changed", "constant "+k+" differs from the model's", rep.Constants[k])
		}
	}

	c18Mainnet(e)
	c18Directed(e)
	c18Forks(e)
	c18EqualRoot(e)
	c18Pruning(e)
	c18Random(e)

	sort.Strings(rep.Notes)
	cs.Write(t, out)
	rep.Write(t, out)
}
