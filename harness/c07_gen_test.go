package harness

// Generators for C07: real validator keys, a simulated counterparty chain (validator sets that
// evolve, block times, app hashes), honest headers built from it and the catalogue of
// single-field perturbations.

import (
	"crypto/sha256"
	"fmt"
	"math/rand"
	"strings"
	"time"

	"github.com/cometbft/cometbft/crypto"
	"github.com/cometbft/cometbft/crypto/ed25519"
	"github.com/cometbft/cometbft/crypto/secp256k1"
	"github.com/cometbft/cometbft/crypto/tmhash"
	tmproto "github.com/cometbft/cometbft/proto/tendermint/types"
	tmprotoversion "github.com/cometbft/cometbft/proto/tendermint/version"
	tmtypes "github.com/cometbft/cometbft/types"
	tmversion "github.com/cometbft/cometbft/version"

	clienttypes "github.com/bianjieai/tibc-go/modules/tibc/core/02-client/types"
	commitmenttypes "github.com/bianjieai/tibc-go/modules/tibc/core/23-commitment/types"
	tibctmtypes "github.com/bianjieai/tibc-go/modules/tibc/light-clients/07-tendermint/types"
	tibctesting "github.com/bianjieai/tibc-go/modules/tibc/testing"
)

// ---- keys ---------------------------------------------------------------------------

type c07Key struct {
	priv crypto.PrivKey
	pub  crypto.PubKey
}

var c07KeyByAddr = map[string]*c07Key{}

func c07NewKey(label string, secp bool) *c07Key {
	var k *c07Key
	if secp {
		p := secp256k1.GenPrivKeySecp256k1([]byte(label))
		k = &c07Key{p, p.PubKey()}
	} else {
		p := ed25519.GenPrivKeyFromSecret([]byte(label))
		k = &c07Key{p, p.PubKey()}
	}
	c07KeyByAddr[string(k.pub.Address())] = k
	return k
}

func c07ValSet(keys []*c07Key, powers []int64) *tmtypes.ValidatorSet {
	vals := make([]*tmtypes.Validator, len(keys))
	for i, k := range keys {
		vals[i] = tmtypes.NewValidator(k.pub, powers[i])
	}
	return tmtypes.NewValidatorSet(vals)
}

func c07Proto(vs *tmtypes.ValidatorSet) *tmproto.ValidatorSet {
	p, err := vs.ToProto()
	if err != nil {
		panic(err)
	}
	return p
}

// deep copy of a validator-set proto (so that perturbations do not alias)
func c07CloneVS(p *tmproto.ValidatorSet) *tmproto.ValidatorSet {
	if p == nil {
		return nil
	}
	q := &tmproto.ValidatorSet{TotalVotingPower: p.TotalVotingPower}
	for _, v := range p.Validators {
		w := *v
		w.Address = append([]byte{}, v.Address...)
		q.Validators = append(q.Validators, &w)
	}
	if p.Proposer != nil {
		w := *p.Proposer
		w.Address = append([]byte{}, p.Proposer.Address...)
		q.Proposer = &w
	}
	return q
}

// ---- header specification and construction -------------------------------------------------

const (
	c07Absent = iota
	c07NilVote
	c07Good
	c07BadSig     // signature with one byte flipped
	c07OtherChain // signed for another chain id
	c07OtherKey   // signed by a key that is not the validator's
)

type c07Sig struct {
	Kind int
	Addr []byte // claimed validator address (nil: the validator at this index)
}

type c07Spec struct {
	ChainID          string
	Height           int64
	Time             time.Time
	Vals             *tmtypes.ValidatorSet
	NextValsHash     []byte
	AppHash          []byte
	Sigs             []c07Sig
	CommitHeight     int64 // 0: same as Height
	OtherBlock       bool  // commit (and its signatures) are for another block id
	ValsHashOverride []byte
	ValSetProto      *tmproto.ValidatorSet // nil: Vals
	ValSetNil        bool
	TrustedHeight    clienttypes.Height
	TrustedVals      *tmproto.ValidatorSet
	Post             func(h *tibctmtypes.Header)
}

var c07SpareKey = c07NewKey("c07-spare", false)

func c07Build(sp *c07Spec) *tibctmtypes.Header {
	vh := sp.Vals.Hash()
	if sp.ValsHashOverride != nil {
		vh = sp.ValsHashOverride
	}
	th := tmtypes.Header{
		Version:            tmprotoversion.Consensus{Block: tmversion.BlockProtocol, App: 2},
		ChainID:            sp.ChainID,
		Height:             sp.Height,
		Time:               sp.Time,
		LastBlockID:        tibctesting.MakeBlockID(make([]byte, tmhash.Size), 10_000, make([]byte, tmhash.Size)),
		LastCommitHash:     tmhash.Sum([]byte("last_commit_hash")),
		DataHash:           tmhash.Sum([]byte("data_hash")),
		ValidatorsHash:     vh,
		NextValidatorsHash: sp.NextValsHash,
		ConsensusHash:      tmhash.Sum([]byte("consensus_hash")),
		AppHash:            sp.AppHash,
		LastResultsHash:    tmhash.Sum([]byte("last_results_hash")),
		EvidenceHash:       tmhash.Sum([]byte("evidence_hash")),
		ProposerAddress:    sp.Vals.Validators[0].Address,
	}
	blockID := tibctesting.MakeBlockID(th.Hash(), 3, tmhash.Sum([]byte("part_set")))
	if sp.OtherBlock {
		blockID = tibctesting.MakeBlockID(tmhash.Sum([]byte("another block")), 3, tmhash.Sum([]byte("part_set")))
	}
	ch := sp.Height
	if sp.CommitHeight != 0 {
		ch = sp.CommitHeight
	}
	commit := &tmtypes.Commit{Height: ch, Round: 1, BlockID: blockID, Signatures: make([]tmtypes.CommitSig, len(sp.Sigs))}
	keys := make([]*c07Key, len(sp.Sigs))
	for i, sg := range sp.Sigs {
		var addr []byte
		keys[i] = c07SpareKey
		if i < len(sp.Vals.Validators) {
			addr = sp.Vals.Validators[i].Address
			keys[i] = c07KeyByAddr[string(addr)]
		} else {
			addr = c07SpareKey.pub.Address()
		}
		if sg.Addr != nil {
			addr = sg.Addr
		}
		switch sg.Kind {
		case c07Absent:
			commit.Signatures[i] = tmtypes.CommitSig{BlockIDFlag: tmtypes.BlockIDFlagAbsent}
		case c07NilVote:
			commit.Signatures[i] = tmtypes.CommitSig{BlockIDFlag: tmtypes.BlockIDFlagNil, ValidatorAddress: addr, Timestamp: sp.Time}
		default:
			commit.Signatures[i] = tmtypes.CommitSig{BlockIDFlag: tmtypes.BlockIDFlagCommit, ValidatorAddress: addr, Timestamp: sp.Time}
		}
	}
	for i, sg := range sp.Sigs {
		if sg.Kind == c07Absent {
			continue
		}
		chain := sp.ChainID
		key := keys[i]
		if sg.Kind == c07OtherChain {
			chain += "x"
		}
		if sg.Kind == c07OtherKey {
			key = c07SpareKey
		}
		sig, err := key.priv.Sign(commit.VoteSignBytes(chain, int32(i)))
		if err != nil {
			panic(err)
		}
		if sg.Kind == c07BadSig {
			sig[len(sig)/2] ^= 0x40
		}
		commit.Signatures[i].Signature = sig
	}
	h := &tibctmtypes.Header{
		SignedHeader:      &tmproto.SignedHeader{Header: th.ToProto(), Commit: commit.ToProto()},
		TrustedHeight:     sp.TrustedHeight,
		TrustedValidators: sp.TrustedVals,
	}
	switch {
	case sp.ValSetNil:
	case sp.ValSetProto != nil:
		h.ValidatorSet = sp.ValSetProto
	default:
		h.ValidatorSet = c07Proto(sp.Vals)
	}
	if sp.Post != nil {
		sp.Post(h)
	}
	return h
}

// ---- the simulated counterparty chain -------------------------------------------------------------

type c07Block struct {
	Vals, Next *tmtypes.ValidatorSet
	Time       time.Time
	AppHash    []byte
}

type c07World struct {
	r        *rand.Rand
	id       string
	ChainID  string // chain id of the headers (and of the client state)
	Rev      uint64
	pool     []*c07Key
	maxVals  int
	maxPower int64
	churn    int // percent of blocks that change the validator set
	t0       time.Time
	step     time.Duration
	blocks   map[int64]*c07Block
	top      int64
}

var c07WorldN int

func c07NewWorld(r *rand.Rand, chainID string, nvals, maxVals int, maxPower int64, churn int, secp int) *c07World {
	return c07NewWorldAt(r, chainID, nvals, maxVals, maxPower, churn, secp, time.Date(2030, 1, 1, 0, 0, 0, 0, time.UTC).Add(time.Duration(r.Intn(1e9))))
}

// c07NewWorldAt: the chain's block 0 would have time t0 (used for the chain a client is upgraded to)
func c07NewWorldAt(r *rand.Rand, chainID string, nvals, maxVals int, maxPower int64, churn int, secp int, t0 time.Time) *c07World {
	c07WorldN++
	w := &c07World{r: r, id: fmt.Sprintf("w%d", c07WorldN), ChainID: chainID, maxVals: maxVals, maxPower: maxPower, churn: churn,
		t0: t0, step: 10 * time.Minute, blocks: map[int64]*c07Block{}}
	_ = c07Safe(func() error { w.Rev = clienttypes.ParseChainID(chainID); return nil })
	for i := 0; i < maxVals+3; i++ {
		w.pool = append(w.pool, c07NewKey(fmt.Sprintf("c07-%d-%s-%d", envSeed(), w.id, i), i < secp))
	}
	keys := append([]*c07Key{}, w.pool[:nvals]...)
	powers := make([]int64, nvals)
	for i := range powers {
		powers[i] = 1 + r.Int63n(maxPower)
	}
	vs := c07ValSet(keys, powers)
	w.blocks[1] = &c07Block{Vals: vs, Next: w.evolve(vs), Time: w.t0.Add(w.step), AppHash: c07AppHash(w.id, 1)}
	w.top = 1
	return w
}

func c07AppHash(id string, h int64) []byte {
	s := sha256.Sum256([]byte(fmt.Sprintf("%s/%d", id, h)))
	return s[:]
}

func (w *c07World) evolve(vs *tmtypes.ValidatorSet) *tmtypes.ValidatorSet {
	if w.r.Intn(100) >= w.churn {
		return vs
	}
	type kp struct {
		k *c07Key
		p int64
	}
	var cur []kp
	in := map[string]bool{}
	for _, v := range vs.Validators {
		cur = append(cur, kp{c07KeyByAddr[string(v.Address)], v.VotingPower})
		in[string(v.Address)] = true
	}
	switch w.r.Intn(4) {
	case 0: // change a power
		cur[w.r.Intn(len(cur))].p = 1 + w.r.Int63n(w.maxPower)
	case 1: // add a validator
		if len(cur) < w.maxVals {
			for _, k := range w.pool {
				if !in[string(k.pub.Address())] {
					cur = append(cur, kp{k, 1 + w.r.Int63n(w.maxPower)})
					break
				}
			}
		}
	case 2: // remove one
		if len(cur) > 1 {
			i := w.r.Intn(len(cur))
			cur = append(cur[:i], cur[i+1:]...)
		}
	default: // replace most of the set
		keep := cur[:1+w.r.Intn(len(cur))]
		cur = append([]kp{}, keep...)
		for _, k := range w.pool {
			if len(cur) >= w.maxVals || w.r.Intn(2) == 0 {
				break
			}
			if !in[string(k.pub.Address())] {
				cur = append(cur, kp{k, 1 + w.r.Int63n(w.maxPower)})
			}
		}
	}
	keys := make([]*c07Key, len(cur))
	powers := make([]int64, len(cur))
	for i, c := range cur {
		keys[i], powers[i] = c.k, c.p
	}
	return c07ValSet(keys, powers)
}

func (w *c07World) block(h int64) *c07Block {
	for w.top < h {
		prev := w.blocks[w.top]
		w.top++
		w.blocks[w.top] = &c07Block{Vals: prev.Next, Next: w.evolve(prev.Next),
			Time: w.t0.Add(time.Duration(w.top) * w.step).Add(time.Duration(w.r.Intn(1000)) * time.Millisecond), AppHash: c07AppHash(w.id, w.top)}
	}
	return w.blocks[h]
}

func (w *c07World) consState(h int64) *tibctmtypes.ConsensusState {
	b := w.block(h)
	return tibctmtypes.NewConsensusState(b.Time, commitmenttypes.NewMerkleRoot(b.AppHash), b.Next.Hash())
}

func (w *c07World) height(h int64) clienttypes.Height { return clienttypes.NewHeight(w.Rev, uint64(h)) }

// honest header for height h, proved from the stored state at height g
func (w *c07World) honest(h, g int64) *c07Spec {
	b := w.block(h)
	tb := w.block(g)
	sp := &c07Spec{ChainID: w.ChainID, Height: h, Time: b.Time, Vals: b.Vals, NextValsHash: b.Next.Hash(), AppHash: b.AppHash,
		TrustedHeight: w.height(g), TrustedVals: c07Proto(tb.Next)}
	sp.Sigs = make([]c07Sig, len(b.Vals.Validators))
	for i := range sp.Sigs {
		sp.Sigs[i].Kind = c07Good
	}
	return sp
}

type c07ClientCfg struct {
	Num, Den      uint64
	Period, Drift time.Duration
}

func (w *c07World) clientState(cfg c07ClientCfg, latest int64) *tibctmtypes.ClientState {
	return tibctmtypes.NewClientState(w.ChainID, tibctmtypes.Fraction{Numerator: cfg.Num, Denominator: cfg.Den}, cfg.Period, cfg.Period*3/2+time.Hour,
		cfg.Drift, w.height(latest), commitmenttypes.GetSDKSpecs(), tibctesting.Prefix, 0)
}

// ---- signer subsets ------------------------------------------------------------------------------

// power of validator address in the trusted set (0 if absent)
func c07TrustedPower(tv *tmtypes.ValidatorSet, addr []byte) int64 {
	if _, v := tv.GetByAddress(addr); v != nil {
		return v.VotingPower
	}
	return 0
}

// c07Subset looks for a signer subset whose own-set power is ownNeed+dOwn (dOwn < 0: anything sufficient)
// and whose trusted power is trNeed+dTr (dTr < 0: anything sufficient).  Returns nil if none exists.
func c07Subset(r *rand.Rand, vals, trusted *tmtypes.ValidatorSet, num, den uint64, wantOwn, wantTr int) []bool {
	n := len(vals.Validators)
	ownNeed := vals.TotalVotingPower() * 2 / 3
	trNeed := int64(0)
	if den != 0 {
		trNeed = trusted.TotalVotingPower() * int64(num) / int64(den)
	}
	var hits [][]bool
	for m := 0; m < 1<<n; m++ {
		var own, tr int64
		for i := 0; i < n; i++ {
			if m&(1<<i) != 0 {
				own += vals.Validators[i].VotingPower
				tr += c07TrustedPower(trusted, vals.Validators[i].Address)
			}
		}
		okOwn := (wantOwn < 0 && own > ownNeed) || (wantOwn >= 0 && own == ownNeed+int64(wantOwn))
		okTr := (wantTr < 0 && tr > trNeed) || (wantTr >= 0 && tr == trNeed+int64(wantTr))
		if okOwn && okTr {
			s := make([]bool, n)
			for i := 0; i < n; i++ {
				s[i] = m&(1<<i) != 0
			}
			hits = append(hits, s)
		}
	}
	if len(hits) == 0 {
		return nil
	}
	return hits[r.Intn(len(hits))]
}

func c07ApplySubset(sp *c07Spec, s []bool, other int) {
	for i := range sp.Sigs {
		if s[i] {
			sp.Sigs[i].Kind = c07Good
		} else {
			sp.Sigs[i].Kind = other
		}
	}
}

// index at which the own-set scan crosses 2/3 when every entry is a valid Commit
func c07Crossing(vs *tmtypes.ValidatorSet) int {
	need := vs.TotalVotingPower() * 2 / 3
	var t int64
	for i, v := range vs.Validators {
		t += v.VotingPower
		if t > need {
			return i
		}
	}
	return len(vs.Validators) - 1
}

// ---- perturbations ---------------------------------------------------------------------------------

type c07Step struct {
	w   *c07World
	sp  *c07Spec
	now time.Time
	cfg c07ClientCfg
	g   int64 // trusted height used by the honest version
	// revision of the client's latest height when it differs from the revision of the trusted state (after an upgrade)
	otherRev    uint64
	hasOtherRev bool
}

type c07Perturb struct {
	Name string
	F    func(st *c07Step) bool // false: not applicable here
}

func c07Other(st *c07Step) *tmtypes.ValidatorSet {
	w := st.w
	return c07ValSet([]*c07Key{w.pool[len(w.pool)-1], w.pool[len(w.pool)-2]}, []int64{5, 4})
}

func c07Perturbs() []c07Perturb {
	tvEdit := func(f func(p *tmproto.ValidatorSet) bool) func(st *c07Step) bool {
		return func(st *c07Step) bool {
			p := c07CloneVS(st.sp.TrustedVals)
			if !f(p) {
				return false
			}
			st.sp.TrustedVals = p
			return true
		}
	}
	vsEdit := func(f func(p *tmproto.ValidatorSet) bool) func(st *c07Step) bool {
		return func(st *c07Step) bool {
			p := c07CloneVS(c07Proto(st.sp.Vals))
			if !f(p) {
				return false
			}
			st.sp.ValSetProto = p
			return true
		}
	}
	trusted := func(st *c07Step) *tmtypes.ValidatorSet { return st.w.block(st.g).Next }
	expiry := func(st *c07Step) time.Time { return st.w.block(st.g).Time.Add(st.cfg.Period) }
	return []c07Perturb{
		// --- which stored state is trusted
		{"trusted-height+1", func(st *c07Step) bool { st.sp.TrustedHeight.RevisionHeight++; return true }},
		{"trusted-height-1", func(st *c07Step) bool { st.sp.TrustedHeight.RevisionHeight--; return true }},
		{"trusted-height-other-revision", func(st *c07Step) bool { st.sp.TrustedHeight.RevisionNumber++; return true }},
		{"trusted-height-zero", func(st *c07Step) bool { st.sp.TrustedHeight = clienttypes.Height{}; return true }},
		// --- trusted validators
		{"trusted-vals-other-set", func(st *c07Step) bool { st.sp.TrustedVals = c07Proto(c07Other(st)); return true }},
		{"trusted-vals-own-set", func(st *c07Step) bool {
			if string(st.sp.Vals.Hash()) == string(trusted(st).Hash()) {
				return false
			}
			st.sp.TrustedVals = c07Proto(st.sp.Vals)
			return true
		}},
		{"trusted-vals-power+1", tvEdit(func(p *tmproto.ValidatorSet) bool { p.Validators[0].VotingPower++; return true })},
		{"trusted-vals-nil", func(st *c07Step) bool { st.sp.TrustedVals = nil; return true }},
		{"trusted-vals-empty", tvEdit(func(p *tmproto.ValidatorSet) bool { p.Validators = nil; return true })},
		{"trusted-vals-negative-power", tvEdit(func(p *tmproto.ValidatorSet) bool { p.Validators[len(p.Validators)-1].VotingPower = -1; return true })},
		{"trusted-vals-over-cap", tvEdit(func(p *tmproto.ValidatorSet) bool {
			p.Validators[0].VotingPower = tmtypes.MaxTotalVotingPower
			return true
		})},
		{"trusted-vals-bad-address", tvEdit(func(p *tmproto.ValidatorSet) bool { p.Validators[0].Address[3] ^= 1; return true })},
		{"trusted-vals-no-proposer", tvEdit(func(p *tmproto.ValidatorSet) bool { p.Proposer = nil; return true })},
		{"trusted-vals-reordered", tvEdit(func(p *tmproto.ValidatorSet) bool {
			if len(p.Validators) < 2 {
				return false
			}
			p.Validators[0], p.Validators[1] = p.Validators[1], p.Validators[0]
			return true
		})},
		{"trusted-vals-dropped-member", tvEdit(func(p *tmproto.ValidatorSet) bool {
			if len(p.Validators) < 2 {
				return false
			}
			p.Validators = p.Validators[:len(p.Validators)-1]
			p.Proposer = p.Validators[0]
			return true
		})},
		// --- revision / chain id
		{"chain-id-other", func(st *c07Step) bool { st.sp.ChainID = "x" + st.sp.ChainID; return true }},
		{"chain-id-revision+1", func(st *c07Step) bool {
			if !clienttypes.IsRevisionFormat(st.sp.ChainID) {
				return false
			}
			st.sp.ChainID, _ = clienttypes.SetRevisionNumber(st.sp.ChainID, st.w.Rev+1)
			return true
		}},
		{"chain-id-revision+1-with-trusted", func(st *c07Step) bool {
			if !clienttypes.IsRevisionFormat(st.sp.ChainID) {
				return false
			}
			st.sp.ChainID, _ = clienttypes.SetRevisionNumber(st.sp.ChainID, st.w.Rev+1)
			st.sp.TrustedHeight.RevisionNumber++
			return true
		}},
		{"chain-id-latest-revision", func(st *c07Step) bool {
			if !st.hasOtherRev || !clienttypes.IsRevisionFormat(st.sp.ChainID) {
				return false
			}
			st.sp.ChainID, _ = clienttypes.SetRevisionNumber(st.sp.ChainID, st.otherRev)
			return true
		}},
		{"chain-id-third-revision", func(st *c07Step) bool {
			if !st.hasOtherRev || !clienttypes.IsRevisionFormat(st.sp.ChainID) {
				return false
			}
			st.sp.ChainID, _ = clienttypes.SetRevisionNumber(st.sp.ChainID, st.otherRev+st.w.Rev+1)
			return true
		}},
		{"chain-id-revision-dropped", func(st *c07Step) bool {
			if !clienttypes.IsRevisionFormat(st.sp.ChainID) {
				return false
			}
			st.sp.ChainID = st.sp.ChainID[:strings.LastIndex(st.sp.ChainID, "-")]
			return true
		}},
		{"chain-id-revision-leading-zero", func(st *c07Step) bool {
			if !clienttypes.IsRevisionFormat(st.sp.ChainID) {
				return false
			}
			i := strings.LastIndex(st.sp.ChainID, "-")
			st.sp.ChainID = st.sp.ChainID[:i+1] + "0" + st.sp.ChainID[i+1:]
			return true
		}},
		{"chain-id-revision-appended", func(st *c07Step) bool { st.sp.ChainID += "-1"; return true }},
		{"chain-id-double-dash", func(st *c07Step) bool { st.sp.ChainID += "--2"; return true }},
		{"chain-id-empty", func(st *c07Step) bool { st.sp.ChainID = ""; return true }},
		{"chain-id-too-long", func(st *c07Step) bool { st.sp.ChainID = strings.Repeat("c", 49) + "-1"; return true }},
		{"chain-id-revision-overflow", func(st *c07Step) bool { st.sp.ChainID = "c-99999999999999999999"; return true }},
		{"chain-id-revision-max", func(st *c07Step) bool { st.sp.ChainID = "c-18446744073709551615"; return true }},
		// --- height
		{"height-equal-trusted", func(st *c07Step) bool { st.sp.Height = st.g; return true }},
		{"height-below-trusted", func(st *c07Step) bool {
			if st.g < 2 {
				return false
			}
			st.sp.Height = st.g - 1
			return true
		}},
		{"height-zero", func(st *c07Step) bool { st.sp.Height = 0; st.sp.CommitHeight = 0; return true }},
		{"height-negative", func(st *c07Step) bool { st.sp.Height = -5; return true }},
		// --- header time
		{"time-equal-trusted", func(st *c07Step) bool { st.sp.Time = st.w.block(st.g).Time; return true }},
		{"time-trusted+1ns", func(st *c07Step) bool { st.sp.Time = st.w.block(st.g).Time.Add(1); return true }},
		{"time-trusted-1ns", func(st *c07Step) bool { st.sp.Time = st.w.block(st.g).Time.Add(-1); return true }},
		{"time-now+drift-1ns", func(st *c07Step) bool { st.sp.Time = st.now.Add(st.cfg.Drift - 1); return true }},
		{"time-now+drift", func(st *c07Step) bool { st.sp.Time = st.now.Add(st.cfg.Drift); return true }},
		{"time-now+drift+1ns", func(st *c07Step) bool { st.sp.Time = st.now.Add(st.cfg.Drift + 1); return true }},
		// --- block time against the trusting period of the trusted state
		{"now-expiry-1ns", func(st *c07Step) bool { st.now = expiry(st).Add(-1); return true }},
		{"now-expiry", func(st *c07Step) bool { st.now = expiry(st); return true }},
		{"now-expiry+1ns", func(st *c07Step) bool { st.now = expiry(st).Add(1); return true }},
		{"now-long-after", func(st *c07Step) bool { st.now = expiry(st).Add(100 * st.cfg.Period); return true }},
		// --- the header's own validator set
		{"vals-hash-mismatch", func(st *c07Step) bool { st.sp.ValsHashOverride = tmhash.Sum([]byte("x")); return true }},
		{"valset-other", func(st *c07Step) bool { st.sp.ValSetProto = c07Proto(c07Other(st)); return true }},
		{"valset-nil", func(st *c07Step) bool { st.sp.ValSetNil = true; return true }},
		{"valset-power+1", vsEdit(func(p *tmproto.ValidatorSet) bool { p.Validators[0].VotingPower++; return true })},
		{"valset-negative-power", vsEdit(func(p *tmproto.ValidatorSet) bool { p.Validators[0].VotingPower = -3; return true })},
		{"valset-over-cap", vsEdit(func(p *tmproto.ValidatorSet) bool {
			p.Validators[0].VotingPower = tmtypes.MaxTotalVotingPower
			return true
		})},
		{"valset-bad-address", vsEdit(func(p *tmproto.ValidatorSet) bool { p.Validators[0].Address[0] ^= 0x80; return true })},
		{"valset-empty", vsEdit(func(p *tmproto.ValidatorSet) bool { p.Validators = nil; return true })},
		// --- commit
		{"commit-height+1", func(st *c07Step) bool { st.sp.CommitHeight = st.sp.Height + 1; return true }},
		{"commit-other-block", func(st *c07Step) bool { st.sp.OtherBlock = true; return true }},
		{"commit-truncated", func(st *c07Step) bool {
			if len(st.sp.Sigs) < 2 {
				return false
			}
			st.sp.Sigs = st.sp.Sigs[:len(st.sp.Sigs)-1]
			return true
		}},
		{"commit-extended", func(st *c07Step) bool { st.sp.Sigs = append(st.sp.Sigs, c07Sig{Kind: c07Good}); return true }},
		{"commit-nil", func(st *c07Step) bool {
			st.sp.Post = func(h *tibctmtypes.Header) { h.SignedHeader.Commit = nil }
			return true
		}},
		{"header-nil", func(st *c07Step) bool {
			st.sp.Post = func(h *tibctmtypes.Header) { h.SignedHeader.Header = nil }
			return true
		}},
		{"signed-header-nil", func(st *c07Step) bool { st.sp.Post = func(h *tibctmtypes.Header) { h.SignedHeader = nil }; return true }},
		{"block-version-wrong", func(st *c07Step) bool {
			st.sp.Post = func(h *tibctmtypes.Header) { h.SignedHeader.Header.Version.Block++ }
			return true
		}},
		{"next-vals-hash-short", func(st *c07Step) bool { st.sp.NextValsHash = []byte{1, 2, 3}; return true }},
		{"commit-round-negative", func(st *c07Step) bool {
			st.sp.Post = func(h *tibctmtypes.Header) { h.SignedHeader.Commit.Round = -1 }
			return true
		}},
		{"sig-oversize", func(st *c07Step) bool {
			st.sp.Post = func(h *tibctmtypes.Header) {
				s := &h.SignedHeader.Commit.Signatures[0]
				s.Signature = append(s.Signature, make([]byte, 40)...)
			}
			return true
		}},
		{"sig-short", func(st *c07Step) bool {
			st.sp.Post = func(h *tibctmtypes.Header) {
				s := &h.SignedHeader.Commit.Signatures[0]
				if len(s.Signature) > 10 {
					s.Signature = s.Signature[:10]
				}
			}
			return true
		}},
		{"absent-with-address", func(st *c07Step) bool {
			st.sp.Post = func(h *tibctmtypes.Header) {
				h.SignedHeader.Commit.Signatures[0].BlockIdFlag = tmproto.BlockIDFlagAbsent
			}
			return true
		}},
		{"flag-unknown", func(st *c07Step) bool {
			st.sp.Post = func(h *tibctmtypes.Header) { h.SignedHeader.Commit.Signatures[0].BlockIdFlag = 7 }
			return true
		}},
		// --- who signed
		{"all-absent", func(st *c07Step) bool {
			for i := range st.sp.Sigs {
				st.sp.Sigs[i].Kind = c07Absent
			}
			return true
		}},
		{"all-nil-votes", func(st *c07Step) bool {
			for i := range st.sp.Sigs {
				st.sp.Sigs[i].Kind = c07NilVote
			}
			return true
		}},
		{"all-other-chain", func(st *c07Step) bool {
			for i := range st.sp.Sigs {
				st.sp.Sigs[i].Kind = c07OtherChain
			}
			return true
		}},
		{"bad-sig-first", func(st *c07Step) bool { st.sp.Sigs[0].Kind = c07BadSig; return true }},
		{"other-key-first", func(st *c07Step) bool { st.sp.Sigs[0].Kind = c07OtherKey; return true }},
		{"bad-sig-at-crossing", func(st *c07Step) bool { st.sp.Sigs[c07Crossing(st.sp.Vals)].Kind = c07BadSig; return true }},
		{"bad-sig-after-crossing", func(st *c07Step) bool {
			c := c07Crossing(st.sp.Vals)
			if c+1 >= len(st.sp.Sigs) {
				return false
			}
			st.sp.Sigs[c+1].Kind = c07BadSig
			return true
		}},
		{"bad-sig-last", func(st *c07Step) bool { st.sp.Sigs[len(st.sp.Sigs)-1].Kind = c07BadSig; return true }},
		{"nil-vote-first", func(st *c07Step) bool { st.sp.Sigs[0].Kind = c07NilVote; return true }},
		{"absent-first", func(st *c07Step) bool { st.sp.Sigs[0].Kind = c07Absent; return true }},
		{"addr-swapped", func(st *c07Step) bool {
			if len(st.sp.Sigs) < 2 {
				return false
			}
			st.sp.Sigs[0].Addr = st.sp.Vals.Validators[1].Address
			st.sp.Sigs[1].Addr = st.sp.Vals.Validators[0].Address
			return true
		}},
		{"addr-duplicate", func(st *c07Step) bool {
			if len(st.sp.Sigs) < 2 {
				return false
			}
			st.sp.Sigs[1].Addr = st.sp.Vals.Validators[0].Address
			return true
		}},
		{"addr-duplicate-last", func(st *c07Step) bool {
			if len(st.sp.Sigs) < 2 {
				return false
			}
			st.sp.Sigs[len(st.sp.Sigs)-1].Addr = st.sp.Vals.Validators[0].Address
			return true
		}},
		{"addr-foreign-first", func(st *c07Step) bool { st.sp.Sigs[0].Addr = c07SpareKey.pub.Address(); return true }},
		// --- exact thresholds
		{"own-power-2/3-floor", func(st *c07Step) bool {
			s := c07Subset(st.w.r, st.sp.Vals, trusted(st), st.cfg.Num, st.cfg.Den, 0, -1)
			if s == nil {
				return false
			}
			c07ApplySubset(st.sp, s, c07Absent)
			return true
		}},
		{"own-power-2/3-floor+1", func(st *c07Step) bool {
			s := c07Subset(st.w.r, st.sp.Vals, trusted(st), st.cfg.Num, st.cfg.Den, 1, -1)
			if s == nil {
				return false
			}
			c07ApplySubset(st.sp, s, c07NilVote)
			return true
		}},
		{"own-power-2/3-floor-with-bad-rest", func(st *c07Step) bool {
			s := c07Subset(st.w.r, st.sp.Vals, trusted(st), st.cfg.Num, st.cfg.Den, 1, -1)
			if s == nil {
				return false
			}
			c07ApplySubset(st.sp, s, c07BadSig)
			return true
		}},
		{"trusted-power-level-floor", func(st *c07Step) bool {
			s := c07Subset(st.w.r, st.sp.Vals, trusted(st), st.cfg.Num, st.cfg.Den, -1, 0)
			if s == nil {
				return false
			}
			c07ApplySubset(st.sp, s, c07Absent)
			return true
		}},
		{"trusted-power-level-floor+1", func(st *c07Step) bool {
			s := c07Subset(st.w.r, st.sp.Vals, trusted(st), st.cfg.Num, st.cfg.Den, -1, 1)
			if s == nil {
				return false
			}
			c07ApplySubset(st.sp, s, c07Absent)
			return true
		}},
	}
}
