package harness

// C07 families: directed (valid scenario + every single perturbation, multi-step stories) and
// seeded random histories.

import (
	"fmt"
	"math/rand"
	"time"

	tmproto "github.com/cometbft/cometbft/proto/tendermint/types"
	tmtypes "github.com/cometbft/cometbft/types"

	clienttypes "github.com/bianjieai/tibc-go/modules/tibc/core/02-client/types"
	host "github.com/bianjieai/tibc-go/modules/tibc/core/24-host"
	tibctmtypes "github.com/bianjieai/tibc-go/modules/tibc/light-clients/07-tendermint/types"
)

type c07Base struct {
	Name     string
	ChainID  string
	NVals    int
	MaxVals  int
	MaxPower int64
	Churn    int
	Secp     int
	Cfg      c07ClientCfg
	G, H     int64
}

func c07Bases() []c07Base {
	h := time.Hour
	s := time.Second
	return []c07Base{
		{"adj-4v", "cpty-1", 4, 5, 3, 0, 0, c07ClientCfg{1, 3, 24 * h, 10 * s}, 5, 6},
		{"nonadj-4v", "cpty-1", 4, 6, 3, 70, 0, c07ClientCfg{1, 3, 24 * h, 10 * s}, 5, 9},
		{"adj-1v", "cpty", 1, 2, 10, 0, 0, c07ClientCfg{1, 3, 2 * h, s}, 3, 4},
		{"nonadj-1v", "cpty", 1, 2, 10, 0, 0, c07ClientCfg{2, 3, 2 * h, s}, 3, 7},
		{"nonadj-7v-2/3", "a-b-3", 7, 7, 5, 80, 0, c07ClientCfg{2, 3, 24 * h, 10 * s}, 2, 6},
		{"nonadj-6v-1/2", "x-0", 6, 7, 4, 50, 0, c07ClientCfg{1, 2, 24 * h, 600 * s}, 4, 8},
		{"adj-3v-1/1", "gaia-7", 3, 3, 1, 0, 0, c07ClientCfg{1, 1, 24 * h, 10 * s}, 7, 8},
		{"nonadj-3v-1/1", "gaia-7", 3, 4, 2, 30, 0, c07ClientCfg{1, 1, 24 * h, 10 * s}, 7, 10},
		{"nonadj-5v-huge-power", "cpty-1", 5, 5, tmtypes.MaxTotalVotingPower / 5, 0, 0, c07ClientCfg{1, 3, 24 * h, 10 * s}, 5, 8},
		{"nonadj-3v-secp", "cpty-2", 3, 4, 3, 40, 4, c07ClientCfg{1, 3, 24 * h, 10 * s}, 5, 8},
		{"nonadj-4v-mixed-keys", "cpty-2", 4, 5, 3, 40, 2, c07ClientCfg{1, 3, 24 * h, 10 * s}, 5, 8},
		{"adj-2v", "two", 2, 2, 2, 0, 0, c07ClientCfg{1, 3, 24 * h, 10 * s}, 1, 2},
	}
}

func (b c07Base) world(r *rand.Rand) *c07World {
	return c07NewWorld(r, b.ChainID, b.NVals, b.MaxVals, b.MaxPower, b.Churn, b.Secp)
}

func c07Directed(e *c07Env) {
	r := newRand(701)
	perturbs := c07Perturbs()
	for _, b := range c07Bases() {
		w := b.world(r)
		run := func(name string, f func(st *c07Step) bool) {
			st := &c07Step{w: w, sp: w.honest(b.H, b.G), now: w.block(b.H).Time.Add(time.Second), cfg: b.Cfg, g: b.G}
			if f != nil && !f(st) {
				e.rep.Count("perturbation-not-applicable")
				return
			}
			sc := e.newScen()
			sc.create(w.block(b.G).Time.Add(time.Second), w.clientState(b.Cfg, b.G), w.consState(b.G))
			sc.step(b.Name+"/"+name, st.now, c07Build(st.sp))
		}
		run("valid", nil)
		for _, p := range perturbs {
			run(p.Name, p.F)
		}
	}
	c07Stories(e, r)
}

// multi-step stories: update into the past, conflicting header, pruning, expired client
func c07Stories(e *c07Env, r *rand.Rand) {
	h := time.Hour
	// --- update into the past / conflicting headers (long trusting period)
	{
		w := c07NewWorld(r, "cpty-1", 4, 5, 3, 30, 0)
		cfg := c07ClientCfg{1, 3, 24 * h, 10 * time.Second}
		sc := e.newScen()
		sc.create(w.block(5).Time.Add(time.Second), w.clientState(cfg, 5), w.consState(5))
		now := w.block(20).Time.Add(time.Second)
		sc.step("story-past/to-20", now, c07Build(w.honest(20, 5)))
		sc.step("story-past/to-12-below-latest", now, c07Build(w.honest(12, 5)))
		sp := w.honest(12, 5)
		sp.AppHash = c07AppHash("fork", 12)
		sc.step("story-past/conflicting-12", now, c07Build(sp))
		sp = w.honest(20, 12)
		sp.AppHash = c07AppHash("fork", 20)
		sp.Time = sp.Time.Add(time.Second)
		sc.step("story-past/conflicting-latest-20", now, c07Build(sp))
		sc.step("story-past/11-trusted-12", now, c07Build(w.honest(11, 12)))
		sp = w.honest(13, 12)
		sc.step("story-past/13-trusted-12-adjacent", now, c07Build(sp))
		sc.step("story-past/13-again", now, c07Build(w.honest(13, 12)))
		sc.step("story-past/21-trusted-20-forked", now.Add(h), c07Build(w.honest(21, 20)))
		sc.step("story-past/19-trusted-13", now.Add(h), c07Build(w.honest(19, 13)))
	}
	// --- pruning (short trusting period: 2h = 12 blocks)
	{
		w := c07NewWorld(r, "cpty", 3, 4, 3, 20, 0)
		cfg := c07ClientCfg{1, 3, 2 * h, time.Second}
		sc := e.newScen()
		sc.create(w.block(5).Time.Add(time.Second), w.clientState(cfg, 5), w.consState(5))
		at := func(hh int64) time.Time { return w.block(hh).Time.Add(time.Second) }
		sc.step("story-prune/8", at(8), c07Build(w.honest(8, 5)))
		sc.step("story-prune/16", at(16), c07Build(w.honest(16, 8)))
		sc.step("story-prune/18-prunes-5", at(18), c07Build(w.honest(18, 16)))
		sc.step("story-prune/22-prunes-8", at(22), c07Build(w.honest(22, 18)))
		sc.step("story-prune/23", at(23), c07Build(w.honest(23, 22)))
		sc.step("story-prune/24", at(24), c07Build(w.honest(24, 23)))
		sc.step("story-prune/25", at(25), c07Build(w.honest(25, 24)))
		// 16, 18, 22, 23, 24 stored; pause until just before 25 expires: one state pruned per update
		late := w.block(25).Time.Add(2*h - time.Second)
		sc.step("story-prune/26-late-prunes-one", late, c07Build(w.honest(26, 25)))
		sc.step("story-prune/27-late-prunes-one", late, c07Build(w.honest(27, 25)))
		sc.step("story-prune/rejected-prunes-nothing", late, c07Build(w.honest(28, 24)))
		sc.step("story-prune/28-at-expiry", w.block(25).Time.Add(2*h), c07Build(w.honest(28, 25)))
		sc.step("story-prune/28-trusted-27", w.block(25).Time.Add(2*h), c07Build(w.honest(28, 27)))
	}
	// --- latest state expired but another stored state is not (header times are not monotone in height)
	{
		w := c07NewWorld(r, "cpty-4", 3, 3, 2, 0, 0)
		cfg := c07ClientCfg{1, 3, 2 * h, time.Second}
		sc := e.newScen()
		sc.create(w.block(5).Time.Add(time.Second), w.clientState(cfg, 5), w.consState(5))
		sc.step("story-expired/10", w.block(10).Time.Add(time.Second), c07Build(w.honest(10, 5)))
		tLate := w.block(5).Time.Add(110 * time.Minute)
		sp := w.honest(8, 5)
		sp.Time = tLate
		sc.step("story-expired/8-with-late-time", tLate, c07Build(sp))
		now2 := w.block(10).Time.Add(2*h + time.Second)
		sp = w.honest(9, 8)
		sp.Time = tLate.Add(time.Second)
		sc.step("story-expired/9-trusted-8-latest-expired", now2, c07Build(sp))
		sp = w.honest(11, 10)
		sc.step("story-expired/11-trusted-10-expired", now2, c07Build(sp))
		sp = w.honest(11, 8)
		sp.Time = tLate.Add(2 * time.Second)
		sc.step("story-expired/11-trusted-8", now2, c07Build(sp))
	}
	// --- exact expiry of a state that is NOT the trusted one: pruning and the keeper's Status gate
	for _, d := range []time.Duration{-1, 0, 1} {
		w := c07NewWorld(r, "cpty-2", 3, 3, 2, 0, 0)
		cfg := c07ClientCfg{1, 3, 2 * h, time.Second}
		at := func(hh int64) time.Time { return w.block(hh).Time.Add(time.Second) }
		// pruning boundary: earliest state 5 expires exactly at now+d
		sc := e.newScen()
		sc.create(at(5), w.clientState(cfg, 5), w.consState(5))
		sc.step("story-boundary/8", at(8), c07Build(w.honest(8, 5)))
		sc.step("story-boundary/12", at(12), c07Build(w.honest(12, 8)))
		sc.step(fmt.Sprintf("story-boundary/13-earliest-at-expiry%+d", d), w.block(5).Time.Add(2*h+d), c07Build(w.honest(13, 12)))
		sc.step(fmt.Sprintf("story-boundary/14-next-earliest-at-expiry%+d", d), w.block(8).Time.Add(2*h+d), c07Build(w.honest(14, 13)))
		// status boundary: latest state 10 expires exactly at now+d while state 8 (later time) is fine
		sc = e.newScen()
		sc.create(at(5), w.clientState(cfg, 5), w.consState(5))
		sc.step("story-boundary/10", at(10), c07Build(w.honest(10, 5)))
		tLate := w.block(5).Time.Add(110 * time.Minute)
		sp := w.honest(8, 5)
		sp.Time = tLate
		sc.step("story-boundary/8-late-time", tLate, c07Build(sp))
		sp = w.honest(9, 8)
		sp.Time = tLate.Add(time.Second)
		sc.step(fmt.Sprintf("story-boundary/9-latest-at-expiry%+d", d), w.block(10).Time.Add(2*h+d), c07Build(sp))
	}
	// --- revisions: the client's chain id names revision 2, the stored states are of revision 1
	for _, cid := range []string{"cpty-2", "cpty", "cpty-1", "other-1", "cpty-2-1"} {
		w := c07NewWorld(r, "cpty-1", 3, 4, 3, 30, 0)
		cfg := c07ClientCfg{1, 3, 24 * h, 10 * time.Second}
		at := func(hh int64) time.Time { return w.block(hh).Time.Add(time.Second) }
		cs := w.clientState(cfg, 5)
		cs.ChainId = cid
		sc := e.newScen()
		sc.create(at(5), cs, w.consState(5))
		sc.step("story-revision/"+cid+"/header-of-revision-1", at(7), c07Build(w.honest(7, 5)))
		sp := w.honest(8, 5)
		sp.ChainID = cid
		sc.step("story-revision/"+cid+"/header-with-client-chain-id", at(8), c07Build(sp))
		sp = w.honest(6, 5)
		sp.ChainID = "cpty-2"
		sp.TrustedHeight.RevisionNumber = 2
		sc.step("story-revision/"+cid+"/header-and-trusted-of-revision-2", at(8), c07Build(sp))
		sc.step("story-revision/"+cid+"/adjacent-6", at(8), c07Build(w.honest(6, 5)))
	}
	// --- a validator set that lists the same validator twice (decodes fine; lookups by address find the first)
	for _, tl := range [][2]uint64{{1, 3}, {2, 3}} {
		w := c07NewWorld(r, "cpty-1", 3, 3, 3, 0, 0)
		cfg := c07ClientCfg{tl[0], tl[1], 24 * h, 10 * time.Second}
		at := func(hh int64) time.Time { return w.block(hh).Time.Add(time.Second) }
		dp := c07CloneVS(c07Proto(w.block(6).Vals))
		first := *dp.Validators[0]
		dp.Validators = append([]*tmproto.Validator{&first}, dp.Validators...)
		dup, err := tmtypes.ValidatorSetFromProto(dp)
		if err != nil {
			e.t.Fatalf("duplicate validator set does not decode: %v", err)
		}
		co := w.consState(5)
		co.NextValidatorsHash = dup.Hash()
		mk := func(hh int64, ownDup bool, kinds ...int) *tibctmtypes.Header {
			sp := w.honest(hh, 5)
			sp.TrustedVals = dp
			if ownDup {
				sp.Vals = dup
				sp.Sigs = make([]c07Sig, len(dup.Validators))
				for i := range sp.Sigs {
					sp.Sigs[i].Kind = c07Good
				}
			}
			for i, k := range kinds {
				sp.Sigs[i].Kind = k
			}
			return c07Build(sp)
		}
		for i, hd := range []*tibctmtypes.Header{
			mk(6, true), mk(6, true, c07Absent), mk(6, true, c07Good, c07Absent), mk(6, true, c07Good, c07Good, c07Absent, c07Absent),
			mk(6, false), mk(8, false), mk(8, true), mk(8, true, c07Absent), mk(8, true, c07Good, c07BadSig), mk(8, false, c07Absent),
		} {
			sc := e.newScen()
			sc.create(at(5), w.clientState(cfg, 5), co)
			sc.step(fmt.Sprintf("story-duplicate-validator/%d", i), at(8), hd)
		}
	}
	// --- stores that no history of updates produces (keys removed by hand): Status Unknown, pruning error
	for _, which := range []string{"latest", "earliest", "middle"} {
		w := c07NewWorld(r, "cpty-1", 3, 3, 2, 0, 0)
		cfg := c07ClientCfg{1, 3, 24 * h, 10 * time.Second}
		at := func(hh int64) time.Time { return w.block(hh).Time.Add(time.Second) }
		sc := e.newScen()
		sc.create(at(5), w.clientState(cfg, 5), w.consState(5))
		sc.step("story-damaged/8", at(8), c07Build(w.honest(8, 5)))
		sc.step("story-damaged/12", at(12), c07Build(w.honest(12, 8)))
		victim := map[string]int64{"latest": 12, "earliest": 5, "middle": 8}[which]
		sc.store(sc.ctx).Delete(host.ConsensusStateKey(w.height(victim)))
		sc.step("story-damaged/"+which+"-state-deleted/13-trusted-12", at(13), c07Build(w.honest(13, 12)))
		sc.step("story-damaged/"+which+"-state-deleted/13-trusted-8", at(13), c07Build(w.honest(13, 8)))
		sc.step("story-damaged/"+which+"-state-deleted/9-trusted-5", at(13), c07Build(w.honest(9, 5)))
	}
	// --- client upgraded to a new revision while states of the old revision are still stored and trusted:
	//     header revision in {trusted, latest, a third one} x trusted state in {old, new revision} x adjacent / non-adjacent
	for _, withMeta := range []bool{false, true} {
		for _, tl := range [][2]uint64{{1, 3}, {2, 3}} {
			w1 := c07NewWorld(r, "gaia-1", 3, 4, 3, 30, 0)
			cfg := c07ClientCfg{tl[0], tl[1], 24 * h, 10 * time.Second}
			w2 := c07NewWorldAt(r, "gaia-2", 3, 4, 3, 30, 0, w1.block(10).Time)
			now := w2.block(12).Time.Add(time.Second) // after every block used below
			tag := fmt.Sprintf("story-upgrade/meta=%v/", withMeta)
			first := true
			fresh := func() *c07Scen {
				sc := e.newScen()
				sc.create(w1.block(5).Time.Add(time.Second), w1.clientState(cfg, 5), w1.consState(5))
				sc.noCase = !first // the common prefix is emitted as a Coq case only once
				first = false
				sc.step(tag+"before/1-8", w1.block(8).Time.Add(time.Second), c07Build(w1.honest(8, 5)))
				sc.noCase = false
				sc.upgrade(w2.block(5).Time.Add(time.Second), w2.clientState(cfg, 5), w2.consState(5), withMeta)
				return sc
			}
			withChain := func(sp *c07Spec, id string) *c07Spec { sp.ChainID = id; return sp }
			type tc struct {
				name string
				sp   *c07Spec
			}
			for _, c := range []tc{
				// trusted state of the OLD revision (1-8)
				{"old-trusted/header-rev1-adjacent", w1.honest(9, 8)},
				{"old-trusted/header-rev1-nonadjacent", w1.honest(20, 8)},
				{"old-trusted/header-rev2-adjacent", withChain(w1.honest(9, 8), "gaia-2")},
				{"old-trusted/header-rev2-nonadjacent", withChain(w1.honest(20, 8), "gaia-2")},
				{"old-trusted/header-rev3-adjacent", withChain(w1.honest(9, 8), "gaia-3")},
				{"old-trusted/header-rev3-nonadjacent", withChain(w1.honest(20, 8), "gaia-3")},
				{"old-trusted-5/header-rev1-below-other-state", w1.honest(7, 5)},
				{"old-trusted-5/header-rev2", withChain(w1.honest(7, 5), "gaia-2")},
				// trusted state of the NEW revision (2-5)
				{"new-trusted/header-rev2-adjacent", w2.honest(6, 5)},
				{"new-trusted/header-rev2-nonadjacent", w2.honest(11, 5)},
				{"new-trusted/header-rev1-adjacent", withChain(w2.honest(6, 5), "gaia-1")},
				{"new-trusted/header-rev1-nonadjacent", withChain(w2.honest(11, 5), "gaia-1")},
				{"new-trusted/header-rev3-adjacent", withChain(w2.honest(6, 5), "gaia-3")},
				{"new-trusted/header-rev3-nonadjacent", withChain(w2.honest(11, 5), "gaia-3")},
			} {
				fresh().step(tag+c.name, now, c07Build(c.sp))
			}
			// a longer history on the upgraded client, alternating revisions
			sc := fresh()
			sc.step(tag+"history/2-7", now, c07Build(w2.honest(7, 5)))
			sc.step(tag+"history/1-12-old-revision", now, c07Build(w1.honest(12, 8)))
			sc.step(tag+"history/2-9-trusted-1-12", now, c07Build(withChain(w1.honest(13, 12), "gaia-2")))
			sc.step(tag+"history/1-13", now, c07Build(w1.honest(13, 12)))
			sc.step(tag+"history/2-8-trusted-2-7", now, c07Build(w2.honest(8, 7)))
			sc.step(tag+"history/1-9-trusted-2-7", now, c07Build(withChain(w2.honest(9, 7), "gaia-1")))
		}
	}
	// --- no client under that name
	{
		w := c07NewWorld(r, "cpty-1", 2, 2, 2, 0, 0)
		sc := e.newScen()
		sc.step("no-client/update", w.block(6).Time.Add(time.Second), c07Build(w.honest(6, 5)))
	}
	// --- trust levels outside [1/3, 1] (only reachable by creating the client without Validate)
	for _, tl := range [][2]uint64{{0, 1}, {5, 3}, {1, 0}, {1, 4}, {1 << 62, 1 << 62}, {3, 1 << 63}} {
		w := c07NewWorld(r, "cpty-1", 4, 5, 3, 50, 0)
		cfg := c07ClientCfg{tl[0], tl[1], 24 * h, 10 * time.Second}
		for _, pn := range []string{"valid", "trusted-power-level-floor", "trusted-power-level-floor+1", "all-absent"} {
			st := &c07Step{w: w, sp: w.honest(9, 5), now: w.block(9).Time.Add(time.Second), cfg: cfg, g: 5}
			ok := true
			for _, p := range c07Perturbs() {
				if p.Name == pn && tl[1] != 0 && tl[0] < 1<<32 {
					ok = p.F(st)
				}
			}
			if !ok {
				continue
			}
			sc := e.newScen()
			sc.create(w.block(5).Time.Add(time.Second), w.clientState(cfg, 5), w.consState(5))
			sc.step(fmt.Sprintf("odd-trust-level-%d/%d/%s", tl[0], tl[1], pn), st.now, c07Build(st.sp))
		}
	}
}

// ---- random histories ------------------------------------------------------------------------------

func c07Random(e *c07Env) {
	r := newRand(702)
	nscen, nOracleOnly := 45, 400
	if envTier() == "thorough" {
		nscen, nOracleOnly = 1500, 8000
	}
	perturbs := c07Perturbs()
	chainIDs := []string{"cpty", "cpty-1", "cpty-7", "a-b-3", "x-0", "net-1-", "q--5", "testchain0", "c-18446744073709551615"}
	cfgs := []c07ClientCfg{
		{1, 3, 2 * time.Hour, time.Second}, {1, 3, 2 * time.Hour, 10 * time.Minute}, {2, 3, 2 * time.Hour, 10 * time.Second},
		{1, 2, 24 * time.Hour, 10 * time.Second}, {1, 1, 2 * time.Hour, 10 * time.Second}, {3, 4, 14 * 24 * time.Hour, 10 * time.Second},
		{2, 5, 90 * time.Minute, time.Second}, {1, 3, 50 * time.Minute, 20 * time.Minute},
	}
	for n := 0; n < nscen+nOracleOnly; n++ {
		nv := 1 + r.Intn(7)
		maxV := nv + r.Intn(8-nv)
		maxP := pick(r, []int64{1, 2, 3, 3, 5, 10, 1000, tmtypes.MaxTotalVotingPower / 8})
		secp := 0
		if r.Intn(8) == 0 {
			secp = r.Intn(nv + 1)
		}
		w := c07NewWorld(r, pick(r, chainIDs), nv, maxV, maxP, pick(r, []int{0, 20, 50, 90}), secp)
		cfg := pick(r, cfgs)
		g0 := 1 + r.Int63n(6)
		sc := e.newScen()
		sc.noCase = n >= nscen
		now := w.block(g0).Time.Add(time.Second)
		sc.create(now, w.clientState(cfg, g0), w.consState(g0))
		steps := 4 + r.Intn(9)
		worlds := map[uint64]*c07World{w.Rev: w} // one simulated chain per revision the client has tracked
		upgradeAt := -1
		if clienttypes.IsRevisionFormat(w.ChainID) && w.Rev < 1<<40 && r.Intn(3) == 0 {
			upgradeAt = 1 + r.Intn(4)
		}
		for i := 0; i < steps; i++ {
			if i == upgradeAt { // the counterparty restarts under the next revision; old states stay stored
				id2, _ := clienttypes.SetRevisionNumber(w.ChainID, w.Rev+1)
				g2 := 1 + r.Int63n(5)
				w2 := c07NewWorldAt(r, id2, nv, maxV, maxP, 30, 0, now.Add(-time.Duration(g2)*10*time.Minute))
				worlds[w2.Rev] = w2
				if t := w2.block(g2).Time.Add(time.Second); t.After(now) {
					now = t
				}
				sc.upgrade(now, w2.clientState(cfg, g2), w2.consState(g2), r.Intn(2) == 0)
				e.rep.Count("random:upgrade-to-next-revision")
			}
			pre := c07Dump(sc.store(sc.ctx), e.cdc)
			if pre.Client == nil || len(pre.Cons) == 0 {
				break
			}
			// trusted state: mostly the latest stored one; after an upgrade often one of the old revision
			te := pre.Cons[len(pre.Cons)-1]
			if r.Intn(4) == 0 || (len(worlds) > 1 && r.Intn(2) == 0) {
				te = pre.Cons[r.Intn(len(pre.Cons))]
			}
			w := worlds[te.H.RevisionNumber]
			if w == nil {
				break
			}
			g := int64(te.H.RevisionHeight)
			// target height
			var hh int64
			switch r.Intn(10) {
			case 0, 1, 2, 3:
				hh = g + 1
			case 4, 5, 6:
				hh = g + 2 + r.Int63n(5)
			case 7:
				hh = g + 6 + r.Int63n(9) // may fall outside the trusting period
			case 8:
				hh = int64(pre.Cons[r.Intn(len(pre.Cons))].H.RevisionHeight) // an existing height
			default:
				hh = g + 1 + r.Int63n(3)
			}
			if hh <= g {
				hh = g + 1
			}
			st := &c07Step{w: w, sp: w.honest(hh, g), cfg: cfg, g: g}
			if lr := pre.Client.LatestHeight.RevisionNumber; lr != w.Rev {
				st.otherRev, st.hasOtherRev = lr, true
			} else if len(worlds) > 1 {
				for rv := range worlds {
					if rv != w.Rev {
						st.otherRev, st.hasOtherRev = rv, true
					}
				}
			}
			// block time: normally just after the header, never before the previous step
			cand := w.block(hh).Time.Add(time.Duration(r.Int63n(int64(5 * time.Second))))
			switch r.Intn(12) {
			case 0:
				cand = w.block(hh).Time.Add(-cfg.Drift / 2) // header from the (allowed) future
			case 1:
				cand = cand.Add(time.Duration(r.Int63n(int64(cfg.Period)))) // idle time: things expire
			}
			if r.Intn(8) == 0 { // exact expiry (-1/0/+1 ns) of one of the stored states
				c := pre.Cons[r.Intn(len(pre.Cons))]
				x := c.CS.Timestamp.Add(cfg.Period + time.Duration(r.Intn(3)-1))
				if !x.Before(w.block(hh).Time.Add(-cfg.Drift / 2)) {
					cand = x
				}
			}
			if cand.After(now) {
				now = cand
			}
			st.now = now
			fam := "random"
			// who signs
			switch r.Intn(10) {
			case 0, 1, 2, 3: // everyone
			case 4, 5, 6: // random subset / kinds
				for j := range st.sp.Sigs {
					switch r.Intn(12) {
					case 0:
						st.sp.Sigs[j].Kind = c07Absent
					case 1:
						st.sp.Sigs[j].Kind = c07NilVote
					case 2:
						st.sp.Sigs[j].Kind = pick(r, []int{c07BadSig, c07OtherChain, c07OtherKey})
					}
				}
				fam = "random-signers"
			default: // exact thresholds
				tv := w.block(g).Next
				wt := pick(r, [][2]int{{0, -1}, {1, -1}, {-1, 0}, {-1, 1}, {1, 1}, {0, 0}, {1, 0}, {0, 1}})
				wantOwn, wantTr := wt[0], wt[1]
				if s := c07Subset(r, st.sp.Vals, tv, cfg.Num, cfg.Den, wantOwn, wantTr); s != nil {
					c07ApplySubset(st.sp, s, pick(r, []int{c07Absent, c07NilVote, c07BadSig}))
					fam = "random-threshold"
				}
			}
			if st.hasOtherRev && r.Intn(3) == 0 { // header of the client's other revision / of a third one
				want := pick(r, []string{"chain-id-latest-revision", "chain-id-latest-revision", "chain-id-third-revision"})
				for _, p := range perturbs {
					if p.Name == want && p.F(st) {
						fam = "random-cross-revision/" + p.Name
						break
					}
				}
			} else if r.Intn(4) == 0 { // malformed stream
				p := perturbs[r.Intn(len(perturbs))]
				if p.F(st) {
					fam = "random-malformed/" + p.Name
					if st.now.Sub(now) < cfg.Period {
						now = st.now
					}
				}
			}
			var hd *tibctmtypes.Header
			if err := c07Safe(func() error { hd = c07Build(st.sp); return nil }); err != nil {
				e.rep.Count("generator-could-not-build")
				continue
			}
			sc.step(fam, st.now, hd)
		}
	}
}
