module verif/harness

go 1.21

require (
	cosmossdk.io/log v1.4.1
	cosmossdk.io/math v1.3.0
	cosmossdk.io/store v1.1.1
	github.com/bianjieai/tibc-go v0.0.0
	github.com/cometbft/cometbft v0.38.12
	github.com/cosmos/cosmos-db v1.0.2
	github.com/cosmos/cosmos-sdk v0.50.10
	github.com/cosmos/ics23/go v0.11.0
	github.com/ethereum/go-ethereum v1.10.17
	golang.org/x/crypto v0.26.0
	mods.irisnet.org/modules/mt v0.0.0-20241202072418-ae2ffd0c842e
	mods.irisnet.org/modules/nft v0.0.0-20241202072418-ae2ffd0c842e
)

require (
	cloud.google.com/go v0.112.1 // indirect
	cloud.google.com/go/compute/metadata v0.3.0 // indirect
	cloud.google.com/go/iam v1.1.6 // indirect
	cloud.google.com/go/storage v1.38.0 // indirect
	cosmossdk.io/api v0.7.5 // indirect
	cosmossdk.io/collections v0.4.0 // indirect
	cosmossdk.io/core v0.11.1 // indirect
	cosmossdk.io/depinject v1.0.0 // indirect
	cosmossdk.io/errors v1.0.1 // indirect
	cosmossdk.io/x/evidence v0.1.1 // indirect
	cosmossdk.io/x/feegrant v0.1.1 // indirect
	cosmossdk.io/x/nft v0.1.1 // indirect
	cosmossdk.io/x/tx v0.13.5 // indirect
	cosmossdk.io/x/upgrade v0.1.4 // indirect
	filippo.io/edwards25519 v1.0.0 // indirect
	github.com/99designs/keyring v1.2.1 // indirect
	github.com/DataDog/datadog-go v3.2.0+incompatible // indirect
	github.com/VictoriaMetrics/fastcache v1.6.0 // indirect
	github.com/aws/aws-sdk-go v1.44.224 // indirect
	github.com/beorn7/perks v1.0.1 // indirect
	github.com/bgentry/go-netrc v0.0.0-20140422174119-9fd32a8b3d3d // indirect
	github.com/bgentry/speakeasy v0.1.1-0.20220910012023-760eaf8b6816 // indirect
	github.com/bits-and-blooms/bitset v1.8.0 // indirect
	github.com/btcsuite/btcd/btcec/v2 v2.3.4 // indirect
	github.com/cenkalti/backoff/v4 v4.1.3 // indirect
	github.com/cespare/xxhash/v2 v2.3.0 // indirect
	github.com/chzyer/readline v1.5.1 // indirect
	github.com/cockroachdb/errors v1.11.3 // indirect
	github.com/cockroachdb/logtags v0.0.0-20230118201751-21c54148d20b // indirect
	github.com/cockroachdb/redact v1.1.5 // indirect
	github.com/cometbft/cometbft-db v0.11.0 // indirect
	github.com/cosmos/btcutil v1.0.5 // indirect
	github.com/cosmos/cosmos-proto v1.0.0-beta.5 // indirect
	github.com/cosmos/go-bip39 v1.0.0 // indirect
	github.com/cosmos/gogogateway v1.2.0 // indirect
	github.com/cosmos/gogoproto v1.7.0 // indirect
	github.com/cosmos/iavl v1.2.0 // indirect
	github.com/davecgh/go-spew v1.1.2-0.20180830191138-d8f796af33cc // indirect
	github.com/deckarep/golang-set v1.8.0 // indirect
	github.com/decred/dcrd/dcrec/secp256k1/v4 v4.2.0 // indirect
	github.com/desertbit/timer v0.0.0-20180107155436-c41aec40b27f // indirect
	github.com/dvsekhvalnov/jose2go v1.6.0 // indirect
	github.com/edsrzf/mmap-go v1.0.0 // indirect
	github.com/emicklei/dot v1.6.1 // indirect
	github.com/fatih/color v1.15.0 // indirect
	github.com/felixge/httpsnoop v1.0.4 // indirect
	github.com/fsnotify/fsnotify v1.7.0 // indirect
	github.com/getsentry/sentry-go v0.27.0 // indirect
	github.com/go-kit/kit v0.12.0 // indirect
	github.com/go-kit/log v0.2.1 // indirect
	github.com/go-logfmt/logfmt v0.6.0 // indirect
	github.com/go-logr/logr v1.4.1 // indirect
	github.com/go-logr/stdr v1.2.2 // indirect
	github.com/go-stack/stack v1.8.0 // indirect
	github.com/godbus/dbus v0.0.0-20190726142602-4481cbc300e2 // indirect
	github.com/gogo/googleapis v1.4.1 // indirect
	github.com/gogo/protobuf v1.3.2 // indirect
	github.com/golang/groupcache v0.0.0-20210331224755-41bb18bfe9da // indirect
	github.com/golang/mock v1.6.0 // indirect
	github.com/golang/protobuf v1.5.4 // indirect
	github.com/golang/snappy v0.0.4 // indirect
	github.com/google/btree v1.1.2 // indirect
	github.com/google/go-cmp v0.6.0 // indirect
	github.com/google/orderedcode v0.0.1 // indirect
	github.com/google/s2a-go v0.1.7 // indirect
	github.com/google/uuid v1.6.0 // indirect
	github.com/googleapis/enterprise-certificate-proxy v0.3.2 // indirect
	github.com/googleapis/gax-go/v2 v2.12.3 // indirect
	github.com/gorilla/handlers v1.5.1 // indirect
	github.com/gorilla/mux v1.8.0 // indirect
	github.com/gorilla/websocket v1.5.3 // indirect
	github.com/grpc-ecosystem/go-grpc-middleware v1.4.0 // indirect
	github.com/grpc-ecosystem/grpc-gateway v1.16.0 // indirect
	github.com/gsterjov/go-libsecret v0.0.0-20161001094733-a6f4afe4910c // indirect
	github.com/hashicorp/go-cleanhttp v0.5.2 // indirect
	github.com/hashicorp/go-getter v1.7.4 // indirect
	github.com/hashicorp/go-hclog v1.5.0 // indirect
	github.com/hashicorp/go-immutable-radix v1.3.1 // indirect
	github.com/hashicorp/go-metrics v0.5.3 // indirect
	github.com/hashicorp/go-plugin v1.5.2 // indirect
	github.com/hashicorp/go-safetemp v1.0.0 // indirect
	github.com/hashicorp/go-version v1.6.0 // indirect
	github.com/hashicorp/golang-lru v1.0.2 // indirect
	github.com/hashicorp/golang-lru/v2 v2.0.7 // indirect
	github.com/hashicorp/hcl v1.0.0 // indirect
	github.com/hashicorp/yamux v0.1.1 // indirect
	github.com/hdevalence/ed25519consensus v0.1.0 // indirect
	github.com/holiman/bloomfilter/v2 v2.0.3 // indirect
	github.com/holiman/uint256 v1.2.0 // indirect
	github.com/huandu/skiplist v1.2.0 // indirect
	github.com/iancoleman/strcase v0.3.0 // indirect
	github.com/improbable-eng/grpc-web v0.15.0 // indirect
	github.com/jmespath/go-jmespath v0.4.0 // indirect
	github.com/klauspost/compress v1.17.9 // indirect
	github.com/kr/pretty v0.3.1 // indirect
	github.com/kr/text v0.2.0 // indirect
	github.com/lib/pq v1.10.7 // indirect
	github.com/magiconair/properties v1.8.7 // indirect
	github.com/manifoldco/promptui v0.9.0 // indirect
	github.com/mattn/go-colorable v0.1.13 // indirect
	github.com/mattn/go-isatty v0.0.20 // indirect
	github.com/mattn/go-runewidth v0.0.9 // indirect
	github.com/minio/highwayhash v1.0.2 // indirect
	github.com/mitchellh/go-homedir v1.1.0 // indirect
	github.com/mitchellh/go-testing-interface v1.14.1 // indirect
	github.com/mitchellh/mapstructure v1.5.0 // indirect
	github.com/mtibben/percent v0.2.1 // indirect
	github.com/munnerz/goautoneg v0.0.0-20191010083416-a7dc8b61c822 // indirect
	github.com/oasisprotocol/curve25519-voi v0.0.0-20230904125328-1f23a7beb09a // indirect
	github.com/oklog/run v1.1.0 // indirect
	github.com/olekukonko/tablewriter v0.0.5 // indirect
	github.com/pelletier/go-toml/v2 v2.2.2 // indirect
	github.com/pkg/errors v0.9.1 // indirect
	github.com/pmezard/go-difflib v1.0.1-0.20181226105442-5d4384ee4fb2 // indirect
	github.com/prometheus/client_golang v1.20.1 // indirect
	github.com/prometheus/client_model v0.6.1 // indirect
	github.com/prometheus/common v0.55.0 // indirect
	github.com/prometheus/procfs v0.15.1 // indirect
	github.com/prometheus/tsdb v0.7.1 // indirect
	github.com/rcrowley/go-metrics v0.0.0-20201227073835-cf1acfcdf475 // indirect
	github.com/rogpeppe/go-internal v1.12.0 // indirect
	github.com/rs/cors v1.11.1 // indirect
	github.com/rs/zerolog v1.33.0 // indirect
	github.com/sagikazarmark/slog-shim v0.1.0 // indirect
	github.com/shirou/gopsutil v3.21.4-0.20210419000835-c7a38de76ee5+incompatible // indirect
	github.com/spf13/afero v1.11.0 // indirect
	github.com/spf13/cast v1.6.0 // indirect
	github.com/spf13/cobra v1.8.1 // indirect
	github.com/spf13/pflag v1.0.5 // indirect
	github.com/spf13/viper v1.19.0 // indirect
	github.com/stretchr/testify v1.9.0 // indirect
	github.com/subosito/gotenv v1.6.0 // indirect
	github.com/syndtr/goleveldb v1.0.1-0.20220721030215-126854af5e6d // indirect
	github.com/tendermint/go-amino v0.16.0 // indirect
	github.com/tidwall/btree v1.7.0 // indirect
	github.com/tidwall/gjson v1.14.4 // indirect
	github.com/tidwall/match v1.1.1 // indirect
	github.com/tidwall/pretty v1.2.0 // indirect
	github.com/tklauser/go-sysconf v0.3.10 // indirect
	github.com/tklauser/numcpus v0.4.0 // indirect
	github.com/ulikunitz/xz v0.5.11 // indirect
	go.opencensus.io v0.24.0 // indirect
	go.opentelemetry.io/contrib/instrumentation/google.golang.org/grpc/otelgrpc v0.49.0 // indirect
	go.opentelemetry.io/contrib/instrumentation/net/http/otelhttp v0.49.0 // indirect
	go.opentelemetry.io/otel v1.24.0 // indirect
	go.opentelemetry.io/otel/metric v1.24.0 // indirect
	go.opentelemetry.io/otel/trace v1.24.0 // indirect
	golang.org/x/exp v0.0.0-20240404231335-c0f41cb1a7a0 // indirect
	golang.org/x/net v0.28.0 // indirect
	golang.org/x/oauth2 v0.21.0 // indirect
	golang.org/x/sync v0.8.0 // indirect
	golang.org/x/sys v0.24.0 // indirect
	golang.org/x/term v0.23.0 // indirect
	golang.org/x/text v0.17.0 // indirect
	golang.org/x/time v0.5.0 // indirect
	google.golang.org/api v0.171.0 // indirect
	google.golang.org/genproto v0.0.0-20240227224415-6ceb2ff114de // indirect
	google.golang.org/genproto/googleapis/api v0.0.0-20240318140521-94a12d6c2237 // indirect
	google.golang.org/genproto/googleapis/rpc v0.0.0-20240709173604-40e1e62336c5 // indirect
	google.golang.org/grpc v1.64.1 // indirect
	google.golang.org/protobuf v1.34.2 // indirect
	gopkg.in/ini.v1 v1.67.0 // indirect
	gopkg.in/yaml.v3 v3.0.1 // indirect
	gotest.tools/v3 v3.5.1 // indirect
	mods.irisnet.org/api v0.0.0-20241118093307-345265846e1d // indirect
	nhooyr.io/websocket v1.8.6 // indirect
	pgregory.net/rapid v1.1.0 // indirect
	sigs.k8s.io/yaml v1.4.0 // indirect
)

replace github.com/bianjieai/tibc-go => /repo
