package harness

// C08, Tendermint side: a real SimApp chain (IAVL multistore) is the prover; the verifying client is a
// 07-tendermint ClientState over a scratch client store filled by the harness.

import (
	"bytes"
	"context"
	"fmt"
	"testing"
	"time"

	abci "github.com/cometbft/cometbft/abci/types"
	ics23 "github.com/cosmos/ics23/go"

	clienttypes "github.com/bianjieai/tibc-go/modules/tibc/core/02-client/types"
	commitmenttypes "github.com/bianjieai/tibc-go/modules/tibc/core/23-commitment/types"
	host "github.com/bianjieai/tibc-go/modules/tibc/core/24-host"
	ibctm "github.com/bianjieai/tibc-go/modules/tibc/light-clients/07-tendermint/types"
	bsctypes "github.com/bianjieai/tibc-go/modules/tibc/light-clients/08-bsc/types"
	tibctesting "github.com/bianjieai/tibc-go/modules/tibc/testing"
)

// one committed version of the prover chain's "tibc" store
type c08TmState struct {
	Version int64             // IAVL version (proofs are queried at this height)
	Root    []byte            // app hash after committing Version
	KV      map[string][]byte // harness's own record of what the tibc store holds under the packet keys
}

type c08TmEnv struct {
	t      *testing.T
	coord  *tibctesting.Coordinator
	chain  *tibctesting.TestChain
	states []*c08TmState
	cache  map[string][]byte // proof cache: version/key
}

// the protocol-defined store keys, written out by hand (independent of 24-host/keys.go)
func c08Path(fn, src, dst string, seq uint64) string {
	switch fn {
	case "commit":
		return fmt.Sprintf("commitments/%s/%s/sequences/%d", src, dst, seq)
	case "ack":
		return fmt.Sprintf("acks/%s/%s/sequences/%d", src, dst, seq)
	default:
		return fmt.Sprintf("clean/%s/%s", src, dst)
	}
}

func c08be64(n uint64) []byte {
	b := make([]byte, 8)
	for i := 7; i >= 0; i-- {
		b[i] = byte(n)
		n >>= 8
	}
	return b
}

func newC08TmEnv(t *testing.T) *c08TmEnv {
	coord := tibctesting.NewCoordinator(t, 1)
	e := &c08TmEnv{t: t, coord: coord, chain: coord.GetChain(tibctesting.GetChainID(0)), cache: map[string][]byte{}}
	return e
}

// commit writes the given changes (nil value = delete) into the prover's tibc store and commits a block
func (e *c08TmEnv) commit(changes map[string][]byte) *c08TmState {
	ctx := e.chain.GetContext()
	st := ctx.KVStore(e.chain.App.GetKey(host.StoreKey))
	kv := map[string][]byte{}
	if len(e.states) > 0 {
		for k, v := range e.states[len(e.states)-1].KV {
			kv[k] = v
		}
	}
	for _, k := range sortedKeys(changes) {
		v := changes[k]
		if v == nil {
			st.Delete([]byte(k))
			delete(kv, k)
		} else {
			st.Set([]byte(k), v)
			kv[k] = v
		}
	}
	e.coord.CommitBlock(e.chain)
	s := &c08TmState{Version: e.chain.App.LastBlockHeight(), Root: append([]byte{}, e.chain.App.LastCommitID().Hash...), KV: kv}
	e.states = append(e.states, s)
	return s
}

// prove returns the proto-encoded MerkleProof the chain serves for key at the state's version
func (e *c08TmEnv) prove(s *c08TmState, key string) []byte {
	ck := fmt.Sprintf("%d/%s", s.Version, key)
	if p, ok := e.cache[ck]; ok {
		return p
	}
	res, err := e.chain.App.Query(context.Background(), &abci.RequestQuery{
		Path: fmt.Sprintf("store/%s/key", host.StoreKey), Height: s.Version, Data: []byte(key), Prove: true,
	})
	if err != nil || res.ProofOps == nil {
		e.t.Fatalf("query proof %q at %d: %v %v", key, s.Version, err, res)
	}
	mp, err := commitmenttypes.ConvertProofs(res.ProofOps)
	if err != nil {
		e.t.Fatal(err)
	}
	bz, err := e.chain.App.AppCodec().Marshal(&mp)
	if err != nil {
		e.t.Fatal(err)
	}
	e.cache[ck] = bz
	return bz
}

func (e *c08TmEnv) stateByRoot(root []byte) *c08TmState {
	for _, s := range e.states {
		if bytes.Equal(s.Root, root) {
			return s
		}
	}
	return nil
}

var c08SpecByID = map[int]*ics23.ProofSpec{0: ics23.IavlSpec, 1: ics23.TendermintSpec, 2: ics23.SmtSpec}

func c08Specs(ids []int) []*ics23.ProofSpec {
	out := make([]*ics23.ProofSpec, len(ids))
	for i, id := range ids {
		if id >= 0 {
			out[i] = c08SpecByID[id]
		}
	}
	return out
}

// runTM executes the real 07-tendermint Verify* on the input; returns accepted, panicked, store-unchanged
func (e *c08TmEnv) run(in *c08In) (ok bool, panicked bool, unchanged bool) {
	ctx, _ := e.chain.GetContext().CacheContext()
	ctx = ctx.WithBlockTime(time.Unix(0, int64(in.Now)))
	cdc := e.chain.App.AppCodec()
	store := e.chain.App.TIBCKeeper.ClientKeeper.ClientStore(ctx, "c08-counterparty")
	for _, c := range in.Cons {
		switch c.Kind {
		case 0:
			cs := &ibctm.ConsensusState{Timestamp: time.Unix(1700000000, 0).UTC(), Root: commitmenttypes.NewMerkleRoot(c.Root), NextValidatorsHash: bytes.Repeat([]byte{7}, 32)}
			bz, err := cdc.MarshalInterface(cs)
			if err != nil {
				e.t.Fatal(err)
			}
			store.Set(host.ConsensusStateKey(c.H.ht()), bz)
		case 1: // a consensus state of another client type
			bz, err := cdc.MarshalInterface(&bsctypes.ConsensusState{Timestamp: 5, Number: c.H.ht(), Root: c.Root})
			if err != nil {
				e.t.Fatal(err)
			}
			store.Set(host.ConsensusStateKey(c.H.ht()), bz)
		default:
			store.Set(host.ConsensusStateKey(c.H.ht()), []byte{0xff, 0x01, 0x02})
		}
	}
	for _, p := range in.PT {
		ibctm.SetProcessedTime(store, p.H.ht(), p.T)
	}
	cs := ibctm.ClientState{
		ChainId: "c08-counterparty", LatestHeight: in.Latest.ht(), ProofSpecs: c08Specs(in.Specs),
		MerklePrefix: commitmenttypes.MerklePrefix{KeyPrefix: in.Prefix}, TimeDelay: in.Delay,
		TrustingPeriod: time.Hour, UnbondingPeriod: 2 * time.Hour, MaxClockDrift: time.Second,
	}
	before := c08Dump(store)
	var proof []byte
	if !in.ProofNil {
		proof = append([]byte{}, in.Proof...)
	}
	func() {
		defer func() {
			if r := recover(); r != nil {
				panicked = true
				ok = false
			}
		}()
		var err error
		switch in.Fn {
		case "commit":
			err = cs.VerifyPacketCommitment(ctx, store, cdc, in.H.ht(), proof, in.Src, in.Dst, in.Seq, in.Val)
		case "ack":
			err = cs.VerifyPacketAcknowledgement(ctx, store, cdc, in.H.ht(), proof, in.Src, in.Dst, in.Seq, in.Val)
		default:
			err = cs.VerifyPacketCleanCommitment(ctx, store, cdc, in.H.ht(), proof, in.Src, in.Dst, in.Seq)
		}
		ok = err == nil
	}()
	unchanged = before == c08Dump(store)
	return
}

// decoded proof ops as the model's instance sees them; every library answer is obtained from the real ics23 code
type c08TmOp struct {
	Kind    int    // 0 exist, 1 nonexist, 2 other
	CalcOK  bool   // Calculate() succeeded
	Calc    []byte // its result
	Key     []byte // Exist.Key
	Val     []byte // Exist.Value
	OKSpecs []int  // spec ids s with ics23.VerifyMembership(spec_s, Calc, op, Key, Val)
}

func (e *c08TmEnv) decode(in *c08In, rep *Report, r interface{ Intn(int) int }) (ops []c08TmOp, decoded bool) {
	if in.ProofNil {
		return nil, false
	}
	var mp commitmenttypes.MerkleProof
	if err := e.chain.App.AppCodec().Unmarshal(in.Proof, &mp); err != nil {
		return nil, false
	}
	for _, p := range mp.Proofs {
		op := c08TmOp{Kind: 2}
		switch p.Proof.(type) {
		case *ics23.CommitmentProof_Exist:
			op.Kind = 0
		case *ics23.CommitmentProof_Nonexist:
			op.Kind = 1
		}
		func() {
			defer func() { _ = recover() }()
			c, err := p.Calculate()
			if err == nil {
				op.CalcOK, op.Calc = true, c
			}
		}()
		if ex := p.GetExist(); ex != nil && op.Kind == 0 {
			op.Key, op.Val = ex.Key, ex.Value
			if op.CalcOK {
				for id := 0; id <= 2; id++ {
					if ics23.VerifyMembership(c08SpecByID[id], op.Calc, p, op.Key, op.Val) {
						op.OKSpecs = append(op.OKSpecs, id)
					}
				}
			}
		}
		// differential validation of the instance formula used by the Coq evaluation:
		// VerifyMembership(spec, root, op, key, value) <=> exist /\ key = op.Key /\ value = op.Val /\ root = Calc /\ spec in OKSpecs
		// (for existence and non-existence proofs; the code never passes a batch / compressed proof to the verifier)
		if op.CalcOK && op.Kind != 2 {
			keys := [][]byte{op.Key, []byte(c08Path(in.Fn, in.Src, in.Dst, in.Seq)), in.Prefix, []byte("x")}
			vals := [][]byte{op.Val, in.Val, c08be64(in.Seq), op.Calc, {1}}
			roots := [][]byte{op.Calc, bytes.Repeat([]byte{9}, 32)}
			for n := 0; n < 6; n++ {
				id, k, v, rt := r.Intn(3), keys[r.Intn(len(keys))], vals[r.Intn(len(vals))], roots[r.Intn(len(roots))]
				if n == 0 {
					k, v, rt = op.Key, op.Val, op.Calc
				}
				want := op.Kind == 0 && bytes.Equal(k, op.Key) && bytes.Equal(v, op.Val) && bytes.Equal(rt, op.Calc) && c08HasInt(op.OKSpecs, id)
				got := ics23.VerifyMembership(c08SpecByID[id], rt, p, k, v)
				rep.Count("ics23_instance_probe")
				if want != got {
					rep.Fail("C08:ics23-instance", "the executable instance of the ics23 verifier used for model evaluation disagrees with ics23.VerifyMembership", in.desc())
				}
			}
		}
		ops = append(ops, op)
	}
	return ops, true
}

func c08HasInt(xs []int, x int) bool {
	for _, y := range xs {
		if x == y {
			return true
		}
	}
	return false
}

func c08TmOpCoq(o c08TmOp) string {
	ids := make([]string, len(o.OKSpecs))
	for i, s := range o.OKSpecs {
		ids[i] = fmt.Sprint(s)
	}
	return "(TmOp " + fmt.Sprint(o.Kind) + " " + coqOpt(o.CalcOK, hxs(o.Calc)) + " " + hxs(o.Key) + " " + hxs(o.Val) + " " + coqList(ids) + ")"
}

var _ = clienttypes.Height{}
