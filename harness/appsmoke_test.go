package harness

import "testing"

// relay the packets sent by the last step, hop by hop, to completion; returns
// the real acknowledgement bytes written at the final hop ("" if refused)
func (h *AppH) relayAll(p Pkt) string {
	s, d, rel := h.idx(p.Src), h.idx(p.Dst), h.idx(p.Relay)
	ack := ""
	if rel >= 0 {
		h.UpdateClient(rel, s)
		if !h.Recv(rel, p, ProofSpec{s, commitKey(p)}, h.latestKnown(rel, s)) {
			return ""
		}
		if a := h.lastAck(); a != "" { // refused by the relay: error ack straight back
			h.UpdateClient(s, rel)
			h.Ack(s, p, a, ProofSpec{rel, ackKey(p)}, h.latestKnown(s, rel))
			return a
		}
		h.UpdateClient(d, rel)
		if !h.Recv(d, p, ProofSpec{rel, commitKey(p)}, h.latestKnown(d, rel)) {
			return ""
		}
		ack = h.lastAck()
		h.UpdateClient(rel, d)
		h.Ack(rel, p, ack, ProofSpec{d, ackKey(p)}, h.latestKnown(rel, d))
		h.UpdateClient(s, rel)
		h.Ack(s, p, ack, ProofSpec{rel, ackKey(p)}, h.latestKnown(s, rel))
		return ack
	}
	h.UpdateClient(d, s)
	if !h.Recv(d, p, ProofSpec{s, commitKey(p)}, h.latestKnown(d, s)) {
		return ""
	}
	ack = h.lastAck()
	h.UpdateClient(s, d)
	h.Ack(s, p, ack, ProofSpec{d, ackKey(p)}, h.latestKnown(s, d))
	return ack
}

func (h *AppH) relayLast() string {
	if s := h.lastSent(); len(s) > 0 {
		return h.relayAll(s[0])
	}
	return ""
}

// voucher class id (real, tibc-HASH) on chain i for the model class path
func (h *AppH) realClass(i int, mod, full string) string {
	for hash, p := range h.traces(i, mod) {
		if p == full {
			return "tibc-" + hash
		}
	}
	return full
}

func TestAppSmoke(t *testing.T) {
	out := envOut(t)
	cs := &CaseSet{Prop: "APPSMOKE", Imports: "Harness.AppNet Packet.Types Packet.Keeper Net.Net Apps.Nft Apps.Mt Apps.App", Mismatch: "app_where 0", Shard: 50}
	h := newAppH(t, 3)
	mesh(h.NetH)
	A, B, C := h.names[0], h.names[1], h.names[2]
	_ = C
	// NFT: A -> B, then back
	h.NftIssue(0, 1, "kitty")
	h.NftMint(0, 1, "kitty", "tom", "uri://tom", 1)
	h.NftSend(0, 1, "kitty", "tom", h.addr(1, 2), B, "")
	h.relayLast()
	v := h.realClass(1, "NFT", "nft/"+A+"/"+B+"/kitty")
	h.NftSend(1, 2, v, "tom", h.addr(0, 3), A, "")
	h.relayLast()
	// failing transfer: bad receiver -> error ack -> refund
	h.NftSend(0, 3, "kitty", "tom", "not-an-address", B, "")
	h.relayLast()
	// relayed A -> (B) -> C with rules
	h.SetRules(1, []string{"*,*,*"})
	h.NftSend(0, 3, "kitty", "tom", h.addr(2, 1), C, B)
	h.relayLast()
	// MT
	cls, _ := h.MtIssue(0, 1)
	id, _ := h.MtMintNew(0, 1, cls, 100, 1)
	h.MtSend(0, 1, cls, id, h.addr(1, 1), B, "", 40)
	h.relayLast()
	mv := h.realClass(1, "MT", "mt/"+A+"/"+B+"/"+cls)
	h.MtMove(1, 1, mv, id, 10, 2)
	h.MtSend(1, 2, mv, id, h.addr(0, 2), A, "", 10)
	h.relayLast()
	h.MtSend(0, 1, cls, id, "bad", B, "", 5)
	h.relayLast()
	h.MtBurn(0, 1, cls, id, 1)
	cs.Add(h.CaseTerm(), h.Descs)
	cs.Write(t, out)
	for _, d := range h.Descs {
		t.Logf("%-9s chain=%d ok=%v ev=%v err=%.90s", d.Op, d.Chain, d.OK, d.Events, d.Err)
	}
}
