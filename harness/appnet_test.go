package harness

// Application-layer network driver: NFT / MT user transactions and relaying on
// real SimApps, rendered as Coq app_case terms (theories/Harness/AppNet.v).

import (
	"encoding/binary"
	"encoding/hex"
	"fmt"
	"sort"
	"strconv"
	"strings"
	"testing"

	abci "github.com/cometbft/cometbft/abci/types"
	sdk "github.com/cosmos/cosmos-sdk/types"

	storetypes "cosmossdk.io/store/types"

	mttypes "mods.irisnet.org/modules/mt/types"
	nfttypes "mods.irisnet.org/modules/nft/types"

	mttransfertypes "github.com/bianjieai/tibc-go/modules/tibc/apps/mt_transfer/types"
	nfttransfertypes "github.com/bianjieai/tibc-go/modules/tibc/apps/nft_transfer/types"
	packettypes "github.com/bianjieai/tibc-go/modules/tibc/core/04-packet/types"
)

// ---- model encodings of packet data and acknowledgements -------------------------------

func encFields(fs ...string) string {
	var sb strings.Builder
	for _, f := range fs {
		var l [8]byte
		binary.BigEndian.PutUint64(l[:], uint64(len(f)))
		sb.Write(l[:])
		sb.WriteString(f)
	}
	return sb.String()
}

func boolB(b bool) string {
	if b {
		return "1"
	}
	return "0"
}

// modelData translates real packet data into the model's encoding
func modelData(port, data string) string {
	switch port {
	case "NFT":
		var d nfttransfertypes.NonFungibleTokenPacketData
		if err := d.Unmarshal([]byte(data)); err == nil && len(data) > 0 {
			return encFields("NFTDATA", d.Class, d.Id, d.Uri, d.Sender, d.Receiver, boolB(d.AwayFromOrigin), d.DestContract)
		}
	case "MT":
		var d mttransfertypes.MultiTokenPacketData
		if err := d.Unmarshal([]byte(data)); err == nil && len(data) > 0 {
			return encFields("MTDATA", d.Class, d.Id, d.Sender, d.Receiver, boolB(d.AwayFromOrigin), d.DestContract,
				strconv.FormatUint(d.Amount, 10), string(d.Data))
		}
	}
	return data
}

// modelAck translates real acknowledgement bytes into the model's tags
func modelAck(ack string) string {
	if ack == string(unauthAckBytes) {
		return "error:unauthorized"
	}
	var a packettypes.Acknowledgement
	if err := a.Unmarshal([]byte(ack)); err == nil && len(ack) > 0 {
		switch r := a.Response.(type) {
		case *packettypes.Acknowledgement_Result:
			return "result:" + hex.EncodeToString(r.Result)
		case *packettypes.Acknowledgement_Error:
			return "error:app"
		}
	}
	return ack
}

// ---- application network -------------------------------------------------------------------

type AppH struct {
	*NetH
	nUsers int
	// real ack bytes recorded per (chain, packet key)
	acks map[string]string
}

func newAppH(t *testing.T, n int) *AppH {
	h := &AppH{NetH: newNetH(t, n), nUsers: 3, acks: map[string]string{}}
	h.NetH.dataFn = modelData
	h.NetH.ackFn = modelAck
	h.NetH.ledgerFn = h.ledgerTerm
	h.NetH.app = true
	return h
}

// user k (1..nUsers) of chain i; 0 is the relayer account
func (h *AppH) addr(i, k int) string {
	return h.chains[i].SenderAccounts[k].SenderAccount.GetAddress().String()
}

func (h *AppH) nftEscrow() string {
	return h.chains[0].App.NftTransferKeeper.GetNftTransferModuleAddr(nfttransfertypes.ModuleName).String()
}
func (h *AppH) mtEscrow() string {
	return h.chains[0].App.MtTransferKeeper.GetMtTransferModuleAddr(mttransfertypes.ModuleName).String()
}

// deliver msg signed by user k of chain i
func (h *AppH) deliverAs(i, k int, msg sdk.Msg) (bool, []abci.Event, string) {
	c := h.chains[i]
	save, savek := c.SenderAccount, c.SenderPrivKey
	c.SenderAccount, c.SenderPrivKey = c.SenderAccounts[k].SenderAccount, c.SenderAccounts[k].SenderPrivKey
	h.resync(i)
	res, err := c.SendMsgs(msg)
	h.resync(i)
	c.SenderAccounts[k].SenderAccount = c.SenderAccount
	c.SenderAccount, c.SenderPrivKey = save, savek
	h.resync(i)
	if err != nil {
		return false, nil, err.Error()
	}
	return true, res.Events, ""
}

func (h *AppH) user(i int, k int, coqOp string, desc StepDesc, msg sdk.Msg) bool {
	h.begin(i)
	now := h.now()
	ok, evs, e := h.deliverAs(i, k, msg)
	desc.Err = e
	h.record(fmt.Sprintf("AUser %d %d (%s)", i, now, coqOp), i, desc, ok, evs)
	return ok
}

func (h *AppH) NftIssue(i, k int, class string) bool {
	a := h.addr(i, k)
	return h.user(i, k, fmt.Sprintf("UNftIssue %s %s", hxS(class), hxS(a)),
		StepDesc{Op: "nft-issue", Args: []string{class, a}},
		nfttypes.NewMsgIssueDenom(class, class, "", a, "", false, false, "", "", "", ""))
}

func (h *AppH) NftMint(i, k int, class, id, uri string, rcptK int) bool {
	a, r := h.addr(i, k), h.addr(i, rcptK)
	return h.user(i, k, fmt.Sprintf("UNftMint %s %s %s %s %s", hxS(class), hxS(id), hxS(uri), hxS(a), hxS(r)),
		StepDesc{Op: "nft-mint", Args: []string{class, id, uri, a, r}},
		nfttypes.NewMsgMintNFT(id, class, "", uri, "", "", a, r))
}

func (h *AppH) NftMove(i, k int, class, id string, toK int) bool {
	a, r := h.addr(i, k), h.addr(i, toK)
	return h.user(i, k, fmt.Sprintf("UNftMove %s %s %s %s", hxS(h.mclass(i, "NFT", class)), hxS(id), hxS(a), hxS(r)),
		StepDesc{Op: "nft-move", Args: []string{class, id, a, r}},
		nfttypes.NewMsgTransferNFT(id, class, "[do-not-modify]", "[do-not-modify]", "[do-not-modify]", "[do-not-modify]", a, r))
}

func (h *AppH) NftBurn(i, k int, class, id string) bool {
	a := h.addr(i, k)
	return h.user(i, k, fmt.Sprintf("UNftBurn %s %s %s", hxS(h.mclass(i, "NFT", class)), hxS(id), hxS(a)),
		StepDesc{Op: "nft-burn", Args: []string{class, id, a}},
		nfttypes.NewMsgBurnNFT(a, id, class))
}

// NftSend: MsgNftTransfer; class is the REAL class id on chain i (tibc-HASH for vouchers)
func (h *AppH) NftSend(i, k int, class, id, receiver string, dest, relay string) bool {
	a := h.addr(i, k)
	return h.user(i, k, fmt.Sprintf("UNftSend %s %s %s %s %s %s %s", hxS(h.mclass(i, "NFT", class)), hxS(id), hxS(a), hxS(receiver), hxS(dest), hxS(relay), hxS("")),
		StepDesc{Op: "nft-send", Args: []string{class, id, a, receiver, dest, relay}},
		nfttransfertypes.NewMsgNftTransfer(class, id, a, receiver, dest, relay, ""))
}

func (h *AppH) MtIssue(i, k int) (string, bool) {
	a := h.addr(i, k)
	h.begin(i)
	now := h.now()
	ok, evs, e := h.deliverAs(i, k, mttypes.NewMsgIssueDenom("mtclass", "", a))
	id := ""
	for _, ev := range evs {
		if ev.Type == mttypes.EventTypeIssueDenom {
			for _, at := range ev.Attributes {
				if at.Key == mttypes.AttributeKeyDenomID {
					id = at.Value
				}
			}
		}
	}
	h.record(fmt.Sprintf("AUser %d %d (UMtIssue %s %s)", i, now, hxS(id), hxS(a)), i,
		StepDesc{Op: "mt-issue", Args: []string{id, a}, Err: e}, ok, evs)
	return id, ok
}

// MtMintNew mints a new MT (id generated by the module); returns the id
func (h *AppH) MtMintNew(i, k int, class string, amount uint64, rcptK int) (string, bool) {
	a, r := h.addr(i, k), h.addr(i, rcptK)
	h.begin(i)
	now := h.now()
	ok, evs, e := h.deliverAs(i, k, mttypes.NewMsgMintMT("", class, amount, "", a, r))
	id := ""
	for _, ev := range evs {
		if ev.Type == mttypes.EventTypeMintMT {
			for _, at := range ev.Attributes {
				if at.Key == mttypes.AttributeKeyMTID {
					id = at.Value
				}
			}
		}
	}
	h.record(fmt.Sprintf("AUser %d %d (UMtMintNew %s %s %d %s %s %s)", i, now, hxS(class), hxS(id), amount, hxS(""), hxS(a), hxS(r)), i,
		StepDesc{Op: "mt-mint-new", Args: []string{class, id, strconv.FormatUint(amount, 10), a, r}, Err: e}, ok, evs)
	return id, ok
}

func (h *AppH) MtMint(i, k int, class, id string, amount uint64, rcptK int) bool {
	a, r := h.addr(i, k), h.addr(i, rcptK)
	return h.user(i, k, fmt.Sprintf("UMtMint %s %s %d %s %s", hxS(h.mclass(i, "MT", class)), hxS(id), amount, hxS(a), hxS(r)),
		StepDesc{Op: "mt-mint", Args: []string{class, id, strconv.FormatUint(amount, 10), a, r}},
		mttypes.NewMsgMintMT(id, class, amount, "", a, r))
}

func (h *AppH) MtMove(i, k int, class, id string, amount uint64, toK int) bool {
	a, r := h.addr(i, k), h.addr(i, toK)
	return h.user(i, k, fmt.Sprintf("UMtMove %s %s %d %s %s", hxS(h.mclass(i, "MT", class)), hxS(id), amount, hxS(a), hxS(r)),
		StepDesc{Op: "mt-move", Args: []string{class, id, strconv.FormatUint(amount, 10), a, r}},
		mttypes.NewMsgTransferMT(id, class, a, r, amount))
}

func (h *AppH) MtBurn(i, k int, class, id string, amount uint64) bool {
	a := h.addr(i, k)
	return h.user(i, k, fmt.Sprintf("UMtBurn %s %s %d %s", hxS(h.mclass(i, "MT", class)), hxS(id), amount, hxS(a)),
		StepDesc{Op: "mt-burn", Args: []string{class, id, strconv.FormatUint(amount, 10), a}},
		mttypes.NewMsgBurnMT(a, id, class, amount))
}

func (h *AppH) MtSend(i, k int, class, id, receiver, dest, relay string, amount uint64) bool {
	a := h.addr(i, k)
	return h.user(i, k, fmt.Sprintf("UMtSend %s %s %s %s %s %s %s %d", hxS(h.mclass(i, "MT", class)), hxS(id), hxS(a), hxS(receiver), hxS(dest), hxS(relay), hxS(""), amount),
		StepDesc{Op: "mt-send", Args: []string{class, id, a, receiver, dest, relay, strconv.FormatUint(amount, 10)}},
		mttransfertypes.NewMsgMtTransfer(class, id, a, receiver, dest, relay, "", amount))
}

// ---- ledgers ---------------------------------------------------------------------------------

// traces of module mod ("NFT"/"MT") on chain i: hash(hex, upper) -> full class path.
// NOTE: simapp wires the MT transfer keeper to the NFT transfer store key, so both
// modules' traces live in one store; they are told apart by their path prefix.
func (h *AppH) traces(i int, mod string) map[string]string {
	c := h.chains[i]
	out := map[string]string{}
	pfx := "nft/"
	if mod == "MT" {
		pfx = "mt/"
	}
	for _, key := range []string{"NFT", "MT"} {
		store := c.GetContext().KVStore(c.App.GetKey(key))
		it := storetypes.KVStorePrefixIterator(store, []byte{0x01})
		for ; it.Valid(); it.Next() {
			hash := strings.ToUpper(hex.EncodeToString(it.Key()[1:]))
			var tr nfttransfertypes.ClassTrace // same wire format in both modules
			if err := tr.Unmarshal(it.Value()); err == nil && strings.HasPrefix(tr.GetFullClassPath(), pfx) {
				out[hash] = tr.GetFullClassPath()
			}
		}
		it.Close()
	}
	return out
}

// mclass maps a real class id on chain i to the model's class ("tibc-" + full path for vouchers)
func (h *AppH) mclass(i int, mod, class string) string {
	if strings.HasPrefix(class, "tibc-") {
		if p, ok := h.traces(i, mod)[strings.ToUpper(class[5:])]; ok {
			return "tibc-" + p
		}
	}
	return class
}

type NftTok struct{ Class, ID, Owner, URI string }
type MtBal struct {
	Owner, Class, ID string
	Amount           uint64
}
type Ledger struct {
	NftClasses [][3]string // id, creator, restricted
	NftTokens  []NftTok
	NftTraces  []string
	MtClasses  [][2]string
	MtSupply   []MtBal // Owner empty
	MtBal      []MtBal
	MtTraces   []string
}

func (h *AppH) Ledger(i int) Ledger {
	c := h.chains[i]
	ctx := c.GetContext()
	var l Ledger
	cols, err := c.App.NftKeeper.GetCollections(ctx)
	if err != nil {
		h.t.Fatalf("GetCollections: %v", err)
	}
	for _, col := range cols {
		cl := h.mclass(i, "NFT", col.Denom.Id)
		l.NftClasses = append(l.NftClasses, [3]string{cl, col.Denom.Creator, boolB(col.Denom.MintRestricted)})
		for _, n := range col.NFTs {
			l.NftTokens = append(l.NftTokens, NftTok{cl, n.Id, n.Owner, n.URI})
		}
	}
	for _, p := range h.traces(i, "NFT") {
		l.NftTraces = append(l.NftTraces, p)
	}
	gs := c.App.MtKeeper.ExportGenesisState(ctx)
	for _, col := range gs.Collections {
		cl := h.mclass(i, "MT", col.Denom.Id)
		l.MtClasses = append(l.MtClasses, [2]string{cl, col.Denom.Owner})
		for _, m := range col.Mts {
			l.MtSupply = append(l.MtSupply, MtBal{"", cl, m.Id, c.App.MtKeeper.GetMTSupply(ctx, col.Denom.Id, m.Id)})
		}
	}
	for _, o := range gs.Owners {
		for _, d := range o.Denoms {
			for _, b := range d.Balances {
				l.MtBal = append(l.MtBal, MtBal{o.Address, h.mclass(i, "MT", d.DenomId), b.MtId, b.Amount})
			}
		}
	}
	for _, p := range h.traces(i, "MT") {
		l.MtTraces = append(l.MtTraces, p)
	}
	sort.Slice(l.NftClasses, func(a, b int) bool { return l.NftClasses[a][0] < l.NftClasses[b][0] })
	sort.Slice(l.NftTokens, func(a, b int) bool {
		return l.NftTokens[a].Class+"\x00"+l.NftTokens[a].ID < l.NftTokens[b].Class+"\x00"+l.NftTokens[b].ID
	})
	sort.Strings(l.NftTraces)
	sort.Slice(l.MtClasses, func(a, b int) bool { return l.MtClasses[a][0] < l.MtClasses[b][0] })
	key := func(m MtBal) string { return m.Owner + "\x00" + m.Class + "\x00" + m.ID }
	sort.Slice(l.MtSupply, func(a, b int) bool { return key(l.MtSupply[a]) < key(l.MtSupply[b]) })
	sort.Slice(l.MtBal, func(a, b int) bool { return key(l.MtBal[a]) < key(l.MtBal[b]) })
	sort.Strings(l.MtTraces)
	return l
}

func (h *AppH) ledgerTerm(i int) (string, any) {
	l := h.Ledger(i)
	var a, b, c, d, e, f, g []string
	for _, x := range l.NftClasses {
		a = append(a, fmt.Sprintf("(%s, (%s, %s))", hxS(x[0]), hxS(x[1]), coqBool(x[2] == "1")))
	}
	for _, x := range l.NftTokens {
		b = append(b, fmt.Sprintf("((%s, %s), (%s, %s))", hxS(x.Class), hxS(x.ID), hxS(x.Owner), hxS(x.URI)))
	}
	for _, x := range l.NftTraces {
		c = append(c, hxS(x))
	}
	for _, x := range l.MtClasses {
		d = append(d, fmt.Sprintf("(%s, %s)", hxS(x[0]), hxS(x[1])))
	}
	for _, x := range l.MtSupply {
		e = append(e, fmt.Sprintf("((%s, %s), %d)", hxS(x.Class), hxS(x.ID), x.Amount))
	}
	for _, x := range l.MtBal {
		f = append(f, fmt.Sprintf("((%s, (%s, %s)), %d)", hxS(x.Owner), hxS(x.Class), hxS(x.ID), x.Amount))
	}
	for _, x := range l.MtTraces {
		g = append(g, hxS(x))
	}
	return fmt.Sprintf("(mkLedger %s %s %s %s %s %s %s)", coqList(a), coqList(b), coqList(c), coqList(d), coqList(e), coqList(f), coqList(g)), l
}

func (h *AppH) CaseTerm() string {
	ns := make([]string, len(h.names))
	for i, n := range h.names {
		ns[i] = hxS(n)
	}
	return "AppCase " + coqList(ns) + " " + hxS(h.nftEscrow()) + " " + hxS(h.mtEscrow()) + " [\n  " + strings.Join(h.steps, ";\n  ") + "]"
}

// ---- relaying helpers for application packets --------------------------------------------------

// packets announced by send_packet events of the last step on chain i (real data)
func (h *AppH) lastSent() []Pkt {
	d := h.Descs[len(h.Descs)-1]
	return d.Sent
}

// real acknowledgement bytes written by the last step
func (h *AppH) lastAck() string {
	return h.Descs[len(h.Descs)-1].AckWritten
}
