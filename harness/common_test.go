package harness

import (
	"encoding/hex"
	"encoding/json"
	"fmt"
	"math/rand"
	"os"
	"path/filepath"
	"sort"
	"strconv"
	"strings"
	"testing"
)

// ---- environment ----------------------------------------------------------

func envSeed() int64 {
	if s := os.Getenv("VERIF_SEED"); s != "" {
		if v, err := strconv.ParseInt(s, 10, 64); err == nil {
			return v
		}
	}
	return 1
}

func envTier() string {
	if t := os.Getenv("VERIF_TIER"); t == "thorough" {
		return "thorough"
	}
	return "quick"
}

func envOut(t *testing.T) string {
	d := os.Getenv("VERIF_OUT")
	if d == "" {
		d = filepath.Join(os.TempDir(), "verif-out")
	}
	if err := os.MkdirAll(d, 0o755); err != nil {
		t.Fatal(err)
	}
	return d
}

func newRand(salt int64) *rand.Rand { return rand.New(rand.NewSource(envSeed()*1000003 + salt)) }

// ---- Coq literals -----------------------------------------------------------

func hxs(b []byte) string { return `(hx "` + hex.EncodeToString(b) + `")` }
func hxS(s string) string { return hxs([]byte(s)) }
func coqBool(b bool) string {
	if b {
		return "true"
	}
	return "false"
}
func coqN(n uint64) string { return strconv.FormatUint(n, 10) }
func coqList(items []string) string {
	return "[" + strings.Join(items, "; ") + "]"
}
func coqOpt(present bool, v string) string {
	if present {
		return "(Some " + v + ")"
	}
	return "None"
}

// ---- case files ---------------------------------------------------------------

// CaseSet collects Coq case terms (one per line) plus a JSON description of
// each, and writes them as shards cases_<k>.v evaluated by coqc.
type CaseSet struct {
	Prop     string   // e.g. "C12"
	Imports  string   // e.g. "Harness.C12"
	Mismatch string   // Coq function : list case -> list N
	Terms    []string // Coq terms
	Descs    []any    // JSON-able description per case (for replay files)
	Shard    int
	Extra    string // further Coq commands evaluated on `cases` after the mismatch list (e.g. premise counts)
}

func (cs *CaseSet) Add(term string, desc any) {
	cs.Terms = append(cs.Terms, term)
	cs.Descs = append(cs.Descs, desc)
}

func (cs *CaseSet) Write(t *testing.T, dir string) {
	shard := cs.Shard
	if shard == 0 {
		shard = 400
	}
	k := 0
	for i := 0; i < len(cs.Terms); i += shard {
		j := i + shard
		if j > len(cs.Terms) {
			j = len(cs.Terms)
		}
		var sb strings.Builder
		sb.WriteString("From Tibc Require Import Base.Bytes " + cs.Imports + ".\n")
		sb.WriteString("Open Scope N_scope.\n")
		sb.WriteString("Definition cases := [\n")
		for n, term := range cs.Terms[i:j] {
			if n > 0 {
				sb.WriteString(";\n")
			}
			sb.WriteString(term)
		}
		sb.WriteString("\n].\n")
		sb.WriteString("Definition M := Eval vm_compute in (" + cs.Mismatch + " cases).\n")
		sb.WriteString("Print M.\n")
		sb.WriteString(cs.Extra)
		name := filepath.Join(dir, fmt.Sprintf("cases_%s_%03d.v", cs.Prop, k))
		if err := os.WriteFile(name, []byte(sb.String()), 0o644); err != nil {
			t.Fatal(err)
		}
		// index of first case in this shard, so the orchestrator can map
		// mismatch indices back to descriptions
		k++
	}
	f, err := os.Create(filepath.Join(dir, "cases_"+cs.Prop+".jsonl"))
	if err != nil {
		t.Fatal(err)
	}
	defer f.Close()
	enc := json.NewEncoder(f)
	for _, d := range cs.Descs {
		_ = enc.Encode(d)
	}
	meta := map[string]any{"shard": shard, "n": len(cs.Terms)}
	b, _ := json.Marshal(meta)
	_ = os.WriteFile(filepath.Join(dir, "cases_"+cs.Prop+".meta.json"), b, 0o644)
}

// ---- report -----------------------------------------------------------------------

type OracleFailure struct {
	Signature string `json:"signature"` // classification used against known-findings.txt
	What      string `json:"what"`
	Input     any    `json:"input"`
}

type Report struct {
	Prop        string           `json:"property_id"`
	Seed        int64            `json:"seed"`
	Tier        string           `json:"tier"`
	Evaluations int              `json:"evaluations"`
	Distinct    map[string]bool  `json:"-"`
	DistinctN   int              `json:"distinct_nontrivial"`
	Rule        string           `json:"rule"`
	Histogram   map[string]int   `json:"histogram"`
	Samples     []any            `json:"samples"`
	Failures    []OracleFailure  `json:"oracle_failures"`
	Notes       []string         `json:"notes"`
	Constants   map[string]string `json:"constants,omitempty"`
}

func newReport(prop string) *Report {
	return &Report{Prop: prop, Seed: envSeed(), Tier: envTier(), Distinct: map[string]bool{}, Histogram: map[string]int{}}
}

func (r *Report) Count(k string)           { r.Histogram[k]++ }
func (r *Report) Nontrivial(key string)    { r.Distinct[key] = true }
func (r *Report) Sample(max int, s any) {
	if len(r.Samples) < max {
		r.Samples = append(r.Samples, s)
	}
}
func (r *Report) Fail(sig, what string, input any) {
	if len(r.Failures) < 200 {
		r.Failures = append(r.Failures, OracleFailure{sig, what, input})
	}
}

func (r *Report) Write(t *testing.T, dir string) {
	r.DistinctN = len(r.Distinct)
	b, err := json.MarshalIndent(r, "", " ")
	if err != nil {
		t.Fatal(err)
	}
	if err := os.WriteFile(filepath.Join(dir, "impl_"+r.Prop+".json"), b, 0o644); err != nil {
		t.Fatal(err)
	}
}

func sortedKeys[V any](m map[string]V) []string {
	ks := make([]string, 0, len(m))
	for k := range m {
		ks = append(ks, k)
	}
	sort.Strings(ks)
	return ks
}

func pick[T any](r *rand.Rand, xs []T) T { return xs[r.Intn(len(xs))] }
