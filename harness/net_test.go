package harness

// Network driver: runs abstract packet-layer operations against real SimApps
// (modules/tibc/testing), records what happened, and renders the run as a Coq
// net_case (theories/Harness/Net.v).

import (
	"encoding/json"
	ics23 "github.com/cosmos/ics23/go"
	"context"
	"crypto/sha256"
	"encoding/hex"
	"fmt"
	"sort"
	"strconv"
	"strings"
	"testing"
	"time"

	abci "github.com/cometbft/cometbft/abci/types"
	sdk "github.com/cosmos/cosmos-sdk/types"

	storetypes "cosmossdk.io/store/types"

	clienttypes "github.com/bianjieai/tibc-go/modules/tibc/core/02-client/types"
	packettypes "github.com/bianjieai/tibc-go/modules/tibc/core/04-packet/types"
	commitmenttypes "github.com/bianjieai/tibc-go/modules/tibc/core/23-commitment/types"
	host "github.com/bianjieai/tibc-go/modules/tibc/core/24-host"
	ibctmtypes "github.com/bianjieai/tibc-go/modules/tibc/light-clients/07-tendermint/types"
	tibctesting "github.com/bianjieai/tibc-go/modules/tibc/testing"
)

type Pkt struct {
	Seq   uint64 `json:"seq"`
	Src   string `json:"src"`
	Dst   string `json:"dst"`
	Relay string `json:"relay"`
	Port  string `json:"port"`
	Data  string `json:"data"`
}

func (p Pkt) real() packettypes.Packet {
	return packettypes.NewPacket([]byte(p.Data), p.Seq, p.Src, p.Dst, p.Relay, p.Port)
}
func (p Pkt) coq() string {
	return fmt.Sprintf("(mkPacket %d %s %s %s %s %s)", p.Seq, hxS(p.Src), hxS(p.Dst), hxS(p.Relay), hxS(p.Port), hxS(p.Data))
}

type CPkt struct {
	Seq   uint64 `json:"seq"`
	Src   string `json:"src"`
	Dst   string `json:"dst"`
	Relay string `json:"relay"`
}

func (c CPkt) real() packettypes.CleanPacket {
	return packettypes.NewCleanPacket(c.Seq, c.Src, c.Dst, c.Relay)
}
func (c CPkt) coq() string {
	return fmt.Sprintf("(mkClean %d %s %s %s)", c.Seq, hxS(c.Src), hxS(c.Dst), hxS(c.Relay))
}

// ProofSpec: which true fact the relayer presents. Chain < 0 = garbage bytes.
type ProofSpec struct {
	Chain int    `json:"chain"`
	Key   string `json:"key"`
}

type StepDesc struct {
	Op     string      `json:"op"`
	Chain  int         `json:"chain"`
	Other  int         `json:"other,omitempty"`
	Pkt    *Pkt        `json:"pkt,omitempty"`
	CPkt   *CPkt       `json:"cpkt,omitempty"`
	Ack    string      `json:"ack,omitempty"`
	Proof  *ProofSpec  `json:"proof,omitempty"`
	Height uint64      `json:"height,omitempty"`
	Rules  []string    `json:"rules,omitempty"`
	Args   []string    `json:"args,omitempty"`
	Sent   []Pkt       `json:"sent,omitempty"`        // packets announced by send_packet events (real data)
	AckWritten string  `json:"ack_written,omitempty"` // real bytes of the acknowledgement written by this step
	Ledger any         `json:"ledger,omitempty"`
	OK     bool        `json:"ok"`
	Err    string      `json:"err,omitempty"`
	Events []string    `json:"events,omitempty"`
	Dump   [][2]string `json:"dump,omitempty"`
}

type NetH struct {
	t      *testing.T
	coord  *tibctesting.Coordinator
	chains []*tibctesting.TestChain
	names  []string
	pre    map[string]string // hex(sha256(x)) -> x
	steps  []string          // Coq (nop, nobs) terms
	Descs  []StepDesc
	// per chain: heights for which a client update recorded a header, per observer
	known map[[2]int][]uint64 // (observer i, about j) -> heights
	// application mode (appnet_test.go): translation of packet data / acks into
	// the model's encoding, ledger dumps, and ANet wrapping of network operations
	dataFn   func(port, data string) string
	ackFn    func(ack string) string
	ledgerFn func(i int) (string, any)
	app      bool
	// C19: digest of the protocol and token stores of the acted chain before the step
	preDigest string
	preLedger any
	Fails     []OracleFailure // failures detected while recording (C19)
	forgeNext string          // the next proof fetched is re-encoded in this way ("rehash-value")
}

// directHook (C20): called right after a harness operation wrote to a chain's state directly
// (keeper call on the uncached context, not a transaction) and before the block is committed,
// so that a twin application can be given the same writes
var directHook func(c *tibctesting.TestChain, kind string, data map[string][]byte)

// chainHook (C20): called for every chain right after the coordinator created it
var chainHook func(c *tibctesting.TestChain)

func callDirect(c *tibctesting.TestChain, kind string, data map[string][]byte) {
	if directHook != nil {
		directHook(c, kind, data)
	}
}

// stores whose content a failing message must leave untouched
var protectedStores = []string{"tibc", "nft", "mt", "NFT", "MT"}

func (h *NetH) digest(i int) string {
	c := h.chains[i]
	ctx := c.GetContext()
	hsh := sha256.New()
	for _, name := range protectedStores {
		key := c.App.GetKey(name)
		if key == nil {
			continue
		}
		it := ctx.KVStore(key).Iterator(nil, nil)
		for ; it.Valid(); it.Next() {
			hsh.Write([]byte(name))
			hsh.Write(it.Key())
			hsh.Write([]byte{0})
			hsh.Write(it.Value())
			hsh.Write([]byte{1})
		}
		it.Close()
	}
	return hex.EncodeToString(hsh.Sum(nil))
}

// begin is called at the start of every operation on chain i
func (h *NetH) begin(i int) {
	h.preDigest = h.digest(i)
	if h.app {
		_, h.preLedger = h.ledgerFn(i)
	}
}

func (h *NetH) mdata(port, data string) string {
	if h.dataFn != nil {
		return h.dataFn(port, data)
	}
	return data
}
func (h *NetH) mack(ack string) string {
	if ack == string(unauthAckBytes) {
		return "error:unauthorized"
	}
	if h.ackFn != nil {
		return h.ackFn(ack)
	}
	return ack
}
func (h *NetH) pcoq(p Pkt) string {
	q := p
	q.Data = h.mdata(p.Port, p.Data)
	return q.coq()
}
func (h *NetH) wrap(nop string) string {
	if h.app && !strings.HasPrefix(nop, "AUser") {
		return "ANet (" + nop + ")"
	}
	return nop
}

var unauthAckBytes = packettypes.NewErrorAcknowledgement("unauthorized").GetBytes()

func newNetH(t *testing.T, n int) *NetH {
	coord := tibctesting.NewCoordinator(t, n)
	h := &NetH{t: t, coord: coord, pre: map[string]string{}, known: map[[2]int][]uint64{}}
	for i := 0; i < n; i++ {
		c := coord.GetChain(tibctesting.GetChainID(i))
		h.chains = append(h.chains, c)
		h.names = append(h.names, c.ChainName)
		if chainHook != nil {
			chainHook(c)
		}
		c.App.TIBCKeeper.ClientKeeper.SetChainName(c.GetContext(), c.ChainName)
		callDirect(c, "chainname", map[string][]byte{"name": []byte(c.ChainName)})
		c.NextBlock()
		coord.IncrementTime()
	}
	h.learn(string(unauthAckBytes), "error:unauthorized")
	return h
}

// learn records a preimage; alias (if non-empty) is what the model uses instead
func (h *NetH) learn(x string, alias string) {
	s := sha256.Sum256([]byte(x))
	if alias == "" {
		alias = x
	}
	h.pre[hex.EncodeToString(s[:])] = alias
}

func (h *NetH) now() int64 { return h.coord.CurrentTime.UnixNano() }

func (h *NetH) storeKey(i int) storetypes.StoreKey { return h.chains[i].App.GetKey(host.StoreKey) }

var packetFamilies = []string{
	host.KeyNextSeqSendPrefix + "/", host.KeyPacketCommitmentPrefix + "/", host.KeyPacketAckPrefix + "/",
	host.KeyPacketReceiptPrefix + "/", host.KeyCleanPacketCommitmentPrefix + "/", "maxAckSeq/",
}

// dump returns the packet-layer store of chain i, canonicalised: hashes are
// replaced by their known pre-image
func (h *NetH) dump(i int) [][2]string {
	ctx := h.chains[i].GetContext()
	store := ctx.KVStore(h.storeKey(i))
	var out [][2]string
	for _, fam := range packetFamilies {
		it := storetypes.KVStorePrefixIterator(store, []byte(fam))
		for ; it.Valid(); it.Next() {
			k, v := string(it.Key()), string(it.Value())
			if strings.HasPrefix(k, host.KeyPacketCommitmentPrefix+"/") || strings.HasPrefix(k, host.KeyPacketAckPrefix+"/") {
				if p, ok := h.pre[hex.EncodeToString(it.Value())]; ok {
					v = p
				} else {
					v = "UNKNOWN-HASH:" + hex.EncodeToString(it.Value())
				}
			}
			out = append(out, [2]string{k, v})
		}
		it.Close()
	}
	sort.Slice(out, func(a, b int) bool { return out[a][0] < out[b][0] })
	return out
}

func coqDump(d [][2]string) string {
	items := make([]string, len(d))
	for i, kv := range d {
		items[i] = "(" + hxS(kv[0]) + ", " + hxS(kv[1]) + ")"
	}
	return coqList(items)
}

// events -> (Coq terms, printable strings, packets sent (real data), real ack written)
func (h *NetH) events(evs []abci.Event) ([]string, []string, []Pkt, string) {
	var terms, strs []string
	var sent []Pkt
	ackW := ""
	for _, e := range evs {
		attr := map[string]string{}
		for _, a := range e.Attributes {
			attr[a.Key] = a.Value
		}
		seq, _ := strconv.ParseUint(attr[packettypes.AttributeKeySequence], 10, 64)
		p := Pkt{seq, attr[packettypes.AttributeKeySrcChain], attr[packettypes.AttributeKeyDstChain],
			attr[packettypes.AttributeKeyRelayChain], attr[packettypes.AttributeKeyPort], attr[packettypes.AttributeKeyData]}
		cp := CPkt{seq, p.Src, p.Dst, p.Relay}
		realAck := attr[packettypes.AttributeKeyAck]
		ack := h.mack(realAck)
		var term string
		switch e.Type {
		case packettypes.EventTypeSendPacket:
			term = "VSend " + h.pcoq(p)
			sent = append(sent, p)
			h.learn(p.Data, h.mdata(p.Port, p.Data))
		case packettypes.EventTypeRecvPacket:
			term = "VRecv " + h.pcoq(p)
		case packettypes.EventTypeWriteAck:
			term = "VWriteAck " + h.pcoq(p) + " " + hxS(ack)
			ackW = realAck
			h.learn(realAck, ack)
		case packettypes.EventTypeAcknowledgePacket:
			term = "VAck " + h.pcoq(p) + " " + hxS(ack)
		case packettypes.EventTypeSendCleanPacket:
			term = "VCleanSend " + cp.coq()
		case packettypes.EventTypeRecvCleanPacket:
			term = "VCleanRecv " + cp.coq()
		default:
			continue
		}
		terms = append(terms, term)
		strs = append(strs, fmt.Sprintf("%s %s->%s#%d", e.Type, p.Src, p.Dst, seq))
	}
	return terms, strs, sent, ackW
}

func (h *NetH) record(nop string, i int, d StepDesc, ok bool, evs []abci.Event) {
	var terms, strs []string
	if ok {
		terms, strs, d.Sent, d.AckWritten = h.events(evs)
	}
	dump := h.dump(i)
	d.OK, d.Events, d.Dump, d.Chain = ok, strs, dump, i
	if !ok && h.preDigest != "" && h.digest(i) != h.preDigest {
		dd := d
		dd.Dump = nil
		h.Fails = append(h.Fails, OracleFailure{"C19:failed-message-changed-state",
			"a message that returned an error changed the protocol or token stores", map[string]any{"step_index": len(h.Descs), "step": dd}})
	}
	obs := fmt.Sprintf("mkObs %s %s %s", coqBool(ok), coqList(terms), coqDump(dump))
	if h.app {
		lt, l := h.ledgerFn(i)
		d.Ledger = l
		obs = fmt.Sprintf("mkAObs %s %s %s %s", coqBool(ok), coqList(terms), coqDump(dump), lt)
	}
	h.Descs = append(h.Descs, d)
	h.steps = append(h.steps, fmt.Sprintf("(%s, %s)", h.wrap(nop), obs))
}

// commit a block on chain i and advance global time, like SendMsgs does
func (h *NetH) commit(i int) {
	h.chains[i].NextBlock()
	h.coord.IncrementTime()
}

func (h *NetH) Tick(d time.Duration) { h.coord.IncrementTimeBy(d) }

// CreateClient on chain i about chain j (keeper path, as Endpoint.CreateClient does)
func (h *NetH) CreateClient(i, j int) {
	h.preDigest = ""
	ci, cj := h.chains[i], h.chains[j]
	cj.NextBlock()
	h.coord.UpdateTimeForChain(ci)
	height := cj.LastHeader.GetHeight().(clienttypes.Height)
	cfg := tibctesting.NewTendermintConfig()
	cs := ibctmtypes.NewClientState(cj.ChainID, cfg.TrustLevel, cfg.TrustingPeriod, cfg.UnbondingPeriod, cfg.MaxClockDrift,
		height, commitmenttypes.GetSDKSpecs(), tibctesting.Prefix, 0)
	cons := cj.LastHeader.ConsensusState()
	now := h.now()
	ctx := ci.GetContext()
	_, found := ci.App.TIBCKeeper.ClientKeeper.GetClientState(ctx, cj.ChainName)
	ok := false
	if !found {
		ci.App.TIBCKeeper.ClientKeeper.RegisterRelayers(ctx, cj.ChainName, []string{ci.SenderAccount.GetAddress().String()})
		err := ci.App.TIBCKeeper.ClientKeeper.CreateClient(ctx, cj.ChainName, cs, cons)
		ok = err == nil
		if ok {
			callDirect(ci, "create", map[string][]byte{"name": []byte(cj.ChainName), "relayer": []byte(ci.SenderAccount.GetAddress().String()),
				"client": clienttypes.MustMarshalClientState(ci.App.AppCodec(), cs), "cons": clienttypes.MustMarshalConsensusState(ci.App.AppCodec(), cons)})
		}
	}
	h.commit(i)
	nop := fmt.Sprintf("NCreate %d %d %d %d %d %d", i, j, now, height.RevisionHeight, cons.Timestamp.UnixNano(), cfg.TrustingPeriod.Nanoseconds())
	if ok {
		h.known[[2]int{i, j}] = append(h.known[[2]int{i, j}], height.RevisionHeight)
	}
	h.record(nop, i, StepDesc{Op: "create", Other: j, Height: height.RevisionHeight}, ok, nil)
}

// UpdateClient on chain i about chain j with j's latest header (MsgUpdateClient)
func (h *NetH) UpdateClient(i, j int) bool {
	h.preDigest = ""
	ci, cj := h.chains[i], h.chains[j]
	h.coord.CommitBlock(cj)
	now := h.now()
	height := cj.LastHeader.GetHeight().(clienttypes.Height)
	t := cj.LastHeader.GetTime().UnixNano()
	nop := fmt.Sprintf("NUpd %d %d %d %d %d", i, j, now, height.RevisionHeight, t)
	_, found := ci.App.TIBCKeeper.ClientKeeper.GetClientState(ci.GetContext(), cj.ChainName)
	if !found {
		h.commit(i)
		h.record(nop, i, StepDesc{Op: "update", Other: j, Height: height.RevisionHeight, Err: "no client"}, false, nil)
		return false
	}
	err := ci.UpdateTMClient(cj, cj.ChainName)
	h.resync(i)
	if err == nil {
		h.known[[2]int{i, j}] = append(h.known[[2]int{i, j}], height.RevisionHeight)
	}
	d := StepDesc{Op: "update", Other: j, Height: height.RevisionHeight}
	if err != nil {
		d.Err = err.Error()
	}
	h.record(nop, i, d, err == nil, nil)
	return err == nil
}

// Send: raw SendPacket by an application module (keeper path), atomically
func (h *NetH) Send(i int, p Pkt) bool {
	h.begin(i)
	ci := h.chains[i]
	h.coord.UpdateTimeForChain(ci)
	now := h.now()
	h.learn(p.Data, h.mdata(p.Port, p.Data))
	ctx, write := ci.GetContext().CacheContext()
	ctx = ctx.WithEventManager(sdk.NewEventManager())
	err := ci.App.TIBCKeeper.PacketKeeper.SendPacket(ctx, p.real())
	var evs []abci.Event
	if err == nil {
		write()
		rp := p.real()
		bz, _ := rp.Marshal()
		callDirect(ci, "send", map[string][]byte{"packet": bz})
		evs = ctx.EventManager().ABCIEvents()
	}
	h.commit(i)
	d := StepDesc{Op: "send", Pkt: &p}
	if err != nil {
		d.Err = err.Error()
	}
	h.record(fmt.Sprintf("NChain %d %d (OSend %s)", i, now, h.pcoq(p)), i, d, err == nil, evs)
	return err == nil
}

// proof bytes for a spec; returns the Coq proof term (PGarbage when the
// requested fact cannot be proven at that height)
func (h *NetH) proof(ps ProofSpec, height uint64) ([]byte, string) {
	garbage := []byte("not a merkle proof")
	if ps.Chain < 0 || ps.Chain >= len(h.chains) {
		return garbage, "PGarbage"
	}
	g := h.chains[ps.Chain]
	if height < 2 || int64(height) > g.App.LastBlockHeight()+1 {
		return garbage, "PGarbage"
	}
	res, err := g.App.Query(context.Background(), &abci.RequestQuery{
		Path: fmt.Sprintf("store/%s/key", host.StoreKey), Height: int64(height) - 1, Data: []byte(ps.Key), Prove: true})
	if err != nil || res.ProofOps == nil {
		return garbage, "PGarbage"
	}
	mp, err := commitmenttypes.ConvertProofs(res.ProofOps)
	if err != nil {
		return garbage, "PGarbage"
	}
	forge := h.forgeNext
	h.forgeNext = ""
	if forge == "rehash-value" && len(mp.Proofs) > 0 && mp.Proofs[0].GetExist() != nil && mp.Proofs[0].GetExist().Leaf != nil {
		// a genuine proof re-encoded against the proof specification: the stored value is hashed by
		// the submitter and the leaf claims "no pre-hash"; the leaf pre-image and every hash up to the
		// root are unchanged, but the proof now "shows" sha256(value) under the key.  For the model a
		// proof that violates the specification establishes nothing.
		ep := mp.Proofs[0].GetExist()
		sum := sha256.Sum256(ep.Value)
		ep.Value = sum[:]
		ep.Leaf.PrehashValue = ics23.HashOp_NO_HASH
	}
	bz, err := g.App.AppCodec().Marshal(&mp)
	if err != nil {
		return garbage, "PGarbage"
	}
	if forge == "empty" {
		return []byte{}, "PGarbage" // refused by the message's ValidateBasic
	}
	if forge != "" {
		return bz, "PGarbage"
	}
	return bz, fmt.Sprintf("(PGenuine %s %s)", hxS(g.ChainName), hxS(ps.Key))
}

// resync the test chain's cached account sequence with the state: SendMsgs
// bumps it even when the transaction failed before the ante handler ran
func (h *NetH) resync(i int) {
	c := h.chains[i]
	acc := c.App.AccountKeeper.GetAccount(c.GetContext(), c.SenderAccount.GetAddress())
	_ = c.SenderAccount.SetSequence(acc.GetSequence())
}

func (h *NetH) deliver(i int, msg sdk.Msg) (bool, []abci.Event, string) {
	res, err := h.chains[i].SendMsgs(msg)
	h.resync(i)
	if err != nil {
		return false, nil, err.Error()
	}
	return true, res.Events, ""
}

func (h *NetH) Recv(i int, p Pkt, ps ProofSpec, height uint64) bool {
	h.begin(i)
	ci := h.chains[i]
	now := h.now()
	bz, pterm := h.proof(ps, height)
	msg := packettypes.NewMsgRecvPacket(p.real(), bz, clienttypes.NewHeight(0, height), ci.SenderAccount.GetAddress())
	ok, evs, e := h.deliver(i, msg)
	h.learn("mock acknowledgement", "")
	h.record(fmt.Sprintf("NChain %d %d (ORecv %s %s %d)", i, now, h.pcoq(p), pterm, height), i,
		StepDesc{Op: "recv", Pkt: &p, Proof: &ps, Height: height, Err: e}, ok, evs)
	return ok
}

// Ack: ack is the REAL acknowledgement bytes ("error:unauthorized" is accepted as an
// alias for the relay chain's whitelist error acknowledgement)
func (h *NetH) Ack(i int, p Pkt, ack string, ps ProofSpec, height uint64) bool {
	h.begin(i)
	ci := h.chains[i]
	now := h.now()
	bz, pterm := h.proof(ps, height)
	realAck := ack
	if ack == "error:unauthorized" {
		realAck = string(unauthAckBytes)
	}
	mk := h.mack(realAck)
	h.learn(realAck, mk)
	msg := packettypes.NewMsgAcknowledgement(p.real(), []byte(realAck), bz, clienttypes.NewHeight(0, height), ci.SenderAccount.GetAddress())
	ok, evs, e := h.deliver(i, msg)
	h.record(fmt.Sprintf("NChain %d %d (OAck %s %s %s %d)", i, now, h.pcoq(p), hxS(mk), pterm, height), i,
		StepDesc{Op: "ack", Pkt: &p, Ack: mk, Proof: &ps, Height: height, Err: e}, ok, evs)
	return ok
}

func (h *NetH) Clean(i int, cp CPkt) bool {
	h.begin(i)
	ci := h.chains[i]
	now := h.now()
	msg := packettypes.NewMsgCleanPacket(cp.real(), ci.SenderAccount.GetAddress())
	ok, evs, e := h.deliver(i, msg)
	h.record(fmt.Sprintf("NChain %d %d (OClean %s)", i, now, cp.coq()), i, StepDesc{Op: "clean", CPkt: &cp, Err: e}, ok, evs)
	return ok
}

func (h *NetH) RecvClean(i int, cp CPkt, ps ProofSpec, height uint64) bool {
	h.begin(i)
	ci := h.chains[i]
	now := h.now()
	bz, pterm := h.proof(ps, height)
	msg := packettypes.NewMsgRecvCleanPacket(cp.real(), bz, clienttypes.NewHeight(0, height), ci.SenderAccount.GetAddress())
	ok, evs, e := h.deliver(i, msg)
	h.record(fmt.Sprintf("NChain %d %d (ORecvClean %s %s %d)", i, now, cp.coq(), pterm, height), i,
		StepDesc{Op: "recvclean", CPkt: &cp, Proof: &ps, Height: height, Err: e}, ok, evs)
	return ok
}

func (h *NetH) SetRules(i int, rules []string) bool {
	h.begin(i)
	ci := h.chains[i]
	h.coord.UpdateTimeForChain(ci)
	now := h.now()
	ctx, write := ci.GetContext().CacheContext()
	err := ci.App.TIBCKeeper.RoutingKeeper.SetRoutingRules(ctx, rules)
	if err == nil {
		write()
		rb, _ := json.Marshal(rules) // keeps nil and the empty list apart (stored as "null" and "[]")
		callDirect(ci, "setrules", map[string][]byte{"rules": rb})
	}
	h.commit(i)
	rs := make([]string, len(rules))
	for k, r := range rules {
		rs[k] = hxS(r)
	}
	h.record(fmt.Sprintf("NChain %d %d (OSetRules %s)", i, now, coqList(rs)), i, StepDesc{Op: "setrules", Rules: rules}, err == nil, nil)
	return err == nil
}

// SetRulesDiscarded: the routing keeper's SetRoutingRules succeeds on a branch of chain i's state
// that is then thrown away (what x/gov does when a later message of a passed proposal fails, what
// BaseApp does for a transaction whose later message fails).  For the model this is no operation.
func (h *NetH) SetRulesDiscarded(i int, rules []string) bool {
	h.begin(i)
	ci := h.chains[i]
	h.coord.UpdateTimeForChain(ci)
	now := h.now()
	probe := func() string {
		c := ci.GetContext()
		rk := ci.App.TIBCKeeper.RoutingKeeper
		got, found := rk.GetRoutingRules(c)
		out := fmt.Sprint(found, got)
		for _, s := range h.names {
			for _, d := range h.names {
				for _, port := range []string{"NFT", "MT", "tibcmock"} {
					out += fmt.Sprint(rk.Authenticate(c, s, d, port))
				}
			}
		}
		return out
	}
	before := probe()
	ctx, _ := ci.GetContext().CacheContext()
	err := ci.App.TIBCKeeper.RoutingKeeper.SetRoutingRules(ctx, rules)
	if after := probe(); after != before {
		// C19: a request that ends up refused (its branch is discarded) leaves the chain exactly as it was --
		// also in what the keepers answer from (process memory is not rolled back with the store)
		h.Fails = append(h.Fails, OracleFailure{"C19:discarded-request-left-trace",
			"a routing-rule change executed on a branch of the state that was then discarded still changed what the routing keeper answers (rules query / Authenticate)",
			map[string]any{"chain": i, "rules": rules, "before": before, "after": after}})
	}
	h.commit(i)
	h.record(fmt.Sprintf("NChain %d %d (OTick 0)", i, now), i, StepDesc{Op: "setrules-discarded", Rules: rules}, true, nil)
	return err == nil
}

func (h *NetH) CaseTerm() string {
	ns := make([]string, len(h.names))
	for i, n := range h.names {
		ns[i] = hxS(n)
	}
	return "NetCase " + coqList(ns) + " [\n  " + strings.Join(h.steps, ";\n  ") + "]"
}

// latest height chain i's client of chain j knows (0 if none)
func (h *NetH) latestKnown(i, j int) uint64 {
	ks := h.known[[2]int{i, j}]
	if len(ks) == 0 {
		return 0
	}
	return ks[len(ks)-1]
}

func commitKey(p Pkt) string  { return string(host.PacketCommitmentKey(p.Src, p.Dst, p.Seq)) }
func ackKey(p Pkt) string     { return string(host.PacketAcknowledgementKey(p.Src, p.Dst, p.Seq)) }
func receiptKey(p Pkt) string { return string(host.PacketReceiptKey(p.Src, p.Dst, p.Seq)) }
func cleanKey(s, d string) string {
	return string(host.CleanPacketCommitmentKey(s, d))
}
