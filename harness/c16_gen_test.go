package harness

// C16 generators: directed store families, BSC / ETH clients with real header updates,
// seeded synthetic stores (plus a malformed stream), twin-network scenarios.

import (
	"encoding/binary"
	"encoding/hex"
	"encoding/json"
	"fmt"
	"math/big"
	"math/rand"
	"os"
	"path/filepath"
	"reflect"
	"runtime"
	"strings"
	"time"

	sdk "github.com/cosmos/cosmos-sdk/types"
	"github.com/ethereum/go-ethereum/common"
	"github.com/ethereum/go-ethereum/consensus/ethash"
	"github.com/ethereum/go-ethereum/consensus/misc"
	gethtypes "github.com/ethereum/go-ethereum/core/types"
	"github.com/ethereum/go-ethereum/params"

	mttransfertypes "github.com/bianjieai/tibc-go/modules/tibc/apps/mt_transfer/types"
	nfttransfertypes "github.com/bianjieai/tibc-go/modules/tibc/apps/nft_transfer/types"
	clienttypes "github.com/bianjieai/tibc-go/modules/tibc/core/02-client/types"
	host "github.com/bianjieai/tibc-go/modules/tibc/core/24-host"
	"github.com/bianjieai/tibc-go/modules/tibc/core/exported"
	ibctmtypes "github.com/bianjieai/tibc-go/modules/tibc/light-clients/07-tendermint/types"
	bsctypes "github.com/bianjieai/tibc-go/modules/tibc/light-clients/08-bsc/types"
	ethtypes "github.com/bianjieai/tibc-go/modules/tibc/light-clients/09-eth/types"
	tibctesting "github.com/bianjieai/tibc-go/modules/tibc/testing"
	"github.com/bianjieai/tibc-go/simapp"
)

// ---- a base chain with a real Tendermint client to take client / consensus states from ------------

type c16Base struct {
	h    *NetH
	c    *tibctesting.TestChain
	tmCS exported.ClientState
	tmCo exported.ConsensusState
}

func newC16Base(e *c16Env) *c16Base {
	h := newNetH(e.t, 2)
	mesh(h)
	c := h.chains[0]
	ck := c.App.TIBCKeeper.ClientKeeper
	cs, _ := ck.GetClientState(c.GetContext(), h.names[1])
	co, _ := ck.GetLatestClientConsensusState(c.GetContext(), h.names[1])
	return &c16Base{h: h, c: c, tmCS: cs, tmCo: co}
}

// an empty tibc store on a branch of the base chain
func (b *c16Base) blank() sdk.Context {
	ctx, _ := b.c.GetContext().CacheContext()
	c16Wipe(ctx, b.c.App, append([]string{host.StoreKey}, c16AppStores...)...)
	return ctx
}

func c16BE(rev, h uint64) string {
	var b [16]byte
	binary.BigEndian.PutUint64(b[:8], rev)
	binary.BigEndian.PutUint64(b[8:], h)
	return string(b[:])
}

// a Tendermint client [name] with consensus states (and their metadata) at the given heights
func (b *c16Base) putTM(ctx sdk.Context, name string, hs []clienttypes.Height, meta bool) {
	ck := b.c.App.TIBCKeeper.ClientKeeper
	cs := *(b.tmCS.(*ibctmtypes.ClientState))
	if len(hs) > 0 {
		cs.LatestHeight = hs[len(hs)-1]
	}
	ck.SetClientState(ctx, name, &cs)
	st := ck.ClientStore(ctx, name)
	for i, h := range hs {
		ck.SetClientConsensusState(ctx, name, h, b.tmCo)
		if meta {
			ibctmtypes.SetProcessedTime(st, h, uint64(1577923200000000000+i))
			ibctmtypes.SetIterationKey(st, h)
		}
	}
}

var c16SuffixHeight = clienttypes.NewHeight(0x2f636c69, 0x656e745374617465) // bytes end in "/clientState"

func c16SpecialHeights() []clienttypes.Height {
	return []clienttypes.Height{
		clienttypes.NewHeight(0, 1), clienttypes.NewHeight(0, 46), clienttypes.NewHeight(0, 47), clienttypes.NewHeight(0, 48),
		clienttypes.NewHeight(0, 302), clienttypes.NewHeight(0, 303), clienttypes.NewHeight(0, 304),
		clienttypes.NewHeight(0, 12031), clienttypes.NewHeight(0, 12032), clienttypes.NewHeight(0, 12033),
		clienttypes.NewHeight(47, 5), clienttypes.NewHeight(1, 0x2f2f2f2f2f2f2f2f), clienttypes.NewHeight(0x2f2f2f2f2f2f2f2f, 0x2f2f2f2f2f2f2f2f),
		clienttypes.NewHeight(0, 1<<32), clienttypes.NewHeight(0, 1<<63), clienttypes.NewHeight(^uint64(0), ^uint64(0)),
		c16SuffixHeight, clienttypes.NewHeight(0, 0x656e745374617465), clienttypes.NewHeight(0x2f636c69, 7),
		clienttypes.NewHeight(0, 0x2f70726f63657373), // "/process"
	}
}

func c16HasKey(d [][2]string, k string) bool {
	for _, kv := range d {
		if kv[0] == k {
			return true
		}
	}
	return false
}

// ---- directed store families ----------------------------------------------------------------------

func c16Directed(e *c16Env) {
	b := newC16Base(e)
	app := b.c.App
	ck := app.TIBCKeeper.ClientKeeper
	pk := app.TIBCKeeper.PacketKeeper
	rk := app.TIBCKeeper.RoutingKeeper
	name := b.h.names[1]

	// consensus heights: every special height alone, then all together; with and without metadata
	checkHeights := func(label string, hs []clienttypes.Height, meta bool) {
		ctx := b.blank()
		ck.SetChainName(ctx, b.h.names[0])
		_ = rk.SetRoutingRules(ctx, []string{})
		b.putTM(ctx, name, hs, meta)
		rt := e.roundTrip(label, app, ctx, c16WellFormed)
		e.rep.Count("family:heights")
		for _, h := range hs {
			key := string(host.FullConsensusStateKey(name, h))
			slashy := strings.Contains(c16BE(h.RevisionNumber, h.RevisionHeight), "/")
			in := map[string]any{"case": label, "height": h.String(), "key_hex": hex.EncodeToString([]byte(key))}
			if !rt.Exported {
				if h == c16SuffixHeight || strings.HasSuffix(c16BE(h.RevisionNumber, h.RevisionHeight), "/clientState") {
					e.rep.Fail(c16SigSuffix, "genesis export panics when a consensus state sits at a height whose bytes end in \"/clientState\"", in)
				}
				continue
			}
			if !c16HasKey(rt.Imp, key) {
				sig := "C16:consensusStates-lost"
				if slashy {
					sig = c16SigSlash
				}
				e.rep.Fail(sig, "consensus state at height "+h.String()+" does not survive export and re-import", in)
			}
			if meta {
				pt := string(host.FullClientKey(name, ibctmtypes.ProcessedTimeKey(h)))
				ik := string(host.FullClientKey(name, ibctmtypes.IterationKey(h)))
				if !c16HasKey(rt.Imp, pt) || !c16HasKey(rt.Imp, ik) {
					sig := "C16:tm-metadata-lost"
					if slashy {
						sig = c16SigSlash
					}
					e.rep.Fail(sig, "Tendermint metadata (processed time / iteration key) at height "+h.String()+" does not survive", in)
				}
			}
		}
	}
	sp := c16SpecialHeights()
	for _, h := range sp {
		checkHeights("height:"+h.String(), []clienttypes.Height{h}, true)
	}
	checkHeights("heights:all", sp, true)
	checkHeights("heights:all-no-metadata", sp, false)
	checkHeights("heights:none", nil, true)

	// packet families: a valid channel, then every single-field change
	type pst struct {
		src, dst string
		seq      uint64
	}
	putPacket := func(ctx sdk.Context, p pst, fams string) {
		for _, f := range fams {
			switch f {
			case 'c':
				pk.SetPacketCommitment(ctx, p.src, p.dst, p.seq, []byte("commitment-hash-"+fmt.Sprint(p.seq)))
			case 'r':
				pk.SetPacketReceipt(ctx, p.src, p.dst, p.seq)
			case 'a':
				pk.SetPacketAcknowledgement(ctx, p.src, p.dst, p.seq, []byte("ack-hash-"+fmt.Sprint(p.seq)))
			case 's':
				pk.SetNextSequenceSend(ctx, p.src, p.dst, p.seq)
			case 'k':
				pk.SetCleanPacketCommitment(ctx, p.src, p.dst, p.seq)
			case 'm':
				pk.SetMaxAckSequence(ctx, p.src, p.dst, p.seq)
			}
		}
	}
	base := pst{"testchain0", "testchain1", 7}
	variants := []pst{base}
	for _, s := range []uint64{1, 9, 10, 11, 99, 100, 101, 1 << 32, 1<<63 - 1, 1 << 63, ^uint64(0) - 1, ^uint64(0)} {
		variants = append(variants, pst{base.src, base.dst, s})
	}
	// identifiers: source 2-64, destination 8-64 characters from [a-zA-Z0-9._+-#[]<>]
	for _, n := range []string{"ab", "a.b", "a_b", "a+b", "a-b", "a#b", "[ab]", "<ab>", "clients", "sequences", "acks", "47", strings.Repeat("z", 64)} {
		variants = append(variants, pst{n, base.dst, 7})
	}
	for _, n := range []string{"abcdefgh", "a.b.c.d.e", "a_b+c-d#e", "[abcdefg]", "<abcdefg>", "clientState", "consensusStates", "sequences", "4747474747", strings.Repeat("z", 64)} {
		variants = append(variants, pst{base.src, n, 7})
	}
	for vi, v := range variants {
		for _, fams := range []string{"c", "r", "a", "s", "k", "m", "crasKM"} {
			if vi > 0 && len(fams) == 1 && vi%3 != 0 { // all single families for the base and every third variant
				continue
			}
			ctx := b.blank()
			ck.SetChainName(ctx, b.h.names[0])
			_ = rk.SetRoutingRules(ctx, []string{})
			putPacket(ctx, v, strings.ToLower(fams))
			e.roundTrip(fmt.Sprintf("packet:%s/%s#%d:%s", v.src, v.dst, v.seq, fams), app, ctx, c16WellFormed)
			e.rep.Count("family:packet")
		}
	}
	// several channels and sequences at once, sharing prefixes
	{
		ctx := b.blank()
		ck.SetChainName(ctx, b.h.names[0])
		_ = rk.SetRoutingRules(ctx, []string{})
		for _, p := range []pst{{"aa", "bbbbbbbb", 1}, {"aa", "bbbbbbbb", 10}, {"aa", "bbbbbbbb", 100}, {"aa", "bbbbbbbbb", 1}, {"aaa", "bbbbbbbb", 1}, {"aa.", "bbbbbbbb", 2}} {
			putPacket(ctx, p, "crasKM")
		}
		e.roundTrip("packet:many-channels", app, ctx, c16WellFormed)
	}

	// relayers
	for i, rel := range [][]string{{"cosmos1xyz"}, {"cosmos1a", "cosmos1b", "cosmos1c"}, {}, {strings.Repeat("r", 200)}} {
		ctx := b.blank()
		ck.SetChainName(ctx, b.h.names[0])
		_ = rk.SetRoutingRules(ctx, []string{})
		ck.RegisterRelayers(ctx, name, rel)
		ck.RegisterRelayers(ctx, "other-chain", []string{"cosmos1zzz"})
		ck.RegisterRelayers(ctx, strings.Repeat("n", 130), rel) // name length needs a two-byte varint
		e.roundTrip(fmt.Sprintf("relayers:%d", i), app, ctx, c16WellFormed)
		e.rep.Count("family:relayers")
	}

	// routing rules
	for i, rules := range [][]string{{}, {"*,*,*"}, {"testchain0,testchain1,nft", "a+b,*,[x]", "*,testchain2,*"}} {
		ctx := b.blank()
		ck.SetChainName(ctx, b.h.names[0])
		if err := rk.SetRoutingRules(ctx, rules); err != nil {
			e.t.Fatalf("rules: %v", err)
		}
		e.roundTrip(fmt.Sprintf("rules:%d", i), app, ctx, c16WellFormed)
		e.rep.Count("family:rules")
	}

	// chain names
	for _, cn := range []string{"testchain0", "a-b.c_d", strings.Repeat("c", 64)} {
		ctx := b.blank()
		ck.SetChainName(ctx, cn)
		_ = rk.SetRoutingRules(ctx, []string{})
		e.roundTrip("chainName:"+cn, app, ctx, c16WellFormed)
		e.rep.Count("family:chain-name")
	}

	// the live state of the base chain itself (two real Tendermint clients after the mesh)
	e.roundTrip("live:base-chain", app, b.c.GetContext(), c16Reached)

	// states no chain reaches (no survival verdict; the model must still predict the real code)
	raw := func(ctx sdk.Context, k, v string) { ctx.KVStore(app.GetKey(host.StoreKey)).Set([]byte(k), []byte(v)) }
	tmBz := ck.MustMarshalClientState(b.tmCS)
	coBz := ck.MustMarshalConsensusState(b.tmCo)
	mal := []struct {
		label string
		f     func(ctx sdk.Context)
	}{
		{"no-rules-key", func(ctx sdk.Context) { ctx.KVStore(app.GetKey(host.StoreKey)).Delete(host.RoutingRulesKey()) }},
		{"rules-null", func(ctx sdk.Context) { raw(ctx, "Routing/Rules", "null") }},
		{"no-chain-name", func(ctx sdk.Context) { ctx.KVStore(app.GetKey(host.StoreKey)).Delete([]byte(clienttypes.KeyClientName)) }},
		{"ack-seq-zero", func(ctx sdk.Context) { raw(ctx, "acks/testchain0/testchain1/sequences/0", "v") }},
		{"names-too-short", func(ctx sdk.Context) { raw(ctx, "acks/a/b/sequences/7", "v") }},
		{"ack-key-two-parts", func(ctx sdk.Context) { raw(ctx, "acks/x", "v") }},
		{"ack-key-bare", func(ctx sdk.Context) { raw(ctx, "acks", "v") }},
		{"ack-key-no-number", func(ctx sdk.Context) { raw(ctx, "acks/a/b/sequences/xyz", "v") }},
		{"ack-key-empty-number", func(ctx sdk.Context) { raw(ctx, "acks/a/b/sequences/", "v") }},
		{"ack-key-overflow", func(ctx sdk.Context) { raw(ctx, "acks/a/b/sequences/18446744073709551616", "v") }},
		{"ack-key-leading-zero", func(ctx sdk.Context) { raw(ctx, "acks/a/b/sequences/007", "v") }},
		{"ack-key-plus", func(ctx sdk.Context) { raw(ctx, "acks/a/b/sequences/+7", "v") }},
		{"commit-name-with-slash", func(ctx sdk.Context) { raw(ctx, "commitments/a/x/b/sequences/3", "v") }},
		{"commit-short", func(ctx sdk.Context) { raw(ctx, "commitments/a/5", "v") }},
		{"receipt-other-value", func(ctx sdk.Context) { raw(ctx, "receipts/a/b/sequences/3", "\x02") }},
		{"acksX-prefix", func(ctx sdk.Context) { raw(ctx, "acksX/a/b/sequences/3", "v") }},
		{"nextsend-two-parts", func(ctx sdk.Context) {
			raw(ctx, "nextSequenceSend/a", "\x00\x00\x00\x00\x00\x00\x00\x05")
			raw(ctx, "nextSequenceSend/b/c", "\x00\x00\x00\x00\x00\x00\x00\x06")
		}},
		{"nextsend-short-value", func(ctx sdk.Context) { raw(ctx, "nextSequenceSend/a/b", "\x01\x02\x03") }},
		{"nextsend-empty-value", func(ctx sdk.Context) { raw(ctx, "nextSequenceSend/a/b", "") }},
		{"nextsend-long-value", func(ctx sdk.Context) { raw(ctx, "nextSequenceSend/a/b", "\x00\x00\x00\x00\x00\x00\x00\x09\xff") }},
		{"nextrecv-present", func(ctx sdk.Context) { raw(ctx, "nextSequenceRecv/a/b", "\x00\x00\x00\x00\x00\x00\x00\x09") }},
		{"nextack-short", func(ctx sdk.Context) { raw(ctx, "nextSequenceAck/a/b", "\x09") }},
		{"client-state-garbage", func(ctx sdk.Context) { raw(ctx, "clients/zz/clientState", "garbage") }},
		{"client-state-is-consensus", func(ctx sdk.Context) { raw(ctx, "clients/zz/clientState", string(coBz)) }},
		{"consensus-is-client-state", func(ctx sdk.Context) { raw(ctx, "clients/zz/consensusStates/"+c16BE(0, 5), string(tmBz)) }},
		{"consensus-15-bytes", func(ctx sdk.Context) { raw(ctx, "clients/zz/consensusStates/"+c16BE(0, 5)[:15], string(coBz)) }},
		{"consensus-17-bytes", func(ctx sdk.Context) { raw(ctx, "clients/zz/consensusStates/"+c16BE(0, 5)+"x", string(coBz)) }},
		{"consensus-no-client", func(ctx sdk.Context) { raw(ctx, "clients/zz/consensusStates/"+c16BE(0, 5), string(coBz)) }},
		{"client-name-with-slash", func(ctx sdk.Context) { raw(ctx, "clients/a/b/clientState", string(tmBz)) }},
		{"clientsX-prefix", func(ctx sdk.Context) {
			raw(ctx, "clientsX/zz/clientState", string(tmBz))
			raw(ctx, "clientsX/zz/consensusStates/"+c16BE(0, 5), string(coBz))
		}},
		{"metadata-without-client", func(ctx sdk.Context) {
			raw(ctx, "clients/zz/consensusStates/"+c16BE(0, 5)+"/processedTime", "\x00\x00\x00\x00\x00\x00\x00\x01")
			raw(ctx, "clients/zz/iterateConsensusStates"+c16BE(0, 5), "x")
		}},
		{"tm-client-with-foreign-metadata", func(ctx sdk.Context) {
			raw(ctx, "clients/"+name+"/recentSingers/0-5", "v")
			raw(ctx, "clients/"+name+"/ethHeaderIndex/0xab5", "v")
			raw(ctx, "clients/"+name+"/unknownKey", "v")
		}},
		{"relayer-garbage", func(ctx sdk.Context) { raw(ctx, "relayersxx", "\x0a\x05ab") }},
		{"relayer-name-mismatch", func(ctx sdk.Context) { raw(ctx, "relayersxx", "\x0a\x02yy\x12\x01r") }},
		{"relayer-empty-value", func(ctx sdk.Context) { raw(ctx, "relayersxx", "") }},
		{"unknown-top-level-key", func(ctx sdk.Context) { raw(ctx, "zzz/unknown", "v") }},
	}
	for _, m := range mal {
		ctx, _ := b.c.GetContext().CacheContext()
		m.f(ctx)
		e.roundTrip("unreachable:"+m.label, app, ctx, c16Unreachable)
		e.rep.Count("family:unreachable-state")
	}
}

// ---- BSC and ETH clients ---------------------------------------------------------------------------

func c16PkgDir(fn any) string {
	f, _ := runtime.FuncForPC(reflect.ValueOf(fn).Pointer()).FileLine(0)
	return filepath.Dir(f)
}

var c16EthCfg = &params.ChainConfig{ChainID: big.NewInt(1), HomesteadBlock: big.NewInt(0), EIP150Block: big.NewInt(0),
	EIP155Block: big.NewInt(0), EIP158Block: big.NewInt(0), ByzantiumBlock: big.NewInt(0), ConstantinopleBlock: big.NewInt(0),
	PetersburgBlock: big.NewInt(0), IstanbulBlock: big.NewInt(0), MuirGlacierBlock: big.NewInt(0), BerlinBlock: big.NewInt(0),
	LondonBlock: big.NewInt(0)}

func c16EthRoot(n uint64) common.Hash {
	var b [32]byte
	b[0] = 0xc6
	binary.BigEndian.PutUint64(b[24:], n)
	return common.BytesToHash(b[:])
}

func c16EthChild(p *gethtypes.Header, n uint64) *gethtypes.Header {
	h := &gethtypes.Header{ParentHash: p.Hash(), UncleHash: gethtypes.EmptyUncleHash, Root: c16EthRoot(n),
		Number: new(big.Int).Add(p.Number, big.NewInt(1)), GasLimit: p.GasLimit, GasUsed: p.GasLimit / 2, Time: p.Time + 13}
	h.BaseFee = misc.CalcBaseFee(c16EthCfg, p)
	h.Difficulty = ethash.CalcDifficulty(c16EthCfg, h.Time, p)
	return h
}

func c16EthFromGeth(g *gethtypes.Header) *ethtypes.Header {
	x := ethtypes.EthHeader{ParentHash: g.ParentHash, UncleHash: g.UncleHash, Coinbase: g.Coinbase, Root: g.Root, TxHash: g.TxHash,
		ReceiptHash: g.ReceiptHash, Bloom: g.Bloom, Difficulty: g.Difficulty, Number: g.Number, GasLimit: g.GasLimit,
		GasUsed: g.GasUsed, Time: g.Time, Extra: g.Extra, MixDigest: g.MixDigest, Nonce: g.Nonce, BaseFee: g.BaseFee}
	r := x.ToHeader()
	return &r
}

// after the round trip of ctx, deliver the same next header to the original and to the imported
// client and compare acceptance and the resulting client stores
func (e *c16Env) clientContinuation(label string, app *simapp.SimApp, ctx sdk.Context, rt *c16RT, name string, hdr exported.Header, t time.Time) {
	if !rt.Exported || rt.JSON == nil {
		return
	}
	fctx, _ := e.fresh.GetContext().CacheContext()
	fctx = fctx.WithBlockHeader(ctx.BlockHeader())
	if c16Import(e.fresh.App, fctx, rt.JSON) != "" {
		return
	}
	octx, _ := ctx.CacheContext()
	run := func(a *simapp.SimApp, c sdk.Context) (ok bool, errs string) {
		defer func() {
			if r := recover(); r != nil {
				ok, errs = false, fmt.Sprint("panic: ", r)
			}
		}()
		if err := a.TIBCKeeper.ClientKeeper.UpdateClient(c.WithBlockTime(t), name, hdr); err != nil {
			return false, err.Error()
		}
		return true, ""
	}
	ok1, e1 := run(app, octx)
	ok2, e2 := run(e.fresh.App, fctx)
	e.rep.Evaluations++
	e.rep.Count("continuation:client-update")
	if ok1 {
		e.rep.Count("continuation:client-update-accepted")
	} else {
		e.rep.Count("continuation:client-update-refused")
	}
	in := map[string]any{"case": label, "client": name, "original_ok": ok1, "reimported_ok": ok2, "original_err": c16Short(e1), "reimported_err": c16Short(e2)}
	if ok1 != ok2 {
		e.rep.Fail("C16:continuation-differs", "the same header is "+c16Verdict(ok1)+" by the original client and "+c16Verdict(ok2)+" by the re-imported client", in)
		return
	}
	pfx := string(host.KeyClientStorePrefix) + "/" + name + "/"
	sub := func(d [][2]string) string {
		var sb strings.Builder
		for _, kv := range d {
			if strings.HasPrefix(kv[0], pfx) {
				sb.WriteString(hex.EncodeToString([]byte(kv[0])) + "=" + hex.EncodeToString([]byte(kv[1])) + ";")
			}
		}
		return sb.String()
	}
	if sub(c16Dump(octx, app, host.StoreKey)) != sub(c16Dump(fctx, e.fresh.App, host.StoreKey)) {
		e.rep.Fail("C16:continuation-differs", "client stores differ after the same header update on the original and the re-imported client", in)
	}
}

// BSC client / consensus state of the package's recorded test data, and the recorded update headers
func c16BscFixture(e *c16Env) (*bsctypes.ClientState, *bsctypes.ConsensusState, []*bsctypes.BscHeader) {
	dir := filepath.Join(c16PkgDir(bsctypes.ParseValidators), "testdata")
	var gen struct {
		GenesisHeader          *bsctypes.BscHeader `json:"genesis_header"`
		GenesisValidatorHeader *bsctypes.BscHeader `json:"genesis_validator_header"`
	}
	var ups []*bsctypes.BscHeader
	g1, err1 := os.ReadFile(filepath.Join(dir, "genesis_state.json"))
	g2, err2 := os.ReadFile(filepath.Join(dir, "update_headers.json"))
	if err1 != nil || err2 != nil || json.Unmarshal(g1, &gen) != nil || json.Unmarshal(g2, &ups) != nil {
		e.t.Fatalf("bsc test data: %v %v", err1, err2)
	}
	hdr := gen.GenesisHeader.ToHeader()
	vals, err := bsctypes.ParseValidators(gen.GenesisValidatorHeader.Extra)
	if err != nil {
		e.t.Fatal(err)
	}
	cs := &bsctypes.ClientState{Header: hdr, ChainId: 56, Epoch: 200, BlockInteval: 3, Validators: vals,
		ContractAddress: []byte("0x00"), TrustingPeriod: 1 << 40}
	co := &bsctypes.ConsensusState{Timestamp: hdr.Time, Number: hdr.Height, Root: hdr.Root}
	return cs, co, ups
}

func c16EthFixture(num uint64) (*ethtypes.ClientState, *ethtypes.ConsensusState, *gethtypes.Header) {
	g0 := &gethtypes.Header{UncleHash: gethtypes.EmptyUncleHash, Number: new(big.Int).SetUint64(num), GasLimit: 30000000, GasUsed: 15000000,
		Time: 1700000000, Difficulty: big.NewInt(9000000000000000), BaseFee: big.NewInt(50000000000), Root: c16EthRoot(1), Extra: []byte("c16")}
	h0 := c16EthFromGeth(g0)
	cs := &ethtypes.ClientState{Header: *h0, ChainId: 1, ContractAddress: []byte("0x00"), TrustingPeriod: 1000000, BlockDelay: 1}
	co := &ethtypes.ConsensusState{Timestamp: h0.Time, Number: h0.Height, Root: h0.Root}
	return cs, co, g0
}

func c16ForeignClients(e *c16Env) {
	b := newC16Base(e)
	app := b.c.App
	ck := app.TIBCKeeper.ClientKeeper
	self := b.h.names[0]

	// --- BSC: recorded headers of the package's own test data ---
	_, _, ups := c16BscFixture(e)
	nUp := []int{0, 1, 3, 12}
	if envTier() == "thorough" {
		nUp = append(nUp, 40, 150)
	}
	for _, n := range nUp {
		ctx := b.blank()
		ck.SetChainName(ctx, self)
		_ = app.TIBCKeeper.RoutingKeeper.SetRoutingRules(ctx, []string{})
		cs, co, _ := c16BscFixture(e)
		now := time.Unix(int64(cs.Header.Time)+100000, 0)
		ctx = ctx.WithBlockTime(now)
		name := "bsc-mainnet"
		if err := ck.CreateClient(ctx, name, cs, co); err != nil {
			e.t.Fatalf("bsc create: %v", err)
		}
		ck.RegisterRelayers(ctx, name, []string{"cosmos1bscrelayer"})
		for i := 0; i < n && i < len(ups); i++ {
			ph := ups[i].ToHeader()
			if err := ck.UpdateClient(ctx, name, &ph); err != nil {
				e.t.Fatalf("bsc update %d: %v", i, err)
			}
		}
		label := fmt.Sprintf("bsc:%d-updates", n)
		rt := e.roundTrip(label, app, ctx, c16Reached)
		e.rep.Count("family:bsc-client")
		if n < len(ups) {
			next := ups[n].ToHeader()
			e.clientContinuation(label, app, ctx, rt, name, &next, now)
			if n+1 < len(ups) { // a header that does not follow: refused by both
				skip := ups[n+1].ToHeader()
				e.clientContinuation(label+"/gap", app, ctx, rt, name, &skip, now)
			}
		}
	}

	// --- ETH: synthetic header chain (ethash seal skipped through the verif hook), with a fork ---
	ethtypes.VerifSkipSeal = true
	for _, n := range []int{0, 1, 4, 9} {
		ctx := b.blank()
		ck.SetChainName(ctx, self)
		_ = app.TIBCKeeper.RoutingKeeper.SetRoutingRules(ctx, []string{})
		num := uint64(12031 - n/2) // the chain runs through block 12032 = 0x2f00
		if n == 9 {
			num = 300 // ... and through 303
		}
		cs, co, g0 := c16EthFixture(num)
		now := time.Unix(int64(g0.Time)+5000, 0)
		ctx = ctx.WithBlockTime(now)
		name := "eth.mainnet"
		if err := ck.CreateClient(ctx, name, cs, co); err != nil {
			e.t.Fatalf("eth create: %v", err)
		}
		tip := g0
		var chain []*gethtypes.Header
		for i := 0; i < n; i++ {
			tip = c16EthChild(tip, uint64(10+i))
			chain = append(chain, tip)
			if err := ck.UpdateClient(ctx, name, c16EthFromGeth(tip)); err != nil {
				e.t.Fatalf("eth update %d: %v", i, err)
			}
		}
		label := fmt.Sprintf("eth:%d-updates", n)
		rt := e.roundTrip(label, app, ctx, c16Reached)
		e.rep.Count("family:eth-client")
		next := c16EthChild(tip, 99)
		e.clientContinuation(label, app, ctx, rt, name, c16EthFromGeth(next), now)
		if len(chain) >= 2 { // a sibling of the tip: needs the header index of the tip's parent
			sib := c16EthChild(chain[len(chain)-2], 77)
			sib.Time++
			sib.Difficulty = ethash.CalcDifficulty(c16EthCfg, sib.Time, chain[len(chain)-2])
			e.clientContinuation(label+"/sibling", app, ctx, rt, name, c16EthFromGeth(sib), now)
		}
		orphan := c16EthChild(next, 55) // unknown parent: refused by both
		e.clientContinuation(label+"/orphan", app, ctx, rt, name, c16EthFromGeth(orphan), now)
	}
	ethtypes.VerifSkipSeal = false
}

// ---- seeded synthetic stores ----------------------------------------------------------------------------

// valid chain names (9-64 characters), among them the literals the store keys are built from
var c16Names = []string{"testchain0", "testchain1", "testchain2", "bsc-mainnet", "eth.mainnet", "a_b+c-d.e#f", "Chain[9]<x>",
	"clientState", "consensusStates", "sequences", "relayers0", "acks-acks", "4747474747", "iterateConsensusStates", "clients-x", "chainName"}

func c16RandHeight(r *rand.Rand) clienttypes.Height {
	sp := c16SpecialHeights()
	switch r.Intn(4) {
	case 0:
		return sp[r.Intn(len(sp))]
	case 1:
		return clienttypes.NewHeight(0, uint64(1+r.Intn(400)))
	case 2: // a '/' byte somewhere
		var b [16]byte
		binary.BigEndian.PutUint64(b[8:], uint64(r.Intn(1<<20)))
		b[8+r.Intn(8)] = 0x2f
		if r.Intn(3) == 0 {
			b[r.Intn(8)] = 0x2f
		}
		return clienttypes.NewHeight(binary.BigEndian.Uint64(b[:8]), binary.BigEndian.Uint64(b[8:]))
	default:
		return clienttypes.NewHeight(uint64(r.Intn(3)), 1+r.Uint64()>>uint(1+r.Intn(63)))
	}
}

func c16RandSeq(r *rand.Rand) uint64 {
	switch r.Intn(5) {
	case 0:
		return pick(r, []uint64{1, 9, 10, 11, 99, 100, 1 << 32, ^uint64(0)})
	case 1:
		return r.Uint64() >> uint(r.Intn(64))
	default:
		return uint64(1 + r.Intn(30))
	}
}

func c16Synthetic(e *c16Env) {
	b := newC16Base(e)
	app := b.c.App
	ck := app.TIBCKeeper.ClientKeeper
	pk := app.TIBCKeeper.PacketKeeper
	rk := app.TIBCKeeper.RoutingKeeper
	n := tierN(100, 4000)
	bscCS, bscCo, _ := c16BscFixture(e)
	ethCS, ethCo, _ := c16EthFixture(12031)
	for i := 0; i < n; i++ {
		r := newRand(16000 + int64(i))
		ctx := b.blank()
		ck.SetChainName(ctx, pick(r, c16Names))
		var rules []string
		for k := r.Intn(3); k > 0; k-- {
			rules = append(rules, pick(r, []string{"*", "testchain0", "a+b"})+","+pick(r, []string{"*", "testchain1"})+","+pick(r, []string{"*", "nft", "[x]"}))
		}
		if rules == nil {
			rules = []string{}
		}
		_ = rk.SetRoutingRules(ctx, rules)
		used := map[string]bool{}
		for k := r.Intn(4); k > 0; k-- {
			name := pick(r, c16Names)
			if used[name] {
				continue
			}
			used[name] = true
			st := ck.ClientStore(ctx, name)
			switch r.Intn(4) {
			case 0, 1:
				var hs []clienttypes.Height
				for j := r.Intn(6); j > 0; j-- {
					hs = append(hs, c16RandHeight(r))
				}
				b.putTM(ctx, name, hs, r.Intn(5) != 0)
				e.rep.Count("synthetic:tm-client")
			case 2:
				ck.SetClientState(ctx, name, bscCS)
				for j := r.Intn(4); j > 0; j-- {
					h := c16RandHeight(r)
					ck.SetClientConsensusState(ctx, name, h, bscCo)
					bsctypes.SetSigner(st, bsctypes.Signer{Height: h, Validator: []byte{byte(j), 2, 3}})
				}
				if r.Intn(2) == 0 {
					bsctypes.SetPendingValidators(st, app.AppCodec(), [][]byte{{1, 2}, {3}})
				}
				e.rep.Count("synthetic:bsc-client")
			default:
				ck.SetClientState(ctx, name, ethCS)
				for j := r.Intn(4); j > 0; j-- {
					h := c16RandHeight(r)
					ck.SetClientConsensusState(ctx, name, h, ethCo)
					hash := c16EthRoot(r.Uint64())
					st.Set(ethtypes.EthHeaderIndexKey(hash, h.RevisionHeight), []byte("header-bytes"))
					ethtypes.SetEthConsensusRoot(st, h.RevisionHeight, c16EthRoot(uint64(j)), hash)
				}
				e.rep.Count("synthetic:eth-client")
			}
			if r.Intn(2) == 0 {
				var rel []string
				for j := r.Intn(3); j > 0; j-- {
					rel = append(rel, fmt.Sprintf("cosmos1relayer%d", r.Intn(9)))
				}
				ck.RegisterRelayers(ctx, name, rel)
			}
		}
		if r.Intn(4) == 0 {
			ck.RegisterRelayers(ctx, pick(r, c16Names), []string{"cosmos1nobody"})
		}
		for k := r.Intn(4); k > 0; k-- {
			s, d := pick(r, c16Names), pick(r, c16Names)
			for j := r.Intn(5); j > 0; j-- {
				q := c16RandSeq(r)
				switch r.Intn(3) {
				case 0:
					pk.SetPacketCommitment(ctx, s, d, q, []byte(fmt.Sprintf("c%d", q)))
				case 1:
					pk.SetPacketReceipt(ctx, s, d, q)
				default:
					pk.SetPacketAcknowledgement(ctx, s, d, q, []byte(fmt.Sprintf("a%d", q)))
				}
			}
			if r.Intn(2) == 0 {
				pk.SetNextSequenceSend(ctx, s, d, c16RandSeq(r))
			}
			if r.Intn(4) == 0 {
				pk.SetCleanPacketCommitment(ctx, s, d, c16RandSeq(r))
			}
			if r.Intn(4) == 0 {
				pk.SetMaxAckSequence(ctx, s, d, c16RandSeq(r))
			}
		}
		well := true
		if r.Intn(6) == 0 { // malformed stream: one raw key the protocol never writes
			well = false
			raw := func(k, v string) { ctx.KVStore(app.GetKey(host.StoreKey)).Set([]byte(k), []byte(v)) }
			fam := pick(r, []string{"acks", "commitments", "receipts", "nextSequenceSend", "clients", "relayers", "clean", "maxAckSeq", "zzz"})
			parts := []string{fam}
			for j := r.Intn(5); j > 0; j-- {
				parts = append(parts, pick(r, []string{"a", "b", "sequences", "clientState", "consensusStates", "7", "x7", "", c16BE(0, 7)}))
			}
			raw(strings.Join(parts, "/"), pick(r, []string{"v", "", "\x00\x00\x00\x00\x00\x00\x00\x07", "\x0a\x01a"}))
			e.rep.Count("synthetic:malformed")
		} else {
			e.rep.Count("synthetic:well-formed")
		}
		mode := c16WellFormed
		if !well {
			mode = c16Unreachable
		}
		e.roundTrip(fmt.Sprintf("synthetic-%d", i), app, ctx, mode)
	}
}

// ---- twin-network scenarios ------------------------------------------------------------------------------

// advance chain j by empty blocks so that the next client update about it records height h
func c16AdvanceTo(tw *c16Twin, j int, h uint64) {
	for _, n := range []*NetH{tw.a, tw.b} {
		for uint64(n.chains[j].LastHeader.GetHeight().GetRevisionHeight())+1 < h {
			n.commit(j)
		}
	}
}

func c16Twins(e *c16Env) {
	type pk = Pkt
	life := func(tw *c16Twin, nSend int) []pk {
		A, B := tw.a.names[0], tw.a.names[1]
		var ps []pk
		for s := 1; s <= nSend; s++ {
			p := pk{uint64(s), A, B, "", "tibcmock", fmt.Sprintf("data-%d", s)}
			ps = append(ps, p)
			tw.do(func(h *NetH) { h.Send(0, p) })
		}
		tw.do(func(h *NetH) { h.UpdateClient(1, 0) })
		for _, p := range ps {
			p := p
			tw.do(func(h *NetH) { h.Recv(1, p, ProofSpec{0, commitKey(p)}, h.latestKnown(1, 0)) })
		}
		tw.do(func(h *NetH) { h.UpdateClient(0, 1) })
		for _, p := range ps[:3] {
			p := p
			tw.do(func(h *NetH) { h.Ack(0, p, "mock acknowledgement", ProofSpec{1, ackKey(p)}, h.latestKnown(0, 1)) })
		}
		return ps
	}
	recvHeight := func(tw *c16Twin, p pk) uint64 { // the proof height of the first accepted receive
		for _, d := range tw.a.Descs {
			if d.Op == "recv" && d.OK && d.Pkt != nil && *d.Pkt == p {
				return d.Height
			}
		}
		return 0
	}

	// 1. destination chain re-imported after a clean: replay protection and clean requests
	{
		tw := e.newTwin("twin:dest-after-clean", 3, false)
		tw.do(mesh)
		A, B := tw.a.names[0], tw.a.names[1]
		ps := life(tw, 5)
		tw.do(func(h *NetH) { h.Clean(0, CPkt{2, "", B, ""}) })
		tw.do(func(h *NetH) { h.UpdateClient(1, 0) })
		tw.do(func(h *NetH) { h.RecvClean(1, CPkt{2, A, B, ""}, ProofSpec{0, cleanKey(A, B)}, h.latestKnown(1, 0)) })
		h1 := recvHeight(tw, ps[0])
		tw.reimport(1)
		tw.do(func(h *NetH) { h.Recv(1, ps[0], ProofSpec{0, commitKey(ps[0])}, h1) })            // below the clean point, old proof
		tw.do(func(h *NetH) { h.Recv(1, ps[1], ProofSpec{0, commitKey(ps[1])}, h1) })            // at the clean point
		tw.do(func(h *NetH) { h.Recv(1, ps[4], ProofSpec{0, commitKey(ps[4])}, h1) })            // receipt still there
		p6 := pk{6, A, B, "", "tibcmock", "data-6"}
		tw.do(func(h *NetH) { h.Send(0, p6) })
		tw.do(func(h *NetH) { h.UpdateClient(1, 0) })
		tw.do(func(h *NetH) { h.Recv(1, p6, ProofSpec{0, commitKey(p6)}, h.latestKnown(1, 0)) })
		tw.do(func(h *NetH) { h.UpdateClient(0, 1) })
		tw.do(func(h *NetH) { h.Ack(0, ps[3], "mock acknowledgement", ProofSpec{1, ackKey(ps[3])}, h.latestKnown(0, 1)) })
		tw.do(func(h *NetH) { h.Clean(0, CPkt{4, "", B, ""}) })
		tw.do(func(h *NetH) { h.UpdateClient(1, 0) })
		tw.do(func(h *NetH) { h.RecvClean(1, CPkt{4, A, B, ""}, ProofSpec{0, cleanKey(A, B)}, h.latestKnown(1, 0)) })
		tw.finish()
		e.rep.Count("family:twin-dest-after-clean")
	}
	// 2. source chain re-imported: sequence continuity, pending commitments, clean request
	{
		tw := e.newTwin("twin:source-after-clean", 3, false)
		tw.do(mesh)
		A, B := tw.a.names[0], tw.a.names[1]
		ps := life(tw, 5)
		tw.do(func(h *NetH) { h.Clean(0, CPkt{2, "", B, ""}) })
		tw.reimport(0)
		tw.do(func(h *NetH) { h.Clean(0, CPkt{3, "", B, ""}) }) // needs the highest acknowledged sequence
		p6 := pk{6, A, B, "", "tibcmock", "data-6"}
		tw.do(func(h *NetH) { h.Send(0, pk{5, A, B, "", "tibcmock", "again-5"}) }) // sequence already used
		tw.do(func(h *NetH) { h.Send(0, pk{7, A, B, "", "tibcmock", "gap-7"}) })   // gap
		tw.do(func(h *NetH) { h.Send(0, p6) })
		tw.do(func(h *NetH) { h.UpdateClient(0, 1) })
		tw.do(func(h *NetH) { h.Ack(0, ps[3], "mock acknowledgement", ProofSpec{1, ackKey(ps[3])}, h.latestKnown(0, 1)) }) // pending commitment
		tw.do(func(h *NetH) { h.Ack(0, ps[3], "mock acknowledgement", ProofSpec{1, ackKey(ps[3])}, h.latestKnown(0, 1)) }) // replay
		tw.do(func(h *NetH) { h.Ack(0, ps[0], "mock acknowledgement", ProofSpec{1, ackKey(ps[0])}, h.latestKnown(0, 1)) }) // below clean
		tw.do(func(h *NetH) { h.UpdateClient(1, 0) })
		tw.do(func(h *NetH) { h.Recv(1, p6, ProofSpec{0, commitKey(p6)}, h.latestKnown(1, 0)) })
		tw.do(func(h *NetH) { h.Clean(0, CPkt{4, "", B, ""}) })
		tw.finish()
		e.rep.Count("family:twin-source-after-clean")
	}
	// 3. nothing cleaned: the re-imported chain must be indistinguishable (positive control)
	{
		tw := e.newTwin("twin:no-clean", 3, false)
		tw.do(mesh)
		A, B := tw.a.names[0], tw.a.names[1]
		ps := life(tw, 4)
		tw.reimport(1)
		h1 := recvHeight(tw, ps[0])
		tw.do(func(h *NetH) { h.Recv(1, ps[0], ProofSpec{0, commitKey(ps[0])}, h1) }) // replay: receipt survives
		p5 := pk{5, A, B, "", "tibcmock", "data-5"}
		tw.do(func(h *NetH) { h.Send(0, p5) })
		tw.do(func(h *NetH) { h.UpdateClient(1, 0) })
		tw.do(func(h *NetH) { h.Recv(1, p5, ProofSpec{0, commitKey(p5)}, h.latestKnown(1, 0)) })
		tw.do(func(h *NetH) { h.Recv(1, p5, ProofSpec{0, commitKey(p5)}, h.latestKnown(1, 0)) })
		q := pk{1, B, A, "", "tibcmock", "reverse-1"}
		tw.do(func(h *NetH) { h.Send(1, q) })
		tw.do(func(h *NetH) { h.UpdateClient(0, 1) })
		tw.do(func(h *NetH) { h.Recv(0, q, ProofSpec{1, commitKey(q)}, h.latestKnown(0, 1)) })
		tw.do(func(h *NetH) { h.UpdateClient(1, 0) })
		tw.do(func(h *NetH) { h.Ack(1, q, "mock acknowledgement", ProofSpec{0, ackKey(q)}, h.latestKnown(1, 0)) })
		tw.reimport(0) // a second chain of the same network
		tw.do(func(h *NetH) { h.Ack(0, ps[3], "mock acknowledgement", ProofSpec{1, ackKey(ps[3])}, h.latestKnown(0, 1)) })
		tw.finish()
		e.rep.Count("family:twin-no-clean")
	}
	// 4. relay chain re-imported: receipts, re-committed packets, acknowledgements, whitelist
	{
		tw := e.newTwin("twin:relay-chain", 3, false)
		tw.do(mesh)
		A, B, C := tw.a.names[0], tw.a.names[1], tw.a.names[2]
		tw.do(func(h *NetH) { h.SetRules(1, []string{A + "," + C + ",tibcmock"}) })
		p1 := pk{1, A, C, B, "tibcmock", "via-1"}
		p2 := pk{2, A, C, B, "tibcmock", "via-2"}
		bad := pk{3, A, C, B, "nope", "refused-3"}
		for _, p := range []pk{p1, p2, bad} {
			p := p
			tw.do(func(h *NetH) { h.Send(0, p) })
		}
		tw.do(func(h *NetH) { h.UpdateClient(1, 0) })
		tw.do(func(h *NetH) { h.Recv(1, p1, ProofSpec{0, commitKey(p1)}, h.latestKnown(1, 0)) })
		tw.do(func(h *NetH) { h.Recv(1, bad, ProofSpec{0, commitKey(bad)}, h.latestKnown(1, 0)) })
		tw.do(func(h *NetH) { h.UpdateClient(2, 1) })
		tw.do(func(h *NetH) { h.Recv(2, p1, ProofSpec{1, commitKey(p1)}, h.latestKnown(2, 1)) })
		tw.reimport(1)
		tw.do(func(h *NetH) { h.Recv(1, p1, ProofSpec{0, commitKey(p1)}, h.latestKnown(1, 0)) }) // replay on the relay
		tw.do(func(h *NetH) { h.Recv(1, p2, ProofSpec{0, commitKey(p2)}, h.latestKnown(1, 0)) }) // whitelist after import
		tw.do(func(h *NetH) { h.UpdateClient(1, 2) })
		tw.do(func(h *NetH) { h.Ack(1, p1, "mock acknowledgement", ProofSpec{2, ackKey(p1)}, h.latestKnown(1, 2)) })
		tw.do(func(h *NetH) { h.UpdateClient(0, 1) })
		tw.do(func(h *NetH) { h.Ack(0, p1, "mock acknowledgement", ProofSpec{1, ackKey(p1)}, h.latestKnown(0, 1)) })
		tw.do(func(h *NetH) { h.Ack(0, bad, "error:unauthorized", ProofSpec{1, ackKey(bad)}, h.latestKnown(0, 1)) })
		p4 := pk{4, A, C, B, "NFT", "refused-after-import"}
		tw.do(func(h *NetH) { h.Send(0, p4) })
		tw.do(func(h *NetH) { h.UpdateClient(1, 0) })
		tw.do(func(h *NetH) { h.Recv(1, p4, ProofSpec{0, commitKey(p4)}, h.latestKnown(1, 0)) })
		tw.do(func(h *NetH) { h.SetRules(1, []string{"*,*,*"}) })
		tw.finish()
		e.rep.Count("family:twin-relay-chain")
	}
	// 5. consensus states at heights 47 and 303 (bytes contain '/'), proofs verified at them after import
	{
		tw := e.newTwin("twin:heights-47-303", 2, false)
		tw.do(mesh)
		A, B := tw.a.names[0], tw.a.names[1]
		p1 := pk{1, A, B, "", "tibcmock", "proved-at-47"}
		p2 := pk{2, A, B, "", "tibcmock", "proved-at-303"}
		tw.do(func(h *NetH) { h.Send(0, p1) })
		c16AdvanceTo(tw, 0, 47)
		tw.do(func(h *NetH) { h.UpdateClient(1, 0) })
		tw.do(func(h *NetH) { h.Send(0, p2) })
		c16AdvanceTo(tw, 0, 303)
		tw.do(func(h *NetH) { h.UpdateClient(1, 0) })
		for _, hh := range []uint64{47, 303} {
			if tw.a.latestKnown(1, 0) != 303 || !c16HasKey(c16Dump(tw.a.chains[1].GetContext(), tw.a.chains[1].App, host.StoreKey), string(host.FullConsensusStateKey(A, clienttypes.NewHeight(0, hh)))) {
				e.rep.Fail("C16:harness-height-not-reached", "the scenario did not produce a consensus state at the intended height", hh)
			}
		}
		tw.reimport(1)
		cb := tw.b.chains[1]
		for _, hh := range []uint64{47, 303} {
			if _, ok := cb.App.TIBCKeeper.ClientKeeper.GetClientConsensusState(cb.GetContext(), A, clienttypes.NewHeight(0, hh)); !ok {
				e.rep.Fail(c16SigSlash, fmt.Sprintf("consensus state at height %d is gone after export and re-import", hh), map[string]any{"case": tw.name})
			}
		}
		tw.do(func(h *NetH) { h.Recv(1, p1, ProofSpec{0, commitKey(p1)}, 47) })
		tw.do(func(h *NetH) { h.Recv(1, p2, ProofSpec{0, commitKey(p2)}, 303) })
		tw.do(func(h *NetH) { h.UpdateClient(1, 0) })
		tw.finish()
		e.rep.Count("family:twin-heights-47-303")
	}
	// 5b. (thorough tier) height 12032 = 0x2f00 reached by really committing blocks
	if envTier() == "thorough" {
		tw := e.newTwin("twin:height-12032", 2, false)
		tw.do(mesh)
		A, B := tw.a.names[0], tw.a.names[1]
		p1 := pk{1, A, B, "", "tibcmock", "proved-at-12032"}
		tw.do(func(h *NetH) { h.Send(0, p1) })
		for _, stop := range []uint64{4000, 8000, 12032} { // the testing chains keep 10000 historical validator sets
			c16AdvanceTo(tw, 0, stop)
			tw.do(func(h *NetH) { h.UpdateClient(1, 0) })
		}
		if tw.a.latestKnown(1, 0) != 12032 {
			e.rep.Fail("C16:harness-height-not-reached", "the scenario did not produce a consensus state at the intended height", 12032)
		}
		tw.reimport(1)
		cb := tw.b.chains[1]
		if _, ok := cb.App.TIBCKeeper.ClientKeeper.GetClientConsensusState(cb.GetContext(), A, clienttypes.NewHeight(0, 12032)); !ok {
			e.rep.Fail(c16SigSlash, "consensus state at height 12032 is gone after export and re-import", map[string]any{"case": tw.name})
		}
		tw.do(func(h *NetH) { h.Recv(1, p1, ProofSpec{0, commitKey(p1)}, 12032) })
		tw.do(func(h *NetH) { h.UpdateClient(1, 0) })
		tw.finish()
		e.rep.Count("family:twin-height-12032")
	}
	// 6. Tendermint pruning after import (iteration keys) and an expired consensus state
	{
		tw := e.newTwin("twin:tm-pruning", 2, false)
		tw.do(mesh)
		A, B := tw.a.names[0], tw.a.names[1]
		p1 := pk{1, A, B, "", "tibcmock", "old-proof"}
		tw.do(func(h *NetH) { h.Send(0, p1) })
		tw.do(func(h *NetH) { h.UpdateClient(1, 0) })
		old := tw.a.latestKnown(1, 0)
		tw.do(func(h *NetH) { h.Tick(tibctesting.TrustingPeriod - 24*time.Hour) })
		tw.do(func(h *NetH) { h.UpdateClient(1, 0) })
		tw.reimport(1)
		tw.do(func(h *NetH) { h.Tick(48 * time.Hour) })
		tw.do(func(h *NetH) { h.UpdateClient(1, 0) }) // prunes the states that expired
		tw.do(func(h *NetH) { h.Recv(1, p1, ProofSpec{0, commitKey(p1)}, old) })
		tw.do(func(h *NetH) { h.Recv(1, p1, ProofSpec{0, commitKey(p1)}, h.latestKnown(1, 0)) })
		// the consensus-state key sets of both chains must agree after pruning
		ka := c16ClientKeys(tw.a.chains[1])
		kb := c16ClientKeys(tw.b.chains[1])
		if ka != kb {
			e.rep.Fail("C16:continuation-differs", "after the same client update the original and the re-imported chain hold different consensus-state / metadata keys (pruning)", map[string]any{"case": tw.name, "original": ka, "reimported": kb})
		}
		tw.finish()
		e.rep.Count("family:twin-tm-pruning")
	}
	// 7. voucher class traces of the NFT and MT transfer applications
	c16TraceTwin(e)

	// 8. seeded random histories, random chain re-imported, random follow-ups
	nr := tierN(6, 60)
	for k := 0; k < nr; k++ {
		tw := e.newTwin(fmt.Sprintf("twin:random-%d", k), 3, false)
		tw.do(mesh)
		cfg := genCfg{Chains: 3, Ops: 45, Perturb: 15, Clean: true, Rules: true}
		if k%2 == 1 {
			cfg.Focus = true
			cfg.Rules = false
			tw.do(func(h *NetH) { h.SetRules(2, []string{"*,*,*"}) })
		}
		seed := int64(k)*7919 + 16
		nmesh := len(tw.a.Descs)
		randomHistory(tw.a, newRand(seed), cfg)
		randomHistory(tw.b, newRand(seed), cfg)
		tw.compare(nmesh, nmesh)
		r := newRand(seed + 1)
		tw.reimport(r.Intn(3))
		c16Continue(tw, r, 25)
		if r.Intn(2) == 0 {
			tw.reimport(r.Intn(3))
			c16Continue(tw, r, 10)
		}
		tw.finish()
		e.rep.Count("family:twin-random")
	}
}

func c16ClientKeys(c *tibctesting.TestChain) string {
	var sb strings.Builder
	for _, kv := range c16Dump(c.GetContext(), c.App, host.StoreKey) {
		if strings.HasPrefix(kv[0], "clients/") && !strings.HasSuffix(kv[0], "/clientState") {
			sb.WriteString(hex.EncodeToString([]byte(kv[0])) + ";")
		}
	}
	return sb.String()
}

// random follow-ups; every argument is computed from the ORIGINAL network so that both
// networks receive literally the same messages
func c16Continue(tw *c16Twin, r *rand.Rand, n int) {
	a := tw.a
	nc := len(a.chains)
	type known struct {
		p      Pkt
		recvAt map[int]uint64 // chain -> proof height of its accepted receive
	}
	var ks []*known
	find := func(p Pkt) *known {
		for _, k := range ks {
			if k.p == p {
				return k
			}
		}
		k := &known{p: p, recvAt: map[int]uint64{}}
		ks = append(ks, k)
		return k
	}
	for _, d := range a.Descs {
		if d.Pkt == nil || !d.OK {
			continue
		}
		switch d.Op {
		case "send":
			find(*d.Pkt)
		case "recv":
			find(*d.Pkt).recvAt[d.Chain] = d.Height
		}
	}
	nextSeq := func(s, d int) uint64 {
		c := a.chains[s]
		return c.App.TIBCKeeper.PacketKeeper.GetNextSequenceSend(c.GetContext(), a.names[s], a.names[d])
	}
	for step := 0; step < n && !tw.desync; step++ {
		x := r.Intn(100)
		switch {
		case x < 30 && len(ks) > 0: // replay / late delivery of a known packet somewhere on its path
			k := ks[r.Intn(len(ks))]
			p := k.p
			s, d, rel := a.idx(p.Src), a.idx(p.Dst), a.idx(p.Relay)
			if s < 0 || d < 0 {
				continue
			}
			at, from := d, s
			if rel >= 0 {
				if r.Intn(2) == 0 {
					at, from = rel, s
				} else {
					at, from = d, rel
				}
			}
			if r.Intn(3) != 0 {
				tw.do(func(h *NetH) { h.UpdateClient(at, from) })
			}
			ht := a.latestKnown(at, from)
			if old, ok := k.recvAt[at]; ok && r.Intn(3) != 0 {
				ht = old
			}
			tw.do(func(h *NetH) { h.Recv(at, p, ProofSpec{from, commitKey(p)}, ht) })
			if d := a.Descs[len(a.Descs)-1]; d.OK {
				k.recvAt[at] = ht
			}
		case x < 50 && len(ks) > 0: // acknowledgement of a known packet back along its path
			k := ks[r.Intn(len(ks))]
			p := k.p
			s, d, rel := a.idx(p.Src), a.idx(p.Dst), a.idx(p.Relay)
			if s < 0 || d < 0 {
				continue
			}
			at, from := s, d
			if rel >= 0 {
				if r.Intn(2) == 0 {
					at, from = rel, d
				} else {
					at, from = s, rel
				}
			}
			if r.Intn(3) != 0 {
				tw.do(func(h *NetH) { h.UpdateClient(at, from) })
			}
			ht := a.latestKnown(at, from)
			ack := pick(r, []string{"mock acknowledgement", "mock acknowledgement", "mock acknowledgement", "error:unauthorized"})
			tw.do(func(h *NetH) { h.Ack(at, p, ack, ProofSpec{from, ackKey(p)}, ht) })
		case x < 68: // fresh send (mostly with the right sequence)
			s := r.Intn(nc)
			d := (s + 1 + r.Intn(nc-1)) % nc
			p := Pkt{nextSeq(s, d), a.names[s], a.names[d], "", pick(r, []string{"tibcmock", "tibcmock", "nope"}), fmt.Sprintf("~c%d-%d", step, r.Intn(1000))}
			if nc > 2 && r.Intn(3) == 0 {
				p.Relay = a.names[3-s-d]
			}
			switch r.Intn(8) {
			case 0:
				p.Seq++
			case 1:
				if p.Seq > 1 {
					p.Seq--
				}
			}
			tw.do(func(h *NetH) { h.Send(s, p) })
			if a.Descs[len(a.Descs)-1].OK {
				find(p)
			}
		case x < 80 && len(ks) > 0: // clean request at the source
			k := ks[r.Intn(len(ks))]
			s := a.idx(k.p.Src)
			if s < 0 {
				continue
			}
			cs := a.chains[s]
			mx := cs.App.TIBCKeeper.PacketKeeper.GetMaxAckSequence(cs.GetContext(), k.p.Src, k.p.Dst)
			seq := mx
			switch r.Intn(4) {
			case 0:
				seq = mx + 1
			case 1:
				if mx > 1 {
					seq = uint64(1 + r.Intn(int(mx)))
				}
			}
			cp := CPkt{seq, "", k.p.Dst, k.p.Relay}
			tw.do(func(h *NetH) { h.Clean(s, cp) })
		case x < 90 && len(ks) > 0: // clean request relayed to the destination
			k := ks[r.Intn(len(ks))]
			s, d := a.idx(k.p.Src), a.idx(k.p.Dst)
			if s < 0 || d < 0 || k.p.Relay != "" {
				continue
			}
			cs := a.chains[s]
			cur := cs.App.TIBCKeeper.PacketKeeper.GetCleanPacketCommitment(cs.GetContext(), k.p.Src, k.p.Dst)
			if len(cur) != 8 {
				continue
			}
			seq := binary.BigEndian.Uint64(cur)
			tw.do(func(h *NetH) { h.UpdateClient(d, s) })
			ht := a.latestKnown(d, s)
			cp := CPkt{seq, k.p.Src, k.p.Dst, ""}
			tw.do(func(h *NetH) { h.RecvClean(d, cp, ProofSpec{s, cleanKey(k.p.Src, k.p.Dst)}, ht) })
		case x < 95:
			i := r.Intn(nc)
			j := (i + 1 + r.Intn(nc-1)) % nc
			tw.do(func(h *NetH) { h.UpdateClient(i, j) })
		default:
			i := r.Intn(nc)
			rules := []string{pick(r, []string{"*", a.names[0]}) + ",*," + pick(r, []string{"*", "tibcmock"})}
			tw.do(func(h *NetH) { h.SetRules(i, rules) })
		}
	}
}

// NFT and MT vouchers on chain B, B re-imported, vouchers sent back
func c16TraceTwin(e *c16Env) {
	tw := e.newTwin("twin:class-traces", 2, true)
	tw.do(mesh)
	A, B := tw.a.names[0], tw.a.names[1]
	var mtCls, mtID, nftV, mtV [2]string
	idx := func(h *AppH) int {
		if h == tw.aa {
			return 0
		}
		return 1
	}
	tw.doApp(func(h *AppH) { h.NftIssue(0, 1, "kitty") })
	tw.doApp(func(h *AppH) { h.NftMint(0, 1, "kitty", "tom", "uri://tom", 1) })
	tw.doApp(func(h *AppH) { h.NftMint(0, 1, "kitty", "jerry", "uri://jerry", 1) })
	tw.doApp(func(h *AppH) { h.NftSend(0, 1, "kitty", "tom", h.addr(1, 2), B, "") })
	tw.doApp(func(h *AppH) { h.relayLast() })
	// class and token ids of the MT module are generated per chain: each network uses its own
	tw.doApp(func(h *AppH) { mtCls[idx(h)], _ = h.MtIssue(0, 1) })
	tw.doApp(func(h *AppH) { mtID[idx(h)], _ = h.MtMintNew(0, 1, mtCls[idx(h)], 100, 1) })
	tw.doApp(func(h *AppH) { h.MtSend(0, 1, mtCls[idx(h)], mtID[idx(h)], h.addr(1, 1), B, "", 40) })
	tw.doApp(func(h *AppH) { h.relayLast() })
	nftPath := "nft/" + A + "/" + B + "/kitty"
	for i, h := range []*AppH{tw.aa, tw.ab} {
		nftV[i] = h.realClass(1, "NFT", nftPath)
		mtV[i] = h.realClass(1, "MT", "mt/"+A+"/"+B+"/"+mtCls[i])
		if !strings.HasPrefix(nftV[i], "tibc-") || !strings.HasPrefix(mtV[i], "tibc-") {
			e.rep.Fail("C16:harness-no-voucher", "the scenario did not create voucher classes", map[string]any{"nft": nftV[i], "mt": mtV[i]})
			return
		}
	}
	// hash -> path memo of network b, taken before the traces disappear: used to canonicalise the
	// voucher class ids in the model terms recorded after the re-import
	memo := map[string]string{}
	for _, mod := range []string{"NFT", "MT"} {
		for hash, p := range tw.ab.traces(1, mod) {
			memo[hex.EncodeToString([]byte("tibc-"+hash))] = hex.EncodeToString([]byte("tibc-" + p))
			memo[hex.EncodeToString([]byte("tibc-"+strings.ToLower(hash)))] = hex.EncodeToString([]byte("tibc-" + p))
		}
	}
	nb := len(tw.b.steps)
	tw.reimport(1)
	// vouchers back to their origin
	tw.doApp(func(h *AppH) {
		i := idx(h)
		h.user(1, 2, fmt.Sprintf("UNftSend %s %s %s %s %s %s %s", hxS("tibc-"+nftPath), hxS("tom"), hxS(h.addr(1, 2)), hxS(h.addr(0, 3)), hxS(A), hxS(""), hxS("")),
			StepDesc{Op: "nft-send", Args: []string{nftV[i], "tom"}},
			nfttransfertypes.NewMsgNftTransfer(nftV[i], "tom", h.addr(1, 2), h.addr(0, 3), A, "", ""))
	})
	tw.doApp(func(h *AppH) { h.relayLast() })
	tw.doApp(func(h *AppH) {
		i := idx(h)
		h.user(1, 1, fmt.Sprintf("UMtSend %s %s %s %s %s %s %s %d", hxS("tibc-mt/"+A+"/"+B+"/"+mtCls[i]), hxS(mtID[i]), hxS(h.addr(1, 1)), hxS(h.addr(0, 2)), hxS(A), hxS(""), hxS(""), 10),
			StepDesc{Op: "mt-send", Args: []string{mtV[i], mtID[i]}},
			mttransfertypes.NewMsgMtTransfer(mtV[i], mtID[i], h.addr(1, 1), h.addr(0, 2), A, "", "", 10))
	})
	tw.doApp(func(h *AppH) { h.relayLast() })
	// a second token of the same class arrives after the import: the trace is created again
	tw.doApp(func(h *AppH) { h.NftSend(0, 1, "kitty", "jerry", h.addr(1, 2), B, "") })
	tw.doApp(func(h *AppH) { h.relayLast() })
	// canonicalise voucher class ids in the terms of network b recorded after the re-import
	for k := nb; k < len(tw.b.steps); k++ {
		for from, to := range memo {
			tw.b.steps[k] = strings.ReplaceAll(tw.b.steps[k], from, to)
		}
	}
	for k, m := range tw.marks {
		for from, to := range memo {
			m = strings.ReplaceAll(m, from, to)
		}
		tw.marks[k] = m
	}
	tw.finish()
	e.rep.Count("family:twin-class-traces")
}
